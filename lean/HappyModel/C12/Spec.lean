/-!
# C12 — Spec predicates over *observed* values

Property text (properties.jsonl C12): "any two nodes that report a decided value for the same
instance (single-decree Paxos, Flexible Paxos with intersecting quorums, each slot of Multi-Paxos)
report the same value, that value was proposed by some client, a reported decision never changes,
and a proposer's future resolves with the decided value. … a leader-election component never
reports two different leaders for the same term, and distributed-lock fencing tokens strictly
increase across grants."

Everything here reads only what a user of the public API sees: `is_decided` / `decided_value`
after every delivered event, the values handed to `propose()` / `submit()`, resolved futures,
`(current_leader, current_term)` of election nodes, applied log entries, and lock grants.
The same predicates are used by the theorems (on model runs) and by the driver's judge modes (on
implementation transcripts).
-/
namespace HappyModel.C12.Spec

/-- one consensus instance as observed: values proposed, the per-node report history in time order
    (`none` = "not decided"), and resolved futures -/
structure Inst where
  proposed : List Nat
  reports : List (Nat × Option Nat)        -- (node, decided value after a step), in time order
  futs : List (Nat × Nat)                  -- (future id, value it resolved with)

/-- all reported decisions -/
def Inst.decisions (o : Inst) : List Nat := o.reports.filterMap (·.2)

def allEq : List Nat → Bool
  | [] => true
  | x :: xs => xs.all (· == x)

/-- any two reports of a decided value carry the same value -/
def agreement (o : Inst) : Bool := allEq o.decisions

/-- every reported decision was handed to propose() by some client -/
def validity (o : Inst) : Bool := o.decisions.all (o.proposed.contains ·)

/-- per node: once a value is reported, every later report of that node is the same value -/
def stableFrom : Option Nat → List (Option Nat) → Bool
  | _, [] => true
  | none, x :: xs => stableFrom x xs
  | some v, x :: xs => x == some v && stableFrom (some v) xs

def stability (o : Inst) : Bool :=
  let nodes := (o.reports.map (·.1)).eraseDups
  nodes.all fun n => stableFrom none ((o.reports.filter (·.1 == n)).map (·.2))

/-- a resolved future carries a value that some node reports as decided and no node contradicts -/
def futures (o : Inst) : Bool :=
  o.futs.all fun f => o.decisions.contains f.2 && o.decisions.all (· == f.2)

/-- `propose()` on a node that already reports a decision: `(reported before the call, what the returned
    future is resolved with when the call returns)` — the future is resolved at once, with that decision -/
def proposeCallOk (c : Option Nat × Option Nat) : Bool :=
  match c.1 with
  | some d => c.2 == some d
  | none => true

def judgeCalls (pfx : String) (calls : List (Option Nat × Option Nat)) : Option String :=
  if !calls.all proposeCallOk then some (pfx ++ "/future/unresolved-on-decided-node") else none

/-- first violated clause, as a signature -/
def judgeInst (pfx : String) (o : Inst) : Option String :=
  if !stability o then some (pfx ++ "/stability/decision-changed")
  else if !agreement o then some (pfx ++ "/agreement/two-values")
  else if !validity o then some (pfx ++ "/validity/unproposed-value")
  else if !futures o then some (pfx ++ "/future/resolved-with-other-value")
  else none

/-! ## Phase 1 reports (single-decree Paxos): a promise names the acceptor's highest accepted proposal

Observables are the messages seen on the network (C12 `observe_at`):
* a *vote* `(acceptor, ballot, value)` — the acceptor answered `Accept(ballot, value)` with `Accepted`
  (lower bound of what it accepted), or it is the owner of `ballot` and sent `Accept(ballot, value)` itself
  (it may have accepted its own proposal: upper bound);
* a *promise* `(acceptor, ballot, reported)` — the acceptor answered `Prepare(ballot)` with a `Promise`
  whose `accepted_ballot` / `accepted_value` fields are `reported` (`none` = "nothing accepted yet").

`promiseCovers`: every vote of the acceptor in a ballot below the promised one is covered by the report
(the report is not `none` and names a ballot at least as high) — whatever the accepted value is (0, '',
False, None are values like any other).  `promiseReal`: a reported proposal is one the acceptor voted for,
in a ballot not above the promised one.  Both are order-free: an acceptor that promised `b` never votes
below `b` afterwards, so a vote below `b` was cast before the promise. -/

abbrev Vote := Nat × Nat × Nat
abbrev Prom := Nat × Nat × Option (Nat × Nat)

def promiseCovers (votes : List Vote) (p : Prom) : Bool :=
  votes.all fun w => !(w.1 == p.1 && decide (w.2.1 < p.2.1)) ||
    (match p.2.2 with
     | some (bm, _) => decide (w.2.1 ≤ bm)
     | none => false)

def promiseReal (votes : List Vote) (p : Prom) : Bool :=
  match p.2.2 with
  | none => true
  | some (bm, vm) => votes.contains (p.1, bm, vm) && decide (bm ≤ p.2.1)

/-- `lo` ⊆ the votes really cast ⊆ `hi` -/
def judgePromises (pfx : String) (lo hi : List Vote) (proms : List Prom) : Option String :=
  if !proms.all (promiseCovers lo) then some (pfx ++ "/promise/hides-accepted-value")
  else if !proms.all (promiseReal hi) then some (pfx ++ "/promise/reports-value-never-accepted")
  else none

/-! ## Replicated log (Multi-Paxos / Flexible Paxos): a leader commits only on a phase-2 quorum

Observables recorded by the harness entities, in time order:
* `prop p b slot cmd` — node `p` sent `Accept(b, slot, cmd)` (it holds that entry in its own log);
* `acc d b slot cmd`  — node `d` answered `Accept(b, slot, cmd)` with `Accepted`;
* `ack p slot ci0 ci1 b cmd` — an `Accepted` for `slot` was delivered to node `p`; its public
  `log.commit_index` was `ci0` before and `ci1` after the delivery, its ballot afterwards is `b` and
  its log holds `cmd` at `slot` (0 = nothing).  `ci0 < ci1` is a *commit by the leader*;
* `prom p bn l0 l1` — phase 1, see below;
* `pled p b l1`, `asg p slot`, `pcar d b slot cmd` — leadership after a promise, see further below.

Two readings of "a slot is decided only once a phase-2 quorum accepted it":
* `commitQuorum q2` (acknowledgement form, judged): at a commit by the leader at least `q2`
  acknowledgements for the slot exist — the leader's own entry plus every `Accepted` for the slot
  delivered to it so far.  This is implied by the distinct-acceptor form below.
* `commitQuorumStrict q2` (distinct-acceptor form): at least `q2` *distinct* nodes accepted
  `(ballot, slot, value)`.  The pinned tree does not satisfy it (acknowledgements are counted per
  slot, so a duplicate `Accepted` of one acceptor counts twice; see
  `MP.commit_distinct_quorum_current_false`); it is evaluated only when asked for.
-/

inductive LogObs
  | prop (p b slot cmd : Nat)
  | acc (d b slot cmd : Nat)
  | ack (p slot ci0 ci1 b cmd : Nat)
  | prom (p bn : Nat) (l0 l1 : Bool)
  | pled (p b : Nat) (l1 : Bool)          -- `p` answered a Prepare for ballot `b` with a Promise; `l1` = its `is_leader` afterwards
  | asg (p slot : Nat)                    -- a `submit()` call on `p` made its public log grow: `p` assigned `slot` itself
  | pcar (d b slot cmd : Nat)             -- a Promise for ballot `b` sent to `d` carried `cmd` at `slot`
deriving Repr, DecidableEq

/-- `ok hist o` for every observation `o` of the list, `hist` = the observations before it (newest first) -/
def checkAll (ok : List LogObs → LogObs → Bool) : List LogObs → List LogObs → Bool
  | _, [] => true
  | hist, o :: rest => ok hist o && checkAll ok (o :: hist) rest

def isAck (p slot : Nat) : LogObs → Bool
  | .ack p' s' _ _ _ _ => p' == p && s' == slot
  | _ => false

/-- `Accepted` messages for `slot` delivered to `p` (history, any order) -/
def ackCnt (hist : List LogObs) (p slot : Nat) : Nat := hist.countP (isAck p slot)

/-- the observation `o`, made after the history `hist`, is not a commit by a leader with fewer
    than `q2` acknowledgements (own entry + delivered `Accepted`, this one included) -/
def commitAcksOk (q2 : Nat) (hist : List LogObs) : LogObs → Bool
  | .ack p slot ci0 ci1 _ _ => decide (ci1 ≤ ci0) || decide (q2 ≤ 1 + (ackCnt hist p slot + 1))
  | _ => true

/-- acknowledgement form over a whole observation list (`hist` = what came before, newest first) -/
def commitQuorum (q2 : Nat) : List LogObs → List LogObs → Bool := checkAll (commitAcksOk q2)

def accepterOf (b slot cmd : Nat) : LogObs → Option Nat
  | .prop p b' s' c' => if b' == b && s' == slot && c' == cmd then some p else none
  | .acc d b' s' c' => if b' == b && s' == slot && c' == cmd then some d else none
  | _ => none

/-- distinct nodes that accepted `(b, slot, cmd)` -/
def accepters (hist : List LogObs) (b slot cmd : Nat) : List Nat :=
  (hist.filterMap (accepterOf b slot cmd)).eraseDups

def commitStrictOk (q2 : Nat) (hist : List LogObs) : LogObs → Bool
  | .ack _ slot ci0 ci1 b cmd => decide (ci1 ≤ ci0) || decide (q2 ≤ (accepters hist b slot cmd).length)
  | _ => true

/-- distinct-acceptor form -/
def commitQuorumStrict (q2 : Nat) : List LogObs → List LogObs → Bool := checkAll (commitStrictOk q2)

/-- first violated clause of the commit rule, as a signature (`strict` adds the distinct-acceptor form) -/
def judgeCommit (pfx : String) (q2 : Nat) (strict : Bool) (obs : List LogObs) : Option String :=
  if !commitQuorum q2 [] obs then some (pfx ++ "/commit/without-phase2-quorum")
  else if strict && !commitQuorumStrict q2 [] obs then some (pfx ++ "/commit/fewer-distinct-acceptors-than-phase2-quorum")
  else none

/-! ### phase 1: a node becomes leader only on a phase-1 quorum of promises

`prom p bn l0 l1` — a phase-1 response for ballot number `bn` reached node `p`: its own `start()`
(the node's own promise) or a delivered `Promise`; `l0` / `l1` = its public `is_leader` before / after.
`l0 = false`, `l1 = true` is *becoming leader*: at least `q1` responses for `bn` (this one included)
must have reached `p`. -/

def isProm (p bn : Nat) : LogObs → Bool
  | .prom p' b' _ _ => p' == p && b' == bn
  | _ => false

def promCnt (hist : List LogObs) (p bn : Nat) : Nat := hist.countP (isProm p bn)

def leaderOk (q1 : Nat) (hist : List LogObs) : LogObs → Bool
  | .prom p bn l0 l1 => l0 || !l1 || decide (q1 ≤ promCnt hist p bn + 1)
  | _ => true

def leaderQuorum (q1 : Nat) : List LogObs → List LogObs → Bool := checkAll (leaderOk q1)

def judgeLeader (pfx : String) (q1 : Nat) (obs : List LogObs) : Option String :=
  if !leaderQuorum q1 [] obs then some (pfx ++ "/leader/without-phase1-quorum") else none

/-! ### a node that promised another node's ballot does not act as leader

`pled p b l1` — node `p` answered a `Prepare` for ballot `b` (a ballot of another node, at least as
high as its own) with a `Promise`; `l1` = its public `is_leader` afterwards.
`asg p slot` — a client's `submit()` on `p` made the public log of `p` grow: `p` assigned `slot`
to the command itself (only a leader does; any other node parks the command).

* `promiseClears`: after promising, `is_leader` is false.
* `deposedSilent q1`: a node is *deposed* from the moment it sends such a promise until a phase-1
  response (`prom`) leaves it leader again — by a `false → true` transition (which the phase-1 rule
  judges) or with a phase-1 quorum of responses for that ballot number.  A deposed node neither assigns a
  slot (`asg`) nor sends an `Accept` (`prop`): it would stamp them with the ballot of the node it promised. -/

def promiseClearsOk : LogObs → Bool
  | .pled _ _ l1 => !l1
  | _ => true

def promiseClears : List LogObs → List LogObs → Bool := checkAll (fun _ o => promiseClearsOk o)

/-- `hist` newest first -/
def deposed (q1 : Nat) : List LogObs → Nat → Bool
  | [], _ => false
  | .pled p' _ _ :: hist, p => p' == p || deposed q1 hist p
  | .prom p' bn l0 l1 :: hist, p =>
    if p' == p && (l1 && (!l0 || decide (q1 ≤ promCnt hist p bn + 1))) then false else deposed q1 hist p
  | _ :: hist, p => deposed q1 hist p

def assignOk (q1 : Nat) (hist : List LogObs) : LogObs → Bool
  | .asg p _ => !deposed q1 hist p
  | .prop p _ _ _ => !deposed q1 hist p
  | _ => true

def deposedSilent (q1 : Nat) : List LogObs → List LogObs → Bool := checkAll (assignOk q1)

def judgeDeposed (pfx : String) (q1 : Nat) (obs : List LogObs) : Option String :=
  if !deposedSilent q1 [] obs then some (pfx ++ "/leader/deposed-leader-assigns-slot")
  else if !promiseClears [] obs then some (pfx ++ "/leader/still-leader-after-promising-higher-ballot")
  else none

/-! ### what introduced the second value of a slot

When two different commands are reported as decided for slot `k`, the `prop` / `pcar` observations
tell how the second one came about.  `(sender, ballot)` pairs that proposed `v` for `k`: -/

def proposers (obs : List LogObs) (k v : Nat) : List (Nat × Nat) :=
  obs.filterMap fun
    | .prop p b s c => if s == k && c == v then some (p, b) else none
    | _ => none

def carried (obs : List LogObs) (d b k v : Nat) : Bool := obs.contains (.pcar d b k v)

/-- suffix of the agreement signature:
* `/value-never-proposed-for-slot` — one of the two commands was never sent in an `Accept` for `k` (an
  acceptor stored it at another position than the slot named in the `Accept`, or a leader committed its own entry);
* `/one-ballot-two-proposers` — both commands were proposed for `k` under one ballot by two different nodes
  (a node proposes under a ballot it does not own);
* `/after-leader-change-ignoring-promise-logs` — the commands were proposed under different ballots and a
  `Promise` sent to the proposer of one of them, for the ballot it proposed under, carried the other command at `k`;
* `/after-leader-change` — different ballots, no such promise;
* empty — one node proposed both commands for `k` under one ballot. -/
def twoValuesTrigger (obs : List LogObs) (k v1 v2 : Nat) : String :=
  let P1 := proposers obs k v1
  let P2 := proposers obs k v2
  if P1.isEmpty || P2.isEmpty then "/value-never-proposed-for-slot"
  else if P1.any (fun a => P2.any fun c => a.2 == c.2 && a.1 != c.1) then "/one-ballot-two-proposers"
  else if P1.any (fun a => P2.any fun c => a.2 == c.2) then ""
  else if P1.any (fun a => carried obs a.1 a.2 k v2) || P2.any (fun c => carried obs c.1 c.2 k v1) then
    "/after-leader-change-ignoring-promise-logs"
  else "/after-leader-change"

/-- the first reported decision and the first one that differs from it -/
def twoVals : List Nat → Option (Nat × Nat)
  | [] => none
  | x :: xs => (xs.find? (· != x)).map fun y => (x, y)

/-- `judgeInst` for one slot of a replicated log: the agreement signature names its trigger -/
def judgeSlot (pfx : String) (obs : List LogObs) (k : Nat) (o : Inst) : Option String :=
  if !stability o then some (pfx ++ "/stability/decision-changed")
  else if !agreement o then
    some (pfx ++ "/agreement/two-values" ++
      (match twoVals o.decisions with
       | some (v1, v2) => twoValuesTrigger obs k v1 v2
       | none => ""))
  else if !validity o then some (pfx ++ "/validity/unproposed-value")
  else if !futures o then some (pfx ++ "/future/resolved-with-other-value")
  else none

/-! ### bounded progress under one stable leader (fault-free, quiet)

"On a fault-free network with bounded delays … a command submitted to an established leader is eventually
decided and applied": judged in the bounded form *the run went quiet and the work is done*.  A run is a quiet
fault-free stable-leader run when `start()` was called exactly once (nobody competes with that ballot), no
partition was ever installed, and every `Prepare` / `Promise` / `Accept` / `Accepted` / `Nack` that was sent has
been delivered before the end (nothing lost, nothing still in flight).  In such a run every slot the leader
replicated (it sent `Accept(slot, cmd)`: `prop leader _ slot cmd`) is committed on the leader with that command
at the end (`finalCom` = its committed commands in slot order), and the `submit()` future of that command is
resolved with `(slot, result of that command)` — in whatever order the acknowledgements of different slots came
back.  Commands the leader never replicated are not covered (the pinned tree parks a command submitted to a
non-leader and appends, without replicating, a command submitted to an established leader). -/

structure Quiet where
  leader : Nat
  starts : Nat
  partitions : Nat
  sent : Nat
  delivered : Nat
deriving Repr

def Quiet.stable (q : Quiet) : Bool := q.starts == 1 && q.partitions == 0 && q.sent == q.delivered

/-- `(slot, cmd)` of the `Accept` messages sent by `p` -/
def leaderProps (obs : List LogObs) (p : Nat) : List (Nat × Nat) :=
  obs.filterMap fun
    | .prop p' _ s c => if p' == p then some (s, c) else none
    | _ => none

def slotCommitted (com : List Nat) (sc : Nat × Nat) : Bool :=
  decide (1 ≤ sc.1) && com[sc.1 - 1]? == some sc.2

/-- `subs` = `(future id, command)` of every `submit()`; `futs` = `(future id, slot, result)` of every resolved future -/
def futureResolved (subs : List (Nat × Nat)) (futs : List (Nat × Nat × Nat)) (sc : Nat × Nat) : Bool :=
  subs.all fun f => f.2 != sc.2 || futs.contains (f.1, sc.1, sc.2)

def judgeProgress (pfx : String) (q : Quiet) (obs : List LogObs) (finalCom : List Nat)
    (subs : List (Nat × Nat)) (futs : List (Nat × Nat × Nat)) : Option String :=
  if !q.stable then none
  else if !(leaderProps obs q.leader).all (slotCommitted finalCom) then
    some (pfx ++ "/progress/replicated-slot-never-committed-by-stable-leader")
  else if !(leaderProps obs q.leader).all (futureResolved subs futs) then
    some (pfx ++ "/progress/future-never-resolved-by-stable-leader")
  else none

/-! ## Distributed lock: fencing tokens strictly increase across grants -/

/-- an observed grant: (lock, holder, token) -/
abbrev Grant := Nat × Nat × Nat

/-- A grant is *fresh* (token above every token seen so far) or a re-entrant repeat of the latest
    grant of the same lock to the same holder. `seen` = grants so far, newest first. -/
def grantOk (seen : List Grant) (g : Grant) : Bool :=
  seen.all (fun h => h.2.2 < g.2.2) ||
    (match seen.find? (fun h => h.1 == g.1) with
     | some h => h == g
     | none => false)

def fencing : List Grant → List Grant → Bool
  | _, [] => true
  | seen, g :: gs => grantOk seen g && fencing (g :: seen) gs

/-- tokens of the *distinct* grants, in grant order -/
def freshTokens : List Grant → List Grant → List Nat
  | _, [] => []
  | seen, g :: gs => if seen.contains g then freshTokens seen gs else g.2.2 :: freshTokens (g :: seen) gs

def judgeLock (gs : List Grant) : Option String :=
  if fencing [] gs then none else some "lock/fencing/token-not-increasing"

/-! ## Leader election: one leader per term -/

/-- observed reports `(node, term, leader)` with `leader` = a node index -/
def oneLeaderPerTerm (rs : List (Nat × Nat × Nat)) : Bool :=
  rs.all fun a => rs.all fun b => a.2.1 != b.2.1 || a.2.2 == b.2.2

def judgeElection (rs : List (Nat × Nat × Nat)) : Option String :=
  if oneLeaderPerTerm rs then none else some "election/one-leader-per-term/two-leaders"

/-- The known weakness (terms are per-node counters) needs differing or changing member views: a node
    that joins counts its own terms.  When every node was given the same member set and no `add_member`
    happened during the run, two leaders for one term get a signature of their own. -/
def judgeElectionV (identicalStaticViews : Bool) (rs : List (Nat × Nat × Nat)) : Option String :=
  if oneLeaderPerTerm rs then none
  else if identicalStaticViews then some "election/one-leader-per-term/two-leaders-with-identical-static-views"
  else some "election/one-leader-per-term/two-leaders"

/-! ### within one node: the reported leader of a term

One handler invocation on node `node` as a user sees it: the public `(current_term, current_leader)`
before (`t0`, `l0`) and after (`t1`, `l1`); for a delivered `LeaderHeartbeat`, `isHb` and the term it
carried (`hterm`).

* `staleHbOk`: a heartbeat stamped with a term older than the receiver's current term changes neither
  the term nor the leader it reports (the sender was deposed in the meantime).
* `withinTermOk`: when the reported leader changes although the term does not move, the step is the
  delivery of a heartbeat carrying exactly that term.  (Two leaders claiming one term number is the known
  weakness of per-node term counters, judged by `oneLeaderPerTerm`; any other way of swapping the leader
  inside a term is not.) -/

structure ElStep where
  node : Nat
  isHb : Bool
  hterm : Nat
  t0 : Nat
  l0 : Option Nat
  t1 : Nat
  l1 : Option Nat
deriving Repr, DecidableEq

def staleHbOk (o : ElStep) : Bool :=
  !(o.isHb && decide (o.hterm < o.t0)) || (o.t1 == o.t0 && o.l1 == o.l0)

def leaderSwapped (o : ElStep) : Bool := o.t1 == o.t0 && o.l0.isSome && o.l1 != o.l0

def withinTermOk (o : ElStep) : Bool := !leaderSwapped o || (o.isHb && decide (o.t0 ≤ o.hterm))

def judgeElSteps (os : List ElStep) : Option String :=
  if !os.all staleHbOk then some "election/leader/changed-within-term-by-stale-heartbeat"
  else if !os.all withinTermOk then some "election/leader/changed-within-term-without-heartbeat"
  else none

end HappyModel.C12.Spec
