import HappyModel.Proto
import HappyModel.C12.Paxos
import HappyModel.C12.Spec
import HappyModel.C12.Lock
import HappyModel.C12.MultiPaxos
import HappyModel.C12.MPObs
import HappyModel.C12.Election
/-! Line-protocol driver for C12 (see `hv/props/c12.py` for the other side).

Modes
* `paxos <variant> <n> <q1> <q2>` — body: one schedule entry per line (the events the real engine
  delivered, in delivery order); output: the model's transcript in the format of `impl_paxos`.
* `judge-inst <prefix>` — body: `proposed v` / `rep node v|-` / `fut id v` lines.
* `mpaxos <flex> <n> <q1> <q2>` — Multi-Paxos / Flexible Paxos schedule replay (phase 1 uses q1, commit uses q2).
* `judge-log <prefix> <n> <q1> <q2> <acks|strict>` — body: `sub` / `com` / `fut` lines plus the
  observations `prop` / `acc` / `ack` / `prom` / `pled` / `asg` / `pcar` (`Spec.LogObs`); the commit rule, the
  phase-1 rule and the deposed-leader rule are judged first (their signatures are independent of the per-slot
  agreement signatures, whose two-values clause names its trigger from the same observations).
* `judge-election [identical-static|mixed]` (were all nodes given the same member set, with no `add_member` later) — body: `rep node term leader` (reports) and `st node lhb|other hterm t0 l0 t1 l1` (one per
  handler invocation); the per-node rules (stale heartbeat, leader swapped inside a term) are judged first.
-/
namespace HappyModel.C12.Driver
open HappyModel.Proto HappyModel.C12

/-! ### single-decree Paxos -/
section paxos
open Px

/-- "num.idx" → encoded ballot -/
def parseBallot (n : Nat) (t : String) : Nat :=
  match t.splitOn "." with
  | [a, b] => natD a * n + natD b
  | _ => 0

def showBallot (n : Nat) (b : Nat) : String := s!"{b / n}.{b % n}"
def showOB (n : Nat) : Option Nat → String
  | none => "-"
  | some b => showBallot n b
def showAcc (n : Nat) : AccV → String
  | none => "-"
  | some (b, v) => s!"{showBallot n b}:{v}"
def showOV : Option Nat → String
  | none => "-"
  | some v => toString v

def nodeLine (s : St) (i : Nat) : String :=
  let n := s.cfg.n
  s!"  node {i} cur {s.cur i} prom {showOB n (s.acc i).promised} acc {showAcc n (s.acc i).accepted} dec {showOV (s.decided i)}"

def peers (n p : Nat) : List Nat := (List.range n).filter (· != p)

/-- schedule entry → model action (the ballot picked by `propose` / `retry` is the one the code
    computes from `_current_ballot` and `_promised_ballot`) -/
def parseAct (s : St) (ts : List String) : Option Act :=
  let n := s.cfg.n
  match ts with
  | ["propose", p, v] =>
    let p := natD p
    let pn := match (s.acc p).promised with | some q => q / n | none => 0
    some (.propose p ((max (s.cur p) pn + 1) * n + p) (natD v))
  | ["retry", p, num] =>
    let p := natD p
    some (.retry p (natD num * n + p) ((s.cur p + 1) * n + p))
  | ["nack", b, hi] => some (.nack (parseBallot n b) (natD hi))
  | ["prepare", b, d] => some (.recvPrepare (parseBallot n b) (natD d))
  | ["promise", b, f] => some (.recvPromise (parseBallot n b) (natD f))
  | ["accept", b, d] => some (.recvAccept (parseBallot n b) (natD d))
  | ["accepted", b, f] => some (.recvAccepted (parseBallot n b) (natD f))
  | ["decided", f, d] => some (.recvDecided (natD f) (natD d))
  | _ => none

def actNode (n : Nat) : Act → Nat
  | .propose p _ _ => p
  | .retry p _ _ => p
  | .nack b _ => b % n
  | .recvPrepare _ d => d
  | .recvPromise b _ => b % n
  | .recvAccept _ d => d
  | .recvAccepted b _ => b % n
  | .recvDecided _ d => d
  | _ => 0

def decidedLines (s s' : St) (p : Nat) : List String :=
  match s.decided p, s'.decided p with
  | none, some v => (peers s.cfg.n p).map fun d => s!"  send Decided {d} {v}"
  | _, _ => []

/-- messages and timers the handler returns, mirroring the code's `events` lists (`s` before, `s'` after) -/
def emits (var : Variant) (s s' : St) (a : Act) : List String :=
  let n := s.cfg.n
  match a with
  | .propose p b _ =>
    if (s.ownVal b).isNone && (s'.ownVal b).isSome then
      (peers n p).map fun d => s!"  send Prepare {d} {showBallot n b}"
    else []
  | .retry p _ bn =>
    if (s.ownVal bn).isNone && (s'.ownVal bn).isSome then
      (peers n p).map fun d => s!"  send Prepare {d} {showBallot n bn}"
    else []
  | .nack b _ => if s.live b then [s!"  timer Retry {b / n}"] else []
  | .recvPrepare b d =>
    if s.mPrep b d && decide (d < n) then
      if leOpt (s.acc d).promised b then
        [s!"  send Promise {b % n} {showBallot n b} {showAcc n (s.acc d).accepted}"]
      else
        [s!"  send Nack {b % n} {showBallot n b} {match (s.acc d).promised with | some q => q / n | none => 0}"]
    else []
  | .recvPromise b f =>
    let p := b % n
    let started : Bool :=
      match var with
      | .repaired => (s.started2 b).isNone && (s'.started2 b).isSome
      | .current => (s.mProm b f).isSome && (s.ownVal b).isSome && decide (s.cfg.q1 ≤ (s'.p1 b).length)
    (if started then
      (peers n p).map fun d => s!"  send Accept {d} {showBallot n b} {(s'.started2 b).getD 0}"
     else []) ++ decidedLines s s' p
  | .recvAccept b d =>
    if (s.mAcpt b d).isSome && decide (d < n) then
      if leOpt (s.acc d).promised b then [s!"  send Accepted {b % n} {showBallot n b}"]
      else [s!"  send Nack {b % n} {showBallot n b} {match (s.acc d).promised with | some q => q / n | none => 0}"]
    else []
  | .recvAccepted b _ => decidedLines s s' (b % n)
  | _ => []

def futLines (s s' : St) : List String :=
  (List.range s'.nfut).filterMap fun k =>
    match s.futRes k, s'.futRes k with
    | none, some v => some s!"  fut {k} {v}"
    | _, _ => none

def runPaxos (var : Variant) (n q1 q2 : Nat) (body : List String) : List String :=
  let rec go (s : St) (k : Nat) : List String → List String
    | [] =>
      (List.range n).map (fun i => s!"final {i} {showOV (s.decided i)}") ++
      (List.range s.nfut).map (fun f => s!"finalfut {f} {s.futOwner f} {showOV (s.futRes f)}")
    | l :: ls =>
      match parseAct s (toks l) with
      | none => s!"bad-action {l}" :: go s (k + 1) ls
      | some a =>
        let s' := stepV var s a
        (s!"step {k} {l}" :: nodeLine s' (actNode n a) :: (emits var s s' a ++ futLines s s')) ++ go s' (k + 1) ls
  go (init n q1 q2) 0 body

end paxos

/-! ### judge: one consensus instance -/

def parseInst (body : List String) : Spec.Inst :=
  body.foldl (fun (o : Spec.Inst) l =>
    match toks l with
    | ["proposed", v] => { o with proposed := o.proposed ++ [natD v] }
    | ["rep", nd, v] => { o with reports := o.reports ++ [(natD nd, nat? v)] }
    | ["fut", f, v] => { o with futs := o.futs ++ [(natD f, natD v)] }
    | _ => o) ⟨[], [], []⟩

/-- `b:v` or `-` -/
def parseRep (t : String) : Option (Nat × Nat) :=
  match t.splitOn ":" with
  | [b, v] => some (natD b, natD v)
  | _ => none

/-- body: the instance lines, plus the network observations `vote d b v` (node `d` answered `Accept(b, v)`
    with `Accepted`), `aprop p b v` (`p` sent `Accept(b, v)`), `prm f b -|bm:vm` (`f` answered `Prepare(b)`
    with a `Promise` reporting `bm:vm`); ballots as naturals `number * n + node`; `pcall p d|- v|-` (a `propose()`
    call on node `p`: its reported decision before the call, what the returned future is resolved with right away) -/
def judgeInstBlock (pfx : String) (body : List String) : List String :=
  match Spec.judgeInst pfx (parseInst body) with
  | some sig => [s!"viol {sig}"]
  | none =>
    let lo : List Spec.Vote := body.filterMap fun l =>
      match toks l with | ["vote", d, b, v] => some (natD d, natD b, natD v) | _ => none
    let own : List Spec.Vote := body.filterMap fun l =>
      match toks l with | ["aprop", p, b, v] => some (natD p, natD b, natD v) | _ => none
    let proms : List Spec.Prom := body.filterMap fun l =>
      match toks l with | ["prm", f, b, r] => some (natD f, natD b, parseRep r) | _ => none
    let calls : List (Option Nat × Option Nat) := body.filterMap fun l =>
      match toks l with | ["pcall", _, b, r] => some (nat? b, nat? r) | _ => none
    match Spec.judgePromises pfx lo (lo ++ own) proms with
    | none =>
      (match Spec.judgeCalls pfx calls with
       | none => ["ok"]
       | some sig => [s!"viol {sig}"])
    | some sig =>
      let bad := proms.find? fun p => !Spec.promiseCovers lo p || !Spec.promiseReal (lo ++ own) p
      let det := match bad with
        | some (f, b, r) => s!" node {f} promise for ballot {b} reports " ++
            (match r with | some (bm, vm) => s!"{bm}:{vm}" | none => "nothing")
        | none => ""
      [s!"viol {sig}{det}"]

/-! ### distributed lock -/

/-- `acqreq` / `relreq` are the event forms (`LockAcquireRequest` with a reply future, `LockReleaseRequest`):
    the same operations; a release request reports nothing (second component = hide the result) -/
def parseLockOp (ts : List String) : Option (Lock.Op × Bool) :=
  match ts with
  | ["acquire", l, r] => some (.acquire (natD l) (natD r), false)
  | ["acqreq", l, r] => some (.acquire (natD l) (natD r), false)
  | ["try", l, r] => some (.tryAcquire (natD l) (natD r), false)
  | ["release", l, t] => some (.release (natD l) (natD t), false)
  | ["relreq", l, t] => some (.release (natD l) (natD t), true)
  | ["expire", l, t] => some (.expire (natD l) (natD t), false)
  | _ => none

def showRes : Lock.Res → String
  | .grant t => s!"grant {t}"
  | .queued => "queued"
  | .rejected => "rejected"
  | .none_ => "none"
  | .ok b => if b then "true" else "false"
  | .unit => "-"

/-- `falsyHolder`: the requester whose name is the empty string; `get_fencing_token` tests the truth value of
    the holder and reports None for it -/
def runLock (maxW : Nat) (falsyHolder : Option Nat) (body : List String) : List String :=
  let rec go (s : Lock.St) (k : Nat) : List String → List String
    | [] => []
    | l :: ls =>
      match parseLockOp (toks l) with
      | none => s!"bad-op {l}" :: go s (k + 1) ls
      | some (o, hide) =>
        let r := Lock.step s o
        let st := r.1.locks o.lock
        let wake := match r.2.wake with | some (w, t) => s!" wake {w} {t}" | none => ""
        let hold := match st.holder with
          | some h => if some h == falsyHolder then s!"{h} -" else s!"{h} {st.token}"
          | none => "- -"
        let res := if hide then "-" else showRes r.2.res
        s!"op {k} {l} -> {res}{wake} | holder {hold} waiters {st.waiters.length}" :: go r.1 (k + 1) ls
  go (Lock.init maxW) 0 body

def judgeLockBlock (body : List String) : List String :=
  let gs : List Spec.Grant := body.filterMap fun l =>
    match toks l with
    | ["grant", l, r, t] => some (natD l, natD r, natD t)
    | _ => none
  match Spec.judgeLock gs with
  | none => ["ok"]
  | some sig => [s!"viol {sig}"]

/-! ### Multi-Paxos / Flexible Paxos -/
section mp
open MP

def showB (n b : Nat) : String := s!"{b / n}.{b % n}"
def showLog (l : List Entry) : String :=
  if l.isEmpty then "-" else ",".intercalate (l.map fun e => s!"{e.term}:{e.cmd}")

def parseB (n : Nat) (t : String) : Nat :=
  match t.splitOn "." with
  | [a, b] => natD a * n + natD b
  | _ => 0

def parseMP (n : Nat) (ts : List String) : Option (MP.Act × Nat) :=
  match ts with
  | ["start", p] => some (.start (natD p), natD p)
  | ["submit", p, c] => some (.submit (natD p) (natD c), natD p)
  | ["prepare", d, b] => some (.prepare (natD d) (parseB n b), natD d)
  | ["promise", p, bn] => some (.promise (natD p) (natD bn), natD p)
  | ["accept", d, src, b, slot, cmd, ci] =>
    some (.accept (natD d) (natD src) (parseB n b) (natD slot) (natD cmd) (natD ci), natD d)
  | ["accepted", p, slot] => some (.accepted (natD p) (natD slot), natD p)
  | ["hb", d, b, ci] => some (.hb (natD d) (parseB n b) (natD ci), natD d)
  | ["selfhb", p, b, ci] => some (.selfhb (natD p) (parseB n b) (natD ci), natD p)
  | ["nack", p, b] => some (.nack (natD p) (parseB n b), natD p)
  | _ => none

def showMsg (n : Nat) : Msg → String
  | .prepare d b => s!"  send Prepare {d} {showB n b}"
  | .promise d b l ci => s!"  send Promise {d} {showB n b} {showLog l} {ci}"
  | .nack d b => s!"  send Nack {d} {showB n b}"
  | .accept d b slot cmd ci => s!"  send Accept {d} {showB n b} {slot} {cmd} {ci}"
  | .accepted d bn slot => s!"  send Accepted {d} {bn} {slot}"
  | .hb d b ci => s!"  send Heartbeat {d} {showB n b} {ci}"
  | .timer b ci => s!"  timer Heartbeat {showB n b} {ci}"

def mpNodeLine (s : MP.St) (i : Nat) : String :=
  let nd := getNode s i
  let ldr := match nd.leader with | some l => toString l | none => "-"
  s!"  node {i} b {showB s.n nd.ballot} L {showBool nd.isLeader} ldr {ldr} ci {nd.commit} ap {nd.applied} log {showLog nd.log}"

def runMP (flex : Bool) (n q1 q2 : Nat) (body : List String) : List String :=
  let rec go (s : MP.St) (k : Nat) : List String → List String
    | [] => []
    | l :: ls =>
      match parseMP n (toks l) with
      | none => s!"bad-action {l}" :: go s (k + 1) ls
      | some (a, i) =>
        let r := MP.step s a
        let newF := (r.1.futRes.drop s.futRes.length).map fun f => s!"  fut {f.1} {f.2.1} {f.2.2}"
        (s!"step {k} {l}" :: mpNodeLine r.1 i :: (r.2.map (showMsg n) ++ newF)) ++ go r.1 (k + 1) ls
  go (MP.init n q1 q2 flex) 0 body

end mp

/-! ### leader election -/
section election
open El

def showNatList (l : List Nat) : String := if l.isEmpty then "-" else ",".intercalate (l.map toString)
def parseNatList (t : String) : List Nat := if t == "-" then [] else (t.splitOn ",").map natD

def parseEl (ts : List String) : Option (El.Act × Nat) :=
  match ts with
  | ["timeout", p, e] => some (.timeout (natD p) (e == "1"), natD p)
  | ["add", p, m] => some (.addMember (natD p) (natD m), natD p)
  | ["challenge", d, c] => some (.challenge (natD d) (natD c), natD d)
  | ["suppress", d] => some (.suppress (natD d), natD d)
  | ["victory", d, l] => some (.victory (natD d) (natD l), natD d)
  | ["token", d, i, t, cs] => some (.token (natD d) (natD i) (natD t) (parseNatList cs), natD d)
  | ["ballot", d, f, t] => some (.ballot (natD d) (natD f) (natD t) 0, natD d)
  | ["ballotresp", d] => some (.ballotResp (natD d), natD d)
  | ["lhb", d, l, t] => some (.lhb (natD d) (natD l) (natD t), natD d)
  | _ => none

def showElMsg : El.Msg → String
  | .challenge d c t => s!"  send Challenge {d} {c} {t}"
  | .suppress d f => s!"  send Suppress {d} {f}"
  | .victory d l t => s!"  send Victory {d} {l} {t}"
  | .token d i cs t => s!"  send Token {d} {i} {t} {showNatList cs}"
  | .ballot d f x t => s!"  send Ballot {d} {f} {x} {t}"
  | .ballotResp d f x t => s!"  send BallotResp {d} {f} {x} {t}"
  | .lhb d l t => s!"  send LHB {d} {l} {t}"
  | .timer => "  timer"

def elNodeLine (s : El.St) (i : Nat) : String :=
  let nd := El.getNode s i
  let ldr := match nd.leader with | some l => toString l | none => "-"
  s!"  node {i} ldr {ldr} term {nd.term} prog {showBool nd.inProg} mem {showNatList nd.members}"

def stratOf (t : String) : El.Strat := if t == "ring" then .ring else if t == "rand" then .rand else .bully

/-- header: strategy, then one `members i m1,m2,…` line per node, a `draws d1,d2,…` line, then the schedule -/
def runElection (strat : String) (body : List String) : List String :=
  let mem := body.filterMap fun l =>
    match toks l with | ["members", _, ms] => some (parseNatList ms) | _ => none
  let draws := (body.findSome? fun l => match toks l with | ["draws", ds] => some (parseNatList ds) | _ => none).getD [1]
  let sched := body.filter fun l => match toks l with | "members" :: _ => false | "draws" :: _ => false | _ => true
  let st := stratOf strat
  let rec go (s : El.St) (k dk : Nat) : List String → List String
    | [] => []
    | l :: ls =>
      match parseEl (toks l) with
      | none => s!"bad-action {l}" :: go s (k + 1) dk ls
      | some (a, i) =>
        let draw := draws.getD (dk % draws.length) 1
        let a' := match a with | .ballot d f t _ => El.Act.ballot d f t draw | x => x
        let r := El.step s draw a'
        let used : Bool := st == .rand && (match a with
          | .ballot _ _ _ _ => true
          | .timeout p _ => (El.getNode r.1 p).term != (El.getNode s p).term
          | _ => false)
        (s!"step {k} {l}" :: elNodeLine r.1 i :: r.2.map showElMsg) ++ go r.1 (k + 1) (if used then dk + 1 else dk) ls
  go { strat := st, nodes := mem.map fun m => { members := m } } 0 0 sched

def judgeElectionBlock (uniform : Bool) (body : List String) : List String :=
  let rs : List (Nat × Nat × Nat) := body.filterMap fun l =>
    match toks l with | ["rep", nd, t, ld] => some (natD nd, natD t, natD ld) | _ => none
  let showOL : Option Nat → String := fun | some l => toString l | none => "-"
  let steps : List Spec.ElStep := body.filterMap fun l =>
    match toks l with
    | ["st", nd, kind, ht, t0, l0, t1, l1] =>
      some { node := natD nd, isHb := kind == "lhb", hterm := natD ht, t0 := natD t0, l0 := nat? l0, t1 := natD t1, l1 := nat? l1 }
    | _ => none
  -- the enabledness hypothesis of the message-soup theorems: a delivered Victory / LeaderHeartbeat / Token was sent before
  let unsent : Option String := (body.foldl (fun (acc : List (List String) × Option String) l =>
      match toks l with
      | "snt" :: rest => (rest :: acc.1, acc.2)
      | "dlv" :: rest => if acc.2.isSome || acc.1.contains rest then acc else (acc.1, some (" ".intercalate rest))
      | _ => acc) ([], none)).2
  match unsent with
  | some m => [s!"viol election/network/delivered-message-never-sent {m}"]
  | none =>
  match Spec.judgeElSteps steps with
  | some sig =>
    let bad := steps.find? fun o => !Spec.staleHbOk o || !Spec.withinTermOk o
    let det := match bad with
      | some o => s!" node {o.node} term {o.t0}->{o.t1} leader {showOL o.l0}->{showOL o.l1}" ++
                  (if o.isHb then s!" on a heartbeat stamped term {o.hterm}" else "")
      | none => ""
    [s!"viol {sig}{det}"]
  | none =>
  match Spec.judgeElectionV uniform rs with
  | none => ["ok"]
  | some sig => [s!"viol {sig}"]

end election

/-- judge for a replicated log: `sub fid cmd` / `com node c1 c2 …` (committed commands of a node after
    a step, in slot order) / `fut fid slot val`. One `Spec.Inst` per slot. -/
def parseLogObs (n : Nat) (body : List String) : List Spec.LogObs :=
  body.filterMap fun l =>
    match toks l with
    | ["prop", p, b, slot, cmd] => some (.prop (natD p) (parseB n b) (natD slot) (natD cmd))
    | ["acc", d, b, slot, cmd] => some (.acc (natD d) (parseB n b) (natD slot) (natD cmd))
    | ["ack", p, slot, ci0, ci1, b, cmd] =>
      some (.ack (natD p) (natD slot) (natD ci0) (natD ci1) (parseB n b) (natD cmd))
    | ["prom", p, bn, l0, l1] => some (.prom (natD p) (natD bn) (l0 == "1") (l1 == "1"))
    | ["pled", p, b, l1] => some (.pled (natD p) (parseB n b) (l1 == "1"))
    | ["asg", p, slot] => some (.asg (natD p) (natD slot))
    | ["pcar", d, b, slot, cmd] => some (.pcar (natD d) (parseB n b) (natD slot) (natD cmd))
    | _ => none

/-- detail for a commit-rule violation: the first `ack` observation that is a commit by the leader
    with too few acknowledgements / distinct acceptors -/
def firstBadCommit (q2 : Nat) (strict : Bool) : List Spec.LogObs → List Spec.LogObs → String
  | _, [] => ""
  | hist, o :: rest =>
    let bad := !Spec.commitAcksOk q2 hist o || (strict && !Spec.commitStrictOk q2 hist o)
    match bad, o with
    | true, .ack p slot ci0 ci1 b cmd =>
      s!"node {p} slot {slot} commit {ci0}->{ci1} acks {1 + (Spec.ackCnt hist p slot + 1)} " ++
      s!"distinct-acceptors {(Spec.accepters hist b slot cmd).length} q2 {q2}"
    | _, _ => firstBadCommit q2 strict (o :: hist) rest

/-- detail for a phase-1 violation -/
def firstBadLeader (q1 : Nat) : List Spec.LogObs → List Spec.LogObs → String
  | _, [] => ""
  | hist, o :: rest =>
    match !Spec.leaderOk q1 hist o, o with
    | true, .prom p bn _ _ => s!"node {p} ballot-number {bn} responses {Spec.promCnt hist p bn + 1} q1 {q1}"
    | _, _ => firstBadLeader q1 (o :: hist) rest

/-- detail for a deposed-leader violation -/
def firstBadDeposed (n q1 : Nat) : List Spec.LogObs → List Spec.LogObs → String
  | _, [] => ""
  | hist, o :: rest =>
    match !Spec.assignOk q1 hist o, o with
    | true, .asg p slot => s!"node {p} assigned slot {slot} to a submitted command after promising another node's ballot"
    | true, .prop p b slot cmd => s!"node {p} sent Accept ballot {showB n b} slot {slot} cmd {cmd} after promising another node's ballot"
    | _, _ =>
      match !Spec.promiseClearsOk o, o with
      | true, .pled p b _ => s!"node {p} is_leader after promising ballot {showB n b}" ++
          (let r := firstBadDeposed n q1 (o :: hist) rest; if r.isEmpty then "" else " ; " ++ r)
      | _, _ => firstBadDeposed n q1 (o :: hist) rest

def judgeLogBlock (pfx : String) (n q1 q2 : Nat) (strict : Bool) (body : List String) : List String :=
  let obs := parseLogObs n body
  match Spec.judgeCommit pfx q2 strict obs with
  | some sig => [s!"viol {sig} {firstBadCommit q2 strict [] obs}"]
  | none =>
  match Spec.judgeLeader pfx q1 obs with
  | some sig => [s!"viol {sig} {firstBadLeader q1 [] obs}"]
  | none =>
  match Spec.judgeDeposed pfx q1 obs with
  | some sig => [s!"viol {sig} {firstBadDeposed n q1 [] obs}"]
  | none =>
  let subs : List (Nat × Nat) := body.filterMap fun l =>
    match toks l with | ["sub", f, c] => some (natD f, natD c) | _ => none
  let coms : List (Nat × List Nat) := body.filterMap fun l =>
    match toks l with | "com" :: nd :: cs => some (natD nd, nats cs) | _ => none
  let futs : List (Nat × Nat × Nat) := body.filterMap fun l =>
    match toks l with | ["fut", f, sl, v] => some (natD f, natD sl, natD v) | _ => none
  let maxSlot := coms.foldl (fun m c => max m c.2.length) 0
  let slots := (List.range maxSlot).map (· + 1)
  let bad := slots.findSome? fun k =>
    let inst : Spec.Inst :=
      { proposed := subs.map (·.2),
        reports := coms.map fun c => (c.1, c.2[k - 1]?),
        futs := (futs.filter (·.2.1 == k)).map fun f => (f.1, f.2.2) }
    (Spec.judgeSlot pfx obs k inst).map fun sig => s!"{sig} slot {k}"
  match bad with
  | some sig => [s!"viol {sig}"]
  | none =>
    match futs.find? (fun f => (subs.find? (·.1 == f.1)).map (·.2) != some f.2.2) with
    | some f => [s!"viol {pfx}/future/resolved-with-other-command fut {f.1}"]
    | none =>
      match futs.find? (fun f => f.2.1 > maxSlot) with
      | some f => [s!"viol {pfx}/future/resolved-for-undecided-slot fut {f.1}"]
      | none =>
        -- bounded progress (quiet fault-free stable-leader runs only): `cnt leader starts partitions sent delivered`
        let q : Option Spec.Quiet := body.findSome? fun l =>
          match toks l with
          | ["cnt", p, st, pa, se, de] => some ⟨natD p, natD st, natD pa, natD se, natD de⟩
          | _ => none
        match q with
        | none => ["ok"]
        | some q =>
          let finalCom := ((coms.filter (·.1 == q.leader)).getLast?.map (·.2)).getD []
          match Spec.judgeProgress pfx q obs finalCom subs futs with
          | none => ["ok"]
          | some sig =>
            let bad := (Spec.leaderProps obs q.leader).find? fun sc =>
              !Spec.slotCommitted finalCom sc || !Spec.futureResolved subs futs sc
            let det := match bad with
              | some (sl, c) => s!" leader {q.leader} slot {sl} cmd {c} committed {finalCom.length}"
              | none => ""
            [s!"viol {sig}{det}"]

def variantOf (v : String) : Px.Variant := if v == "current" then .current else .repaired

def handle (hdr : List String) (body : List String) : List String :=
  match hdr with
  | ["paxos", v, n, q1, q2] => runPaxos (variantOf v) (natD n) (natD q1) (natD q2) body
  | ["judge-inst", pfx] => judgeInstBlock pfx body
  | ["lock", maxW] => runLock (natD maxW) none body
  | ["lock", maxW, fh] => runLock (natD maxW) (nat? fh) body
  | ["mpaxos", flex, n, q1, q2] => runMP (flex == "1") (natD n) (natD q1) (natD q2) body
  | ["judge-log", pfx] => judgeLogBlock pfx 0 0 0 false body
  | ["judge-log", pfx, n, q1, q2, mode] => judgeLogBlock pfx (natD n) (natD q1) (natD q2) (mode == "strict") body
  | ["election", strat] => runElection strat body
  | ["judge-election"] => judgeElectionBlock false body
  | ["judge-election", views] => judgeElectionBlock (views == "identical-static") body
  | ["judge-lock"] => judgeLockBlock body
  | _ => ["bad-mode"]

end HappyModel.C12.Driver
