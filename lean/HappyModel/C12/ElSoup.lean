import HappyModel.C12.ElObs
/-!
# C12 — `LeaderElection` as a message-passing system (message soup)

`El.step` replays one delivered event whose payload is taken from the implementation's schedule.  Here the
payloads are tied to what was sent: `Sys` keeps every message ever sent, and an action that delivers a
`Victory`, a `LeaderHeartbeat` or a ring `Token` is enabled only if such a message is in the soup.  Delivery
does not remove a message (duplication), any enabled action may come next (reordering, arbitrary delays), a
message need never be delivered (loss, partitions).  Timers fire at any time with any expiry verdict;
challenges, suppressions, ballots and ballot responses (which never name a leader) are unconstrained — a
superset of what the engine can do.  `add_member` is not an action of this system: member views are static.
-/
namespace HappyModel.C12.El

structure Sys where
  st : St
  soup : List Msg
deriving Repr

def isVictoryOf (d l : Nat) : Msg → Bool
  | .victory d' l' _ => d' == d && l' == l
  | _ => false

def enabled (y : Sys) : Act → Bool
  | .addMember _ _ => false
  | .victory d l => y.soup.any (isVictoryOf d l)
  | .lhb d l t => y.soup.contains (.lhb d l t)
  | .token d i t cs => y.soup.contains (.token d i cs t)
  | _ => true

/-- one handler invocation on a node of the cluster, if enabled (otherwise nothing happens) -/
def sysStep (y : Sys) (draw : Nat) (a : Act) : Sys :=
  if actor a < y.st.nodes.length ∧ enabled y a = true then
    { st := (step y.st draw a).1, soup := (step y.st draw a).2 ++ y.soup }
  else y

/-- a schedule: the random draw and the action of every step -/
def sysRun (y : Sys) : List (Nat × Act) → Sys
  | [] => y
  | (draw, a) :: as => sysRun (sysStep y draw a) as

/-- what `judge_election` collects: `(node, current_term, current_leader)` of the node whose handler ran,
    after every step, when it has a leader -/
def sysReports (y : Sys) : List (Nat × Act) → List (Nat × Nat × Nat)
  | [] => []
  | (draw, a) :: as =>
    (match report (sysStep y draw a).st (actor a) with
     | some (t, l) => [(actor a, t, l)]
     | none => []) ++ sysReports (sysStep y draw a) as

/-- every node is given its member view (any insertion order) before the run -/
def sysInit (strat : Strat) (views : List (List Nat)) : Sys :=
  { st := { strat := strat, nodes := views.map fun m => { members := m } }, soup := [] }

/-- identical views: each of the `n` nodes knows exactly the nodes `0 … n-1` -/
def UniformViews (n : Nat) (views : List (List Nat)) : Prop :=
  views.length = n ∧ ∀ m ∈ views, m.Nodup ∧ ∀ x, x ∈ m ↔ x < n

end HappyModel.C12.El
