/-!
# C12 — single-decree Paxos as coded in `components/consensus/paxos.py`

Message-passing model (DESIGN §4): per-node handler functions over node state plus a soup of sent
messages; one `Act` per delivered event / client call / timer / loss.

* Ballot `(number, node)` is encoded as `b = number * n + nodeIndex` (order preserving for node
  names whose string order is their index order); `owner b = b % n`, `number b = b / n`.
  The code keys its tallies by ballot *number* inside the proposing node, which is the same key
  because a node never reuses a number (`_current_ballot` only grows).
* Network: at most one message of each kind per (ballot, peer) is ever sent by the repaired code,
  so the in-flight set is kept as per-(ballot, peer) slots; delivery or loss empties a slot.
  Nacks and retry timers carry no slot: `nack` and `retry` may fire at any time (a superset of
  what the code can do — retrying is always safe).
* `variant`: `repaired` = phase 2 entered once per ballot (when the promise count first reaches the
  quorum) and responses to a ballot abandoned by a retry ignored (fixes/C12-paxos-phase2-once.diff);
  `current` = the pinned tree: phase 2 restarted on every promise at or beyond quorum, tallies of
  abandoned ballots stay live (`stepCur`).
* Quorum sizes `q1` (phase 1) and `q2` (phase 2) are configuration; `PaxosNode` uses
  `n / 2 + 1` for both; the theorems need only `n < q1 + q2` and `0 < q2` (Flexible Paxos).
* `votes`, `proms`, `proposedVals` are history variables used only by the proofs (constant-time
  conses; nothing the driver prints reads them).
-/
namespace HappyModel.C12.Px

abbrev Val := Nat
abbrev AccV := Option (Nat × Val)      -- highest accepted (ballot, value)

structure Acceptor where
  promised : Option Nat := none
  accepted : AccV := none
deriving Repr

structure Cfg where
  n : Nat
  q1 : Nat
  q2 : Nat
deriving Repr, DecidableEq

structure St where
  cfg : Cfg
  acc : Nat → Acceptor
  cur : Nat → Nat                           -- node → `_current_ballot.number`
  ownVal : Nat → Option Val                 -- ballot → value handed to it (ballot ever used iff some)
  live : Nat → Bool                         -- ballot still in `_proposed_values` (not retired by a retry)
  p1 : Nat → List (Nat × AccV)              -- ballot → promises received (sender, reported accepted), newest first
  started2 : Nat → Option Val               -- ballot → value sent in phase 2
  acks : Nat → List Nat                     -- ballot → acceptors counted (the code keeps the length)
  decided : Nat → Option Val                -- node → learned value
  -- futures returned by propose()
  nfut : Nat
  futOwner : Nat → Nat                      -- future → node it was returned by
  futOf : Nat → Option Nat                  -- ballot → future it resolves
  futRes : Nat → Option Val                 -- future → value it resolved with
  -- in flight
  mPrep : Nat → Nat → Bool                  -- ballot → dst
  mProm : Nat → Nat → Option AccV           -- ballot → from
  mAcpt : Nat → Nat → Option Val            -- ballot → dst
  mAcptd : Nat → Nat → Bool                 -- ballot → from
  mDec : Nat → Nat → Option Val             -- from → dst
  -- history (proofs only)
  votes : List (Nat × Nat × Val)            -- (acceptor, ballot, value) ever accepted
  proms : List (Nat × Nat × AccV)           -- (acceptor, ballot, reported) ever promised
  proposedVals : List Val                   -- values ever handed to propose()

def majority (n : Nat) : Nat := n / 2 + 1

@[noinline] def upd {β} (f : Nat → β) (i : Nat) (x : β) : Nat → β := fun j => if j = i then x else f j
@[noinline] def upd2 {β} (f : Nat → Nat → β) (i j : Nat) (x : β) : Nat → Nat → β :=
  fun a b => if a = i ∧ b = j then x else f a b

@[simp] theorem upd_same {β} (f : Nat → β) (i : Nat) (x : β) : upd f i x i = x := by simp [upd]
theorem upd_other {β} (f : Nat → β) (i j : Nat) (x : β) (h : j ≠ i) : upd f i x j = f j := by simp [upd, h]

def ltOpt (p : Option Nat) (b : Nat) : Prop := match p with | none => True | some q => q < b
def leOpt (p : Option Nat) (b : Nat) : Prop := match p with | none => True | some q => q ≤ b
instance (p b) : Decidable (ltOpt p b) := by unfold ltOpt; cases p <;> infer_instance
instance (p b) : Decidable (leOpt p b) := by unfold leOpt; cases p <;> infer_instance

/-- value of the highest accepted ballot among promises (list is newest first; the code scans
    oldest first and replaces on strictly greater, i.e. the oldest among equal maxima wins) -/
def pickVal : List (Nat × AccV) → Option (Nat × Val) → Option (Nat × Val)
  | [], best => best
  | (_, none) :: rest, best => pickVal rest best
  | (_, some (b, v)) :: rest, none => pickVal rest (some (b, v))
  | (_, some (b, v)) :: rest, some (bb, bv) =>
      if b ≥ bb then pickVal rest (some (b, v)) else pickVal rest (some (bb, bv))

inductive Act
  | propose (p b : Nat) (v : Val)      -- client: `propose(v)` + `start_phase1()` on node p; b = the ballot it picks
  | retry (p bo bn : Nat)              -- PaxosRetry timer for original ballot bo; bn = the new ballot
  | nack (b hi : Nat)                  -- PaxosNack for ballot b delivered to its owner, carrying number hi
  | recvPrepare (b d : Nat)
  | recvPromise (b f : Nat)
  | recvAccept (b d : Nat)
  | recvAccepted (b f : Nat)
  | recvDecided (f d : Nat)
  | dropPrep (b d : Nat) | dropProm (b f : Nat) | dropAcpt (b d : Nat) | dropAcptd (b f : Nat) | dropDec (f d : Nat)
deriving Repr

inductive Variant | repaired | current
deriving DecidableEq, Repr

/-- `_decide(ballot, value)` at the owner of ballot b -/
def decide_ (s : St) (b : Nat) (v : Val) : St :=
  if (s.decided (b % s.cfg.n)).isSome then s else
  { s with decided := upd s.decided (b % s.cfg.n) (some v),
           mDec := fun f d => if f = b % s.cfg.n ∧ d ≠ b % s.cfg.n ∧ d < s.cfg.n then some v else s.mDec f d,
           futRes := match s.futOf b with
                     | some fid => upd s.futRes fid (some v)
                     | none => s.futRes }

/-- the value `_start_phase2` sends for ballot b: value of the highest reported ballot, else the
    ballot's own value (`_proposed_values.get(b)`; `None` = 0 when the entry was deleted) -/
def phase2Val (s : St) (b : Nat) : Val :=
  match pickVal (s.p1 b) none with
  | some (_, v) => v
  | none => (s.ownVal b).getD 0

def startPhase2 (s : St) (b : Nat) : St :=
  let p := b % s.cfg.n
  let v := phase2Val s b
  let selfOk := decide ((s.acc p).promised = some b)     -- `ballot >= promised`; promised ≥ b after start_phase1
  let s1 : St := { s with
    started2 := upd s.started2 b (some v),
    acc := if selfOk then upd s.acc p { (s.acc p) with accepted := some (b, v) } else s.acc,
    acks := upd s.acks b (if selfOk then [p] else []),
    votes := if selfOk then (p, b, v) :: s.votes else s.votes,
    mAcpt := fun b' d => if b' = b ∧ d ≠ p ∧ d < s.cfg.n then some v else s.mAcpt b' d }
  if s.cfg.q2 ≤ (s1.acks b).length then decide_ s1 b v else s1

/-- new ballot b of node p carrying v: `_proposed_values[b] = v`, Prepare to every peer, self-promise
    (`_handle_prepare_internal`) when `b >= promised` -/
def beginBallot (s : St) (p b : Nat) (v : Val) : St :=
  let selfOk := decide (leOpt (s.acc p).promised b)
  { s with
    ownVal := upd s.ownVal b (some v),
    live := upd s.live b true,
    cur := upd s.cur p (b / s.cfg.n),
    acc := if selfOk then upd s.acc p { (s.acc p) with promised := some b } else s.acc,
    p1 := upd s.p1 b (if selfOk then [(p, (s.acc p).accepted)] else []),
    proms := if selfOk then (p, b, (s.acc p).accepted) :: s.proms else s.proms,
    mPrep := fun b' d => if b' = b ∧ d ≠ p ∧ d < s.cfg.n then true else s.mPrep b' d }

/-- `_proposed_values[b]`: overwritten with the phase-2 value once phase 2 has started -/
def ballotVal (s : St) (b : Nat) : Option Val :=
  match s.started2 b with
  | some w => some w
  | none => s.ownVal b

def step (s : St) : Act → St
  | .propose p b v =>
    if p < s.cfg.n then
      let s0 : St := { s with nfut := s.nfut + 1, futOwner := upd s.futOwner s.nfut p,
                              proposedVals := v :: s.proposedVals }
      match s.decided p with
      | some d => { s0 with futRes := upd s.futRes s.nfut (some d) }
      | none =>
        if b % s.cfg.n = p ∧ (s.ownVal b).isNone then
          beginBallot { s0 with futOf := upd s.futOf b (some s.nfut) } p b v
        else s0
    else s
  | .retry p bo bn =>
    if p < s.cfg.n ∧ bo % s.cfg.n = p ∧ bn % s.cfg.n = p ∧ s.live bo = true ∧ (s.decided p).isNone
        ∧ (s.ownVal bn).isNone then
      match ballotVal s bo with
      | some v =>
        beginBallot { s with live := upd s.live bo false,
                             futOf := upd (upd s.futOf bn (s.futOf bo)) bo none } p bn v
      | none => s
    else s
  | .nack b hi => { s with cur := upd s.cur (b % s.cfg.n) (max (s.cur (b % s.cfg.n)) hi) }
  | .recvPrepare b d =>
    if s.mPrep b d = true ∧ d < s.cfg.n then
      let s0 := { s with mPrep := upd2 s.mPrep b d false }
      if leOpt (s.acc d).promised b then
        { s0 with acc := upd s.acc d { (s.acc d) with promised := some b },
                  proms := (d, b, (s.acc d).accepted) :: s.proms,
                  mProm := upd2 s.mProm b d (some (s.acc d).accepted) }
      else s0                                   -- nack
    else s
  | .recvPromise b f =>
    match s.mProm b f with
    | some a =>
      let s0 := { s with mProm := upd2 s.mProm b f none }
      if (s.ownVal b).isSome ∧ s.live b = true then
        let s1 := { s0 with p1 := upd s.p1 b ((f, a) :: s.p1 b) }
        if s.cfg.q1 ≤ (s1.p1 b).length ∧ (s.started2 b).isNone then startPhase2 s1 b else s1
      else s0
    | none => s
  | .recvAccept b d =>
    match s.mAcpt b d with
    | some v =>
      if d < s.cfg.n then
        let s0 := { s with mAcpt := upd2 s.mAcpt b d none }
        if leOpt (s.acc d).promised b then
          { s0 with acc := upd s.acc d { promised := some b, accepted := some (b, v) },
                    votes := (d, b, v) :: s.votes,
                    mAcptd := upd2 s.mAcptd b d true }
        else s0
      else s
    | none => s
  | .recvAccepted b f =>
    if s.mAcptd b f = true then
      let s0 := { s with mAcptd := upd2 s.mAcptd b f false }
      if s.live b = true then
        let s1 := { s0 with acks := upd s.acks b (f :: s.acks b) }
        match s.started2 b with
        | some v => if s.cfg.q2 ≤ (s1.acks b).length then decide_ s1 b v else s1
        | none => s1
      else s0
    else s
  | .recvDecided f d =>
    match s.mDec f d with
    | some v =>
      let s0 := { s with mDec := upd2 s.mDec f d none }
      if (s.decided d).isSome then s0 else { s0 with decided := upd s.decided d (some v) }
    | none => s
  | .dropPrep b d => { s with mPrep := upd2 s.mPrep b d false }
  | .dropProm b f => { s with mProm := upd2 s.mProm b f none }
  | .dropAcpt b d => { s with mAcpt := upd2 s.mAcpt b d none }
  | .dropAcptd b f => { s with mAcptd := upd2 s.mAcptd b f false }
  | .dropDec f d => { s with mDec := upd2 s.mDec f d none }

def init (n q1 q2 : Nat) : St :=
  { cfg := ⟨n, q1, q2⟩, acc := fun _ => {}, cur := fun _ => 0, ownVal := fun _ => none, live := fun _ => false,
    p1 := fun _ => [], started2 := fun _ => none,
    acks := fun _ => [], decided := fun _ => none,
    nfut := 0, futOwner := fun _ => 0, futOf := fun _ => none, futRes := fun _ => none,
    mPrep := fun _ _ => false, mProm := fun _ _ => none, mAcpt := fun _ _ => none,
    mAcptd := fun _ _ => false, mDec := fun _ _ => none,
    votes := [], proms := [], proposedVals := [] }

def runActs (s : St) : List Act → St
  | [] => s
  | a :: as => runActs (step s a) as

/-! ## The pinned tree (`current`) -/

/-- `_start_phase2` as on the pinned tree, callable repeatedly for one ballot: the fallback value is
    `_proposed_values.get(b)` (`None` = 0 after a retry deleted it); the ack count is reset to 1
    only on a self-accept -/
def startPhase2Cur (s : St) (b : Nat) : St :=
  let p := b % s.cfg.n
  let v := match pickVal (s.p1 b) none with
           | some (_, w) => w
           | none => if s.live b then (ballotVal s b).getD 0 else 0
  let selfOk := decide (leOpt (s.acc p).promised b)
  let s1 : St := { s with
    started2 := upd s.started2 b (some v),
    acc := if selfOk then upd s.acc p { (s.acc p) with accepted := some (b, v) } else s.acc,
    acks := if selfOk then upd s.acks b [p] else s.acks,
    votes := if selfOk then (p, b, v) :: s.votes else s.votes,
    mAcpt := fun b' d => if b' = b ∧ d ≠ p ∧ d < s.cfg.n then some v else s.mAcpt b' d }
  if s.cfg.q2 ≤ (s1.acks b).length then decide_ s1 b v else s1

/-- the code as it is on the pinned tree: `_handle_promise` calls `_start_phase2` on *every* promise at
    or beyond quorum (also for a ballot abandoned by a retry, whose `_phase1_responses` entry is never
    deleted), and `_handle_accepted` keeps counting for abandoned ballots and decides
    `_proposed_values.get(b)` -/
def stepCur (s : St) : Act → St
  | .recvPromise b f =>
    match s.mProm b f with
    | some a =>
      let s0 := { s with mProm := upd2 s.mProm b f none }
      if (s.ownVal b).isSome then
        let s1 := { s0 with p1 := upd s.p1 b ((f, a) :: s.p1 b) }
        if s.cfg.q1 ≤ (s1.p1 b).length then startPhase2Cur s1 b else s1
      else s0
    | none => s
  | .recvAccepted b f =>
    if s.mAcptd b f = true then
      let s1 := { s with mAcptd := upd2 s.mAcptd b f false, acks := upd s.acks b (f :: s.acks b) }
      if s.cfg.q2 ≤ (s1.acks b).length then
        decide_ s1 b (if s.live b then (ballotVal s b).getD 0 else 0)
      else s1
    else s
  | a => step s a

def stepV : Variant → St → Act → St
  | .repaired => step
  | .current => stepCur

def runCur (s : St) : List Act → St
  | [] => s
  | a :: as => runCur (stepCur s a) as

end HappyModel.C12.Px
