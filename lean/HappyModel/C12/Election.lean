/-!
# C12 — `LeaderElection` with Bully / Ring / Randomized strategies (leader_election.py,
election_strategies.py), as coded

Executable mirror: an action is one delivered event with its payload (payloads are compared when
they are sent).  Node names `n0`, `n1`, … are their indices (string order = index order).
`_current_term` is a per-node counter: `+1` when the node starts an election and `+1` whenever a
strategy result names a leader — the `term` carried by Victory messages is ignored.
`alive_members` is always the node's full member dict, in insertion order.
-/
namespace HappyModel.C12.El

inductive Strat | bully | ring | rand
deriving DecidableEq, Repr

structure Node where
  leader : Option Nat := none
  term : Nat := 0
  inProg : Bool := false
  members : List Nat                   -- keys of `_members`, insertion order
deriving Repr

structure St where
  strat : Strat
  nodes : List Node
deriving Repr

inductive Act
  | timeout (p : Nat) (expired : Bool)        -- ElectionTimeoutCheck; `expired` = now - last heartbeat > timeout
  | addMember (p m : Nat)                     -- `add_member`
  | challenge (d c : Nat)                     -- ElectionChallenge from challenger c
  | suppress (d : Nat)
  | victory (d leader : Nat)
  | token (d init term : Nat) (cands : List Nat)
  | ballot (d frm term draw : Nat)            -- ElectionBallot; `draw` = the random ballot d answers with
  | ballotResp (d : Nat)
  | lhb (d leader term : Nat)                 -- LeaderHeartbeat
deriving Repr

inductive Msg
  | challenge (dst c term : Nat)
  | suppress (dst frm : Nat)
  | victory (dst leader term : Nat)
  | token (dst init : Nat) (cands : List Nat) (term : Nat)
  | ballot (dst frm draw term : Nat)
  | ballotResp (dst frm draw term : Nat)
  | lhb (dst leader term : Nat)
  | timer
deriving Repr, DecidableEq

def getNode (s : St) (i : Nat) : Node := s.nodes.getD i { members := [] }
def setNode (s : St) (i : Nat) (x : Node) : St := { s with nodes := s.nodes.set i x }

def insertSorted (x : Nat) : List Nat → List Nat
  | [] => [x]
  | y :: ys => if x ≤ y then x :: y :: ys else y :: insertSorted x ys
def sortNat (l : List Nat) : List Nat := l.foldr insertSorted []

def maxOf : List Nat → Nat
  | [] => 0
  | x :: xs => max x (maxOf xs)

/-- next node after d on the sorted ring of `members ∪ {d}` -/
def ringNext (members : List Nat) (d : Nat) : Nat :=
  let ring := sortNat (members.filter (· != d) ++ [d])
  let idx := (ring.findIdx? (· == d)).getD 0
  ring.getD ((idx + 1) % ring.length) d

/-- `get_election_messages` (draw = the random ballot of RandomizedStrategy) -/
def electionMsgs (st : Strat) (p : Nat) (members : List Nat) (term draw : Nat) : List Msg :=
  match st with
  | .bully =>
    let higher := members.filter (· > p)
    if higher.isEmpty then (members.filter (· != p)).map fun m => Msg.victory m p term
    else higher.map fun m => Msg.challenge m p term
  | .ring => [Msg.token (ringNext members p) p [p] term]
  | .rand => (members.filter (· != p)).map fun m => Msg.ballot m p draw term

def Msg.dst : Msg → Nat
  | .challenge d _ _ | .suppress d _ | .victory d _ _ | .token d _ _ _ | .ballot d _ _ _
  | .ballotResp d _ _ _ | .lhb d _ _ => d
  | .timer => 0

def Msg.isVictory : Msg → Bool
  | .victory _ _ _ => true
  | _ => false

/-- `_start_election` -/
def startElection (st : Strat) (p : Nat) (nd : Node) (draw : Nat) : Node × List Msg :=
  let nd1 := { nd with inProg := true, term := nd.term + 1 }
  let msgs := electionMsgs st p nd1.members nd1.term draw
  let sent := msgs.filter fun m => nd1.members.contains m.dst
  let nd2 := if msgs.isEmpty then { nd1 with leader := some p, inProg := false } else nd1
  let nd3 := if !msgs.isEmpty && msgs.all Msg.isVictory then { nd2 with leader := some p, inProg := false } else nd2
  (nd3, sent)

/-- the tail of `_handle_election_message` after the strategy answered -/
def finish (st : Strat) (d : Nat) (nd : Node) (resp : List Msg) (leader : Option Nat) (startOwn suppress : Bool)
    (draw : Nat) : Node × List Msg :=
  let sent := resp.filter fun m => nd.members.contains m.dst
  let nd1 := match leader with
    | some l => { nd with leader := some l, term := nd.term + 1, inProg := false }
    | none => nd
  let r := if startOwn && !nd1.inProg then startElection st d nd1 draw else (nd1, [])
  let nd3 := if suppress then { r.1 with inProg := false } else r.1
  (nd3, sent ++ r.2)

/-- one handler invocation; `draw` feeds RandomizedStrategy's `random.randint` when an election starts -/
def step (s : St) (draw : Nat) : Act → St × List Msg
  | .addMember p m =>
    let nd := getNode s p
    (setNode s p { nd with members := if nd.members.contains m then nd.members else nd.members ++ [m] }, [])
  | .timeout p expired =>
    let nd := getNode s p
    if nd.leader = some p then
      (s, (nd.members.filter (· != p)).map (fun m => Msg.lhb m p nd.term) ++ [Msg.timer])
    else if !nd.inProg && expired then
      let r := startElection s.strat p nd draw
      (setNode s p r.1, r.2 ++ [Msg.timer])
    else (s, [Msg.timer])
  | .challenge d c =>
    let nd := getNode s d
    match s.strat with
    | .bully =>
      if d > c then
        let r := finish s.strat d nd [Msg.suppress c d] none true false draw
        (setNode s d r.1, r.2)
      else (s, [])
    | _ => (s, [])
  | .suppress d =>
    let nd := getNode s d
    match s.strat with
    | .bully => (setNode s d { nd with inProg := false }, [])
    | _ => (s, [])
  | .victory d leader =>
    let nd := getNode s d
    let r := finish s.strat d nd [] (some leader) false true draw
    (setNode s d r.1, r.2)
  | .token d init term cands =>
    let nd := getNode s d
    match s.strat with
    | .ring =>
      if init = d then
        let l := maxOf cands
        let r := finish s.strat d nd ((nd.members.filter (· != d)).map fun m => Msg.victory m l term)
                   (some l) false true draw
        (setNode s d r.1, r.2)
      else
        let r := finish s.strat d nd [Msg.token (ringNext nd.members d) init (cands ++ [d]) term] none false false draw
        (setNode s d r.1, r.2)
    | _ => (s, [])
  | .ballot d frm term my =>
    let nd := getNode s d
    match s.strat with
    | .rand =>
      let r := finish s.strat d nd [Msg.ballotResp frm d my term] none false false draw
      (setNode s d r.1, r.2)
    | _ => (s, [])
  | .ballotResp _ => (s, [])
  | .lhb d leader term =>
    let nd := getNode s d
    if term ≥ nd.term then (setNode s d { nd with leader := some leader, term := term, inProg := false }, [])
    else (s, [])

def run (s : St) : List Act → St
  | [] => s
  | a :: as => run (step s 1 a).1 as

/-- what node i reports: `(current_term, current_leader)` when it has a leader -/
def report (s : St) (i : Nat) : Option (Nat × Nat) :=
  let nd := getNode s i
  nd.leader.map fun l => (nd.term, l)

end HappyModel.C12.El
