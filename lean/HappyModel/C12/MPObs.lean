import HappyModel.C12.MultiPaxos
import HappyModel.C12.Spec
/-!
# C12 — what a run of the Multi-Paxos and Flexible-Paxos model shows to the commit-rule judge

`obsStep s a` is the list of `Spec.LogObs` observations the harness would record for the handler
invocation `a` in state `s` (the same three kinds of lines `hv/props/c12.py:judge_mpaxos` extracts
from an implementation transcript):

* every `Accept` message returned by the handler of node `p` → `prop p b slot cmd`;
* an `Accept` answered with `Accepted` by node `d` → `acc d b slot cmd`;
* an `Accepted` delivered to node `p` → `ack p slot ci0 ci1 b cmd` with the commit index of `p`
  before and after, its ballot and its log entry at `slot` afterwards;
* `start p` and a `Promise` delivered to `p` → `prom p bn l0 l1` with the ballot number concerned and
  `is_leader` of `p` before and after;
* a `Prepare` answered with a `Promise` by node `d` → `pled d b l1` (`is_leader` of `d` afterwards) and one
  `pcar dst b slot cmd` per log entry the promise carries;
* a `submit()` on `p` that makes its log grow → `asg p slot`.
-/
namespace HappyModel.C12.MP
open HappyModel.C12.Spec

/-- the node whose handler runs -/
def actor : Act → Nat
  | .start p => p
  | .submit p _ => p
  | .prepare d _ => d
  | .promise p _ => p
  | .accept d _ _ _ _ _ => d
  | .accepted p _ => p
  | .hb d _ _ => d
  | .selfhb p _ _ => p
  | .nack p _ => p

def propOf (p : Nat) : Msg → Option LogObs
  | .accept _ b slot cmd _ => some (.prop p b slot cmd)
  | _ => none

def cmdAt (nd : Node) (slot : Nat) : Nat :=
  if slot = 0 then 0 else match nd.log[slot - 1]? with | some e => e.cmd | none => 0

/-- ballot number `start p` moves to -/
def startNum (s : St) (p : Nat) : Nat := (((getNode s p).ballot / s.n + 1) * s.n + p) / s.n

/-- the log entries a promise carries, with their positions -/
def pcarsOf (dst b : Nat) : Nat → List Entry → List LogObs
  | _, [] => []
  | k, e :: es => .pcar dst b k e.cmd :: pcarsOf dst b (k + 1) es

def obsStep (s : St) (a : Act) : List LogObs :=
  match a with
  | .prepare d b =>
    if (getNode s d).ballot > b then []
    else .pled d b (getNode (step s a).1 d).isLeader :: pcarsOf (b % s.n) b 1 (getNode s d).log
  | .submit p _ =>
    if (getNode s p).isLeader then [.asg p ((getNode s p).log.length + 1)] else []
  | .accepted p slot =>
    let nd' := getNode (step s a).1 p
    [.ack p slot (getNode s p).commit nd'.commit nd'.ballot (cmdAt nd' slot)]
  | .accept d _ b slot cmd _ =>
    if b < (getNode s d).ballot then [] else [.acc d b slot cmd]
  | .start p =>
    .prom p (startNum s p) (getNode s p).isLeader (getNode (step s a).1 p).isLeader ::
      (step s a).2.filterMap (propOf p)
  | .promise p bn =>
    .prom p bn (getNode s p).isLeader (getNode (step s a).1 p).isLeader ::
      (step s a).2.filterMap (propOf p)
  | _ => (step s a).2.filterMap (propOf (actor a))

def obsRun (s : St) : List Act → List LogObs
  | [] => []
  | a :: as => obsStep s a ++ obsRun (step s a).1 as

end HappyModel.C12.MP
