import HappyModel.C12.Spec
/-!
# C12 — `DistributedLock` (components/consensus/distributed_lock.py), direct-call operation lists

`_next_token` is one counter for all locks, incremented by every `_grant_lock`; a re-entrant
acquire returns the existing grant.  Lease expiry is the `LockLeaseExpiry` event handed to
`handle_event` (the lease timer itself is engine time and is not part of the fencing clause).
-/
namespace HappyModel.C12.Lock

structure LockSt where
  holder : Option Nat := none
  token : Nat := 0
  waiters : List Nat := []          -- requesters, FIFO (their futures are never resolved elsewhere)
deriving Repr

structure St where
  next : Nat                        -- `_next_token`
  maxW : Nat                        -- `max_waiters` (0 = unlimited)
  locks : Nat → LockSt

def init (maxW : Nat) : St := { next := 1, maxW := maxW, locks := fun _ => {} }

@[noinline] def updL (f : Nat → LockSt) (i : Nat) (x : LockSt) : Nat → LockSt := fun j => if j = i then x else f j

inductive Op
  | acquire (l r : Nat)
  | tryAcquire (l r : Nat)
  | release (l tok : Nat)
  | expire (l tok : Nat)
deriving Repr

inductive Res
  | grant (t : Nat) | queued | rejected | none_ | ok (b : Bool) | unit
deriving Repr, DecidableEq

structure Out where
  res : Res
  wake : Option (Nat × Nat) := none     -- (requester, token) of the waiter granted by this call
deriving Repr

/-- `_grant_lock` -/
def grant (s : St) (l r : Nat) (ws : List Nat) : St :=
  { s with next := s.next + 1, locks := updL s.locks l { holder := some r, token := s.next, waiters := ws } }

/-- holder cleared, then `_wake_next_waiter` -/
def freeAndWake (s : St) (l : Nat) : St × Option (Nat × Nat) :=
  match (s.locks l).waiters with
  | [] => ({ s with locks := updL s.locks l { (s.locks l) with holder := none } }, none)
  | w :: ws => (grant s l w ws, some (w, s.next))

def step (s : St) : Op → St × Out
  | .acquire l r =>
    match (s.locks l).holder with
    | none => (grant s l r (s.locks l).waiters, { res := .grant s.next })
    | some h =>
      if h = r then (s, { res := .grant (s.locks l).token })
      else if s.maxW > 0 ∧ (s.locks l).waiters.length ≥ s.maxW then (s, { res := .rejected })
      else ({ s with locks := updL s.locks l { (s.locks l) with waiters := (s.locks l).waiters ++ [r] } },
            { res := .queued })
  | .tryAcquire l r =>
    match (s.locks l).holder with
    | none => (grant s l r (s.locks l).waiters, { res := .grant s.next })
    | some h => if h = r then (s, { res := .grant (s.locks l).token }) else (s, { res := .none_ })
  | .release l tok =>
    match (s.locks l).holder with
    | none => (s, { res := .ok false })
    | some _ =>
      if (s.locks l).token ≠ tok then (s, { res := .ok false })
      else ((freeAndWake s l).1, { res := .ok true, wake := (freeAndWake s l).2 })
  | .expire l tok =>
    match (s.locks l).holder with
    | none => (s, { res := .unit })
    | some _ =>
      if (s.locks l).token ≠ tok then (s, { res := .unit })
      else ((freeAndWake s l).1, { res := .unit, wake := (freeAndWake s l).2 })

def Op.lock : Op → Nat
  | .acquire l _ | .tryAcquire l _ | .release l _ | .expire l _ => l

/-- grants a client observes from one call: the call's own result, then a woken waiter's -/
def grantsOf (o : Op) (out : Out) : List Spec.Grant :=
  (match o, out.res with
   | .acquire l r, .grant t => [(l, r, t)]
   | .tryAcquire l r, .grant t => [(l, r, t)]
   | _, _ => []) ++
  (match out.wake with
   | some (w, t) => [(o.lock, w, t)]
   | none => [])

/-- all observed grants of a run, in order -/
def runGrants (s : St) : List Op → List Spec.Grant
  | [] => []
  | o :: os => grantsOf o (step s o).2 ++ runGrants (step s o).1 os

end HappyModel.C12.Lock
