import HappyModel.C06.Basic
/-!
# C06 — the state the fault events mutate (mirrors the repaired code)

* `depth e`    — `entity._crash_depth` (`faults/node_faults.py:_enter_down/_leave_down`);
                 `entity._crashed ⇔ depth > 0`, read by `Event.invoke` and `ProcessContinuation.invoke`
* `bi a b`     — reference count of the unordered pair in `Network._partitioned_pairs`
                 (`Network.partition` adds one per handle, `Partition.heal` releases one)
* `dir a b`    — same for `Network._directed_partitions`
* `live`       — the `Partition` handles that still hold their references (`not _healed` and created
                 after the last `Network.heal_partition()`: `_generation == _heal_generation`)
* `lat`        — the stack of `_CompoundLatency` layers on the links (`InjectLatency.activate` pushes a
                 layer on the current latency, `deactivate` removes its own layer: `_without_layer`)
* `loss`       — `_InjectedLoss.extras` of the links
* `capf`       — `_InjectedCapacity.factors` of the resource
-/
namespace HappyModel.C06

structure Layer where
  fid : Nat
  a : Nat
  b : Nat
  x : Nat
deriving Repr, DecidableEq

structure Factor where
  fid : Nat
  num : Nat
  den : Nat
deriving Repr, DecidableEq

structure WS where
  depth : Nat → Nat := fun _ => 0
  bi : Nat → Nat → Nat := fun _ _ => 0
  dir : Nat → Nat → Nat := fun _ _ => 0
  live : List Nat := []
  lat : List Layer := []
  loss : List Layer := []
  capf : List Factor := []

def biCov (A B : List Nat) (a b : Nat) : Nat := if (a ∈ A ∧ b ∈ B) ∨ (a ∈ B ∧ b ∈ A) then 1 else 0
def dirCov (A B : List Nat) (a b : Nat) : Nat := if a ∈ A ∧ b ∈ B then 1 else 0

/-- the activation closure of fault `fid` -/
def WS.activate (w : WS) (fid : Nat) : Kind → WS
  | .crash e => { w with depth := upd w.depth e (w.depth e + 1) }
  | .pause e => { w with depth := upd w.depth e (w.depth e + 1) }
  | .part false A B => { w with bi := fun a b => w.bi a b + biCov A B a b, live := fid :: w.live }
  | .part true A B => { w with dir := fun a b => w.dir a b + dirCov A B a b, live := fid :: w.live }
  | .lat a b x => { w with lat := ⟨fid, a, b, x⟩ :: w.lat }
  | .loss a b x => { w with loss := ⟨fid, a, b, x⟩ :: w.loss }
  | .cap n d => { w with capf := ⟨fid, n, d⟩ :: w.capf }

/-- the deactivation closure of fault `fid`; `Partition.heal()` is a no-op on a handle that holds
    no references any more (healed before, or swept by `Network.heal_partition()`) -/
def WS.deactivate (w : WS) (fid : Nat) : Kind → WS
  | .crash e => { w with depth := upd w.depth e (w.depth e - 1) }
  | .pause e => { w with depth := upd w.depth e (w.depth e - 1) }
  | .part false A B =>
    if w.live.contains fid then
      { w with bi := fun a b => w.bi a b - biCov A B a b, live := w.live.erase fid }
    else w
  | .part true A B =>
    if w.live.contains fid then
      { w with dir := fun a b => w.dir a b - dirCov A B a b, live := w.live.erase fid }
    else w
  | .lat _ _ _ => { w with lat := w.lat.filter (·.fid != fid) }
  | .loss _ _ _ => { w with loss := w.loss.filter (·.fid != fid) }
  | .cap _ _ => { w with capf := w.capf.filter (·.fid != fid) }

/-- `Network.heal_partition()` on network `k`: every pair of that network is unblocked and every
    outstanding handle of that network (`onNet f`: `Partition._network is` network `k`) is spent -/
def WS.healAll (w : WS) (k : Nat) (onNet : Nat → Bool) : WS :=
  { w with bi := fun a b => if netOf a = k then 0 else w.bi a b,
           dir := fun a b => if netOf a = k then 0 else w.dir a b,
           live := w.live.filter fun f => !onNet f }

/-! ### what the rest of the system reads -/

/-- `getattr(target, "_crashed", False)` -/
def WS.down (w : WS) (e : Nat) : Bool := decide (0 < w.depth e)

/-- `Network.is_partitioned(a, b)` -/
def WS.blocked (w : WS) (a b : Nat) : Bool := decide (0 < w.bi a b + w.dir a b)

def layerSum (ls : List Layer) (a b : Nat) : Nat :=
  ((ls.filter fun l => l.a == a && l.b == b).map (·.x)).sum

/-- `link.latency.get_latency(now)` in ns -/
def WS.latOf (w : WS) (base a b : Nat) : Nat := base + layerSum w.lat a b

/-- `link.packet_loss_rate` × 1024 -/
def WS.lossOf (w : WS) (base a b : Nat) : Nat := min SC (base + layerSum w.loss a b)

/-- `resource.capacity` × 1024 -/
def WS.capOf (w : WS) (cap : Nat) : Nat :=
  cap * SC * (w.capf.map (·.num)).foldr (· * ·) 1 / (w.capf.map (·.den)).foldr (· * ·) 1

end HappyModel.C06
