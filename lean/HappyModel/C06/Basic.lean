/-!
# C06 — fault injection: the input language

A *case* is a fault plan (`happysimulator/faults/*`), a workload of generator jobs and network
probes, and the configured ("base") settings of the network links and of one `Resource`.
Entities are numbered: workers `0 … n-1`, the `Network` entities are `n … n+nets-1`.  Every network
connects the same workers with its own links; inside the partition / latency / loss state, worker `a`
*as an endpoint on network `k`* is the node `vid k a = a + k * STRIDE`, so that the networks'
states are disjoint parts of one table (a fault applied to the wrong network shows up on that
network's nodes).

The engine is not modelled here: the model is driven by the *schedule* of processed events (`Pop`)
that the real engine produced (GUIDE rule 8), and has to reproduce what each of them did.
Times are natural numbers (nanoseconds).
-/
namespace HappyModel.C06

@[noinline] def upd {β} (f : Nat → β) (i : Nat) (x : β) : Nat → β := fun j => if j = i then x else f j
@[simp] theorem upd_same {β} (f : Nat → β) (i : Nat) (x : β) : upd f i x i = x := by simp [upd]
theorem upd_other {β} (f : Nat → β) (i j : Nat) (x : β) (h : j ≠ i) : upd f i x j = f j := by
  simp [upd, h]

/-- nodes of network `k` are `k * STRIDE … k * STRIDE + n - 1` -/
def STRIDE : Nat := 1000
def vid (k a : Nat) : Nat := a + k * STRIDE
def netOf (v : Nat) : Nat := v / STRIDE

/-- the six fault kinds of `happysimulator/faults` (members of `A`, `B` and the link ends `a`, `b`
    are nodes of the targeted network) -/
inductive Kind where
  | crash (e : Nat)                       -- CrashNode
  | pause (e : Nat)                       -- PauseNode
  | part (asym : Bool) (A B : List Nat)   -- NetworkPartition
  | lat (a b x : Nat)                     -- InjectLatency on link a→b, +x ns
  | loss (a b x : Nat)                    -- InjectPacketLoss on link a→b, +x/1024
  | cap (num den : Nat)                   -- ReduceCapacity, factor num/den
deriving Repr, DecidableEq

def isPartK : Kind → Bool
  | .part .. => true
  | _ => false

/-- one window: a scheduled fault with its window `[s, r)` (`r = none`: permanent) and whether its
    handle is cancelled before the run starts — or (`manual`) a partition created by a direct call of
    `Network.partition()` at time `s`, ended by `Partition.heal()` calls at times chosen by the
    workload (any number of them, also none) -/
structure Fault where
  kind : Kind
  s : Nat
  r : Option Nat
  cancelled : Bool
  manual : Bool := false
  /-- the network the fault resolves to (`network_name`, or the first registered one); for a manual
      partition: the `Network` object the call is made on -/
  net : Nat := 0
deriving Repr, DecidableEq

/-- one instruction of a generator handler; every `sleep`/`emit`/`wait`/`acq` is one `yield` -/
inductive Op where
  | sleep (d : Nat)     -- `yield d`
  | emit (d : Nat)      -- `yield d, [event to the sink]`
  | wait (f : Nat)      -- `yield future[f]`
  | res (f : Nat)       -- `future[f].resolve()`
  | acq (a : Nat)       -- `grant = yield resource.acquire(a)`
  | rel                 -- `oldest grant.release()`
deriving Repr, DecidableEq

structure Job where
  ent : Nat
  ops : List Op
deriving Repr

structure Probe where
  a : Nat         -- source worker
  b : Nat         -- destination worker
  net : Nat := 0  -- the network it is sent through
deriving Repr

/-- configured settings of one directed link -/
structure Link where
  a : Nat
  b : Nat
  lat : Nat       -- ns
  loss : Nat      -- per 1024
deriving Repr

structure Case where
  n : Nat := 0
  nets : Nat := 1
  cap : Nat := 1
  links : List Link := []
  faults : List Fault := []
  jobs : List Job := []
  probes : List Probe := []
  /-- faults whose handle was cancelled before the `Simulation` was built (a subset of the faults
      with `cancelled = true`; only used to name the trigger in a judge signature) -/
  preCanc : List Nat := []
  /-- the transcript is that of a second run, after `sim.control.reset()`: the model starts it from
      its initial state (reset re-arms the fault schedule and undoes what open windows changed); the
      harness reports whether it repeats the first run -/
  rerun : Bool := false
deriving Repr

def Case.baseLat (c : Case) (a b : Nat) : Nat :=
  ((c.links.find? fun l => l.a == a && l.b == b).map (·.lat)).getD 0

def Case.baseLoss (c : Case) (a b : Nat) : Nat :=
  ((c.links.find? fun l => l.a == a && l.b == b).map (·.loss)).getD 0

/-- handles cancelled before the run starts (`FaultHandle.cancel()` before or right after the
    `Simulation` is built) -/
def Case.initCanc (c : Case) : List Nat :=
  (List.range c.faults.length).filter fun f => ((c.faults[f]?).map (·.cancelled)).getD false

/-- window `f` of the plan is a partition of network `k` -/
def partOnF (fs : List Fault) (k f : Nat) : Bool :=
  match fs[f]? with
  | some ft => isPartK ft.kind && ft.net == k
  | none => false

def Case.partOn (c : Case) (k f : Nat) : Bool := partOnF c.faults k f

/-- every partition of the plan names nodes of the network it resolves to (the harness builds the
    node ids from the network: `vid`) -/
def netWF (fs : List Fault) : Bool :=
  fs.all fun ft =>
    match ft.kind with
    | .part _ A B => (A ++ B).all fun x => netOf x == ft.net
    | _ => true

def Case.job (c : Case) (j : Nat) : Job := c.jobs.getD j ⟨0, []⟩
def Case.probe (c : Case) (p : Nat) : Probe := c.probes.getD p ⟨0, 0, 0⟩

/-- one processed event of the real run, in processing order -/
inductive Pop where
  | fault (t fid : Nat) (act : Bool)   -- activation / deactivation event of fault `fid`; for a manual
                                       -- partition: the `Network.partition()` / a `Partition.heal()` call
  | cancel (t fid : Nat)               -- harness event that calls `FaultHandle.cancel`
  | healall (t k : Nat)                -- harness event that calls `heal_partition()` on network `k`
  | setcap (t v : Nat)                 -- harness event that calls `Resource.set_capacity(v)` (the model resizes)
  | job (t j : Nat) (cont : Bool)      -- arrival (`cont = false`) or continuation of job `j`
  | sink (t j k : Nat)                 -- the emission of op `k` of job `j` reaches the sink
  | nsend (t p : Nat)                  -- probe `p` reaches the Network entity
  | nhop (t p : Nat)                   -- the Network's process for probe `p` resumes after the link delay
  | recv (t p : Nat)                   -- probe `p` reaches its destination
deriving Repr, DecidableEq

def Pop.time : Pop → Nat
  | .fault t _ _ | .cancel t _ | .healall t _ | .setcap t _ | .job t _ _ | .sink t _ _ | .nsend t _ | .nhop t _ | .recv t _ => t

/-- scale of capacities and loss rates in transcripts -/
def SC : Nat := 1024

end HappyModel.C06
