import HappyModel.Proto
import HappyModel.C06.Engine
import HappyModel.C06.Spec
/-! Line-protocol driver for C06 (the other side is `hv/props/c06.py`). -/
namespace HappyModel.C06.Driver
open HappyModel.Proto HappyModel.C06

def optNat (s : String) : Option Nat := if s == "none" then none else nat? s

def splitAt (sep : String) (ts : List String) : List String × List String :=
  (ts.takeWhile (· != sep), (ts.dropWhile (· != sep)).drop 1)

def parseOps : List String → List Op
  | "sleep" :: d :: rest => .sleep (natD d) :: parseOps rest
  | "emit" :: d :: rest => .emit (natD d) :: parseOps rest
  | "wait" :: f :: rest => .wait (natD f) :: parseOps rest
  | "res" :: f :: rest => .res (natD f) :: parseOps rest
  | "acq" :: a :: rest => .acq (natD a) :: parseOps rest
  | "rel" :: _ :: rest => .rel :: parseOps rest
  | _ => []

def parseKind : List String → Option Kind
  | ["crash", e] => some (.crash (natD e))
  | ["pause", e] => some (.pause (natD e))
  | "part" :: asym :: rest =>
    let (a, b) := splitAt "/" rest
    some (.part (asym == "1") (nats a) (nats b))
  | ["lat", a, b, x] => some (.lat (natD a) (natD b) (natD x))
  | ["loss", a, b, x] => some (.loss (natD a) (natD b) (natD x))
  | ["cap", n, d] => some (.cap (natD n) (natD d))
  | _ => none

def caseLine (c : Case) (ts : List String) : Case :=
  match ts with
  | ["n", n] => { c with n := natD n }
  | ["nets", k] => { c with nets := natD k }
  | ["rerun", _] => { c with rerun := true }
  | ["cap", k] => { c with cap := natD k }
  | ["link", a, b, l, x] => { c with links := c.links ++ [⟨natD a, natD b, natD l, natD x⟩] }
  | "fault" :: cs :: s :: r :: net :: rest =>
    match parseKind rest with
    | some k =>
      -- o: scheduled; x: handle cancelled right after the Simulation was built; p: handle cancelled
      -- before the Simulation was built; m: manual Network.partition() call
      { c with faults := c.faults ++ [⟨k, natD s, optNat r, cs == "x" || cs == "p", cs == "m", natD net⟩],
               preCanc := if cs == "p" then c.faults.length :: c.preCanc else c.preCanc }
    | none => c
  | "job" :: e :: rest => { c with jobs := c.jobs ++ [⟨natD e, parseOps rest⟩] }
  | ["probe", a, b, k] => { c with probes := c.probes ++ [⟨natD a, natD b, natD k⟩] }
  | _ => c

def parseCase (body : List String) : Case := body.foldl (fun c l => caseLine c (toks l)) {}

def parsePop : List String → Option Pop
  | ["F", t, f, ad] => some (.fault (natD t) (natD f) (ad == "a"))
  | ["C", t, f] => some (.cancel (natD t) (natD f))
  | ["A", t, k] => some (.healall (natD t) (natD k))
  | ["V", t, v] => some (.setcap (natD t) (natD v))
  | ["J", t, j, ac] => some (.job (natD t) (natD j) (ac == "c"))
  | ["S", t, j, k] => some (.sink (natD t) (natD j) (natD k))
  | ["N", t, p, "s"] => some (.nsend (natD t) (natD p))
  | ["N", t, p, "h"] => some (.nhop (natD t) (natD p))
  | ["R", t, p] => some (.recv (natD t) (natD p))
  | _ => none

def showPop : Pop → String
  | .fault t f a => s!"F {t} {f} {if a then "a" else "d"}"
  | .cancel t f => s!"C {t} {f}"
  | .healall t k => s!"A {t} {k}"
  | .setcap t v => s!"V {t} {v}"
  | .job t j c => s!"J {t} {j} {if c then "c" else "a"}"
  | .sink t j k => s!"S {t} {j} {k}"
  | .nsend t p => s!"N {t} {p} s"
  | .nhop t p => s!"N {t} {p} h"
  | .recv t p => s!"R {t} {p}"

def showTok : Tok → String
  | .enter => "enter" | .done => "done" | .bogus => "bogus" | .got => "got" | .recv => "recv"
  | .part => "part" | .loss => "loss" | .fwd => "fwd" | .badtime => "badtime"
  | .w k => s!"w{k}" | .e k => s!"e{k}" | .r k => s!"r{k}" | .x k => s!"x{k}" | .l k => s!"l{k}"
  | .n k => s!"n{k}" | .fly lat => s!"fly {lat}"

def showToks (ts : List Tok) : String := if ts.isEmpty then "-" else joinSp (ts.map showTok)

def showSettings (c : Case) (s : St) : String :=
  let P := String.join (c.links.map fun l => showBool (s.ws.blocked l.a l.b))
  let L := c.links.map fun l => toString (s.ws.latOf l.lat l.a l.b)
  let X := c.links.map fun l => toString (s.ws.lossOf l.loss l.a l.b)
  joinSp (["P", if P.isEmpty then "-" else P, "L"] ++ L ++ ["X"] ++ X ++
          ["C", toString (s.ws.capOf s.base), toString s.avail])

def modelLines (c : Case) : St → List Pop → List String
  | s, [] => [s!"Z | {showSettings c s} | pending {pending c s}"]
  | s, p :: rest =>
    let r := step c s p
    let line :=
      match p with
      | .fault .. => s!"{showPop p} | {if r.2.isEmpty then showSettings c r.1 else showToks r.2}"
      | .cancel .. => s!"{showPop p} | {showSettings c r.1}"
      | .healall .. => s!"{showPop p} | {showSettings c r.1}"
      | .setcap .. => s!"{showPop p} | {showSettings c r.1}"
      | .nsend .. => s!"{showPop p} | {showToks r.2} | {showSettings c r.1}"
      | _ => s!"{showPop p} | {showToks r.2}"
    line :: modelLines c r.1 rest

def runModel (body : List String) : List String :=
  let c := parseCase body
  let pops := body.filterMap fun l =>
    match toks l with
    | "pop" :: rest => parsePop rest
    | _ => none
  if !c.resolves then ["E unknown-target"] else
  modelLines c (St.init c) pops ++ (if c.rerun then ["Y same"] else [])

/-! ### judge input -/

def sections (line : String) : List (List String) := (line.splitOn "|").map toks

def parseSettings (ts : List String) : Option Settings :=
  match ts with
  | "P" :: bits :: "L" :: rest =>
    let (ls, r1) := splitAt "X" rest
    let (xs, r2) := splitAt "C" r1
    match r2 with
    | [cp, av] =>
      some { P := if bits == "-" then [] else bits.toList.map (· == '1'),
             L := nats ls, X := xs.map nat?, capS := int? cp, availS := int? av }
    | _ => none
  | _ => none

def normToks (ts : List String) : List String := if ts == ["-"] then [] else ts

def parseObs (line : String) : Option Obs :=
  match sections line with
  | ("obs" :: head) :: rest =>
    match parsePop head with
    | none => none
    | some p =>
      match p, rest with
      | .fault .., [s] =>
        match parseSettings s with
        | some st => some ⟨p, [], some st⟩
        | none => some ⟨p, normToks s, none⟩
      | .cancel .., [s] => some ⟨p, [], parseSettings s⟩
      | .healall .., [s] => some ⟨p, [], parseSettings s⟩
      | .setcap .., [s] => some ⟨p, [], parseSettings s⟩
      | .nsend .., [f, s] => some ⟨p, normToks f, parseSettings s⟩
      | _, [t] => some ⟨p, normToks t, none⟩
      | _, _ => some ⟨p, [], none⟩
  | _ => none

def parseFinal (line : String) : Option Settings :=
  match sections line with
  | ["obs", "Z"] :: s :: _ => parseSettings s
  | _ => none

def runJudge (body : List String) : List String :=
  let c := parseCase body
  let isY := fun (l : String) => (toks l).take 2 == ["obs", "Y"]
  let yLines := body.filter isY
  let obsLines := body.filter fun l => (toks l).head? == some "obs" && !isY l
  let isZ := fun (l : String) => (toks l).take 2 == ["obs", "Z"]
  let obs := (obsLines.filter (!isZ ·)).map parseObs
  let final := (obsLines.find? isZ).bind parseFinal
  if !netWF c.faults then ["viol transcript/partition-spans-networks"]
  else if obsLines == ["obs E unknown-target"] then
    if c.resolves then ["viol schedule/rejected-resolvable-plan"] else ["ok"]
  else if !c.resolves then ["viol schedule/accepted-unknown-target"]
  else if c.rerun && yLines != ["obs Y same"] then
    -- "reset() followed by run() repeats the run": for the stateless workloads of the rerun family the
    -- second run has to be the first one again (fault windows included)
    ["viol rerun/second-run-differs-from-first"]
  else if !c.rerun && !yLines.isEmpty then ["viol transcript/malformed"]
  else if obs.any (·.isNone) then ["viol transcript/malformed"]
  else if (obsLines.find? isZ).isNone then ["viol transcript/no-final-line"]
  else
    match judge c (obs.filterMap id) final with
    | none => ["ok"]
    | some sig => [s!"viol {sig}"]

def handle (hdr : List String) (body : List String) : List String :=
  match hdr with
  | ["model"] => runModel body
  | ["judge"] => runJudge body
  | ["judge", "qres"] =>
    -- queue-fronted targets: same predicate, signatures filed under their own component
    (runJudge body).map fun l => if l.startsWith "viol " then "viol queue-fronted/" ++ (l.drop 5).toString else l
  | _ => ["bad-mode"]

end HappyModel.C06.Driver
