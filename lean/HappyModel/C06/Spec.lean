import HappyModel.C06.Basic
/-!
# C06 — specification

"While an entity is crashed or paused by a fault it executes nothing: no handler runs, no in-flight
process advances, and it emits no events; processing resumes from the restart time and other
entities are unaffected. A partition, added latency, packet loss or reduced capacity is in effect for
its target exactly while at least one fault window covering that target is active, whatever other
faults overlap it, and once every window has ended the system is back to its configured state.
Cancelling a fault handle before activation prevents the fault entirely."

The specification is *declarative*: the set of active windows at a point of the run is read off the
processed fault events (`activeAfter`); every effective setting is a function of the configured
("base") value and the contributions of the active windows only (`spec*`).  `judge` evaluates
exactly these functions on what an implementation reported.
-/
namespace HappyModel.C06

def kindOf (fs : List Fault) (f : Nat) : Option Kind := (fs[f]?).map (·.kind)

/-- contribution of fault `f` to "entity `e` is down" -/
def downC (fs : List Fault) (f e : Nat) : Nat :=
  match kindOf fs f with
  | some (.crash x) => if x = e then 1 else 0
  | some (.pause x) => if x = e then 1 else 0
  | _ => 0

/-- contribution of fault `f` to "the unordered pair {a, b} is blocked" -/
def biC (fs : List Fault) (f a b : Nat) : Nat :=
  match kindOf fs f with
  | some (.part false A B) => if (a ∈ A ∧ b ∈ B) ∨ (a ∈ B ∧ b ∈ A) then 1 else 0
  | _ => 0

/-- contribution of fault `f` to "the direction a → b is blocked" -/
def dirC (fs : List Fault) (f a b : Nat) : Nat :=
  match kindOf fs f with
  | some (.part true A B) => if a ∈ A ∧ b ∈ B then 1 else 0
  | _ => 0

def latC (fs : List Fault) (f a b : Nat) : Nat :=
  match kindOf fs f with
  | some (.lat x y d) => if x = a ∧ y = b then d else 0
  | _ => 0

def lossC (fs : List Fault) (f a b : Nat) : Nat :=
  match kindOf fs f with
  | some (.loss x y d) => if x = a ∧ y = b then d else 0
  | _ => 0

def capNum (fs : List Fault) (f : Nat) : Nat :=
  match kindOf fs f with
  | some (.cap n _) => n
  | _ => 1

def capDen (fs : List Fault) (f : Nat) : Nat :=
  match kindOf fs f with
  | some (.cap _ d) => d
  | _ => 1

def sumOver (act : List Nat) (g : Nat → Nat) : Nat := (act.map g).sum
def prodOver (act : List Nat) (g : Nat → Nat) : Nat := (act.map g).foldr (· * ·) 1

/-- fault `f` covers the direction a → b with a partition -/
def covers (fs : List Fault) (f a b : Nat) : Prop := 0 < biC fs f a b + dirC fs f a b

/-! ### effective settings as a function of the active windows -/

/-- number of active crash/pause windows on entity `e` -/
def specDown (fs : List Fault) (act : List Nat) (e : Nat) : Nat := sumOver act (downC fs · e)

def specBlocked (fs : List Fault) (act : List Nat) (a b : Nat) : Bool :=
  decide (0 < sumOver act (biC fs · a b) + sumOver act (dirC fs · a b))

def specLat (c : Case) (act : List Nat) (a b : Nat) : Nat :=
  c.baseLat a b + sumOver act (latC c.faults · a b)

def specLoss (c : Case) (act : List Nat) (a b : Nat) : Nat :=
  min SC (c.baseLoss a b + sumOver act (lossC c.faults · a b))

/-- capacity × `SC`, for a configured capacity `base` -/
def specCapB (c : Case) (base : Nat) (act : List Nat) : Nat :=
  base * SC * prodOver act (capNum c.faults) / prodOver act (capDen c.faults)

/-- capacity × `SC` (for the capacity the resource was built with) -/
def specCap (c : Case) (act : List Nat) : Nat := specCapB c c.cap act

/-! ### which plans the schedule accepts -/

/-- `generate_events` resolves the names a fault mentions when the `Simulation` is built: entities
    (`ctx.entities[name]`, a `KeyError` otherwise) and links (`ValueError: No link found`) -/
def Kind.resolves (c : Case) : Kind → Bool
  | .crash e | .pause e => e < c.n + c.nets
  | .part _ A B => (A ++ B).all (· % STRIDE ≤ c.n)
  | .lat a b _ | .loss a b _ => c.links.any fun l => l.a == a && l.b == b
  | .cap .. => true

def Kind.onNetwork : Kind → Bool
  | .part .. | .lat .. | .loss .. => true
  | _ => false

/-- every scheduled fault of the plan names existing targets, network faults an existing network
    (`ctx.networks[network_name]`) (manual calls take entity objects) -/
def Case.resolves (c : Case) : Bool :=
  c.faults.all fun ft =>
    ft.manual || (ft.kind.resolves c && (!ft.kind.onNetwork || decide (ft.net < c.nets)))

/-! ### which windows are active -/

/-- window `f` is a partition (scheduled `NetworkPartition` or a manual `Network.partition()`) -/
def isPartF (fs : List Fault) (f : Nat) : Bool :=
  match kindOf fs f with
  | some (.part ..) => true
  | _ => false

/-- a window opens at its activation (for a manual partition: the `Network.partition()` call) and
    ends at its deactivation (`Partition.heal()`); `Network.heal_partition()` ("remove all network
    partitions") ends every partition window that is open at that moment -/
def actStep (fs : List Fault) (act : List Nat) : Pop → List Nat
  | .fault _ f true => f :: act
  | .fault _ f false => act.erase f
  | .healall _ k => act.filter fun f => !partOnF fs k f
  | _ => act

/-- the windows that are active after the processed events `tr` (most recently activated first) -/
def activeAfter (fs : List Fault) (tr : List Pop) : List Nat := tr.foldl (actStep fs) []

/-- every activation is processed at most once and before the deactivation of its window; a
    deactivation of a window that is not active can only be that of a partition that was opened
    before (a repeated `Partition.heal()`, or the scheduled end of a window that a
    `Network.heal_partition()` has already ended).  This is what the engine's exactly-once,
    time-ordered delivery gives for windows with `s ≤ r`. -/
def wfFrom (fs : List Fault) (ever act : List Nat) : List Pop → Bool
  | [] => true
  | .fault _ f true :: rest => !ever.contains f && wfFrom fs (f :: ever) (f :: act) rest
  | .fault _ f false :: rest =>
    (act.contains f || (isPartF fs f && ever.contains f)) && wfFrom fs ever (act.erase f) rest
  | .healall _ k :: rest => wfFrom fs ever (act.filter fun f => !partOnF fs k f) rest
  | _ :: rest => wfFrom fs ever act rest

def WF (fs : List Fault) (tr : List Pop) : Prop := wfFrom fs [] [] tr = true

/-! ### the judge: the property evaluated on an observed transcript -/

/-- effective settings as reported through the public API (`is_partitioned`, `link.latency`,
    `link.packet_loss_rate`, `resource.capacity`, `resource.available`), one entry per directed link
    in the order of `Case.links` -/
structure Settings where
  P : List Bool
  L : List Nat
  X : List (Option Nat)      -- per 1024; `none`: not on the grid
  capS : Option Int
  availS : Option Int
deriving Repr

/-- one processed event with what was observed of it: activity tokens (handler entries `enter`,
    resumptions `w<k>`, emissions `e<k>`, …), probe fate, settings -/
structure Obs where
  pop : Pop
  toks : List String
  settings : Option Settings
deriving Repr

structure JSt where
  act : List Nat := []
  ever : List Nat := []
  done : List Nat := []                    -- deactivated
  canc : List Nat := []                    -- handles cancelled during the run
  healed : Bool := false                   -- a `Network.heal_partition()` call was processed
  base : Option Nat := none                -- the capacity the model last set (`none`: as built)
  grants : List (Nat × Nat) := []          -- (job, amount) granted and not released, oldest first
  emis : List (Nat × Nat) := []
  sent : List (Nat × Nat × Nat) := []      -- probe, send time, specified latency

def heldOf (g : List (Nat × Nat)) : Nat := (g.map (·.2)).sum

def zip3 (ls : List Link) (xs : List α) : List (Link × α) := ls.zip xs

def judgeSettings (c : Case) (act : List Nat) (held : Nat) (s : Settings) (healed : Bool := false)
    (base : Option Nat := none) : Option String :=
  let specCap := fun (c : Case) (act : List Nat) => specCapB c (base.getD c.cap) act
  let pre := if act.isEmpty then "restore/" else ""
  let post := if healed then "/after-heal-all" else ""
  if s.P.length != c.links.length || s.L.length != c.links.length || s.X.length != c.links.length then
    some "settings/malformed"
  else
  match (c.links.zip s.P).find? (fun (l, p) => p != specBlocked c.faults act l.a l.b) with
  | some (_, p) =>
    some (pre ++ (if p then "partition/blocked-without-active-window"
                  else "partition/unblocked-while-window-active") ++ post)
  | none =>
  match (c.links.zip s.L).find? (fun (l, x) => x != specLat c act l.a l.b) with
  | some _ => some (pre ++ "latency/not-base-plus-active-windows")
  | none =>
  match (c.links.zip s.X).find? (fun (l, x) => x != some (specLoss c act l.a l.b)) with
  | some _ => some (pre ++ "loss/not-base-plus-active-windows")
  | none =>
  if s.capS != some (specCap c act : Int) then some (pre ++ "capacity/not-base-times-active-windows")
  else
    -- `held` counts the grants whose holder has resumed; a grant already made to a process that has
    -- not resumed yet (or never will: dropped by the crash gate) is not visible, hence `≤`
    match s.availS with
    | none => some "capacity/available-off-grid"
    | some av =>
      if (specCap c act : Int) - (held * SC : Nat) < av then
        some "capacity/available-exceeds-capacity-minus-held"
      else none

def opAt (c : Case) (j k : Nat) : Option Op := (c.job j).ops[k]?

/-- bookkeeping of one activity token of job `j` -/
def tokStep (c : Case) (j : Nat) (st : JSt) (tok : String) : JSt :=
  let k := (tok.drop 1).toString.toNat?.getD 0
  if tok.startsWith "w" then
    match opAt c j k with
    | some (.acq a) => { st with grants := st.grants ++ [(j, a)] }
    | _ => st
  else if tok.startsWith "l" then
    match st.grants.find? (·.1 == j) with
    | some g => { st with grants := st.grants.erase g }
    | none => st
  else if tok.startsWith "e" && tok != "enter" then { st with emis := (j, k) :: st.emis }
  else st

def judgeStep (c : Case) (st : JSt) (o : Obs) : JSt × Option String :=
  let fs := c.faults
  let chk (st' : JSt) : JSt × Option String :=
    match o.settings with
    | some s => (st', judgeSettings c st'.act (heldOf st'.grants) s st'.healed st'.base)
    | none => (st', none)
  match o.pop with
  | .fault t f a =>
    match fs[f]? with
    | none => (st, some "fault/unknown-fault-event")
    | some ft =>
      if ft.cancelled then
        (st, some (if c.preCanc.contains f then "fault/cancelled-fault-fired/before-simulation-built"
                   else "fault/cancelled-fault-fired"))
      else if st.canc.contains f then (st, some "fault/cancelled-fault-fired")
      else if a then
        if st.ever.contains f then (st, some "fault/event-fired-twice")
        else if t != ft.s then (st, some "fault/activation-not-at-start-time")
        else chk { st with act := f :: st.act, ever := f :: st.ever }
      else
        if !ft.manual && st.done.contains f then (st, some "fault/event-fired-twice")
        else if !ft.manual && some t != ft.r then (st, some "fault/deactivation-not-at-end-time")
        else if !st.act.contains f then
          -- a partition handle that holds nothing any more (healed before, or swept by
          -- `heal_partition()`): the call has to leave everything as it is
          if isPartF fs f && st.ever.contains f then chk { st with done := f :: st.done }
          else (st, some "fault/deactivation-without-activation")
        else chk { st with act := st.act.erase f, done := f :: st.done }
  | .cancel t f =>
    -- `FaultHandle.cancel()`: the events of the fault that are still pending never fire (judged at
    -- the `.fault` case above); those due before the call must have fired; nothing else changes
    match fs[f]? with
    | none => (st, some "fault/unknown-fault-event")
    | some ft =>
      if ft.cancelled || st.canc.contains f then chk st
      else if ft.s < t && !st.ever.contains f then (st, some "fault/event-missing")
      else if (match ft.r with | some r => decide (r < t) | none => false) && !st.done.contains f then
        (st, some "fault/event-missing")
      else chk { st with canc := f :: st.canc }
  | .healall _ k => chk { st with act := st.act.filter (fun f => !partOnF fs k f), healed := true }
  | .setcap _ v => chk { st with base := some v }
  | .job _ j cont =>
    let e := (c.job j).ent
    let down := 0 < specDown fs st.act e
    if down && !o.toks.isEmpty then
      (st, some (if cont then "crash/executed-while-down/process-in-flight"
                 else "crash/executed-while-down/arrival"))
    else if !down && o.toks.isEmpty then
      (st, some (if cont then "crash/silent-while-up/process" else "crash/silent-while-up/arrival"))
    else if o.toks.any (·.startsWith "X") then (st, some "capacity/release-raised")
    else if o.toks.contains "bogus" then (st, some "schedule/unexpected-event")
    else (o.toks.foldl (tokStep c j) st, none)
  | .sink _ j k =>
    if st.emis.contains (j, k) then ({ st with emis := st.emis.erase (j, k) }, none)
    else (st, some "emit/sink-received-unemitted")
  | .nsend t p =>
    let pr0 := c.probe p
    let pr : Probe := { a := vid pr0.net pr0.a, b := vid pr0.net pr0.b, net := pr0.net }
    let down := 0 < specDown fs st.act (c.n + pr0.net)
    let fate := o.toks.headD "-"
    if down then
      if fate != "-" then (st, some "crash/executed-while-down/network") else (st, none)
    else
      let blocked := specBlocked fs st.act pr.a pr.b
      let loss := specLoss c st.act pr.a pr.b
      let lat := specLat c st.act pr.a pr.b
      if blocked then
        if fate != "part" then (st, some "partition/probe-passed-active-partition") else chk st
      else if fate == "part" then (st, some "partition/probe-blocked-without-active-window")
      else if loss == SC then
        if fate != "loss" then (st, some "loss/probe-passed-active-loss") else chk st
      else if loss == 0 then
        if fate == "loss" then (st, some "loss/probe-lost-without-active-window")
        else if o.toks != ["fly", toString lat] then
          (st, some "latency/probe-latency-not-base-plus-active-windows")
        else chk { st with sent := (p, t, lat) :: st.sent }
      else chk st   -- fractional loss: the fate is a random draw, not judged
  | .nhop t p =>
    let down := 0 < specDown fs st.act (c.n + (c.probe p).net)
    if down then
      if !(o.toks.isEmpty) then (st, some "crash/executed-while-down/network-process") else (st, none)
    else
      match st.sent.find? (·.1 == p) with
      | some (_, t0, lat) =>
        if t != t0 + lat then (st, some "latency/probe-delay-not-base-plus-active-windows")
        else if o.toks != ["fwd"] then (st, some "crash/silent-while-up/network-process")
        else (st, none)
      | none => (st, none)
  | .recv _ p =>
    let down := 0 < specDown fs st.act (c.probe p).b
    if down && !o.toks.isEmpty then (st, some "crash/executed-while-down/delivery")
    else if !down && o.toks != ["recv"] then (st, some "crash/silent-while-up/delivery")
    else (st, none)

/-- completeness at the end of the run (the harness places every configured time before the
    horizon): every fault that was not cancelled was activated, and deactivated if it has an end -/
def judgeEnd (c : Case) (st : JSt) (final : Option Settings) : Option String :=
  let idx := List.range c.faults.length
  match idx.find? (fun f =>
      match c.faults[f]? with
      | some ft =>
        !ft.cancelled && !st.canc.contains f &&
          (!st.ever.contains f || (ft.r.isSome && !st.done.contains f))
      | none => false) with
  | some _ => some "fault/event-missing"
  | none =>
    match final with
    | some s => judgeSettings c st.act (heldOf st.grants) s st.healed st.base
    | none => none

/-- "processing resumes from the restart time", "in effect exactly while a window is active": a
    window is `[s, r)` on the time axis.  Its start and its end take effect before every other
    event of their instant, whichever event was created first: when an event that is not itself a
    scheduled fault event is processed at time `t`, every scheduled window (whose handle is not
    cancelled) with `s ≤ t` has been opened and every one with `r ≤ t` has been closed. -/
def boundaryCheck (c : Case) (st : JSt) (t : Nat) : Option String :=
  let late (f : Nat) : Option (Kind × Bool) :=
    match c.faults[f]? with
    | some ft =>
      if ft.manual || ft.cancelled || st.canc.contains f then none
      else if decide (ft.s ≤ t) && !st.ever.contains f then some (ft.kind, true)
      else
        match ft.r with
        | some r => if decide (r ≤ t) && !st.done.contains f then some (ft.kind, false) else none
        | none => none
    | none => none
  match (List.range c.faults.length).findSome? late with
  | none => none
  | some (k, start) =>
    let comp := match k with
      | .crash _ | .pause _ => "crash"
      | .part .. => "partition"
      | .lat .. => "latency"
      | .loss .. => "loss"
      | .cap .. => "capacity"
    some (match k, start with
      | .crash _, true | .pause _, true => "crash/not-down-from-crash-time"
      | .crash _, false | .pause _, false => "crash/not-up-from-restart-time"
      | _, true => comp ++ "/not-in-effect-from-window-start"
      | _, false => comp ++ "/in-effect-after-window-end")

/-- the event is the start or end of a scheduled fault (not a call made by the workload) -/
def isSchedFault (c : Case) : Pop → Bool
  | .fault _ f _ =>
    match c.faults[f]? with
    | some ft => !ft.manual
    | none => true
  | _ => false

def judgeRun (c : Case) : JSt → Nat → List Obs → Option Settings → Option String
  | st, _, [], final => judgeEnd c st final
  | st, i, o :: rest, final =>
    match (if isSchedFault c o.pop then none else boundaryCheck c st o.pop.time) with
    | some sig => some (sig ++ " at-event " ++ toString i)
    | none =>
    match (judgeStep c st o).2 with
    | some sig => some (sig ++ " at-event " ++ toString i)
    | none => judgeRun c (judgeStep c st o).1 (i + 1) rest final

def judge (c : Case) (obs : List Obs) (final : Option Settings) : Option String :=
  judgeRun c {} 0 obs final

end HappyModel.C06
