import HappyModel.C06.Windows
/-!
# C06 — what one processed event does

`step c s pop` mirrors `Event.invoke` / `ProcessContinuation.invoke` (the crash gate first, then the
handler segment), the harness worker's generator (`hv/props/c06.py: Worker.run_job`),
`SimFuture.resolve/_park`, `Resource.acquire/_do_release/_wake_waiters/set_capacity`,
`Network.handle_event` + `NetworkLink.handle_event`, and the fault closures (`Windows.lean`).
It returns the new state and the activity tokens the event produced (`[]` = nothing ran).
-/
namespace HappyModel.C06

inductive Status where
  | idle                     -- not yet arrived
  | sleeping (wake : Nat)    -- a continuation for time `wake` is on the heap
  | ready                    -- a continuation for "now" is on the heap (future resolved)
  | parked (f : Nat)         -- parked on future f
  | waiting                  -- queued at the resource
  | done
  | dead                     -- its delivery / continuation was dropped by the crash gate
deriving Repr, DecidableEq

structure Proc where
  st : Status := .idle
  pc : Nat := 0               -- index of the op the process is suspended in
  grants : List Nat := []     -- amounts held, oldest first
  pend : Nat := 0             -- amount of the grant the future was resolved with
deriving Repr, DecidableEq

structure Fut where
  resolved : Bool := false
  parked : Option Nat := none
deriving Repr, DecidableEq

inductive PStat where
  | idle
  | flying (arr : Nat)
  | fwd
  | over
deriving Repr, DecidableEq

inductive Tok where
  | enter | done | bogus | got | recv | part | loss | fwd | badtime
  | w (k : Nat) | e (k : Nat) | r (k : Nat) | x (k : Nat) | l (k : Nat) | n (k : Nat)
  | fly (lat : Nat)
deriving Repr, DecidableEq

structure St where
  ws : WS := {}
  procs : Nat → Proc := fun _ => {}
  futs : Nat → Fut := fun _ => {}
  avail : Int := 0                      -- `resource.available` × 1024
  waiters : List (Nat × Nat) := []      -- (job, amount), FIFO
  emis : List (Nat × Nat) := []         -- emitted to the sink, not yet delivered
  probes : Nat → PStat := fun _ => .idle
  fired : List (Nat × Bool) := []       -- fault events processed so far
  cancelled : List Nat := []            -- fault handles with `_cancelled` set
  base : Nat := 0                       -- the configured capacity (what the model last asked for)

def St.init (c : Case) : St := { avail := (c.cap * SC : Nat), cancelled := c.initCanc, base := c.cap }

def St.setSt (s : St) (j : Nat) (st : Status) : St :=
  { s with procs := upd s.procs j { s.procs j with st := st } }

def St.suspend (s : St) (j k : Nat) (st : Status) : St :=
  { s with procs := upd s.procs j { s.procs j with st := st, pc := k } }

/-- `SimFuture.resolve`: idempotent; a parked process gets a continuation for now -/
def St.resolve (s : St) (f : Nat) : St :=
  if (s.futs f).resolved then s
  else
    let s1 := { s with futs := upd s.futs f { resolved := true, parked := none } }
    match (s.futs f).parked with
    | some p => s1.setSt p .ready
    | none => s1

/-- `Resource._wake_waiters`: strict FIFO, stop at the first waiter that does not fit -/
def St.wake (s : St) : List (Nat × Nat) → St
  | [] => { s with waiters := [] }
  | (j, a) :: rest =>
    if (a * SC : Nat) ≤ s.avail then
      St.wake { s with avail := s.avail - (a * SC : Nat),
                       procs := upd s.procs j { s.procs j with st := .ready, pend := a } } rest
    else { s with waiters := (j, a) :: rest }

/-- run the generator of job `j` from op index `k` until it yields or ends -/
def exec (c : Case) (j now : Nat) : List Op → Nat → St → St × List Tok
  | [], _, s => (s.setSt j .done, [.done])
  | .sleep d :: _, k, s => (s.suspend j k (.sleeping (now + d)), [])
  | .emit d :: _, k, s =>
    ({ s.suspend j k (.sleeping (now + d)) with emis := (j, k) :: s.emis }, [.e k])
  | .wait f :: _, k, s =>
    if (s.futs f).resolved then (s.suspend j k .ready, [])
    else ({ s.suspend j k (.parked f) with futs := upd s.futs f { s.futs f with parked := some j } }, [])
  | .res f :: rest, k, s =>
    let r := exec c j now rest (k + 1) (s.resolve f)
    (r.1, .r k :: r.2)
  | .acq a :: rest, k, s =>
    if s.ws.capOf s.base < a * SC then
      let r := exec c j now rest (k + 1) s
      (r.1, .x k :: r.2)
    else if (a * SC : Nat) ≤ s.avail then
      ({ s with avail := s.avail - (a * SC : Nat),
                procs := upd s.procs j { s.procs j with st := .ready, pc := k, pend := a } }, [])
    else ({ s.suspend j k .waiting with waiters := s.waiters ++ [(j, a)] }, [])
  | .rel :: rest, k, s =>
    match (s.procs j).grants with
    | [] =>
      let r := exec c j now rest (k + 1) s
      (r.1, .n k :: r.2)
    | g :: gs =>
      let s1 : St := { s with avail := s.avail + (g * SC : Nat),
                              procs := upd s.procs j { s.procs j with grants := gs } }
      let s2 := s1.wake s1.waiters
      let r := exec c j now rest (k + 1) s2
      (r.1, .l k :: r.2)

/-- the target entity of a processed event (`none`: not gated by any fault in the plan) -/
def popEntity (c : Case) : Pop → Option Nat
  | .job _ j _ => some (c.job j).ent
  | .nsend _ p => some (c.n + (c.probe p).net)
  | .nhop _ p => some (c.n + (c.probe p).net)
  | .recv _ p => some (c.probe p).b
  | _ => none

/-- the gate dropped the event: nothing runs; the process / probe it carried is gone -/
def dropPop (s : St) : Pop → St
  | .job _ j _ => s.setSt j .dead
  | .nsend _ p => { s with probes := upd s.probes p .over }
  | .nhop _ p => { s with probes := upd s.probes p .over }
  | .recv _ p => { s with probes := upd s.probes p .over }
  | _ => s

def resumeJob (c : Case) (s : St) (t j : Nat) : St × List Tok :=
  let p := s.procs j
  let k := p.pc
  let s1 : St :=
    match (c.job j).ops[k]? with
    | some (.acq _) => { s with procs := upd s.procs j { p with grants := p.grants ++ [p.pend] } }
    | _ => s
  let r := exec c j t ((c.job j).ops.drop (k + 1)) (k + 1) s1
  (r.1, .w k :: r.2)

/-- `Resource.set_capacity`: available moves with the capacity; waiters are served after an increase -/
def St.setCap (s : St) (old new : Nat) : St :=
  let s1 : St := { s with avail := s.avail + (new : Int) - (old : Int) }
  if old < new then s1.wake s1.waiters else s1

/-- a fault event the engine cannot have delivered: of a cancelled handle; an event of a scheduled
    fault a second time (a `Partition.heal()` call may be repeated); an end before the start -/
def faultBad (s : St) (fid : Nat) (act : Bool) (k : Kind) : Bool :=
  s.cancelled.contains fid || (s.fired.contains (fid, act) && (act || !isPartK k)) ||
    (!act && !s.fired.contains (fid, true))

def faultPop (c : Case) (s : St) (fid : Nat) (act : Bool) : St × List Tok :=
  match c.faults[fid]? with
  | none => (s, [.bogus])
  | some ft =>
    if faultBad s fid act ft.kind then
      (s, [.bogus])
    else
      let w' := if act then s.ws.activate fid ft.kind else s.ws.deactivate fid ft.kind
      let s1 : St := { s with ws := w', fired := (fid, act) :: s.fired }
      (s1.setCap (s.ws.capOf s.base) (w'.capOf s.base), [])

/-- the event is handled (the gate is open) -/
def stepOpen (c : Case) (s : St) : Pop → St × List Tok
  | .fault _ fid act => faultPop c s fid act
  | .cancel _ fid => ({ s with cancelled := fid :: s.cancelled }, [])
  | .healall _ k => ({ s with ws := s.ws.healAll k (c.partOn k) }, [])
  | .setcap _ v =>
    -- `Resource.set_capacity(v)` by the model: `v` is the new configured capacity; the factors of the
    -- open `ReduceCapacity` windows keep applying to it
    ({ s with base := v }.setCap (s.ws.capOf s.base) (s.ws.capOf v), [])
  | .job t j false =>
    if (s.procs j).st = .idle then
      let r := exec c j t (c.job j).ops 0 s
      (r.1, .enter :: r.2)
    else (s, [.bogus])
  | .job t j true =>
    match (s.procs j).st with
    | .sleeping w => if w = t then resumeJob c s t j else (s, [.bogus])
    | .ready => resumeJob c s t j
    | _ => (s, [.bogus])
  | .sink _ j k =>
    if s.emis.contains (j, k) then ({ s with emis := s.emis.erase (j, k) }, [.got]) else (s, [.bogus])
  | .nsend t p =>
    let pr := c.probe p
    let a := vid pr.net pr.a
    let b := vid pr.net pr.b
    if s.probes p != .idle then (s, [.bogus])
    else if s.ws.blocked a b then ({ s with probes := upd s.probes p .over }, [.part])
    else if s.ws.lossOf (c.baseLoss a b) a b == SC then
      ({ s with probes := upd s.probes p .over }, [.loss])
    else
      let lat := s.ws.latOf (c.baseLat a b) a b
      ({ s with probes := upd s.probes p (.flying (t + lat)) }, [.fly lat])
  | .nhop t p =>
    if s.probes p = .flying t then ({ s with probes := upd s.probes p .fwd }, [.fwd])
    else (s, [.badtime])
  | .recv _ p =>
    if s.probes p = .fwd then ({ s with probes := upd s.probes p .over }, [.recv]) else (s, [.bogus])

/-- `Event.invoke` / `ProcessContinuation.invoke`: the crash gate, then the handler -/
def step (c : Case) (s : St) (pop : Pop) : St × List Tok :=
  match popEntity c pop with
  | some e => if s.ws.down e then (dropPop s pop, []) else stepOpen c s pop
  | none => stepOpen c s pop

/-- states before each event and the tokens it produced -/
def run (c : Case) : St → List Pop → List (St × List Tok)
  | _, [] => []
  | s, p :: rest => (s, (step c s p).2) :: run c (step c s p).1 rest

def final (c : Case) : St → List Pop → St
  | s, [] => s
  | s, p :: rest => final c (step c s p).1 rest

/-- work the model expects the engine still to deliver at the end of a run (0 in a complete run) -/
def pending (c : Case) (s : St) : Nat :=
  ((List.range c.jobs.length).filter fun j =>
      match (s.procs j).st with
      | .idle | .sleeping _ | .ready => true
      | _ => false).length
  + s.emis.length
  + ((List.range c.probes.length).filter fun p =>
      match s.probes p with
      | .over => false
      | _ => true).length
  + ((List.range c.faults.length).filter fun f =>
      match c.faults[f]? with
      | some ft => !s.cancelled.contains f && (!s.fired.contains (f, true) || (ft.r.isSome && !s.fired.contains (f, false)))
      | none => false).length

end HappyModel.C06
