import HappyModel.Proto
import HappyModel.C10.Spec
import HappyModel.C10.Distributed
/-!
Line-protocol driver for C10 (other side: `hv/props/c10.py`).

Blocks
* `policy exact|tol <kind> <cfg…>` — body: `acq t`, `tua t`, `drain t`, `succ t`, `fail t`
  (in `tol` mode each line also carries what the implementation answered; the exact model keeps its
  own answer wherever its margin from the threshold is clear and otherwise follows the
  implementation and counts the operation as unjudged);
* `judge-policy exact|tol <kind> <cfg…>` — body: the implementation's transcript; answers `ok` or
  `viol <signature>`;
* `entity <qcap> <kind> <cfg…>` — body: deliveries `req id t` / `poll t`;
* `judge-entity <qcap> <kind> <cfg…>` — body: the implementation's entity transcript.

`<kind> <cfg…>`: `tb cap p one init` | `lb p one` | `sw W N` | `fw W N` |
`ad pmin pmax step fn fd wN wD one p0 tok0` | `null` | `ind d<0/1…> w…` (the Inductor: the decisions of its
EWMA gate and the truncated poll waits, in call order, as observed).
-/
namespace HappyModel.C10.Driver
open HappyModel.Proto HappyModel.C10

/-- all policies behind one state type (executable glue; theorems are about the components) -/
inductive PS where
  | tb (c : TBCfg) (s : TB)
  | lb (c : LBCfg) (s : LB)
  | sw (c : WCfg) (s : SW)
  | fw (c : WCfg) (s : FW)
  | ad (c : ADCfg) (s : AD)
  | orc (o : Orc)          -- the Inductor's EWMA gate, answers supplied in call order
  | null

def PS.acq : PS → Nat → PS × Bool
  | .tb c s, t => (.tb c (s.acquire c t).1, (s.acquire c t).2)
  | .lb c s, t => (.lb c (s.acquire c t).1, (s.acquire c t).2)
  | .sw c s, t => (.sw c (s.acquire c t).1, (s.acquire c t).2)
  | .fw c s, t => (.fw c (s.acquire c t).1, (s.acquire c t).2)
  | .ad c s, t => (.ad c (s.acquire c t).1, (s.acquire c t).2)
  | .orc o, t => (.orc (orcPolicy.acq o t).1, (orcPolicy.acq o t).2)
  | .null, _ => (.null, true)

def PS.tua : PS → Nat → PS × Nat
  | .tb c s, t => (.tb c (s.tua c t).1, (s.tua c t).2)
  | .lb c s, t => (.lb c (s.tua c t).1, (s.tua c t).2)
  | .sw c s, t => (.sw c (s.tua c t).1, (s.tua c t).2)
  | .fw c s, t => (.fw c (s.tua c t).1, (s.tua c t).2)
  | .ad c s, t => (.ad c (s.tua c t).1, (s.tua c t).2)
  | .orc o, t => (.orc (orcPolicy.tua o t).1, (orcPolicy.tua o t).2)
  | .null, _ => (.null, 0)

def PS.fb : PS → Bool → PS
  | .ad c s, true => .ad c (s.success c)
  | .ad c s, false => .ad c (s.failure c)
  | x, _ => x

def PS.rate : PS → Nat
  | .ad _ s => s.p
  | _ => 0

def PS.setRate : PS → Nat → PS
  | .ad c s, p => .ad c { s with p := p }
  | x, _ => x

def absDiff (a b : Nat) : Nat := if a ≤ b then b - a else a - b

/-- is the exact model's acquire decision at `t` at least 10⁻⁶ token (10⁻⁶ of the leak interval)
    away from the threshold?  Window policies decide in integers and are always clear. -/
def PS.clear : PS → Nat → Bool
  | .tb c s, t => decide (c.one ≤ absDiff (s.refill c t).tok c.one * 1000000)
  | .ad c s, t => decide (c.one ≤ absDiff (s.refill c t).tok c.one * 1000000)
  | .lb c s, t =>
    match s.last with
    | none => true
    | some l => decide (l ≤ t → c.one ≤ absDiff (c.p * (t - l)) c.one * 1000000)
  | _, _ => true

/-- adopt the implementation's decision at a float boundary -/
def PS.force : PS → Nat → Bool → PS
  | .tb c s, t, d =>
    .tb c (if d then ⟨(s.refill c t).tok - c.one, (s.refill c t).last⟩ else s.refill c t)
  | .ad c s, t, d =>
    .ad c (if d then ⟨s.p, (s.refill c t).tok - c.one, (s.refill c t).last⟩ else s.refill c t)
  | .lb c s, t, d => .lb c (if d then ⟨some t⟩ else s)
  | x, _, _ => x


def parseKind : List String → Option PS
  | ["tb", cap, p, one, init] => some (.tb ⟨natD cap, natD p, natD one⟩ ⟨natD init, none⟩)
  | ["lb", p, one] => some (.lb ⟨natD p, natD one⟩ ⟨none⟩)
  | ["sw", w, n] => some (.sw ⟨natD w, natD n⟩ ⟨[]⟩)
  | ["fw", w, n] => some (.fw ⟨natD w, natD n⟩ ⟨none, 0⟩)
  | ["ad", pmin, pmax, step, fn, fd, wN, wD, one, p0, tok0] =>
    some (.ad ⟨natD pmin, natD pmax, natD step, natD fn, natD fd, natD wN, natD wD, natD one⟩
              ⟨natD p0, natD tok0, none⟩)
  | "ind" :: ds :: ws => some (.orc ⟨(ds.toList.drop 1).map (· == '1'), ws.map natD⟩)
  | ["null"] => some .null
  | _ => none

/-! ### policy runs -/

structure RunSt where
  ps : PS
  now : Nat := 0          -- op times are lower bounds: effective time = max t now
  unj : Nat := 0
  out : List String := []  -- newest first

/-- follow-mode acquire: own decision where clear, otherwise the hinted one -/
def acqF (tol : Bool) (r : RunSt) (t : Nat) (hint : Option Bool) : RunSt × Bool :=
  let own := r.ps.acq t
  match tol, hint with
  | true, some h =>
    if r.ps.clear t then ({ r with ps := own.1 }, own.2)
    else ({ r with ps := if h == own.2 then own.1 else r.ps.force t h, unj := r.unj + 1 }, h)
  | _, _ => ({ r with ps := own.1 }, own.2)

def tuaF (tol : Bool) (r : RunSt) (t : Nat) (hint : Option Nat) : RunSt × Nat :=
  let own := r.ps.tua t
  match tol, hint with
  | true, some h =>
    if h == own.2 then ({ r with ps := own.1 }, h)
    else if absDiff h own.2 ≤ 1 then ({ r with ps := own.1, unj := r.unj + 1 }, h)
    else ({ r with ps := own.1 }, own.2)
  | _, _ => ({ r with ps := own.1 }, own.2)

/-- drain: wait the returned duration until zero is returned (at most 6 calls), then acquire -/
def drainF (tol : Bool) : Nat → RunSt → Nat → List Nat → List Nat → RunSt × Nat × List Nat
  | 0, r, cur, _, acc => (r, cur, acc.reverse)
  | fuel + 1, r, cur, hints, acc =>
    let (r1, w) := tuaF tol r cur hints.head?
    if w == 0 then (r1, cur, (w :: acc).reverse)
    else drainF tol fuel r1 (cur + w) hints.tail (w :: acc)

def fbF (tol : Bool) (r : RunSt) (succ : Bool) (hint : Option Nat) : RunSt :=
  let own := r.ps.fb succ
  match tol, hint with
  | true, some h =>
    if h != own.rate && absDiff h own.rate * 1000000000 ≤ own.rate then
      { r with ps := own.setRate h, unj := r.unj + 1 }
    else { r with ps := own }
  | _, _ => { r with ps := own }

def stepLine (tol : Bool) (r : RunSt) (ts : List String) : RunSt :=
  match ts with
  | "acq" :: t :: rest =>
    let te := max (natD t) r.now
    let (r1, d) := acqF tol r te (rest.head?.map (· == "1"))
    { r1 with now := te, out := s!"acq {te} {showBool d}" :: r1.out }
  | "tua" :: t :: rest =>
    let te := max (natD t) r.now
    let (r1, w) := tuaF tol r te (rest.head?.map natD)
    { r1 with now := te, out := s!"tua {te} {w}" :: r1.out }
  | "drain" :: t :: rest =>
    let te := max (natD t) r.now
    let hs := nats rest
    let (r1, cur, ws) := drainF tol 6 r te hs.dropLast []
    let (r2, d) := acqF tol r1 cur (hs.getLast?.map (· == 1))
    { r2 with now := cur, out := s!"drain {te} {showNats ws} {showBool d}" :: r2.out }
  | "succ" :: t :: rest =>
    let te := max (natD t) r.now
    let r1 := fbF tol r true (rest.head?.map natD)
    { r1 with now := te, out := s!"succ {te} {r1.ps.rate}" :: r1.out }
  | "fail" :: t :: rest =>
    let te := max (natD t) r.now
    let r1 := fbF tol r false (rest.head?.map natD)
    { r1 with now := te, out := s!"fail {te} {r1.ps.rate}" :: r1.out }
  | _ => { r with out := "bad-op" :: r.out }

def runPolicy (tol : Bool) (ps : PS) (body : List String) : List String :=
  let r := body.foldl (fun r l => stepLine tol r (toks l)) { ps := ps }
  r.out.reverse ++ (if tol then [s!"unjudged {r.unj}"] else [])

/-! ### policy judge -/

structure JAcc where
  obs : List Obs := []                 -- newest first
  adm : List Nat := []                 -- newest first
  rates : List Nat := []
  drains : List (List Nat × Bool) := []
  bad : Bool := false

def obsOfDrain (t : Nat) : List Nat → List Obs
  | [] => []
  | w :: ws => .tua t w :: obsOfDrain (t + w) ws

def judgeLine (a : JAcc) (ts : List String) : JAcc :=
  match ts with
  | ["acq", t, d] =>
    { a with obs := .acq (natD t) (d == "1") :: a.obs,
             adm := if d == "1" then natD t :: a.adm else a.adm }
  | ["tua", t, w] => { a with obs := .tua (natD t) (natD w) :: a.obs }
  | ["succ", t, r] => { a with obs := .fb (natD t) (natD r) :: a.obs, rates := natD r :: a.rates }
  | ["fail", t, r] => { a with obs := .fb (natD t) (natD r) :: a.obs, rates := natD r :: a.rates }
  | "drain" :: t :: rest =>
    let xs := nats rest
    let ws := xs.dropLast
    let ok := xs.getLast? == some 1
    let tend := ws.foldl (· + ·) (natD t)
    { a with obs := .acq tend ok :: (obsOfDrain (natD t) ws).reverse ++ a.obs,
             adm := if ok then tend :: a.adm else a.adm,
             drains := (ws, ok) :: a.drains }
  | _ => { a with bad := true }

/-- the admission bound of each policy on an observed list of admitted timestamps;
    `eps` = slack in units (0 for inputs on the float-exact grid) -/
def boundViol (ps : PS) (tol : Bool) (adm : List Nat) : Option String :=
  match ps with
  | .tb c s =>
    let eps := if tol then c.one / 1000000 else 0
    if bucketOK (max c.cap s.tok + eps) c.p c.one adm then none else some "policy/token-bucket/over-admission"
  | .lb c _ =>
    let eps := if tol then c.one / 1000000 else 0
    if spacingOK c.p c.one eps adm then none else some "policy/leaky-bucket/spacing-too-short"
  | .sw c _ => if slidingOK c.W c.N adm then none else some "policy/sliding-window/over-admission"
  | .fw c _ =>
    if !fixedAlignedOK c.W c.N adm then some "policy/fixed-window/over-admission-aligned"
    else if !fixedAnyOK c.W c.N adm then some "policy/fixed-window/over-admission-2n"
    else none
  | .ad c _ =>
    let eps := if tol then c.one / 1000000 else 0
    if bucketOK (c.cap c.pmax + eps) c.pmax c.one adm then none else some "policy/adaptive/over-admission"
  | .orc _ => none
  | .null => none

def kindName : PS → String
  | .tb .. => "token-bucket" | .lb .. => "leaky-bucket" | .sw .. => "sliding-window"
  | .fw .. => "fixed-window" | .ad .. => "adaptive" | .orc .. => "inductor" | .null => "null"

def judgePolicy (tol : Bool) (ps : PS) (body : List String) : List String :=
  let a := body.foldl (fun a l => judgeLine a (toks l)) {}
  let obs := a.obs.reverse
  let adm := a.adm.reverse
  let k := kindName ps
  if a.bad then ["viol policy/malformed-judge-input"]
  else match boundViol ps tol adm with
  | some sig => [s!"viol {sig}"]
  | none =>
    if !zeroAdmitsOK obs then [s!"viol policy/{k}/tua-zero-but-refused"]
    else if !blocksOK obs then [s!"viol policy/{k}/admitted-before-wait"]
    -- adaptive: the promise also survives feedback that does not raise the reported rate
    else if !(match ps with | .ad _ s0 => blocksOKR s0.p obs | _ => true) then
      [s!"viol policy/{k}/admitted-before-wait-after-non-raising-feedback"]
    else if !(a.drains.all fun d => drainOK (if tol then 4 else 2) d.1 d.2) then
      [s!"viol policy/{k}/drain-stalls"]
    else match ps with
      | .ad c s0 =>
        -- in tol mode the float rate may differ from the clamp by rounding only
        let sl := if tol then c.pmax / 1000000000 + 1 else 0
        if !ratesOK (c.pmin - sl) (c.pmax + sl) a.rates then ["viol policy/adaptive/rate-out-of-range"]
        -- the bucket bound of the *current* rate, epoch by epoch (cut where the reported rate changes)
        else if !adaptiveOK c.cap c.one (if tol then c.one / 1000000 else 0) s0.p obs then
          ["viol policy/adaptive/over-admission-current-rate"]
        else ["ok"]
      | _ => ["ok"]

/-! ### entity runs -/

def optS : Option Nat → String
  | none => "-"
  | some x => toString x

def entLine (e e' : Ent PS) : Act → String
  | .req id t =>
    let fid := if e'.fwd.length > e.fwd.length then e'.fwd.head?.map (·.1) else none
    let q := e'.queue.contains id
    let d := decide (e'.dropped.length > e.dropped.length)
    let p := if e.poll.isNone then e'.poll else none
    s!"req {id} {t} {optS fid} {showBool q} {showBool d} {optS p} {e'.queue.length}"
  | .poll t =>
    let fid := if e'.fwd.length > e.fwd.length then e'.fwd.head?.map (·.1) else none
    if e.poll != some t then s!"bad-poll {t} expected {optS e.poll}"
    else s!"poll {t} {optS fid} {optS e'.poll} {e'.queue.length}"

/-- a delivery and, optionally, the poll time the implementation scheduled in response -/
def parseAct : List String → Option (Act × Option Nat)
  | "req" :: id :: t :: rest => some (.req (natD id) (natD t), rest.head?.bind nat?)
  | "poll" :: t :: rest => some (.poll (natD t), rest.head?.bind nat?)
  | _ => none

/-- The sliding-window policy returns its 1 ns guard at the expiry instant, which takes the run off
    the float-exact grid; from then on the float round trip inside its `time_until_available` may
    lose 1 ns.  For that policy only, a poll time within 1 ns of the model's is followed (and
    counted as unjudged); every forward / queue / drop decision stays exact. -/
def followPoll (ps : PS) (e' : Ent PS) (hint : Option Nat) : Ent PS × Nat :=
  match ps, e'.poll, hint with
  | .sw .., some p, some h =>
    if p != h && absDiff p h ≤ 1 then ({ e' with poll := some h }, 1) else (e', 0)
  | _, _, _ => (e', 0)

def runEntity (qcap : Nat) (ps : PS) (body : List String) : List String :=
  let acts := body.filterMap (fun l => parseAct (toks l))
  let P : Policy PS := ⟨PS.acq, PS.tua⟩
  let rec go (e : Ent PS) (unj : Nat) (acc : List String) :
      List (Act × Option Nat) → Ent PS × Nat × List String
    | [] => (e, unj, acc)
    | (a, h) :: as =>
      let (e', u) := followPoll ps (e.step P qcap a) h
      go e' (unj + u) (entLine e e' a :: acc) as
  let (e, unj, lines) := go (Ent.init ps) 0 [] acts
  lines.reverse ++ e.fwd.reverse.map (fun f => s!"fwd {f.1} {f.2}")
    ++ [s!"end {e.queue.length} {e.recv.length} {e.fwd.length} {e.dropped.length}"]
    ++ (match ps, e.pol with
        | .orc o, .orc o' => [s!"orc-left {o'.ds.length} {o'.ws.length}"]
        | _, _ => [])
    ++ [s!"unjudged {unj}"]

/-! ### entity judge -/

structure EAcc where
  arr : List (Nat × Nat) := []     -- (id, arrival time), newest first
  dropped : List Nat := []
  fwd : List (Nat × Nat) := []
  depth : Option Nat := none
  counters : List Nat := []
  eobs : List EObs := []           -- newest first
  cobs : List CObs := []           -- newest first
  wd : Bool := false               -- the harness stopped a run that made > 5000 deliveries
  bad : Bool := false

def optNat (s : String) : Option Nat := if s == "-" then none else some (natD s)

def ejudgeLine (a : EAcc) (ts : List String) : EAcc :=
  match ts with
  | ["req", id, t, fid, _, d, p, depth] =>
    { a with arr := (natD id, natD t) :: a.arr,
             dropped := if d == "1" then natD id :: a.dropped else a.dropped,
             eobs := ⟨false, natD t, fid != "-", optNat p⟩ :: a.eobs,
             cobs := ⟨true, fid != "-", d == "1", natD depth⟩ :: a.cobs }
  | ["poll", t, fid, p, depth] =>
    { a with eobs := ⟨true, natD t, fid != "-", optNat p⟩ :: a.eobs,
             cobs := ⟨false, fid != "-", false, natD depth⟩ :: a.cobs }
  | ["watchdog"] => { a with wd := true }
  | "orc-left" :: _ => a
  | ["fwd", id, t] => { a with fwd := (natD id, natD t) :: a.fwd }
  | ["end", depth, r, f, d] => { a with depth := some (natD depth), counters := [natD r, natD f, natD d] }
  | _ => { a with bad := true }

def capViol (cap : Option Nat) : Nat → List CObs → Option String
  | _, [] => none
  | db, o :: os =>
    if capStepOK cap db o then capViol cap o.da os
    else if (match cap with | some c => decide (c < o.da) | none => false) then
      some "entity/capacity/queue-exceeds-capacity"
    else if o.drop then some "entity/capacity/dropped-while-room-or-granted"
    else if o.req && !o.fwd then some "entity/capacity/refused-request-neither-queued-nor-dropped"
    else some "entity/capacity/depth-disagrees-with-deliveries"

def judgeEntity (cap : Option Nat) (ps : PS) (body : List String) : List String :=
  let a := body.foldl (fun a l => ejudgeLine a (toks l)) {}
  let arr := a.arr.reverse
  let recv := arr.map (·.1)
  let fwd := a.fwd.reverse
  let fids := fwd.map (·.1)
  let dropped := a.dropped.reverse
  match a.depth with
  | none => ["viol entity/malformed-judge-input"]
  | some depth =>
    if a.bad then ["viol entity/malformed-judge-input"]
    else if !nodupB recv then ["viol entity/malformed-judge-input duplicate-request-id"]
    else if !noStallOK a.eobs.reverse then ["viol entity/drain/poll-not-after-fruitless-poll"]
    else if a.wd then ["viol entity/drain/livelock"]
    else if !exactlyOnceOK recv fids dropped depth then ["viol entity/exactly-once/lost-or-duplicated"]
    else if a.counters != [recv.length, fids.length, dropped.length] then
      ["viol entity/exactly-once/counters-disagree-with-log"]
    else if !fifoOK recv fids then ["viol entity/fifo/forwarded-out-of-arrival-order"]
    else if !fwdTimesOK arr fwd then ["viol entity/forwarded-before-arrival"]
    else if !capacityOK cap 0 a.cobs.reverse then [s!"viol {(capViol cap 0 a.cobs.reverse).getD "entity/capacity"}"]
    else if !singlePollOK none a.eobs.reverse then ["viol entity/poll/second-outstanding"]
    else if !pollCoverOK a.eobs.reverse depth then ["viol entity/drain/queued-without-poll"]
    else match boundViol ps false (fwd.map (·.2)) with
      | some sig => [s!"viol entity/{sig}"]
      | none =>
        match ps with
        | .ad c s0 =>
          -- no feedback reaches the policy inside the entity: the rate in force is the initial one
          if bucketOK (c.cap s0.p) s0.p c.one (fwd.map (·.2)) then ["ok"]
          else ["viol entity/policy/adaptive/over-admission-current-rate"]
        | _ => ["ok"]

/-! ### DistributedRateLimiter

`drl current|repaired <W> <N> <instances>` (`current`: every `arr` line carries the window id the float
floor division gave; `repaired`: `t / W`) — body: the segments in the order the engine ran them, `arr i id t` /
`res i id t`; output: the same lines with what the segment did (`L` local rejection, `R` read issued,
`G` global rejection, `W` write issued, `F` forwarded), then `fwd i id t` in emission order, the public
counters of every instance and the final store contents.
`judge-drl <W> <N> <instances>` — body: the implementation's transcript. -/

def dOutS : DOut → String
  | .localReject => "L" | .readIssued => "R" | .globalReject => "G" | .writeIssued => "W"
  | .forwarded => "F" | .nothing => "?"

def parseDAct : List String → Option DAct
  | "arr" :: i :: id :: t :: _ => some (.arr (natD i) (natD id) (natD t))
  | "res" :: i :: id :: t :: _ => some (.res (natD i) (natD id) (natD t))
  | _ => none

def dActS : DAct → String
  | .arr i id t => s!"arr {i} {id} {t}"
  | .res i id t => s!"res {i} {id} {t}"

def insertSorted (w : Nat) : List Nat → List Nat
  | [] => [w]
  | x :: xs => if w < x then w :: x :: xs else if w == x then x :: xs else x :: insertSorted w xs

/-- the window-id table of variant `current`: `arr i id t wid` lines carry what the float floor division
    answered for `t` -/
def widRows (body : List String) : List (Nat × Nat) :=
  body.filterMap fun l => match toks l with
    | ["arr", _, _, t, w] => some (natD t, natD w)
    | _ => none

def runDRL (current : Bool) (W N n : Nat) (body : List String) : List String :=
  let acts := body.filterMap (fun l => parseDAct (toks l))
  let wid : Nat → Nat := if current then widTable W (widRows body) else aligned W
  let (s, lines) := acts.foldl (fun (acc : DRL × List String) a =>
      let r := acc.1.step wid N a
      (r.1, s!"{dActS a} {dOutS r.2}" :: acc.2)) (DRL.init n, [])
  let wins := s.store.foldl (fun acc b => insertSorted b.1 acc) []
  lines.reverse
    ++ s.fwd.reverse.map (fun f => s!"fwd {f.1} {f.2.1} {f.2.2}")
    ++ (List.range n).map (fun i =>
        let d := s.inst i
        s!"inst {i} {d.recv} {d.fwd} {d.drop} {d.lrej} {d.grej} {d.reads} {d.writes} {d.lcnt}")
    ++ wins.map (fun w => s!"store {w} {s.count w}")

structure DAcc where
  arrs : List (Nat × Nat × Nat) := []          -- (inst, id, t), newest first
  outs : List (Nat × Nat × String) := []       -- (inst, id, outcome letter), newest first
  fwd : List (Nat × Nat × Nat) := []           -- emitted (inst, id, t), newest first
  done : List (Nat × Nat) := []                -- (id, time of the segment that forwarded it)
  insts : List (List Nat) := []
  open_ : Option (Nat × Nat) := none           -- the request currently between segments (sequential runs)
  seq : Bool := true                           -- no two requests overlapped
  bad : Bool := false

def terminal (o : String) : Bool := o == "L" || o == "G" || o == "F"

def djudgeLine (a : DAcc) (ts : List String) : DAcc :=
  match ts with
  | ["arr", i, id, t, o] =>
    let k := (natD i, natD id)
    { a with arrs := (natD i, natD id, natD t) :: a.arrs, outs := (natD i, natD id, o) :: a.outs,
             seq := a.seq && a.open_.isNone, open_ := if terminal o then a.open_ else some k }
  | ["res", i, id, t, o] =>
    let k := (natD i, natD id)
    { a with outs := (natD i, natD id, o) :: a.outs,
             done := if o == "F" then (natD id, natD t) :: a.done else a.done,
             seq := a.seq && a.open_ == some k, open_ := if terminal o then none else a.open_ }
  | ["fwd", i, id, t] => { a with fwd := (natD i, natD id, natD t) :: a.fwd }
  | "inst" :: rest => { a with insts := nats rest :: a.insts }
  | ["store", _, _] => a
  | _ => { a with bad := true }

def judgeDRL (W N n : Nat) (body : List String) : List String :=
  let a := body.foldl (fun a l => djudgeLine a (toks l)) {}
  let arrs := a.arrs.reverse
  let outs := a.outs.reverse
  let fwd := a.fwd.reverse
  let recv := arrs.map (·.2.1)
  let withOut (p : String → Bool) := (outs.filter (fun o => p o.2.2)).map (·.2.1)
  let dropped := withOut (fun o => o == "L" || o == "G")
  let done := withOut terminal
  let inflight := recv.filter (fun i => !done.contains i)
  let cntI (i : Nat) (o : String) := (outs.filter (fun x => x.1 == i && x.2.2 == o)).length
  let instOK := (List.range n).all fun i =>
    a.insts.reverse.any fun r =>
      r.take 8 == [i, (arrs.filter (·.1 == i)).length, (fwd.filter (·.1 == i)).length,
                   cntI i "L" + cntI i "G", cntI i "L", cntI i "G", cntI i "R", cntI i "W"]
  let arrOf (id : Nat) := ((arrs.find? (·.2.1 == id)).map (·.2.2)).getD 0
  if a.bad then ["viol drl/malformed-judge-input"]
  else if !nodupB recv then ["viol drl/malformed-judge-input duplicate-request-id"]
  else if !drlExactlyOnceOK recv (fwd.map (·.2.1)) dropped inflight then ["viol drl/exactly-once/lost-or-duplicated"]
  else if withOut (· == "F") != fwd.map (·.2.1) then ["viol drl/exactly-once/forward-counter-without-forward"]
  else if !instOK then ["viol drl/exactly-once/counters-disagree-with-log"]
  else if !fwdTimesOK (arrs.map (·.2)) (fwd.map (·.2)) then ["viol drl/forwarded-before-arrival"]
  -- the store round trips took simulated time: a forward stamped before the segment that emits it is in the
  -- engine's past (and discarded)
  else if !fwdTimesOK a.done (fwd.map (·.2)) then ["viol drl/forward-stamped-in-the-past"]
  else if !((List.range n).all fun i =>
      fifoOK ((arrs.filter (·.1 == i)).map (·.2.1)) ((fwd.filter (·.1 == i)).map (·.2.1))) then
    ["viol drl/fifo/forwarded-out-of-arrival-order"]
  else if a.seq && !drlWindowOK W N (fwd.map (fun f => arrOf f.2.1)) then
    -- trigger: is the excess explained by requests that arrived exactly on a window boundary `k·W`?
    -- (and does the over-full window also hold a forward that arrived strictly inside it?  a burst sitting
    -- entirely on one boundary instant is an ordinary over-admission)
    let fa := fwd.map (fun f => arrOf f.2.1)
    if drlWindowOK W N (fa.filter (fun t => t % W != 0)) &&
        (fa.filter (fun t => decide (N < cntWin W (t / W) fa))).any (fun t => t % W != 0) then
      ["viol drl/window/over-admission-sequential-boundary-arrival"]
    else ["viol drl/window/over-admission-sequential"]
  else ["ok"]

def handle (hdr : List String) (body : List String) : List String :=
  match hdr with
  | "policy" :: mode :: kind =>
    match parseKind kind with
    | some ps => runPolicy (mode == "tol") ps body
    | none => ["bad-config"]
  | "judge-policy" :: mode :: kind =>
    match parseKind kind with
    | some ps => judgePolicy (mode == "tol") ps body
    | none => ["bad-config"]
  | "entity" :: qcap :: kind =>
    match parseKind kind with
    | some ps => runEntity (natD qcap) ps body
    | none => ["bad-config"]
  | "judge-entity" :: q :: kind =>
    match parseKind kind with
    | some ps => judgeEntity (if q == "inf" then none else some (natD q)) ps body
    | none => ["bad-config"]
  | ["drl", v, w, n, k] => runDRL (v == "current") (natD w) (natD n) (natD k) body
  | ["judge-drl", w, n, k] => judgeDRL (natD w) (natD n) (natD k) body
  | _ => ["bad-mode"]

end HappyModel.C10.Driver
