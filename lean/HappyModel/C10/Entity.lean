import HappyModel.C10.Policy
/-!
# C10 — `RateLimitedEntity` as a transition system over an arbitrary policy

Mirrors `rate_limited_entity.py` (`_handle_request`, `_handle_poll`, `_ensure_poll_scheduled`)
*as repaired by* `fixes/C10-entity-arrival-overtakes-queue.diff`: when a request arrives while
others are queued and the policy grants capacity, the oldest queued request is forwarded and the
arrival joins the back of the queue.

Actions are the deliveries the engine makes to the entity: a request `req id t`, or the entity's own
poll event `poll t`.  The harness takes the delivery schedule from the real run.
-/
namespace HappyModel.C10

structure Ent (σ : Type) where
  pol : σ
  queue : List Nat            -- ids, oldest first
  poll : Option Nat           -- time of the single outstanding poll event (`_poll_scheduled`)
  fwd : List (Nat × Nat)      -- (id, time), newest first
  dropped : List Nat          -- newest first
  recv : List Nat             -- newest first

inductive Act where
  | req (id t : Nat)
  | poll (t : Nat)
deriving Repr

variable {σ : Type}

/-- `_ensure_poll_scheduled` -/
def Ent.ensurePoll (P : Policy σ) (e : Ent σ) (t : Nat) : Ent σ :=
  match e.poll with
  | some _ => e
  | none => { e with pol := (P.tua e.pol t).1, poll := some (t + (P.tua e.pol t).2) }

/-- `_handle_request` -/
def Ent.onReq (P : Policy σ) (qcap : Nat) (e : Ent σ) (id t : Nat) : Ent σ :=
  if (P.acq e.pol t).2 then
    match e.queue with
    | [] => { e with recv := id :: e.recv, pol := (P.acq e.pol t).1, fwd := (id, t) :: e.fwd }
    | h :: rest =>
      Ent.ensurePoll P { e with recv := id :: e.recv, pol := (P.acq e.pol t).1,
                                queue := rest ++ [id], fwd := (h, t) :: e.fwd } t
  else if e.queue.length < qcap then
    Ent.ensurePoll P { e with recv := id :: e.recv, pol := (P.acq e.pol t).1,
                              queue := e.queue ++ [id] } t
  else { e with recv := id :: e.recv, pol := (P.acq e.pol t).1, dropped := id :: e.dropped }

/-- `_handle_poll` -/
def Ent.onPoll (P : Policy σ) (e : Ent σ) (t : Nat) : Ent σ :=
  match e.queue with
  | [] => { e with poll := none }
  | h :: rest =>
    if (P.acq e.pol t).2 then
      match rest with
      | [] => { e with poll := none, pol := (P.acq e.pol t).1, queue := [], fwd := (h, t) :: e.fwd }
      | _ :: _ =>
        Ent.ensurePoll P { e with poll := none, pol := (P.acq e.pol t).1, queue := rest,
                                  fwd := (h, t) :: e.fwd } t
    else Ent.ensurePoll P { e with poll := none, pol := (P.acq e.pol t).1 } t

def Ent.step (P : Policy σ) (qcap : Nat) (e : Ent σ) : Act → Ent σ
  | .req id t => e.onReq P qcap id t
  | .poll t => e.onPoll P t

def Ent.run (P : Policy σ) (qcap : Nat) : Ent σ → List Act → Ent σ
  | e, [] => e
  | e, a :: as => Ent.run P qcap (e.step P qcap a) as

def Ent.init (s : σ) : Ent σ := ⟨s, [], none, [], [], []⟩

/-! ## the `Inductor` (`rate_limiter/inductor.py`)

Its `_handle_arrival` / `_handle_poll` / `_ensure_poll_scheduled` have the control flow of
`RateLimitedEntity` (with the arrival path *as repaired by*
`fixes/C10-inductor-arrival-overtakes-queue.diff`: the oldest queued event goes first), with the EWMA
gate `_can_forward` + `_forward` in the place of `try_acquire` and the smoothed interval (≥ 1 ns) in the
place of `time_until_available`.  The gate computes in floats through `math.exp`; the model takes its
answers in call order from an oracle — `ds` the gate's decisions, `ws` the poll waits — so the Inductor
is `Ent` over `orcPolicy`, and every theorem about `Ent` over an arbitrary policy is a theorem about it. -/

structure Orc where
  ds : List Bool
  ws : List Nat
deriving Repr

/-- `wait = Duration.from_seconds(smoothed_interval); if wait == Duration.ZERO: wait = Duration(1)`:
    the oracle supplies the truncated interval, the 1 ns guard is the model's -/
def orcPolicy : Policy Orc :=
  ⟨fun s _ => (⟨s.ds.tail, s.ws⟩, s.ds.headD false),
   fun s _ => (⟨s.ds, s.ws.tail⟩, if s.ws.headD 1 = 0 then 1 else s.ws.headD 1)⟩

/-- ids of the requests in an action list, in delivery order -/
def reqIds : List Act → List Nat
  | [] => []
  | .req id _ :: as => id :: reqIds as
  | .poll _ :: as => reqIds as

end HappyModel.C10
