import HappyModel.C10.Entity
/-!
# C10 specification predicates — decidable, over *observed* values only

The predicates read what a user of the public API sees: the list of admitted timestamps, the values
returned by `time_until_available`, `current_rate`, and for the entity the ids delivered to the
limiter, the (id, time) log of the downstream sink, the dropped ids and the final queue depth.
They do not mention any model state.  The same definitions appear in the theorems of
`HappyProofs/C10/Props.lean` (about model runs) and are evaluated by the driver on transcripts of the
real implementation.
-/
namespace HappyModel.C10

/-- number of timestamps in the closed interval `[a, b]` -/
def cnt (a b : Nat) (ts : List Nat) : Nat :=
  (ts.filter (fun t => decide (a ≤ t ∧ t ≤ b))).length

/-- number of timestamps in the aligned window number `k` (`[k·W, (k+1)·W)`) -/
def cntWin (W k : Nat) (ts : List Nat) : Nat :=
  (ts.filter (fun t => decide (t / W = k))).length

/-! ### token bucket: any run of consecutive admissions `t₀ … t` of `n` requests satisfies
    `n · one ≤ B + p · (t − t₀)`  (`B` = capacity, `p` = rate; scaled units) -/

/-- `k` admissions counted so far, the first of them at `t0` -/
def segOK (B p one t0 : Nat) : Nat → List Nat → Bool
  | _, [] => true
  | k, t :: ts => decide ((k + 1) * one ≤ B + p * (t - t0)) && segOK B p one t0 (k + 1) ts

def bucketOK (B p one : Nat) : List Nat → Bool
  | [] => true
  | t :: ts => decide (one ≤ B) && segOK B p one t 1 ts && bucketOK B p one ts

/-! ### leaky bucket: consecutive admissions are at least `1/rate` apart: `one ≤ p · Δ (+ eps)` -/

def spacingOK (p one eps : Nat) : List Nat → Bool
  | [] => true
  | [_] => true
  | a :: b :: ts => decide (a ≤ b ∧ one ≤ p * (b - a) + eps) && spacingOK p one eps (b :: ts)

/-! ### sliding window: at most `N` admissions in every closed window `[a, a + W]`.
    (It suffices to look at windows that start at an admitted timestamp.) -/

def slidingOK (W N : Nat) (ts : List Nat) : Bool :=
  ts.all (fun a => decide (cnt a (a + W) ts ≤ N))

/-! ### fixed window: ≤ N per aligned window, ≤ 2N in every window-length interval -/

def fixedAlignedOK (W N : Nat) (ts : List Nat) : Bool :=
  ts.all (fun t => decide (cntWin W (t / W) ts ≤ N))

def fixedAnyOK (W N : Nat) (ts : List Nat) : Bool :=
  ts.all (fun a => decide (cnt a (a + W) ts ≤ 2 * N))

/-! ### adaptive: every reported rate in `[pmin, pmax]` -/

def ratesOK (pmin pmax : Nat) (rs : List Nat) : Bool :=
  rs.all (fun r => decide (pmin ≤ r ∧ r ≤ pmax))

/-! ### `time_until_available` -/

/-- what the caller observed, in call order -/
inductive Obs where
  | acq (t : Nat) (ok : Bool)
  | tua (t : Nat) (w : Nat)
  | fb (t : Nat) (rate : Nat)       -- adaptive feedback; `rate` = `current_rate` afterwards
deriving Repr

/-! ### adaptive, full strength: while the reported `current_rate` is `r`, the admissions satisfy the
    bucket bound of `r` — capacity `cap r = r · window` plus `r` × length over every interval — for
    every feedback sequence.  Epochs are cut in *call order* at the feedback records that change the
    rate: a burst made after `record_failure`, even at the same instant, is judged against the
    decreased capacity. -/

/-- timestamps admitted while the reported rate stays `r`: up to the first feedback record that
    reports a different rate -/
def epochAdm (r : Nat) : List Obs → List Nat
  | [] => []
  | .acq t ok :: rest => if ok then t :: epochAdm r rest else epochAdm r rest
  | .tua _ _ :: rest => epochAdm r rest
  | .fb _ r' :: rest => if r' = r then epochAdm r rest else []

/-- at every feedback record that changes the rate, the epoch that follows satisfies the bucket bound
    of the new rate (`cap` = bucket size as a function of the rate, `eps` = slack, units) -/
def epochsOK (cap : Nat → Nat) (one eps : Nat) : Nat → List Obs → Bool
  | _, [] => true
  | r, .fb _ r' :: rest =>
    (r' == r || bucketOK (cap r' + eps) r' one (epochAdm r' rest)) && epochsOK cap one eps r' rest
  | r, _ :: rest => epochsOK cap one eps r rest

/-- `r0` = the rate before the first feedback -/
def adaptiveOK (cap : Nat → Nat) (one eps r0 : Nat) (obs : List Obs) : Bool :=
  bucketOK (cap r0 + eps) r0 one (epochAdm r0 obs) && epochsOK cap one eps r0 obs

/-- `time_until_available(t) = 0` immediately followed by `try_acquire(t)` ⇒ granted -/
def zeroAdmitsOK : List Obs → Bool
  | .tua t 0 :: .acq t' ok :: rest =>
    (t != t' || ok) && zeroAdmitsOK (.acq t' ok :: rest)
  | _ :: rest => zeroAdmitsOK rest
  | [] => true

/-- no admission strictly before `lim`, up to the next rate change -/
def noEarly (lim : Nat) : List Obs → Bool
  | [] => true
  | .acq t ok :: rest => (decide (lim ≤ t) || !ok) && noEarly lim rest
  | .tua _ _ :: rest => noEarly lim rest
  | .fb _ _ :: _ => true

/-- after `time_until_available(t) = w` no acquire before `t + w` succeeds -/
def blocksOK : List Obs → Bool
  | [] => true
  | .tua t w :: rest => noEarly (t + w) rest && blocksOK rest
  | _ :: rest => blocksOK rest

/-- adaptive: the promise survives feedback that does not raise the reported rate (`r` = the rate in
    force); it ends at the first record that reports a higher rate -/
def noEarlyR (lim : Nat) : Nat → List Obs → Bool
  | _, [] => true
  | r, .acq t ok :: rest => (decide (lim ≤ t) || !ok) && noEarlyR lim r rest
  | r, .tua _ _ :: rest => noEarlyR lim r rest
  | r, .fb _ r' :: rest => if r' ≤ r then noEarlyR lim r' rest else true

/-- adaptive form of `blocksOK`: `r` = the rate before the first record -/
def blocksOKR : Nat → List Obs → Bool
  | _, [] => true
  | r, .tua t w :: rest => noEarlyR (t + w) r rest && blocksOKR r rest
  | _, .fb _ r' :: rest => blocksOKR r' rest
  | r, _ :: rest => blocksOKR r rest

/-- a drain: keep waiting the returned duration; `ws` are the returned waits in order (the last one is
    the first zero, if any), `ok` the result of the acquire made when zero was returned.
    Holds when zero is reached after at most `k` positive waits and the acquire is then granted. -/
def drainOK (k : Nat) (ws : List Nat) (ok : Bool) : Bool :=
  ok && ws.getLast? == some 0 && decide (ws.length ≤ k + 1)

/-! ### the rate-limited entity -/

def nodupB : List Nat → Bool
  | [] => true
  | x :: xs => !xs.contains x && nodupB xs

/-- forwarded ⊎ still-queued ⊎ dropped = received: no id twice, none invented, counts add up -/
def exactlyOnceOK (recv fwd dropped : List Nat) (depth : Nat) : Bool :=
  nodupB (fwd ++ dropped) && (fwd ++ dropped).all (fun i => recv.contains i)
    && decide (fwd.length + dropped.length + depth = recv.length)

/-- forwarded in arrival order -/
def fifoOK (recv fwd : List Nat) : Bool := fwd.isSublist recv

/-- no request is forwarded before it arrived -/
def fwdTimesOK (arr : List (Nat × Nat)) (fwd : List (Nat × Nat)) : Bool :=
  fwd.all (fun f => arr.all (fun a => a.1 != f.1 || decide (a.2 ≤ f.2)))

/-! ### the drain never stalls (entity level) -/

/-- one delivery to the limiter as seen from outside: a request or the limiter's own poll event at time
    `t`; did the handler emit a forward; the time of the poll event it scheduled, if any -/
structure EObs where
  poll : Bool
  t : Nat
  fwd : Bool
  next : Option Nat
deriving Repr, DecidableEq

/-- a scheduled poll is never in the past, and a poll that forwards nothing is never re-armed at the
    same instant (it would find the same refusal again, for ever) -/
def noStallOK (obs : List EObs) : Bool :=
  obs.all fun o => match o.next with
    | none => true
    | some p => decide (o.t ≤ p) && !(o.poll && !o.fwd && p == o.t)

/-- the poll event outstanding after the deliveries (a poll delivery consumes the outstanding one) -/
def outstanding : Option Nat → List EObs → Option Nat
  | cur, [] => cur
  | cur, o :: os => outstanding (match o.next with | some p => some p | none => if o.poll then none else cur) os

/-- at most one poll event is outstanding: a handler schedules one only when none is pending -/
def singlePollOK : Option Nat → List EObs → Bool
  | _, [] => true
  | cur, o :: os =>
    (o.next.isNone || (if o.poll then true else cur.isNone)) &&
      singlePollOK (match o.next with | some p => some p | none => if o.poll then none else cur) os

/-- whatever is still queued has a poll event coming for it -/
def pollCoverOK (obs : List EObs) (depth : Nat) : Bool := depth == 0 || (outstanding none obs).isSome

/-! ### the queue respects its configured capacity (entity level, every capacity incl. 0 and unbounded) -/

/-- one delivery as seen from outside: request or poll; did the handler emit a forward; did the public
    `dropped` counter go up; the public `queue_depth` afterwards -/
structure CObs where
  req : Bool
  fwd : Bool
  drop : Bool
  da : Nat
deriving Repr, DecidableEq

/-- `cap = none`: unbounded.  `db` = queue depth before the delivery.  The depth never exceeds the
    capacity; a request is dropped exactly when it is refused while the queue is full (capacity 0:
    whenever it is refused) and then the queue is untouched; a refused request that finds room is queued;
    a granted request leaves the depth as it was (it goes out itself, or the oldest goes out and it takes
    the place); a poll drops nothing and removes one request iff it forwards one. -/
def capStepOK (cap : Option Nat) (db : Nat) (o : CObs) : Bool :=
  let full := match cap with | none => false | some c => decide (c ≤ db)
  let within := match cap with | none => true | some c => decide (o.da ≤ c)
  within &&
    (if o.req then
      (if o.drop then !o.fwd && full && o.da == db
       else if o.fwd then o.da == db
       else !full && o.da == db + 1)
     else !o.drop && (if o.fwd then o.da + 1 == db else o.da == db))

def capacityOK (cap : Option Nat) : Nat → List CObs → Bool
  | _, [] => true
  | db, o :: os => capStepOK cap db o && capacityOK cap o.da os

end HappyModel.C10
