import HappyModel.C10.Spec
/-!
# C10 — `DistributedRateLimiter` (`rate_limiter/distributed.py`) as a transition system

Several limiter instances share one counter store (`KVStore`).  `handle_event` is a generator: it
checks the local window state, reads the window counter from the store (a simulated round trip), and
if the counter is below the limit writes `counter + 1` back (another round trip) and forwards — a
read-modify-write, *not* an atomic increment.  The actions of the model are the generator's segments,
in the order the real engine ran them (GUIDE rule 8):

* `arr i id t` — request `id` reaches instance `i` at `t`: window roll-over, local rejection or read issued;
* `res i id t` — the request's generator resumes at `t`: the read returns (global rejection, or write
  issued with the value just read + 1), or the write completes (counter stored, request forwarded at `t`).

The window id of an arrival is `wid t` for a function `wid` that is a parameter of the model.  As
repaired by `fixes/C10-drl-window-float-floor.diff` it is `t / W` in integer nanoseconds
(`aligned W`); the unrepaired code floor-divides *float* seconds (`int(now.to_seconds() //
window_size)`, e.g. `0.3 // 0.1 = 2.0`), which the harness evaluates in Python and passes as a table
(variant `current`).  Exactly-once holds for every `wid`; the per-aligned-window limit needs
`wid = aligned W` and is false for the float table (`drl_aligned_window_current_false`).
-/
namespace HappyModel.C10

structure DInst where
  win : Option Nat := none    -- `_local_window_id`
  lcnt : Nat := 0             -- `_local_count`
  known : Nat := 0            -- `_last_known_global_count`
  recv : Nat := 0
  fwd : Nat := 0
  drop : Nat := 0
  lrej : Nat := 0
  grej : Nat := 0
  reads : Nat := 0
  writes : Nat := 0
deriving Repr, DecidableEq

/-- a request between two segments of its generator -/
structure DFlight where
  inst : Nat
  id : Nat
  arr : Nat
  win : Nat
  cnt : Option Nat     -- `none`: waiting for the read; `some c`: waiting for the write of `c`
deriving Repr, DecidableEq

structure DRL where
  store : List (Nat × Nat) := []          -- window id ↦ counter (latest binding first)
  insts : List DInst := []
  flights : List DFlight := []
  recv : List Nat := []                   -- ids, newest first
  fwd : List (Nat × Nat × Nat) := []      -- (instance, id, time), newest first
  dropped : List Nat := []                -- newest first
  fwdWin : List Nat := []                 -- ghost: the window each forwarded request was counted in
  fwdArr : List Nat := []                 -- ghost: the arrival time of each forwarded request
deriving Repr

inductive DAct where
  | arr (i id t : Nat)
  | res (i id t : Nat)
deriving Repr

/-- what a segment did, as an observer of the public counters sees it -/
inductive DOut where
  | localReject | readIssued | globalReject | writeIssued | forwarded | nothing
deriving Repr, DecidableEq

def DRL.count (s : DRL) (w : Nat) : Nat := ((s.store.find? (·.1 == w)).map (·.2)).getD 0

def DRL.inst (s : DRL) (i : Nat) : DInst := s.insts.getD i {}

def DRL.setInst (s : DRL) (i : Nat) (d : DInst) : DRL := { s with insts := s.insts.set i d }

/-- window roll-over in `check_and_increment` -/
def DInst.roll (d : DInst) (w : Nat) : DInst :=
  if d.win = some w then d else { d with win := some w, lcnt := 0, known := 0 }

/-- the repaired window id: integer nanoseconds -/
def aligned (W : Nat) (t : Nat) : Nat := t / W

def DRL.step (wid : Nat → Nat) (N : Nat) (s : DRL) : DAct → DRL × DOut
  | .arr i id t =>
    let d := ((s.inst i).roll (wid t))
    if N ≤ d.known then
      ({ (s.setInst i { d with recv := d.recv + 1, lrej := d.lrej + 1, drop := d.drop + 1 }) with
          recv := id :: s.recv, dropped := id :: s.dropped }, .localReject)
    else
      ({ (s.setInst i { d with recv := d.recv + 1, reads := d.reads + 1 }) with
          recv := id :: s.recv, flights := ⟨i, id, t, wid t, none⟩ :: s.flights }, .readIssued)
  | .res i id t =>
    match s.flights.find? (fun f => f.inst == i && f.id == id) with
    | none => (s, .nothing)
    | some f =>
      let d := s.inst i
      match f.cnt with
      | none =>
        let cur := s.count f.win
        if N ≤ cur then
          ({ (s.setInst i { d with known := cur, grej := d.grej + 1, drop := d.drop + 1 }) with
              flights := s.flights.erase f, dropped := id :: s.dropped }, .globalReject)
        else
          ({ (s.setInst i { d with known := cur, writes := d.writes + 1 }) with
              flights := { f with cnt := some (cur + 1) } :: s.flights.erase f }, .writeIssued)
      | some c =>
        ({ (s.setInst i { d with lcnt := d.lcnt + 1, known := c, fwd := d.fwd + 1 }) with
            store := (f.win, c) :: s.store, flights := s.flights.erase f, fwd := (i, id, t) :: s.fwd,
            fwdWin := f.win :: s.fwdWin, fwdArr := f.arr :: s.fwdArr },
          .forwarded)

def DRL.run (wid : Nat → Nat) (N : Nat) : DRL → List DAct → DRL
  | s, [] => s
  | s, a :: as => DRL.run wid N (s.step wid N a).1 as

/-- one request served without overlap: it arrives at `t`, its read returns at `t1`, its write at `t2`,
    and no other segment runs in between (a locally or globally rejected request ignores the rest) -/
def DRL.serve (wid : Nat → Nat) (N : Nat) (s : DRL) (r : Nat × Nat × Nat × Nat × Nat) : DRL :=
  (((s.step wid N (.arr r.1 r.2.1 r.2.2.1)).1.step wid N (.res r.1 r.2.1 r.2.2.2.1)).1.step wid N
    (.res r.1 r.2.1 r.2.2.2.2)).1

def DRL.serveAll (wid : Nat → Nat) (N : Nat) : DRL → List (Nat × Nat × Nat × Nat × Nat) → DRL
  | s, [] => s
  | s, r :: rs => DRL.serveAll wid N (s.serve wid N r) rs

/-- a window-id function given as a table (what the float floor division answered for the arrival times
    of one run), integer division elsewhere -/
def widTable (W : Nat) (tbl : List (Nat × Nat)) (t : Nat) : Nat :=
  ((tbl.find? (·.1 == t)).map (·.2)).getD (t / W)

def DRL.init (n : Nat) : DRL := { insts := List.replicate n {} }

/-- ids of the requests delivered, newest first -/
def dReqIds : List DAct → List Nat
  | [] => []
  | .arr _ id _ :: as => dReqIds as ++ [id]
  | .res .. :: as => dReqIds as

/-! ### Spec (observables): every request is forwarded or dropped exactly once (or still in flight) -/

/-- forwarded ⊎ dropped ⊎ in-flight = received; no id twice -/
def drlExactlyOnceOK (recv fwd dropped inflight : List Nat) : Bool :=
  nodupB (fwd ++ dropped ++ inflight) && (fwd ++ dropped ++ inflight).all (fun i => recv.contains i)
    && decide (fwd.length + dropped.length + inflight.length = recv.length)

/-- at most `N` forwards per aligned window (judged on runs whose requests do not overlap in time:
    with overlapping read-modify-write cycles the shared counter loses updates by design) -/
def drlWindowOK (W N : Nat) (arrOfFwd : List Nat) : Bool :=
  arrOfFwd.all (fun t => decide (cntWin W (t / W) arrOfFwd ≤ N))

end HappyModel.C10
