/-!
# C10 — the five rate-limiter policies in exact integer arithmetic

Mirrors `happysimulator/components/rate_limiter/policy.py`.  The code computes in float seconds;
the model computes in exact integers:

* times are nanoseconds (`Nat`);
* token amounts are scaled: one token = `one` units, and the refill rate is `p` units per
  nanosecond (for a rate of `r` tokens/s and a common denominator `D`: `one = D·10⁹`, `p = r·D`),
  so `elapsed_seconds * rate` tokens is exactly `p * elapsed_ns` units and
  `Duration.from_seconds(deficit / rate)` is exactly `deficit_units / p` (floor) nanoseconds.

No `Float` anywhere.  The harness generates most inputs on a grid where every float operation of
the Python code is exact, so that the code must agree with this model bit for bit.
-/
namespace HappyModel.C10

/-- `Duration.from_seconds(x)` truncates; `if wait == Duration.ZERO: return Duration(1)` is the
    1 ns progress guard that every `time_until_available` applies to a positive remainder. -/
def waitOf (deficit p : Nat) : Nat := if deficit / p = 0 then 1 else deficit / p

/-! ## Token bucket -/

structure TBCfg where
  cap : Nat      -- capacity, units
  p : Nat        -- refill, units per ns
  one : Nat      -- one token, units
deriving Repr

structure TB where
  tok : Nat
  last : Option Nat
deriving Repr

/-- `_refill` -/
def TB.refill (c : TBCfg) (s : TB) (t : Nat) : TB :=
  match s.last with
  | none => ⟨s.tok, some t⟩
  | some l => if t ≤ l then s else ⟨min c.cap (s.tok + c.p * (t - l)), some t⟩

def TB.acquire (c : TBCfg) (s : TB) (t : Nat) : TB × Bool :=
  if c.one ≤ (s.refill c t).tok then (⟨(s.refill c t).tok - c.one, (s.refill c t).last⟩, true)
  else (s.refill c t, false)

def TB.tua (c : TBCfg) (s : TB) (t : Nat) : TB × Nat :=
  if c.one ≤ (s.refill c t).tok then (s.refill c t, 0)
  else (s.refill c t, waitOf (c.one - (s.refill c t).tok) c.p)

/-! ## Leaky bucket: admit iff `elapsed ≥ 1/rate`, i.e. `p * elapsed_ns ≥ one` -/

structure LBCfg where
  p : Nat
  one : Nat
deriving Repr

structure LB where
  last : Option Nat
deriving Repr

def LB.acquire (c : LBCfg) (s : LB) (t : Nat) : LB × Bool :=
  match s.last with
  | none => (⟨some t⟩, true)
  | some l => if l ≤ t ∧ c.one ≤ c.p * (t - l) then (⟨some t⟩, true) else (s, false)

/-- `time_until_available` does not change the leaky bucket -/
def LB.wait (c : LBCfg) (s : LB) (t : Nat) : Nat :=
  match s.last with
  | none => 0
  | some l =>
    if l ≤ t then (if c.one ≤ c.p * (t - l) then 0 else waitOf (c.one - c.p * (t - l)) c.p)
    else waitOf (c.one + c.p * (l - t)) c.p

def LB.tua (c : LBCfg) (s : LB) (t : Nat) : LB × Nat := (s, s.wait c t)

/-! ## Sliding window log -/

structure WCfg where
  W : Nat        -- window length, ns  (`int(window_size * 1e9)`)
  N : Nat        -- max requests per window
deriving Repr

structure SW where
  log : List Nat
deriving Repr

/-- `_prune`: pop from the front while `log[0] < now - W` -/
def SW.prune (c : WCfg) (s : SW) (t : Nat) : SW := ⟨s.log.dropWhile (fun e => decide (e + c.W < t))⟩

def SW.acquire (c : WCfg) (s : SW) (t : Nat) : SW × Bool :=
  if (s.prune c t).log.length < c.N then (⟨(s.prune c t).log ++ [t]⟩, true) else (s.prune c t, false)

def SW.tua (c : WCfg) (s : SW) (t : Nat) : SW × Nat :=
  if (s.prune c t).log.length < c.N then (s.prune c t, 0)
  else
    match (s.prune c t).log with
    | [] => (s.prune c t, 0)          -- N = 0: the code raises IndexError; never generated
    | o :: _ => (s.prune c t, if o + c.W - t = 0 then 1 else o + c.W - t)

/-! ## Fixed window (integer window arithmetic, as repaired by fixes/C10-fixed-window-float-floor) -/

structure FW where
  cur : Option Nat     -- start of the current window, ns
  cnt : Nat
deriving Repr

/-- `_maybe_reset` -/
def FW.reset (c : WCfg) (s : FW) (t : Nat) : FW :=
  match s.cur with
  | none => ⟨some (t / c.W * c.W), 0⟩
  | some w => if w < t / c.W * c.W then ⟨some (t / c.W * c.W), 0⟩ else s

def FW.acquire (c : WCfg) (s : FW) (t : Nat) : FW × Bool :=
  if (s.reset c t).cnt < c.N then (⟨(s.reset c t).cur, (s.reset c t).cnt + 1⟩, true)
  else (s.reset c t, false)

def FW.wait (c : WCfg) (r : FW) (t : Nat) : Nat :=
  if r.cnt < c.N then 0
  else match r.cur with
    | none => 0
    | some w => if w + c.W ≤ t then 0 else w + c.W - t

def FW.tua (c : WCfg) (s : FW) (t : Nat) : FW × Nat := (s.reset c t, (s.reset c t).wait c t)

/-! ## Adaptive (AIMD) bucket: a token bucket whose rate `p` moves in `[pmin, pmax]` -/

structure ADCfg where
  pmin : Nat
  pmax : Nat
  step : Nat       -- additive increase, units per ns
  fn : Nat         -- decrease factor = fn / fd
  fd : Nat
  wN : Nat         -- window_size · 10⁹ = wN / wD  (capacity = rate · window)
  wD : Nat
  one : Nat
deriving Repr

structure AD where
  p : Nat
  tok : Nat
  last : Option Nat
deriving Repr

def ADCfg.cap (c : ADCfg) (p : Nat) : Nat := p * c.wN / c.wD

def AD.refill (c : ADCfg) (s : AD) (t : Nat) : AD :=
  match s.last with
  | none => ⟨s.p, s.tok, some t⟩
  | some l => if t ≤ l then s else ⟨s.p, min (c.cap s.p) (s.tok + s.p * (t - l)), some t⟩

def AD.acquire (c : ADCfg) (s : AD) (t : Nat) : AD × Bool :=
  if c.one ≤ (s.refill c t).tok then
    (⟨s.p, (s.refill c t).tok - c.one, (s.refill c t).last⟩, true)
  else (s.refill c t, false)

def AD.tua (c : ADCfg) (s : AD) (t : Nat) : AD × Nat :=
  if c.one ≤ (s.refill c t).tok then (s.refill c t, 0)
  else (s.refill c t, waitOf (c.one - (s.refill c t).tok) s.p)

/-- `record_success`: additive increase, clamped -/
def AD.success (c : ADCfg) (s : AD) : AD := ⟨min c.pmax (s.p + c.step), s.tok, s.last⟩

/-- the rate after `record_failure`: multiplicative decrease, clamped -/
def ADCfg.dec (c : ADCfg) (p : Nat) : Nat := max c.pmin (p * c.fn / c.fd)

/-- `record_failure` (as repaired by `fixes/C10-adaptive-failure-keeps-old-bucket`): the rate drops and
    the bucket shrinks with it — tokens above the new bucket size `rate · window` are discarded at once
    (the unrepaired code kept them until the next `_refill` with positive elapsed time, so a burst at
    the same instant, or the very first call, could still spend the old capacity). -/
def AD.failure (c : ADCfg) (s : AD) : AD := ⟨c.dec s.p, min s.tok (c.cap (c.dec s.p)), s.last⟩

/-! ## One interface for the driver and for the rate-limited entity -/

/-- a policy as the entity sees it -/
structure Policy (σ : Type) where
  acq : σ → Nat → σ × Bool
  tua : σ → Nat → σ × Nat

def tbPolicy (c : TBCfg) : Policy TB := ⟨TB.acquire c, TB.tua c⟩
def lbPolicy (c : LBCfg) : Policy LB := ⟨LB.acquire c, LB.tua c⟩
def swPolicy (c : WCfg) : Policy SW := ⟨SW.acquire c, SW.tua c⟩
def fwPolicy (c : WCfg) : Policy FW := ⟨FW.acquire c, FW.tua c⟩
def adPolicy (c : ADCfg) : Policy AD := ⟨AD.acquire c, AD.tua c⟩

/-- operations of a directly driven policy -/
inductive Op where
  | acq (t : Nat)
  | tua (t : Nat)
  | succ (t : Nat)      -- adaptive only
  | fail (t : Nat)      -- adaptive only
deriving Repr

def Op.time : Op → Nat
  | .acq t | .tua t | .succ t | .fail t => t

/-- operation times never decrease, starting from `a` (what the engine guarantees) -/
def MonoOps : Nat → List Op → Prop
  | _, [] => True
  | a, o :: os => a ≤ o.time ∧ MonoOps o.time os

/-- state after one operation of a directly driven policy (feedback is adaptive-only) -/
def Policy.step {σ : Type} (P : Policy σ) (s : σ) : Op → σ
  | .acq t => (P.acq s t).1
  | .tua t => (P.tua s t).1
  | _ => s

/-- the timestamps at which `try_acquire` returned `True`, in call order -/
def Policy.admitted {σ : Type} (P : Policy σ) : σ → List Op → List Nat
  | _, [] => []
  | s, .acq t :: os =>
    if (P.acq s t).2 then t :: Policy.admitted P (P.acq s t).1 os
    else Policy.admitted P (P.acq s t).1 os
  | s, .tua t :: os => Policy.admitted P (P.tua s t).1 os
  | s, .succ _ :: os => Policy.admitted P s os
  | s, .fail _ :: os => Policy.admitted P s os

/-- adaptive policy: the same, with `record_success` / `record_failure` moving the rate -/
def AD.step (c : ADCfg) (s : AD) : Op → AD
  | .acq t => (s.acquire c t).1
  | .tua t => (s.tua c t).1
  | .succ _ => s.success c
  | .fail _ => s.failure c

def AD.admitted (c : ADCfg) : AD → List Op → List Nat
  | _, [] => []
  | s, .acq t :: os =>
    if (s.acquire c t).2 then t :: AD.admitted c (s.acquire c t).1 os
    else AD.admitted c (s.acquire c t).1 os
  | s, o :: os => AD.admitted c (s.step c o) os

/-- `current_rate` after every operation -/
def AD.rates (c : ADCfg) : AD → List Op → List Nat
  | _, [] => []
  | s, o :: os => (s.step c o).p :: AD.rates c (s.step c o) os

end HappyModel.C10
