import HappyModel.Proto
/-!
C01 Spec: a decidable predicate over the *trace a harness can record from outside the engine*:

    c <tag> <time> <target> <kind> <daemon> <clock>   a plain event was created (and scheduled) at <clock>
    y <tag> <pid> <time> <daemon> <clock> <ent>       a process of <ent> yielded a delay: continuation due at <time>
    x <tag>                                           cancel() was called on that event
    C <ent> / U <ent>                                 entity crashed / restored (`_crashed` set / cleared); an
                                                      event is exempt from "must be delivered" only if its target
                                                      is down at some moment of the stretch in which it falls due
    S|K <clock> <ent> <kind> <tag> <evtime>           plain event delivered (handler entered) at <clock>
    R <clock> <pid> <val> <tag>                       process resumed (tag 0: resumed by a future)
    end <clock> <endT|inf>

Tags are the harness's own creation counter, so "creation order" is judged without looking inside
the engine.
-/
namespace HappyModel.C01.Spec
open HappyModel.Proto

structure Created where
  tag : Nat
  time : Nat
  target : Nat
  daemon : Bool
  clock : Nat          -- clock when created
  pos : Nat            -- trace position
deriving Repr

structure Deliv where
  tag : Nat
  clock : Nat
  evtime : Option Nat
  pos : Nat
deriving Repr

structure Trace where
  created : List Created := []
  cancels : List (Nat × Nat) := []       -- (tag, pos)
  crashes : List (Nat × Nat) := []       -- (ent, pos) of `C` lines
  flags : List (Nat × Bool × Nat) := []  -- (ent, down?, pos) of `C` / `U` lines, in trace order
  len : Nat := 0                         -- number of trace lines
  delivs : List Deliv := []
  endClock : Nat := 0
  endT : Option Nat := none

def parse (body : List String) : Trace :=
  let rec go (pos : Nat) (t : Trace) : List String → Trace
    | [] => { t with created := t.created.reverse, delivs := t.delivs.reverse, flags := t.flags.reverse, len := pos }
    | l :: rest =>
      let t' :=
        match toks l with
        | ["c", tag, time, tgt, _, dm, clk] =>
          { t with created := ⟨natD tag, natD time, natD tgt, natD dm != 0, natD clk, pos⟩ :: t.created }
        | ["y", tag, _, time, dm, clk, ent] =>
          { t with created := ⟨natD tag, natD time, natD ent, natD dm != 0, natD clk, pos⟩ :: t.created }
        | ["x", tag] => { t with cancels := (natD tag, pos) :: t.cancels }
        | ["C", e] => { t with crashes := (natD e, pos) :: t.crashes, flags := (natD e, true, pos) :: t.flags }
        | ["U", e] => { t with flags := (natD e, false, pos) :: t.flags }
        | [k, clk, _, _, tag, evt] =>
          if k == "S" || k == "K" then
            { t with delivs := ⟨natD tag, natD clk, some (natD evt), pos⟩ :: t.delivs } else t
        | ["R", clk, _, _, tag] => { t with delivs := ⟨natD tag, natD clk, none, pos⟩ :: t.delivs }
        | ["end", clk, e] => { t with endClock := natD clk, endT := if e == "inf" then none else some (natD e) }
        | _ => t
      go (pos + 1) t' rest
  go 0 {} body

def pairwiseOk {α} (ok : α → α → Bool) : List α → Bool
  | [] => true
  | a :: r => r.all (ok a) && pairwiseOk ok r

/-- adjacent check (transitive relations only) -/
def adjOk {α} (ok : α → α → Bool) : List α → Bool
  | a :: b :: r => ok a b && adjOk ok (b :: r)
  | _ => true

/-- is entity `ent` down (`_crashed` set) at some moment of the stretch of the trace between positions
    `lo` and `hi`?  Down at `lo` (the last `C`/`U` line before `lo` is a `C`), or crashed inside it. -/
def downDuring (flags : List (Nat × Bool × Nat)) (ent lo hi : Nat) : Bool :=
  let mine := flags.filter (·.1 == ent)
  let atLo := ((mine.filter (·.2.2 < lo)).getLast?.map (·.2.1)).getD false
  atLo || mine.any (fun f => f.2.1 && lo ≤ f.2.2 && f.2.2 < hi)

/-! The judge in named pieces (so that theorems can speak about each clause). -/

def tagged (t : Trace) : List Deliv := t.delivs.filter (·.tag != 0)
def createdOf (t : Trace) (tag : Nat) : Option Created := t.created.find? (·.tag == tag)
def cancelledBefore (t : Trace) (tag pos : Nat) : Bool := t.cancels.any (fun c => c.1 == tag && c.2 < pos)
def live (t : Trace) (c : Created) (pos : Nat) : Bool := c.clock ≤ c.time && !cancelledBefore t c.tag pos

/-- 1. the clock never moves backwards -/
def clockMonotone (t : Trace) : Bool := adjOk (fun a b => a.clock ≤ b.clock) t.delivs
/-- 2. clock at delivery = the event's timestamp (as the handler saw it / as it was created) -/
def clockNotEventTime (t : Trace) : Bool :=
  t.delivs.any (fun d => match d.evtime with | some e => e != d.clock | none => false)
def deliveredAtWrongTime (t : Trace) : Bool :=
  (tagged t).any (fun d => match createdOf t d.tag with | some c => c.time != d.clock | none => false)
/-- 3. at most once -/
def atMostOnce (t : Trace) : Bool := pairwiseOk (fun a b => a.tag != b.tag) (tagged t)
/-- 4. only created, non-cancelled, non-stale events are delivered -/
def deliveredUnknown (t : Trace) : Bool := (tagged t).any (fun d => (createdOf t d.tag).isNone)
def cancelledDelivered (t : Trace) : Bool := (tagged t).any (fun d => cancelledBefore t d.tag d.pos)
def staleDelivered (t : Trace) : Bool :=
  (tagged t).any (fun d => match createdOf t d.tag with | some c => c.time < c.clock | none => false)
/-- 5. time order with FIFO ties by creation -/
def tieOrder (t : Trace) : Bool :=
  adjOk (fun a b => a.clock < b.clock || (a.clock == b.clock && a.tag < b.tag)) (tagged t)

/-- clauses 1–5: what was delivered, when, in which order -/
def judgeOrder (t : Trace) : Option String :=
  if !clockMonotone t then some "engine/clock-moved-backwards"
  else if clockNotEventTime t then some "engine/clock-not-event-time"
  else if deliveredAtWrongTime t then some "engine/delivered-at-wrong-time"
  else if !atMostOnce t then some "engine/delivered-twice"
  else if deliveredUnknown t then some "engine/delivered-unknown-event"
  else if cancelledDelivered t then some "engine/cancelled-delivered"
  else if staleDelivered t then some "engine/stale-delivered"
  else if !tieOrder t then some "engine/tie-order-not-creation-order"
  else none

def delivered (t : Trace) (tag : Nat) : Bool := (tagged t).any (·.tag == tag)

/-- the stretch of the trace in which the event falls due: after the last delivery that precedes it
    in (time, creation) order — and after its own creation — and before the first that follows it.
    An event whose target is up during that whole stretch (never crashed, or restored before) is
    live when it falls due, whatever the target's state was when the event was scheduled. -/
def mayBeDown (t : Trace) (c : Created) : Bool :=
  let before := (tagged t).filter fun d => d.clock < c.time || (d.clock == c.time && d.tag < c.tag)
  let after := (tagged t).find? fun d => c.time < d.clock || (d.clock == c.time && c.tag < d.tag)
  let lo := max ((before.getLast?.map (·.pos)).getD 0) c.pos
  let hi := (after.map (·.pos)).getD t.len
  downDuring t.flags c.target lo hi

/-- 6. a created event that should have been delivered by the end of the run and was not -/
def lostEvent (t : Trace) : Option Created :=
  t.created.find? fun c =>
    !delivered t c.tag && live t c 1000000000 && !mayBeDown t c &&
      (match t.endT with
       | some e => c.time ≤ e
       | none => !c.daemon || c.time < t.endClock)

def undelivered (t : Trace) (c : Created) (d : Deliv) : Bool :=
  c.pos < d.pos && !((tagged t).any fun d' => d'.tag == c.tag && d'.pos < d.pos)
def notYet (t : Trace) (c : Created) (d : Deliv) : Bool := undelivered t c d && !mayBeDown t c
def laterFutureResume (t : Trace) (d : Deliv) : Bool :=
  t.delivs.any fun d' => d'.tag == 0 && d'.pos ≥ d.pos && d'.clock == d.clock
/-- some non-daemon event is in the heap when `d` is delivered (possibly a cancelled one awaiting its lazy deletion) -/
def primaryInHeap (t : Trace) (d : Deliv) : Bool :=
  t.created.any fun c =>
    !c.daemon && undelivered t c d && c.clock ≤ c.time && (live t c d.pos || d.clock ≤ c.time)
/-- some live non-daemon event is pending when `d` is delivered -/
def primaryPending (t : Trace) (d : Deliv) : Bool :=
  t.created.any fun c => !c.daemon && notYet t c d && live t c d.pos

/-- 7. auto-termination: every delivery happens while some live non-daemon event is pending.
    Two grades: nothing non-daemon is left in the heap at all, not even a cancelled event
    waiting for its lazy deletion (`…/ran-with-no-primary-in-heap`), or only cancelled ones
    are left (`…/ran-with-no-primary-pending`, the code's lazy-deletion behaviour). -/
def judgeAutoterm (t : Trace) : Option String :=
  match t.delivs.find? fun d => !primaryInHeap t d && !laterFutureResume t d with
  | some _ => some "engine/autoterm/ran-with-no-primary-in-heap"
  | none =>
    match t.delivs.find? fun d => !primaryPending t d && !laterFutureResume t d with
    | some _ => some "engine/autoterm/ran-with-no-primary-pending"
    | none => none

/-- clauses 6–7: what should have been delivered, and when the run should have ended -/
def judgeLive (t : Trace) : Option String :=
  match lostEvent t with
  | some c => if c.daemon then some "engine/daemon-event-skipped" else some "engine/live-event-not-delivered"
  | none =>
    match t.endT with
    | some _ => none
    | none => judgeAutoterm t

def judge (t : Trace) : Option String :=
  match judgeOrder t with
  | some s => some s
  | none => judgeLive t

def judgeBlock (body : List String) : List String :=
  match judge (parse body) with
  | none => ["ok"]
  | some s => [s!"viol {s}"]

end HappyModel.C01.Spec
