import HappyModel.Proto
/-!
C01 Spec: a decidable predicate over the *trace a harness can record from outside the engine*:

    c <tag> <time> <target> <kind> <daemon> <clock>   a plain event was created (and scheduled) at <clock>
    y <tag> <pid> <time> <daemon> <clock> <ent>       a process of <ent> yielded a delay: continuation due at <time>
    x <tag>                                           cancel() was called on that event
    C <ent> / U <ent>                                 entity crashed / restored (`_crashed` set / cleared); an
                                                      event is exempt from "must be delivered" only if its target
                                                      is down at some moment of the stretch in which it falls due
    S|K <clock> <ent> <kind> <tag> <evtime>           plain event delivered (handler entered) at <clock>
    R <clock> <pid> <val> <tag>                       process resumed (tag 0: resumed by a future)
    end <clock> <endT|inf>

Tags are the harness's own creation counter, so "creation order" is judged without looking inside
the engine.
-/
namespace HappyModel.C01.Spec
open HappyModel.Proto

structure Created where
  tag : Nat
  time : Nat
  target : Nat
  daemon : Bool
  clock : Nat          -- clock when created
  pos : Nat            -- trace position
deriving Repr

structure Deliv where
  tag : Nat
  clock : Nat
  evtime : Option Nat
  pos : Nat
deriving Repr

structure Trace where
  created : List Created := []
  cancels : List (Nat × Nat) := []       -- (tag, pos)
  crashes : List (Nat × Nat) := []       -- (ent, pos) of `C` lines
  flags : List (Nat × Bool × Nat) := []  -- (ent, down?, pos) of `C` / `U` lines, in trace order
  len : Nat := 0                         -- number of trace lines
  delivs : List Deliv := []
  endClock : Nat := 0
  endT : Option Nat := none

def parse (body : List String) : Trace :=
  let rec go (pos : Nat) (t : Trace) : List String → Trace
    | [] => { t with created := t.created.reverse, delivs := t.delivs.reverse, flags := t.flags.reverse, len := pos }
    | l :: rest =>
      let t' :=
        match toks l with
        | ["c", tag, time, tgt, _, dm, clk] =>
          { t with created := ⟨natD tag, natD time, natD tgt, natD dm != 0, natD clk, pos⟩ :: t.created }
        | ["y", tag, _, time, dm, clk, ent] =>
          { t with created := ⟨natD tag, natD time, natD ent, natD dm != 0, natD clk, pos⟩ :: t.created }
        | ["x", tag] => { t with cancels := (natD tag, pos) :: t.cancels }
        | ["C", e] => { t with crashes := (natD e, pos) :: t.crashes, flags := (natD e, true, pos) :: t.flags }
        | ["U", e] => { t with flags := (natD e, false, pos) :: t.flags }
        | [k, clk, _, _, tag, evt] =>
          if k == "S" || k == "K" then
            { t with delivs := ⟨natD tag, natD clk, some (natD evt), pos⟩ :: t.delivs } else t
        | ["R", clk, _, _, tag] => { t with delivs := ⟨natD tag, natD clk, none, pos⟩ :: t.delivs }
        | ["end", clk, e] => { t with endClock := natD clk, endT := if e == "inf" then none else some (natD e) }
        | _ => t
      go (pos + 1) t' rest
  go 0 {} body

def pairwiseOk {α} (ok : α → α → Bool) : List α → Bool
  | [] => true
  | a :: r => r.all (ok a) && pairwiseOk ok r

/-- adjacent check (transitive relations only) -/
def adjOk {α} (ok : α → α → Bool) : List α → Bool
  | a :: b :: r => ok a b && adjOk ok (b :: r)
  | _ => true

/-- is entity `ent` down (`_crashed` set) at some moment of the stretch of the trace between positions
    `lo` and `hi`?  Down at `lo` (the last `C`/`U` line before `lo` is a `C`), or crashed inside it. -/
def downDuring (flags : List (Nat × Bool × Nat)) (ent lo hi : Nat) : Bool :=
  let mine := flags.filter (·.1 == ent)
  let atLo := ((mine.filter (·.2.2 < lo)).getLast?.map (·.2.1)).getD false
  atLo || mine.any (fun f => f.2.1 && lo ≤ f.2.2 && f.2.2 < hi)

def judge (t : Trace) : Option String :=
  let ds := t.delivs
  let tagged := ds.filter (·.tag != 0)
  let createdOf (tag : Nat) := t.created.find? (·.tag == tag)
  let cancelledBefore (tag pos : Nat) := t.cancels.any (fun c => c.1 == tag && c.2 < pos)
  let live (c : Created) (pos : Nat) := c.clock ≤ c.time && !cancelledBefore c.tag pos
  -- 1. the clock never moves backwards
  if !adjOk (fun a b => a.clock ≤ b.clock) ds then some "engine/clock-moved-backwards"
  -- 2. clock at delivery = the event's timestamp
  else if ds.any (fun d => match d.evtime with | some e => e != d.clock | none => false) then
    some "engine/clock-not-event-time"
  else if tagged.any (fun d => match createdOf d.tag with | some c => c.time != d.clock | none => false) then
    some "engine/delivered-at-wrong-time"
  -- 3. at most once
  else if !pairwiseOk (fun a b => a.tag != b.tag) tagged then some "engine/delivered-twice"
  -- 4. only created, non-cancelled, non-stale events are delivered
  else if tagged.any (fun d => (createdOf d.tag).isNone) then some "engine/delivered-unknown-event"
  else if tagged.any (fun d => cancelledBefore d.tag d.pos) then some "engine/cancelled-delivered"
  else if tagged.any (fun d => match createdOf d.tag with | some c => c.time < c.clock | none => false) then
    some "engine/stale-delivered"
  -- 5. time order with FIFO ties by creation
  else if !adjOk (fun a b => a.clock < b.clock || (a.clock == b.clock && a.tag < b.tag)) tagged then
    some "engine/tie-order-not-creation-order"
  else
    let delivered (tag : Nat) := tagged.any (·.tag == tag)
    -- the stretch of the trace in which the event falls due: after the last delivery that precedes it
    -- in (time, creation) order — and after its own creation — and before the first that follows it.
    -- An event whose target is up during that whole stretch (never crashed, or restored before) is
    -- live when it falls due, whatever the target's state was when the event was scheduled.
    let mayBeDown (c : Created) : Bool :=
      let before := tagged.filter fun d => d.clock < c.time || (d.clock == c.time && d.tag < c.tag)
      let after := tagged.find? fun d => c.time < d.clock || (d.clock == c.time && c.tag < d.tag)
      let lo := max ((before.getLast?.map (·.pos)).getD 0) c.pos
      let hi := (after.map (·.pos)).getD t.len
      downDuring t.flags c.target lo hi
    let lost := t.created.find? fun c =>
      !delivered c.tag && live c 1000000000 && !mayBeDown c &&
        (match t.endT with
         | some e => c.time ≤ e
         | none => !c.daemon || c.time < t.endClock)
    match lost with
    | some c => if c.daemon then some "engine/daemon-event-skipped" else some "engine/live-event-not-delivered"
    | none =>
      match t.endT with
      | some _ => none
      | none =>
        -- 7. auto-termination: every delivery happens while some live non-daemon event is pending.
        -- Two grades: nothing non-daemon is left in the heap at all, not even a cancelled event
        -- waiting for its lazy deletion (`…/ran-with-no-primary-in-heap`), or only cancelled ones
        -- are left (`…/ran-with-no-primary-pending`, the code's lazy-deletion behaviour).
        let undelivered (c : Created) (d : Deliv) := c.pos < d.pos &&
              !(tagged.any fun d' => d'.tag == c.tag && d'.pos < d.pos)
        let notYet (c : Created) (d : Deliv) := undelivered c d && !mayBeDown c
        let laterFutureResume (d : Deliv) := ds.any fun d' => d'.tag == 0 && d'.pos ≥ d.pos && d'.clock == d.clock
        let badHeap := ds.find? fun d =>
          let inHeap := t.created.any fun c =>
            !c.daemon && undelivered c d && c.clock ≤ c.time && (live c d.pos || d.clock ≤ c.time)
          !inHeap && !laterFutureResume d
        match badHeap with
        | some _ => some "engine/autoterm/ran-with-no-primary-in-heap"
        | none =>
          let bad := ds.find? fun d =>
            let pendingPrimary := t.created.any fun c => !c.daemon && notYet c d && live c d.pos
            !pendingPrimary && !laterFutureResume d
          match bad with
          | some _ => some "engine/autoterm/ran-with-no-primary-pending"
          | none => none

def judgeBlock (body : List String) : List String :=
  match judge (parse body) with
  | none => ["ok"]
  | some s => [s!"viol {s}"]

end HappyModel.C01.Spec
