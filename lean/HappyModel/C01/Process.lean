import HappyModel.C01.Engine
/-!
The process layer: `Event.invoke`, `_start_process`, `ProcessContinuation.invoke`,
`_normalize_yield`, `_run_completion_hooks` (core/event.py) and `SimFuture._park/resolve/_resume`,
`any_of`, `all_of` (core/sim_future.py), as one particular `Machine` on top of the engine.

A model ("program") is a table of handler scripts.  A script is a list of segments; a segment is a
list of actions followed by a terminator — exactly the code between two `yield`s of a generator.
Plain (non-generator) handlers are scripts with a single `ret` segment and `gen = false`.
-/
namespace HappyModel.C01

inductive Val
  | none
  | n (x : Nat)
  | pair (i : Nat) (v : Val)          -- any_of result `(index, value)`
  | list (vs : List Val)              -- all_of result
  | atom (kind x : Nat)               -- an opaque user value: exception instance, bool, string, float, class, ()
deriving Inhabited

/-- a numeral used as a value is the integer value `n` -/
instance (k : Nat) : OfNat Val k := ⟨.n k⟩

mutual
  def Val.show : Val → String
    | .none => "none"
    | .n x => s!"n{x}"
    | .pair i v => s!"p({i},{v.show})"
    | .list vs => "l[" ++ Val.showList vs ++ "]"
    | .atom k x => s!"a{k}.{x}"
  /-- comma-separated -/
  def Val.showList : List Val → String
    | [] => ""
    | [v] => v.show
    | v :: w :: r => v.show ++ "," ++ Val.showList (w :: r)
end

inductive Act
  | emit (tgt kind delay : Nat) (daemon : Bool) (hook : Nat)   -- hook = 0: none; h>0: completion hook h attached
  | emitPast (tgt kind back : Nat) (daemon : Bool)             -- an event stamped `back` ns before now (clamped at 0)
  | emitAbs (tgt kind time : Nat) (daemon : Bool)              -- an event at an absolute timestamp
  | release (i : Nat)                       -- hand a pre-created (held) event i to the scheduler
  | cancel (kind : Nat)                     -- cancel the most recently created event of this kind
  | resolve (f : Nat) (v : Val)              -- `future.resolve(v)`: the value is opaque to the engine
  | anyOf (f : Nat) (gs : List Nat)         -- slot f := any_of(gs…)
  | allOf (f : Nat) (gs : List Nat)         -- slot f := all_of(gs…)
  | fresh (f : Nat)                         -- slot f := SimFuture()
  | crash (ent : Nat)                       -- entity._crashed = True
  | restore (ent : Nat)                     -- entity._crashed = False
  | addHook (kind hook : Nat)               -- `add_completion_hook` on the most recently created event of this kind
  | metric (ent : Nat) (abs : Bool) (v : Int) -- entity.level = v  /  entity.level = (entity.level or 0) + v
  | relay (tgt kind delay limit : Nat) (daemon : Bool)
      -- hop counter in the event's metadata: `h = event.get_context("hops") or 0; if h < limit:
      -- event.add_context("hops", h + 1)` (stamps the delivered event) and forward a fresh event carrying `hops = h + 1`


inductive Term
  | yieldD (d : Nat)        -- `yield d` / `yield d, events`
  | yieldF (f : Nat)        -- `yield future`
  | ret                     -- return (events created in the last segment are the return value)


structure Seg where
  acts : List Act
  term : Term


structure HandlerDef where
  ent : Nat
  kind : Nat
  gen : Bool
  segs : List Seg


inductive Cb
  | anyCb (comp idx : Nat)
  | allCb (comp idx : Nat)


structure Fut where
  resolved : Bool := false
  value : Val := .none
  parked : Option Nat := none            -- pid parked on it
  cbs : List Cb := []
  results : List Val := []               -- all_of: slots
  remaining : Nat := 0                   -- all_of: inputs still missing


structure Proc where
  ent : Nat
  kind : Nat
  daemon : Bool
  segs : List Seg            -- remaining segments (head = next to run)
  hooks : List Nat           -- completion hooks of the originating event (one-shot, shared)
  done : Bool := false
  send : Val := .none        -- `_send_value` of the pending continuation
  started : Bool := false
  ev : Nat := 0              -- creation index of the originating event (whose `on_complete` list the process shares)
  hops : Nat := 0            -- `hops` entry of the originating event's metadata when it was delivered

/-- observable log entries (what the harness entities write down) -/
inductive Obs
  | start (t ent kind tag : Nat)             -- handle_event entered
  | resume (t pid : Nat) (v : Val) (tag : Nat) -- generator resumed with a sent value
  | finish (t pid : Nat)                     -- generator finished (StopIteration)
  | hook (t h : Nat)                         -- completion hook ran
  | skip (t ent kind tag : Nat)              -- no handler for this (entity, kind)


structure PS where
  defs : List HandlerDef
  procs : List Proc := []
  futs : List Fut := []
  nid : Nat                                  -- mirror of the engine's next creation index
  lastKind : List (Nat × Nat) := []          -- kind ↦ id of the most recently created event of that kind
  hookOf : List (Nat × Nat) := []            -- event id ↦ hook attached at creation
  obs : List Obs := []                       -- newest first
  tagc : Nat := 0                            -- harness creation tags handed out so far
  crashed : List Nat := []                   -- entities with `_crashed = True`
  gateCont : Bool := false                   -- variant: continuations to a crashed entity are gated too
  held : List (Nat × Spec) := []             -- events created before the run and not yet scheduled
  late : List (Nat × Nat) := []              -- pid ↦ hook added to the originating event while the process is in flight
  lateAtt : List Nat := []                   -- every hook ever added in flight (never shrinks)
  level : List (Nat × Int) := []             -- entity ↦ its `level` attribute (absent = `None`)
  hopsOf : List (Nat × Nat) := []            -- creation tag ↦ `hops` metadata an event was created with (absent = none);
                                             --   a copy re-created by reset() has the tag, hence the hops, of the original
  cur : Nat := 0                             -- `hops` of the event whose handler / process is running

def futGet (fs : List Fut) (f : Nat) : Fut := fs.getD f ({} : Fut)
def futSet (fs : List Fut) (f : Nat) (x : Fut) : List Fut :=
  if f < fs.length then fs.set f x else fs ++ List.replicate (f - fs.length) ({} : Fut) ++ [x]

/-- accumulated effect of running code: specs in creation order, cancels -/
structure Eff where
  ps : PS
  specs : List Spec := []
  cancels : List Nat := []

def Eff.push (e : Eff) (s0 : Spec) (hook : Nat) (tagged : Bool := true) : Eff :=
  let id := e.ps.nid
  let tagc := if tagged then e.ps.tagc + 1 else e.ps.tagc
  let s := { s0 with tag := if tagged then tagc else 0 }
  { e with specs := e.specs ++ [s],
           ps := { e.ps with nid := id + 1, tagc := tagc,
                             lastKind := if tagged && s.data == 0 then (s.kind, id) :: e.ps.lastKind.filter (fun p => p.1 != s.kind)
                                         else e.ps.lastKind,
                             hookOf := if hook = 0 then e.ps.hookOf else (id, hook) :: e.ps.hookOf } }

/-- the continuation event of process `pid`: data = pid + 1 -/
def contSpec (p : Proc) (pid t : Nat) : Spec := ⟨t, p.ent, p.kind, p.daemon, pid + 1, 0⟩

/-- `SimFuture._resume`: schedule a continuation for the parked process at `now` -/
def resumeParked (e : Eff) (now f : Nat) : Eff :=
  let fu := futGet e.ps.futs f
  match fu.parked with
  | none => e
  | some pid =>
    match e.ps.procs[pid]? with
    | none => e
    | some p =>
      let e1 := e.push (contSpec p pid now) 0 false
      { e1 with ps := { e1.ps with futs := futSet e1.ps.futs f { fu with parked := none },
                                   procs := e1.ps.procs.set pid { p with send := fu.value } } }

/-- `SimFuture.resolve` including settle callbacks (any_of / all_of), fuel-bounded by nesting depth -/
def resolveFut : Nat → Eff → Nat → Nat → Val → Eff
  | 0, e, _, _, _ => e
  | fuel+1, e, now, f, v =>
    let fu := futGet e.ps.futs f
    if fu.resolved then e else
    let fu' := { fu with resolved := true, value := v, cbs := [] }
    let e1 := { e with ps := { e.ps with futs := futSet e.ps.futs f fu' } }
    let e2 := resumeParked e1 now f
    fu.cbs.foldl (fun acc cb =>
      match cb with
      | .anyCb comp idx => resolveFut fuel acc now comp (.pair idx v)
      | .allCb comp idx =>
        let c := futGet acc.ps.futs comp
        if c.resolved then acc else
        let res := c.results.set idx v
        let rem := c.remaining - 1
        let acc1 := { acc with ps := { acc.ps with futs := futSet acc.ps.futs comp { c with results := res, remaining := rem } } }
        if rem = 0 then resolveFut fuel acc1 now comp (.list res) else acc1) e2

def depthFuel : Nat := 64

/-- `_add_settle_callback`: fires at once if the input is already resolved -/
def addCb (e : Eff) (now g : Nat) (cb : Cb) : Eff :=
  let gu := futGet e.ps.futs g
  if gu.resolved then
    match cb with
    | .anyCb comp idx => resolveFut depthFuel e now comp (.pair idx gu.value)
    | .allCb comp idx =>
      let c := futGet e.ps.futs comp
      if c.resolved then e else
      let res := c.results.set idx gu.value
      let rem := c.remaining - 1
      let e1 := { e with ps := { e.ps with futs := futSet e.ps.futs comp { c with results := res, remaining := rem } } }
      if rem = 0 then resolveFut depthFuel e1 now comp (.list res) else e1
  else { e with ps := { e.ps with futs := futSet e.ps.futs g { gu with cbs := gu.cbs ++ [cb] } } }

/-- `event.add_completion_hook(h)` for the event with creation index `id`: the list is shared with the
    process the event started (`_start_process` passes `on_complete` on), so a hook added while that
    process is in flight runs when it finishes; before the delivery it is picked up at the delivery;
    after the finish (the list was cleared) or on a dropped event it never runs -/
def addHookTo (e : Eff) (id hook : Nat) : Eff :=
  match e.ps.procs.findIdx? (fun p => p.ev == id && !p.done) with
  | some pid => { e with ps := { e.ps with late := e.ps.late ++ [(pid, hook)], lateAtt := hook :: e.ps.lateAtt } }
  | none => { e with ps := { e.ps with hookOf := e.ps.hookOf ++ [(id, hook)] } }

def hopsAt (l : List (Nat × Nat)) (tag : Nat) : Nat := ((l.find? (fun p => p.1 == tag)).map (·.2)).getD 0

def levelOf (l : List (Nat × Int)) (x : Nat) : Option Int := (l.find? (fun p => p.1 == x)).map (·.2)

def setLevel (l : List (Nat × Int)) (x : Nat) (abs : Bool) (v : Int) : List (Nat × Int) :=
  (x, if abs then v else (levelOf l x).getD 0 + v) :: l.filter (fun p => p.1 != x)

/-- hooks added to the originating event of `pid` while it was in flight, in order -/
def lateOf (ps : PS) (pid : Nat) : List Nat := (ps.late.filter (fun q => q.1 == pid)).map (·.2)

def enum {α} (l : List α) : List (Nat × α) := (List.range l.length).zip l

def runAct (now : Nat) (e : Eff) : Act → Eff
  | .emit tgt kind delay daemon hook => e.push ⟨now + delay, tgt, kind, daemon, 0, 0⟩ hook
  | .emitAbs tgt kind time daemon => e.push ⟨time, tgt, kind, daemon, 0, 0⟩ 0
  | .release i =>
    match e.ps.held.find? (fun p => p.1 == i) with
    | none => e
    | some (_, sp) =>
      -- scheduled now, with the creation tag it got before the run
      let id := e.ps.nid
      { e with specs := e.specs ++ [sp],
               ps := { e.ps with nid := id + 1, held := e.ps.held.filter (fun p => p.1 != i) } }
  | .emitPast tgt kind back daemon => e.push ⟨now - back, tgt, kind, daemon, 0, 0⟩ 0
  | .crash x => { e with ps := { e.ps with crashed := x :: e.ps.crashed.filter (· != x) } }
  | .restore x => { e with ps := { e.ps with crashed := e.ps.crashed.filter (· != x) } }
  | .cancel kind =>
    match e.ps.lastKind.find? (fun p => p.1 == kind) with
    | some (_, id) => { e with cancels := e.cancels ++ [id] }
    | none => e
  | .resolve f v => resolveFut depthFuel e now f v
  | .addHook kind hook =>
    match e.ps.lastKind.find? (fun p => p.1 == kind) with
    | some (_, id) => addHookTo e id hook
    | none => e
  | .metric x abs v => { e with ps := { e.ps with level := setLevel e.ps.level x abs v } }
  | .relay tgt kind delay limit daemon =>
    -- (stamping the delivered event changes nothing the engine looks at again: what was scheduled is
    -- what reset() replays)
    if e.ps.cur < limit then
      let e1 := e.push ⟨now + delay, tgt, kind, daemon, 0, 0⟩ 0
      { e1 with ps := { e1.ps with hopsOf := (e1.ps.tagc, e.ps.cur + 1) :: e1.ps.hopsOf } }
    else e
  | .fresh f => { e with ps := { e.ps with futs := futSet e.ps.futs f ({} : Fut) } }
  | .anyOf f gs =>
    let e0 := { e with ps := { e.ps with futs := futSet e.ps.futs f ({} : Fut) } }
    (enum gs).foldl (fun acc p => addCb acc now p.2 (.anyCb f p.1)) e0
  | .allOf f gs =>
    let c0 : Fut := { results := List.replicate gs.length .none, remaining := gs.length }
    let e0 := { e with ps := { e.ps with futs := futSet e.ps.futs f c0 } }
    (enum gs).foldl (fun acc p => addCb acc now p.2 (.allCb f p.1)) e0

def addObs (e : Eff) (o : Obs) : Eff := { e with ps := { e.ps with obs := o :: e.ps.obs } }

/-- `_run_completion_hooks`: each hook h logs and emits an event of kind 1000+h to entity 0 at `now` -/
def runHooks (now : Nat) (e : Eff) (hooks : List Nat) : Eff :=
  hooks.foldl (fun acc h => (addObs acc (.hook now h)).push ⟨now, 0, 1000 + h, false, 0, 0⟩ 0) e

/-- run the next segment of process `pid` (`ProcessContinuation.invoke`) -/
def runSegment (now : Nat) (e : Eff) (pid : Nat) (tag : Nat := 0) : Eff :=
  match e.ps.procs[pid]? with
  | none => e
  | some p =>
    match p.segs with
    | [] => e
    | seg :: rest =>
      let e0 := if p.started then addObs e (.resume now pid p.send tag) else e
      let p := { p with started := true, send := .none }
      let e0 := { e0 with ps := { e0.ps with procs := e0.ps.procs.set pid p, cur := p.hops } }
      let e1 := seg.acts.foldl (runAct now) e0
      let setProc (x : Eff) (q : Proc) : Eff := { x with ps := { x.ps with procs := x.ps.procs.set pid q } }
      match seg.term with
      | .yieldD d =>
        let e2 := setProc e1 { p with segs := rest }
        e2.push (contSpec p pid (now + d)) 0
      | .yieldF f =>
        let e2 := setProc e1 { p with segs := rest }
        let fu := futGet e2.ps.futs f
        let e3 := { e2 with ps := { e2.ps with futs := futSet e2.ps.futs f { fu with parked := some pid } } }
        if fu.resolved then resumeParked e3 now f else e3
      | .ret =>
        -- `_run_completion_hooks`: the shared list as it is now (hooks the event had when the process
        -- started, then those added since), cleared before the hooks run
        let e2 := setProc e1 { p with segs := [], done := true, hooks := [] }
        let e2 := { e2 with ps := { e2.ps with late := e2.ps.late.filter (fun q => q.1 != pid) } }
        let e3 := addObs e2 (.finish now pid)
        runHooks now e3 (p.hooks ++ lateOf e1.ps pid)

/-- the `Machine` of a program -/
def procHandle (ps : PS) (now : Nat) (ev : Ev) : Out PS :=
  let e0 : Eff := { ps := ps }
  let hooks := (ps.hookOf.filter (fun p => p.1 == ev.id)).map (·.2)
  if ev.data = 0 then
    -- plain event: dispatch to the handler table
    match ps.defs.find? (fun d => d.ent == ev.target && d.kind == ev.kind) with
    | none =>
      let e1 := addObs e0 (.skip now ev.target ev.kind ev.tag)
      let e2 := runHooks now e1 hooks
      { ent := e2.ps, specs := e2.specs, cancels := e2.cancels }
    | some d =>
      let e1 := addObs e0 (.start now ev.target ev.kind ev.tag)
      let pid := e1.ps.procs.length
      let p : Proc :=
        { ent := ev.target, kind := ev.kind, daemon := ev.daemon, segs := d.segs, hooks := hooks, ev := ev.id,
          hops := hopsAt ps.hopsOf ev.tag }
      -- (`_start_process` also creates a first continuation that is never pushed; it consumes a
      -- creation index in the code but has no effect on relative order, so the model skips it)
      let e2 := { e1 with ps := { e1.ps with procs := e1.ps.procs ++ [p] } }
      let e3 := runSegment now e2 pid
      { ent := e3.ps, specs := e3.specs, cancels := e3.cancels }
  else
    let pid := ev.data - 1
    let e3 := runSegment now e0 pid ev.tag
    { ent := e3.ps, specs := e3.specs, cancels := e3.cancels }

/-- `Event.invoke` consults `target._crashed`; `ProcessContinuation.invoke` does not (variant
    `gateCont` models a continuation gate) -/
def procCrashed (ps : PS) (ev : Ev) : Bool :=
  ps.crashed.contains ev.target && (ev.data == 0 || ps.gateCont)

def procMachine : Machine PS := { handle := procHandle, crashed := procCrashed }

end HappyModel.C01
