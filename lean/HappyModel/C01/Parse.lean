import HappyModel.Proto
import HappyModel.C01.Process
/-! Program syntax shared by the C01 / C02 / C04 drivers.

    ents <n>
    pre <tgt> <kind> <timeNs> <daemon> <hook> <cancelled>
    def <ent> <kind> <gen> <acts> | <term> ; <acts> | <term> ; …
      acts, comma separated:  E tgt kind delayNs daemon hook | X kind | R f val | A f g… | L f g… | N f | C ent | U ent |
                              AH kind hook | M ent abs v | RL tgt kind delayNs limit daemon
    hop <index of pre-run event> <hops>
    start <ns>                                   start_time of the run (default 0)
    lvl <ent> <v>
      term:                   Y delayNs | W f | Z
-/
namespace HappyModel.C01
open HappyModel.Proto

def splitOnTok (sep : String) (ts : List String) : List (List String) :=
  let rec go (cur : List String) (acc : List (List String)) : List String → List (List String)
    | [] => (cur.reverse :: acc).reverse
    | t :: rest => if t == sep then go [] (cur.reverse :: acc) rest else go (t :: cur) acc rest
  go [] [] ts

/-- a value without nesting: `none`, `n7`, `a0.3`; a bare number is read as `n…` -/
def parseFlatVal (t : String) : Val :=
  if t == "none" then .none
  else if t.startsWith "n" then .n (natD (t.drop 1).toString)
  else if t.startsWith "a" then
    match (t.drop 1).toString.splitOn "." with
    | [k, x] => .atom (natD k) (natD x)
    | _ => .none
  else .n (natD t)

/-- value tokens of the program / trace syntax: flat values, `p(i,flat)`, `l[flat,flat,…]` -/
def parseVal (t : String) : Val :=
  if t.startsWith "p(" && t.endsWith ")" then
    let inner := ((t.drop 2).dropEnd 1).toString
    match inner.splitOn "," with
    | i :: rest => .pair (natD i) (parseFlatVal (",".intercalate rest))
    | [] => .none
  else if t.startsWith "l[" && t.endsWith "]" then
    let inner := ((t.drop 2).dropEnd 1).toString
    if inner.isEmpty then .list [] else .list ((inner.splitOn ",").map parseFlatVal)
  else parseFlatVal t

def parseAct (ts : List String) : Option Act :=
  match ts with
  | ["E", tgt, kind, d, dm, hk] => some (.emit (natD tgt) (natD kind) (natD d) (natD dm != 0) (natD hk))
  | ["EP", tgt, kind, b, dm] => some (.emitPast (natD tgt) (natD kind) (natD b) (natD dm != 0))
  | ["EA", tgt, kind, t, dm] => some (.emitAbs (natD tgt) (natD kind) (natD t) (natD dm != 0))
  | ["RH", i] => some (.release (natD i))
  | ["X", k] => some (.cancel (natD k))
  | ["R", f, v] => some (.resolve (natD f) (parseVal v))
  | ["AH", k, h] => some (.addHook (natD k) (natD h))
  | ["M", x, a, v] => some (.metric (natD x) (natD a != 0) (intD v))
  | ["RL", tgt, kind, d, lim, dm] => some (.relay (natD tgt) (natD kind) (natD d) (natD lim) (natD dm != 0))
  | "A" :: f :: gs => some (.anyOf (natD f) (nats gs))
  | "L" :: f :: gs => some (.allOf (natD f) (nats gs))
  | ["N", f] => some (.fresh (natD f))
  | ["C", x] => some (.crash (natD x))
  | ["U", x] => some (.restore (natD x))
  | _ => none

def parseTerm (ts : List String) : Term :=
  match ts with
  | ["Y", d] => .yieldD (natD d)
  | ["W", f] => .yieldF (natD f)
  | _ => .ret

def parseSeg (ts : List String) : Seg :=
  match splitOnTok "|" ts with
  | [acts, term] => ⟨(splitOnTok "," acts).filterMap parseAct, parseTerm term⟩
  | [term] => ⟨[], parseTerm term⟩
  | _ => ⟨[], .ret⟩

structure Program where
  defs : List HandlerDef := []
  pre : List (Spec × Nat × Bool) := []      -- spec, hook, cancelled-before-run
  held : List Spec := []                    -- created before the run (after the scheduled ones), not scheduled
  levels : List (Nat × Int) := []           -- initial `level` attribute of entities (absent = None)
  hops : List (Nat × Nat) := []             -- creation tag of a pre-run event ↦ the `hops` metadata it is scheduled with
  start : Nat := 0                          -- `Simulation(start_time=…)`: the clock the run starts at

def parseProgram (body : List String) : Program :=
  body.foldl (fun p line =>
    match toks line with
    | "def" :: ent :: kind :: gen :: rest =>
      { p with defs := p.defs ++ [⟨natD ent, natD kind, natD gen != 0, (splitOnTok ";" rest).map parseSeg⟩] }
    | ["pre", tgt, kind, t, dm, hk, c] =>
      { p with pre := p.pre ++ [(⟨natD t, natD tgt, natD kind, natD dm != 0, 0, p.pre.length + 1⟩, natD hk, natD c != 0)] }
    | ["held", tgt, kind, t, dm] =>
      { p with held := p.held ++ [⟨natD t, natD tgt, natD kind, natD dm != 0, 0, 0⟩] }
    | ["start", t] => { p with start := natD t }
    | ["hop", i, h] => { p with hops := (natD i + 1, natD h) :: p.hops }
    | ["lvl", x, v] => { p with levels := (natD x, intD v) :: p.levels.filter (fun q => q.1 != natD x) }
    | _ => p) {}

/-- initial engine state of a program at its start clock -/
def Program.initState (p : Program) (gateCont : Bool) : St PS :=
  let specs := p.pre.map (·.1)
  let n := specs.length
  let ids := List.range n
  let ps : PS :=
    { defs := p.defs, nid := n, tagc := n + p.held.length, gateCont := gateCont,
      held := ((List.range p.held.length).zip p.held).map (fun q => (q.1, { q.2 with tag := n + q.1 + 1 })),
      lastKind := (ids.zip specs).foldl (fun acc q => (q.2.kind, q.1) :: acc.filter (fun x => x.1 != q.2.kind)) [],
      level := p.levels, hopsOf := p.hops,
      hookOf := (ids.zip p.pre).filterMap (fun q => if q.2.2.1 = 0 then none else some (q.1, q.2.2.1)) }
  let s : St PS := init ps p.start specs
  { s with cancelled := (ids.zip p.pre).filterMap (fun q => if q.2.2.2 then some q.1 else none) }

def obsLine : Obs → String
  | .start t e k tag => s!"S {t} {e} {k} {tag}"
  | .skip t e k tag => s!"K {t} {e} {k} {tag}"
  | .resume t pid v tag => s!"R {t} {pid} {v.show} {tag}"
  | .finish t pid => s!"F {t} {pid}"
  | .hook t h => s!"H {t} {h}"

def endT? (s : String) : Option Nat := if s == "inf" then none else some (natD s)

def runProgram (variant : String) (endS fuelS : String) (body : List String) : List String :=
  let p := parseProgram body
  let s0 := p.initState (variant == "contgate")
  let s := run procMachine (endT? endS) (natD fuelS) s0
  let halted := (step procMachine (endT? endS) s).isNone
  s.ent.obs.reverse.map obsLine ++
    [s!"end {s.now} {s.processed} {s.nCancelled} {s.nStale} {if halted then 1 else 0}"]

end HappyModel.C01
