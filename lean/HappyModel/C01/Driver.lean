import HappyModel.C01.Parse
import HappyModel.C01.Spec
namespace HappyModel.C01.Driver
open HappyModel.C01

def handle (hdr : List String) (body : List String) : List String :=
  match hdr with
  | ["run", variant, endS, fuel] => runProgram variant endS fuel body
  | ["judge"] => Spec.judgeBlock body
  | _ => ["bad-mode"]

end HappyModel.C01.Driver
