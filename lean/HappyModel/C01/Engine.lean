/-!
Model of the event loop of `happysimulator/core/simulation.py` (`_run_loop`, `_execute_until`),
`core/event_heap.py` and the ordering/cancellation/crash-gate parts of `core/event.py`.

* time is integer nanoseconds; an event is identified by its creation index `id`;
* the heap is an unordered list from which the minimum under `(time, id)` is extracted
  (`Event.__lt__`; CPython `heapq` is trusted to return the minimum of a total order);
* entities are an arbitrary state `σ` with an arbitrary handler function — theorems quantify over
  every handler, so over every model a user can write (generators enter through the process layer,
  which is one particular handler);
* `endT = none` is `Instant.Infinity`, i.e. auto-termination mode.
-/
namespace HappyModel.C01

structure Ev where
  id : Nat
  time : Nat
  target : Nat
  kind : Nat
  daemon : Bool
  data : Nat := 0      -- payload, uninterpreted by the engine (continuations use it)
  born : Nat := 0      -- clock value when the event was created (ghost: defines "stale when scheduled")
  tag : Nat := 0       -- harness-visible creation tag, uninterpreted by the engine
deriving Repr, DecidableEq

/-- what a handler asks to schedule; creation order = list order -/
structure Spec where
  time : Nat
  target : Nat
  kind : Nat
  daemon : Bool
  data : Nat := 0
  tag : Nat := 0
deriving Repr, DecidableEq

/-- result of invoking a handler -/
structure Out (σ : Type) where
  ent : σ
  specs : List Spec := []
  cancels : List Nat := []     -- ids of events to cancel (`Event.cancel()`)

/-- the user's model: a handler and the crash flags the engine consults (`target._crashed`) -/
structure Machine (σ : Type) where
  handle : σ → Nat → Ev → Out σ        -- state, clock.now, event
  crashed : σ → Ev → Bool := fun _ _ => false   -- `getattr(target, "_crashed", False)` gate

def keyLt (a b : Ev) : Bool := a.time < b.time || (a.time == b.time && a.id < b.id)

/-- extract-minimum of the heap (by key) -/
def minOf : Ev → List Ev → Ev
  | m, [] => m
  | m, x :: xs => if keyLt x m then minOf x xs else minOf m xs

inductive Verdict
  | delivered | cancelled | stale | gated
deriving Repr, DecidableEq

structure St (σ : Type) where
  heap : List Ev
  now : Nat
  nextId : Nat
  cancelled : List Nat := []
  ent : σ
  log : List Ev := []                    -- deliveries (handler ran), oldest first
  popped : List (Ev × Verdict) := []     -- every pop with what happened to it, oldest first
  primary : Nat                          -- `EventHeap._primary_event_count`
  processed : Nat := 0                   -- `total_events_processed`
  nCancelled : Nat := 0                  -- `events_cancelled`
  nStale : Nat := 0                      -- "Time travel detected" warnings

def mkEvents (nextId now : Nat) : List Spec → List Ev
  | [] => []
  | s :: ss => ⟨nextId, s.time, s.target, s.kind, s.daemon, s.data, now, s.tag⟩ :: mkEvents (nextId+1) now ss

def countPrimary (l : List Ev) : Nat := (l.filter (fun e => !e.daemon)).length

/-- the loop body after the pop of `e` -/
def stepWith {σ} (m : Machine σ) (s : St σ) (e : Ev) : St σ :=
  let heap' := s.heap.erase e
  let prim' := if e.daemon then s.primary else s.primary - 1
  if s.cancelled.contains e.id then
    { s with heap := heap', primary := prim', nCancelled := s.nCancelled + 1,
             popped := s.popped ++ [(e, .cancelled)] }
  else if e.time < s.now then
    { s with heap := heap', primary := prim', nStale := s.nStale + 1,
             popped := s.popped ++ [(e, .stale)] }
  else if m.crashed s.ent e then
    { s with heap := heap', primary := prim', now := e.time, processed := s.processed + 1,
             popped := s.popped ++ [(e, .gated)] }
  else
    let o := m.handle s.ent e.time e
    let evs := mkEvents s.nextId e.time o.specs
    { heap := heap' ++ evs, now := e.time, nextId := s.nextId + o.specs.length,
      cancelled := s.cancelled ++ o.cancels, ent := o.ent, log := s.log ++ [e],
      popped := s.popped ++ [(e, .delivered)], primary := prim' + countPrimary evs,
      processed := s.processed + 1, nCancelled := s.nCancelled, nStale := s.nStale }

/-- may the loop take another iteration? (`while heap.has_events() and end_time >= now`, then the
    auto-termination test) -/
def continues {σ} (endT : Option Nat) (s : St σ) : Bool :=
  !s.heap.isEmpty &&
  match endT with
  | some t => decide (s.now ≤ t)
  | none => decide (0 < s.primary)

def step {σ} (m : Machine σ) (endT : Option Nat) (s : St σ) : Option (St σ) :=
  match s.heap with
  | [] => none
  | x :: xs => if continues endT s then some (stepWith m s (minOf x xs)) else none

def run {σ} (m : Machine σ) (endT : Option Nat) : Nat → St σ → St σ
  | 0, s => s
  | n+1, s => match step m endT s with
    | none => s
    | some s' => run m endT n s'

/-- initial state: pre-run events with creation indices `0, 1, …` in scheduling order at clock `start` -/
def init {σ} (ent : σ) (start : Nat) (pre : List Spec) : St σ :=
  let evs := mkEvents 0 start pre
  { heap := evs, now := start, nextId := pre.length, ent := ent, primary := countPrimary evs }

end HappyModel.C01
