import HappyModel.C01.Parse
import HappyModel.C01.Spec
import HappyModel.C02.Spec
namespace HappyModel.C02.Driver
open HappyModel.C01

def handle (hdr : List String) (body : List String) : List String :=
  match hdr with
  | ["run", variant, endS, fuel] => runProgram variant endS fuel body
  | ["judge"] =>
    -- both the engine clauses (C01) and the process/future clauses (C02) are judged
    match HappyModel.C02.Spec.judge body with
    | some s => [s!"viol {s}"]
    | none =>
      match HappyModel.C01.Spec.judge (HappyModel.C01.Spec.parse body) with
      | none => ["ok"]
      | some sig =>
        -- the auto-termination clause belongs to C01 (and is a known finding there)
        if sig.startsWith "engine/autoterm" then ["ok"] else [s!"viol {sig}"]
  | _ => ["bad-mode"]

end HappyModel.C02.Driver
