import HappyModel.Proto
import HappyModel.C01.Process
import HappyModel.C01.Parse
/-!
C02 Spec over the harness trace (superset of the C01 trace):

    n f                 slot f := SimFuture()                (fresh future)
    a c g1 g2 …         slot c := any_of(g1, g2, …)
    l c g1 g2 …         slot c := all_of(g1, g2, …)
    r f v               resolve(f, v) was called; v is a value token (none, n7, a0.3 = an exception instance,
                        a1.0 = False, a2.0 = "", …, p(1,n5), l[…]) — opaque to the engine
    h tag k             completion hook k was attached to event <tag> (at creation or later)
    H t k               completion hook k ran at clock t
    w pid f             process pid yielded future f
    y tag pid time …    process pid yielded a delay (continuation due at time)
    S/K/R/F/H …         deliveries as in C01 (R clock pid val tag)

The predicate: a process that yields a future is resumed exactly once, at the clock of
max(position of the yield, position at which the future became resolved), with the future's value;
any_of = (index, value) of the first input to resolve (lowest index among inputs already resolved at
construction); all_of = all values in argument order at the position of the last input; a second
resolve changes nothing; a delay continuation resumes at exactly the yielded time, with `None`; the value is *sent* into the
process whatever it is (an exception instance is a value like any other: the yield expression evaluates to
it, nothing is raised).  Completion hooks: when the processing of an event finishes (plain handler
returned / no handler / its generator process finished) every hook attached to the event up to that
moment — at creation, before the delivery, or while the process was in flight — runs exactly once, in
attachment order, at that instant, and hooks run at no other time.
-/
namespace HappyModel.C02.Spec
open HappyModel.Proto HappyModel.C01

inductive Line
  | fresh (f : Nat)
  | anyOf (c : Nat) (gs : List Nat)
  | allOf (c : Nat) (gs : List Nat)
  | resolve (f : Nat) (v : Val)
  | hookAdd (tag k : Nat)
  | hookRun (clock k : Nat)
  | start (clock tag : Nat)            -- `S`: a handler was entered (allocates the next process id)
  | skipped (clock tag : Nat)          -- `K`: no handler, the event's processing is over at once
  | created
  | wait (pid f : Nat) (daemon : Bool)
  | ydelay (tag pid time : Nat)
  | resume (clock pid : Nat) (val : String) (tag : Nat)
  | deliv (clock : Nat)
  | finish (clock pid : Nat)
  | crash
  | endL (clock : Nat) (endT : Option Nat)
  | other

def parseLine (l : String) : Line :=
  match toks l with
  | ["n", f] => .fresh (natD f)
  | "a" :: c :: gs => .anyOf (natD c) (nats gs)
  | "l" :: c :: gs => .allOf (natD c) (nats gs)
  | ["r", f, v] => .resolve (natD f) (parseVal v)
  | ["h", tag, k] => .hookAdd (natD tag) (natD k)
  | ["H", clk, k] => .hookRun (natD clk) (natD k)
  | "c" :: _ => .created
  | ["w", pid, f, dm] => .wait (natD pid) (natD f) (natD dm != 0)
  | ["y", tag, pid, time, _, _, _] => .ydelay (natD tag) (natD pid) (natD time)
  | ["R", clk, pid, val, tag] => .resume (natD clk) (natD pid) val (natD tag)
  | ["S", clk, _, _, tag, _] => .start (natD clk) (natD tag)
  | ["K", clk, _, _, tag, _] => .skipped (natD clk) (natD tag)
  | ["F", clk, pid] => .finish (natD clk) (natD pid)
  | ["C", _] => .crash
  | ["end", clk, e] => .endL (natD clk) (if e == "inf" then none else some (natD e))
  | _ => .other

/-- state of a future object as the specification sees it -/
inductive FExpr
  | plain
  | anyOf (gs : List Nat)      -- object ids of the inputs
  | allOf (gs : List Nat)

structure FObj where
  expr : FExpr
  born : Nat                   -- position of construction
  res : Option (Nat × Val) := none   -- (position, value) once resolved

structure SSt where
  objs : List FObj := []               -- object id = index
  slot : List (Nat × Nat) := []        -- slot ↦ object id (latest binding)
  waits : List (Nat × Nat × Nat) := [] -- (pid, object id, position) not yet resumed
  daemonWaits : List Nat := []         -- pids of daemon processes that parked
  delays : List (Nat × Nat × Nat) := []-- (pid, tag, due time) not yet resumed
  clockAt : List Nat := []             -- clock at each position (newest first)
  clock : Nat := 0
  err : Option String := none
  crashes : Bool := false
  endT : Option Nat := none
  hooks : List (Nat × Nat) := []       -- (event tag, hook) attached and not yet due, in attachment order
  pidTag : List (Nat × Nat) := []      -- process id ↦ tag of the event that started it
  nProc : Nat := 0
  due : List Nat := []                 -- hooks that must run right now (the event just finished), in order
  dueClock : Nat := 0

def SSt.obj (s : SSt) (slot : Nat) : Option Nat := (s.slot.find? (·.1 == slot)).map (·.2)

def SSt.bind (s : SSt) (slot : Nat) (e : FExpr) (pos : Nat) : SSt :=
  { s with objs := s.objs ++ [⟨e, pos, none⟩], slot := (slot, s.objs.length) :: s.slot.filter (·.1 != slot) }

/-- a slot that was never bound explicitly is a plain future created on first use -/
def SSt.ensure (s : SSt) (slot pos : Nat) : SSt × Nat :=
  match s.obj slot with
  | some o => (s, o)
  | none => let s' := s.bind slot .plain pos; (s', s.objs.length)

/-- recompute resolutions of composites until nothing changes (bounded by the number of objects) -/
def settle (pos : Nat) : Nat → List FObj → List FObj
  | 0, objs => objs
  | fuel+1, objs =>
    let get (i : Nat) : Option (Nat × Val) := (objs[i]?).bind (·.res)
    let objs' := objs.map fun o =>
      match o.res with
      | some _ => o
      | none =>
        match o.expr with
        | .plain => o
        | .anyOf gs =>
          -- inputs resolved so far, with (position clipped to construction, index)
          let cands := (enum gs).filterMap fun p => (get p.2).map fun r => (max r.1 o.born, p.1, r.2)
          match cands with
          | [] => o
          | c :: cs =>
            let best := cs.foldl (fun b x => if x.1 < b.1 || (x.1 == b.1 && x.2.1 < b.2.1) then x else b) c
            { o with res := some (max best.1 pos, .pair best.2.1 best.2.2) }
        | .allOf gs =>
          let rs := gs.map get
          if rs.all (·.isSome) then
            { o with res := some (pos, .list (rs.map fun r => (r.map (·.2)).getD .none)) }
          else o
    settle pos fuel objs'

/-- the processing of event `tag` is over at clock `clk`: its hooks fall due -/
def SSt.finishEvent (s : SSt) (tag clk : Nat) : SSt :=
  { s with due := (s.hooks.filter (·.1 == tag)).map (·.2), dueClock := clk,
           hooks := s.hooks.filter (·.1 != tag) }

def stepLine (s : SSt) (pos : Nat) (ln : Line) : SSt :=
  let s := { s with clockAt := s.clock :: s.clockAt }
  -- (the hook clauses are `hookMonitor`'s)
  match ln with
  | .hookAdd _ _ => s
  | .hookRun _ _ => s
  | .created => s
  | .start clk _ => { s with clock := clk }
  | .skipped clk _ => { s with clock := clk }
  | .fresh f => s.bind f .plain pos
  | .anyOf c gs =>
    let (s1, ids) := gs.foldl (fun (acc : SSt × List Nat) g => let (a, o) := acc.1.ensure g pos; (a, acc.2 ++ [o])) (s, [])
    let s2 := s1.bind c (.anyOf ids) pos
    { s2 with objs := settle pos (s2.objs.length + 1) s2.objs }
  | .allOf c gs =>
    let (s1, ids) := gs.foldl (fun (acc : SSt × List Nat) g => let (a, o) := acc.1.ensure g pos; (a, acc.2 ++ [o])) (s, [])
    let s2 := s1.bind c (.allOf ids) pos
    { s2 with objs := settle pos (s2.objs.length + 1) s2.objs }
  | .resolve f v =>
    let (s1, o) := s.ensure f pos
    match s1.objs[o]? with
    | some ob =>
      if ob.res.isSome then s1 else
      let objs := s1.objs.set o { ob with res := some (pos, v) }
      { s1 with objs := settle pos (objs.length + 1) objs }
    | none => s1
  | .wait pid f dm =>
    let (s1, o) := s.ensure f pos
    { s1 with waits := (pid, o, pos) :: s1.waits,
              daemonWaits := if dm then pid :: s1.daemonWaits else s1.daemonWaits }
  | .ydelay tag pid time => { s with delays := (pid, tag, time) :: s.delays }
  | .deliv clk => { s with clock := clk }
  | .finish clk _ => { s with clock := clk }
  | .crash => { s with crashes := true }
  | .endL _ e => { s with endT := e }
  | .other => s
  | .resume clk pid val tag =>
    let s := { s with clock := clk }
    if tag != 0 then s      -- resumed by a delay continuation: the delay clauses are `delayMonitor`'s
    else
      match s.waits.find? (fun w => w.1 == pid) with
      | none => s           -- no wait to resume from: `waitMonitor` reports it
      | some w =>
        let s' := { s with waits := s.waits.filter (fun x => x.1 != pid) }
        match (s.objs[w.2.1]?).bind (·.res) with
        | none => { s' with err := s.err <|> some "future/resumed-before-resolved" }
        | some (rpos, v) =>
          let duePos := max rpos w.2.2
          -- clock at the position where both the wait and the resolution had happened
          let clocks := s.clockAt.reverse
          let dueClock := clocks.getD duePos s.clock
          if val.startsWith "raised:" then { s' with err := s.err <|> some "future/value-raised-instead-of-sent" }
          else if v.show != val then { s' with err := s.err <|> some "future/resumed-with-wrong-value" }
          else if dueClock != clk then { s' with err := s.err <|> some "future/resumed-at-wrong-instant" }
          else s'

/-! ### the delay clauses as a monitor of their own

`process/resumed-without-pending-delay`, `process/delay-resume-at-wrong-time`, `process/delay-resume-raised`
and `process/delay-resume-with-value` only depend on the `y` lines and the tagged `R` lines of the trace; `delayMonitor` judges them (`stepLine` does not).
(The theorems of `HappyProofs/C02/JudgeDelay.lean` speak about it.) -/

structure DSt where
  delays : List (Nat × Nat × Nat) := []   -- (pid, tag, due time) not yet resumed
  err : Option String := none

def delayStep (s : DSt) : Line → DSt
  | .ydelay tag pid time => { s with delays := (pid, tag, time) :: s.delays }
  | .resume clk pid val tag =>
    if tag != 0 then
      match s.delays.find? (fun d => d.1 == pid && d.2.1 == tag) with
      | none => { s with err := s.err <|> some "process/resumed-without-pending-delay" }
      | some d =>
        let s' := { s with delays := s.delays.filter (fun x => !(x.1 == pid && x.2.1 == tag)) }
        if d.2.2 != clk then { s' with err := s.err <|> some "process/delay-resume-at-wrong-time" }
        else if val.startsWith "raised:" then { s' with err := s.err <|> some "process/delay-resume-raised" }
        else if val != "none" then { s' with err := s.err <|> some "process/delay-resume-with-value" }
        else s'
    else s
  | _ => s

def delayMonitor (ls : List Line) : Option String := (ls.foldl delayStep {}).err

/-! ### "resumed by a future only after waiting on one", as a monitor of its own

`future/resumed-without-wait` only depends on the `w` lines and the untagged `R` lines (`stepLine`
keeps one entry per waiting process and drops all entries of a process when it is resumed). -/

structure WSt where
  waits : List Nat := []                  -- pids that yielded a future and have not been resumed since
  err : Option String := none

def waitStep (s : WSt) : Line → WSt
  | .wait pid _ _ => { s with waits := pid :: s.waits }
  | .resume _ pid _ tag =>
    if tag != 0 then s
    else if s.waits.contains pid then { s with waits := s.waits.filter (· != pid) }
    else { s with err := s.err <|> some "future/resumed-without-wait" }
  | _ => s

def waitMonitor (ls : List Line) : Option String := (ls.foldl waitStep {}).err

/-! ### the hook clauses as a monitor of their own

"Completion hooks: when the processing of an event finishes (plain handler returned / no handler / its
generator process finished) every hook attached to the event up to that moment runs exactly once, in
attachment order, at that instant, and hooks run at no other time."  Reads `h` (attach), `H` (run), `S`
(handler entered: allocates the next process id), `K` (no handler: finished at once), `F` (process
finished) and `c` lines; any other line while hooks are due means they did not run at the finish. -/

structure HSt where
  hooks : List (Nat × Nat) := []       -- (event tag, hook) attached and not yet due, in attachment order
  pidTag : List (Nat × Nat) := []      -- process id ↦ tag of the event that started it
  nProc : Nat := 0
  due : List Nat := []                 -- hooks that must run right now (the event just finished), in order
  dueClock : Nat := 0
  err : Option String := none

/-- the processing of event `tag` is over at clock `clk`: its hooks fall due -/
def HSt.finishEvent (s : HSt) (tag clk : Nat) : HSt :=
  { s with due := (s.hooks.filter (·.1 == tag)).map (·.2), dueClock := clk,
           hooks := s.hooks.filter (·.1 != tag) }

def hookStep (s : HSt) (ln : Line) : HSt :=
  -- hooks that fell due run before anything else happens (only the events they return are created in between)
  let s := match ln with
    | .hookRun _ _ | .created => s
    | _ => if s.due.isEmpty then s else { s with err := s.err <|> some "process/hook/not-run-at-finish", due := [] }
  match ln with
  | .hookAdd tag k => { s with hooks := s.hooks ++ [(tag, k)] }
  | .hookRun clk k =>
    match s.due with
    | [] => { s with err := s.err <|> some "process/hook/ran-without-being-due" }
    | k' :: rest =>
      if k' != k then { s with err := s.err <|> some "process/hook/ran-out-of-order", due := rest }
      else if clk != s.dueClock then { s with err := s.err <|> some "process/hook/ran-at-wrong-instant", due := rest }
      else { s with due := rest }
  | .start _ tag => { s with pidTag := (s.nProc, tag) :: s.pidTag, nProc := s.nProc + 1 }
  | .skipped clk tag => s.finishEvent tag clk
  | .finish clk pid =>
    match s.pidTag.find? (·.1 == pid) with
    | some (_, tag) => s.finishEvent tag clk
    | none => s
  | _ => s

def hookMonitor (ls : List Line) : Option String :=
  let s := ls.foldl hookStep {}
  match s.err with
  | some e => some e
  | none => if !s.due.isEmpty then some "process/hook/not-run-at-finish" else none

def judgeLines (lines : List Line) : Option String :=
  match hookMonitor lines with
  | some e => some e
  | none =>
  match delayMonitor lines with
  | some e => some e
  | none =>
  match waitMonitor lines with
  | some e => some e
  | none =>
  let s := (enum lines).foldl (fun st p => stepLine st p.1 p.2) ({} : SSt)
  match s.err with
  | some e => some e
  | none =>
    -- at the end: every wait whose future got resolved (within the horizon, nobody crashed) must
    -- have been resumed
    let clocks := s.clockAt.reverse
    let within (pos : Nat) := match s.endT with | none => true | some t => clocks.getD pos 0 ≤ t
    if s.crashes then none else
    -- (a daemon process does not keep an auto-terminating run alive, so it may stay un-resumed)
    match s.waits.find? (fun w => match (s.objs[w.2.1]?).bind (·.res) with
                                   | some (rpos, _) =>
                                     within (max rpos w.2.2) && !(s.endT.isNone && s.daemonWaits.contains w.1)
                                   | none => false) with
    | some _ => some "future/resolved-but-never-resumed"
    | none => none

def judge (body : List String) : Option String := judgeLines (body.map parseLine)

def judgeBlock (body : List String) : List String :=
  match judge body with
  | none => ["ok"]
  | some s => [s!"viol {s}"]

end HappyModel.C02.Spec
