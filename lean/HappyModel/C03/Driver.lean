import HappyModel.Proto
import HappyModel.C03.Spec
/-! Line-protocol driver for C03 (other side: `hv/props/c03.py`).

* `begin model` + lines `scen <i> <family>` — every model in this project is a function of its explicit
  inputs (seeds, draws, schedule), so the model side's transcript for a scenario is "one digest,
  whatever the environment": `s<i> <family> digests 1`.
* `begin judge` + lines `obs <i> <family> <env> <sha> <len>` and optional detail lines
  `x <i> <envA> <envB> <free text…>` (the first differing digest line of a differing pair) —
  evaluates `judge` (see `judge_none_iff_holds`). -/
namespace HappyModel.C03.Driver
open HappyModel.Proto HappyModel.C03

def parseObs (ts : List String) : Option Obs :=
  match ts with
  | ["obs", i, fam, env, sha, len] => match nat? i, nat? len with
    | some i, some len => some ⟨i, fam, env, sha, len⟩
    | _, _ => none
  | _ => none

def modelBlock (body : List String) : List String :=
  body.filterMap fun l => match toks l with
    | ["scen", i, fam] => some s!"s{i} {fam} digests 1"
    | _ => none

def detailFor (body : List String) (p : Obs × Obs) : String :=
  let want := ["x", toString p.2.scen, p.1.env, p.2.env]
  match body.find? (fun l => (toks l).take 4 == want) with
  | some l => " first-difference: " ++ joinSp ((toks l).drop 4)
  | none => ""

def judgeBlock (body : List String) : List String :=
  let obsLines := body.filter (fun l => (toks l).head? == some "obs")
  let parsed := obsLines.map (fun l => parseObs (toks l))
  if parsed.any Option.isNone then ["viol trace/malformed"]
  else match judge (parsed.filterMap id) with
    | none => ["ok"]
    | some p => [s!"viol {signature p} scenario={p.2.scen} {p.1.env}={p.1.sha.take 12}/{p.1.len} {p.2.env}={p.2.sha.take 12}/{p.2.len}{detailFor body p}"]

def handle (hdr : List String) (body : List String) : List String :=
  match hdr with
  | ["model"] => modelBlock body
  | ["judge"] => judgeBlock body
  | _ => ["bad-mode"]

end HappyModel.C03.Driver
