/-!
# C03 — Spec predicate over the digests of one model run in several environments

"Building the same model with the same seeds and running it yields the identical sequence of
(time, event type, target) deliveries and identical component statistics, regardless of which other
simulations were built or run earlier in the process, of the interpreter's hash randomisation, and of
wall-clock time."

Observation: for each scenario (same family, configuration and seeds) one line per *environment*
(in-process, fresh subprocesses under several `PYTHONHASHSEED`s, after unrelated activity in the
interpreter, under a jumping wall clock) carrying the SHA-256 of the canonical run digest
(delivery sequence + statistics with floats as bit patterns) and the digest's length.
The predicate: within a scenario all environments report the same digest.
-/
namespace HappyModel.C03

structure Obs where
  scen : Nat
  family : String
  env : String
  sha : String
  len : Nat
deriving Repr, DecidableEq

/-- **the property** on one batch of observations -/
def Holds (obs : List Obs) : Prop :=
  ∀ a ∈ obs, ∀ b ∈ obs, a.scen = b.scen → a.sha = b.sha ∧ a.len = b.len

instance (obs : List Obs) : Decidable (Holds obs) := by unfold Holds; exact inferInstance

/-- the first observation of a scenario is its baseline -/
def firstOf (obs : List Obs) (scen : Nat) : Option Obs := obs.find? (fun o => o.scen == scen)

def differs (a b : Obs) : Bool := !(a.sha == b.sha && a.len == b.len)

def bad (obs : List Obs) (o : Obs) : Bool :=
  match firstOf obs o.scen with
  | some f => differs f o
  | none => false

/-- executable judge: the first environment that differs from its scenario's baseline -/
def judge (obs : List Obs) : Option (Obs × Obs) :=
  match obs.find? (bad obs) with
  | none => none
  | some o => match firstOf obs o.scen with
    | some f => some (f, o)
    | none => none

def signature (p : Obs × Obs) : String := s!"determinism/{p.2.family}/{p.1.env}-vs-{p.2.env}"

end HappyModel.C03
