import HappyModel.Proto
import HappyModel.C01.Spec
/-!
C04 Spec: decidable predicates over what a user of the control surface can *observe* — the commands
they issued, `get_state()` after each of them, the (ordinal, time, event type) of every processed
event as reported to an `on_event` observer, the entity-side delivery log, the delivery log of an
uninterrupted reference run of the same implementation, and the creation/delivery trace recorded by
the harness (judged by the C01 Spec).  Nothing here looks at the engine model.

Control stream (in order of occurrence):

    cmd P | G | S n | BT t o | BC n o | BK k o | BM ent attr op thr2 o | BX n o | CLR | HP k | HB k <breakpoint> | RST |
        SCH tgt kind A|R time daemon | FIN
    d <ordinal> <time> <kind>                 an event was processed (on_event observer)
    dm <ordinal> v v v …                      the watched attributes (3 per entity: level, inflight, _crashed;
                                              `-` = None) as the same observer read them after that event
    fr <now> <processed> <paused> <running>   state after one resume() inside FIN
    st <now> <processed> <paused> <running>   state after the command

Clauses (property text in quotes):
* "a breakpoint pauses right after the first delivery that satisfies it": every registered breakpoint
  (registered by BT/BC/BK, unregistered by CLR, a one-shot one also by firing) is evaluated on every
  processed event; the call in progress must come back paused with that event as its last one;
* "step(n) delivers exactly n events unless the run ends first" (or an earlier legitimate pause);
* a pause request stops the run before the next event; a run never pauses without a cause;
* "reset() followed by run() repeats the original delivery sequence for models whose entities are
  stateless";
* "…does not change which events are delivered, their order, their times": the log equals the
  uninterrupted reference log (when nothing was injected into the run), and the recorded trace
  satisfies the C01 Spec (time order, FIFO ties by creation, at most once, …).
-/
namespace HappyModel.C04.Spec
open HappyModel.Proto

inductive BKind
  | time | count | type | metric | countEq
deriving Repr, DecidableEq

structure B where
  k : BKind
  arg : Nat
  oneShot : Bool
  attr : Nat := 0          -- metric: index into the observed attribute vector (3 * entity + attribute; out of range = no such attribute)
  op : String := ""        -- metric: gt ge lt le eq ne
  thr2 : Int := 0          -- metric: twice the threshold
deriving Repr

/-- a processed event as seen by an `on_event` observer; `vals`: the watched attributes of every entity
    as the observer read them right after the event (`none` = missing / None) -/
structure D where
  ord : Nat
  time : Nat
  kind : Nat
  vals : List (Option Int) := []
deriving Repr

/-- `get_state()` -/
structure Seen where
  now : Nat := 0
  processed : Nat := 0
  paused : Bool := false
  running : Bool := false
deriving Repr

def B.hit (b : B) (d : D) : Bool :=
  match b.k with
  | .time => decide (b.arg ≤ d.time)
  | .count => decide (b.arg ≤ d.ord)
  | .type => d.kind == b.arg
  | .countEq => d.ord == b.arg
  | .metric =>
    -- a value of 0 (or False) is a value like any other; only a missing attribute never satisfies
    match (d.vals[b.attr]?).join with
    | none => false
    | some v =>
      let a := 2 * v
      match b.op with
      | "gt" => decide (a > b.thr2) | "ge" => decide (a ≥ b.thr2) | "lt" => decide (a < b.thr2)
      | "le" => decide (a ≤ b.thr2) | "eq" => decide (a = b.thr2) | _ => decide (a ≠ b.thr2)

/-- what the user knows about the control surface from their own calls -/
structure Mon where
  started : Bool := false       -- run() called since construction / the last reset
  seen : Seen := {}
  pauseReq : Bool := false      -- pause() requested and not yet cleared by resume/step/reset
  bps : List B := []            -- registered breakpoints, in registration order
  hooks : List Nat := []        -- pausing on_event hooks (pause when events_processed = k)
  adders : List (Nat × B) := [] -- on_event hooks that register a breakpoint when events_processed = k
  injected : Bool := false      -- an event was scheduled into the current run while it was paused
  preSched : Bool := false      -- an event was scheduled from outside before a run
  resets : Nat := 0
  start : Nat := 0              -- start_time of the simulation (the clock reset() goes back to)
deriving Repr

def sigBp := "control/breakpoint/not-paused-at-first-satisfying-delivery"

/-- one call of run() / resume() / step(n), replayed over the events it processed.
    Returns (violation, breakpoints still registered, pause request pending). -/
def walk (hooks : List Nat) (adders : List (Nat × B)) (isStep : Bool) (after : Seen) :
    List B → Bool → Option Nat → List D → Option String × List B × Bool
  | bps, pr, steps, [] =>
    let would := pr || steps == some 0
    if after.paused && !would then
      (some (if isStep then "control/step-not-exact" else "control/paused-without-cause"), bps, pr)
    else (none, bps, pr)
  | bps, pr, steps, d :: rest =>
    if pr then (some "control/pause-request-ignored", bps, pr)
    else if steps == some 0 then (some "control/step-not-exact", bps, pr)
    else
      let pr' := hooks.contains d.ord
      -- hooks run before the registry is looked at: a breakpoint registered by a hook on this very
      -- event is already in force for it, wherever in the run that happens
      let bps := bps ++ (adders.filter (·.1 == d.ord)).map (·.2)
      let hits := bps.filter (·.hit d)
      if hits.isEmpty then walk hooks adders isStep after bps pr' (steps.map (· - 1)) rest
      else
        let bps' := bps.filter (fun b => !(b.hit d && b.oneShot))
        if !rest.isEmpty || !after.paused then (some sigBp, bps', pr') else (none, bps', pr')

def consecutive : Nat → List D → Bool
  | _, [] => true
  | n, d :: r => d.ord == n + 1 && consecutive (n + 1) r

/-- a call that ran: check it and update the monitor -/
def Mon.call (m : Mon) (pr0 : Bool) (steps : Option Nat) (isStep : Bool) (ds : List D) (after : Seen) :
    Option String × Mon :=
  if !consecutive m.seen.processed ds || after.processed != m.seen.processed + ds.length then
    (some "control/processed-count-mismatch", { m with seen := after, started := true })
  else if !after.running && after.paused then (some "control/state-inconsistent", { m with seen := after })
  else
    let r := walk m.hooks m.adders isStep after m.bps pr0 steps ds
    (r.1, { m with seen := after, started := true, bps := r.2.1, pauseReq := r.2.2 })

def seenOf (t : List String) : Seen :=
  match t with
  | [_, now, p, pa, ru] => ⟨natD now, natD p, natD pa != 0, natD ru != 0⟩
  | _ => {}

/-- segments of one command: (events processed, state line) for every `fr` / `st` line -/
def segments : List D → List String → List (List D × Seen × Bool) × List String
  | _, [] => ([], [])
  | acc, l :: rest =>
    match toks l with
    | ["d", o, t, k] => segments (acc ++ [⟨natD o, natD t, natD k, []⟩]) rest
    | "dm" :: o :: vs =>
      -- the attribute vector that goes with the last `d` line
      let vals := vs.map (fun v => if v == "-" then none else some (intD v))
      segments (acc.map (fun d => if d.ord == natD o then { d with vals := vals } else d)) rest
    | "fr" :: t =>
      let r := segments [] rest
      ((acc, seenOf ("fr" :: t), true) :: r.1, r.2)
    | "st" :: t => ([(acc, seenOf ("st" :: t), false)], rest)
    | _ => ([], l :: rest)

def quiet (segs : List (List D × Seen × Bool)) : Bool := segs.all (·.1.isEmpty)

/-- one command with what was observed while it ran -/
def parseB (c : List String) : Option B :=
  match c with
  | ["BT", t, o] => some { k := .time, arg := natD t, oneShot := natD o != 0 }
  | ["BC", n, o] => some { k := .count, arg := natD n, oneShot := natD o != 0 }
  | ["BK", k, o] => some { k := .type, arg := natD k, oneShot := natD o != 0 }
  | ["BX", n, o] => some { k := .countEq, arg := natD n, oneShot := natD o != 0 }
  | ["BM", x, a, op, thr2, o] =>
    some { k := .metric, arg := natD x, oneShot := natD o != 0,
           attr := if natD a < 3 then 3 * natD x + natD a else 1000000, op := op, thr2 := intD thr2 }
  | _ => none

def Mon.cmd (m : Mon) (c : List String) (segs : List (List D × Seen × Bool)) : Option String × Mon :=
  let last : Seen := (segs.getLast?.map (·.2.1)).getD m.seen
  let idle (m' : Mon) : Option String × Mon :=
    if !quiet segs || last.processed != m.seen.processed || last.paused != m.seen.paused
        || last.running != m.seen.running then
      (some "control/command-changed-run-state", { m' with seen := last })
    else (none, { m' with seen := last })
  let first : List D × Seen × Bool := segs.headD ([], m.seen, false)
  match c with
  | ["P"] => idle { m with pauseReq := true }
  | ["BT", t, o] => idle { m with bps := m.bps ++ [{ k := .time, arg := natD t, oneShot := natD o != 0 }] }
  | ["BC", n, o] => idle { m with bps := m.bps ++ [{ k := .count, arg := natD n, oneShot := natD o != 0 }] }
  | ["BK", k, o] => idle { m with bps := m.bps ++ [{ k := .type, arg := natD k, oneShot := natD o != 0 }] }
  | ["BX", n, o] => idle { m with bps := m.bps ++ [{ k := .countEq, arg := natD n, oneShot := natD o != 0 }] }
  | ["BM", x, a, op, thr2, o] =>
    idle { m with bps := m.bps ++ [{ k := .metric, arg := natD x, oneShot := natD o != 0,
                                     attr := if natD a < 3 then 3 * natD x + natD a else 1000000, op := op, thr2 := intD thr2 }] }
  | ["CLR"] => idle { m with bps := [] }
  | ["HP", k] => idle { m with hooks := natD k :: m.hooks }
  | "HB" :: k :: rest =>
    match parseB rest with
    | some b => idle { m with adders := m.adders ++ [(natD k, b)] }
    | none => idle m
  | ["RST"] =>
    let m' := { m with started := false, seen := last, pauseReq := false, injected := false,
                       resets := m.resets + 1 }
    if !quiet segs || last.processed != 0 || last.now != m.start || last.paused || last.running then
      (some "control/reset/state-not-initial", m')
    else (none, m')
  | "SCH" :: _ =>
    if !m.started then idle { m with preSched := true }
    else if m.seen.paused then idle { m with injected := true }
    else idle m
  | ["G"] =>
    if !m.started then m.call m.pauseReq none false first.1 first.2.1
    else if m.seen.paused then m.call false none false first.1 first.2.1
    else idle m
  | ["S", n] =>
    if m.seen.running && natD n != 0 then m.call false (some (natD n)) true first.1 first.2.1
    else idle m
  | ["FIN"] =>
    let r := segs.foldl (fun (acc : Option String × Mon) sg =>
      if acc.1.isSome then acc
      else if sg.2.2 then
        if acc.2.seen.paused then acc.2.call false none false sg.1 sg.2.1
        else (some "control/state-inconsistent", acc.2)
      else if !sg.1.isEmpty then (some "control/command-changed-run-state", acc.2)
      else (none, { acc.2 with seen := sg.2.1 })) (none, m)
    r
  | _ => idle m

/-- the whole control stream -/
def monitor : Nat → Mon → List String → Option String × Mon
  | 0, m, _ => (none, m)
  | _, m, [] => (none, m)
  | fuel+1, m, l :: rest =>
    match toks l with
    | "cmd" :: c =>
      let sg := segments [] rest
      let r := m.cmd c sg.1
      if r.1.isSome then r else monitor fuel r.2 sg.2
    | _ => monitor fuel m rest

/-- split at marker lines -/
def splitAt (mark : String) (ls : List String) : List (List String) :=
  let rec go (cur : List String) (acc : List (List String)) : List String → List (List String)
    | [] => (cur.reverse :: acc).reverse
    | l :: rest => if l == mark then go [] (cur.reverse :: acc) rest else go (l :: cur) acc rest
  go [] [] ls

/-- the delivery sequence without harness tags and process ids: what "repeats the original delivery
    sequence" compares -/
def project (l : String) : String :=
  match toks l with
  | [k, t, e, kind, _] => if k == "S" || k == "K" then s!"{k} {t} {e} {kind}" else if k == "R" then s!"R {t} {kind}" else l
  | ["F", t, _] => s!"F {t}"
  | ["end", now, p, _, _, _] => s!"end {now} {p}"
  | _ => l

/-- the C01 Spec on each epoch of the recorded trace (epochs are separated by `RST`).  Clauses about
    what must have been delivered by the end only apply to an epoch that ran to completion;
    auto-termination grades are C01's business (the reference comparison covers them here). -/
def judgeTrace (trace : List String) (finalComplete : Bool) : Option String :=
  let eps := splitAt "RST" trace
  let n := eps.length
  -- crash flags are entity state: they survive reset(), so an epoch inherits the `C` lines of its past
  let rec go (i : Nat) (carry : List String) : List (List String) → Option String
    | [] => none
    | ep :: rest =>
      let keep (s : String) : Bool :=
        !s.startsWith "engine/autoterm/" &&
        ((i + 1 == n && finalComplete) ||
          !(s == "engine/live-event-not-delivered" || s == "engine/daemon-event-skipped"))
      let carry' := carry ++ ep.filter (fun l => (toks l).head? == some "C" || (toks l).head? == some "U")
      match HappyModel.C01.Spec.judge (HappyModel.C01.Spec.parse (carry ++ ep)) with
      | some s => if keep s then some s else go (i + 1) carry' rest
      | none => go (i + 1) carry' rest
  go 0 [] eps

def sectionOf (body : List String) (mark : String) (marks : List String) : List String :=
  ((body.dropWhile (· != mark)).drop 1).takeWhile (fun l => !marks.contains l)

/-- Body: `mode <m>`, `stateless <0|1>`, control stream, `#log` observed log, `#ref` reference log,
    `#trace` recorded trace (ctl mode). -/
def judge (body : List String) : List String :=
  let marks := ["#log", "#ref", "#trace"]
  let pre := body.takeWhile (fun l => !marks.contains l)
  let log := sectionOf body "#log" marks
  let ref := sectionOf body "#ref" marks
  let trace := sectionOf body "#trace" marks
  let isCtl := pre.any (fun l => toks l == ["mode", "ctl"])
  let stateless := pre.any (fun l => toks l == ["stateless", "1"])
  if !isCtl then
    if log != ref then ["viol control/run-differs-from-uninterrupted"] else ["ok"]
  else
    let start := ((pre.filterMap fun l => match toks l with | ["start", t] => some (natD t) | _ => none).head?).getD 0
    let r := monitor (pre.length + 1) { start := start } pre
    match r.1 with
    | some s => [s!"viol {s}"]
    | none =>
      let m := r.2
      let complete := m.started && !m.seen.running
      let final := ((splitAt "RST" log).getLast?).getD []
      let cmp : Option String :=
        if m.resets == 0 && !m.preSched && !m.injected then
          -- a run that is still paused at the end of the script has delivered a prefix
          if (if complete then log != ref else !(log.dropLast.isPrefixOf ref)) then
            some "control/run-differs-from-uninterrupted" else none
        else if m.injected || !complete then none
        else if m.resets == 0 then
          if final.map project != ref.map project then some "control/run-differs-from-uninterrupted" else none
        else if stateless then
          if final.map project != ref.map project then some "control/reset-run-differs-from-original" else none
        else none
      match cmp with
      | some s => [s!"viol {s}"]
      | none =>
        match judgeTrace trace complete with
        | some s => [s!"viol {s}"]
        | none => ["ok"]

end HappyModel.C04.Spec
