import HappyModel.C01.Engine
/-!
Model of the instrumented loop `Simulation._run_loop` with the control surface
(`core/control/control.py`, `breakpoints.py`): pause requests, `step(n)`, breakpoints checked after
each delivery, event hooks that may request a pause.  Observation devices (hooks that only read,
trace recorder, event tracing) do not appear: nothing in a transition reads them.
-/
namespace HappyModel.C04
open HappyModel.C01

/-- what a breakpoint can read of the user's model: attribute `attr` of entity `ent`
    (`getattr(entity, attribute, None)`; `none` = the entity or the attribute is missing, or it is `None`) -/
class Probe (σ : Type) where
  read : σ → Nat → Nat → Option Int

/-- comparison operators of `MetricBreakpoint` (`_OPERATORS`) -/
inductive Cmp
  | gt | ge | lt | le | eq | ne
deriving Repr, DecidableEq

def Cmp.holds (c : Cmp) (a b : Int) : Bool :=
  match c with
  | .gt => decide (a > b) | .ge => decide (a ≥ b) | .lt => decide (a < b)
  | .le => decide (a ≤ b) | .eq => decide (a = b) | .ne => decide (a ≠ b)

inductive Bp
  | time (t : Nat) (oneShot : Bool)        -- TimeBreakpoint: now ≥ t
  | count (n : Nat) (oneShot : Bool)       -- EventCountBreakpoint: processed ≥ n
  | kind (k : Nat) (oneShot : Bool)        -- EventTypeBreakpoint: last event's type
  | metric (ent attr : Nat) (op : Cmp) (thr2 : Int) (oneShot : Bool)
      -- MetricBreakpoint: entity.attr `op` thr2/2; a value of 0 / False is a value, only `None` is "missing"
  | countEq (n : Nat) (oneShot : Bool)     -- ConditionBreakpoint(lambda ctx: ctx.events_processed == n)
deriving Repr, DecidableEq

structure Ctl where
  pauseReq : Bool := false
  steps : Option Nat := none               -- `_steps_remaining`
  bps : List Bp := []
  pauseAt : List Nat := []                 -- on_event hooks calling pause() when processed = k
  addAt : List (Nat × Bp) := []            -- on_event hooks calling add_breakpoint(b) when processed = k
deriving Repr

inductive Outcome
  | paused | complete | fuel
deriving Repr, DecidableEq

def Bp.hit {σ} [Probe σ] (s : St σ) (last : Ev) : Bp → Bool
  | .time t _ => decide (t ≤ s.now)
  | .count n _ => decide (n ≤ s.processed)
  | .kind k _ => last.kind == k
  | .metric ent attr op thr2 _ =>
    match Probe.read s.ent ent attr with
    | none => false
    | some v => op.holds (2 * v) thr2
  | .countEq n _ => s.processed == n

def Bp.oneShot : Bp → Bool
  | .time _ o | .count _ o | .kind _ o | .metric _ _ _ _ o | .countEq _ o => o

/-- the breakpoints that on_event hooks register right after the delivery that makes `processed = n`
    (`_notify_event_processed` runs the hooks before `_check_breakpoints` looks at the registry) -/
def added (c : Ctl) (n : Nat) : List Bp := (c.addAt.filter (fun a => a.1 == n)).map (·.2)

def shouldPause (c : Ctl) : Bool :=
  c.pauseReq || (match c.steps with | some n => n == 0 | none => false)

/-- `while heap.has_events() and end_time >= now` -/
def loopCond {σ} (endT : Option Nat) (s : St σ) : Bool :=
  !s.heap.isEmpty && (match endT with | some t => decide (s.now ≤ t) | none => true)

/-- one call of `run()` / `resume()` / `step(n)`: iterate until pause, completion or fuel -/
def ctlLoop {σ} [Probe σ] (m : Machine σ) (endT : Option Nat) : Nat → St σ → Ctl → St σ × Ctl × Outcome
  | 0, s, c => (s, c, .fuel)
  | fuel+1, s, c =>
    if !loopCond endT s then (s, c, .complete)
    else if shouldPause c then (s, c, .paused)
    else if endT.isNone && s.primary == 0 then (s, c, .complete)
    else
      match s.heap with
      | [] => (s, c, .complete)
      | x :: xs =>
        let e := minOf x xs
        let s' := stepWith m s e
        if s'.processed == s.processed then ctlLoop m endT fuel s' c      -- cancelled / stale: `continue`
        else
          -- `_notify_event_processed`, then `_check_breakpoints`
          let c1 := { c with steps := c.steps.map (· - 1),
                             pauseReq := c.pauseReq || c.pauseAt.contains s'.processed,
                             bps := c.bps ++ added c s'.processed }
          let hits := c1.bps.filter (Bp.hit s' e)
          if hits.isEmpty then ctlLoop m endT fuel s' c1
          else (s', { c1 with bps := c1.bps.filter (fun b => !(b.hit s' e && b.oneShot)) }, .paused)

/-- `control.resume()` -/
def Ctl.resume (c : Ctl) : Ctl := { c with pauseReq := false, steps := none }
/-- `control.step(n)` -/
def Ctl.step (c : Ctl) (n : Nat) : Ctl := { c with pauseReq := false, steps := some n }
/-- `control.reset()`: pause request and step budget are cleared, breakpoints and hooks (pausing and breakpoint-adding ones) stay registered -/
def Ctl.reset (c : Ctl) : Ctl := { c with pauseReq := false, steps := none }

inductive Cmd
  | pause                       -- control.pause()
  | go                          -- sim.run() the first time (and after a reset), control.resume() afterwards
  | step (n : Nat)              -- control.step(n)
  | bp (b : Bp)                 -- control.add_breakpoint
  | clear                       -- control.clear_breakpoints
  | pauseAt (k : Nat)           -- on_event hook: pause() when events_processed = k
  | bpAt (k : Nat) (b : Bp)     -- on_event hook: add_breakpoint(b) when events_processed = k (while the loop runs)
  | reset                       -- control.reset()
  | sched (sp : Spec) (rel : Bool)   -- sim.schedule(Event(…)) from outside the loop; `rel`: timestamp relative to the clock
deriving Repr

/-- the commands of the control surface proper (everything but `reset()` and outside `schedule()`):
    these are the ones the invariance theorems speak about -/
def Cmd.isControl : Cmd → Bool
  | .reset | .sched _ _ => false
  | _ => true

/-- entity-side bookkeeping of the two operations that create events outside the loop (the engine
    model itself does not need it; the process layer mirrors the creation counter and hands out
    harness tags) -/
structure Ext (σ : Type) where
  /-- an event with creation index `id` is created outside the loop: new entity state, final spec -/
  inject : σ → Nat → Spec → σ × Spec := fun e _ sp => (e, sp)
  /-- `reset()` re-created `n` events -/
  reseat : σ → Nat → σ := fun e _ => e

structure Sess (σ : Type) where
  s : St σ
  c : Ctl := {}
  running : Bool := false
  paused : Bool := false
  started : Bool := false     -- run() has been called (since the last reset); a later `go` only resumes a paused run
  pre : List Spec := []       -- `_pre_run_event_specs`: what reset() replays
  accCancelled : Nat := 0     -- `events_cancelled` / time-travel warnings of the runs before the last reset
  accStale : Nat := 0         --   (neither counter is reset by reset())
  start : Nat := 0            -- `start_time`: the clock every run starts from

/-- `Simulation.schedule(e)` from outside the loop, before the run or while it is paused: the event
    gets the next creation index (it is younger than everything created so far) -/
def injectSt {σ} (s : St σ) (ent' : σ) (sp : Spec) : St σ :=
  let evs := mkEvents s.nextId s.now [sp]
  { s with heap := s.heap ++ evs, nextId := s.nextId + 1, ent := ent',
           primary := s.primary + countPrimary evs }

/-- engine state after `control.reset()`: a new heap holding re-created copies of the pre-run
    events (fresh creation indices `base, base+1, …` in the original order; completion hooks and
    cancellations are not replayed), clock at `start_time`, counters at zero; entity state is kept -/
def resetSt {σ} (base start : Nat) (ent : σ) (pre : List Spec) : St σ :=
  let evs := mkEvents base start pre
  { heap := evs, now := start, nextId := base + pre.length, ent := ent, primary := countPrimary evs }

/-- a control script applied from outside between calls of `run()` -/
def Sess.apply {σ} [Probe σ] (m : Machine σ) (x : Ext σ) (endT : Option Nat) (fuel : Nat) (z : Sess σ) : Cmd → Sess σ
  | .pause => { z with c := { z.c with pauseReq := true } }
  | .bp b => { z with c := { z.c with bps := z.c.bps ++ [b] } }
  | .clear => { z with c := { z.c with bps := [] } }
  | .pauseAt k => { z with c := { z.c with pauseAt := k :: z.c.pauseAt } }
  | .bpAt k b => { z with c := { z.c with addAt := z.c.addAt ++ [(k, b)] } }
  | .go =>
    if z.started && !z.paused then z else
    let c0 := if z.started then z.c.resume else z.c
    let r := ctlLoop m endT fuel z.s c0
    { z with s := r.1, c := r.2.1, running := r.2.2 != .complete, paused := r.2.2 == .paused, started := true }
  | .step n =>
    if !z.running || n == 0 then z else
    let r := ctlLoop m endT fuel z.s (z.c.step n)
    { z with s := r.1, c := r.2.1, running := r.2.2 != .complete, paused := r.2.2 == .paused, started := true }
  | .reset =>
    { s := resetSt z.s.nextId z.start (x.reseat z.s.ent z.pre.length) z.pre, c := z.c.reset, start := z.start,
      running := false, paused := false, started := false, pre := z.pre,
      accCancelled := z.accCancelled + z.s.nCancelled, accStale := z.accStale + z.s.nStale }
  | .sched sp rel =>
    -- allowed before run() and while paused (a finished run is not re-opened by the scripts)
    if z.started && !z.paused then z else
    let sp0 := if rel then { sp with time := z.s.now + sp.time } else sp
    let r := x.inject z.s.ent z.s.nextId sp0
    { z with s := injectSt z.s r.1 r.2, pre := if z.started then z.pre else z.pre ++ [r.2] }

end HappyModel.C04
