import HappyModel.C01.Parse
import HappyModel.C04.Control
import HappyModel.C04.Spec
namespace HappyModel.C04.Driver
open HappyModel.Proto HappyModel.C01 HappyModel.C04

inductive XCmd
  | c (x : Cmd)
  | fin                    -- resume until the run is no longer paused (at most 200 times)

def parseBp (ts : List String) : Option Bp :=
  match ts with
  | ["BT", t, o] => some (.time (natD t) (natD o != 0))
  | ["BC", n, o] => some (.count (natD n) (natD o != 0))
  | ["BK", k, o] => some (.kind (natD k) (natD o != 0))
  | ["BM", x, a, op, thr2, o] =>
    let c : Cmp := match op with
      | "gt" => .gt | "ge" => .ge | "lt" => .lt | "le" => .le | "eq" => .eq | _ => .ne
    some (.metric (natD x) (natD a) c (intD thr2) (natD o != 0))
  | ["BX", n, o] => some (.countEq (natD n) (natD o != 0))
  | _ => none

def parseCmd (ts : List String) : Option XCmd :=
  match ts with
  | ["cmd", "P"] => some (.c .pause)
  | ["cmd", "G"] => some (.c .go)
  | ["cmd", "S", n] => some (.c (.step (natD n)))
  | "cmd" :: "HB" :: k :: rest => (parseBp rest).map fun b => .c (.bpAt (natD k) b)
  | ["cmd", "CLR"] => some (.c .clear)
  | ["cmd", "HP", k] => some (.c (.pauseAt (natD k)))
  | ["cmd", "RST"] => some (.c .reset)
  | ["cmd", "SCH", tgt, kind, mode, t, dm] =>
    some (.c (.sched ⟨natD t, natD tgt, natD kind, natD dm != 0, 0, 0⟩ (mode == "R")))
  | ["cmd", "FIN"] => some .fin
  | "cmd" :: rest => (parseBp rest).map fun b => .c (.bp b)
  | _ => none

/-- the process layer's side of events created outside the loop: the creation-index mirror, the
    harness tag, the "most recent event of this kind" handle (hv/engine_harness.py `make_event`) -/
def procExt : Ext PS where
  inject ps id sp :=
    let tag := ps.tagc + 1
    ({ ps with nid := ps.nid + 1, tagc := tag,
               lastKind := (sp.kind, id) :: ps.lastKind.filter (fun p => p.1 != sp.kind) },
     { sp with tag := tag })
  reseat ps n := { ps with nid := ps.nid + n }

/-- the attributes of a scripted entity that a MetricBreakpoint can watch (hv/engine_harness.py):
    0 `level` (set by `M` actions, `None` until then), 1 `inflight` (processes started and not finished),
    2 `_crashed` (a bool: False compares equal to 0), anything else: no such attribute -/
instance : Probe PS where
  read ps ent attr :=
    match attr with
    | 0 => levelOf ps.level ent
    | 1 => some ((ps.procs.filter (fun p => p.ent == ent && !p.done)).length : Nat)
    | 2 => some (if ps.crashed.contains ent then 1 else 0)
    | _ => none

def stLine (z : Sess PS) (hd : String := "st") : String :=
  s!"{hd} {z.s.now} {z.s.processed} {if z.paused then 1 else 0} {if z.running then 1 else 0}"

/-- what an `on_event` observer sees during one command: ordinal, time and type of every processed
    event (delivered or swallowed by the crash gate) -/
def dLines (before after : Sess PS) : List String :=
  let ds := (after.s.popped.drop before.s.popped.length).filter
    (fun p => p.2 == .delivered || p.2 == .gated)
  (enum ds).map fun q => s!"d {before.s.processed + q.1 + 1} {q.2.1.time} {q.2.1.kind}"

def finLoop (endT : Option Nat) (fuel : Nat) : Nat → Sess PS → List String → Sess PS × List String
  | 0, z, acc => (z, acc)
  | n+1, z, acc =>
    if z.paused then
      let z' := Sess.apply procMachine procExt endT fuel z .go
      finLoop endT fuel n z' (acc ++ dLines z z' ++ [stLine z' "fr"])
    else (z, acc)

/-- log lines with an `RST` marker wherever a reset happened (`marks`: number of log entries then) -/
def splice (lines : List String) (marks : List Nat) : List String :=
  (enum lines).flatMap (fun q => List.replicate (marks.count q.1) "RST" ++ [q.2]) ++
    List.replicate (marks.count lines.length) "RST"

def runCtl (variant endS fuelS : String) (body : List String) : List String :=
  let p := parseProgram body
  let s0 := p.initState (variant == "contgate")
  let endT := endT? endS
  let fuel := natD fuelS
  let cmds := body.filterMap (fun l => parseCmd (toks l))
  let z0 : Sess PS := { s := s0, pre := p.pre.map (·.1), start := p.start }
  let (z, outs, marks) := cmds.foldl (fun (acc : Sess PS × List String × List Nat) x =>
      let z := acc.1
      match x with
      | .c cmd =>
        let z' := Sess.apply procMachine procExt endT fuel z cmd
        let marks := match cmd with
          | .reset => acc.2.2 ++ [z.s.ent.obs.length]
          | _ => acc.2.2
        let ds := match cmd with
          | .reset => []
          | _ => dLines z z'
        (z', acc.2.1 ++ ds ++ [stLine z'], marks)
      | .fin =>
        let r := finLoop endT fuel 200 z []
        (r.1, acc.2.1 ++ r.2 ++ [stLine r.1], acc.2.2)) (z0, [], [])
  outs ++ splice (z.s.ent.obs.reverse.map obsLine) marks ++
    [s!"end {z.s.now} {z.s.processed} {z.accCancelled + z.s.nCancelled} {z.accStale + z.s.nStale} {if z.running then 0 else 1}"]

def handle (hdr : List String) (body : List String) : List String :=
  match hdr with
  | ["run", variant, endS, fuel] => runProgram variant endS fuel body
  | ["ctl", variant, endS, fuel] => runCtl variant endS fuel body
  | ["judge"] => Spec.judge body
  | _ => ["bad-mode"]

end HappyModel.C04.Driver
