import HappyModel.C01.Parse
import HappyModel.C04.Control
namespace HappyModel.C04.Driver
open HappyModel.Proto HappyModel.C01 HappyModel.C04

inductive XCmd
  | c (x : Cmd)
  | fin                    -- resume until the run is no longer paused (at most 200 times)

def parseCmd (ts : List String) : Option XCmd :=
  match ts with
  | ["cmd", "P"] => some (.c .pause)
  | ["cmd", "G"] => some (.c .go)
  | ["cmd", "S", n] => some (.c (.step (natD n)))
  | ["cmd", "BT", t, o] => some (.c (.bp (.time (natD t) (natD o != 0))))
  | ["cmd", "BC", n, o] => some (.c (.bp (.count (natD n) (natD o != 0))))
  | ["cmd", "BK", k, o] => some (.c (.bp (.kind (natD k) (natD o != 0))))
  | ["cmd", "CLR"] => some (.c .clear)
  | ["cmd", "HP", k] => some (.c (.pauseAt (natD k)))
  | ["cmd", "FIN"] => some .fin
  | _ => none

def stLine (z : Sess PS) : String :=
  s!"st {z.s.now} {z.s.processed} {if z.paused then 1 else 0} {if z.running then 1 else 0}"

def finLoop (endT : Option Nat) (fuel : Nat) : Nat → Sess PS → Sess PS
  | 0, z => z
  | n+1, z => if z.paused then finLoop endT fuel n (Sess.apply procMachine endT fuel z .go) else z

def runCtl (variant endS fuelS : String) (body : List String) : List String :=
  let p := parseProgram body
  let s0 := p.initState (variant == "contgate")
  let endT := endT? endS
  let fuel := natD fuelS
  let cmds := body.filterMap (fun l => parseCmd (toks l))
  let (z, outs) := cmds.foldl (fun (acc : Sess PS × List String) x =>
      let z' := match x with
        | .c cmd => Sess.apply procMachine endT fuel acc.1 cmd
        | .fin => finLoop endT fuel 200 acc.1
      (z', acc.2 ++ [stLine z'])) ({ s := s0 }, [])
  outs ++ z.s.ent.obs.reverse.map obsLine ++
    [s!"end {z.s.now} {z.s.processed} {z.s.nCancelled} {z.s.nStale} {if z.running then 0 else 1}"]

/-- C04 Spec on implementation transcripts: the observed (controlled / recorded / reset) run must
    deliver exactly what an uninterrupted run of the same program on the same implementation
    delivers, and `step(n)` from a paused state must process exactly `n` events unless the run ends
    (judged only for scripts without breakpoints or pausing hooks, which may legitimately stop a step
    early).  Body: `cmd …` / `st …` lines in order, `#log`, observed log, `#ref`, reference log. -/
def judgeCtl (body : List String) : List String :=
  let pre := body.takeWhile (· != "#log")
  let rest := (body.dropWhile (· != "#log")).drop 1
  let log := rest.takeWhile (· != "#ref")
  let ref := (rest.dropWhile (· != "#ref")).drop 1
  if log != ref then ["viol control/run-differs-from-uninterrupted"]
  else
    let cmds := pre.filter (fun l => (toks l).head? == some "cmd")
    let sts := pre.filter (fun l => (toks l).head? == some "st")
    let hasBp := cmds.any fun l => match toks l with
      | _ :: k :: _ => k == "BT" || k == "BC" || k == "BK" || k == "HP"
      | _ => false
    if hasBp || cmds.length != sts.length then ["ok"]
    else
      let rec go (prev : Option (List String)) : List (String × String) → List String
        | [] => ["ok"]
        | (c, st) :: r =>
          let t := toks st
          match toks c, prev with
          | ["cmd", "S", n], some [_, _, p0, "1", "1"] =>
            match t with
            | [_, _, p1, _, run1] =>
              if run1 == "1" && natD p1 != natD p0 + natD n then ["viol control/step-not-exact"]
              else go (some t) r
            | _ => go (some t) r
          | _, _ => go (some t) r
      go none (cmds.zip sts)

def handle (hdr : List String) (body : List String) : List String :=
  match hdr with
  | ["run", variant, endS, fuel] => runProgram variant endS fuel body
  | ["ctl", variant, endS, fuel] => runCtl variant endS fuel body
  | ["judge"] => judgeCtl body
  | _ => ["bad-mode"]

end HappyModel.C04.Driver
