import HappyProofs.C02.Props
/-!
# C09 — `wait_is_silent`, part 0: induction principle for the code of a segment at a fixed clock value

The induction principle of `HappyProofs/C02/Basic.lean` (`Closed`) quantifies over the clock value of
each call (`resolve : ∀ e now f v, …`).  Following the *time stamp* of a continuation needs the clock
fixed, and following a particular future slot needs to know which slots the code may rebind, so the
principle is restated here (`SClosed now ok P`) for a fixed `now`, with the set `ok` of slots that
`fresh` / `any_of` / `all_of` may (re)bind as a parameter, and with the only log entries the code of a
segment writes itself (`hook now h`).
-/

namespace HappyModel.C09.WaitSilent
open HappyModel.C01
set_option linter.unusedVariables false

/-! ## induction principle for the code of a segment at a fixed clock value -/

/-- the slot an action (re)binds, if any, is allowed -/
def bindOk (ok : Nat → Prop) : Act → Prop
  | .fresh g => ok g
  | .anyOf g _ => ok g
  | .allOf g _ => ok g
  | _ => True

structure SClosed (now : Nat) (ok : Nat → Prop) (P : Eff → Prop) : Prop where
  resolve : ∀ e f v, P e → (futGet e.ps.futs f).resolved = false → P (markResolved e now f v)
  allUpd : ∀ e c res rem, P e → (futGet e.ps.futs c).resolved = false →
      P (e.setFut c { futGet e.ps.futs c with results := res, remaining := rem })
  cbAdd : ∀ e g cb, P e → (futGet e.ps.futs g).resolved = false →
      P (e.setFut g { futGet e.ps.futs g with cbs := (futGet e.ps.futs g).cbs ++ [cb] })
  bind : ∀ e g rs rm, ok g → P e → P (e.setFut g { results := rs, remaining := rm })
  push : ∀ e sp hook tagged, sp.data = 0 → P e → P (e.push sp hook tagged)
  release : ∀ e i sp, P e → (i, sp) ∈ e.ps.held →
      P { e with specs := e.specs ++ [sp],
                 ps := { e.ps with nid := e.ps.nid + 1, held := e.ps.held.filter (fun p => p.1 != i) } }
  crashed : ∀ e l, P e → P { e with ps := { e.ps with crashed := l } }
  cancels : ∀ e l, P e → P { e with cancels := l }
  hookObs : ∀ e h, P e → P (addObs e (.hook now h))
  /-- the hook tables, the `level` attributes of entities and the hop metadata of events (written by
      `Act.addHook` / `Act.metric` / `Act.relay` and by the start of a segment) -/
  aux : ∀ e hookOf late lateAtt level hopsOf cur, P e →
      P { e with ps := { e.ps with hookOf := hookOf, late := late, lateAtt := lateAtt, level := level,
                                   hopsOf := hopsOf, cur := cur } }

section generic
variable {now : Nat} {ok : Nat → Prop} {P : Eff → Prop}

theorem resolveFut_s (hc : SClosed now ok P) (fuel : Nat) :
    ∀ (e : Eff) (f : Nat) (v : Val), P e → P (resolveFut fuel e now f v) := by
  induction fuel with
  | zero => intro e f v h; exact h
  | succ n ih =>
    intro e f v h
    rw [resolveFut_succ]
    split
    · exact h
    · rename_i hr
      have hr' : (futGet e.ps.futs f).resolved = false := by simpa using hr
      have h1 := hc.resolve e f v h hr'
      generalize markResolved e now f v = acc at h1
      generalize (futGet e.ps.futs f).cbs = cbs
      induction cbs generalizing acc with
      | nil => exact h1
      | cons cb t iht =>
        simp only [List.foldl_cons]
        apply iht
        cases cb with
        | anyCb comp idx => exact ih _ _ _ h1
        | allCb comp idx =>
          simp only [cbStep, allStep]
          split
          · exact h1
          · rename_i hcr
            have hcr' : (futGet acc.ps.futs comp).resolved = false := by simpa using hcr
            have h2 := hc.allUpd acc comp ((futGet acc.ps.futs comp).results.set idx v)
              ((futGet acc.ps.futs comp).remaining - 1) h1 hcr'
            split
            · exact ih _ _ _ h2
            · exact h2

theorem cbStep_s (hc : SClosed now ok P) (fuel : Nat) (v : Val) (acc : Eff) (cb : Cb)
    (h1 : P acc) : P (cbStep fuel now v acc cb) := by
  cases cb with
  | anyCb comp idx => exact resolveFut_s hc _ _ _ _ h1
  | allCb comp idx =>
    simp only [cbStep, allStep]
    split
    · exact h1
    · rename_i hcr
      have hcr' : (futGet acc.ps.futs comp).resolved = false := by simpa using hcr
      have h2 := hc.allUpd acc comp ((futGet acc.ps.futs comp).results.set idx v)
        ((futGet acc.ps.futs comp).remaining - 1) h1 hcr'
      split
      · exact resolveFut_s hc _ _ _ _ h2
      · exact h2

theorem addCb_s (hc : SClosed now ok P) (e : Eff) (g : Nat) (cb : Cb) (h : P e) :
    P (addCb e now g cb) := by
  rw [addCb_eq]
  split
  · exact cbStep_s hc _ _ _ _ h
  · rename_i hr
    exact hc.cbAdd e g cb h (by simpa using hr)

theorem runAct_s (hc : SClosed now ok P) (e : Eff) (a : Act) (ha : bindOk ok a) (h : P e) :
    P (runAct now e a) := by
  cases a with
  | emit tgt kind delay daemon hook => exact hc.push _ _ _ _ rfl h
  | emitPast tgt kind back daemon => exact hc.push _ _ _ _ rfl h
  | emitAbs tgt kind time daemon => exact hc.push _ _ _ _ rfl h
  | release i =>
    simp only [runAct]
    split
    · exact h
    · rename_i j sp hf
      have hm := List.mem_of_find?_eq_some hf
      have hj := List.find?_some hf
      have : j = i := by simpa using hj
      subst this
      exact hc.release e j sp h hm
  | cancel kind =>
    simp only [runAct]
    split
    · exact hc.cancels _ _ h
    · exact h
  | resolve f v => exact resolveFut_s hc _ _ _ _ h
  | anyOf f gs =>
    simp only [runAct]
    apply foldl_closed
    · intro e' p h'; exact addCb_s hc _ _ _ h'
    · exact hc.bind e f [] 0 ha h
  | allOf f gs =>
    simp only [runAct]
    apply foldl_closed
    · intro e' p h'; exact addCb_s hc _ _ _ h'
    · exact hc.bind e f _ _ ha h
  | fresh f => exact hc.bind e f [] 0 ha h
  | crash x => exact hc.crashed _ _ h
  | restore x => exact hc.crashed _ _ h
  | addHook kind hook =>
    simp only [runAct]
    split
    · unfold addHookTo
      split
      · exact hc.aux e _ _ _ _ _ _ h
      · exact hc.aux e _ _ _ _ _ _ h
    · exact h
  | metric x abs v => exact hc.aux e _ _ _ _ _ _ h
  | relay tgt kind delay limit daemon =>
    simp only [runAct]
    split
    · exact hc.aux _ _ _ _ _ _ _ (hc.push _ _ _ _ rfl h)
    · exact h

theorem acts_s (hc : SClosed now ok P) (acts : List Act) (e : Eff) (ha : ∀ a ∈ acts, bindOk ok a)
    (h : P e) : P (acts.foldl (runAct now) e) := by
  induction acts generalizing e with
  | nil => exact h
  | cons a t ih =>
    simp only [List.foldl_cons]
    exact ih _ (fun b hb => ha b (List.mem_cons_of_mem _ hb)) (runAct_s hc e a (ha a (by simp)) h)

theorem runHooks_s (hc : SClosed now ok P) (hooks : List Nat) (e : Eff) (h : P e) :
    P (runHooks now e hooks) := by
  unfold runHooks
  apply foldl_closed _ _ _ _ h
  intro e' hk h'
  exact hc.push _ _ _ _ rfl (hc.hookObs _ _ h')

end generic

end HappyModel.C09.WaitSilent
