import HappyProofs.C09.PreemptSpecCore
import HappyModel.C09.ExtraDriver
/-! The PreemptibleResource model (with `_wake_waiters` after a preemption) satisfies the executable Spec
predicate `Preempt.judge` — the judge that is run on implementation transcripts — on its own transcript, for
every capacity and every operation list. -/
namespace HappyModel.C09.Preempt

/-! ### the model's own transcript

`Extra.runPreempt` prints one line per call: the call (`acq <id> <amt> <prio> <pre>` with `<id>` = the
model's `nextId`, or `rel <id>`), the result, `pre=` the evicted ids in eviction order, `woke=` the woken ids
sorted, `pset=` the ids evicted so far (the driver's `gone` list, after this call) sorted, and `av=`/`s=` from the
model's post-state.  `Extra.parsePObs` reads exactly these fields back into an `Obs`; `Extra.judgePreempt` hands
the list to `judge cap {}`. -/

/-- the driver's `gone'`: the ids whose `preempted` flag is set after the call -/
def goneAfter (gone : List Nat) : Op → Out → List Nat
  | .acquire _ _ _, out => gone ++ out.evicted
  | .release _, _ => gone

def kindOf (s : St) : Op → Kind
  | .acquire amt prio pre => .acq s.nextId amt prio pre
  | .release id => .rel id

/-- the observation `runPreempt` prints (and `parsePObs` reads back) for the call `o` made in state `s`, with
    output `out`, post-state `s'` and `gone'` the evicted ids so far -/
def obsOf (s : St) (gone' : List Nat) (o : Op) (out : Out) (s' : St) : Obs :=
  { k := kindOf s o, res := out.res, evicted := out.evicted, woke := Extra.sortIds out.woke,
    pset := Extra.sortIds gone', avail := s'.avail, sAcq := s'.acquisitions, sRel := s'.releases,
    sPre := s'.preemptions, sCon := s'.contentions }

def obsTrace (s : St) (gone : List Nat) : List Op → List Obs
  | [] => []
  | o :: os =>
    obsOf s (goneAfter gone o (step s o).2) o (step s o).2 (step s o).1
      :: obsTrace (step s o).1 (goneAfter gone o (step s o).2) os

theorem sortIds_eq (l : List Nat) : Extra.sortIds l = sortedIds l := rfl

theorem sortIds_nil : Extra.sortIds [] = [] := sortedIds_nil

theorem mem_sortIds (i : Nat) (l : List Nat) : i ∈ Extra.sortIds l ↔ i ∈ l := mem_sortedIds i l

/-! ### `Book.apply` on the observations of the model, by result -/

theorem apply_granted (cap : Int) (b b1 : Book) (s : St) (gone' : List Nat) (amt prio : Int) (pre : Bool) (out : Out)
    (s' : St) (hr : out.res = .granted) (hok : ¬ (amt ≤ 0 ∨ cap < amt)) (hng : b.granted.contains s.nextId = false)
    (hperm : out.evicted ≠ [] → pre = true) (hev : b.evict cap amt prio out.evicted = .ok b1) :
    b.apply cap (obsOf s gone' (.acquire amt prio pre) out s') =
      Book.wakeSet cap b1.waiting.length
        { b1 with held := b1.held ++ [(⟨s.nextId, amt, prio⟩ : G)], granted := b1.granted ++ [s.nextId] }
        (Extra.sortIds out.woke) := by
  simp only [Book.apply, obsOf, kindOf, hr]
  rw [if_neg hok, hng]
  simp only [Bool.false_eq_true, if_false]
  rw [if_neg (by intro h; have := hperm h.1; rw [this] at h; simp at h), hev]

theorem apply_queued (cap : Int) (b b1 : Book) (s : St) (gone' : List Nat) (amt prio : Int) (pre : Bool) (out : Out)
    (s' : St) (hr : out.res = .queued) (hok : ¬ (amt ≤ 0 ∨ cap < amt))
    (hperm : out.evicted ≠ [] → pre = true) (hev : b.evict cap amt prio out.evicted = .ok b1) :
    b.apply cap (obsOf s gone' (.acquire amt prio pre) out s') =
      Book.wakeSet cap (b1.waiting ++ [(⟨s.nextId, amt, prio⟩ : G)]).length
        { b1 with waiting := b1.waiting ++ [(⟨s.nextId, amt, prio⟩ : G)], nCon := b1.nCon + 1 }
        (Extra.sortIds out.woke) := by
  simp only [Book.apply, obsOf, kindOf, hr]
  rw [if_neg hok, if_neg (by intro h; have := hperm h.1; rw [this] at h; simp at h), hev]

theorem apply_err (cap : Int) (b : Book) (s : St) (gone' : List Nat) (amt prio : Int) (pre : Bool) (s' : St)
    (hbad : amt ≤ 0 ∨ cap < amt) :
    b.apply cap (obsOf s gone' (.acquire amt prio pre) { res := .err } s') = .ok b := by
  simp only [Book.apply, obsOf, kindOf]
  rw [if_neg (by omega)]
  simp [sortIds_nil]

theorem apply_released (cap : Int) (b : Book) (s : St) (gone' : List Nat) (id : Nat) (g : G) (wk : List Nat)
    (s' : St) (hf : b.held.find? (·.id == id) = some g) :
    b.apply cap (obsOf s gone' (.release id) { res := .released, woke := wk } s') =
      Book.wakeSet cap b.waiting.length { b with held := b.held.erase g, nRel := b.nRel + 1 }
        (Extra.sortIds wk) := by
  simp only [Book.apply, obsOf, kindOf, hf]
  simp

theorem apply_noop (cap : Int) (b : Book) (s : St) (gone' : List Nat) (id : Nat)
    (s' : St) (hf : b.held.find? (·.id == id) = none) :
    b.apply cap (obsOf s gone' (.release id) { res := .noop } s') = .ok b := by
  simp only [Book.apply, obsOf, kindOf, hf]
  simp [sortIds_nil]

/-! ### one call -/

structure Agree (cap : Int) (b : Book) (s : St) (gone : List Nat) : Prop where
  core : Core cap b s gone
  head : ∀ w ws, s.waiters = w :: ws → s.avail < w.amt

theorem init_agree (cap : Int) (h : 0 < cap) : Agree cap {} (St.init cap) [] :=
  ⟨init_core cap h, (init_inv cap h).head⟩

/-- the judge accepts the model's observation of one call and its books follow the model -/
theorem apply_step (cap : Int) (s : St) (b : Book) (gone : List Nat) (o : Op) (ag : Agree cap b s gone) :
    ∃ b', b.apply cap (obsOf s (goneAfter gone o (step s o).2) o (step s o).2 (step s o).1) = .ok b'
      ∧ Agree cap b' (step s o).1 (goneAfter gone o (step s o).2) := by
  have c := ag.core
  have hinv := step_inv s o ⟨c.num, ag.head⟩
  have hfix := c.num.fix
  have hcap := c.cap
  cases o with
  | release id =>
    cases hf : s.active.find? (·.id == id) with
    | none =>
      rw [step_release_none s id hf]
      exact ⟨b, apply_noop _ _ _ _ _ _ (by rw [c.held]; exact hf), ag⟩
    | some g =>
      rw [step_release_some s id g hf] at hinv ⊢
      have hm : g ∈ s.active := List.mem_of_find?_eq_some hf
      obtain ⟨b', hw, c'⟩ := core_wake (Extra.sortIds (wake (freed s g)).2) (core_free g c hm)
        (fun i => mem_sortIds i _)
      refine ⟨b', ?_, ⟨c', hinv.head⟩⟩
      rw [apply_released _ _ _ _ _ g _ _ (by rw [c.held]; exact hf)]
      exact hw
  | acquire amt prio pre =>
    have hnewlog : s.nextId ∉ s.grantLog := fun h => by have := c.ord.logFresh _ h; omega
    have hlt : ∀ w ∈ s.waiters, w.id < s.nextId := c.ord.waitFresh
    have cb := core_bump c
    by_cases hbad : amt ≤ 0 ∨ s.cap < amt
    · rw [step_err s amt prio pre hbad]
      dsimp only [goneAfter]
      rw [List.append_nil]
      exact ⟨b, apply_err _ _ _ _ _ _ _ _ (by rw [← hcap]; exact hbad), ⟨cb, ag.head⟩⟩
    · have hok : ¬ (amt ≤ 0 ∨ cap < amt) := by rw [← hcap]; exact hbad
      have hpos : 0 < amt := by omega
      have hng : b.granted.contains s.nextId = false := by
        rw [c.granted]; simpa using hnewlog
      by_cases hfit : amt ≤ s.avail
      · rw [step_fit s amt prio pre hbad hfit] at hinv ⊢
        dsimp only [goneAfter]
        rw [List.append_nil]
        have cg := core_grant ⟨s.nextId, amt, prio⟩ cb hpos hfit (Nat.lt_succ_self _) hnewlog
          (fun w hw => Nat.ne_of_lt (hlt w hw))
        refine ⟨_, ?_, ⟨cg, hinv.head⟩⟩
        rw [apply_granted cap b b _ _ _ _ _ _ _ rfl hok hng (fun h => absurd rfl h) (evict_nil _ _ _ _)]
        dsimp only
        rw [sortIds_nil, wakeSet_nil]
      · cases pre with
        | false =>
          rw [step_nopre s amt prio hbad hfit] at hinv ⊢
          dsimp only [goneAfter]
          rw [List.append_nil]
          have cq := core_enqueue ⟨s.nextId, amt, prio⟩ cb hpos hlt (Nat.lt_succ_self _) hnewlog
          refine ⟨_, ?_, ⟨cq, hinv.head⟩⟩
          rw [apply_queued cap b b _ _ _ _ _ _ _ rfl hok (fun h => absurd rfl h) (evict_nil _ _ _ _)]
          dsimp only
          rw [sortIds_nil, wakeSet_nil]
        | true =>
          by_cases hr : (preemptLoop amt prio s.active.length (bump s)).2 = []
          · rw [step_pre_nil s amt prio hbad hfit hr] at hinv ⊢
            dsimp only [goneAfter]
            rw [List.append_nil]
            have cq := core_enqueue ⟨s.nextId, amt, prio⟩ cb hpos hlt (Nat.lt_succ_self _) hnewlog
            refine ⟨_, ?_, ⟨cq, hinv.head⟩⟩
            rw [apply_queued cap b b _ _ _ _ _ _ _ rfl hok (fun h => absurd rfl h) (evict_nil _ _ _ _)]
            dsimp only
            rw [sortIds_nil, wakeSet_nil]
          · obtain ⟨b1, hev, c1⟩ := core_evict amt prio s.active.length cb
            have f := preemptLoop_facts amt prio s.active.length (bump s) c.num.actPos
            by_cases hav : amt ≤ (preemptLoop amt prio s.active.length (bump s)).1.avail
            · rw [step_pre_grant s amt prio hfix hbad hfit hr hav] at hinv ⊢
              dsimp only [goneAfter]
              generalize preemptLoop amt prio s.active.length (bump s) = r at *
              have cg := core_grant ⟨s.nextId, amt, prio⟩ c1 hpos hav
                (by rw [f.nextId]; exact Nat.lt_succ_self _) (by rw [f.log]; exact hnewlog)
                (by rw [f.waiters]; exact fun w hw => Nat.ne_of_lt (hlt w hw))
              obtain ⟨b', hw, c'⟩ := core_wake (Extra.sortIds (wake (grantNow r.1 ⟨s.nextId, amt, prio⟩)).2) cg
                (fun i => mem_sortIds i _)
              refine ⟨b', ?_, ⟨c', hinv.head⟩⟩
              rw [apply_granted cap b b1 _ _ _ _ _ _ _ rfl hok hng (fun _ => rfl) hev]
              exact hw
            · rw [step_pre_queue s amt prio hfix hbad hfit hr hav] at hinv ⊢
              dsimp only [goneAfter]
              generalize preemptLoop amt prio s.active.length (bump s) = r at *
              have cq := core_enqueue ⟨s.nextId, amt, prio⟩ c1 hpos
                (by rw [f.waiters]; exact hlt) (by rw [f.nextId]; exact Nat.lt_succ_self _)
                (by rw [f.log]; exact hnewlog)
              obtain ⟨b', hw, c'⟩ := core_wake (Extra.sortIds (wake (enqueue r.1 ⟨s.nextId, amt, prio⟩)).2) cq
                (fun i => mem_sortIds i _)
              refine ⟨b', ?_, ⟨c', hinv.head⟩⟩
              rw [apply_queued cap b b1 _ _ _ _ _ _ _ rfl hok (fun _ => rfl) hev]
              exact hw

/-! ### the counters -/

theorem check_ok (cap : Int) (b : Book) (s : St) (gone : List Nat) (o : Obs) (ag : Agree cap b s gone)
    (hp : o.pset = Extra.sortIds gone) (ha : o.avail = s.avail) (h1 : o.sAcq = s.acquisitions)
    (h2 : o.sRel = s.releases) (h3 : o.sPre = s.preemptions) (h4 : o.sCon = s.contentions) :
    b.check cap o = none := by
  have c := ag.core
  have hsum : heldSum b = cap - s.avail := by
    unfold heldSum; rw [c.held, ← c.cap]; have := c.num.conserve; omega
  have hnn := c.num.availNonneg
  have hheld : 0 ≤ heldSum b := by unfold heldSum; rw [c.held]; exact amtSum_nonneg s.active c.num.actPos
  have hrest : (if sortedIds o.pset ≠ sortedIds b.gone then some "preempt/preempt/flag-mismatch"
      else if o.sAcq ≠ b.granted.length then some "preempt/stats/acquisitions-mismatch"
      else if o.sRel ≠ b.nRel then some "preempt/stats/releases-mismatch"
      else if o.sPre ≠ b.gone.length then some "preempt/stats/preemptions-mismatch"
      else if o.sCon ≠ b.nCon then some "preempt/stats/contentions-mismatch"
      else none) = none := by
    rw [hp, h1, h2, h3, h4, sortIds_eq, sortedIds_idem, c.bgone, c.granted, c.nRel, c.nCon]
    simp [c.nAcq, c.nPre]
  unfold Book.check
  rw [hrest, ha, hsum]
  rw [if_neg (by omega), if_neg (by omega), if_neg (by omega), if_neg (by simp; omega)]
  cases hw : s.waiters with
  | nil =>
    have hp := c.waitPerm; rw [hw] at hp
    rw [headOf_nil_of_perm _ hp]
    simp
  | cons w ws =>
    have hp := c.waitPerm; rw [hw] at hp
    have hs := c.ord.sorted; rw [hw] at hs
    rw [headOf_perm_cons _ _ _ c.waitArr hp hs]
    have := ag.head w ws hw
    simp only [decide_eq_true_eq]
    rw [if_neg (by omega)]

/-! ### every operation list -/

theorem judge_model (cap : Int) (s : St) (b : Book) (gone : List Nat) (ops : List Op) (ag : Agree cap b s gone) :
    judge cap b (obsTrace s gone ops) = none := by
  induction ops generalizing s b gone with
  | nil => rfl
  | cons o os ih =>
    obtain ⟨b', hap, hag⟩ := apply_step cap s b gone o ag
    simp only [obsTrace, judge, hap]
    rw [check_ok cap b' (step s o).1 _ _ hag rfl rfl rfl rfl rfl rfl]
    exact ih _ _ _ hag

end HappyModel.C09.Preempt

namespace HappyModel.C09
open Preempt

/-- **The model's transcript satisfies the Spec judge.**  For every capacity and EVERY call list, the executable
    judge that is run on implementation transcripts (`Preempt.judge`, called by `Extra.judgePreempt`) accepts the
    transcript of the repaired PreemptibleResource model (`wakeAfterPreempt = true`).  No hypothesis on the call list
    is needed: the acquire ids of a transcript are the model's own `nextId` (the driver numbers the calls), release
    ids are arbitrary (unknown, released, preempted, still waiting — all judged). -/
theorem preempt_trace_satisfies_spec (cap : Int) (hcap : 0 < cap) (ops : List Preempt.Op) :
    Preempt.judge cap {} (Preempt.obsTrace (Preempt.St.init cap) [] ops) = none :=
  Preempt.judge_model cap (Preempt.St.init cap) {} [] ops (Preempt.init_agree cap hcap)

end HappyModel.C09

namespace HappyModel.C09
open Preempt

/-! ### the statement on concrete call lists (non-vacuity)

`decide` cannot evaluate `List.mergeSort` (well-founded recursion), which `Book.check` and the transcript use to
sort id lists: the examples first unfold the judge over the concrete list and replace the sort by the insertion
sort that returns the same list (`sortedIds_eq_isort`), then `decide`. -/

/-- capacity 3: a holder, a queued waiter (call 1) woken by `release 0`, a double release (no-op), a preempting
    request of priority 0 that evicts the woken holder (priority 5), a release of the preempted grant (no-op), a
    malformed amount — the hypothesis `0 < cap` holds and the judge accepts the model's transcript -/
example : (0 : Int) < 3 ∧ Preempt.judge 3 {} (Preempt.obsTrace (Preempt.St.init 3) []
    [.acquire 2 5 false, .acquire 2 5 false, .release 0, .release 0, .acquire 3 0 true, .release 1, .acquire 4 1 true])
    = none := by
  simp only [judge, obsTrace, obsOf, Book.check, sortedIds_eq_isort, sortIds_eq]
  decide

/-- … and what that transcript is: call 1 is queued, woken by the release, then evicted by call 2 -/
example : ((Preempt.obsTrace (Preempt.St.init 3) []
    [.acquire 2 5 false, .acquire 2 5 false, .release 0, .release 0, .acquire 3 0 true, .release 1]).map
      (fun o => (o.res, o.evicted, o.woke, o.pset, o.avail)))
    = [(.granted, [], [], [], 1), (.queued, [], [], [], 1), (.released, [], [1], [], 1), (.noop, [], [], [], 1),
       (.granted, [1], [], [1], 0), (.noop, [], [], [1], 0)] := by
  simp only [obsTrace, obsOf, sortedIds_eq_isort, sortIds_eq]
  decide

/-- the woken set is reported sorted by id although the wake order is by priority (call 2 before call 1), the
    evicted list in eviction order (lowest priority first: call 2, then call 1) -/
example : Preempt.judge 2 {} (Preempt.obsTrace (Preempt.St.init 2) []
      [.acquire 2 0 false, .acquire 1 2 false, .acquire 1 1 false, .release 0, .acquire 2 0 true]) = none
    ∧ ((Preempt.obsTrace (Preempt.St.init 2) []
      [.acquire 2 0 false, .acquire 1 2 false, .acquire 1 1 false, .release 0, .acquire 2 0 true]).map
        (fun o => (o.res, o.evicted, o.woke, o.pset)))
      = [(.granted, [], [], []), (.queued, [], [], []), (.queued, [], [], []), (.released, [], [1, 2], []),
         (.granted, [1, 2], [], [1, 2])]
    ∧ (Preempt.step (Preempt.run (Preempt.St.init 2) [.acquire 2 0 false, .acquire 1 2 false, .acquire 1 1 false])
        (.release 0)).2.woke = [2, 1] := by
  simp only [judge, obsTrace, obsOf, Book.check, sortedIds_eq_isort, sortIds_eq]
  decide

/-- the repaired `acquire` wakes the waiter that fits into what a preemption freed beyond the requester's need
    (holder of 3 at priority 5, a waiter for 2 at priority 7, a preempting request for 1 at priority 0) -/
example : Preempt.judge 3 {} (Preempt.obsTrace (Preempt.St.init 3) []
    [.acquire 3 5 false, .acquire 2 7 false, .acquire 1 0 true]) = none := by
  simp only [judge, obsTrace, obsOf, Book.check, sortedIds_eq_isort, sortIds_eq]
  decide

/-- contrast: the code as it is (`wakeAfterPreempt = false`) leaves that waiter blocked, and the same judge rejects
    the transcript of the unrepaired model (cf. `preempt_current_leaves_head_grantable`) -/
example : Preempt.judge 3 {} (Preempt.obsTrace (Preempt.St.init 3 false) []
    [.acquire 3 5 false, .acquire 2 7 false, .acquire 1 0 true]) = some "preempt/head/grantable-but-blocked" := by
  simp only [judge, obsTrace, obsOf, Book.check, sortedIds_eq_isort, sortIds_eq]
  decide

/-! ### the judge is not vacuous: bad hand-written traces are rejected -/

/-- over-admission: two grants of 1 on capacity 1 -/
example : Preempt.judge 1 {}
    [{ k := .acq 0 1 0 false, res := .granted, avail := 0, sAcq := 1 },
     { k := .acq 1 1 0 false, res := .granted, avail := 0, sAcq := 2 }]
    = some "preempt/held/exceeds-capacity" := by
  simp only [judge, Book.check, sortedIds_eq_isort]
  decide

/-- wrong victim: with holders of priority 5 (call 0) and 7 (call 1), a preempting request of priority 0 has to
    evict call 1 (the lowest priority) first, not call 0 -/
example : Preempt.judge 2 {}
    [{ k := .acq 0 1 5 false, res := .granted, avail := 1, sAcq := 1 },
     { k := .acq 1 1 7 false, res := .granted, avail := 0, sAcq := 2 },
     { k := .acq 2 1 0 true, res := .granted, evicted := [0], pset := [0], avail := 0, sAcq := 3, sPre := 1 }]
    = some "preempt/order/wrong-victim" := by
  simp only [judge, Book.check, sortedIds_eq_isort]
  decide

/-- a waiter granted out of (priority, arrival) order -/
example : Preempt.judge 1 {}
    [{ k := .acq 0 1 0 false, res := .granted, avail := 0, sAcq := 1 },
     { k := .acq 1 1 2 false, res := .queued, avail := 0, sAcq := 1, sCon := 1 },
     { k := .acq 2 1 1 false, res := .queued, avail := 0, sAcq := 1, sCon := 2 },
     { k := .rel 0, res := .released, woke := [1], avail := 0, sAcq := 2, sRel := 1, sCon := 2 }]
    = some "preempt/order/out-of-order" := by
  simp only [judge, Book.check, sortedIds_eq_isort]
  decide

/-- a double release that returns the amount twice -/
example : Preempt.judge 2 {}
    [{ k := .acq 0 1 0 false, res := .granted, avail := 1, sAcq := 1 },
     { k := .rel 0, res := .released, avail := 2, sAcq := 1, sRel := 1 },
     { k := .rel 0, res := .released, avail := 3, sAcq := 1, sRel := 2 }]
    = some "preempt/release/returned-twice" := by
  simp only [judge, Book.check, sortedIds_eq_isort]
  decide

end HappyModel.C09
