import HappyModel.C09.Conc
/-! Invariants of the non-blocking concurrency limiter model. -/
namespace HappyModel.C09.Conc

structure Inv (s : St) : Prop where
  notDyn : s.kind ≠ 1
  lo : 0 ≤ s.active
  hi : s.active ≤ s.limit

theorem step_inv (s : St) (o : Op) (inv : Inv s) : Inv (step s o).1 ∧ (step s o).1.limit = s.limit := by
  have h1 := inv.notDyn; have h2 := inv.lo; have h3 := inv.hi
  cases o with
  | acquire w =>
    simp only [step]
    split
    · split
      · exact ⟨inv, rfl⟩
      · split
        · exact ⟨inv, rfl⟩
        · exact ⟨⟨h1, by show 0 ≤ s.active + w; omega, by show s.active + w ≤ s.limit; omega⟩, rfl⟩
    · split
      · exact ⟨inv, rfl⟩
      · exact ⟨⟨h1, by show 0 ≤ s.active + 1; omega, by show s.active + 1 ≤ s.limit; omega⟩, rfl⟩
  | release w =>
    simp only [step]
    split
    · split
      · exact ⟨inv, rfl⟩
      · exact ⟨⟨h1, by show 0 ≤ max 0 (s.active - w); omega, by show max 0 (s.active - w) ≤ s.limit; omega⟩, rfl⟩
    · exact ⟨⟨h1, by show 0 ≤ max 0 (s.active - 1); omega, by show max 0 (s.active - 1) ≤ s.limit; omega⟩, rfl⟩
  | setLimit n =>
    simp only [step]
    split
    · rename_i h; exact absurd h h1
    · exact ⟨inv, rfl⟩

theorem run_inv (s : St) (ops : List Op) (inv : Inv s) : Inv (run s ops) ∧ (run s ops).limit = s.limit := by
  induction ops generalizing s with
  | nil => exact ⟨inv, rfl⟩
  | cons o os ih =>
    have h := step_inv s o inv
    have := ih _ h.1
    exact ⟨this.1, by rw [run, this.2, h.2]⟩

/-- admission respects the limit in every state, also for a dynamic limiter whose limit was lowered -/
theorem grant_respects_limit (s : St) (w : Int) (h : (step s (.acquire w)).2 = .granted) :
    (step s (.acquire w)).1.active ≤ s.limit := by
  simp only [step] at h ⊢
  split
  · rename_i hk
    simp only [hk, if_true] at h
    split
    · rename_i hw; simp [hw] at h
    · rename_i hw
      simp only [hw, if_false] at h
      split
      · rename_i hl; simp [hl] at h
      · show s.active + w ≤ s.limit; omega
  · rename_i hk
    simp only [hk, if_false] at h
    split
    · rename_i hl; simp [hl] at h
    · show s.active + 1 ≤ s.limit; omega

end HappyModel.C09.Conc
