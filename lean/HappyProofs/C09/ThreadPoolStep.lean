import HappyProofs.C09.ThreadPoolAgree
/-! ThreadPool: one schedule line — the judge accepts the model's observation and its books follow the model. -/
namespace HappyModel.C09.TPool

theorem check_ok' (s : St) (b : Book) (due : Due) (settled : Bool) (o : Obs)
    (inv : Inv s) (x : Inv2 s) (ag : Agree b s due) (hq : settled = true → quiet s = true)
    (h1 : o.aw = s.active) (h2 : o.iw = s.n - s.active) (h3 : o.q = s.queue.length) (h4 : o.acc = s.accepted)
    (h5 : o.drop = s.dropped) (h6 : o.done = s.completed) (h7 : o.rej = s.rejected) (h8 : o.cap = decide (s.active < s.n)) :
    b.check s.n settled o = none := by
  have hb := inv.bound
  have hact := inv.act
  have hrl : b.running.length = s.running.length := by rw [← ag.running, List.length_map]
  have hcons := inv.conserve
  have hloss := inv.noLoss
  have hacc := x.accLen
  unfold Book.check
  rw [h1, h2, h3, h4, h5, h6, h7, h8, hrl, ag.inQueue, ag.transit, ag.acceptedL, ag.nDrop, ag.nDone]
  rw [if_neg (by omega), if_neg (by omega), if_neg (by omega), if_neg (by simp), if_neg (by simp), if_neg (by omega),
    if_neg (by simp), if_neg (by simp), if_neg (by omega), if_neg (by omega)]
  cases settled with
  | false => simp
  | true =>
    have hq' := hq rfl
    simp only [quiet, Bool.and_eq_true, Bool.or_eq_true, List.isEmpty_iff, decide_eq_true_eq] at hq'
    obtain ⟨ht, hqq⟩ := hq'
    rw [ht] at hcons
    rw [if_neg (by simp at hcons ⊢; omega)]
    rw [if_neg]
    rcases hqq with h | h
    · simp [h]
    · simp; omega

/-- the counter checks pass on a line that carries the model's counters -/
theorem check_ok (s : St) (b : Book) (due : Due) (settled : Bool) (t : Nat) (k : Kind) (res : ORes) (item : Option Nat)
    (pt : Nat) (inv : Inv s) (x : Inv2 s) (ag : Agree b s due) (hq : settled = true → quiet s = true) :
    b.check s.n settled (mkObs s t k res item pt) = none :=
  check_ok' s b due settled _ inv x ag hq rfl rfl rfl rfl rfl rfl rfl rfl



/-- the judge accepts the observation of line `l`, which carries the counters of the model's next state, and
    its books agree with that state -/
def StepOk (s : St) (b : Book) (due : Due) (l : Line) : Prop :=
  ∃ b' k res item pt, b.apply s.qcap (obsOf s due l) = .ok b'
    ∧ obsOf s due l = mkObs (next s due l).1 l.time k res item pt
    ∧ Agree b' (next s due l).1 (next s due l).2 ∧ Inv2 (next s due l).1

theorem submit_ok (s : St) (b : Book) (due : Due) (t tid : Nat) (x : Inv2 s) (ag : Agree b s due)
    (ok : lineOk s due (.submit t tid) = true) : StepOk s b due (.submit t tid) := by
  cases hf : full s with
  | true =>
    have hst := step_submit_full s tid hf
    refine ⟨{ b with nDrop := b.nDrop + 1 }, .submit tid, .dropped, none, 0, ?_, ?_, ?_, ?_⟩
    · cases hc : s.qcap with
      | none => simp [full, hc] at hf
      | some c =>
        have hle : c ≤ s.queue.length := by simpa [full, hc] using hf
        simp only [obsOf, hst, Book.apply, mkObs, ag.inQueue]
        rw [if_neg (by omega)]
    · simp only [obsOf, next, hst]; rfl
    · simp only [next, hst]
      exact ⟨ag.inQueue, ag.transit, ag.running, ag.startedL, ag.acceptedL, by simp [ag.nDrop], ag.nDone,
        ag.dueStarted, ag.dueUniq⟩
    · simp only [next, hst]; exact ⟨x.accLen, x.nodup, x.runSub⟩
  | false =>
    have hst := step_submit_room s tid hf
    have hnew : tid ∉ s.acceptedL := by
      have := ok
      simp only [lineOk, hst] at this
      simpa using this
    have ht : transit (if s.queue.isEmpty then s.pend ++ [.notify] else s.pend) = transit s.pend := by
      split
      · rw [transit_append]; simp [transit]
      · rfl
    refine ⟨{ b with inQueue := b.inQueue ++ [tid], acceptedL := b.acceptedL ++ [tid] }, .submit tid, .accepted, none, 0,
      ?_, ?_, ?_, ?_⟩
    · simp only [obsOf, hst, Book.apply, mkObs, ag.acceptedL]
      rw [if_neg (by simpa using hnew)]
    · simp only [obsOf, next, hst]; rfl
    · simp only [next, hst]
      exact ⟨by simp [ag.inQueue], by rw [ht]; exact ag.transit, ag.running, ag.startedL, by simp [ag.acceptedL],
        ag.nDrop, ag.nDone, ag.dueStarted, ag.dueUniq⟩
    · simp only [next, hst]
      refine ⟨by simp [x.accLen], ?_, x.runSub⟩
      show (s.acceptedL ++ [tid]).Nodup
      rw [List.nodup_append]
      refine ⟨x.nodup, by simp, ?_⟩
      intro a ha c hc
      have : c = tid := by simpa using hc
      subst this
      intro hac; subst hac; exact hnew ha

/-- `notify`, `disp` and the empty `deliver` only report whether the driver polled -/
theorem pollish_ok (s s1 : St) (b : Book) (due : Due) (l : Line) (k : Kind) (x1 : Inv2 s1) (ag1 : Agree b s1 due)
    (hk : k = .notify ∨ k = .disp ∨ k = .deliver)
    (hnext : next s due l = ((pollIfReady s1).1, due))
    (hobs : ∀ r, (r = .idle ∨ r = .polled) → (pollIfReady s1).2 = r →
      obsOf s due l = mkObs (pollIfReady s1).1 l.time k (match r with | .polled => .polled | _ => .idle) none 0) :
    StepOk s b due l := by
  have hap : ∀ res, (res = ORes.idle ∨ res = ORes.polled) →
      b.apply s.qcap (mkObs (pollIfReady s1).1 l.time k res none 0) = .ok b := by
    intro res hres
    rcases hk with h | h | h <;> rcases hres with h' | h' <;> subst h <;> subst h' <;> rfl
  rcases poll_res s1 with hr | hr
  · refine ⟨b, k, .idle, none, 0, ?_, ?_, ?_, ?_⟩
    · rw [hobs .idle (Or.inl rfl) hr]; exact hap _ (Or.inl rfl)
    · rw [hobs .idle (Or.inl rfl) hr, hnext]
    · rw [hnext]; exact agree_poll _ _ _ ag1
    · rw [hnext]; exact inv2_poll _ x1
  · refine ⟨b, k, .polled, none, 0, ?_, ?_, ?_, ?_⟩
    · rw [hobs .polled (Or.inr rfl) hr]; exact hap _ (Or.inr rfl)
    · rw [hobs .polled (Or.inr rfl) hr, hnext]
    · rw [hnext]; exact agree_poll _ _ _ ag1
    · rw [hnext]; exact inv2_poll _ x1

theorem notify_ok (s : St) (b : Book) (due : Due) (t : Nat) (x : Inv2 s) (ag : Agree b s due)
    (ok : lineOk s due (.notify t) = true) : StepOk s b due (.notify t) := by
  have hnb : (step s .notify).2 ≠ .bad := by simpa [lineOk] using ok
  rcases step_notify_cases s with ⟨rest, hp, hst⟩ | hbad
  · refine pollish_ok s { s with pend := rest } b due _ .notify ⟨x.accLen, x.nodup, x.runSub⟩
      ⟨ag.inQueue, by rw [ag.transit, hp]; rfl, ag.running, ag.startedL, ag.acceptedL, ag.nDrop, ag.nDone,
        ag.dueStarted, ag.dueUniq⟩ (Or.inl rfl) (by simp only [next, hst]) ?_
    intro r hr hres
    rcases hr with h | h <;> subst h <;> simp only [obsOf, hst, hres] <;> rfl
  · rw [hbad] at hnb; exact absurd rfl hnb

theorem disp_ok (s : St) (b : Book) (due : Due) (t : Nat) (x : Inv2 s) (ag : Agree b s due)
    (ok : lineOk s due (.disp t) = true) : StepOk s b due (.disp t) := by
  have hnb : (step s .disp).2 ≠ .bad := by simpa [lineOk] using ok
  rcases step_disp_cases s with ⟨rest, hp, hst⟩ | hbad
  · refine pollish_ok s { s with pend := rest, busy := false } b due _ .disp ⟨x.accLen, x.nodup, x.runSub⟩
      ⟨ag.inQueue, by rw [ag.transit, hp]; rfl, ag.running, ag.startedL, ag.acceptedL, ag.nDrop, ag.nDone,
        ag.dueStarted, ag.dueUniq⟩ (Or.inr (Or.inl rfl)) (by simp only [next, hst]) ?_
    intro r hr hres
    rcases hr with h | h <;> subst h <;> simp only [obsOf, hst, hres] <;> rfl
  · rw [hbad] at hnb; exact absurd rfl hnb

theorem poll_ok (s : St) (b : Book) (due : Due) (t : Nat) (x : Inv2 s) (ag : Agree b s due)
    (ok : lineOk s due (.poll t) = true) : StepOk s b due (.poll t) := by
  have hnb : (step s .poll).2 ≠ .bad := by simpa [lineOk] using ok
  rcases step_poll_cases s with ⟨rest, hp, hq, hst⟩ | ⟨rest, tk, q, hp, hq, hst⟩ | hbad
  · refine ⟨b, .poll, .item, none, 0, ?_, ?_, ?_, ?_⟩
    · simp only [obsOf, hst, Book.apply, mkObs, ag.inQueue, hq]
    · simp only [obsOf, next, hst]; rfl
    · simp only [next, hst]
      refine ⟨ag.inQueue, ?_, ag.running, ag.startedL, ag.acceptedL, ag.nDrop, ag.nDone, ag.dueStarted, ag.dueUniq⟩
      show b.transit = transit (rest ++ [.deliver none])
      rw [ag.transit, hp, transit_append]; simp [transit]
    · simp only [next, hst]; exact ⟨x.accLen, x.nodup, x.runSub⟩
  · refine ⟨{ b with inQueue := q, transit := b.transit ++ [tk] }, .poll, .item, some tk, 0, ?_, ?_, ?_, ?_⟩
    · simp only [obsOf, hst, Book.apply, mkObs, ag.inQueue, hq]
      rw [if_neg (by simp)]
    · simp only [obsOf, next, hst]; rfl
    · simp only [next, hst]
      refine ⟨rfl, ?_, ag.running, ag.startedL, ag.acceptedL, ag.nDrop, ag.nDone, ag.dueStarted, ag.dueUniq⟩
      show b.transit ++ [tk] = transit (rest ++ [.deliver (some tk)])
      rw [ag.transit, hp, transit_append]; simp [transit]
    · simp only [next, hst]; exact ⟨x.accLen, x.nodup, x.runSub⟩
  · rw [hbad] at hnb; exact absurd rfl hnb

theorem deliver_ok (s : St) (b : Book) (due : Due) (t : Nat) (inv : Inv s) (x : Inv2 s) (ag : Agree b s due)
    (ok : lineOk s due (.deliver t) = true) : StepOk s b due (.deliver t) := by
  have hnb : (step s .deliver).2 ≠ .bad := by simpa [lineOk] using ok
  rcases step_deliver_cases s with ⟨rest, hp, _, hst⟩ | ⟨rest, hp, hst⟩ | ⟨tk, rest, hp, hst⟩ | hbad
  · refine pollish_ok s { s with pend := rest, busy := false } b due _ .deliver ⟨x.accLen, x.nodup, x.runSub⟩
      ⟨ag.inQueue, by rw [ag.transit, hp]; rfl, ag.running, ag.startedL, ag.acceptedL, ag.nDrop, ag.nDone,
        ag.dueStarted, ag.dueUniq⟩ (Or.inr (Or.inr rfl)) (by simp only [next, hst]) ?_
    intro r hr hres
    rcases hr with h | h <;> subst h <;> simp only [obsOf, hst, hres] <;> rfl
  · refine ⟨b, .deliver, .idle, none, 0, ?_, ?_, ?_, ?_⟩
    · simp only [obsOf, hst]; rfl
    · simp only [obsOf, next, hst]; rfl
    · simp only [next, hst]
      exact ⟨ag.inQueue, by rw [ag.transit, hp]; rfl, ag.running, ag.startedL, ag.acceptedL, ag.nDrop, ag.nDone,
        ag.dueStarted, ag.dueUniq⟩
    · simp only [next, hst]; exact ⟨x.accLen, x.nodup, x.runSub⟩
  · have htr := inv_deliver_some s inv hp
    have hts : transit s.pend = [tk] := by rw [hp]; simp [transit, htr]
    refine ⟨b, .deliver, .item, some tk, 0, ?_, ?_, ?_, ?_⟩
    · simp only [obsOf, hst, Book.apply, mkObs, ag.transit, hts]
      simp
    · simp only [obsOf, next, hst]; rfl
    · simp only [next, hst]
      refine ⟨ag.inQueue, ?_, ag.running, ag.startedL, ag.acceptedL, ag.nDrop, ag.nDone, ag.dueStarted, ag.dueUniq⟩
      show b.transit = transit (rest ++ [.work tk, .disp])
      rw [ag.transit, hts, transit_append, htr]; simp [transit]
    · simp only [next, hst]; exact ⟨x.accLen, x.nodup, x.runSub⟩
  · rw [hbad] at hnb; exact absurd rfl hnb

theorem work_ok (s : St) (b : Book) (due : Due) (t tid pt : Nat) (inv : Inv s) (x : Inv2 s) (ag : Agree b s due)
    (ok : lineOk s due (.work t tid pt) = true) : StepOk s b due (.work t tid pt) := by
  have hnb : (step s (.work tid)).2 ≠ .bad := by simpa [lineOk] using ok
  rcases step_work_cases s tid with ⟨rest, hp, hlt, hst⟩ | ⟨rest, hp, hnlt⟩ | hbad
  · have htr := (inv_work s inv hp).2
    have hts : transit s.pend = [tid] := by rw [hp]; simp [transit, htr]
    have hord : s.acceptedL = s.started ++ tid :: s.queue := by
      have := inv.order; rw [hts] at this; simpa using this
    have hnd := x.nodup
    rw [hord] at hnd
    have hnotin : tid ∉ s.started := fun hm =>
      (List.nodup_append.mp hnd).2.2 tid hm tid List.mem_cons_self rfl
    have hsub : ∀ e ∈ b.running, e.1 ∈ s.started := by
      intro e he
      apply x.runSub.subset
      rw [← ag.running]; exact List.mem_map_of_mem he
    refine ⟨{ b with transit := b.transit.erase tid, running := b.running ++ [(tid, t + pt)], startedL := b.startedL ++ [tid] },
      .work tid, .started, none, pt, ?_, ?_, ?_, ?_⟩
    · simp only [obsOf, hst, Book.apply, mkObs, ag.startedL, ag.transit, ag.acceptedL, hts, hord, List.drop_left]
      simp [hnotin]
    · simp only [obsOf, next, hst]; rfl
    · simp only [next, hst]
      refine ⟨ag.inQueue, ?_, by simp [ag.running], by simp [ag.startedL], ag.acceptedL, ag.nDrop, ag.nDone, ?_, ?_⟩
      · show b.transit.erase tid = transit rest
        rw [ag.transit, hts, htr]; simp
      · intro y hy
        show y.1 ∈ s.started ++ [tid]
        rcases List.mem_cons.mp hy with h | h
        · subst h; simp
        · exact List.mem_append_left _ (ag.dueStarted y h)
      · intro e he d hd
        rcases List.mem_append.mp he with he' | he'
        · have hne : e.1 ≠ tid := fun h => hnotin (h ▸ hsub e he')
          rcases List.mem_cons.mp hd with h | h
          · exact absurd (congrArg Prod.fst h) hne
          · exact ag.dueUniq e he' d h
        · have : e = (tid, t + pt) := by simpa using he'
          subst this
          rcases List.mem_cons.mp hd with h | h
          · exact congrArg Prod.snd h
          · exact absurd (ag.dueStarted _ h) hnotin
    · simp only [next, hst]
      exact ⟨x.accLen, x.nodup, List.Sublist.append x.runSub (List.Sublist.refl _)⟩
  · exact absurd (inv_work s inv hp).1 hnlt
  · rw [hbad] at hnb; exact absurd rfl hnb

theorem finish_ok (s : St) (b : Book) (due : Due) (t tid : Nat) (inv : Inv s) (x : Inv2 s) (ag : Agree b s due)
    (ok : lineOk s due (.finish t tid) = true) : StepOk s b due (.finish t tid) := by
  have ok' : due.contains (tid, t) = true ∧ (step s (.finish tid)).2 ≠ .bad := by simpa [lineOk] using ok
  obtain ⟨hdue, hnb⟩ := ok'
  have hbeq : ((step s (.finish tid)).2 == Res.bad) = false := by simpa using hnb
  have hobs : obsOf s due (.finish t tid) = mkObs (step s (.finish tid)).1 t (.finish tid) .none none 0 := by
    have hmem : (tid, t) ∈ due := by simpa using hdue
    simp [obsOf, hmem, hbeq]
  rcases step_finish_cases s tid with ⟨hrun, hst⟩ | hbad
  · have hmem : tid ∈ b.running.map (·.1) := by rw [ag.running]; exact hrun
    obtain ⟨e, hfind, he1, hel⟩ := find_fst b.running tid hmem
    have he2 : e.2 = t := by
      have := ag.dueUniq e hel t (by rw [he1]; simpa using hdue)
      exact this.symm
    have hnr : (b.running.map (·.1)).Nodup := by rw [ag.running]; exact running_nodup s inv x
    have ag1 : Agree { b with running := b.running.filter (·.1 != tid), nDone := b.nDone + 1 }
        { s with running := s.running.erase tid, active := s.active - 1, completed := s.completed + 1 } due := by
      refine ⟨ag.inQueue, ag.transit, ?_, ag.startedL, ag.acceptedL, ag.nDrop, by simp [ag.nDone], ag.dueStarted, ?_⟩
      · show (b.running.filter (·.1 != tid)).map (·.1) = s.running.erase tid
        rw [filter_fst_erase _ _ hnr, ag.running]
      · intro e' he' d hd
        exact ag.dueUniq e' (List.mem_filter.mp he').1 d hd
    have x1 : Inv2 { s with running := s.running.erase tid, active := s.active - 1, completed := s.completed + 1 } :=
      ⟨x.accLen, x.nodup, List.Sublist.trans List.erase_sublist x.runSub⟩
    refine ⟨{ b with running := b.running.filter (·.1 != tid), nDone := b.nDone + 1 }, .finish tid, .none, none, 0,
      ?_, ?_, ?_, ?_⟩
    · rw [hobs]
      simp only [Book.apply, mkObs]
      split
      · rename_i hnone; rw [hfind] at hnone; cases hnone
      · rename_i e' hsome
        rw [hfind] at hsome
        cases hsome
        simp [he2]
    · rw [hobs]; simp only [next, hdue]; rfl
    · simp only [next, hdue, hst]; exact agree_poll _ _ _ ag1
    · simp only [next, hdue, hst]; exact inv2_poll _ x1
  · rw [hbad] at hnb; exact absurd rfl hnb

theorem fin_ok (s : St) (b : Book) (due : Due) (t : Nat) (x : Inv2 s) (ag : Agree b s due)
    (ok : lineOk s due (.fin t) = true) (hq : quiet s = true) : StepOk s b due (.fin t) := by
  have hrun : s.running = [] := by simpa [lineOk] using ok
  have htr : transit s.pend = [] := by
    simp only [quiet, Bool.and_eq_true, List.isEmpty_iff] at hq
    exact hq.1
  have hbr : b.running = [] := by
    have := ag.running; rw [hrun] at this; simpa using this
  refine ⟨b, .fin, .none, none, 0, ?_, rfl, ag, x⟩
  simp only [obsOf, Book.apply, mkObs, ag.transit, htr, hbr]
  simp

/-- one schedule line -/
theorem line_ok (s : St) (b : Book) (due : Due) (l : Line) (inv : Inv s) (x : Inv2 s) (ag : Agree b s due)
    (ok : lineOk s due l = true) (hq : l.isFin = true → quiet s = true) : StepOk s b due l := by
  cases l with
  | submit t tid => exact submit_ok s b due t tid x ag ok
  | notify t => exact notify_ok s b due t x ag ok
  | poll t => exact poll_ok s b due t x ag ok
  | deliver t => exact deliver_ok s b due t inv x ag ok
  | work t tid pt => exact work_ok s b due t tid pt inv x ag ok
  | finish t tid => exact finish_ok s b due t tid inv x ag ok
  | disp t => exact disp_ok s b due t x ag ok
  | fin t => exact fin_ok s b due t x ag ok (hq rfl)

end HappyModel.C09.TPool
