import HappyProofs.C09.ThreadPoolStep
/-!
# C09 — the ThreadPool model's own transcript satisfies the executable Spec judge

`TPool.judge` (`HappyModel/C09/ThreadPool.lean`) is the predicate that judges *implementation* transcripts
(`judge-tpool` mode of the driver).  Here: on the transcript the *model* prints for a schedule
(`TPool.obsTrace`, see `ThreadPoolTrace.lean`), it answers `none`, for every worker count, queue capacity and
every well-formed schedule (`TPool.wf`).

`wf` is a decidable predicate over (initial state, schedule).  Every conjunct is needed — the judge *rejects*
the model's transcript of a schedule that violates it (examples at the end of this file):

* `lineOk` on internal deliveries / `finish`: a delivery that is not the head of `pend`, a `finish` of a task
  that is not running or at a clock value other than start + processing time is not a behaviour of the
  engine; the driver prints `!unexpected` (or `res=!bad`), which the judge cannot read.
* `lineOk` on `submit`: an *accepted* task id is new (`tpool/task/accepted-twice` otherwise; the judge
  identifies tasks by id).  A dropped id may be submitted again.
* `lineOk` on `fin`: no task is in service (`tpool/task/never-finished`).
* `quiet` after the last line of an instant and at `fin`: the judge's `settled` checks (`tpool/task/lost`,
  `tpool/head/grantable-but-blocked`) state that an instant leaves no task between queue and worker and no
  queued task next to a free worker; the engine delivers every same-instant internal event before the clock
  advances, a schedule that advances the clock earlier is not an engine behaviour.  `drained` (nothing
  pending inside the pool) is the natural sufficient condition, see `wfDrained_wf`.

No monotonicity of the clock values is needed.
-/
namespace HappyModel.C09.TPool

theorem poll_qcap' (s : St) : (pollIfReady s).1.qcap = s.qcap := poll_qcap s

theorem step_qcap (s : St) (o : Op) : (step s o).1.qcap = s.qcap := by
  cases o with
  | submit tid =>
    cases hf : full s with
    | true => rw [step_submit_full s tid hf]
    | false => rw [step_submit_room s tid hf]
  | notify =>
    rcases step_notify_cases s with ⟨rest, _, hst⟩ | hbad
    · rw [hst, poll_qcap]
    · rw [hbad]
  | poll =>
    rcases step_poll_cases s with ⟨rest, _, _, hst⟩ | ⟨rest, t, q, _, _, hst⟩ | hbad
    · rw [hst]
    · rw [hst]
    · rw [hbad]
  | deliver =>
    rcases step_deliver_cases s with ⟨rest, _, _, hst⟩ | ⟨rest, _, hst⟩ | ⟨t, rest, _, hst⟩ | hbad
    · rw [hst, poll_qcap]
    · rw [hst]
    · rw [hst]
    · rw [hbad]
  | work tid =>
    simp only [step]
    split
    · split
      · rfl
      · split
        · rfl
        · exact poll_qcap _
    · rfl
  | finish tid =>
    rcases step_finish_cases s tid with ⟨_, hst⟩ | hbad
    · rw [hst, poll_qcap]
    · rw [hbad]
  | disp =>
    rcases step_disp_cases s with ⟨rest, _, hst⟩ | hbad
    · rw [hst, poll_qcap]
    · rw [hbad]

theorem next_n (s : St) (due : Due) (l : Line) : (next s due l).1.n = s.n := by
  cases l <;> simp only [next] <;> try exact step_n _ _
  split
  · exact step_n _ _
  · rfl

theorem next_qcap (s : St) (due : Due) (l : Line) : (next s due l).1.qcap = s.qcap := by
  cases l <;> simp only [next] <;> try exact step_qcap _ _
  split
  · exact step_qcap _ _
  · rfl

theorem next_inv (s : St) (due : Due) (l : Line) (inv : Inv s) : Inv (next s due l).1 := by
  cases l <;> simp only [next] <;> try exact step_inv _ _ inv
  · split
    · exact step_inv _ _ inv
    · exact inv
  · exact inv

theorem obsOf_t (s : St) (due : Due) (l : Line) : (obsOf s due l).t = l.time := by
  cases l <;> simp only [obsOf] <;> repeat' split
  all_goals rfl

theorem obsOf_fin (s : St) (due : Due) (l : Line) : ((obsOf s due l).k == Kind.fin) = l.isFin := by
  cases l <;> simp only [obsOf] <;> repeat' split
  all_goals rfl

theorem settled_eq (s : St) (due : Due) (l : Line) (s' : St) (due' : Due) (ls : List Line) :
    isSettled (obsOf s due l) (obsTrace s' due' ls) = lastOfInstant l ls := by
  cases ls with
  | nil => rfl
  | cons l' ls' => simp only [obsTrace, isSettled, lastOfInstant, obsOf_t, obsOf_fin]

/-- the judge accepts the model's transcript from any state its books agree with -/
theorem judge_model (s : St) (b : Book) (due : Due) (ls : List Line) (inv : Inv s) (x : Inv2 s) (ag : Agree b s due)
    (h : wf s due ls = true) : judge s.n s.qcap b (obsTrace s due ls) = none := by
  induction ls generalizing s b due with
  | nil => rfl
  | cons l ls ih =>
    simp only [wf, Bool.and_eq_true] at h
    obtain ⟨⟨hok, hq⟩, hwf⟩ := h
    have hq' : (l.isFin || lastOfInstant l ls) = true → quiet (next s due l).1 = true := by
      intro hs; rw [hs] at hq; simpa using hq
    have hfin : l.isFin = true → quiet s = true := by
      intro hf
      have h1 := hq' (by rw [hf]; rfl)
      cases l <;> first | exact h1 | cases hf
    obtain ⟨b', k, res, item, pt, hap, hobs, hag, hx⟩ := line_ok s b due l inv x ag hok hfin
    have inv' := next_inv s due l inv
    have hcc : b'.check s.n ((obsOf s due l).k == Kind.fin || isSettled (obsOf s due l)
        (obsTrace (next s due l).1 (next s due l).2 ls)) (obsOf s due l) = none := by
      rw [settled_eq, obsOf_fin, hobs]
      have := check_ok (next s due l).1 b' (next s due l).2 (l.isFin || lastOfInstant l ls) l.time k res item pt
        inv' hx hag hq'
      rw [next_n] at this
      exact this
    simp only [obsTrace, judge, hap, hcc]
    have := ih (next s due l).1 b' (next s due l).2 inv' hx hag hwf
    rw [next_n, next_qcap] at this
    exact this

end HappyModel.C09.TPool

/-! ### `drained` — nothing pending inside the pool at the end of an instant — is sufficient for `quiet` -/
namespace HappyModel.C09.TPool

theorem quiet_of_drained (s : St) (inv : Inv s) (lv : Live s) (h : drained s = true) : quiet s = true := by
  have hp : s.pend = [] := by simpa [drained] using h
  have hc : core s.pend = [] := by rw [hp]; rfl
  have hb := inv.bound
  by_cases hq : s.queue = []
  · simp [quiet, hp, hq, transit]
  · by_cases hlt : s.active < s.n
    · exfalso
      rcases lv hq hlt with h' | h'
      · rw [hp] at h'; cases h'
      · rcases inv.shape with g | g | g | g | g | g
        · have := g.1; rw [h'.1] at this; cases this
        · rw [hc] at g; cases g.2.2
        · rw [hc] at g; cases g.2
        · obtain ⟨_, _, t, ht⟩ := g; rw [hc] at ht; cases ht
        · obtain ⟨_, _, t, ht⟩ := g; rw [hc] at ht; cases ht
        · rw [hc] at g; cases g.2
    · have : s.n ≤ s.active := by omega
      simp [quiet, hp, transit, this]

theorem next_live (s : St) (due : Due) (l : Line) (inv : Inv s) (lv : Live s) : Live (next s due l).1 := by
  cases l <;> simp only [next] <;> try exact step_live _ _ inv lv
  · split
    · exact step_live _ _ inv lv
    · exact lv
  · exact lv

/-- `wf` with the stronger, simpler end-of-instant condition -/
def wfDrained (s : St) (due : Due) : List Line → Bool
  | [] => true
  | l :: ls =>
    lineOk s due l
    && (!(l.isFin || lastOfInstant l ls) || drained (next s due l).1)
    && wfDrained (next s due l).1 (next s due l).2 ls

theorem wfDrained_wf (s : St) (due : Due) (ls : List Line) (inv : Inv s) (lv : Live s)
    (h : wfDrained s due ls = true) : wf s due ls = true := by
  induction ls generalizing s due with
  | nil => rfl
  | cons l ls ih =>
    simp only [wfDrained, Bool.and_eq_true] at h
    obtain ⟨⟨hok, hq⟩, hwf⟩ := h
    have inv' := next_inv s due l inv
    have lv' := next_live s due l inv lv
    simp only [wf, Bool.and_eq_true]
    refine ⟨⟨hok, ?_⟩, ih _ _ inv' lv' hwf⟩
    cases hs : (l.isFin || lastOfInstant l ls) with
    | false => rfl
    | true =>
      rw [hs] at hq
      exact quiet_of_drained _ inv' lv' (by simpa using hq)

end HappyModel.C09.TPool

namespace HappyModel.C09
open TPool

/-- **The ThreadPool model's own transcript satisfies the executable Spec predicate.**  For every worker
    count, queue capacity and every well-formed schedule of deliveries (with their clock values and
    processing times, as the driver reads them), `TPool.judge` — the judge of implementation transcripts —
    answers `none` on what `runTPool` prints. -/
theorem tpool_trace_satisfies_spec (n : Nat) (qcap : Option Nat) (ls : List TPool.Line)
    (h : TPool.wf (tpInit n qcap) [] ls = true) :
    TPool.judge n qcap {} (TPool.obsTrace (tpInit n qcap) [] ls) = none :=
  TPool.judge_model (tpInit n qcap) {} [] ls (TPool.init_inv n qcap) (TPool.init_inv2 n qcap) (TPool.init_agree n qcap) h

/-- the same under the simpler hypothesis that every instant (and the run) ends with nothing pending inside the pool -/
theorem tpool_trace_satisfies_spec_drained (n : Nat) (qcap : Option Nat) (ls : List TPool.Line)
    (h : TPool.wfDrained (tpInit n qcap) [] ls = true) :
    TPool.judge n qcap {} (TPool.obsTrace (tpInit n qcap) [] ls) = none :=
  tpool_trace_satisfies_spec n qcap ls
    (TPool.wfDrained_wf _ _ ls (TPool.init_inv n qcap) (by intro hq; exact absurd rfl hq) h)

/-! ### non-vacuity -/

/-- one worker, queue capacity 1: task 0 starts at once (service 5); at clock 1 task 1 is queued while the
    worker is busy; at clock 2 task 2 is dropped (queue full); at clock 5 task 0 finishes, the completion hook
    polls and task 1 starts; it finishes at 8; the run ends quiescent -/
def tpDemo : List TPool.Line :=
  [.submit 0 0, .notify 0, .poll 0, .deliver 0, .work 0 0 5, .disp 0,
   .submit 1 1, .notify 1, .submit 2 2,
   .finish 5 0, .poll 5, .deliver 5, .work 5 1 3, .disp 5,
   .finish 8 1, .poll 8, .deliver 8, .fin 0]

set_option maxRecDepth 8000 in
example : TPool.wf (tpInit 1 (some 1)) [] tpDemo = true
    ∧ TPool.wfDrained (tpInit 1 (some 1)) [] tpDemo = true
    ∧ TPool.judge 1 (some 1) {} (TPool.obsTrace (tpInit 1 (some 1)) [] tpDemo) = none := by decide

set_option maxRecDepth 8000 in
example : ((TPool.obsTrace (tpInit 1 (some 1)) [] tpDemo).map (fun o => (o.q, o.aw, o.drop, o.done)))
    = [(1,0,0,0), (1,0,0,0), (0,0,0,0), (0,0,0,0), (0,1,0,0), (0,1,0,0),
       (1,1,0,0), (1,1,0,0), (1,1,1,0),
       (1,0,1,1), (0,0,1,1), (0,0,1,1), (0,1,1,1), (0,1,1,1),
       (0,0,1,2), (0,0,1,2), (0,0,1,2), (0,0,1,2)] := by decide

/-! ### the judge is not vacuous: it rejects bad transcripts -/

/-- a hand-written transcript, one worker: task 0 is started (accepted by the judge up to here: `tpBad.take 6`),
    task 1 is accepted while the worker is busy — and a broken driver polls it out of the queue anyway -/
def tpBad : List TPool.Obs :=
  [{ t := 0, k := .submit 0, res := .accepted, aw := 0, iw := 1, q := 1, acc := 1, cap := true },
   { t := 0, k := .notify, res := .polled, aw := 0, iw := 1, q := 1, acc := 1, cap := true },
   { t := 0, k := .poll, res := .item, item := some 0, aw := 0, iw := 1, q := 0, acc := 1, cap := true },
   { t := 0, k := .deliver, res := .item, item := some 0, aw := 0, iw := 1, q := 0, acc := 1, cap := true },
   { t := 0, k := .work 0, res := .started, pt := 5, aw := 1, iw := 0, q := 0, acc := 1 },
   { t := 0, k := .disp, res := .idle, aw := 1, iw := 0, q := 0, acc := 1 },
   { t := 1, k := .submit 1, res := .accepted, aw := 1, iw := 0, q := 1, acc := 2 },
   { t := 1, k := .notify, res := .polled, aw := 1, iw := 0, q := 1, acc := 2 },
   { t := 1, k := .poll, res := .item, item := some 1, aw := 1, iw := 0, q := 0, acc := 2 },
   { t := 1, k := .deliver, res := .item, item := some 1, aw := 1, iw := 0, q := 0, acc := 2 }]

example : TPool.judge 1 none {} (tpBad.take 6) = none := by decide

/-- over-admission: a second task is started on the only worker -/
example : TPool.judge 1 none {}
    (tpBad ++ [{ t := 1, k := .work 1, res := .started, pt := 3, aw := 2, iw := 0, q := 0, acc := 2 }])
    = some "tpool/active/exceeds-workers" := by decide

/-- a lost task: the worker adapter finds no free slot and counts the task as rejected -/
example : TPool.judge 1 none {}
    (tpBad ++ [{ t := 1, k := .work 1, res := .rejected, pt := 3, aw := 1, iw := 0, q := 0, acc := 2, rej := 1 }])
    = some "tpool/task/lost" := by decide

/-- a leak: the instant ends with a queued task next to a free worker -/
example : TPool.judge 1 none {}
    [{ t := 0, k := .submit 0, res := .accepted, aw := 0, iw := 1, q := 1, acc := 1, cap := true },
     { t := 0, k := .notify, res := .idle, aw := 0, iw := 1, q := 1, acc := 1, cap := true }]
    = some "tpool/head/grantable-but-blocked" := by decide

/-! ### every conjunct of `wf` is needed: the judge rejects the model's transcript of a schedule without it -/

/-- the clock advances while the queue's notification is still pending -/
example : TPool.wf (tpInit 1 none) [] [.submit 0 0, .notify 1] = false
    ∧ TPool.judge 1 none {} (TPool.obsTrace (tpInit 1 none) [] [.submit 0 0, .notify 1])
      = some "tpool/head/grantable-but-blocked" := by decide

/-- the clock advances in the middle of the driver's round trip -/
example : TPool.judge 1 none {} (TPool.obsTrace (tpInit 1 none) []
    [.submit 0 0, .notify 0, .poll 0, .deliver 1, .work 1 0 5, .disp 1]) = some "tpool/task/lost" := by decide

/-- the same task id accepted twice -/
example : TPool.judge 1 none {} (TPool.obsTrace (tpInit 1 none) [] [.submit 0 0, .submit 0 0])
    = some "tpool/task/accepted-twice" := by decide

/-- an internal delivery that is not the head of `pend` (`poll 0 !unexpected`) -/
example : TPool.judge 1 none {} (TPool.obsTrace (tpInit 1 none) [] [.poll 0]) = some "tpool/unknown-observation" := by
  decide

/-- a `finish` at a clock value other than start + processing time (`finish 4 0 !unexpected-time`) -/
example : TPool.judge 1 none {} (TPool.obsTrace (tpInit 1 none) []
    [.submit 0 0, .notify 0, .poll 0, .deliver 0, .work 0 0 5, .disp 0, .finish 4 0]) = some "tpool/task/service-time" := by
  decide

/-- the run ends while a task is in service -/
example : TPool.judge 1 none {} (TPool.obsTrace (tpInit 1 none) []
    [.submit 0 0, .notify 0, .poll 0, .deliver 0, .work 0 0 5, .disp 0, .fin 0]) = some "tpool/task/never-finished" := by
  decide

end HappyModel.C09
