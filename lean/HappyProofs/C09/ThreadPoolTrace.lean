import HappyProofs.C09.ExtraProps
/-!
# ThreadPool: the model's own transcript, as the Spec judge reads it

`HappyModel.C09.Extra.runTPool` walks a list of schedule lines (`submit t tid`, `notify t`, `poll t`,
`deliver t`, `work t tid pt`, `finish t tid`, `disp t`, `fin t`), keeps the model state and the list `due`
of `(task, clock value at which its service ends)` and prints one transcript line per schedule line;
`parseTObs` reads such a line back into a `TPool.Obs` and `judgeTPool` hands the list to `TPool.judge`.

`Line` is one schedule line, `next` the state transformer of `runTPool.go`, `obsOf` the observation
`parseTObs` reads from the line `runTPool.go` prints, `obsTrace` the whole transcript.  Counters are those of
the model's state *after* the delivery (`tcnt r.1`), exactly as printed.

Lines printed with a `!unexpected…` marker (a delivery the model answers with `.bad`, a `finish` that is not
due) carry no `res=` and no counters: `parseTObs` reads them as the bare observation `{ t, k }` (all
counters 0); that is what `obsOf` returns for them.  (`notify`/`disp` with a `.bad` answer are printed as
`res=!bad`, which `parseTObs` refuses altogether: `judgeTPool` answers `tpool/malformed-judge-input`.  The
well-formedness predicate `wf` below excludes all of these.)
-/
namespace HappyModel.C09.TPool

/-- one schedule line of the `tpool` driver mode -/
inductive Line
  | submit (t tid : Nat) | notify (t : Nat) | poll (t : Nat) | deliver (t : Nat)
  | work (t tid pt : Nat) | finish (t tid : Nat) | disp (t : Nat) | fin (t : Nat)
deriving Repr, DecidableEq

abbrev Due := List (Nat × Nat)

def Line.time : Line → Nat
  | .submit t _ | .notify t | .poll t | .deliver t | .work t _ _ | .finish t _ | .disp t | .fin t => t

def Line.isFin : Line → Bool
  | .fin _ => true
  | _ => false

/-- a transcript line with `res=`/`item=` and the counters `tcnt s` -/
def mkObs (s : St) (t : Nat) (k : Kind) (res : ORes) (item : Option Nat) (pt : Nat) : Obs :=
  { t := t, k := k, res := res, item := item, pt := pt, aw := s.active, iw := s.n - s.active, q := s.queue.length,
    acc := s.accepted, drop := s.dropped, done := s.completed, rej := s.rejected, cap := decide (s.active < s.n) }

/-- a `!unexpected` line: no `res=`, no counters -/
def bareObs (t : Nat) (k : Kind) (pt : Nat) : Obs := { t := t, k := k, pt := pt }

/-- the state transformer of `runTPool.go` -/
def next (s : St) (due : Due) : Line → St × Due
  | .submit _ tid => ((step s (.submit tid)).1, due)
  | .notify _ => ((step s .notify).1, due)
  | .poll _ => ((step s .poll).1, due)
  | .deliver _ => ((step s .deliver).1, due)
  | .work t tid pt => ((step s (.work tid)).1, (tid, t + pt) :: due)
  | .finish t tid => if due.contains (tid, t) then ((step s (.finish tid)).1, due) else (s, due)
  | .disp _ => ((step s .disp).1, due)
  | .fin _ => (s, due)

/-- what `parseTObs` reads from the line `runTPool.go` prints -/
def obsOf (s : St) (due : Due) : Line → Obs
  | .submit t tid =>
    match (step s (.submit tid)).2 with
    | .accepted _ => mkObs (step s (.submit tid)).1 t (.submit tid) .accepted none 0
    | _ => mkObs (step s (.submit tid)).1 t (.submit tid) .dropped none 0
  | .notify t =>
    match (step s .notify).2 with
    | .polled => mkObs (step s .notify).1 t .notify .polled none 0
    | .idle => mkObs (step s .notify).1 t .notify .idle none 0
    | _ => bareObs t .notify 0
  | .poll t =>
    match (step s .poll).2 with
    | .item i => mkObs (step s .poll).1 t .poll .item i 0
    | _ => bareObs t .poll 0
  | .deliver t =>
    match (step s .deliver).2 with
    | .item i => mkObs (step s .deliver).1 t .deliver .item i 0
    | .polled => mkObs (step s .deliver).1 t .deliver .polled none 0
    | .idle => mkObs (step s .deliver).1 t .deliver .idle none 0
    | _ => bareObs t .deliver 0
  | .work t tid pt =>
    match (step s (.work tid)).2 with
    | .started => mkObs (step s (.work tid)).1 t (.work tid) .started none pt
    | .rejected => mkObs (step s (.work tid)).1 t (.work tid) .rejected none pt
    | _ => bareObs t (.work tid) pt
  | .finish t tid =>
    if !due.contains (tid, t) then bareObs t (.finish tid) 0
    else if (step s (.finish tid)).2 == .bad then bareObs t (.finish tid) 0
    else mkObs (step s (.finish tid)).1 t (.finish tid) .none none 0
  | .disp t =>
    match (step s .disp).2 with
    | .polled => mkObs (step s .disp).1 t .disp .polled none 0
    | .idle => mkObs (step s .disp).1 t .disp .idle none 0
    | _ => bareObs t .disp 0
  | .fin t => mkObs s t .fin .none none 0

/-- the model's transcript -/
def obsTrace (s : St) (due : Due) : List Line → List Obs
  | [] => []
  | l :: ls => obsOf s due l :: obsTrace (next s due l).1 (next s due l).2 ls

/-! ### which schedules the judge can accept -/

/-- the line is a behaviour of the engine: an internal delivery is the head of `pend` and a `finish` is due
    and of a running task (no `!unexpected` line); a task id is accepted once; `fin` only when no task is in
    service -/
def lineOk (s : St) (due : Due) : Line → Bool
  | .submit _ tid => (step s (.submit tid)).2 == .dropped || !s.acceptedL.contains tid
  | .notify _ => (step s .notify).2 != .bad
  | .poll _ => (step s .poll).2 != .bad
  | .deliver _ => (step s .deliver).2 != .bad
  | .work _ tid _ => (step s (.work tid)).2 != .bad
  | .finish t tid => due.contains (tid, t) && (step s (.finish tid)).2 != .bad
  | .disp _ => (step s .disp).2 != .bad
  | .fin _ => s.running.isEmpty

/-- is `l` the last line of its instant (`isSettled`)? -/
def lastOfInstant (l : Line) : List Line → Bool
  | [] => true
  | l' :: _ => l'.isFin || l'.time != l.time

/-- what an instant must leave behind: no task between the queue and a worker, and no queued task next to a
    free worker -/
def quiet (s : St) : Bool :=
  (transit s.pend).isEmpty && (s.queue.isEmpty || decide (s.n ≤ s.active))

/-- well-formed schedule: every line is a behaviour of the engine and the clock only advances (and the run
    only ends) when the instant's internal deliveries have been made -/
def wf (s : St) (due : Due) : List Line → Bool
  | [] => true
  | l :: ls =>
    lineOk s due l
    && (!(l.isFin || lastOfInstant l ls) || quiet (next s due l).1)
    && wf (next s due l).1 (next s due l).2 ls

/-- the natural sufficient condition for `quiet`: nothing is pending inside the pool -/
def drained (s : St) : Bool := s.pend.isEmpty

end HappyModel.C09.TPool
