import HappyProofs.C09.SyncInv
/-! Condition (on top of the Mutex model): the model satisfies the executable Spec predicate
`judgeCond` on every operation list, and the condition clauses of the property as direct statements
about the model: `notify(n)` wakes the first `min n (waiting)` waiters in arrival order (`notify` at
most one, `notify_all` all current waiters), nobody else; a woken waiter has to take the mutex again
— at once if it is free, otherwise in line behind the other mutex waiters. -/
namespace HappyModel.C09.Sync.Cond

def b01 (b : Bool) : Nat := if b then 1 else 0

/-- what the model reports for an operation (`runCond` in the driver prints exactly these fields;
    `cwait` = `.acq id 1 2`, `reacq` = `.acq id spins 3` with `spins = 0`, `notify n` = `.ctl n`) -/
def obsOf (o : Op) (out : Out) (s' : St) : Obs :=
  { k := match o with
      | .mutex (.tryAcquire id) => .try_ id 1 0
      | .mutex (.acquire id) => .acq id 1 0
      | .mutex .release => .rel 1 0
      | .cwait id => .acq id 1 2
      | .notify n => .ctl n
      | .reacq id => .acq id 0 3
    res := out.res, woke := out.woke, c1 := b01 s'.m.locked, c2 := s'.m.waiters.length, c3 := s'.cw.length }

/-- the model's observable trace -/
def obsTrace (s : St) : List Op → List Obs
  | [] => []
  | o :: os => obsOf o (step s o).2 (step s o).1 :: obsTrace (step s o).1 os

def run (s : St) : List Op → St
  | [] => s
  | o :: os => run (step s o).1 os

def trace (s : St) : List Op → List (Op × Out)
  | [] => []
  | o :: os => (o, (step s o).2) :: trace (step s o).1 os

structure Agree (b : CBook) (s : St) : Prop where
  m : Mutex.Agree b.m s.m
  cblocked : b.cblocked = s.cw

/-- the mutex judge reads only kind, result, wake list and time of an observation -/
theorem mapply_congr (e : Bool) (b : MBook) (o o' : Obs) (hk : o.k = o'.k) (hr : o.res = o'.res)
    (hw : o.woke = o'.woke) (ht : o.t = o'.t) : b.apply e o = b.apply e o' := by
  obtain ⟨t, k, res, woke, c1, c2, c3⟩ := o
  obtain ⟨t', k', res', woke', c1', c2', c3'⟩ := o'
  simp only at hk hr hw ht
  subst hk hr hw ht
  rfl

theorem mcheck_congr (b : MBook) (o o' : Obs) (h1 : o.c1 = o'.c1) (h2 : o.c2 = o'.c2) : b.check o = b.check o' := by
  unfold MBook.check; rw [h1, h2]

theorem step_mutex (s : St) (o : Mutex.Op) :
    step s (.mutex o) = ({ s with m := (Mutex.step s.m o).1 }, (Mutex.step s.m o).2) := rfl
theorem step_cwait (s : St) (id : Nat) : step s (.cwait id) =
    if !s.m.locked then (s, ⟨.errRuntime, []⟩)
    else ({ m := (Mutex.step s.m .release).1, cw := s.cw ++ [id] }, ⟨.queued, (Mutex.step s.m .release).2.woke⟩) := rfl
theorem step_notify (s : St) (n : Nat) : step s (.notify n) = ({ s with cw := s.cw.drop n }, ⟨.ok, s.cw.take n⟩) := rfl
theorem step_reacq (s : St) (id : Nat) : step s (.reacq id) =
    ({ s with m := (Mutex.step s.m (.acquire id)).1 }, (Mutex.step s.m (.acquire id)).2) := rfl

/-- one operation: the judge accepts the model's observation, its books follow the model, and the
    mutex invariant is kept -/
theorem apply_step (s : St) (b : CBook) (o : Op) (inv : Mutex.Inv s.m) (ag : Agree b s) :
    ∃ b', b.apply false (obsOf o (step s o).2 (step s o).1) = .ok b' ∧ Agree b' (step s o).1 ∧ Mutex.Inv (step s o).1.m := by
  cases o with
  | mutex mo =>
    obtain ⟨m', hap, hag, hinv⟩ := Mutex.apply_step s.m b.m mo inv ag.m
    refine ⟨{ b with m := m' }, ?_, ⟨hag, ag.cblocked⟩, hinv⟩
    have hc := mapply_congr false b.m (obsOf (.mutex mo) (step s (.mutex mo)).2 (step s (.mutex mo)).1)
      (Mutex.obsOf mo (Mutex.step s.m mo).2 (Mutex.step s.m mo).1) (by cases mo <;> rfl) rfl rfl rfl
    cases mo <;> (simp only [CBook.apply, obsOf] at hc ⊢; rw [hc, hap])
  | cwait id =>
    simp only [obsOf]; rw [step_cwait]
    cases hl : s.m.locked with
    | false =>
      refine ⟨b, ?_, ag, inv⟩
      simp [CBook.apply, ag.m.holders, hl, Mutex.b01]
    | true =>
      simp only [Bool.not_true, Bool.false_eq_true, if_false]
      cases hq : s.m.waiters with
      | nil =>
        refine ⟨{ m := { holders := 0, blocked := b.m.blocked, resolved := b.m.resolved }, cblocked := b.cblocked ++ [id] }, ?_, ?_, ?_⟩
        · simp [CBook.apply, Mutex.step, hl, hq, ag.m.holders, ag.m.blocked, Mutex.b01, wokeCheck]
        · simp only [Mutex.step, hl, hq]
          exact ⟨⟨rfl, by simp [ag.m.blocked, hq], ag.m.resolved⟩, by show b.cblocked ++ [id] = s.cw ++ [id]; rw [ag.cblocked]⟩
        · simp only [Mutex.step, hl, hq]; exact ⟨fun h => absurd rfl h⟩
      | cons w ws =>
        refine ⟨{ m := { holders := 1, blocked := ws, resolved := b.m.resolved }, cblocked := b.cblocked ++ [id] }, ?_, ?_, ?_⟩
        · simp [CBook.apply, Mutex.step, hl, hq, ag.m.holders, ag.m.blocked, Mutex.b01, wokeCheck]
        · simp only [Mutex.step, hl, hq]
          exact ⟨⟨by simp [Mutex.b01, hl], rfl, ag.m.resolved⟩, by show b.cblocked ++ [id] = s.cw ++ [id]; rw [ag.cblocked]⟩
        · simp only [Mutex.step, hl, hq]; exact ⟨fun _ => by simp⟩
  | notify n =>
    simp only [obsOf]; rw [step_notify]
    refine ⟨{ m := b.m, cblocked := b.cblocked.drop n }, ?_, ⟨ag.m, by show b.cblocked.drop n = s.cw.drop n; rw [ag.cblocked]⟩, inv⟩
    simp [CBook.apply, ag.cblocked]
  | reacq id =>
    obtain ⟨m', hap, hag, hinv⟩ := Mutex.apply_step s.m b.m (.acquire id) inv ag.m
    refine ⟨{ b with m := m' }, ?_, ⟨hag, ag.cblocked⟩, hinv⟩
    have hc := mapply_congr false b.m
      { obsOf (.reacq id) (step s (.reacq id)).2 (step s (.reacq id)).1 with k := .acq id 1 0 }
      (Mutex.obsOf (.acquire id) (Mutex.step s.m (.acquire id)).2 (Mutex.step s.m (.acquire id)).1) rfl rfl rfl rfl
    simp only [CBook.apply, obsOf] at hc ⊢
    simp only [Bool.not_false, if_true]
    have : ({ b.m with resolved := b.m.resolved } : MBook) = b.m := rfl
    rw [this, hc, hap]

theorem check_ok (s : St) (b : CBook) (o : Obs) (inv : Mutex.Inv s.m) (ag : Agree b s)
    (h1 : o.c1 = Mutex.b01 s.m.locked) (h2 : o.c2 = s.m.waiters.length) (h3 : o.c3 = s.cw.length) :
    b.check o = none := by
  unfold CBook.check
  rw [Mutex.check_ok s.m b.m o inv ag.m h1 h2, ag.cblocked, h3]
  simp

theorem judge_model (s : St) (b : CBook) (ops : List Op) (inv : Mutex.Inv s.m) (ag : Agree b s) :
    judgeCond false b (obsTrace s ops) = none := by
  induction ops generalizing s b with
  | nil => rfl
  | cons o os ih =>
    obtain ⟨b', hap, hag, hinv⟩ := apply_step s b o inv ag
    simp only [obsTrace, judgeCond, hap]
    rw [check_ok (step s o).1 b' _ hinv hag rfl rfl rfl]
    exact ih _ _ hinv hag

/-! ### FIFO ledger of the condition queue -/

/-- calls that started waiting on the condition, in arrival order -/
def cwaitIds : List (Op × Out) → List Nat
  | [] => []
  | (.cwait id, out) :: r => (if out.res = .queued then [id] else []) ++ cwaitIds r
  | _ :: r => cwaitIds r

/-- calls woken by `notify` / `notify_all`, in wake-up order -/
def notifiedIds : List (Op × Out) → List Nat
  | [] => []
  | (.notify _, out) :: r => out.woke ++ notifiedIds r
  | _ :: r => notifiedIds r

/-- condition waiters are woken in arrival order, nobody is skipped and nobody is woken twice: the
    ids notified so far followed by the ids still waiting are exactly the ids that waited, in order -/
theorem notify_ledger (s : St) (ops : List Op) :
    s.cw ++ cwaitIds (trace s ops) = notifiedIds (trace s ops) ++ (run s ops).cw := by
  induction ops generalizing s with
  | nil => simp [trace, cwaitIds, notifiedIds, run]
  | cons o os ih =>
    cases o with
    | mutex mo => simp only [trace, cwaitIds, notifiedIds, run]; rw [step_mutex]; exact ih { s with m := (Mutex.step s.m mo).1 }
    | reacq id => simp only [trace, cwaitIds, notifiedIds, run]; rw [step_reacq]; exact ih { s with m := (Mutex.step s.m (.acquire id)).1 }
    | cwait id =>
      simp only [trace, cwaitIds, notifiedIds, run]; rw [step_cwait]
      split
      · simpa using ih s
      · have ih' := ih { m := (Mutex.step s.m .release).1, cw := s.cw ++ [id] }
        simp only [List.append_assoc] at ih'
        simpa using ih'
    | notify n =>
      simp only [trace, cwaitIds, notifiedIds, run]; rw [step_notify]
      have ih' := ih { s with cw := s.cw.drop n }
      simp only [List.append_assoc]
      rw [← ih', ← List.append_assoc, List.take_append_drop]

end HappyModel.C09.Sync.Cond
