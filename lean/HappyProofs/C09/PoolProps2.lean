import HappyProofs.C09.PoolAbandon
/-! Re-exports, in namespace `HappyModel.C09`, of the theorems about the connection-pool segments added to
the model (abandonment of an acquirer, idle-timeout closes, warm-up, the first waiter helping itself), so
that they can be audited by name next to the other C09 property theorems.  Statements are those of
`HappyProofs/C09/PoolAbandon.lean`, where each one is followed by a concrete instance. -/
namespace HappyModel.C09

/-- no slot and no connection leaks, whatever happens: for every interleaving of all nine segments
    (abandonments, idle closes, warm-up, double releases included) every counted slot is an active
    connection, an idle connection, an acquirer's set-up in flight or a warm-up set-up in flight, and the
    total stays within `max_connections` -/
theorem pool_no_leak_all_ops (max min : Nat) (h : min ≤ max) (ops : List Pool.Op) :
    (Pool.run { max := max, min := min } ops).active.length + (Pool.run { max := max, min := min } ops).idle.length
        + (Pool.run { max := max, min := min } ops).creators.length + (Pool.run { max := max, min := min } ops).wflight
      = (Pool.run { max := max, min := min } ops).total
    ∧ (Pool.run { max := max, min := min } ops).total ≤ max :=
  Pool.pool_no_leak_all_ops max min h ops

example : (Pool.run { max := 2, min := 1 }
      [.warm, .wmade, .warm, .acq 0, .acq 1, .acq 2, .abandon 1, .poll 2, .made 2, .rel 1, .acq 3, .rel 2,
       .abandon 3, .idleCheck 2 0, .timeout 9]).total = 1 := by decide

/-- an abandoned set-up gives its reserved slot back -/
theorem pool_abandon_returns_slot (s : Pool.St) (id : Nat) (inv : Pool.Inv s)
    (h : s.creators.contains id = true) :
    (Pool.step s (.abandon id)).2 = .rolledBack
    ∧ (Pool.step s (.abandon id)).1.total + 1 = s.total
    ∧ (Pool.step s (.abandon id)).1.creating + 1 = s.creating
    ∧ (Pool.step s (.abandon id)).1.active = s.active
    ∧ (Pool.step s (.abandon id)).1.idle = s.idle :=
  Pool.pool_abandon_returns_slot s id inv h

example : (Pool.run { max := 2 } [.acq 0, .made 0, .acq 1]).creators.contains 1 = true
    ∧ (Pool.step (Pool.run { max := 2 } [.acq 0, .made 0, .acq 1]) (.abandon 1)).1.total = 1 := by decide

/-- the first waiter takes capacity that came back without a release (an idle connection parked by
    warm-up, a slot returned by an abandoned set-up) at its next poll -/
theorem pool_head_helps_itself (s : Pool.St) (id : Nat) (hh : s.waiters.head? = some id)
    (hn : s.handed.find? (·.1 == id) = none) (hf : s.idle ≠ [] ∨ s.total < s.max) :
    (Pool.step s (.poll id)).2 ≠ .wait ∧ (Pool.step s (.poll id)).1.waiters = s.waiters.tail :=
  Pool.pool_head_helps_itself s id hh hn hf

example : (Pool.run { max := 1 } [.acq 0, .acq 1, .acq 2, .abandon 0]).waiters.head? = some 1
    ∧ (Pool.run { max := 1 } [.acq 0, .acq 1, .acq 2, .abandon 0]).total < 1
    ∧ (Pool.step (Pool.run { max := 1 } [.acq 0, .acq 1, .acq 2, .abandon 0]) (.poll 1)).2 = .creating := by decide

/-- an abandoned queued call leaves the queue -/
theorem pool_abandoned_waiter_leaves (s : Pool.St) (id : Nat) (hc : s.creators.contains id = false)
    (hn : s.handed.find? (·.1 == id) = none) : id ∉ (Pool.step s (.abandon id)).1.waiters :=
  Pool.pool_abandoned_waiter_leaves s id hc hn

example : 1 ∈ (Pool.run { max := 1 } [.acq 0, .acq 1, .acq 2]).waiters
    ∧ (Pool.step (Pool.run { max := 1 } [.acq 0, .acq 1, .acq 2]) (.abandon 1)).1.waiters = [2] := by decide

/-- a connection handed to a call that is abandoned before it notices is passed on: to the next waiter
    if there is one, to the idle list otherwise -/
theorem pool_abandoned_handoff_passed_on (s : Pool.St) (id c : Nat) (hc : s.creators.contains id = false)
    (hh : s.handed.find? (·.1 == id) = some (id, c)) (ha : s.active.contains c = true) :
    (∃ w ws, s.waiters = w :: ws
        ∧ (Pool.step s (.abandon id)).2 = .handoff w
        ∧ (Pool.step s (.abandon id)).1.waiters = ws
        ∧ (Pool.step s (.abandon id)).1.handed = s.handed.filter (·.1 != id) ++ [(w, c)]
        ∧ (w, c) ∈ (Pool.step s (.abandon id)).1.handed
        ∧ (Pool.step s (.abandon id)).1.active = s.active
        ∧ ∀ p ∈ (Pool.step s (.abandon id)).1.handed, p.1 = id → p = (w, c))
    ∨ (s.waiters = []
        ∧ (Pool.step s (.abandon id)).2 = .toIdle
        ∧ c ∈ (Pool.step s (.abandon id)).1.idle
        ∧ (Pool.step s (.abandon id)).1.handed = s.handed.filter (·.1 != id)
        ∧ ∀ p ∈ (Pool.step s (.abandon id)).1.handed, p.1 ≠ id) :=
  Pool.pool_abandoned_handoff_passed_on s id c hc hh ha

example : (Pool.run { max := 1 } [.acq 0, .made 0, .acq 1, .acq 2, .rel 1]).handed.find? (·.1 == 1) = some (1, 1)
    ∧ (Pool.step (Pool.run { max := 1 } [.acq 0, .made 0, .acq 1, .acq 2, .rel 1]) (.abandon 1)).2 = .handoff 2
    ∧ (Pool.step (Pool.run { max := 1 } [.acq 0, .made 0, .acq 1, .rel 1]) (.abandon 1)).2 = .toIdle := by decide

/-- the idle timeout closes only an idle connection, in the idle session its timer was armed for, and
    never below `min_connections` -/
theorem pool_idle_close_sound (s : Pool.St) (c e : Nat) (inv : Pool.Inv s)
    (h : (Pool.step s (.idleCheck c e)).2 = .closed) :
    c ∈ s.idle ∧ Pool.stampOf s.stamp c = some e ∧ s.min ≤ (Pool.step s (.idleCheck c e)).1.total
    ∧ (Pool.step s (.idleCheck c e)).1.active = s.active
    ∧ (Pool.step s (.idleCheck c e)).1.total + 1 = s.total
    ∧ (Pool.step s (.idleCheck c e)).1.idle = s.idle.erase c :=
  Pool.pool_idle_close_sound s c e inv h

example : (Pool.step (Pool.runAt { max := 2, min := 1 }
      [(0, .acq 0), (0, .acq 1), (1, .made 0), (1, .made 1), (5, .rel 1), (6, .rel 2)]) (.idleCheck 1 5)).2 = .closed := by
  decide

/-- warm-up stops at `min_connections` -/
theorem pool_warmup_stops_at_min (s : Pool.St) :
    ((Pool.step s .warm).2 = .done ↔ s.min ≤ s.total)
    ∧ (s.reserve = true → (Pool.step s .warm).2 = .creating → (Pool.step s .warm).1.total = s.total + 1) :=
  Pool.pool_warmup_stops_at_min s

example : (Pool.step { max := 3, min := 2 } .warm).2 = .creating
    ∧ (Pool.step (Pool.run { max := 3, min := 2 } [.warm, .wmade, .warm, .wmade]) .warm).2 = .done := by decide

end HappyModel.C09
