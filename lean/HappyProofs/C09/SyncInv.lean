import HappyModel.C09.SyncSpec
import HappyProofs.C09.ResourceInv
/-! Invariants of the RWLock, Semaphore and Mutex models, preserved by every operation. -/
namespace HappyModel.C09.Sync

/-! ### RWLock -/
namespace RW

/-- head of the line is not grantable -/
def HeadBlocked (s : St) : Prop :=
  ∀ w ws, s.waiters = w :: ws →
    (w.2 = true → (s.writer = true ∨ 0 < s.readers)) ∧
    (w.2 = false → (s.writer = true ∨ atMax s = true))

structure Inv (s : St) : Prop where
  excl : s.writer = true → s.readers = 0
  maxOk : s.maxR ≠ 0 → s.readers ≤ s.maxR
  head : HeadBlocked s

theorem init_inv (m : Nat) : Inv { maxR := m } :=
  ⟨by simp, by simp, by intro w ws h; simp at h⟩

theorem atMax_pos {s : St} (h : atMax s = true) : 0 < s.readers := by
  unfold atMax at h
  simp at h
  omega

/-- with the lock completely free nobody waits -/
theorem free_no_waiters {s : St} (inv : Inv s) (hw : s.writer = false) (hr : s.readers = 0) : s.waiters = [] := by
  cases hq : s.waiters with
  | nil => rfl
  | cons w ws =>
    have := inv.head w ws hq
    cases hb : w.2 with
    | true =>
      rcases this.1 hb with h | h
      · rw [hw] at h; cases h
      · omega
    | false =>
      rcases this.2 hb with h | h
      · rw [hw] at h; cases h
      · have := atMax_pos h; omega

/-- when a reader can be admitted at once nobody waits -/
theorem canRead_no_waiters {s : St} (inv : Inv s) (h : canRead s = true) : s.waiters = [] := by
  unfold canRead at h
  simp only [Bool.and_eq_true, Bool.not_eq_true'] at h
  obtain ⟨⟨hw, hany⟩, hmax⟩ := h
  cases hq : s.waiters with
  | nil => rfl
  | cons w ws =>
    have := inv.head w ws hq
    cases hb : w.2 with
    | true => rw [hq] at hany; simp [hb] at hany
    | false =>
      rcases this.2 hb with h | h
      · rw [hw] at h; cases h
      · rw [hmax] at h; cases h

/-- facts about the reader branch of the wake-up -/
theorem wakeReaders_spec (maxR : Nat) (r : Nat) (ws : List (Nat × Bool)) (hmax : maxR ≠ 0 → r ≤ maxR) :
    r ≤ (wakeReaders maxR r ws).1 ∧ (maxR ≠ 0 → (wakeReaders maxR r ws).1 ≤ maxR) ∧
    (∀ w rest, (wakeReaders maxR r ws).2.2 = w :: rest →
      w.2 = true ∨ (maxR ≠ 0 ∧ (wakeReaders maxR r ws).1 ≥ maxR)) := by
  induction ws generalizing r with
  | nil => exact ⟨Nat.le_refl _, hmax, by intro w rest h; simp [wakeReaders] at h⟩
  | cons w ws ih =>
    unfold wakeReaders
    split
    · rename_i hw
      refine ⟨Nat.le_refl _, hmax, ?_⟩
      intro w' rest h; simp at h; obtain ⟨rfl, _⟩ := h; exact Or.inl hw
    · split
      · rename_i hnw hm
        refine ⟨Nat.le_refl _, hmax, ?_⟩
        intro w' rest h; simp at h; obtain ⟨rfl, _⟩ := h
        simp at hm; exact Or.inr ⟨hm.1, hm.2⟩
      · rename_i hnw hm
        have hm' : maxR ≠ 0 → r + 1 ≤ maxR := by
          intro h0
          simp only [Bool.and_eq_true, bne_iff_ne, ne_eq, decide_eq_true_eq, not_and, Nat.not_le] at hm
          have := hm h0; omega
        have := ih (r + 1) hm'
        dsimp only
        exact ⟨by omega, this.2.1, this.2.2⟩

/-- if a reader heads the line, the wake-up leaves at least one active reader -/
theorem wakeReaders_pos (maxR : Nat) (r : Nat) (w : Nat × Bool) (ws : List (Nat × Bool))
    (hw : w.2 = false) (hmax : maxR ≠ 0 → r ≤ maxR) : 0 < (wakeReaders maxR r (w :: ws)).1 := by
  unfold wakeReaders
  simp only [hw, Bool.false_eq_true, if_false]
  split
  · rename_i hm
    simp only [Bool.and_eq_true, bne_iff_ne, ne_eq, decide_eq_true_eq] at hm
    show 0 < r
    omega
  · rename_i hm
    have hm' : maxR ≠ 0 → r + 1 ≤ maxR := by
      intro h0
      simp only [Bool.and_eq_true, bne_iff_ne, ne_eq, decide_eq_true_eq, not_and, Nat.not_le] at hm
      have := hm h0; omega
    have := (wakeReaders_spec maxR (r + 1) ws hm').1
    show 0 < (wakeReaders maxR (r + 1) ws).1
    omega

theorem wakeR_inv (s : St) (hw : s.writer = false) (maxOk : s.maxR ≠ 0 → s.readers ≤ s.maxR)
    (w : Nat × Bool) (ws : List (Nat × Bool)) (hq : s.waiters = w :: ws) (hwr : w.2 = false) : Inv (wakeR s).1 := by
  have sp := wakeReaders_spec s.maxR s.readers s.waiters maxOk
  have hpos : 0 < (wakeReaders s.maxR s.readers s.waiters).1 := by
    rw [hq]; exact wakeReaders_pos s.maxR s.readers w ws hwr maxOk
  unfold wakeR
  refine ⟨?_, sp.2.1, ?_⟩
  · intro h; rw [hw] at h; cases h
  · intro w' ws' h
    rcases sp.2.2 w' ws' h with hb | ⟨h0, hge⟩
    · exact ⟨fun _ => Or.inr hpos, fun hb' => by rw [hb] at hb'; cases hb'⟩
    · refine ⟨fun _ => Or.inr hpos, fun _ => Or.inr ?_⟩
      unfold atMax
      simp only [Bool.and_eq_true, bne_iff_ne, ne_eq, decide_eq_true_eq]
      exact ⟨h0, hge⟩

theorem wake_inv (s : St) (excl : s.writer = true → s.readers = 0) (maxOk : s.maxR ≠ 0 → s.readers ≤ s.maxR) :
    Inv (wake s).1 := by
  unfold wake
  split
  · rename_i hw
    exact ⟨excl, maxOk, by intro w ws h; exact ⟨fun _ => Or.inl hw, fun _ => Or.inl hw⟩⟩
  · rename_i hw
    have hw' : s.writer = false := by simpa using hw
    split
    · rename_i hq
      exact ⟨excl, maxOk, by intro w ws h; rw [hq] at h; cases h⟩
    · rename_i w ws hq
      split
      · rename_i hwr
        split
        · rename_i hr0
          have hr : s.readers = 0 := by simpa using hr0
          exact ⟨fun _ => hr, maxOk, by intro w' ws' h; exact ⟨fun _ => Or.inl rfl, fun _ => Or.inl rfl⟩⟩
        · rename_i hr0
          have hr : 0 < s.readers := by
            have : s.readers ≠ 0 := by simpa using hr0
            omega
          refine ⟨excl, maxOk, ?_⟩
          intro w' ws' h; rw [hq] at h; cases h
          exact ⟨fun _ => Or.inr hr, fun hb => by rw [hwr] at hb; cases hb⟩
      · rename_i hwr
        exact wakeR_inv s hw' maxOk w ws hq (by simpa using hwr)

theorem step_tryRead (s : St) (id : Nat) : step s (.tryRead id) =
    if canRead s then ({ s with readers := s.readers + 1 }, ⟨.granted, []⟩) else (s, ⟨.refused, []⟩) := rfl
theorem step_tryWrite (s : St) (id : Nat) : step s (.tryWrite id) =
    if canWrite s then ({ s with writer := true }, ⟨.granted, []⟩) else (s, ⟨.refused, []⟩) := rfl
theorem step_acquireRead (s : St) (id : Nat) : step s (.acquireRead id) =
    if canRead s then ({ s with readers := s.readers + 1 }, ⟨.granted, []⟩)
    else ({ s with waiters := s.waiters ++ [(id, false)] }, ⟨.queued, []⟩) := rfl
theorem step_acquireWrite (s : St) (id : Nat) : step s (.acquireWrite id) =
    if canWrite s then ({ s with writer := true }, ⟨.granted, []⟩)
    else ({ s with waiters := s.waiters ++ [(id, true)] }, ⟨.queued, []⟩) := rfl
theorem step_releaseRead (s : St) : step s .releaseRead =
    if s.readers < 1 then (s, ⟨.errRuntime, []⟩)
    else ((wake { s with readers := s.readers - 1 }).1, ⟨.released, (wake { s with readers := s.readers - 1 }).2⟩) := rfl
theorem step_releaseWrite (s : St) : step s .releaseWrite =
    if !s.writer then (s, ⟨.errRuntime, []⟩)
    else ((wake { s with writer := false }).1, ⟨.released, (wake { s with writer := false }).2⟩) := rfl

theorem grantR_inv (s : St) (inv : Inv s) (h : canRead s = true) : Inv { s with readers := s.readers + 1 } := by
  have hnw := canRead_no_waiters inv h
  unfold canRead at h
  simp only [Bool.and_eq_true, Bool.not_eq_true'] at h
  obtain ⟨⟨hw, _⟩, hmax⟩ := h
  refine ⟨?_, ?_, ?_⟩
  · intro h'
    have h'' : s.writer = true := h'
    rw [hw] at h''; cases h''
  · intro h0
    have h0' : s.maxR ≠ 0 := h0
    unfold atMax at hmax
    simp only [Bool.and_eq_false_iff, bne_eq_false_iff_eq, decide_eq_false_iff_not, Nat.not_le] at hmax
    show s.readers + 1 ≤ s.maxR
    rcases hmax with h | h
    · exact absurd h h0'
    · omega
  · intro w ws h'
    have h'' : s.waiters = w :: ws := h'
    rw [hnw] at h''; cases h''

theorem grantW_inv (s : St) (inv : Inv s) (h : canWrite s = true) : Inv { s with writer := true } := by
  unfold canWrite at h
  simp only [Bool.and_eq_true, Bool.not_eq_true', beq_iff_eq] at h
  have hnw := free_no_waiters inv h.1 h.2
  refine ⟨fun _ => h.2, inv.maxOk, ?_⟩
  intro w ws h'
  have h'' : s.waiters = w :: ws := h'
  rw [hnw] at h''; cases h''

theorem queue_inv (s : St) (inv : Inv s) (id : Nat) (b : Bool)
    (hbw : b = true → canWrite s = false) (hbr : b = false → canRead s = false) :
    Inv { s with waiters := s.waiters ++ [(id, b)] } := by
  refine ⟨inv.excl, inv.maxOk, ?_⟩
  intro w ws h
  have h' : s.waiters ++ [(id, b)] = w :: ws := h
  cases hq : s.waiters with
  | cons x xs =>
    simp only [hq, List.cons_append, List.cons.injEq] at h'
    obtain ⟨rfl, _⟩ := h'
    exact inv.head x xs hq
  | nil =>
    simp only [hq, List.nil_append, List.cons.injEq] at h'
    obtain ⟨rfl, _⟩ := h'
    constructor
    · intro hb
      have := hbw hb
      unfold canWrite at this
      simp only [Bool.and_eq_false_iff, Bool.not_eq_false', beq_eq_false_iff_ne] at this
      rcases this with h | h
      · exact Or.inl h
      · exact Or.inr (by show 0 < s.readers; omega)
    · intro hb
      have := hbr hb
      unfold canRead at this
      simp only [Bool.and_eq_false_iff, Bool.not_eq_false'] at this
      rcases this with (h | h) | h
      · exact Or.inl h
      · rw [hq] at h; simp at h
      · exact Or.inr h

theorem step_inv (s : St) (o : Op) (inv : Inv s) : Inv (step s o).1 := by
  cases o with
  | tryRead id =>
    rw [step_tryRead]; split
    · rename_i h; exact grantR_inv s inv h
    · exact inv
  | tryWrite id =>
    rw [step_tryWrite]; split
    · rename_i h; exact grantW_inv s inv h
    · exact inv
  | acquireRead id =>
    rw [step_acquireRead]; split
    · rename_i h; exact grantR_inv s inv h
    · rename_i h; exact queue_inv s inv id false (fun hb => by cases hb) (fun _ => by simpa using h)
  | acquireWrite id =>
    rw [step_acquireWrite]; split
    · rename_i h; exact grantW_inv s inv h
    · rename_i h; exact queue_inv s inv id true (fun _ => by simpa using h) (fun hb => by cases hb)
  | releaseRead =>
    rw [step_releaseRead]; split
    · exact inv
    · rename_i h
      apply wake_inv
      · intro hw
        have := inv.excl hw
        show s.readers - 1 = 0
        omega
      · intro h0
        have := inv.maxOk h0
        show s.readers - 1 ≤ s.maxR
        omega
  | releaseWrite =>
    rw [step_releaseWrite]; split
    · exact inv
    · apply wake_inv
      · intro hw; cases hw
      · exact inv.maxOk

theorem run_inv (s : St) (ops : List Op) (inv : Inv s) : Inv (run s ops) := by
  induction ops generalizing s with
  | nil => exact inv
  | cons o os ih => exact ih _ (step_inv s o inv)

theorem wake_maxR (s : St) : (wake s).1.maxR = s.maxR := by
  unfold wake
  split
  · rfl
  · split
    · rfl
    · split
      · split <;> rfl
      · rfl

theorem step_maxR (s : St) (o : Op) : (step s o).1.maxR = s.maxR := by
  cases o with
  | tryRead id => rw [step_tryRead]; split <;> rfl
  | tryWrite id => rw [step_tryWrite]; split <;> rfl
  | acquireRead id => rw [step_acquireRead]; split <;> rfl
  | acquireWrite id => rw [step_acquireWrite]; split <;> rfl
  | releaseRead =>
    rw [step_releaseRead]; split
    · rfl
    · exact wake_maxR _
  | releaseWrite =>
    rw [step_releaseWrite]; split
    · rfl
    · exact wake_maxR _

theorem run_maxR (s : St) (ops : List Op) : (run s ops).maxR = s.maxR := by
  induction ops generalizing s with
  | nil => rfl
  | cons o os ih => simp [run, ih, step_maxR]

end RW

/-! ### Semaphore -/
namespace Sem

structure Inv (s : St) : Prop where
  capPos : 0 < s.cap
  lo : 0 ≤ s.count
  hi : s.count ≤ s.cap
  waitFits : ∀ w ∈ s.waiters, 0 < w.2 ∧ w.2 ≤ s.cap
  headBlocked : ∀ w ws, s.waiters = w :: ws → s.count < w.2

theorem init_inv (cap : Int) (h : 0 < cap) : Inv (St.init cap) :=
  ⟨h, by simp [St.init]; omega, by simp [St.init], by simp [St.init], by intro w ws hw; simp [St.init] at hw⟩

theorem step_tryAcquire (s : St) (id : Nat) (n : Int) : step s (.tryAcquire id n) =
    if n < 1 then (s, ⟨.errValue, []⟩)
    else if n ≤ s.count then ({ s with count := s.count - n }, ⟨.granted, []⟩)
    else (s, ⟨.refused, []⟩) := rfl
theorem step_acquire (s : St) (id : Nat) (n : Int) : step s (.acquire id n) =
    if n < 1 then (s, ⟨.errValue, []⟩)
    else if s.cap < n then (s, ⟨.errValue, []⟩)
    else if n ≤ s.count then ({ s with count := s.count - n }, ⟨.granted, []⟩)
    else ({ s with waiters := s.waiters ++ [(id, n)] }, ⟨.queued, []⟩) := rfl
theorem step_release (s : St) (n : Int) : step s (.release n) =
    if n < 1 then (s, ⟨.errValue, []⟩)
    else if s.cap < s.count + n then (s, ⟨.errValue, []⟩)
    else ({ s with count := s.count + n - amtSum (s.waiters.take (wakeN (s.count + n) s.waiters)),
                   waiters := s.waiters.drop (wakeN (s.count + n) s.waiters) },
          ⟨.released, (s.waiters.take (wakeN (s.count + n) s.waiters)).map (·.1)⟩) := rfl

theorem take_inv (s : St) (inv : Inv s) (n : Int) (h1 : ¬ n < 1) (h2 : n ≤ s.count) :
    Inv { s with count := s.count - n } := by
  refine ⟨inv.capPos, ?_, ?_, inv.waitFits, ?_⟩
  · show 0 ≤ s.count - n; omega
  · show s.count - n ≤ s.cap; have := inv.hi; omega
  · intro w ws hw; have := inv.headBlocked w ws hw; show s.count - n < w.2; omega

theorem step_inv (s : St) (o : Op) (inv : Inv s) : Inv (step s o).1 := by
  cases o with
  | tryAcquire id n =>
    rw [step_tryAcquire]; split
    · exact inv
    · split
      · rename_i h1 h2; exact take_inv s inv n h1 h2
      · exact inv
  | acquire id n =>
    rw [step_acquire]; split
    · exact inv
    · split
      · exact inv
      · split
        · rename_i h1 _ h2; exact take_inv s inv n h1 h2
        · rename_i h1 h3 h2
          refine ⟨inv.capPos, inv.lo, inv.hi, ?_, ?_⟩
          · intro w hw
            rcases List.mem_append.mp hw with h | h
            · exact inv.waitFits w h
            · simp at h; subst h; exact ⟨by show 0 < n; omega, by show n ≤ s.cap; omega⟩
          · intro w ws hw
            have hw' : s.waiters ++ [(id, n)] = w :: ws := hw
            cases hq : s.waiters with
            | nil => rw [hq] at hw'; simp at hw'; obtain ⟨rfl, _⟩ := hw'; show s.count < n; omega
            | cons x xs =>
              rw [hq] at hw'; simp at hw'; obtain ⟨rfl, _⟩ := hw'
              exact inv.headBlocked x xs hq
  | release n =>
    rw [step_release]; split
    · exact inv
    · split
      · exact inv
      · rename_i h1 h2
        have hwpos : ∀ w ∈ s.waiters, 0 < w.2 := fun w hw => (inv.waitFits w hw).1
        have hfits := _root_.HappyModel.C09.Res.wakeN_sum_le (s.count + n) s.waiters hwpos (by have := inv.lo; omega)
        have hnn := _root_.HappyModel.C09.Res.amtSum_nonneg (s.waiters.take (wakeN (s.count + n) s.waiters))
          (fun g hg => hwpos g (List.mem_of_mem_take hg))
        refine ⟨inv.capPos, ?_, ?_, ?_, ?_⟩
        · show 0 ≤ s.count + n - amtSum _; exact by have := hfits; simp only [amtSum, wakeN] at *; omega
        · show s.count + n - amtSum _ ≤ s.cap; simp only [amtSum, wakeN] at *; omega
        · intro w hw; exact inv.waitFits w (List.mem_of_mem_drop hw)
        · intro w ws hw
          exact _root_.HappyModel.C09.Res.wakeN_head_blocked (s.count + n) s.waiters w ws hw

theorem run_inv (s : St) (ops : List Op) (inv : Inv s) : Inv (run s ops) := by
  induction ops generalizing s with
  | nil => exact inv
  | cons o os ih => exact ih _ (step_inv s o inv)

theorem step_cap (s : St) (o : Op) : (step s o).1.cap = s.cap := by
  cases o with
  | tryAcquire id n => rw [step_tryAcquire]; split; · rfl
                       split <;> rfl
  | acquire id n => rw [step_acquire]; split; · rfl
                    split; · rfl
                    split <;> rfl
  | release n => rw [step_release]; split; · rfl
                 split <;> rfl

theorem run_cap (s : St) (ops : List Op) : (run s ops).cap = s.cap := by
  induction ops generalizing s with
  | nil => rfl
  | cons o os ih => simp [run, ih, step_cap]

end Sem

/-! ### Mutex: the model's trace satisfies the executable Spec predicate -/
namespace Mutex

def b01 (b : Bool) : Nat := if b then 1 else 0

def obsOf (o : Op) (out : Out) (s' : St) : Obs :=
  { k := match o with
      | .tryAcquire id => .try_ id 1 0
      | .acquire id => .acq id 1 0
      | .release => .rel 1 0
    res := out.res, woke := out.woke, c1 := b01 s'.locked, c2 := s'.waiters.length }

def obsTrace (s : St) : List Op → List Obs
  | [] => []
  | o :: os => obsOf o (step s o).2 (step s o).1 :: obsTrace (step s o).1 os

structure Inv (s : St) : Prop where
  waitLocked : s.waiters ≠ [] → s.locked = true

structure Agree (b : MBook) (s : St) : Prop where
  holders : b.holders = b01 s.locked
  blocked : b.blocked = s.waiters
  resolved : b.resolved = []

theorem check_ok (s : St) (b : MBook) (o : Obs) (inv : Inv s) (ag : Agree b s)
    (h1 : o.c1 = b01 s.locked) (h2 : o.c2 = s.waiters.length) : b.check o = none := by
  unfold MBook.check
  rw [ag.holders, ag.blocked, h1, h2]
  cases hl : s.locked with
  | true => simp [b01]
  | false =>
    have : s.waiters = [] := by
      cases hq : s.waiters with
      | nil => rfl
      | cons w ws => have := inv.waitLocked (by rw [hq]; simp); rw [hl] at this; cases this
    simp [b01, this]

theorem apply_step (s : St) (b : MBook) (o : Op) (inv : Inv s) (ag : Agree b s) :
    ∃ b', b.apply false (obsOf o (step s o).2 (step s o).1) = .ok b' ∧ Agree b' (step s o).1 ∧ Inv (step s o).1 := by
  cases o with
  | tryAcquire id =>
    cases hl : s.locked with
    | true =>
      refine ⟨b, ?_, by simpa [step, hl] using ag, by simpa [step, hl] using inv⟩
      simp [MBook.apply, procObs, obsOf, step, hl, ag.holders, b01]
    | false =>
      refine ⟨{ b with holders := 1 }, ?_, ?_, ?_⟩
      · simp [MBook.apply, procObs, obsOf, step, hl, ag.holders, b01]
      · simp only [step, hl]; exact ⟨rfl, ag.blocked, ag.resolved⟩
      · simp only [step, hl]; exact ⟨fun _ => rfl⟩
  | acquire id =>
    cases hl : s.locked with
    | true =>
      refine ⟨{ b with blocked := b.blocked ++ [id] }, ?_, ?_, ?_⟩
      · simp [MBook.apply, procObs, obsOf, step, hl, ag.holders, b01]
      · simp only [step, hl]; exact ⟨by simpa [hl] using ag.holders, by simp [ag.blocked], ag.resolved⟩
      · simp only [step, hl]; exact ⟨fun _ => by simp⟩
    | false =>
      refine ⟨{ b with holders := 1 }, ?_, ?_, ?_⟩
      · simp [MBook.apply, procObs, obsOf, step, hl, ag.holders, b01]
      · simp only [step, hl]; exact ⟨rfl, ag.blocked, ag.resolved⟩
      · simp only [step, hl]; exact ⟨fun _ => rfl⟩
  | release =>
    cases hl : s.locked with
    | false =>
      refine ⟨b, ?_, by simpa [step, hl] using ag, by simpa [step, hl] using inv⟩
      simp [MBook.apply, procObs, obsOf, step, hl, ag.holders, b01]
    | true =>
      cases hq : s.waiters with
      | nil =>
        refine ⟨{ holders := 0, blocked := b.blocked, resolved := b.resolved }, ?_, ?_, ?_⟩
        · simp [MBook.apply, procObs, obsOf, step, hl, hq, ag.holders, b01, wokeCheck]
        · simp only [step, hl, hq]; exact ⟨rfl, by simp [ag.blocked, hq], ag.resolved⟩
        · simp only [step, hl, hq]; exact ⟨fun h => absurd rfl h⟩
      | cons w ws =>
        refine ⟨{ holders := 1, blocked := ws, resolved := b.resolved }, ?_, ?_, ?_⟩
        · simp [MBook.apply, procObs, obsOf, step, hl, hq, ag.holders, ag.blocked, b01, wokeCheck]
        · simp only [step, hl, hq]; exact ⟨by simp [b01, hl], rfl, ag.resolved⟩
        · simp only [step, hl, hq]; exact ⟨fun _ => by simp⟩

theorem judge_model (s : St) (b : MBook) (ops : List Op) (inv : Inv s) (ag : Agree b s) :
    judgeMutex false b (obsTrace s ops) = none := by
  induction ops generalizing s b with
  | nil => rfl
  | cons o os ih =>
    obtain ⟨b', hap, hag, hinv⟩ := apply_step s b o inv ag
    simp only [obsTrace, judgeMutex, hap]
    rw [check_ok (step s o).1 b' _ hinv hag rfl rfl]
    exact ih _ _ hinv hag

theorem run_inv (s : St) (ops : List Op) (inv : Inv s) : Inv (run s ops) := by
  induction ops generalizing s with
  | nil => exact inv
  | cons o os ih =>
    obtain ⟨_, _, _, hinv⟩ := apply_step s {holders := b01 s.locked, blocked := s.waiters} o inv ⟨rfl, rfl, rfl⟩
    exact ih _ hinv

end Mutex

end HappyModel.C09.Sync
