import HappyProofs.C09.BulkheadSpecF
/-!
# C09 — the Bulkhead model satisfies the executable Spec judge on every schedule

`Bulkhead.judge` (`HappyModel/C09/Bulkhead.lean`) is the predicate that judges implementation transcripts.
Here: it returns `none` on the model's own transcript (`Bulkhead.obsTrace`, `BulkheadSpecA.lean`), for all
parameters and every schedule the driver accepts whose request tags are pairwise distinct.
-/
namespace HappyModel.C09.Bulkhead
open HappyModel.C09.Extra (BPend)

/-! ### one driver iteration: model state, counters -/

theorem dstep_state (wait : Nat) (s : St) (p : BPend) (c : Cmd) :
    (dstep wait s p c).1.1 = s ∨ ∃ op, (dstep wait s p c).1.1 = (step s op).1 := by
  cases c with
  | req t rid => simp only [dstep, reqStep]; split <;> exact Or.inr ⟨_, rfl⟩
  | start t rid => simp only [dstep]; split <;> exact Or.inl rfl
  | done t rid => simp only [dstep]; split <;> exact Or.inl rfl
  | resp t rid =>
    simp only [dstep, respStep]
    split
    · split <;> exact Or.inr ⟨_, rfl⟩
    · exact Or.inl rfl
  | tmo t rid =>
    simp only [dstep, tmoStep]
    split
    · exact Or.inr ⟨_, rfl⟩
    · exact Or.inl rfl
  | fin t => exact Or.inl rfl

theorem dstep_inv (wait : Nat) (s : St) (p : BPend) (c : Cmd) (inv : Inv s) : Inv (dstep wait s p c).1.1 := by
  rcases dstep_state wait s p c with h | ⟨op, h⟩
  · rw [h]; exact inv
  · rw [h]; exact step_inv s op inv

theorem dstep_params (wait : Nat) (s : St) (p : BPend) (c : Cmd) :
    (dstep wait s p c).1.1.max = s.max ∧ (dstep wait s p c).1.1.maxQ = s.maxQ ∧ (dstep wait s p c).1.1.wait = s.wait := by
  rcases dstep_state wait s p c with h | ⟨op, h⟩
  · rw [h]; exact ⟨rfl, rfl, rfl⟩
  · rw [h]; exact step_params s op

/-- an expected line is printed with the counters of the model's post-state -/
theorem obsOf_cnt (wait : Nat) (s : St) (p : BPend) (c : Cmd) (hexp : expected s p c = true) :
    ∃ o0, obsOf wait s p c = cnt (dstep wait s p c).1.1 o0 := by
  cases c with
  | req t rid => simp only [obsOf, dstep, reqStep]; split <;> exact ⟨_, rfl⟩
  | start t rid =>
    have hc : p.starts.contains (rid, t) = true := hexp
    simp only [obsOf, dstep, hc, if_true]; exact ⟨_, rfl⟩
  | done t rid =>
    have hc : p.running.contains rid = true := hexp
    simp only [obsOf, dstep, hc, if_true]; exact ⟨_, rfl⟩
  | resp t rid =>
    simp only [expected, Bool.and_eq_true] at hexp
    obtain ⟨hc, hsome⟩ := hexp
    cases hf : s.inflight.find? (·.2 == rid) with
    | none => rw [hf] at hsome; cases hsome
    | some e =>
      have hany : s.inflight.any (·.1 == e.1) = true :=
        List.any_eq_true.mpr ⟨e, List.mem_of_find?_eq_some hf, by simp⟩
      simp only [obsOf, dstep, respStep, hc, hf, step_resp_known s e.1 t hany]
      generalize tryProcess { s with inflight := s.inflight.eraseP (·.1 == e.1), active := s.active - 1 } t = TP
      obtain ⟨s', o⟩ := TP
      cases o <;> exact ⟨_, rfl⟩
  | tmo t rid =>
    simp only [expected] at hexp
    cases hf : p.tmos.find? (fun e => e.1 == rid && e.2.2 == t) with
    | none => rw [hf] at hexp; cases hexp
    | some e => simp only [obsOf, dstep, tmoStep, hf]; exact ⟨_, rfl⟩
  | fin t => exact ⟨_, rfl⟩

/-! ### one line of the schedule -/

theorem step_ok (max maxQ wait : Nat) (b : Book) (s : St) (p : BPend) (seen : List Nat) (c : Cmd)
    (hm : s.max = max) (hq : s.maxQ = maxQ) (hw : s.wait = wait) (inv : Inv s)
    (ag : Agree b s p) (tg : Tags b s p seen) (pk : Peaks b s) (hexp : expected s p c = true)
    (hfresh : ∀ x ∈ reqTags [c], x ∉ seen) : StepOK max maxQ wait b s p seen c := by
  cases c with
  | req t rid => exact req_ok max maxQ wait b s p seen t rid hm hq hw inv ag tg pk (hfresh rid (by simp [reqTags]))
  | start t rid => exact start_ok max maxQ wait b s p seen t rid ag tg pk hexp
  | done t rid => exact done_ok max maxQ wait b s p seen t rid ag tg pk hexp
  | resp t rid => exact resp_ok max maxQ wait b s p seen t rid hw inv ag tg pk hexp
  | tmo t rid => exact tmo_ok max maxQ wait b s p seen t rid hw ag tg pk hexp
  | fin t => exact fin_ok max maxQ wait b s p seen t hw ag tg pk hexp

theorem Agree.peaks {b : Book} {s : St} {p : BPend} (ag : Agree b s p) : Agree b.peaks s p :=
  ⟨ag.toStart, ag.running, ag.toResp, ag.waiting, ag.nTimed, ag.nAdm, ag.nReq, ag.nRej, ag.nQueued, ag.active⟩

theorem Tags.peaks {b : Book} {s : St} {p : BPend} {seen : List Nat} (tg : Tags b s p seen) : Tags b.peaks s p seen :=
  ⟨tg.startsNd, tg.runNd, tg.donesNd, tg.d12, tg.d13, tg.d23, tg.s1, tg.s2, tg.s3, tg.qNd, tg.qAdm, tg.qTo, tg.admSeen,
   tg.toSeen, tg.qSeen, tg.tmSeen, tg.tmFresh, tg.tmWait, tg.tmLink⟩

/-- the judge's running maxima are the model's `peak_concurrent` / `peak_queue_depth` -/
theorem peaks_ok {b b' : Book} {s s' : St} {p' : BPend} (pk : Peaks b s) (ag : Agree b' s' p')
    (hA : b'.peakA = b.peakA) (hQ : b'.peakQ = b.peakQ) (ev : PeakEv s s') : Peaks b'.peaks s' := by
  have h1 : b'.peaks.peakA = s'.peakConc := by
    show (if b'.peakA < b'.active then b'.active else b'.peakA) = s'.peakConc
    rw [hA, pk.peakA, ag.bactive, ev.evA]
  have h2 : b'.peaks.peakQ = s'.peakQueue := by
    show (if b'.peakQ < b'.waiting.length then b'.waiting.length else b'.peakQ) = s'.peakQueue
    rw [hQ, pk.peakQ, ag.waiting, List.length_map, ev.evQ]
  refine ⟨h1, h2, ?_, ?_⟩
  · rw [ev.evA]; split <;> omega
  · rw [ev.evQ]; split <;> omega

/-- the counters printed from the model state pass every comparison with the books -/
theorem check_ok' (max maxQ : Nat) (b : Book) (s : St) (p : BPend) (o : Obs) (hm : s.max = max) (hq : s.maxQ = maxQ)
    (inv : Inv s) (ag : Agree b s p) (pk : Peaks b s)
    (h1 : o.a = s.active) (h2 : o.q = s.queue.length) (h3 : o.p = s.max - s.active) (h4 : o.sT = s.total)
    (h5 : o.sA = s.accepted) (h6 : o.sR = s.rejected) (h7 : o.sX = s.timedOut) (h8 : o.sQ = s.queued)
    (h9 : o.pc = s.peakConc) (h10 : o.pq = s.peakQueue) : b.check max maxQ o = none := by
  have hb := inv.bound
  have hqb := inv.qbound
  have hreqs := inv.reqs
  have hhead : ¬ (b.waiting ≠ [] ∧ b.active < max) := by
    rw [ag.waiting, ag.bactive]
    intro h
    have : s.queue ≠ [] := fun h0 => h.1 (by rw [h0]; rfl)
    have := inv.head this
    omega
  have hwl : b.waiting.length = s.queue.length := by rw [ag.waiting, List.length_map]
  have e1 := ag.bactive
  have e2 := ag.nReq
  have e3 := ag.nAdm
  have e4 := ag.nRej
  have e5 := ag.nTimed
  have e6 := ag.nQueued
  have e7 := pk.peakA
  have e8 := pk.peakQ
  have c1 : ¬ (max < b.active ∨ max < s.active) := by omega
  have c2 : ¬ (s.active ≠ b.active) := by omega
  have c3 : ¬ (max < s.max - s.active) := by omega
  have c4 : ¬ (s.active + (s.max - s.active) ≠ max) := by omega
  have c5 : ¬ (s.queue.length ≠ b.waiting.length) := by omega
  have c6 : ¬ (maxQ < b.waiting.length) := by omega
  have c8 : ¬ (s.total ≠ b.nReq) := by omega
  have c9 : ¬ (s.accepted ≠ b.admitted.length) := by omega
  have c10 : ¬ (s.rejected ≠ b.nRej) := by omega
  have c11 : ¬ (s.timedOut ≠ b.timedOut.length) := by omega
  have c12 : ¬ (s.queued ≠ b.nQueued) := by omega
  have c13 : ¬ (s.total ≠ s.accepted + s.rejected + s.timedOut + s.queue.length) := by omega
  have c14 : ¬ (s.peakConc ≠ b.peakA ∨ s.peakQueue ≠ b.peakQ) := by omega
  unfold Book.check
  rw [h1, h2, h3, h4, h5, h6, h7, h8, h9, h10]
  rw [if_neg c1, if_neg c2, if_neg c3, if_neg c4, if_neg c5, if_neg c6, if_neg hhead, if_neg c8, if_neg c9, if_neg c10,
      if_neg c11, if_neg c12, if_neg c13, if_neg c14]

theorem check_ok (max maxQ : Nat) (b : Book) (s : St) (p : BPend) (o : Obs) (hm : s.max = max) (hq : s.maxQ = maxQ)
    (inv : Inv s) (ag : Agree b s p) (pk : Peaks b s) : b.check max maxQ (cnt s o) = none :=
  check_ok' max maxQ b s p (cnt s o) hm hq inv ag pk rfl rfl rfl rfl rfl rfl rfl rfl rfl rfl

theorem reqTags_cons (c : Cmd) (cs : List Cmd) : reqTags (c :: cs) = reqTags [c] ++ reqTags cs := by
  cases c <;> rfl

/-- the judge accepts the model's transcript from any state its books agree with -/
theorem judge_model (max maxQ wait : Nat) (cs : List Cmd) :
    ∀ (s : St) (p : BPend) (b : Book) (seen : List Nat), s.max = max → s.maxQ = maxQ → s.wait = wait → Inv s →
      Agree b s p → Tags b s p seen → Peaks b s → accepted wait s p cs = true → (reqTags cs).Nodup →
      (∀ x ∈ reqTags cs, x ∉ seen) → judge max maxQ wait b (obsTrace wait s p cs) = none := by
  induction cs with
  | nil => intros; rfl
  | cons c cs ih =>
    intro s p b seen hm hq hw inv ag tg pk hacc hnd hfresh
    simp only [accepted, Bool.and_eq_true] at hacc
    rw [reqTags_cons, List.nodup_append] at hnd
    rw [reqTags_cons] at hfresh
    obtain ⟨b', hap, ag', tg', hA, hQ, ev⟩ :=
      step_ok max maxQ wait b s p seen c hm hq hw inv ag tg pk hacc.1 (fun x hx => hfresh x (List.mem_append_left _ hx))
    have inv' := dstep_inv wait s p c inv
    have hpar := dstep_params wait s p c
    have pk' := peaks_ok pk ag' hA hQ ev
    obtain ⟨o0, ho⟩ := obsOf_cnt wait s p c hacc.1
    have hchk : b'.peaks.check max maxQ (obsOf wait s p c) = none := by
      rw [ho]
      exact check_ok max maxQ _ _ _ o0 (by rw [hpar.1, hm]) (by rw [hpar.2.1, hq]) inv' ag'.peaks pk'
    simp only [obsTrace, judge, hap, hchk]
    refine ih _ _ _ (reqTags [c] ++ seen) (by rw [hpar.1, hm]) (by rw [hpar.2.1, hq]) (by rw [hpar.2.2, hw]) inv' ag'.peaks
      tg'.peaks pk' hacc.2 hnd.2.1 ?_
    intro x hx hmem
    rcases List.mem_append.mp hmem with h | h
    · exact hnd.2.2 x h x hx rfl
    · exact hfresh x (List.mem_append_right _ hx) h

/-! ### the link to `Bulkhead.step` / `Bulkhead.run` -/

/-- the model state after a line is the state after the `Bulkhead.Op` the driver performs for it (if any) -/
theorem dstep_op (wait : Nat) (s : St) (p : BPend) (c : Cmd) :
    (dstep wait s p c).1.1 = match opOf s p c with | some op => (step s op).1 | none => s := by
  cases c with
  | req t rid => simp only [dstep, reqStep, opOf]; split <;> rfl
  | start t rid => simp only [dstep, opOf]; split <;> rfl
  | done t rid => simp only [dstep, opOf]; split <;> rfl
  | resp t rid =>
    simp only [dstep, respStep, opOf]
    split
    · split <;> rfl
    · rfl
  | tmo t rid =>
    simp only [dstep, tmoStep, opOf]
    split
    · rename_i e he; rw [he]; rfl
    · rename_i he; rw [he]; rfl
  | fin t => rfl

/-- the `Bulkhead.Op`s the driver performs over a schedule -/
def opsOf (wait : Nat) (s : St) (p : BPend) : List Cmd → List Op
  | [] => []
  | c :: cs => (opOf s p c).toList ++ opsOf wait (dstep wait s p c).1.1 (dstep wait s p c).1.2 cs

/-- the model state the driver ends in -/
def finalSt (wait : Nat) (s : St) (p : BPend) : List Cmd → St
  | [] => s
  | c :: cs => finalSt wait (dstep wait s p c).1.1 (dstep wait s p c).1.2 cs

/-- the driver's model state is `Bulkhead.run` over the ops it performed: all theorems about `run` apply to it -/
theorem finalSt_eq_run (wait : Nat) (cs : List Cmd) : ∀ (s : St) (p : BPend),
    finalSt wait s p cs = run s (opsOf wait s p cs) := by
  induction cs with
  | nil => intros; rfl
  | cons c cs ih =>
    intro s p
    simp only [finalSt, opsOf]
    rw [ih, dstep_op]
    cases opOf s p c <;> rfl

end HappyModel.C09.Bulkhead

namespace HappyModel.C09
open Bulkhead

/-- **Trace-level Spec theorem for Bulkhead.**  For every `max_concurrent > 0`, `max_wait_queue`, `max_wait_time`
    (`wait = 0` = none) and every schedule `cs` of engine-level deliveries that the driver accepts (no line is
    answered `!unexpected`, `fin` only when quiescent) and whose request tags are pairwise distinct, the executable
    Spec judge accepts the model's own transcript. -/
theorem bulkhead_trace_satisfies_spec (max maxQ wait : Nat) (h : 0 < max) (cs : List Bulkhead.Cmd)
    (hacc : Bulkhead.accepted wait (bhInit max maxQ wait) {} cs = true) (hnd : (Bulkhead.reqTags cs).Nodup) :
    Bulkhead.judge max maxQ wait {} (Bulkhead.obsTrace wait (bhInit max maxQ wait) {} cs) = none :=
  Bulkhead.judge_model max maxQ wait cs (bhInit max maxQ wait) {} {} [] rfl rfl rfl (Bulkhead.init_inv max maxQ wait h)
    ⟨rfl, rfl, rfl, rfl, rfl, rfl, rfl, rfl, rfl, rfl⟩
    (by constructor <;> simp [bhInit, Bulkhead.qtags])
    ⟨rfl, rfl, Nat.le_refl _, Nat.le_refl _⟩ hacc hnd (fun _ _ h => by cases h)

end HappyModel.C09

namespace HappyModel.C09
open Bulkhead

/-! ### the statement on a concrete schedule, and the judge is not vacuous

`max_concurrent = 1`, `max_wait_queue = 2`, `max_wait_time = 10`: request 0 is admitted, 1 and 2 are queued,
3 is rejected; the response for 0 admits 1 from the queue; 2 times out at its due time 1 + 10; 1 completes. -/

def demoSchedule : List Bulkhead.Cmd :=
  [.req 0 0, .start 0 0, .req 0 1, .req 1 2, .req 1 3, .done 5 0, .resp 5 0, .start 5 1, .tmo 11 2, .done 12 1, .resp 12 1,
   .fin 12]

example : Bulkhead.accepted 10 (bhInit 1 2 10) {} demoSchedule = true ∧ (Bulkhead.reqTags demoSchedule).Nodup
    ∧ Bulkhead.judge 1 2 10 {} (Bulkhead.obsTrace 10 (bhInit 1 2 10) {} demoSchedule) = none := by decide

/-- the same schedule with a later response: the waiting request 1 has expired by then (0 + 10 < 11) and the
    response skips it and admits 2; the timeout of 1 then finds nothing (`noop`) -/
def demoSchedule2 : List Bulkhead.Cmd :=
  [.req 0 0, .start 0 0, .req 0 1, .req 1 2, .done 11 0, .resp 11 0, .start 11 2, .tmo 10 1, .done 12 2, .resp 12 2, .fin 12]

example : Bulkhead.accepted 10 (bhInit 1 2 10) {} demoSchedule2 = true ∧ (Bulkhead.reqTags demoSchedule2).Nodup
    ∧ Bulkhead.judge 1 2 10 {} (Bulkhead.obsTrace 10 (bhInit 1 2 10) {} demoSchedule2) = none
    ∧ (Bulkhead.finalSt 10 (bhInit 1 2 10) {} demoSchedule2).timedOut = 1
    ∧ Bulkhead.opsOf 10 (bhInit 1 2 10) {} demoSchedule2
        = [.request 0 0, .request 1 0, .request 2 1, .response 1 11, .timeout 2 10, .response 4 12] := by decide

/-- the judge rejects over-admission: a second request admitted while the only permit is out -/
example : Bulkhead.judge 1 1 0 {}
    [{ t := 0, k := .req 0, res := .admitted, fwd := [0], a := 1, p := 0, sT := 1, sA := 1, pc := 1 },
     { t := 0, k := .req 1, res := .admitted, fwd := [1], a := 2, p := 0, sT := 2, sA := 2, pc := 2 }]
    = some "bulkhead/active/exceeds-limit" := by decide

/-- … a leaked permit: the response arrives and the active count does not go down -/
example : Bulkhead.judge 1 1 0 {}
    [{ t := 0, k := .req 0, res := .admitted, fwd := [0], a := 1, p := 0, sT := 1, sA := 1, pc := 1 },
     { t := 0, k := .start 0, a := 1, p := 0, sT := 1, sA := 1, pc := 1 },
     { t := 3, k := .done 0, a := 1, p := 0, sT := 1, sA := 1, pc := 1 },
     { t := 3, k := .resp 0, a := 1, p := 0, sT := 1, sA := 1, pc := 1 }]
    = some "bulkhead/active/count-mismatch" := by decide

/-- … and a wake-up out of order: the response admits the younger of two waiting requests -/
example : Bulkhead.judge 1 2 0 {}
    [{ t := 0, k := .req 0, res := .admitted, fwd := [0], a := 1, p := 0, sT := 1, sA := 1, pc := 1 },
     { t := 0, k := .start 0, a := 1, p := 0, sT := 1, sA := 1, pc := 1 },
     { t := 0, k := .req 1, res := .queued, a := 1, q := 1, p := 0, sT := 2, sA := 1, sQ := 1, pc := 1, pq := 1 },
     { t := 0, k := .req 2, res := .queued, a := 1, q := 2, p := 0, sT := 3, sA := 1, sQ := 2, pc := 1, pq := 2 },
     { t := 3, k := .done 0, a := 1, q := 2, p := 0, sT := 3, sA := 1, sQ := 2, pc := 1, pq := 2 },
     { t := 3, k := .resp 0, fwd := [2], a := 1, q := 1, p := 0, sT := 3, sA := 2, sQ := 2, pc := 1, pq := 2 }]
    = some "bulkhead/fifo/out-of-order" := by decide

/-! Why the hypotheses: without them the judge rejects the model's own transcript. -/

/-- a `start` the engine layer does not expect is printed `!unexpected` (no counters) -/
example : Bulkhead.judge 1 1 0 {} (Bulkhead.obsTrace 0 (bhInit 1 1 0) {} [.req 0 0, .start 1 0])
    = some "bulkhead/admission/late-start" := by decide

/-- `fin` while a forwarded request has not reached the target: to the judge it is lost -/
example : Bulkhead.judge 1 1 0 {} (Bulkhead.obsTrace 0 (bhInit 1 1 0) {} [.req 0 0, .fin 0])
    = some "bulkhead/request/lost" := by decide

/-- `fin` while somebody is still waiting although there is a wait limit -/
example : Bulkhead.judge 1 1 5 {} (Bulkhead.obsTrace 5 (bhInit 1 1 5) {} [.req 0 0, .start 0 0, .req 0 1, .fin 0])
    = some "bulkhead/timeout/waited-past-limit" := by decide

/-- a caller tag used twice (the driver accepts the schedule): the judge sees request 0 admitted twice -/
example : Bulkhead.accepted 0 (bhInit 1 1 0) {} [.req 0 0, .start 0 0, .req 0 0, .done 1 0, .resp 1 0] = true
    ∧ Bulkhead.judge 1 1 0 {} (Bulkhead.obsTrace 0 (bhInit 1 1 0) {} [.req 0 0, .start 0 0, .req 0 0, .done 1 0, .resp 1 0])
      = some "bulkhead/admission/twice" := by decide

/-! `obsTrace` is what `Extra.runBulkhead` prints and `Extra.parseBObs` reads back (checked by evaluation). -/

private def showCmd : Bulkhead.Cmd → String
  | .req t r => s!"req {t} {r}" | .start t r => s!"start {t} {r}" | .done t r => s!"done {t} {r}"
  | .resp t r => s!"resp {t} {r}" | .tmo t r => s!"tmo {t} {r}" | .fin t => s!"fin {t}"

private def viaDriver (mx mq w : Nat) (cs : List Bulkhead.Cmd) : List String :=
  (Extra.runBulkhead mx mq w (cs.map showCmd)).map (fun l => toString (repr (Extra.parseBObs (HappyModel.Proto.toks l))))

private def viaObsTrace (mx mq w : Nat) (cs : List Bulkhead.Cmd) : List String :=
  (Bulkhead.obsTrace w (bhInit mx mq w) {} cs).map (fun o => toString (repr (some o)))

#guard viaDriver 1 2 10 demoSchedule == viaObsTrace 1 2 10 demoSchedule
#guard viaDriver 1 2 10 demoSchedule2 == viaObsTrace 1 2 10 demoSchedule2
#guard viaDriver 2 1 0 demoSchedule == viaObsTrace 2 1 0 demoSchedule
#guard viaDriver 1 2 10 [.req 0 0, .start 1 0, .done 0 0, .resp 0 0, .tmo 3 0, .fin 0]
        == viaObsTrace 1 2 10 [.req 0 0, .start 1 0, .done 0 0, .resp 0 0, .tmo 3 0, .fin 0]

end HappyModel.C09
