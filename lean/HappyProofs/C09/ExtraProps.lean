import HappyProofs.C09.BulkheadInv
import HappyProofs.C09.ThreadPoolInv
import HappyProofs.C09.PreemptOrder
/-!
# C09 — property theorems for Bulkhead, ThreadPool and PreemptibleResource

Same clauses as for the other capacity primitives (`Props.lean`): outstanding ≤ limit, conservation, a
release never pushes above capacity, the head of the line is never left grantable, grants go in the order
the class defines (FIFO; priority then arrival), each at most once.  Every theorem quantifies over all
parameters and over an arbitrary list of deliveries / calls.
-/
namespace HappyModel.C09.Bulkhead
theorem tryProcess_params (s : St) (t : Nat) : (tryProcess s t).1.max = s.max ∧ (tryProcess s t).1.maxQ = s.maxQ ∧ (tryProcess s t).1.wait = s.wait := by
  simp only [tryProcess]
  split
  · exact ⟨rfl, rfl, rfl⟩
  · split
    · exact ⟨rfl, rfl, rfl⟩
    · split <;> exact ⟨rfl, rfl, rfl⟩

theorem step_params (s : St) (o : Op) : (step s o).1.max = s.max ∧ (step s o).1.maxQ = s.maxQ ∧ (step s o).1.wait = s.wait := by
  cases o with
  | request rid t => simp only [step]; split; · exact ⟨rfl, rfl, rfl⟩
                     split <;> exact ⟨rfl, rfl, rfl⟩
  | response bid t => simp only [step]; split; · exact ⟨rfl, rfl, rfl⟩
                      exact tryProcess_params _ _
  | timeout bid t => simp only [step]; split <;> exact ⟨rfl, rfl, rfl⟩
end HappyModel.C09.Bulkhead
namespace HappyModel.C09.TPool
theorem poll_n (s : St) : (pollIfReady s).1.n = s.n := by
  simp only [pollIfReady]; split; · rfl
  split <;> rfl
theorem step_n (s : St) (o : Op) : (step s o).1.n = s.n := by
  cases o with
  | submit tid => simp only [step]; split <;> rfl
  | notify => simp only [step]; split; · exact poll_n _
              rfl
  | poll => simp only [step]; split; · split <;> rfl
            rfl
  | deliver => simp only [step]; split; · split; · exact poll_n _
                                          rfl
               · rfl
               · rfl
  | work tid => simp only [step]; split; · split; · rfl
                                           split; · rfl
                                           exact poll_n _
                · rfl
  | finish tid => simp only [step]; split; · rfl
                  exact poll_n _
  | disp => simp only [step]; split; · exact poll_n _
            rfl
end HappyModel.C09.TPool

namespace HappyModel.C09

/-! ## Bulkhead -/
section BulkheadProps
open Bulkhead

def bhInit (max maxQ wait : Nat) : Bulkhead.St := { max := max, maxQ := maxQ, wait := wait }

theorem bh_run_params (s : Bulkhead.St) (ops : List Bulkhead.Op) :
    (Bulkhead.run s ops).max = s.max ∧ (Bulkhead.run s ops).maxQ = s.maxQ ∧ (Bulkhead.run s ops).wait = s.wait := by
  induction ops generalizing s with
  | nil => exact ⟨rfl, rfl, rfl⟩
  | cons o os ih =>
    have h := Bulkhead.step_params s o
    have := ih (Bulkhead.step s o).1
    exact ⟨by rw [Bulkhead.run, this.1, h.1], by rw [Bulkhead.run, this.2.1, h.2.1], by rw [Bulkhead.run, this.2.2, h.2.2]⟩

theorem bh_inv (max maxQ wait : Nat) (h : 0 < max) (ops : List Bulkhead.Op) :
    Bulkhead.Inv (Bulkhead.run (bhInit max maxQ wait) ops) :=
  Bulkhead.run_inv _ ops (Bulkhead.init_inv max maxQ wait h)

/-- the number of outstanding requests never exceeds `max_concurrent`, and it is exactly the number of
    requests in flight -/
theorem bulkhead_active_le_limit (max maxQ wait : Nat) (h : 0 < max) (ops : List Bulkhead.Op) :
    (Bulkhead.run (bhInit max maxQ wait) ops).active ≤ max
    ∧ (Bulkhead.run (bhInit max maxQ wait) ops).active = (Bulkhead.run (bhInit max maxQ wait) ops).inflight.length := by
  have inv := bh_inv max maxQ wait h ops
  have := inv.bound
  rw [(bh_run_params _ ops).1] at this
  exact ⟨this, inv.act⟩

example : (Bulkhead.run (bhInit 1 1 0) [.request 0 0, .request 1 0, .request 2 0]).active = 1
    ∧ (Bulkhead.run (bhInit 1 1 0) [.request 0 0, .request 1 0, .request 2 0]).queue.length = 1
    ∧ (Bulkhead.run (bhInit 1 1 0) [.request 0 0, .request 1 0, .request 2 0]).rejected = 1 := by decide

/-- `active_count + available_permits = max_concurrent`, and every request is accounted for:
    total = accepted + rejected + timed out + still waiting; queued = admitted from the queue + waiting + timed out -/
theorem bulkhead_conservation (max maxQ wait : Nat) (h : 0 < max) (ops : List Bulkhead.Op) :
    let s := Bulkhead.run (bhInit max maxQ wait) ops
    s.active + Bulkhead.permits s = max
    ∧ s.total = s.accepted + s.rejected + s.timedOut + s.queue.length
    ∧ s.queued = s.admittedQ.length + s.queue.length + s.timedOut := by
  have inv := bh_inv max maxQ wait h ops
  have hb := inv.bound
  have hm : (Bulkhead.run (bhInit max maxQ wait) ops).max = max := (bh_run_params (bhInit max maxQ wait) ops).1
  refine ⟨?_, inv.reqs, ?_⟩
  · show (Bulkhead.run (bhInit max maxQ wait) ops).active
        + ((Bulkhead.run (bhInit max maxQ wait) ops).max - (Bulkhead.run (bhInit max maxQ wait) ops).active) = max
    rw [hm] at hb ⊢; omega
  · rw [inv.qcount, inv.tcount]

example : let s := Bulkhead.run (bhInit 1 2 250) [.request 0 0, .request 1 0, .request 2 100, .timeout 2 250, .response 1 300]
    s.active = 1 ∧ s.timedOut = 1 ∧ s.accepted = 2 ∧ s.queue = [] ∧ s.admittedQ = [3] ∧ s.expired = [2] := by decide

/-- a response never pushes the permits above the limit: one for an id that is not in flight changes
    nothing (so a duplicate cannot decrement twice), one for an id in flight finds `active ≥ 1` (the clamp
    `max(0, …)` never acts), and the bound holds afterwards -/
theorem bulkhead_release_never_exceeds (max maxQ wait : Nat) (h : 0 < max) (ops : List Bulkhead.Op) (bid t : Nat) :
    let s := Bulkhead.run (bhInit max maxQ wait) ops
    (s.inflight.any (·.1 == bid) = false → (Bulkhead.step s (.response bid t)).1 = s)
    ∧ (s.inflight.any (·.1 == bid) = true → 0 < s.active)
    ∧ (Bulkhead.step s (.response bid t)).1.active ≤ max := by
  have inv := bh_inv max maxQ wait h ops
  refine ⟨?_, ?_, ?_⟩
  · intro hno; simp only [Bulkhead.step, hno]; rfl
  · intro hyes
    rw [List.any_eq_true] at hyes
    obtain ⟨e, he, _⟩ := hyes
    have := List.length_pos_of_mem he
    rw [inv.act]; exact this
  · have := (Bulkhead.step_inv _ (.response bid t) inv).bound
    rw [(Bulkhead.step_params _ _).1, (bh_run_params _ ops).1] at this
    exact this

example : (Bulkhead.step (Bulkhead.run (bhInit 2 0 0) [.request 0 0, .response 1 5]) (.response 1 6)).1.active = 0
    ∧ (Bulkhead.step (Bulkhead.run (bhInit 2 0 0) [.request 0 0, .response 1 5]) (.response 1 6)).2 = .unknown := by decide

/-- "as soon as capacity allows": after every delivery, if somebody is waiting then no permit is free;
    and the wait queue never exceeds `max_wait_queue` -/
theorem bulkhead_head_not_grantable (max maxQ wait : Nat) (h : 0 < max) (ops : List Bulkhead.Op) :
    let s := Bulkhead.run (bhInit max maxQ wait) ops
    (s.queue ≠ [] → Bulkhead.permits s = 0) ∧ s.queue.length ≤ maxQ := by
  have inv := bh_inv max maxQ wait h ops
  have hq := inv.qbound
  rw [(bh_run_params _ ops).2.1] at hq
  refine ⟨?_, hq⟩
  intro hne
  have := inv.head hne
  simp only [Bulkhead.permits]; omega

example : (Bulkhead.run (bhInit 1 2 0) [.request 0 0, .request 1 0, .request 2 0, .response 1 8]).queue.length = 1
    ∧ Bulkhead.permits (Bulkhead.run (bhInit 1 2 0) [.request 0 0, .request 1 0, .request 2 0, .response 1 8]) = 0 := by decide

/-- FIFO ledger: the requests queued so far, in queueing order, minus those that timed out, are exactly
    the ones admitted from the queue (in admission order) followed by the ones still waiting (in queue
    order); ids grow along that list, so the request admitted next is always the oldest one still waiting -/
theorem bulkhead_fifo_ledger (max maxQ wait : Nat) (h : 0 < max) (ops : List Bulkhead.Op) :
    let s := Bulkhead.run (bhInit max maxQ wait) ops
    s.everQ.filter (Bulkhead.notIn s.expired) = s.admittedQ ++ Bulkhead.qids s
    ∧ (s.admittedQ ++ Bulkhead.qids s).Pairwise (· < ·) := by
  have inv := bh_inv max maxQ wait h ops
  exact ⟨inv.ledger, inv.sorted⟩

example : let s := Bulkhead.run (bhInit 1 3 0) [.request 0 0, .request 1 0, .request 2 0, .request 3 0, .response 1 8, .response 5 9]
    s.everQ = [2, 3, 4] ∧ s.admittedQ = [2, 3] ∧ Bulkhead.qids s = [4] := by decide

theorem pairwise_lt_nodup (l : List Nat) (h : l.Pairwise (· < ·)) : l.Nodup :=
  List.Pairwise.imp (fun hab => by omega) h

/-- each queued request is admitted at most once, and one that timed out is never admitted (nor still waiting) -/
theorem bulkhead_admitted_at_most_once (max maxQ wait : Nat) (h : 0 < max) (ops : List Bulkhead.Op) :
    let s := Bulkhead.run (bhInit max maxQ wait) ops
    (s.admittedQ ++ Bulkhead.qids s).Nodup
    ∧ ∀ x ∈ s.expired, x ∉ s.admittedQ ∧ x ∉ Bulkhead.qids s := by
  have inv := bh_inv max maxQ wait h ops
  refine ⟨pairwise_lt_nodup _ inv.sorted, ?_⟩
  intro x hx
  have key : x ∉ (Bulkhead.run (bhInit max maxQ wait) ops).admittedQ ++ Bulkhead.qids (Bulkhead.run (bhInit max maxQ wait) ops) := by
    intro hmem
    rw [← inv.ledger, List.mem_filter] at hmem
    have := hmem.2
    simp only [Bulkhead.notIn, Bool.not_eq_true', ← Bool.not_eq_true, List.contains_iff_mem] at this
    exact this hx
  exact ⟨fun h1 => key (List.mem_append_left _ h1), fun h2 => key (List.mem_append_right _ h2)⟩

example : let s := Bulkhead.run (bhInit 1 2 250) [.request 0 0, .request 1 0, .request 2 0, .timeout 2 250, .response 1 250]
    s.expired = [2] ∧ s.admittedQ = [3] ∧ s.inflight = [(4, 2)] := by decide

end BulkheadProps

/-! ## PreemptibleResource (with `_wake_waiters` after a preemption) -/
section PreemptProps
open Preempt

theorem pr_inv (cap : Int) (h : 0 < cap) (ops : List Preempt.Op) : Preempt.Inv (Preempt.run (Preempt.St.init cap) ops) :=
  Preempt.run_inv _ ops (Preempt.init_inv cap h)

/-- the amount held by live grants never exceeds the capacity — also through preemption -/
theorem preempt_held_le_capacity (cap : Int) (h : 0 < cap) (ops : List Preempt.Op) :
    Preempt.amtSum (Preempt.run (Preempt.St.init cap) ops).active ≤ cap := by
  have inv := pr_inv cap h ops
  have := inv.num.conserve; have := inv.num.availNonneg
  rw [Preempt.run_cap] at *; simp [Preempt.St.init] at *; omega

/-- held plus available equals capacity after every call list (preempted amounts return exactly once) -/
theorem preempt_conservation (cap : Int) (h : 0 < cap) (ops : List Preempt.Op) :
    (Preempt.run (Preempt.St.init cap) ops).avail + Preempt.amtSum (Preempt.run (Preempt.St.init cap) ops).active = cap := by
  have := (pr_inv cap h ops).num.conserve
  rw [Preempt.run_cap] at this; exact this

example : let s := Preempt.run (Preempt.St.init 3) [.acquire 2 5 false, .acquire 1 4 false, .acquire 2 0 true, .release 0, .release 0]
    s.avail = 0 ∧ s.active = [⟨1, 1, 4⟩, ⟨2, 2, 0⟩] ∧ s.preemptions = 1 ∧ s.releases = 0 := by decide

/-- a release never pushes `available` above the capacity: `0 ≤ available ≤ capacity` always, and the
    release of a grant that is not live (released before, or preempted) changes nothing -/
theorem preempt_release_never_exceeds (cap : Int) (h : 0 < cap) (ops : List Preempt.Op) (id : Nat) :
    let s := Preempt.run (Preempt.St.init cap) ops
    0 ≤ s.avail ∧ s.avail ≤ cap
    ∧ (s.active.find? (·.id == id) = none → Preempt.step s (.release id) = (s, { res := .noop })) := by
  have inv := pr_inv cap h ops
  have hc := inv.num.conserve
  have hnn := Preempt.amtSum_nonneg _ inv.num.actPos
  have hcap : (Preempt.run (Preempt.St.init cap) ops).cap = cap := by rw [Preempt.run_cap]; rfl
  rw [hcap] at hc
  refine ⟨inv.num.availNonneg, by show (Preempt.run (Preempt.St.init cap) ops).avail ≤ cap; omega, ?_⟩
  intro hnone
  simp only [Preempt.step, hnone]

example : (Preempt.step (Preempt.run (Preempt.St.init 2) [.acquire 2 5 false, .acquire 2 0 true]) (.release 0)).2.res = .noop
    ∧ (Preempt.run (Preempt.St.init 2) [.acquire 2 5 false, .acquire 2 0 true, .release 0]).avail = 0 := by decide

/-- "as soon as capacity allows": after every call the waiter at the head of the priority queue does not fit -/
theorem preempt_head_not_grantable (cap : Int) (h : 0 < cap) (ops : List Preempt.Op) (w : Preempt.G) (ws : List Preempt.G)
    (hw : (Preempt.run (Preempt.St.init cap) ops).waiters = w :: ws) :
    (Preempt.run (Preempt.St.init cap) ops).avail < w.amt :=
  (pr_inv cap h ops).head w ws hw

example : (Preempt.run (Preempt.St.init 3) [.acquire 3 5 false, .acquire 2 7 false, .acquire 1 0 true]).waiters = []
    ∧ (Preempt.run (Preempt.St.init 3) [.acquire 3 5 false, .acquire 2 7 false, .acquire 1 0 true]).grantLog = [0, 2, 1] := by decide

/-- the code as it is (`acquire` does not wake waiters after a preemption) violates that clause: holder of
    3 at priority 5, a waiter for 2 at priority 7, then a preempting request for 1 at priority 0 frees 3,
    takes 1, and leaves 2 available while the waiter for 2 stays queued -/
theorem preempt_current_leaves_head_grantable :
    let s := Preempt.run (Preempt.St.init 3 false) [.acquire 3 5 false, .acquire 2 7 false, .acquire 1 0 true]
    s.waiters = [⟨1, 2, 7⟩] ∧ s.avail = 2 := by decide

/-- waiters are queued by (priority, arrival) and `_wake_waiters` always serves a prefix of that queue:
    everybody it grants comes before everybody it leaves waiting -/
theorem preempt_wake_order (cap : Int) (ops : List Preempt.Op) :
    let s := Preempt.run (Preempt.St.init cap) ops
    s.waiters.Pairwise Preempt.before
    ∧ ∀ a, ∀ x ∈ Preempt.wokenOf a s.waiters, ∀ y ∈ Preempt.restOf a s.waiters, Preempt.before x y := by
  have o := Preempt.run_ord _ ops (Preempt.init_ord cap)
  exact ⟨o.sorted, fun a => Preempt.wake_prefix a _ o.sorted⟩

example : (Preempt.run (Preempt.St.init 1) [.acquire 1 0 false, .acquire 1 2 false, .acquire 1 1 false, .acquire 1 1 false]).waiters
    = [⟨2, 1, 1⟩, ⟨3, 1, 1⟩, ⟨1, 1, 2⟩] := by decide

/-- nobody is granted twice: the ids in the grant log are pairwise distinct, and no waiter has been granted -/
theorem preempt_grant_at_most_once (cap : Int) (ops : List Preempt.Op) :
    let s := Preempt.run (Preempt.St.init cap) ops
    s.grantLog.Nodup ∧ ∀ g ∈ s.waiters, g.id ∉ s.grantLog := by
  have o := Preempt.run_ord _ ops (Preempt.init_ord cap)
  exact ⟨o.logNodup, o.waitNotLogged⟩

/-- only grants of strictly lower priority (larger value) are ever chosen as victims -/
theorem preempt_victim_lower_priority (p : Int) (l : List Preempt.G) (v : Preempt.G) (h : Preempt.victim p l = some v) :
    p < v.prio ∧ v ∈ l :=
  ⟨Preempt.victim_prio p l v h, Preempt.victim_mem p l v h⟩

example : Preempt.victim 1 [⟨0, 1, 1⟩, ⟨1, 1, 3⟩, ⟨2, 1, 2⟩, ⟨3, 2, 3⟩] = some ⟨1, 1, 3⟩
    ∧ Preempt.victim 3 [⟨0, 1, 1⟩, ⟨1, 1, 3⟩] = none := by decide

end PreemptProps

/-! ## ThreadPool over QueuedResource / QueueDriver -/
section TPoolProps
open TPool

def tpInit (n : Nat) (qcap : Option Nat) : TPool.St := { n := n, qcap := qcap }

theorem tp_run_n (s : TPool.St) (ops : List TPool.Op) : (TPool.run s ops).n = s.n := by
  induction ops generalizing s with
  | nil => rfl
  | cons o os ih => rw [TPool.run, ih, TPool.step_n]

theorem tp_inv (n : Nat) (qcap : Option Nat) (ops : List TPool.Op) : TPool.Inv (TPool.run (tpInit n qcap) ops) :=
  TPool.run_inv _ ops (TPool.init_inv n qcap)

/-- the number of busy workers never exceeds `num_workers` and is the number of tasks in service -/
theorem tpool_active_le_workers (n : Nat) (qcap : Option Nat) (ops : List TPool.Op) :
    (TPool.run (tpInit n qcap) ops).active ≤ n
    ∧ (TPool.run (tpInit n qcap) ops).active = (TPool.run (tpInit n qcap) ops).running.length := by
  have inv := tp_inv n qcap ops
  have := inv.bound
  rw [tp_run_n] at this
  exact ⟨this, inv.act⟩

/-- nothing accepted is lost: the "failed to acquire worker" branch is never taken, and every accepted task
    is queued, on its way to a worker, in service, or completed -/
theorem tpool_no_task_lost (n : Nat) (qcap : Option Nat) (ops : List TPool.Op) :
    let s := TPool.run (tpInit n qcap) ops
    s.rejected = 0 ∧ s.accepted = s.queue.length + TPool.inTransit s.pend + s.active + s.completed := by
  have inv := tp_inv n qcap ops
  exact ⟨inv.noLoss, inv.conserve⟩

example : let s := TPool.run (tpInit 1 none) [.submit 0, .submit 1, .notify, .poll, .deliver, .work 0, .disp, .finish 0, .poll, .deliver, .work 1]
    s.active = 1 ∧ s.completed = 1 ∧ s.accepted = 2 ∧ s.started = [0, 1] ∧ s.pend = [.disp] := by decide

/-- FIFO ledger: the accepted tasks, in acceptance order, are the started ones (in start order), then the
    one on its way to a worker, then the queued ones (in queue order); so no task is started twice -/
theorem tpool_fifo_ledger (n : Nat) (qcap : Option Nat) (ops : List TPool.Op) :
    let s := TPool.run (tpInit n qcap) ops
    s.acceptedL = s.started ++ TPool.transit s.pend ++ s.queue
    ∧ (s.acceptedL.Nodup → s.started.Nodup) := by
  have inv := tp_inv n qcap ops
  refine ⟨inv.order, ?_⟩
  intro hnd
  rw [inv.order, List.append_assoc] at hnd
  exact (List.nodup_append.mp hnd).1

/-- work conservation: when nothing is on its way inside the pool (no internal event pending), a queued
    task means every worker is busy -/
theorem tpool_head_not_grantable (n : Nat) (qcap : Option Nat) (ops : List TPool.Op)
    (hp : (TPool.run (tpInit n qcap) ops).pend = []) (hq : (TPool.run (tpInit n qcap) ops).queue ≠ []) :
    (TPool.run (tpInit n qcap) ops).active = n := by
  have inv := tp_inv n qcap ops
  have lv : TPool.Live (TPool.run (tpInit n qcap) ops) :=
    TPool.run_live _ ops (TPool.init_inv n qcap) (by intro h; exact absurd rfl h)
  have hb := inv.bound
  have hn : (TPool.run (tpInit n qcap) ops).n = n := tp_run_n _ ops
  rw [hn] at hb
  by_cases hlt : (TPool.run (tpInit n qcap) ops).active < n
  · have hlt' : (TPool.run (tpInit n qcap) ops).active < (TPool.run (tpInit n qcap) ops).n := by rw [hn]; exact hlt
    have hc : TPool.core (TPool.run (tpInit n qcap) ops).pend = [] := by rw [hp]; rfl
    rcases lv hq hlt' with h | h
    · rw [hp] at h; cases h
    · rcases inv.shape with g | g | g | g | g | g
      · have := g.1; rw [h.1] at this; cases this
      · rw [hc] at g; cases g.2.2
      · rw [hc] at g; cases g.2
      · obtain ⟨_, _, t, ht⟩ := g; rw [hc] at ht; cases ht
      · obtain ⟨_, _, t, ht⟩ := g; rw [hc] at ht; cases ht
      · rw [hc] at g; cases g.2
  · omega

example : let s := TPool.run (tpInit 1 (some 1)) [.submit 0, .notify, .poll, .deliver, .work 0, .disp, .submit 1, .submit 2, .notify]
    s.pend = [] ∧ s.queue = [1] ∧ s.active = 1 ∧ s.dropped = 1 := by decide

end TPoolProps

end HappyModel.C09
