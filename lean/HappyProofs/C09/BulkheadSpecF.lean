import HappyProofs.C09.BulkheadSpecE
/-! Bulkhead: the judge's books follow the driver over a `resp` line (`_handle_response` + `_try_process_queued`). -/
namespace HappyModel.C09.Bulkhead
open HappyModel.C09.Extra (BPend)

theorem resp_ok (max maxQ wait : Nat) (b : Book) (s : St) (p : BPend) (seen : List Nat) (t rid : Nat)
    (hw : s.wait = wait) (inv : Inv s)
    (ag : Agree b s p) (tg : Tags b s p seen) (pk : Peaks b s) (hexp : expected s p (.resp t rid) = true) :
    StepOK max maxQ wait b s p seen (.resp t rid) := by
  simp only [expected, Bool.and_eq_true] at hexp
  obtain ⟨hc, hsome⟩ := hexp
  cases hf : s.inflight.find? (·.2 == rid) with
  | none => rw [hf] at hsome; cases hsome
  | some e =>
    have hmemI : e ∈ s.inflight := List.mem_of_find?_eq_some hf
    have hany : s.inflight.any (·.1 == e.1) = true := List.any_eq_true.mpr ⟨e, hmemI, by simp⟩
    have hm : (rid, t) ∈ p.dones := List.contains_iff_mem.mp hc
    have hl := tag_lookup p.dones rid t tg.donesNd hm
    have hlen := filter_ne_length_nodup p.dones (rid, t) (nodup_of_map _ _ tg.donesNd) hm
    have hpos : 0 < s.active := by rw [inv.act]; exact List.length_pos_of_mem hmemI
    have hbound := inv.bound
    have hsp := tryProcess_spec { s with inflight := s.inflight.eraseP (·.1 == e.1), active := s.active - 1 } t
      (by show s.active - 1 < s.max; omega)
    have hpar := tryProcess_params { s with inflight := s.inflight.eraseP (·.1 == e.1), active := s.active - 1 } t
    have hsplit := skipped_append_remaining s.wait t s.queue
    have hsubD : ∀ x ∈ (p.dones.filter (· != (rid, t))).map (·.1), x ∈ p.dones.map (·.1) := by
      intro x hx
      obtain ⟨y, hy, rfl⟩ := List.mem_map.mp hx
      exact List.mem_map_of_mem (List.mem_filter.mp hy).1
    simp only [StepOK, obsOf, dstep, respStep, hc, hf, reqTags, List.nil_append, step_resp_known s e.1 t hany]
    generalize tryProcess { s with inflight := s.inflight.eraseP (·.1 == e.1), active := s.active - 1 } t = TP at hsp hpar ⊢
    dsimp only at hsp hpar
    obtain ⟨hX, hT, hR, hQ, hPQ, hnil, hcons⟩ := hsp
    -- the judge's walk over the expired prefix
    have hexpire : ({ b with toResp := b.toResp.filter (·.1 != rid) } : Book).expire wait t (skipped s.wait t s.queue).length
        = .ok { b with toResp := b.toResp.filter (·.1 != rid), waiting := (remaining s.wait t s.queue).map wf,
                       timedOut := b.timedOut ++ (skipped s.wait t s.queue).map Entry.rid } := by
      have := expire_skipped wait t (skipped s.wait t s.queue) (remaining s.wait t s.queue)
        { b with toResp := b.toResp.filter (·.1 != rid) } (by show b.waiting = _; rw [hsplit, ag.waiting])
        (by rw [← hw]; exact skipped_expired s.wait t s.queue)
      exact this
    have hn : TP.1.timedOut - b.timedOut.length = (skipped s.wait t s.queue).length := by
      rw [hX, ag.nTimed]; omega
    -- tags of the queue, split
    have hqt : qtags s = (skipped s.wait t s.queue).map Entry.rid ++ (remaining s.wait t s.queue).map Entry.rid := by
      rw [qtags, ← List.map_append, hsplit]
    have hqnd := tg.qNd
    rw [hqt, List.nodup_append] at hqnd
    obtain ⟨_, hremNd, hdisj⟩ := hqnd
    have hremq : ∀ q ∈ remaining s.wait t s.queue, q ∈ s.queue := by
      intro q hq; rw [← hsplit]; exact List.mem_append_right _ hq
    have hremt : ∀ x ∈ (remaining s.wait t s.queue).map Entry.rid, x ∈ qtags s := by
      intro x hx; rw [hqt]; exact List.mem_append_right _ hx
    have hskt : ∀ x ∈ (skipped s.wait t s.queue).map Entry.rid, x ∈ qtags s := by
      intro x hx; rw [hqt]; exact List.mem_append_left _ hx
    have hfindR : b.toResp.find? (·.1 == rid) = some (rid, t) := by rw [ag.toResp]; exact hl.1
    cases hrem : remaining s.wait t s.queue with
    | nil =>
      obtain ⟨h2, hq', hact, hacc, hpc, hnid⟩ := hnil hrem
      rw [hrem] at hexpire hremt
      simp only [h2]
      refine ⟨{ b with toResp := b.toResp.filter (·.1 != rid), waiting := ([] : List Entry).map wf,
                       timedOut := b.timedOut ++ (skipped s.wait t s.queue).map Entry.rid }, ?_, ?_, ?_, rfl, rfl, ?_⟩
      · simp only [Book.apply, cnt]
        rw [hfindR]
        simp only [ne_eq, not_true_eq_false, if_false]
        rw [hn, hexpire]
        rfl
      · refine ⟨ag.toStart, ag.running, ?_, ?_, ?_, ?_, ?_, ?_, ?_, ?_⟩
        · show b.toResp.filter (·.1 != rid) = p.dones.filter (· != (rid, t))
          rw [ag.toResp, hl.2]
        · show ([] : List Entry).map wf = TP.1.queue.map wf
          rw [hq']
        · show (b.timedOut ++ (skipped s.wait t s.queue).map Entry.rid).length = TP.1.timedOut
          rw [hX]; simp [ag.nTimed]
        · show b.admitted.length = TP.1.accepted
          rw [hacc]; exact ag.nAdm
        · show b.nReq = TP.1.total
          rw [hT]; exact ag.nReq
        · show b.nRej = TP.1.rejected
          rw [hR]; exact ag.nRej
        · show b.nQueued = TP.1.queued
          rw [hQ]; exact ag.nQueued
        · show TP.1.active = p.starts.length + p.running.length + (p.dones.filter (· != (rid, t))).length
          rw [hact]; have := ag.active; omega
      · refine ⟨tg.startsNd, tg.runNd, ?_, tg.d12, ?_, ?_, tg.s1, tg.s2, ?_, ?_, ?_, ?_, tg.admSeen, ?_, ?_, tg.tmSeen, ?_, ?_, ?_⟩
        · exact List.Nodup.sublist (List.Sublist.map _ List.filter_sublist) tg.donesNd
        · intro x hx hr; exact tg.d13 x hx (hsubD x hr)
        · intro x hx hr; exact tg.d23 x hx (hsubD x hr)
        · intro x hx; exact tg.s3 x (hsubD x hx)
        · show (TP.1.queue.map Entry.rid).Nodup
          rw [hq']; simp
        · intro x hx
          have : x ∈ TP.1.queue.map Entry.rid := hx
          rw [hq'] at this; cases this
        · intro x hx
          have : x ∈ TP.1.queue.map Entry.rid := hx
          rw [hq'] at this; cases this
        · intro x hx
          rcases List.mem_append.mp (show x ∈ b.timedOut ++ (skipped s.wait t s.queue).map Entry.rid from hx) with h | h
          · exact tg.toSeen x h
          · exact tg.qSeen x (hskt x h)
        · intro x hx
          have : x ∈ TP.1.queue.map Entry.rid := hx
          rw [hq'] at this; cases this
        · intro x hx; rw [hnid]; exact tg.tmFresh x hx
        · intro x hx; rw [hpar.2.2]; exact tg.tmWait x hx
        · intro x hx q hq
          rw [hq'] at hq; cases hq
      · refine ⟨?_, ?_⟩
        · rw [hpc, hact, if_neg (by have := pk.geA; omega)]
        · rw [hPQ, hq', if_neg (by simp)]
    | cons e' es =>
      obtain ⟨h2, hq', hact, hacc, hpc, hnid⟩ := hcons e' es hrem
      rw [hrem] at hexpire hremt hremq hremNd hdisj
      simp only [List.map_cons, List.nodup_cons] at hremNd
      have he'q : e'.rid ∈ qtags s := hremt _ (by simp)
      have hesq : ∀ x ∈ es.map Entry.rid, x ∈ qtags s := fun x hx => hremt x (by simp at hx ⊢; exact Or.inr hx)
      have he'adm : e'.rid ∉ b.admitted := tg.qAdm _ he'q
      have he'to : e'.rid ∉ b.timedOut ++ (skipped s.wait t s.queue).map Entry.rid := by
        intro h
        rcases List.mem_append.mp h with h | h
        · exact tg.qTo _ he'q h
        · exact hdisj _ h e'.rid (by simp) rfl
      simp only [h2]
      refine ⟨{ b with toResp := b.toResp.filter (·.1 != rid), waiting := es.map wf,
                       timedOut := b.timedOut ++ (skipped s.wait t s.queue).map Entry.rid,
                       toStart := b.toStart ++ [(e'.rid, t)], admitted := b.admitted ++ [e'.rid] }, ?_, ?_, ?_, rfl, rfl, ?_⟩
      · simp only [Book.apply, cnt]
        rw [hfindR]
        simp only [ne_eq, not_true_eq_false, if_false]
        rw [hn, hexpire]
        exact admitAll_one _ t e'.rid e'.enq (es.map wf) he'to he'adm rfl
      · refine ⟨?_, ag.running, ?_, ?_, ?_, ?_, ?_, ?_, ?_, ?_⟩
        · show b.toStart ++ [(e'.rid, t)] = p.starts ++ [(e'.rid, t)]
          rw [ag.toStart]
        · show b.toResp.filter (·.1 != rid) = p.dones.filter (· != (rid, t))
          rw [ag.toResp, hl.2]
        · show es.map wf = TP.1.queue.map wf
          rw [hq']
        · show (b.timedOut ++ (skipped s.wait t s.queue).map Entry.rid).length = TP.1.timedOut
          rw [hX]; simp [ag.nTimed]
        · show (b.admitted ++ [e'.rid]).length = TP.1.accepted
          rw [hacc]; simp [ag.nAdm]
        · show b.nReq = TP.1.total
          rw [hT]; exact ag.nReq
        · show b.nRej = TP.1.rejected
          rw [hR]; exact ag.nRej
        · show b.nQueued = TP.1.queued
          rw [hQ]; exact ag.nQueued
        · show TP.1.active = (p.starts ++ [(e'.rid, t)]).length + p.running.length + (p.dones.filter (· != (rid, t))).length
          rw [hact]; have := ag.active; simp; omega
      · have hst : ∀ x ∈ (p.starts ++ [(e'.rid, t)]).map (·.1), x ∈ p.starts.map (·.1) ∨ x = e'.rid := by
          intro x hx
          have hx' : x ∈ p.starts.map (·.1) ++ [e'.rid] := by simpa using hx
          exact mem_snoc hx'
        refine ⟨?_, tg.runNd, ?_, ?_, ?_, ?_, ?_, ?_, ?_, ?_, ?_, ?_, ?_, ?_, ?_, tg.tmSeen, ?_, ?_, ?_⟩
        · show ((p.starts ++ [(e'.rid, t)]).map (·.1)).Nodup
          rw [List.map_append]
          exact nodup_snoc _ _ tg.startsNd (fun h => he'adm (tg.s1 _ h))
        · exact List.Nodup.sublist (List.Sublist.map _ List.filter_sublist) tg.donesNd
        · intro x hx hr
          rcases hst x hx with h | h
          · exact tg.d12 x h hr
          · subst h; exact he'adm (tg.s2 _ hr)
        · intro x hx hr
          rcases hst x hx with h | h
          · exact tg.d13 x h (hsubD x hr)
          · subst h; exact he'adm (tg.s3 _ (hsubD _ hr))
        · intro x hx hr; exact tg.d23 x hx (hsubD x hr)
        · intro x hx
          show x ∈ b.admitted ++ [e'.rid]
          rcases hst x hx with h | h
          · exact List.mem_append_left _ (tg.s1 x h)
          · subst h; simp
        · intro x hx; exact List.mem_append_left _ (tg.s2 x hx)
        · intro x hx; exact List.mem_append_left _ (tg.s3 x (hsubD x hx))
        · show (TP.1.queue.map Entry.rid).Nodup
          rw [hq']; exact hremNd.2
        · intro x hx hr
          have hx' : x ∈ es.map Entry.rid := by have : x ∈ TP.1.queue.map Entry.rid := hx; rwa [hq'] at this
          rcases mem_snoc (show x ∈ b.admitted ++ [e'.rid] from hr) with h | h
          · exact tg.qAdm x (hesq x hx') h
          · subst h; exact hremNd.1 hx'
        · intro x hx hr
          have hx' : x ∈ es.map Entry.rid := by have : x ∈ TP.1.queue.map Entry.rid := hx; rwa [hq'] at this
          rcases List.mem_append.mp (show x ∈ b.timedOut ++ (skipped s.wait t s.queue).map Entry.rid from hr) with h | h
          · exact tg.qTo x (hesq x hx') h
          · exact hdisj _ h x (by simp; exact Or.inr (by simpa using hx')) rfl
        · intro x hx
          rcases mem_snoc (show x ∈ b.admitted ++ [e'.rid] from hx) with h | h
          · exact tg.admSeen x h
          · subst h; exact tg.qSeen _ he'q
        · intro x hx
          rcases List.mem_append.mp (show x ∈ b.timedOut ++ (skipped s.wait t s.queue).map Entry.rid from hx) with h | h
          · exact tg.toSeen x h
          · exact tg.qSeen x (hskt x h)
        · intro x hx
          have hx' : x ∈ es.map Entry.rid := by have : x ∈ TP.1.queue.map Entry.rid := hx; rwa [hq'] at this
          exact tg.qSeen x (hesq x hx')
        · intro x hx; rw [hnid]; have := tg.tmFresh x hx; omega
        · intro x hx; rw [hpar.2.2]; exact tg.tmWait x hx
        · intro x hx q hq
          rw [hq'] at hq
          rw [hpar.2.2]
          exact tg.tmLink x hx q (hremq q (List.mem_cons_of_mem _ hq))
      · refine ⟨?_, ?_⟩
        · rw [hpc, hact]
        · rw [hPQ, hq']
          have h1 : (skipped s.wait t s.queue ++ e' :: es).length = s.queue.length := by rw [← hrem, hsplit]
          rw [if_neg (by have := pk.geQ; simp at h1; omega)]

end HappyModel.C09.Bulkhead
