import HappyProofs.C09.WaitFrame
/-!
# C09 — `wait_is_silent`, part 2: one loop iteration and whole runs

States of the engine + process layer (`St PS`, machine `procMachine`) in which process `pid` is parked
on future slot `f`.  `Blocked`/`Woken`/`WokenBy`/`Lost` describe such a state and what one loop
iteration (`stepWith procMachine s m`, for *any* pending event `m`) can turn it into; `Quiet` says that
nothing was delivered to `pid`.
-/
namespace HappyModel.C09.WaitSilent
open HappyModel.C01
set_option linter.unusedVariables false

/-- **blocked**: `pid` is parked on the unresolved future `f` and no event of `pid` is pending, so
    whatever the loop pops next is not a delivery to `pid` -/
structure Blocked (f pid : Nat) (s : St PS) : Prop where
  parked : (futGet s.ent.futs f).parked = some pid
  unresolved : (futGet s.ent.futs f).resolved = false
  noEvent : ∀ e ∈ s.heap, e.data ≠ pid + 1

/-- **woken in the step that delivered `m`**: the handler of `m` ran (it is the last delivery), the clock
    is `m.time`, exactly one event of `pid` is pending — its continuation — created in this step
    (`born`) and stamped with the clock of this step; `pid` is parked nowhere -/
structure Woken (pid : Nat) (m : Ev) (s' : St PS) : Prop where
  ran : s'.log.getLast? = some m
  clock : s'.now = m.time
  one : cntHeap s'.heap pid = 1
  stamped : ∀ c ∈ s'.heap, c.data = pid + 1 → c.time = m.time ∧ c.born = m.time
  unparked : ∀ g, (futGet s'.ent.futs g).parked ≠ some pid

/-- … and it was the resolution of `f` that woke it: `f` is resolved, nobody is parked on it and the
    process record holds `f`'s value as the value to send into the generator -/
structure WokenBy (f pid : Nat) (s' : St PS) : Prop where
  resolved : (futGet s'.ent.futs f).resolved = true
  nobody : (futGet s'.ent.futs f).parked = none
  value : ∃ q, s'.ent.procs[pid]? = some q ∧ q.send = (futGet s'.ent.futs f).value

/-- **wake-up lost**: slot `f` was overwritten while `pid` was parked on it (rebound by `fresh` /
    `any_of` / `all_of`, or a second process parked on it — the implementation raises `RuntimeError`
    for the latter and cannot do the former to a future that is a local of `acquire()`); `pid` has no
    pending resumption at all: it stays silent for ever -/
structure Lost (pid : Nat) (s' : St PS) : Prop where
  noEvent : ∀ e ∈ s'.heap, e.data ≠ pid + 1
  unparked : ∀ g, (futGet s'.ent.futs g).parked ≠ some pid

/-- nothing happened to `pid` between `s` and `s'`: no event of `pid` was delivered, none was even popped
    (cancelled / stale / gated), and the generator was not resumed -/
structure Quiet (pid : Nat) (s s' : St PS) : Prop where
  deliveries : cntHeap s'.log pid = cntHeap s.log pid
  pops : cntHeap (s'.popped.map Prod.fst) pid = cntHeap (s.popped.map Prod.fst) pid
  resumes : resCount s'.ent.obs pid = resCount s.ent.obs pid

theorem Quiet.refl (pid : Nat) (s : St PS) : Quiet pid s s := ⟨rfl, rfl, rfl⟩

theorem Quiet.trans {pid : Nat} {a b c : St PS} (h1 : Quiet pid a b) (h2 : Quiet pid b c) : Quiet pid a c :=
  ⟨h2.deliveries.trans h1.deliveries, h2.pops.trans h1.pops, h2.resumes.trans h1.resumes⟩

/-! ### (a) no activity while blocked -/

/-- in a reachable state (`ProcInv`), a process parked on a future is blocked: the future is unresolved
    and the heap holds no event of the process -/
theorem blocked_of_parked (s : St PS) (inv : ProcInv s) (f pid : Nat)
    (hpk : (futGet s.ent.futs f).parked = some pid) : Blocked f pid s :=
  ⟨hpk, (inv.parkOk f pid hpk).1, inv.park_excludes_continuation f pid hpk⟩

theorem Blocked.cntHeap_zero {f pid : Nat} {s : St PS} (h : Blocked f pid s) : cntHeap s.heap pid = 0 := by
  unfold cntHeap
  rw [List.countP_eq_zero]
  intro e he
  simpa using h.noEvent e he

theorem noEvent_of_cntHeap_zero {l : List Ev} {pid : Nat} (h : cntHeap l pid = 0) :
    ∀ e ∈ l, e.data ≠ pid + 1 := by
  unfold cntHeap at h
  rw [List.countP_eq_zero] at h
  intro e he
  simpa using h e he

theorem cntHeap_snoc_other (l : List Ev) (m : Ev) (pid : Nat) (h : m.data ≠ pid + 1) :
    cntHeap (l ++ [m]) pid = cntHeap l pid := by
  rw [cntHeap_append]
  simp [cntHeap, h]

/-! ### (b) one loop iteration -/

theorem mkEvents_mem (n t : Nat) (specs : List Spec) :
    ∀ e ∈ mkEvents n t specs, ∃ sp ∈ specs, e.data = sp.data ∧ e.time = sp.time ∧ e.born = t := by
  induction specs generalizing n with
  | nil => simp [mkEvents]
  | cons s ss ih =>
    intro e he
    simp only [mkEvents, List.mem_cons] at he
    rcases he with rfl | he
    · exact ⟨s, by simp, rfl, rfl, rfl⟩
    · obtain ⟨sp, hsp, h⟩ := ih (n + 1) e he
      exact ⟨sp, by simp [hsp], h⟩

/-- the loop body: either the popped event is dropped (cancelled, stale, crash-gated) and nothing else
    changes, or its handler runs at clock `m.time` -/
theorem stepWith_cases (s : St PS) (m : Ev) (s' : St PS) (hs' : stepWith procMachine s m = s') :
    (s'.heap = s.heap.erase m ∧ s'.ent = s.ent ∧ s'.log = s.log ∧ ∃ v, s'.popped = s.popped ++ [(m, v)]) ∨
    (s'.heap = s.heap.erase m ++ mkEvents s.nextId m.time (procEff s.ent m.time m).specs ∧
      s'.ent = (procEff s.ent m.time m).ps ∧ s'.now = m.time ∧ s'.log = s.log ++ [m] ∧
      s'.popped = s.popped ++ [(m, .delivered)]) := by
  have heq := procHandle_eq s.ent m.time m
  unfold stepWith at hs'
  simp only [] at hs'
  split at hs'
  · subst hs'; exact Or.inl ⟨rfl, rfl, rfl, _, rfl⟩
  · split at hs'
    · subst hs'; exact Or.inl ⟨rfl, rfl, rfl, _, rfl⟩
    · split at hs'
      · subst hs'; exact Or.inl ⟨rfl, rfl, rfl, _, rfl⟩
      · subst hs'
        refine Or.inr ⟨?_, ?_, rfl, rfl, rfl⟩
        · show s.heap.erase m ++ mkEvents s.nextId m.time (procHandle s.ent m.time m).specs = _
          rw [heq]
        · show (procHandle s.ent m.time m).ent = _
          rw [heq]

/-- **one loop iteration from a state in which `pid` is parked on `f`** — for every handler table,
    every reachable state and whichever pending event `m` is popped:

    * nothing is delivered to `pid` in this iteration (`Quiet`);
    * afterwards `pid` is still blocked on `f`, or it was woken in this very iteration (one
      continuation, stamped with this iteration's clock `m.time`, which is the new `now`), or slot `f`
      was overwritten and the wake-up is lost;
    * if the code run by `m` leaves slot `f` alone (`stepKeeps`), the third case is excluded and the
      wake-up is the resolution of `f`, whose value the process will receive. -/
theorem wait_step (s : St PS) (inv : ProcInv s) (f pid : Nat)
    (hpk : (futGet s.ent.futs f).parked = some pid) (m : Ev) (hm : m ∈ s.heap) :
    m.data ≠ pid + 1 ∧
    Quiet pid s (stepWith procMachine s m) ∧
    (Blocked f pid (stepWith procMachine s m) ∨ Woken pid m (stepWith procMachine s m) ∨
      Lost pid (stepWith procMachine s m)) ∧
    (stepKeeps f s.ent m = true →
      Blocked f pid (stepWith procMachine s m) ∨
      (Woken pid m (stepWith procMachine s m) ∧ WokenBy f pid (stepWith procMachine s m))) := by
  have hmd := inv.park_excludes_continuation f pid hpk
  have hmm : m.data ≠ pid + 1 := hmd m hm
  have hunres := (inv.parkOk f pid hpk).1
  have inv' : ProcInv (stepWith procMachine s m) := step_procInv s m inv hm
  generalize hs' : stepWith procMachine s m = s' at inv'
  have hpops : ∀ v, cntHeap ((s.popped ++ [(m, v)]).map Prod.fst) pid = cntHeap (s.popped.map Prod.fst) pid := by
    intro v
    rw [List.map_append]
    exact cntHeap_snoc_other _ m pid hmm
  refine ⟨hmm, ?_⟩
  rcases stepWith_cases s m s' hs' with ⟨hh, he, hl, v, hp⟩ | ⟨hh, he, hn, hl, hp⟩
  · -- dropped: nothing but the popped event changes
    have hb : Blocked f pid s' :=
      ⟨by rw [he]; exact hpk, by rw [he]; exact hunres,
        by intro e he'; rw [hh] at he'; exact hmd e (List.mem_of_mem_erase he')⟩
    exact ⟨⟨by rw [hl], by rw [hp]; exact hpops v, by rw [he]⟩, Or.inl hb, fun _ => Or.inl hb⟩
  · -- delivered: the handler of `m` ran at clock `m.time`
    have ht := (procEff_track False s inv f pid hpk m hm m.time (fun hc => hc.elim)).1
    generalize hr : procEff s.ent m.time m = r at hh he ht
    have hq : Quiet pid s s' :=
      ⟨by rw [hl]; exact cntHeap_snoc_other _ m pid hmm, by rw [hp]; exact hpops _,
        by rw [he]; exact ht.obsSame⟩
    have herase : cntHeap (s.heap.erase m) pid = 0 := by
      have h1 := cntHeap_erase_le s.heap m pid
      have h2 := (blocked_of_parked s inv f pid hpk).cntHeap_zero
      omega
    have hcount : cntHeap s'.heap pid = cntSpec r.specs pid := by
      rw [hh, cntHeap_append, cntHeap_mkEvents, herase]; omega
    have hmk : (futGet s'.ent.futs f).parked = some pid → Blocked f pid s' := fun hpk' =>
      blocked_of_parked s' inv' f pid hpk'
    have hunp : (futGet s'.ent.futs f).parked ≠ some pid → ∀ g, (futGet s'.ent.futs g).parked ≠ some pid := by
      intro hnp g hg
      rw [he] at hg hnp
      have := ht.onlyF g hg
      rw [this] at hg
      exact hnp hg
    have hone := inv'.atMostOne pid
    have hwoken : (futGet s'.ent.futs f).parked ≠ some pid → cntHeap s'.heap pid ≠ 0 → Woken pid m s' := by
      intro hnp hnz
      refine ⟨by rw [hl]; simp, hn, by omega, ?_, hunp hnp⟩
      intro c hc hcd
      rw [hh] at hc
      rcases List.mem_append.mp hc with hc | hc
      · exact absurd hcd (hmd c (List.mem_of_mem_erase hc))
      · obtain ⟨sp, hsp, h1, h2, h3⟩ := mkEvents_mem _ _ _ c hc
        exact ⟨by rw [h2]; exact ht.contNow sp hsp (by rw [← h1]; exact hcd), h3⟩
    refine ⟨hq, ?_, ?_⟩
    · by_cases hpk' : (futGet s'.ent.futs f).parked = some pid
      · exact Or.inl (hmk hpk')
      · by_cases hz : cntHeap s'.heap pid = 0
        · exact Or.inr (Or.inr ⟨noEvent_of_cntHeap_zero hz, hunp hpk'⟩)
        · exact Or.inr (Or.inl (hwoken hpk' hz))
    · intro hkeep
      have hlink := (procEff_track True s inv f pid hpk m hm m.time (fun _ => hkeep)).2 trivial
      rw [hr] at hlink
      rcases hlink with hl1 | ⟨h1, h2, h3, q, h4, h5⟩
      · exact Or.inl (hmk (by rw [he]; exact hl1))
      · right
        have hnp : (futGet s'.ent.futs f).parked ≠ some pid := by rw [he, h2]; simp
        refine ⟨hwoken hnp (by omega), ⟨by rw [he]; exact h1, by rw [he]; exact h2, q, by rw [he]; exact h4, ?_⟩⟩
        rw [he]; exact h5

/-! ### (c) whole runs -/

theorem run_of_step_none {σ} (mc : Machine σ) (endT : Option Nat) (s : St σ) (h : step mc endT s = none) :
    ∀ n, run mc endT n s = s := by
  intro n
  cases n with
  | zero => rfl
  | succ n => simp [run, h]

theorem run_of_step_some {σ} (mc : Machine σ) (endT : Option Nat) (s s1 : St σ) (h : step mc endT s = some s1) :
    ∀ n, run mc endT (n + 1) s = run mc endT n s1 := by
  intro n
  simp [run, h]

/-- the loop pops a pending event -/
theorem step_some_mem {σ} (mc : Machine σ) (endT : Option Nat) (s s1 : St σ) (h : step mc endT s = some s1) :
    ∃ m ∈ s.heap, s1 = stepWith mc s m := by
  unfold step at h
  split at h
  · simp at h
  · rename_i x xs hheap
    split at h
    · simp at h
      exact ⟨minOf x xs, by rw [hheap]; exact (pop_is_min x xs).1, h.symm⟩
    · simp at h

/-- what a run from a state in which `pid` is parked on `f` looks like after `n` iterations -/
def SilentRun (endT : Option Nat) (f pid : Nat) (s0 : St PS) (n : Nat) : Prop :=
  -- still waiting: blocked in every state so far, nothing delivered to `pid`
  ((∀ j, j ≤ n → Blocked f pid (run procMachine endT j s0)) ∧
    Quiet pid s0 (run procMachine endT n s0)) ∨
  -- or there is a first iteration `k + 1 ≤ n` that ends the wait: blocked in every state up to `k`,
  -- nothing delivered to `pid` up to and including iteration `k + 1`, which delivers some pending event
  -- `m` (the releaser) and wakes `pid` with a continuation stamped `m.time` (or loses the wake-up by
  -- overwriting slot `f`; excluded if the code of `m` leaves slot `f` alone)
  (∃ k m, k < n ∧ (∀ j, j ≤ k → Blocked f pid (run procMachine endT j s0)) ∧
    m ∈ (run procMachine endT k s0).heap ∧
    run procMachine endT (k + 1) s0 = stepWith procMachine (run procMachine endT k s0) m ∧
    Quiet pid s0 (run procMachine endT (k + 1) s0) ∧
    (Woken pid m (run procMachine endT (k + 1) s0) ∨ Lost pid (run procMachine endT (k + 1) s0)) ∧
    (stepKeeps f (run procMachine endT k s0).ent m = true →
      Woken pid m (run procMachine endT (k + 1) s0) ∧ WokenBy f pid (run procMachine endT (k + 1) s0)))

/-- **runs**: from any reachable state in which `pid` is parked on `f`, for every end time and number
    of iterations: as long as the wait has not been ended, `pid` receives no delivery; the iteration
    that ends it stamps the continuation with its own clock value -/
theorem wait_run (endT : Option Nat) (n : Nat) (s0 : St PS) (inv : ProcInv s0) (f pid : Nat)
    (hpk : (futGet s0.ent.futs f).parked = some pid) : SilentRun endT f pid s0 n := by
  induction n generalizing s0 with
  | zero =>
    left
    refine ⟨?_, Quiet.refl _ _⟩
    intro j hj
    have : j = 0 := by omega
    subst this
    exact blocked_of_parked s0 inv f pid hpk
  | succ n ih =>
    have hb0 := blocked_of_parked s0 inv f pid hpk
    cases hs : step procMachine endT s0 with
    | none =>
      left
      have hrun := run_of_step_none procMachine endT s0 hs
      refine ⟨fun j _ => by rw [hrun]; exact hb0, by rw [hrun]; exact Quiet.refl _ _⟩
    | some s1 =>
      have hrun := run_of_step_some procMachine endT s0 s1 hs
      obtain ⟨m, hm, hs1⟩ := step_some_mem procMachine endT s0 s1 hs
      have inv1 : ProcInv s1 := by rw [hs1]; exact step_procInv s0 m inv hm
      obtain ⟨_, hq, htri, hkeep⟩ := wait_step s0 inv f pid hpk m hm
      rw [← hs1] at hq htri hkeep
      have hend : (Woken pid m s1 ∨ Lost pid s1) → SilentRun endT f pid s0 (n + 1) := by
        intro hwl
        right
        refine ⟨0, m, by omega, ?_, hm, ?_, ?_, ?_, ?_⟩
        · intro j hj
          have : j = 0 := by omega
          subst this
          exact hb0
        · rw [hrun 0]; exact hs1
        · rw [hrun 0]; exact hq
        · rw [hrun 0]; exact hwl
        · rw [hrun 0]
          intro hk
          rcases hkeep hk with hb | hw
          · rcases hwl with hw | hl
            · exact absurd hb.parked (hw.unparked f)
            · exact absurd hb.parked (hl.unparked f)
          · exact hw
      rcases htri with hb | hw | hl
      · rcases ih s1 inv1 hb.parked with ⟨hall, hq'⟩ | ⟨k, m', hk, hall, hm', hstep, hq', hout, hcond⟩
        · left
          refine ⟨?_, by rw [hrun]; exact hq.trans hq'⟩
          intro j hj
          cases j with
          | zero => exact hb0
          | succ j => rw [hrun]; exact hall j (by omega)
        · right
          refine ⟨k + 1, m', by omega, ?_, by rw [hrun]; exact hm', ?_, ?_, ?_, ?_⟩
          · intro j hj
            cases j with
            | zero => exact hb0
            | succ j => rw [hrun]; exact hall j (by omega)
          · rw [hrun (k + 1), hrun k]; exact hstep
          · rw [hrun (k + 1)]; exact hq.trans hq'
          · rw [hrun (k + 1)]; exact hout
          · rw [hrun (k + 1), hrun k]; exact hcond
      · exact hend (Or.inl hw)
      · exact hend (Or.inr hl)

/-! ### the delivery of the continuation is the resumption, logged at the continuation's time stamp -/

theorem markResolved_obs (e : Eff) (now f : Nat) (v : Val) : (markResolved e now f v).ps.obs = e.ps.obs := by
  rcases markResolved_cases e now f v with h1 | ⟨pid, p, hpk, hp, h1⟩
  · rw [h1]; rfl
  · rw [h1]; rfl

theorem resumeParked_obs (e : Eff) (now f : Nat) : (resumeParked e now f).ps.obs = e.ps.obs := by
  cases hpk : (futGet e.ps.futs f).parked with
  | none => rw [resumeParked_none e now f hpk]
  | some pid =>
    cases hp : e.ps.procs[pid]? with
    | none => rw [resumeParked_noproc e now f pid hpk hp]
    | some p => rw [resumeParked_some e now f pid p hpk hp]; rfl

/-- log entries are never removed by the code of a segment -/
theorem memObs_closed (o : Obs) : Closed (fun e : Eff => o ∈ e.ps.obs) where
  resolve := by intro e now f v h hr; rw [markResolved_obs]; exact h
  allUpd := fun e c res rem h hr => h
  cbAdd := fun e g cb h hr => h
  bind := fun e f rs rm h => h
  push := fun e sp hook tagged hd h => h
  release := fun e i sp h hm => h
  crashed := fun e l h => h
  cancels := fun e l h => h
  hookLate := fun e pid hook h => h
  hookEarly := fun e id hook h => h
  level := fun e l h => h
  hops := fun e l h => h
  obs := fun e o' ho h => List.mem_cons_of_mem _ h

/-- a started process with code left that is advanced at clock `now` logs `resume now pid send tag` -/
theorem runSegment_logs_resume (now : Nat) (e : Eff) (pid tag : Nat) (p : Proc)
    (hp : e.ps.procs[pid]? = some p) (hst : p.started = true) (hsg : p.segs ≠ []) :
    Obs.resume now pid p.send tag ∈ (runSegment now e pid tag).ps.obs := by
  cases hs : p.segs with
  | nil => exact absurd hs hsg
  | cons seg rest =>
    rw [runSegment_eq now e pid tag p seg rest hp hs]
    unfold segBody
    have h0 : Obs.resume now pid p.send tag ∈ (segStart now e pid tag p).ps.obs := by
      unfold segStart
      simp [hst]
    have h1 := acts_closed (memObs_closed (Obs.resume now pid p.send tag)) now seg.acts _ h0
    generalize seg.acts.foldl (runAct now) (segStart now e pid tag p) = e1 at h1
    cases seg.term with
    | yieldD d => exact h1
    | yieldF g =>
      simp only [segTerm]
      split
      · rw [resumeParked_obs]; exact h1
      · exact h1
    | ret =>
      simp only [segTerm]
      apply runHooks_closed (memObs_closed _)
      exact List.mem_cons_of_mem _ h1

/-- **the resumption is stamped with the continuation's time**: when the continuation event `c` of
    `pid` (`c.data = pid + 1`) is delivered — not cancelled, not stale, not crash-gated — the clock is
    `c.time` and, if the process has been started and has code left, `resume c.time pid send tag` is
    logged with the value stored by the resolve.  With `Woken.stamped` (`c.time` = clock of the waking
    iteration): the waiter resumes at the clock value of the release. -/
theorem resume_at_stamp (s : St PS) (c : Ev) (pid : Nat) (p : Proc) (hd : c.data = pid + 1)
    (hnc : s.cancelled.contains c.id = false) (hns : ¬ c.time < s.now) (hng : procCrashed s.ent c = false)
    (hp : s.ent.procs[pid]? = some p) (hst : p.started = true) (hsg : p.segs ≠ []) :
    (stepWith procMachine s c).now = c.time ∧
    Obs.resume c.time pid p.send c.tag ∈ (stepWith procMachine s c).ent.obs := by
  have hng' : procMachine.crashed s.ent c = false := hng
  have heq := procHandle_eq s.ent c.time c
  have hdz : c.data ≠ 0 := by omega
  have hpid : c.data - 1 = pid := by omega
  have hobs : Obs.resume c.time pid p.send c.tag ∈ (procEff s.ent c.time c).ps.obs := by
    unfold procEff
    simp only [hdz, if_false, hpid]
    exact runSegment_logs_resume c.time { ps := s.ent } pid c.tag p hp hst hsg
  constructor
  · unfold stepWith
    simp only [hnc, hns, hng', Bool.false_eq_true, if_false]
  · unfold stepWith
    simp only [hnc, hns, hng', Bool.false_eq_true, if_false]
    show _ ∈ (procHandle s.ent c.time c).ent.obs
    rw [heq]
    exact hobs

end HappyModel.C09.WaitSilent
