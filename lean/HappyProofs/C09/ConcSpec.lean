import HappyProofs.C09.ConcInv
/-! The concurrency-limiter model (fixed / dynamic / weighted) satisfies the executable Spec predicate
`Conc.judge` — the one that judges implementation transcripts — on its own transcript, for every
operation list.  The transcript line is the one `Driver.runConc` prints and `Driver.judgeConc`
parses: operation, result, and `act` / `av` / `lim` of the post-state. -/
namespace HappyModel.C09.Conc

/-- one transcript line: `act=` active, `av=` `available`, `lim=` limit of the post-state -/
def obsOf (o : Op) (r : Res) (s' : St) : Obs := ⟨o, r, s'.active, available s', s'.limit⟩

def obsTrace (s : St) : List Op → List Obs
  | [] => []
  | o :: os => obsOf o (step s o).2 (step s o).1 :: obsTrace (step s o).1 os

/-- what is needed of the *initial* state (the constructors of `concurrency.py` enforce more, see
    `Constructed`): nothing is running, the limit is not negative, and the bounds of a dynamic
    limiter are not negative (so that `clampLimit` cannot produce a negative limit; `maxL = 0`
    encodes `max_limit=None`). -/
structure Start (s0 : St) : Prop where
  idle : s0.active = 0
  limNonneg : 0 ≤ s0.limit
  dynBounds : s0.kind = 1 → 0 ≤ s0.minL ∧ 0 ≤ s0.maxL

instance (s0 : St) : Decidable (Start s0) :=
  if h : s0.active = 0 ∧ 0 ≤ s0.limit ∧ (s0.kind = 1 → 0 ≤ s0.minL ∧ 0 ≤ s0.maxL) then
    isTrue ⟨h.1, h.2.1, h.2.2⟩
  else isFalse (fun st => h ⟨st.idle, st.limNonneg, st.dynBounds⟩)

/-- what `FixedConcurrency(n)`, `DynamicConcurrency(initial, min_limit, max_limit)` and
    `WeightedConcurrency(n)` check before they construct (`ValueError` otherwise) -/
def Constructed (s0 : St) : Prop :=
  s0.active = 0 ∧
  (if s0.kind = 1 then
     1 ≤ s0.minL ∧ s0.minL ≤ s0.limit ∧ (s0.maxL ≠ 0 → s0.minL ≤ s0.maxL ∧ s0.limit ≤ s0.maxL)
   else 1 ≤ s0.limit)

instance (s0 : St) : Decidable (Constructed s0) := by unfold Constructed; infer_instance

theorem Constructed.start {s0 : St} (h : Constructed s0) : Start s0 := by
  obtain ⟨ha, hk⟩ := h
  by_cases k1 : s0.kind = 1
  · rw [if_pos k1] at hk
    refine ⟨ha, by omega, fun _ => ⟨by omega, ?_⟩⟩
    by_cases hm : s0.maxL = 0
    · omega
    · have := hk.2.2 hm; omega
  · rw [if_neg k1] at hk
    exact ⟨ha, by omega, fun h => absurd h k1⟩

def isSetLimit : Op → Bool
  | .setLimit _ => true
  | _ => false

/-- `set_limit` exists on `DynamicConcurrency` only (the model answers `err` elsewhere, a line the
    judge does not know: `limiter/unknown-observation`) -/
def OpsOk (s0 : St) (ops : List Op) : Prop := s0.kind ≠ 1 → ops.all (fun o => !isSetLimit o) = true

instance (s0 : St) (ops : List Op) : Decidable (OpsOk s0 ops) := by unfold OpsOk; infer_instance

/-- the state relation maintained along a run started in `s0` -/
structure Rel (s0 s : St) : Prop where
  kind : s.kind = s0.kind
  minL : s.minL = s0.minL
  maxL : s.maxL = s0.maxL
  actNonneg : 0 ≤ s.active
  limNonneg : 0 ≤ s.limit
  within : s.kind ≠ 1 → s.active ≤ s.limit
  dynBounds : s.kind = 1 → 0 ≤ s.minL ∧ 0 ≤ s.maxL

theorem Start.rel {s0 : St} (h : Start s0) : Rel s0 s0 :=
  ⟨rfl, rfl, rfl, by rw [h.idle]; omega, h.limNonneg, fun _ => by rw [h.idle]; exact h.limNonneg, h.dynBounds⟩

theorem clampLimit_frame (s0 s : St) (l n : Int) (h1 : s.minL = s0.minL) (h2 : s.maxL = s0.maxL) :
    clampLimit { s0 with limit := l } n = clampLimit s n := by
  simp only [clampLimit, h1, h2]

theorem clampLimit_nonneg (s : St) (n : Int) (h1 : 0 ≤ s.minL) (h2 : 0 ≤ s.maxL) : 0 ≤ clampLimit s n := by
  unfold clampLimit
  dsimp only
  split <;> omega

/-- the books the judge keeps are exactly (active, limit) of the model -/
def bookOf (s : St) : Book := { out := s.active, limit := s.limit }

theorem check_none (s0 : St) (g : Bool) (b : Book) (o : Obs) (h1 : o.lim = b.limit) (h2 : o.act = b.out)
    (h3 : g = true → b.out ≤ b.limit) (h4 : s0.kind ≠ 1 → b.out ≤ b.limit ∧ b.out + o.av = b.limit)
    (h5 : s0.kind = 1 → o.av = max 0 (b.limit - b.out)) (h6 : 0 ≤ o.av ∧ o.av ≤ b.limit) :
    b.check s0 g o = none := by
  unfold Book.check
  rw [if_neg (fun h => h h1), if_neg (fun h => h h2), if_neg (fun h => by have := h3 h.1; omega),
    if_neg (fun h => by have := (h4 h.1).1; omega), if_neg (fun h => h.2 (h4 h.1).2),
    if_neg (fun h => h.2 (h5 h.1)), if_neg (by omega)]

/-- the counters of a related state pass the judge's check (a grant must have stayed within the limit) -/
theorem check_ok (s0 s : St) (g : Bool) (o : Op) (res : Res) (r : Rel s0 s)
    (hg : g = true → s.active ≤ s.limit) : (bookOf s).check s0 g (obsOf o res s) = none := by
  have hk := r.kind
  have h0 := r.actNonneg
  have hl := r.limNonneg
  have hav : (obsOf o res s).av = available s := rfl
  have hout : (bookOf s).out = s.active := rfl
  have hlim : (bookOf s).limit = s.limit := rfl
  apply check_none s0 g (bookOf s) (obsOf o res s) rfl rfl hg
  · intro k1'
    have k1 : ¬ s.kind = 1 := by rw [hk]; exact k1'
    have hw := r.within k1
    rw [hav, hout, hlim]; simp only [available, if_neg k1]; omega
  · intro k1'
    have k1 : s.kind = 1 := by rw [hk]; exact k1'
    rw [hav, hout, hlim]; simp only [available, if_pos k1]
  · rw [hav, hlim]
    by_cases k1 : s.kind = 1
    · simp only [available, if_pos k1]; omega
    · have hw := r.within k1
      simp only [available, if_neg k1]; omega

/-- one operation: the judge accepts the model's transcript line, its books follow the model, the
    state relation is kept, and a grant stays within the limit -/
theorem apply_step (s0 s : St) (o : Op) (r : Rel s0 s) (ho : s0.kind ≠ 1 → isSetLimit o = false) :
    (bookOf s).apply s0 (obsOf o (step s o).2 (step s o).1) = .ok (bookOf (step s o).1)
    ∧ Rel s0 (step s o).1
    ∧ ((step s o).2 = .granted → (step s o).1.active ≤ (step s o).1.limit) := by
  have hk := r.kind
  have h0 := r.actNonneg
  have hl := r.limNonneg
  have hw := r.within
  cases o with
  | acquire w =>
    by_cases k2 : s.kind = 2
    · have k2' : s0.kind = 2 := by rw [← hk]; exact k2
      have hw' : s.active ≤ s.limit := hw (by omega)
      by_cases hb : w < 1
      · have hs : step s (.acquire w) = (s, .err) := by simp only [step, if_pos k2, if_pos hb]
        rw [hs]
        refine ⟨?_, r, fun h => by cases h⟩
        simp only [Book.apply, obsOf, bookOf]; rw [if_pos ⟨k2', hb⟩]
      · by_cases hf : s.limit < s.active + w
        · have hs : step s (.acquire w) = (s, .refused) := by
            simp only [step, if_pos k2, if_neg hb, if_pos hf]
          rw [hs]
          refine ⟨?_, r, fun h => by cases h⟩
          simp only [Book.apply, obsOf, bookOf, weightOf, if_pos k2']
          rw [if_neg (fun h => hb h.2), if_neg (by omega)]
        · have hs : step s (.acquire w) = ({ s with active := s.active + w }, .granted) := by
            simp only [step, if_pos k2, if_neg hb, if_neg hf]
          rw [hs]
          refine ⟨?_, ?_, fun _ => by show s.active + w ≤ s.limit; omega⟩
          · simp only [Book.apply, obsOf, bookOf, weightOf, if_pos k2']
            rw [if_neg (fun h => hb h.2), if_neg hf]
          · exact ⟨hk, r.minL, r.maxL, by show 0 ≤ s.active + w; omega, hl,
              fun _ => by show s.active + w ≤ s.limit; omega, r.dynBounds⟩
    · have k2' : ¬ s0.kind = 2 := by rw [← hk]; exact k2
      by_cases hf : s.limit ≤ s.active
      · have hs : step s (.acquire w) = (s, .refused) := by simp only [step, if_neg k2, if_pos hf]
        rw [hs]
        refine ⟨?_, r, fun h => by cases h⟩
        simp only [Book.apply, obsOf, bookOf, weightOf, if_neg k2']
        rw [if_neg (fun h => k2' h.1), if_neg (by omega)]
      · have hs : step s (.acquire w) = ({ s with active := s.active + 1 }, .granted) := by
          simp only [step, if_neg k2, if_neg hf]
        rw [hs]
        refine ⟨?_, ?_, fun _ => by show s.active + 1 ≤ s.limit; omega⟩
        · simp only [Book.apply, obsOf, bookOf, weightOf, if_neg k2']
          rw [if_neg (fun h => k2' h.1), if_neg (by omega)]
        · exact ⟨hk, r.minL, r.maxL, by show 0 ≤ s.active + 1; omega, hl,
            fun _ => by show s.active + 1 ≤ s.limit; omega, r.dynBounds⟩
  | release w =>
    by_cases k2 : s.kind = 2
    · have k2' : s0.kind = 2 := by rw [← hk]; exact k2
      have hw' : s.active ≤ s.limit := hw (by omega)
      by_cases hb : w < 1
      · have hs : step s (.release w) = (s, .err) := by simp only [step, if_pos k2, if_pos hb]
        rw [hs]
        refine ⟨?_, r, fun h => by cases h⟩
        simp only [Book.apply, obsOf, bookOf]; rw [if_pos ⟨k2', hb⟩]
      · have hs : step s (.release w) = ({ s with active := max 0 (s.active - w) }, .released) := by
          simp only [step, if_pos k2, if_neg hb]
        rw [hs]
        refine ⟨?_, ?_, fun h => by cases h⟩
        · simp only [Book.apply, obsOf, bookOf, weightOf, if_pos k2']
          rw [if_neg (fun h => hb h.2)]
        · exact ⟨hk, r.minL, r.maxL, by show 0 ≤ max 0 (s.active - w); omega, hl,
            fun _ => by show max 0 (s.active - w) ≤ s.limit; omega, r.dynBounds⟩
    · have k2' : ¬ s0.kind = 2 := by rw [← hk]; exact k2
      have hs : step s (.release w) = ({ s with active := max 0 (s.active - 1) }, .released) := by
        simp only [step, if_neg k2]
      rw [hs]
      refine ⟨?_, ?_, fun h => by cases h⟩
      · simp only [Book.apply, obsOf, bookOf, weightOf, if_neg k2']
        rw [if_neg (fun h => k2' h.1)]
      · exact ⟨hk, r.minL, r.maxL, by show 0 ≤ max 0 (s.active - 1); omega, hl,
          fun h => by have := hw h; show max 0 (s.active - 1) ≤ s.limit; omega, r.dynBounds⟩
  | setLimit n =>
    by_cases k1 : s.kind = 1
    · have k1' : s0.kind = 1 := by rw [← hk]; exact k1
      have hs : step s (.setLimit n) = ({ s with limit := clampLimit s n }, .ok) := by
        simp only [step, if_pos k1]
      have hb := r.dynBounds k1
      have hc := clampLimit_nonneg s n hb.1 hb.2
      rw [hs]
      refine ⟨?_, ?_, fun h => by cases h⟩
      · simp only [Book.apply, obsOf, bookOf]
        rw [if_neg (by omega), clampLimit_frame s0 s s.limit n r.minL r.maxL]
      · exact ⟨hk, r.minL, r.maxL, h0, hc, fun h => absurd k1 h, r.dynBounds⟩
    · have k1' : ¬ s0.kind = 1 := by rw [← hk]; exact k1
      exact absurd (ho k1') (by simp [isSetLimit])

theorem judge_model (s0 s : St) (ops : List Op) (r : Rel s0 s) (hops : OpsOk s0 ops) :
    judge s0 (bookOf s) (obsTrace s ops) = none := by
  induction ops generalizing s with
  | nil => rfl
  | cons o os ih =>
    have ho : s0.kind ≠ 1 → isSetLimit o = false := fun hk => by
      have := hops hk; simp only [List.all_cons, Bool.and_eq_true] at this; simpa using this.1
    have hos : OpsOk s0 os := fun hk => by
      have := hops hk; simp only [List.all_cons, Bool.and_eq_true] at this; exact this.2
    obtain ⟨hap, hr, hg⟩ := apply_step s0 s o r ho
    have hck := check_ok s0 (step s o).1 ((step s o).2 == .granted) o (step s o).2 hr
      (fun h => hg (by simpa using h))
    have hres : (obsOf o (step s o).2 (step s o).1).res = (step s o).2 := rfl
    simp only [obsTrace, judge, hap, hres, hck]
    exact ih _ hr hos

end HappyModel.C09.Conc

namespace HappyModel.C09

/-- **The limiter model satisfies the executable Spec predicate**: on every operation list (with
    `set_limit` only on the limiter that has it) the judge that judges implementation transcripts
    accepts the model's own transcript — for the fixed (0), dynamic (1) and weighted (2) limiter. -/
theorem limiter_trace_satisfies_spec (s0 : Conc.St) (hstart : Conc.Start s0) (ops : List Conc.Op)
    (hops : Conc.OpsOk s0 ops) :
    Conc.judge s0 { limit := s0.limit } (Conc.obsTrace s0 ops) = none := by
  have h := Conc.judge_model s0 s0 ops hstart.rel hops
  have hb : Conc.bookOf s0 = { limit := s0.limit } := by
    simp only [Conc.bookOf, hstart.idle]
  rw [hb] at h; exact h

/-- the same for every limiter the constructors of `concurrency.py` let through -/
theorem limiter_trace_satisfies_spec_constructed (s0 : Conc.St) (hc : Conc.Constructed s0)
    (ops : List Conc.Op) (hops : Conc.OpsOk s0 ops) :
    Conc.judge s0 { limit := s0.limit } (Conc.obsTrace s0 ops) = none :=
  limiter_trace_satisfies_spec s0 hc.start ops hops

/-! ### the statement on concrete inputs (hypotheses included) -/

/-- fixed limiter (limit 2): refusals at the limit, an unmatched release absorbed -/
example : Conc.Start { kind := 0, limit := 2 }
    ∧ Conc.OpsOk { kind := 0, limit := 2 }
        [.acquire 1, .acquire 1, .acquire 1, .release 1, .acquire 1, .acquire 1, .release 1, .release 1, .release 1]
    ∧ Conc.judge { kind := 0, limit := 2 } { limit := 2 } (Conc.obsTrace { kind := 0, limit := 2 }
        [.acquire 1, .acquire 1, .acquire 1, .release 1, .acquire 1, .acquire 1, .release 1, .release 1, .release 1])
      = none := by decide

/-- dynamic limiter (initial 3 in [1, 4]): `set_limit` below the number running (limit 1 < active 3,
    nothing granted until enough was released), clamping at both bounds -/
example : Conc.Constructed { kind := 1, limit := 3, minL := 1, maxL := 4 }
    ∧ Conc.OpsOk { kind := 1, limit := 3, minL := 1, maxL := 4 }
        [.acquire 1, .acquire 1, .acquire 1, .acquire 1, .setLimit 1, .acquire 1, .release 1, .acquire 1,
         .release 1, .release 1, .acquire 1, .setLimit (-3), .setLimit 9, .acquire 1]
    ∧ Conc.judge { kind := 1, limit := 3, minL := 1, maxL := 4 } { limit := 3 }
        (Conc.obsTrace { kind := 1, limit := 3, minL := 1, maxL := 4 }
        [.acquire 1, .acquire 1, .acquire 1, .acquire 1, .setLimit 1, .acquire 1, .release 1, .acquire 1,
         .release 1, .release 1, .acquire 1, .setLimit (-3), .setLimit 9, .acquire 1])
      = none := by decide

/-- … and the limit really was below the number running in that run -/
example : (Conc.run { kind := 1, limit := 3, minL := 1, maxL := 4 }
    [.acquire 1, .acquire 1, .acquire 1, .acquire 1, .setLimit 1]).limit = 1
    ∧ (Conc.run { kind := 1, limit := 3, minL := 1, maxL := 4 }
    [.acquire 1, .acquire 1, .acquire 1, .acquire 1, .setLimit 1]).active = 3 := by decide

/-- weighted limiter (capacity 3): weights, a refusal of a weight that does not fit, malformed
    weights (0, −1) on both calls, an over-release clamped at zero -/
example : Conc.Start { kind := 2, limit := 3 }
    ∧ Conc.OpsOk { kind := 2, limit := 3 }
        [.acquire 2, .acquire 2, .acquire 1, .acquire 0, .release (-1), .release 5, .acquire 3, .acquire 1, .release 0]
    ∧ Conc.judge { kind := 2, limit := 3 } { limit := 3 } (Conc.obsTrace { kind := 2, limit := 3 }
        [.acquire 2, .acquire 2, .acquire 1, .acquire 0, .release (-1), .release 5, .acquire 3, .acquire 1, .release 0])
      = none := by decide

/-! ### the judge is not vacuous, and the hypotheses are needed -/

/-- a grant over the limit is rejected -/
example : Conc.judge { kind := 0, limit := 1 } { limit := 1 }
    [⟨.acquire 1, .granted, 1, 0, 1⟩, ⟨.acquire 1, .granted, 2, -1, 1⟩] = some "limiter/acquire/over-limit" := by decide

/-- a weighted grant that does not fit is rejected, so is an accepted malformed weight -/
example : Conc.judge { kind := 2, limit := 3 } { limit := 3 }
    [⟨.acquire 2, .granted, 2, 1, 3⟩, ⟨.acquire 2, .granted, 4, -1, 3⟩] = some "limiter/acquire/over-limit" := by decide
example : Conc.judge { kind := 2, limit := 3 } { limit := 3 }
    [⟨.acquire 0, .granted, 0, 3, 3⟩] = some "limiter/acquire/accepted-bad-weight" := by decide

/-- a dynamic limiter that grants while its lowered limit is below the number running is rejected -/
example : Conc.judge { kind := 1, limit := 2 } { limit := 2 }
    [⟨.acquire 1, .granted, 1, 1, 2⟩, ⟨.acquire 1, .granted, 2, 0, 2⟩, ⟨.setLimit 1, .ok, 2, 0, 1⟩,
     ⟨.acquire 1, .granted, 3, 0, 1⟩] = some "limiter/acquire/over-limit" := by decide

/-- `OpsOk` is needed: `set_limit` on a fixed limiter is a line the judge does not know -/
example : Conc.judge { kind := 0, limit := 1 } { limit := 1 } (Conc.obsTrace { kind := 0, limit := 1 } [.setLimit 3])
    = some "limiter/unknown-observation" := by decide

/-- `Start.idle` is needed: the judge's books start empty -/
example : Conc.judge { kind := 0, limit := 2, active := 1 } { limit := 2 }
    (Conc.obsTrace { kind := 0, limit := 2, active := 1 } [.acquire 1]) = some "limiter/active/count-mismatch" := by decide

/-- `Start.limNonneg` is needed -/
example : Conc.judge { kind := 0, limit := -1 } { limit := -1 }
    (Conc.obsTrace { kind := 0, limit := -1 } [.release 1]) = some "limiter/active/exceeds-limit" := by decide

/-- `Start.dynBounds` is needed: a negative bound lets `set_limit` produce a negative limit -/
example : Conc.judge { kind := 1, limit := 1, minL := -2 } { limit := 1 }
    (Conc.obsTrace { kind := 1, limit := 1, minL := -2 } [.setLimit (-5)]) = some "limiter/available/out-of-range" := by decide
example : Conc.judge { kind := 1, limit := 1, minL := 0, maxL := -1 } { limit := 1 }
    (Conc.obsTrace { kind := 1, limit := 1, minL := 0, maxL := -1 } [.setLimit 5]) = some "limiter/available/out-of-range" := by decide

end HappyModel.C09
