import HappyProofs.C09.PoolInv
/-! Transcript of the connection-pool model, the well-formedness of a *schedule of generator segments*
(what the engine guarantees about the order in which it resumes `acquire()` generators), and the
structural invariants of the pool state that the judge's bookkeeping relies on. -/
namespace HappyModel.C09.Pool

/-- one transcript line (`Driver.runPool`): clock, segment, result, and the four public counters
    `a=` / `i=` / `n=` / `p=` of the post-state -/
def obsOf (t : Nat) (o : Op) (r : Res) (s' : St) : Obs :=
  ⟨t, o, r, s'.active.length, s'.idle.length, s'.total, s'.waiters.length⟩

/-- the model's transcript on a schedule of `(clock, segment)` pairs -/
def obsTrace (s : St) : List (Nat × Op) → List Obs
  | [] => []
  | e :: rest => obsOf e.1 e.2 (step s e.2).2 (step s e.2).1 :: obsTrace (step s e.2).1 rest

/-- the id of a new `acquire()` call is not the id of a call that is still pending inside the pool
    (queued, or handed a connection it has not noticed yet) -/
def freshId (s : St) (id : Nat) : Bool := !s.waiters.contains id && !s.handed.any (·.1 == id)

/-- the engine's timer: `TimeoutError` is raised only in a call that did queue, and not earlier than
    `timeoutNs` after it queued; `since` = (call id, clock of its queueing `acq`), latest first -/
def timerOk (timeoutNs : Nat) (since : List (Nat × Nat)) (t id : Nat) : Bool :=
  match since.find? (·.1 == id) with
  | some st => decide (st.2 + timeoutNs ≤ t)
  | none => false

/-- one schedule entry is possible in state `s`: the segment exists (`step` does not answer `bad`:
    `made` only while a set-up is in flight, `timeout` not in a call that was handed a connection),
    a new call has a fresh id, a timeout obeys the timer -/
def opOk (timeoutNs : Nat) (s : St) (since : List (Nat × Nat)) (t : Nat) (o : Op) : Bool :=
  (step s o).2 != .bad &&
  match o with
  | .acq id => freshId s id
  | .timeout id => timerOk timeoutNs since t id
  | _ => true

def sinceAfter (s : St) (since : List (Nat × Nat)) (t : Nat) (o : Op) : List (Nat × Nat) :=
  match o, (step s o).2 with
  | .acq id, .waiting => (id, t) :: since
  | _, _ => since

/-- a schedule the engine can produce, threaded through the model state and the queueing times -/
def SchedOk (timeoutNs : Nat) : St → List (Nat × Nat) → List (Nat × Op) → Bool
  | _, _, [] => true
  | s, since, e :: rest =>
    opOk timeoutNs s since e.1 e.2 && SchedOk timeoutNs (step s e.2).1 (sinceAfter s since e.1 e.2) rest

/-! ### structural invariants -/

/-- `Inv` plus: connections are distinct and were all created (`≤ nextConn`); pending call ids are
    distinct -/
structure Wf (s : St) : Prop where
  inv : Inv s
  idleNodup : s.idle.Nodup
  activeNodup : s.active.Nodup
  disj : ∀ c ∈ s.idle, c ∉ s.active
  idleLe : ∀ c ∈ s.idle, c ≤ s.nextConn
  activeLe : ∀ c ∈ s.active, c ≤ s.nextConn
  waitNodup : s.waiters.Nodup
  handNodup : (s.handed.map (·.1)).Nodup
  waitHand : ∀ w ∈ s.waiters, w ∉ s.handed.map (·.1)

theorem init_wf (max : Nat) : Wf { max := max } :=
  ⟨init_inv max, List.nodup_nil, List.nodup_nil, by simp, by simp, by simp, List.nodup_nil, List.nodup_nil, by simp⟩

theorem nodup_snoc {α} {l : List α} {a : α} (h : l.Nodup) (ha : a ∉ l) : (l ++ [a]).Nodup := by
  rw [List.nodup_append]
  refine ⟨h, by simp, ?_⟩
  intro x hx y hy
  have : y = a := by simpa using hy
  subst this
  intro e; subst e; exact ha hx

theorem nodup_filter {α} (p : α → Bool) {l : List α} (h : l.Nodup) : (l.filter p).Nodup :=
  List.Nodup.sublist List.filter_sublist h

theorem freshId_spec {s : St} {id : Nat} (h : freshId s id = true) :
    id ∉ s.waiters ∧ id ∉ s.handed.map (·.1) := by
  simp only [freshId, Bool.and_eq_true, Bool.not_eq_true'] at h
  constructor
  · intro hm
    have : s.waiters.contains id = true := List.contains_iff_mem.2 hm
    rw [h.1] at this; cases this
  · intro hm
    obtain ⟨x, hx, hxe⟩ := List.mem_map.1 hm
    have : s.handed.any (·.1 == id) = true := List.any_eq_true.2 ⟨x, hx, by simp [hxe]⟩
    rw [h.2] at this; cases this

theorem step_wf (s : St) (o : Op) (wf : Wf s) (hfresh : ∀ id, o = .acq id → freshId s id = true) :
    Wf (step s o).1 := by
  have hinv := step_inv s o wf.inv
  cases o with
  | acq id =>
    cases hi : s.idle with
    | cons c rest =>
      have hs : step s (.acq id) = ({ s with idle := rest, active := s.active ++ [c] }, .idle c) := by
        rw [step_acq, hi]
      have hnd := wf.idleNodup
      rw [hi] at hnd
      have hc := List.nodup_cons.1 hnd
      have hca : c ∉ s.active := wf.disj c (by rw [hi]; simp)
      rw [hs] at hinv ⊢
      refine ⟨hinv, hc.2, nodup_snoc wf.activeNodup hca, ?_, ?_, ?_, wf.waitNodup, wf.handNodup, wf.waitHand⟩
      · intro x hx hxa
        have hx' : x ∈ rest := hx
        have hxa' : x ∈ s.active ++ [c] := hxa
        rcases List.mem_append.1 hxa' with h | h
        · exact wf.disj x (by rw [hi]; exact List.mem_cons_of_mem _ hx') h
        · have : x = c := by simpa using h
          subst this; exact hc.1 hx'
      · intro x hx
        exact wf.idleLe x (by rw [hi]; exact List.mem_cons_of_mem _ hx)
      · intro x hx
        have hx' : x ∈ s.active ++ [c] := hx
        rcases List.mem_append.1 hx' with h | h
        · exact wf.activeLe x h
        · have : x = c := by simpa using h
          subst this; exact wf.idleLe x (by rw [hi]; simp)
    | nil =>
      by_cases hlt : s.total < s.max
      · have hs : step s (.acq id) =
            ({ s with creating := s.creating + 1, total := if s.reserve then s.total + 1 else s.total }, .creating) := by
          rw [step_acq, hi]; simp only [if_pos hlt]
        rw [hs] at hinv ⊢
        exact ⟨hinv, wf.idleNodup, wf.activeNodup, wf.disj, wf.idleLe, wf.activeLe, wf.waitNodup, wf.handNodup,
          wf.waitHand⟩
      · have hs : step s (.acq id) = ({ s with waiters := s.waiters ++ [id] }, .waiting) := by
          rw [step_acq, hi]; simp only [if_neg hlt]
        have hf := freshId_spec (hfresh id rfl)
        rw [hs] at hinv ⊢
        refine ⟨hinv, wf.idleNodup, wf.activeNodup, wf.disj, wf.idleLe, wf.activeLe,
          nodup_snoc wf.waitNodup hf.1, wf.handNodup, ?_⟩
        intro w hw
        have hw' : w ∈ s.waiters ++ [id] := hw
        rcases List.mem_append.1 hw' with h | h
        · exact wf.waitHand w h
        · have : w = id := by simpa using h
          subst this; exact hf.2
  | made id =>
    by_cases hcr : s.creating = 0
    · have hs : step s (.made id) = (s, .bad) := by rw [step_made, if_pos hcr]
      rw [hs]; exact wf
    · have hs : step s (.made id) =
          ({ s with creating := s.creating - 1, nextConn := s.nextConn + 1,
                    total := if s.reserve then s.total else s.total + 1,
                    active := s.active ++ [s.nextConn + 1] }, .conn (s.nextConn + 1)) := by
        rw [step_made, if_neg hcr]
      have hna : s.nextConn + 1 ∉ s.active := fun h => by have := wf.activeLe _ h; omega
      rw [hs] at hinv ⊢
      refine ⟨hinv, wf.idleNodup, nodup_snoc wf.activeNodup hna, ?_, ?_, ?_, wf.waitNodup, wf.handNodup, wf.waitHand⟩
      · intro x hx hxa
        have hxa' : x ∈ s.active ++ [s.nextConn + 1] := hxa
        rcases List.mem_append.1 hxa' with h | h
        · exact wf.disj x hx h
        · have : x = s.nextConn + 1 := by simpa using h
          have := wf.idleLe x hx; omega
      · intro x hx
        have := wf.idleLe x hx
        show x ≤ s.nextConn + 1; omega
      · intro x hx
        have hx' : x ∈ s.active ++ [s.nextConn + 1] := hx
        show x ≤ s.nextConn + 1
        rcases List.mem_append.1 hx' with h | h
        · have := wf.activeLe x h; omega
        · have : x = s.nextConn + 1 := by simpa using h
          omega
  | poll id =>
    cases hf : s.handed.find? (·.1 == id) with
    | none =>
      have hs : step s (.poll id) = (s, .wait) := by rw [step_poll, hf]
      rw [hs]; exact wf
    | some h =>
      have hs : step s (.poll id) = ({ s with handed := s.handed.filter (·.1 != id) }, .got h.2) := by
        rw [step_poll, hf]
      have hsub : ((s.handed.filter (·.1 != id)).map (·.1)).Sublist (s.handed.map (·.1)) :=
        List.Sublist.map _ List.filter_sublist
      rw [hs] at hinv ⊢
      refine ⟨hinv, wf.idleNodup, wf.activeNodup, wf.disj, wf.idleLe, wf.activeLe, wf.waitNodup,
        List.Nodup.sublist hsub wf.handNodup, ?_⟩
      intro w hw hm
      exact wf.waitHand w hw (hsub.subset hm)
  | timeout id =>
    by_cases hb : (s.handed.find? (·.1 == id)).isSome
    · have hs : step s (.timeout id) = (s, .bad) := by rw [step_timeout, if_pos hb]
      rw [hs]; exact wf
    · have hs : step s (.timeout id) = ({ s with waiters := s.waiters.filter (· != id) }, .timedOut) := by
        rw [step_timeout, if_neg hb]
      rw [hs] at hinv ⊢
      refine ⟨hinv, wf.idleNodup, wf.activeNodup, wf.disj, wf.idleLe, wf.activeLe,
        nodup_filter _ wf.waitNodup, wf.handNodup, ?_⟩
      intro w hw
      have hw' : w ∈ s.waiters.filter (· != id) := hw
      exact wf.waitHand w (List.mem_filter.1 hw').1
  | rel c =>
    by_cases hact : (!s.active.contains c) = true
    · have hs : step s (.rel c) = (s, .unknown) := by rw [step_rel, if_pos hact]
      rw [hs]; exact wf
    · cases hq : s.waiters with
      | cons w ws =>
        have hs : step s (.rel c) = ({ s with waiters := ws, handed := s.handed ++ [(w, c)] }, .handoff w) := by
          rw [step_rel, if_neg hact, hq]
        have hnd := wf.waitNodup
        rw [hq] at hnd
        have hw := List.nodup_cons.1 hnd
        have hwh : w ∉ s.handed.map (·.1) := wf.waitHand w (by rw [hq]; simp)
        rw [hs] at hinv ⊢
        refine ⟨hinv, wf.idleNodup, wf.activeNodup, wf.disj, wf.idleLe, wf.activeLe, hw.2, ?_, ?_⟩
        · show ((s.handed ++ [(w, c)]).map (·.1)).Nodup
          rw [List.map_append]
          exact nodup_snoc wf.handNodup hwh
        · intro x hx hm
          have hx' : x ∈ ws := hx
          have hm' : x ∈ (s.handed ++ [(w, c)]).map (·.1) := hm
          rw [List.map_append] at hm'
          rcases List.mem_append.1 hm' with h | h
          · exact wf.waitHand x (by rw [hq]; exact List.mem_cons_of_mem _ hx') h
          · have : x = w := by simpa using h
            subst this; exact hw.1 hx'
      | nil =>
        have hs : step s (.rel c) = ({ s with active := s.active.erase c, idle := s.idle ++ [c] }, .toIdle) := by
          rw [step_rel, if_neg hact, hq]
        have hmem : c ∈ s.active := by
          have : s.active.contains c = true := by simpa using hact
          exact List.contains_iff_mem.1 this
        have hci : c ∉ s.idle := fun h => wf.disj c h hmem
        rw [hs] at hinv ⊢
        refine ⟨hinv, nodup_snoc wf.idleNodup hci, List.Nodup.erase c wf.activeNodup, ?_, ?_, ?_,
          by rw [← hq]; exact wf.waitNodup, wf.handNodup, by intro w hw; rw [hq] at hw; cases hw⟩
        · intro x hx hxa
          have hx' : x ∈ s.idle ++ [c] := hx
          have hxa' : x ∈ s.active.erase c := hxa
          have hxe := (List.Nodup.mem_erase_iff wf.activeNodup).1 hxa'
          rcases List.mem_append.1 hx' with h | h
          · exact wf.disj x h hxe.2
          · have : x = c := by simpa using h
            exact hxe.1 this
        · intro x hx
          have hx' : x ∈ s.idle ++ [c] := hx
          rcases List.mem_append.1 hx' with h | h
          · exact wf.idleLe x h
          · have : x = c := by simpa using h
            subst this; exact wf.activeLe x hmem
        · intro x hx
          have hx' : x ∈ s.active.erase c := hx
          exact wf.activeLe x ((List.Nodup.mem_erase_iff wf.activeNodup).1 hx').2

end HappyModel.C09.Pool
