import HappyProofs.C09.PoolInv
/-! Transcript of the connection-pool model, the well-formedness of a *schedule of generator segments*
(what the engine guarantees about the order in which it resumes `acquire()` generators, delivers
`_pool_idle_timeout` events and raises `TimeoutError`), and the structural invariants of the pool state
that the judge's bookkeeping relies on. -/
namespace HappyModel.C09.Pool

/-- one transcript line (`Driver.runPool`): clock, segment, result, and the four public counters
    `a=` / `i=` / `n=` / `p=` of the post-state -/
def obsOf (t : Nat) (o : Op) (r : Res) (s' : St) : Obs :=
  ⟨t, o, r, s'.active.length, s'.idle.length, s'.total, s'.waiters.length⟩

/-- the model's transcript on a schedule of `(clock, segment)` pairs: every segment is executed with
    `stepAt` (the clock of the entry is the pool's `now`), exactly as `Driver.runPool` does -/
def obsTrace (s : St) : List (Nat × Op) → List Obs
  | [] => []
  | e :: rest =>
    obsOf e.1 e.2 (stepAt s e.1 e.2).2 (stepAt s e.1 e.2).1 :: obsTrace (stepAt s e.1 e.2).1 rest

/-- the id of a new `acquire()` call is not the id of a call that is still pending inside the pool
    (queued, or handed a connection it has not noticed yet) -/
def freshId (s : St) (id : Nat) : Bool := !s.waiters.contains id && !s.handed.any (·.1 == id)

/-- the engine's timer: `TimeoutError` is raised only in a call that did queue, and not earlier than
    `timeoutNs` after it queued; `since` = (call id, clock of its queueing `acq`), latest first -/
def timerOk (timeoutNs : Nat) (since : List (Nat × Nat)) (t id : Nat) : Bool :=
  match since.find? (·.1 == id) with
  | some st => decide (st.2 + timeoutNs ≤ t)
  | none => false

/-- call `id` is the first waiter and there is capacity it could take (an idle connection, or a slot) -/
def headFree (s : St) (id : Nat) : Bool :=
  s.waiters.head? == some id && (!s.idle.isEmpty || decide (s.total < s.max))

/-- one schedule entry `(t, o)` is possible in state `s`:

* the segment exists (`stepAt` does not answer `bad`: `made id` only while call `id` has a set-up in
  flight, `wmade` only while a warm-up set-up is in flight, `timeout` not in a call that was handed a
  connection);
* `acq id`: the call id is fresh (not queued, not handed a connection it has not noticed);
* `timeout id`: the timer ran out (`timerOk`), and the call is not the first waiter with capacity free
  (the real acquirer polls before it looks at its deadline, so it would have taken that capacity);
* `idleCheck c e`: the event armed at `e` is delivered no earlier than `e + idleNs`. -/
def opOk (timeoutNs idleNs : Nat) (s : St) (since : List (Nat × Nat)) (t : Nat) (o : Op) : Bool :=
  (stepAt s t o).2 != .bad &&
  match o with
  | .acq id => freshId s id
  | .timeout id => timerOk timeoutNs since t id && !headFree s id
  | .idleCheck _ e => decide (e + idleNs ≤ t)
  | _ => true

def sinceStep (since : List (Nat × Nat)) (t : Nat) (o : Op) (r : Res) : List (Nat × Nat) :=
  match o, r with
  | .acq id, .waiting => (id, t) :: since
  | _, _ => since

def sinceAfter (s : St) (since : List (Nat × Nat)) (t : Nat) (o : Op) : List (Nat × Nat) :=
  sinceStep since t o (stepAt s t o).2

/-- a schedule the engine can produce, threaded through the (timed) model run and the queueing times -/
def SchedOk (timeoutNs idleNs : Nat) : St → List (Nat × Nat) → List (Nat × Op) → Bool
  | _, _, [] => true
  | s, since, e :: rest =>
    opOk timeoutNs idleNs s since e.1 e.2
      && SchedOk timeoutNs idleNs (stepAt s e.1 e.2).1 (sinceAfter s since e.1 e.2) rest

/-! ### structural invariants -/

/-- connections are distinct and were all created (`≤ nextConn`) -/
structure ConnOk (idle active closed : List Nat) (n : Nat) : Prop where
  idleNodup : idle.Nodup
  activeNodup : active.Nodup
  disj : ∀ c ∈ idle, c ∉ active
  idleLe : ∀ c ∈ idle, c ≤ n
  activeLe : ∀ c ∈ active, c ≤ n
  closedLe : ∀ c ∈ closed, c ≤ n

/-- pending call ids are distinct -/
structure QueueOk (w : List Nat) (hd : List (Nat × Nat)) : Prop where
  waitNodup : w.Nodup
  handNodup : (hd.map (·.1)).Nodup
  waitHand : ∀ x ∈ w, x ∉ hd.map (·.1)

abbrev St.ConnOk (s : St) : Prop := Pool.ConnOk s.idle s.active s.closed s.nextConn
abbrev St.QueueOk (s : St) : Prop := Pool.QueueOk s.waiters s.handed

structure Wf (s : St) : Prop where
  inv : Inv s
  conn : s.ConnOk
  queue : s.QueueOk

theorem init_wf (max min : Nat) (h : min ≤ max) : Wf { max := max, min := min } :=
  ⟨init_inv' max min h, ⟨List.nodup_nil, List.nodup_nil, by simp, by simp, by simp, by simp⟩,
   ⟨List.nodup_nil, List.nodup_nil, by simp⟩⟩

theorem wf_now {s : St} (t : Nat) (wf : Wf s) : Wf { s with now := t } := ⟨inv_now t wf.inv, wf.conn, wf.queue⟩

theorem nodup_snoc {α} {l : List α} {a : α} (h : l.Nodup) (ha : a ∉ l) : (l ++ [a]).Nodup := by
  rw [List.nodup_append]
  refine ⟨h, by simp, ?_⟩
  intro x hx y hy
  have : y = a := by simpa using hy
  subst this
  intro e; subst e; exact ha hx

theorem freshId_spec {s : St} {id : Nat} (h : freshId s id = true) :
    id ∉ s.waiters ∧ id ∉ s.handed.map (·.1) := by
  simp only [freshId, Bool.and_eq_true, Bool.not_eq_true'] at h
  constructor
  · intro hm
    have : s.waiters.contains id = true := List.contains_iff_mem.2 hm
    rw [h.1] at this; cases this
  · intro hm
    obtain ⟨x, hx, hxe⟩ := List.mem_map.1 hm
    have : s.handed.any (·.1 == id) = true := List.any_eq_true.2 ⟨x, hx, by simp [hxe]⟩
    rw [h.2] at this; cases this

/-! ### list lemmas about `ConnOk` -/

variable {i a cl : List Nat} {n : Nat}

theorem conn_take {c : Nat} {rest : List Nat} (h : ConnOk (c :: rest) a cl n) : ConnOk rest (a ++ [c]) cl n := by
  have hc := List.nodup_cons.1 h.idleNodup
  have hca : c ∉ a := h.disj c (by simp)
  refine ⟨hc.2, nodup_snoc h.activeNodup hca, ?_, ?_, ?_, h.closedLe⟩
  · intro x hx hxa
    rcases List.mem_append.1 hxa with h' | h'
    · exact h.disj x (List.mem_cons_of_mem _ hx) h'
    · have : x = c := by simpa using h'
      subst this; exact hc.1 hx
  · intro x hx; exact h.idleLe x (List.mem_cons_of_mem _ hx)
  · intro x hx
    rcases List.mem_append.1 hx with h' | h'
    · exact h.activeLe x h'
    · have : x = c := by simpa using h'
      subst this; exact h.idleLe x (by simp)

theorem conn_new_active (h : ConnOk i a cl n) : ConnOk i (a ++ [n + 1]) cl (n + 1) := by
  have hna : n + 1 ∉ a := fun hm => by have := h.activeLe _ hm; omega
  refine ⟨h.idleNodup, nodup_snoc h.activeNodup hna, ?_, ?_, ?_, ?_⟩
  · intro x hx hxa
    rcases List.mem_append.1 hxa with h' | h'
    · exact h.disj x hx h'
    · have : x = n + 1 := by simpa using h'
      have := h.idleLe x hx; omega
  · intro x hx; have := h.idleLe x hx; omega
  · intro x hx
    rcases List.mem_append.1 hx with h' | h'
    · have := h.activeLe x h'; omega
    · have : x = n + 1 := by simpa using h'
      omega
  · intro x hx; have := h.closedLe x hx; omega

theorem conn_new_idle (h : ConnOk i a cl n) : ConnOk (i ++ [n + 1]) a cl (n + 1) := by
  have hni : n + 1 ∉ i := fun hm => by have := h.idleLe _ hm; omega
  refine ⟨nodup_snoc h.idleNodup hni, h.activeNodup, ?_, ?_, ?_, ?_⟩
  · intro x hx hxa
    rcases List.mem_append.1 hx with h' | h'
    · exact h.disj x h' hxa
    · have : x = n + 1 := by simpa using h'
      have := h.activeLe x hxa; omega
  · intro x hx
    rcases List.mem_append.1 hx with h' | h'
    · have := h.idleLe x h'; omega
    · have : x = n + 1 := by simpa using h'
      omega
  · intro x hx; have := h.activeLe x hx; omega
  · intro x hx; have := h.closedLe x hx; omega

theorem conn_to_idle {c : Nat} (hm : c ∈ a) (h : ConnOk i a cl n) : ConnOk (i ++ [c]) (a.erase c) cl n := by
  have hci : c ∉ i := fun hi => h.disj c hi hm
  refine ⟨nodup_snoc h.idleNodup hci, List.Nodup.erase c h.activeNodup, ?_, ?_, ?_, h.closedLe⟩
  · intro x hx hxa
    have hxe := (List.Nodup.mem_erase_iff h.activeNodup).1 hxa
    rcases List.mem_append.1 hx with h' | h'
    · exact h.disj x h' hxe.2
    · have : x = c := by simpa using h'
      exact hxe.1 this
  · intro x hx
    rcases List.mem_append.1 hx with h' | h'
    · exact h.idleLe x h'
    · have : x = c := by simpa using h'
      subst this; exact h.activeLe x hm
  · intro x hx
    exact h.activeLe x ((List.Nodup.mem_erase_iff h.activeNodup).1 hx).2

theorem conn_close {c : Nat} (hm : c ∈ i) (h : ConnOk i a cl n) : ConnOk (i.erase c) a (cl ++ [c]) n := by
  refine ⟨List.Nodup.erase c h.idleNodup, h.activeNodup, ?_, ?_, h.activeLe, ?_⟩
  · intro x hx; exact h.disj x (List.mem_of_mem_erase hx)
  · intro x hx; exact h.idleLe x (List.mem_of_mem_erase hx)
  · intro x hx
    rcases List.mem_append.1 hx with h' | h'
    · exact h.closedLe x h'
    · have : x = c := by simpa using h'
      subst this; exact h.idleLe x hm

/-! ### list lemmas about `QueueOk` -/

variable {w : List Nat} {hd : List (Nat × Nat)}

theorem queue_push {id : Nat} (h : QueueOk w hd) (h1 : id ∉ w) (h2 : id ∉ hd.map (·.1)) :
    QueueOk (w ++ [id]) hd := by
  refine ⟨nodup_snoc h.waitNodup h1, h.handNodup, ?_⟩
  intro x hx
  rcases List.mem_append.1 hx with h' | h'
  · exact h.waitHand x h'
  · have : x = id := by simpa using h'
    subst this; exact h2

theorem queue_hand {x c : Nat} {ws : List Nat} (h : QueueOk (x :: ws) hd) : QueueOk ws (hd ++ [(x, c)]) := by
  have hw := List.nodup_cons.1 h.waitNodup
  have hwh : x ∉ hd.map (·.1) := h.waitHand x (by simp)
  refine ⟨hw.2, ?_, ?_⟩
  · rw [List.map_append]; exact nodup_snoc h.handNodup hwh
  · intro y hy hm
    rw [List.map_append] at hm
    rcases List.mem_append.1 hm with h' | h'
    · exact h.waitHand y (List.mem_cons_of_mem _ hy) h'
    · have : y = x := by simpa using h'
      subst this; exact hw.1 hy

theorem queue_wsub {w' : List Nat} (hs : w'.Sublist w) (h : QueueOk w hd) : QueueOk w' hd :=
  ⟨h.waitNodup.sublist hs, h.handNodup, fun x hx => h.waitHand x (hs.subset hx)⟩

theorem queue_hfilter (p : Nat × Nat → Bool) (h : QueueOk w hd) : QueueOk w (hd.filter p) := by
  have hsub : ((hd.filter p).map (·.1)).Sublist (hd.map (·.1)) := List.Sublist.map _ List.filter_sublist
  exact ⟨h.waitNodup, h.handNodup.sublist hsub, fun x hx hm => h.waitHand x hx (hsub.subset hm)⟩

/-! ### every segment keeps the structural invariants -/

theorem giveBack_conn (s : St) (c : Nat) (hm : c ∈ s.active) (h : s.ConnOk) : (giveBack s c).1.ConnOk := by
  rw [giveBack_eq]
  split
  · exact h
  · exact conn_to_idle hm h

theorem step_conn (s : St) (o : Op) (h : s.ConnOk) : (step s o).1.ConnOk := by
  have h' : ConnOk s.idle s.active s.closed s.nextConn := h
  cases o with
  | acq id =>
    rw [step_acq]
    split
    · rename_i c rest hi
      rw [hi] at h'
      exact conn_take h'
    · split <;> exact h
  | made id =>
    rw [step_made]
    split
    · exact h
    · exact conn_new_active h'
  | poll id =>
    rw [step_poll]
    split
    · exact h
    · split
      · exact h
      · split
        · rename_i c rest hi
          rw [hi] at h'
          exact conn_take h'
        · split <;> exact h
  | timeout id =>
    rw [step_timeout]
    split <;> exact h
  | rel c =>
    rw [step_rel]
    split
    · exact h
    · rename_i hact
      exact giveBack_conn s c (by simpa using hact) h
  | abandon id =>
    rw [step_abandon]
    split
    · exact h
    · split
      · split
        · exact h
        · rename_i hact
          exact giveBack_conn _ _ (by simpa using hact) h
      · split <;> exact h
  | idleCheck c e =>
    rw [step_idleCheck]
    split
    · rename_i hcond
      split
      · have hmem : c ∈ s.idle := by
          simp only [Bool.and_eq_true] at hcond
          exact List.contains_iff_mem.1 hcond.1
        exact conn_close hmem h'
      · exact h
    · exact h
  | warm =>
    rw [step_warm]
    split <;> exact h
  | wmade =>
    rw [step_wmade]
    split
    · exact h
    · exact conn_new_idle h'

theorem giveBack_queue (s : St) (c : Nat) (h : s.QueueOk) : (giveBack s c).1.QueueOk := by
  rw [giveBack_eq]
  split
  · rename_i x ws hq
    have h' : QueueOk s.waiters s.handed := h
    rw [hq] at h'
    exact queue_hand h'
  · exact h

theorem step_queue (s : St) (o : Op) (h : s.QueueOk) (hfresh : ∀ id, o = .acq id → freshId s id = true) :
    (step s o).1.QueueOk := by
  have h' : QueueOk s.waiters s.handed := h
  cases o with
  | acq id =>
    rw [step_acq]
    split
    · exact h
    · split
      · exact h
      · have hf := freshId_spec (hfresh id rfl)
        exact queue_push h' hf.1 hf.2
  | made id =>
    rw [step_made]
    split <;> exact h
  | poll id =>
    rw [step_poll]
    split
    · exact queue_hfilter _ h'
    · split
      · exact h
      · split
        · exact queue_wsub (List.tail_sublist _) h'
        · split
          · exact queue_wsub (List.tail_sublist _) h'
          · exact h
  | timeout id =>
    rw [step_timeout]
    split
    · exact h
    · exact queue_wsub List.filter_sublist h'
  | rel c =>
    rw [step_rel]
    split
    · exact h
    · exact giveBack_queue s c h
  | abandon id =>
    rw [step_abandon]
    split
    · exact h
    · split
      · split
        · exact queue_hfilter _ h'
        · exact giveBack_queue _ _ (queue_hfilter _ h')
      · split
        · exact queue_wsub List.filter_sublist h'
        · exact h
  | idleCheck c e =>
    rw [step_idleCheck]
    split
    · split <;> exact h
    · exact h
  | warm =>
    rw [step_warm]
    split <;> exact h
  | wmade =>
    rw [step_wmade]
    split <;> exact h

theorem step_wf (s : St) (o : Op) (wf : Wf s) (hfresh : ∀ id, o = .acq id → freshId s id = true) :
    Wf (step s o).1 :=
  ⟨step_inv s o wf.inv, step_conn s o wf.conn, step_queue s o wf.queue hfresh⟩

theorem stepAt_wf (s : St) (t : Nat) (o : Op) (wf : Wf s) (hfresh : ∀ id, o = .acq id → freshId s id = true) :
    Wf (stepAt s t o).1 :=
  step_wf { s with now := t } o (wf_now t wf) hfresh

end HappyModel.C09.Pool
