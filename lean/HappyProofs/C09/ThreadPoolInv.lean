import HappyModel.C09.ThreadPool
/-! Invariants of the ThreadPool / QueuedResource / QueueDriver model, for every list of deliveries. -/
namespace HappyModel.C09.TPool

/-- the pending internal events without the queue's notifications: the driver's round trip -/
def core : List Ev → List Ev
  | [] => []
  | .notify :: es => core es
  | e :: es => e :: core es

/-- at most one poll → deliver → work → dispatched round trip is in flight, the driver knows it (`busy`),
    and the worker slot the dispatched task will take is still free -/
def Shape (s : St) : Prop :=
  (s.busy = false ∧ core s.pend = [])
  ∨ (s.busy = true ∧ s.active < s.n ∧ core s.pend = [.poll])
  ∨ (s.busy = true ∧ core s.pend = [.deliver none])
  ∨ (s.busy = true ∧ s.active < s.n ∧ ∃ t, core s.pend = [.deliver (some t)])
  ∨ (s.busy = true ∧ s.active < s.n ∧ ∃ t, core s.pend = [.work t, .disp])
  ∨ (s.busy = true ∧ core s.pend = [.disp])

structure Inv (s : St) : Prop where
  bound : s.active ≤ s.n
  act : s.active = s.running.length
  noLoss : s.rejected = 0
  conserve : s.accepted = s.queue.length + (transit s.pend).length + s.active + s.completed
  order : s.acceptedL = s.started ++ transit s.pend ++ s.queue
  shape : Shape s

theorem init_inv (n : Nat) (qcap : Option Nat) : Inv { n := n, qcap := qcap } :=
  ⟨Nat.zero_le _, rfl, rfl, rfl, rfl, Or.inl ⟨rfl, rfl⟩⟩

/-! ### list helpers -/

theorem core_append_notify (l : List Ev) : core (l ++ [.notify]) = core l := by
  induction l with
  | nil => rfl
  | cons e es ih => cases e <;> simp [core, ih]

theorem core_append_poll (l : List Ev) : core (l ++ [.poll]) = core l ++ [.poll] := by
  induction l with
  | nil => rfl
  | cons e es ih => cases e <;> simp [core, ih]

theorem core_append_deliver (l : List Ev) (x : Option Nat) : core (l ++ [.deliver x]) = core l ++ [.deliver x] := by
  induction l with
  | nil => rfl
  | cons e es ih => cases e <;> simp [core, ih]

theorem core_append_work (l : List Ev) (t : Nat) : core (l ++ [.work t, .disp]) = core l ++ [.work t, .disp] := by
  induction l with
  | nil => rfl
  | cons e es ih => cases e <;> simp [core, ih]

theorem transit_core (l : List Ev) : transit (core l) = transit l := by
  induction l with
  | nil => rfl
  | cons e es ih =>
    cases e with
    | notify => simpa [core, transit] using ih
    | poll => simpa [core, transit] using ih
    | deliver x => cases x <;> simp [core, transit, ih]
    | work t => simp [core, transit, ih]
    | disp => simpa [core, transit] using ih

theorem transit_of_core_nil (l : List Ev) (h : core l = []) : transit l = [] := by
  rw [← transit_core, h]; rfl

theorem transit_append (a b : List Ev) : transit (a ++ b) = transit a ++ transit b := by
  induction a with
  | nil => rfl
  | cons e es ih =>
    cases e with
    | notify => simpa [transit] using ih
    | poll => simpa [transit] using ih
    | deliver x => cases x <;> simp [transit, ih]
    | work t => simp [transit, ih]
    | disp => simpa [transit] using ih

theorem shape_not_busy (s : St) (h : Shape s) (hb : s.busy = false) : core s.pend = [] := by
  rcases h with h | h | h | h | h | h
  · exact h.2
  all_goals (have := h.1; rw [hb] at this; cases this)

/-! ### `_poll_if_ready` -/

theorem poll_inv (s : St) (inv : Inv s) : Inv (pollIfReady s).1 := by
  simp only [pollIfReady]
  split
  · exact ⟨inv.bound, inv.act, inv.noLoss, inv.conserve, inv.order, inv.shape⟩
  · rename_i hnb
    have hb : s.busy = false := by simpa using hnb
    split
    · exact inv
    · rename_i hcap
      have hc := shape_not_busy s inv.shape hb
      have ht : transit (s.pend ++ [.poll]) = transit s.pend := by rw [transit_append]; simp [transit]
      refine ⟨inv.bound, inv.act, inv.noLoss, ?_, ?_, ?_⟩
      · show s.accepted = s.queue.length + (transit (s.pend ++ [.poll])).length + s.active + s.completed
        rw [ht]; exact inv.conserve
      · show s.acceptedL = s.started ++ transit (s.pend ++ [.poll]) ++ s.queue
        rw [ht]; exact inv.order
      · refine Or.inr (Or.inl ⟨rfl, by show s.active < s.n; omega, ?_⟩)
        show core (s.pend ++ [.poll]) = [.poll]
        rw [core_append_poll, hc]; rfl

/-! ### the deliveries -/

theorem submit_inv (s : St) (tid : Nat) (inv : Inv s) : Inv (step s (.submit tid)).1 := by
  simp only [step]
  split
  · exact ⟨inv.bound, inv.act, inv.noLoss, inv.conserve, inv.order, inv.shape⟩
  · have ht : transit (if s.queue.isEmpty then s.pend ++ [.notify] else s.pend) = transit s.pend := by
      split
      · rw [transit_append]; simp [transit]
      · rfl
    have hc : core (if s.queue.isEmpty then s.pend ++ [.notify] else s.pend) = core s.pend := by
      split
      · exact core_append_notify _
      · rfl
    refine ⟨inv.bound, inv.act, inv.noLoss, ?_, ?_, ?_⟩
    · show s.accepted + 1 = (s.queue ++ [tid]).length
          + (transit (if s.queue.isEmpty then s.pend ++ [.notify] else s.pend)).length + s.active + s.completed
      rw [ht]; have := inv.conserve; simp; omega
    · show s.acceptedL ++ [tid] = s.started ++ transit (if s.queue.isEmpty then s.pend ++ [.notify] else s.pend)
          ++ (s.queue ++ [tid])
      rw [ht, inv.order]; simp
    · have hs := inv.shape
      unfold Shape at hs ⊢
      show (s.busy = false ∧ core (if s.queue.isEmpty then s.pend ++ [.notify] else s.pend) = []) ∨ _
      rw [hc]; exact hs

theorem notify_inv (s : St) (inv : Inv s) : Inv (step s .notify).1 := by
  simp only [step]
  split
  · rename_i rest hp
    apply poll_inv
    have ht : transit s.pend = transit rest := by rw [hp]; rfl
    have hc : core s.pend = core rest := by rw [hp]; rfl
    refine ⟨inv.bound, inv.act, inv.noLoss, ?_, ?_, ?_⟩
    · show s.accepted = s.queue.length + (transit rest).length + s.active + s.completed
      rw [← ht]; exact inv.conserve
    · show s.acceptedL = s.started ++ transit rest ++ s.queue
      rw [← ht]; exact inv.order
    · have hs := inv.shape
      unfold Shape at hs ⊢
      rw [hc] at hs; exact hs
  · exact inv

theorem poll_step_inv (s : St) (inv : Inv s) : Inv (step s .poll).1 := by
  simp only [step]
  split
  · rename_i rest hp
    have hs := inv.shape
    have hcp : core s.pend = .poll :: core rest := by rw [hp]; rfl
    -- the only shape whose round trip starts with a poll
    have hshape : s.busy = true ∧ s.active < s.n ∧ core rest = [] := by
      rcases hs with h | h | h | h | h | h
      · rw [hcp] at h; cases h.2
      · rw [hcp] at h; exact ⟨h.1, h.2.1, by injection h.2.2⟩
      · rw [hcp] at h; cases h.2
      · obtain ⟨_, _, t, ht⟩ := h; rw [hcp] at ht; cases ht
      · obtain ⟨_, _, t, ht⟩ := h; rw [hcp] at ht; cases ht
      · rw [hcp] at h; cases h.2
    obtain ⟨hbusy, hlt, hrest⟩ := hshape
    have htr : transit s.pend = [] := by rw [hp]; exact transit_of_core_nil rest hrest
    have htrr : transit rest = [] := transit_of_core_nil rest hrest
    split
    · rename_i hq
      refine ⟨inv.bound, inv.act, inv.noLoss, ?_, ?_, ?_⟩
      · show s.accepted = s.queue.length + (transit (rest ++ [.deliver none])).length + s.active + s.completed
        rw [transit_append, htrr]; have := inv.conserve; rw [htr] at this; simpa [transit] using this
      · show s.acceptedL = s.started ++ transit (rest ++ [.deliver none]) ++ s.queue
        rw [transit_append, htrr]; have := inv.order; rw [htr] at this; simpa [transit] using this
      · refine Or.inr (Or.inr (Or.inl ⟨hbusy, ?_⟩))
        show core (rest ++ [.deliver none]) = [.deliver none]
        rw [core_append_deliver, hrest]; rfl
    · rename_i t q hq
      refine ⟨inv.bound, inv.act, inv.noLoss, ?_, ?_, ?_⟩
      · show s.accepted = q.length + (transit (rest ++ [.deliver (some t)])).length + s.active + s.completed
        rw [transit_append, htrr]; have := inv.conserve; rw [htr, hq] at this; simp [transit] at this ⊢; omega
      · show s.acceptedL = s.started ++ transit (rest ++ [.deliver (some t)]) ++ q
        rw [transit_append, htrr]; have := inv.order; rw [htr, hq] at this; simpa [transit] using this
      · refine Or.inr (Or.inr (Or.inr (Or.inl ⟨hbusy, hlt, t, ?_⟩)))
        show core (rest ++ [.deliver (some t)]) = [.deliver (some t)]
        rw [core_append_deliver, hrest]; rfl
  · exact inv

theorem deliver_inv (s : St) (inv : Inv s) : Inv (step s .deliver).1 := by
  simp only [step]
  split
  · rename_i rest hp
    have hcp : core s.pend = .deliver none :: core rest := by rw [hp]; rfl
    have hrest : core rest = [] := by
      rcases inv.shape with h | h | h | h | h | h
      · rw [hcp] at h; cases h.2
      · rw [hcp] at h; cases h.2.2
      · rw [hcp] at h; injection h.2
      · obtain ⟨_, _, t, ht⟩ := h; rw [hcp] at ht; cases ht
      · obtain ⟨_, _, t, ht⟩ := h; rw [hcp] at ht; cases ht
      · rw [hcp] at h; cases h.2
    have ht : transit s.pend = transit rest := by rw [hp]; rfl
    have inv1 : Inv { s with pend := rest, busy := false } := by
      refine ⟨inv.bound, inv.act, inv.noLoss, ?_, ?_, Or.inl ⟨rfl, hrest⟩⟩
      · show s.accepted = s.queue.length + (transit rest).length + s.active + s.completed
        rw [← ht]; exact inv.conserve
      · show s.acceptedL = s.started ++ transit rest ++ s.queue
        rw [← ht]; exact inv.order
    split
    · exact poll_inv _ inv1
    · exact inv1
  · rename_i t rest hp
    have hcp : core s.pend = .deliver (some t) :: core rest := by rw [hp]; rfl
    have hshape : s.busy = true ∧ s.active < s.n ∧ core rest = [] := by
      rcases inv.shape with h | h | h | h | h | h
      · rw [hcp] at h; cases h.2
      · rw [hcp] at h; cases h.2.2
      · rw [hcp] at h; cases h.2
      · obtain ⟨hb, hl, t', ht⟩ := h; rw [hcp] at ht; exact ⟨hb, hl, by injection ht⟩
      · obtain ⟨_, _, t', ht⟩ := h; rw [hcp] at ht; cases ht
      · rw [hcp] at h; cases h.2
    obtain ⟨hbusy, hlt, hrest⟩ := hshape
    have htrr : transit rest = [] := transit_of_core_nil rest hrest
    have htr : transit s.pend = [t] := by rw [hp]; simp [transit, htrr]
    refine ⟨inv.bound, inv.act, inv.noLoss, ?_, ?_, ?_⟩
    · show s.accepted = s.queue.length + (transit (rest ++ [.work t, .disp])).length + s.active + s.completed
      rw [transit_append, htrr]; have := inv.conserve; rw [htr] at this; simpa [transit] using this
    · show s.acceptedL = s.started ++ transit (rest ++ [.work t, .disp]) ++ s.queue
      rw [transit_append, htrr]; have := inv.order; rw [htr] at this; simpa [transit] using this
    · refine Or.inr (Or.inr (Or.inr (Or.inr (Or.inl ⟨hbusy, hlt, t, ?_⟩))))
      show core (rest ++ [.work t, .disp]) = [.work t, .disp]
      rw [core_append_work, hrest]; rfl
  · exact inv

theorem work_inv (s : St) (tid : Nat) (inv : Inv s) : Inv (step s (.work tid)).1 := by
  simp only [step]
  split
  · rename_i t rest hp
    split
    · exact inv
    · rename_i heq
      have heq' : t = tid := by simpa using heq
      subst heq'
      have hcp : core s.pend = .work t :: core rest := by rw [hp]; rfl
      have hshape : s.busy = true ∧ s.active < s.n ∧ core rest = [.disp] := by
        rcases inv.shape with h | h | h | h | h | h
        · rw [hcp] at h; cases h.2
        · rw [hcp] at h; cases h.2.2
        · rw [hcp] at h; cases h.2
        · obtain ⟨_, _, t', ht⟩ := h; rw [hcp] at ht; cases ht
        · obtain ⟨hb, hl, t', ht⟩ := h; rw [hcp] at ht; exact ⟨hb, hl, by injection ht⟩
        · rw [hcp] at h; cases h.2
      obtain ⟨hbusy, hlt, hrest⟩ := hshape
      have htrr : transit rest = [] := by rw [← transit_core, hrest]; rfl
      have htr : transit s.pend = [t] := by rw [hp]; simp [transit, htrr]
      split
      · refine ⟨by show s.active + 1 ≤ s.n; omega, ?_, inv.noLoss, ?_, ?_, ?_⟩
        · show s.active + 1 = (s.running ++ [t]).length
          simp [inv.act]
        · show s.accepted = s.queue.length + (transit rest).length + (s.active + 1) + s.completed
          rw [htrr]; have := inv.conserve; rw [htr] at this; simp at this ⊢; omega
        · show s.acceptedL = (s.started ++ [t]) ++ transit rest ++ s.queue
          rw [htrr]; have := inv.order; rw [htr] at this; simpa using this
        · exact Or.inr (Or.inr (Or.inr (Or.inr (Or.inr ⟨hbusy, hrest⟩))))
      · omega
  · exact inv

theorem finish_inv (s : St) (tid : Nat) (inv : Inv s) : Inv (step s (.finish tid)).1 := by
  simp only [step]
  split
  · exact inv
  · rename_i hrun
    have hmem : tid ∈ s.running := by simpa using hrun
    have hlen := List.length_erase_of_mem hmem
    have hpos : 0 < s.running.length := List.length_pos_of_mem hmem
    have hact := inv.act
    apply poll_inv
    refine ⟨by show s.active - 1 ≤ s.n; have := inv.bound; omega, ?_, inv.noLoss, ?_, inv.order, ?_⟩
    · show s.active - 1 = (s.running.erase tid).length; omega
    · show s.accepted = s.queue.length + (transit s.pend).length + (s.active - 1) + (s.completed + 1)
      have := inv.conserve; omega
    · rcases inv.shape with h | h | h | h | h | h
      · exact Or.inl h
      · exact Or.inr (Or.inl ⟨h.1, by show s.active - 1 < s.n; omega, h.2.2⟩)
      · exact Or.inr (Or.inr (Or.inl h))
      · exact Or.inr (Or.inr (Or.inr (Or.inl ⟨h.1, by show s.active - 1 < s.n; omega, h.2.2⟩)))
      · exact Or.inr (Or.inr (Or.inr (Or.inr (Or.inl ⟨h.1, by show s.active - 1 < s.n; omega, h.2.2⟩))))
      · exact Or.inr (Or.inr (Or.inr (Or.inr (Or.inr h))))

theorem disp_inv (s : St) (inv : Inv s) : Inv (step s .disp).1 := by
  simp only [step]
  split
  · rename_i rest hp
    have hcp : core s.pend = .disp :: core rest := by rw [hp]; rfl
    have hrest : core rest = [] := by
      rcases inv.shape with h | h | h | h | h | h
      · rw [hcp] at h; cases h.2
      · rw [hcp] at h; cases h.2.2
      · rw [hcp] at h; cases h.2
      · obtain ⟨_, _, t, ht⟩ := h; rw [hcp] at ht; cases ht
      · obtain ⟨_, _, t, ht⟩ := h; rw [hcp] at ht; cases ht
      · rw [hcp] at h; injection h.2
    have ht : transit s.pend = transit rest := by rw [hp]; rfl
    apply poll_inv
    refine ⟨inv.bound, inv.act, inv.noLoss, ?_, ?_, Or.inl ⟨rfl, hrest⟩⟩
    · show s.accepted = s.queue.length + (transit rest).length + s.active + s.completed
      rw [← ht]; exact inv.conserve
    · show s.acceptedL = s.started ++ transit rest ++ s.queue
      rw [← ht]; exact inv.order
  · exact inv

theorem step_inv (s : St) (o : Op) (inv : Inv s) : Inv (step s o).1 := by
  cases o with
  | submit tid => exact submit_inv s tid inv
  | notify => exact notify_inv s inv
  | poll => exact poll_step_inv s inv
  | deliver => exact deliver_inv s inv
  | work tid => exact work_inv s tid inv
  | finish tid => exact finish_inv s tid inv
  | disp => exact disp_inv s inv

theorem run_inv (s : St) (ops : List Op) (inv : Inv s) : Inv (run s ops) := by
  induction ops generalizing s with
  | nil => exact inv
  | cons o os ih => exact ih _ (step_inv s o inv)

/-! ### work conservation: a queued task and a free worker never sit there with nothing on its way -/

/-- if a task is queued and a worker is free, either a notification is still to be delivered or the
    driver's round trip is in flight and will look at the queue again when it ends -/
def Live (s : St) : Prop :=
  s.queue ≠ [] → s.active < s.n →
    (Ev.notify ∈ s.pend) ∨ (s.busy = true ∧ (core s.pend ≠ [.deliver none] ∨ s.recheck = true))

theorem shape_busy (s : St) (h : Shape s) (hc : core s.pend ≠ []) : s.busy = true := by
  rcases h with h | h | h | h | h | h
  · exact absurd h.2 hc
  all_goals exact h.1

theorem poll_live (s : St) (inv : Inv s) : Live (pollIfReady s).1 := by
  simp only [pollIfReady]
  split
  · rename_i hb
    intro _ _
    exact Or.inr ⟨hb, Or.inr rfl⟩
  · rename_i hnb
    have hb : s.busy = false := by simpa using hnb
    split
    · rename_i hfull
      intro _ hlt
      have hlt' : s.active < s.n := hlt
      omega
    · intro _ _
      refine Or.inr ⟨rfl, Or.inl ?_⟩
      show core (s.pend ++ [.poll]) ≠ [.deliver none]
      rw [core_append_poll, shape_not_busy s inv.shape hb]
      intro h; cases h

theorem step_live (s : St) (o : Op) (inv : Inv s) (lv : Live s) : Live (step s o).1 := by
  cases o with
  | submit tid =>
    simp only [step]
    split
    · exact lv
    · intro _ hlt
      by_cases hq : s.queue = []
      · left
        show Ev.notify ∈ (if s.queue.isEmpty then s.pend ++ [.notify] else s.pend)
        simp [hq]
      · have hne : s.queue.isEmpty = false := by simpa using hq
        rcases lv hq hlt with h | h
        · left
          show Ev.notify ∈ (if s.queue.isEmpty then s.pend ++ [.notify] else s.pend)
          simp [hne, h]
        · right
          show s.busy = true ∧ (core (if s.queue.isEmpty then s.pend ++ [.notify] else s.pend) ≠ [.deliver none] ∨ s.recheck = true)
          simp only [hne]; exact h
  | notify =>
    simp only [step]
    split
    · rename_i rest hp
      apply poll_live
      have := notify_inv s inv
      -- the argument of `_poll_if_ready` satisfies the invariant (same reasoning as in `notify_inv`)
      have ht : transit s.pend = transit rest := by rw [hp]; rfl
      have hc : core s.pend = core rest := by rw [hp]; rfl
      refine ⟨inv.bound, inv.act, inv.noLoss, ?_, ?_, ?_⟩
      · show s.accepted = s.queue.length + (transit rest).length + s.active + s.completed
        rw [← ht]; exact inv.conserve
      · show s.acceptedL = s.started ++ transit rest ++ s.queue
        rw [← ht]; exact inv.order
      · have hs := inv.shape
        unfold Shape at hs ⊢
        rw [hc] at hs; exact hs
    · exact lv
  | poll =>
    have hnext := poll_step_inv s inv
    simp only [step] at hnext ⊢
    split
    · rename_i rest hp
      have hcne : core s.pend ≠ [] := by rw [hp]; simp [core]
      have hbusy := shape_busy s inv.shape hcne
      split
      · rename_i hq0
        intro hq _
        exact absurd hq0 hq
      · rename_i t q hq
        intro _ _
        refine Or.inr ⟨hbusy, Or.inl ?_⟩
        show core (rest ++ [.deliver (some t)]) ≠ [.deliver none]
        rw [core_append_deliver]
        intro h
        have := congrArg List.getLast? h
        simp at this
    · exact lv
  | deliver =>
    simp only [step]
    split
    · rename_i rest hp
      have hcp : core s.pend = .deliver none :: core rest := by rw [hp]; rfl
      have hrest : core rest = [] := by
        rcases inv.shape with h | h | h | h | h | h
        · rw [hcp] at h; cases h.2
        · rw [hcp] at h; cases h.2.2
        · rw [hcp] at h; injection h.2
        · obtain ⟨_, _, t, ht⟩ := h; rw [hcp] at ht; cases ht
        · obtain ⟨_, _, t, ht⟩ := h; rw [hcp] at ht; cases ht
        · rw [hcp] at h; cases h.2
      have ht : transit s.pend = transit rest := by rw [hp]; rfl
      have inv1 : Inv { s with pend := rest, busy := false } := by
        refine ⟨inv.bound, inv.act, inv.noLoss, ?_, ?_, Or.inl ⟨rfl, hrest⟩⟩
        · show s.accepted = s.queue.length + (transit rest).length + s.active + s.completed
          rw [← ht]; exact inv.conserve
        · show s.acceptedL = s.started ++ transit rest ++ s.queue
          rw [← ht]; exact inv.order
      split
      · exact poll_live _ inv1
      · rename_i hnr
        intro hq hlt
        left
        show Ev.notify ∈ rest
        rcases lv hq hlt with h | h
        · rw [hp] at h
          rcases List.mem_cons.mp h with h' | h'
          · cases h'
          · exact h'
        · rcases h.2 with h' | h'
          · rw [hcp, hrest] at h'; exact absurd rfl h'
          · exact absurd h' hnr
    · rename_i t rest hp
      have hcne : core s.pend ≠ [] := by rw [hp]; simp [core]
      have hbusy := shape_busy s inv.shape hcne
      intro _ _
      refine Or.inr ⟨hbusy, Or.inl ?_⟩
      show core (rest ++ [.work t, .disp]) ≠ [.deliver none]
      rw [core_append_work]
      intro h
      have := congrArg List.length h
      simp at this
    · exact lv
  | work tid =>
    have hnext := work_inv s tid inv
    simp only [step] at hnext ⊢
    split
    · rename_i t rest hp
      split
      · exact lv
      · have hcp : core s.pend = .work t :: core rest := by rw [hp]; rfl
        have hcne : core s.pend ≠ [] := by rw [hcp]; simp
        have hbusy := shape_busy s inv.shape hcne
        have hrest : core rest = [.disp] := by
          rcases inv.shape with h | h | h | h | h | h
          · rw [hcp] at h; cases h.2
          · rw [hcp] at h; cases h.2.2
          · rw [hcp] at h; cases h.2
          · obtain ⟨_, _, t', ht⟩ := h; rw [hcp] at ht; cases ht
          · obtain ⟨_, _, t', ht⟩ := h; rw [hcp] at ht; injection ht
          · rw [hcp] at h; cases h.2
        split
        · intro _ _
          refine Or.inr ⟨hbusy, Or.inl ?_⟩
          show core rest ≠ [.deliver none]
          rw [hrest]; intro h; cases h
        · -- unreachable (the slot is reserved), but `_poll_if_ready` keeps things live anyway
          apply poll_live
          rename_i hfull _
          have hlt : s.active < s.n := by
            rcases inv.shape with h | h | h | h | h | h
            · rw [hcp] at h; cases h.2
            · exact h.2.1
            · rw [hcp] at h; cases h.2
            · exact h.2.1
            · exact h.2.1
            · rw [hcp] at h; cases h.2
          omega
    · exact lv
  | finish tid =>
    simp only [step]
    split
    · exact lv
    · rename_i hrun
      apply poll_live
      have hmem : tid ∈ s.running := by simpa using hrun
      have hlen := List.length_erase_of_mem hmem
      have hpos : 0 < s.running.length := List.length_pos_of_mem hmem
      have hact := inv.act
      refine ⟨by show s.active - 1 ≤ s.n; have := inv.bound; omega, ?_, inv.noLoss, ?_, inv.order, ?_⟩
      · show s.active - 1 = (s.running.erase tid).length; omega
      · show s.accepted = s.queue.length + (transit s.pend).length + (s.active - 1) + (s.completed + 1)
        have := inv.conserve; omega
      · rcases inv.shape with h | h | h | h | h | h
        · exact Or.inl h
        · exact Or.inr (Or.inl ⟨h.1, by show s.active - 1 < s.n; omega, h.2.2⟩)
        · exact Or.inr (Or.inr (Or.inl h))
        · exact Or.inr (Or.inr (Or.inr (Or.inl ⟨h.1, by show s.active - 1 < s.n; omega, h.2.2⟩)))
        · exact Or.inr (Or.inr (Or.inr (Or.inr (Or.inl ⟨h.1, by show s.active - 1 < s.n; omega, h.2.2⟩))))
        · exact Or.inr (Or.inr (Or.inr (Or.inr (Or.inr h))))
  | disp =>
    simp only [step]
    split
    · rename_i rest hp
      have hcp : core s.pend = .disp :: core rest := by rw [hp]; rfl
      have hrest : core rest = [] := by
        rcases inv.shape with h | h | h | h | h | h
        · rw [hcp] at h; cases h.2
        · rw [hcp] at h; cases h.2.2
        · rw [hcp] at h; cases h.2
        · obtain ⟨_, _, t, ht⟩ := h; rw [hcp] at ht; cases ht
        · obtain ⟨_, _, t, ht⟩ := h; rw [hcp] at ht; cases ht
        · rw [hcp] at h; injection h.2
      have ht : transit s.pend = transit rest := by rw [hp]; rfl
      apply poll_live
      refine ⟨inv.bound, inv.act, inv.noLoss, ?_, ?_, Or.inl ⟨rfl, hrest⟩⟩
      · show s.accepted = s.queue.length + (transit rest).length + s.active + s.completed
        rw [← ht]; exact inv.conserve
      · show s.acceptedL = s.started ++ transit rest ++ s.queue
        rw [← ht]; exact inv.order
    · exact lv

theorem run_live (s : St) (ops : List Op) (inv : Inv s) (lv : Live s) : Live (run s ops) := by
  induction ops generalizing s with
  | nil => exact lv
  | cons o os ih => exact ih _ (step_inv s o inv) (step_live s o inv lv)

end HappyModel.C09.TPool
