import HappyProofs.C09.PreemptSpec
import HappyModel.C09.PreemptCb
/-! The re-entrant PreemptibleResource machine (`HappyModel/C09/PreemptCb.lean`): the relation between the judge's
books + call stack and the machine state, and the pieces every `tick` is made of. -/
namespace HappyModel.C09.PreemptCb
open HappyModel.C09.Preempt

theorem bumpId_eq (s : St) : bumpId s = Preempt.bump s := rfl
theorem enq_eq (s : St) (g : G) : enq s g = Preempt.enqueue s g := rfl
theorem giveBack_eq (s : St) (g : G) : giveBack s g = Preempt.freed s g := rfl

/-- the acquire calls that are in the middle of a preemption: the `loop` frames that have evicted somebody -/
def callsOf : List Frame → List Call
  | [] => []
  | .prog _ _ :: fs => callsOf fs
  | .loop amt prio _ snap evs :: fs =>
    if evs = [] then callsOf fs else ⟨amt, prio, snap, evs⟩ :: callsOf fs

def FrameOk (cap : Int) : Frame → Prop
  | .prog _ _ => True
  | .loop amt _ _ _ _ => 0 < amt ∧ amt ≤ cap

/-- the amounts that went back to `available`: each grant at most once, and never one that is still held -/
structure RetOk (s : St) (rl : List Nat) : Prop where
  nodup : rl.Nodup
  logged : ∀ i ∈ rl, i ∈ s.grantLog
  dead : ∀ g ∈ s.active, g.id ∉ rl

structure Agree (cap : Int) (j : JB) (m : M) : Prop where
  core : Core cap j.b m.s m.gone
  calls : j.calls = callsOf m.stack
  head : j.calls = [] → ∀ w ws, m.s.waiters = w :: ws → m.s.avail < w.amt
  ret : RetOk m.s m.retLog
  valid : ∀ f ∈ m.stack, FrameOk cap f

/-- the observation the driver prints for an event and the judge parses back; `cnt`: nested lines carry counters -/
def cobs (cnt : Bool) (e : Ev) : CObs := { tag := e.tag, cnt := e.ctx.isNone || cnt, o := e.o }

/-- what one tick has to establish -/
def Step (cap : Int) (cnt : Bool) (j : JB) (r : M × Option Ev) : Prop :=
  match r.2 with
  | none => Agree cap j r.1
  | some e => ∃ j', j.apply cap (cobs cnt e) = .ok j' ∧ j'.check cap (cobs cnt e) = none ∧ Agree cap j' r.1

theorem Step.silent {cap : Int} {cnt : Bool} {j : JB} {m : M} (h : Agree cap j m) : Step cap cnt j (m, none) := h

theorem Step.loud {cap : Int} {cnt : Bool} {j j' : JB} {m : M} {e : Ev}
    (h1 : j.apply cap (cobs cnt e) = .ok j') (h2 : j'.check cap (cobs cnt e) = none) (h3 : Agree cap j' m) :
    Step cap cnt j (m, some e) := ⟨j', h1, h2, h3⟩

/-! ### the counters -/

theorem checkMid_ok (cap : Int) (b : Book) (s : St) (gone : List Nat) (o : Obs) (c : Core cap b s gone)
    (hp : o.pset = sortedIds gone) (ha : o.avail = s.avail) (h1 : o.sAcq = s.acquisitions)
    (h2 : o.sRel = s.releases) (h3 : o.sPre = s.preemptions) (h4 : o.sCon = s.contentions) :
    checkMid cap b o = none := by
  have hsum : heldSum b = cap - s.avail := by
    unfold heldSum; rw [c.held, ← c.cap]; have := c.num.conserve; omega
  have hnn := c.num.availNonneg
  have hheld : 0 ≤ heldSum b := by unfold heldSum; rw [c.held]; exact amtSum_nonneg s.active c.num.actPos
  have hrest : (if sortedIds o.pset ≠ sortedIds b.gone then some "preempt/preempt/flag-mismatch"
      else if o.sAcq ≠ b.granted.length then some "preempt/stats/acquisitions-mismatch"
      else if o.sRel ≠ b.nRel then some "preempt/stats/releases-mismatch"
      else if o.sPre ≠ b.gone.length then some "preempt/stats/preemptions-mismatch"
      else if o.sCon ≠ b.nCon then some "preempt/stats/contentions-mismatch"
      else none) = none := by
    rw [hp, h1, h2, h3, h4, sortedIds_idem, c.bgone, c.granted, c.nRel, c.nCon]
    simp [c.nAcq, c.nPre]
  unfold checkMid
  rw [hrest, ha, hsum]
  rw [if_neg (by omega), if_neg (by omega), if_neg (by omega), if_neg (by simp; omega)]

/-- the counters of an observation taken in machine state `m` pass the judge's check -/
theorem check_obsAt (cap : Int) (cnt : Bool) (j : JB) (m : M) (ctx : Option Nat) (tag : Tag) (k : Kind) (res : Res)
    (ev wk : List Nat) (ag : Agree cap j m) :
    j.check cap (cobs cnt ⟨ctx, tag, obsAt m k res ev wk⟩) = none := by
  unfold JB.check
  split
  · rfl
  · split
    · rename_i hc
      exact Preempt.check_ok cap j.b m.s m.gone _ ⟨ag.core, ag.head hc⟩ rfl rfl rfl rfl rfl rfl
    · exact checkMid_ok cap j.b m.s m.gone _ ag.core rfl rfl rfl rfl rfl rfl

/-! ### one eviction -/

theorem core_evict1 {cap : Int} {b : Book} {s : St} {gone : List Nat} (v : G) (c : Core cap b s gone)
    (hm : v ∈ s.active) :
    Core cap { b with held := b.held.erase v, gone := b.gone ++ [v.id] } (evict1 s v) (gone ++ [v.id]) :=
  { num := ⟨c.num.fix, c.num.capPos,
            by show s.avail + v.amt + amtSum (s.active.erase v) = s.cap
               rw [amtSum_erase _ _ hm]; have := c.num.conserve; omega,
            by show 0 ≤ s.avail + v.amt
               have := c.num.actPos v hm; have := c.num.availNonneg; omega,
            fun x hx => c.num.actPos x (List.mem_of_mem_erase hx), c.num.waitPos⟩
    ord := ⟨c.ord.sorted, c.ord.waitFresh, c.ord.logFresh, c.ord.logNodup, c.ord.waitNotLogged, c.ord.waitNodup⟩
    cap := c.cap
    held := by show b.held.erase v = s.active.erase v; rw [c.held]
    granted := c.granted
    bgone := by show b.gone ++ [v.id] = gone ++ [v.id]; rw [c.bgone]
    nPre := by show s.preemptions + 1 = (gone ++ [v.id]).length; rw [c.nPre]; simp
    nRel := c.nRel
    nCon := c.nCon, nAcq := c.nAcq, waitPerm := c.waitPerm, waitArr := c.waitArr
    actNodup := nodup_ids_erase _ _ c.actNodup
    actLogged := fun x hx => c.actLogged x (List.mem_of_mem_erase hx) }

/-! ### the return log -/

theorem erase_id_ne (l : List G) (g x : G) (hn : (l.map G.id).Nodup) (hg : g ∈ l) (hx : x ∈ l.erase g) : x.id ≠ g.id := by
  induction l with
  | nil => cases hg
  | cons a as ih =>
    rw [List.map_cons, List.nodup_cons] at hn
    rw [List.erase_cons] at hx
    by_cases hag : a = g
    · have : (a == g) = true := by simp [hag]
      rw [this] at hx
      simp only [if_true] at hx
      intro he
      apply hn.1
      rw [hag, ← he]
      exact List.mem_map_of_mem hx
    · have hne : (a == g) = false := by simp [hag]
      rw [hne] at hx
      simp only [Bool.false_eq_true, if_false] at hx
      have hg' : g ∈ as := by
        rcases List.mem_cons.mp hg with h | h
        · exact absurd h.symm hag
        · exact h
      rcases List.mem_cons.mp hx with h | h
      · intro he
        apply hn.1
        rw [← h, he]
        exact List.mem_map_of_mem hg'
      · exact ih hn.2 hg' h

/-- a holder's amount goes back (release or eviction): it is entered in the return log -/
theorem retok_return {cap : Int} {b : Book} {s s' : St} {gone : List Nat} {rl : List Nat} (g : G)
    (c : Core cap b s gone) (r : RetOk s rl) (hm : g ∈ s.active)
    (hact : s'.active = s.active.erase g) (hlog : s'.grantLog = s.grantLog) : RetOk s' (rl ++ [g.id]) :=
  { nodup := by
      rw [List.nodup_append]
      refine ⟨r.nodup, by simp, ?_⟩
      intro a ha b' hb
      simp at hb
      rw [hb]
      intro he
      exact r.dead g hm (he ▸ ha)
    logged := by
      intro i hi
      rw [hlog]
      rcases List.mem_append.mp hi with h | h
      · exact r.logged i h
      · simp at h; rw [h]; exact c.actLogged g hm
    dead := by
      intro x hx hin
      rw [hact] at hx
      rcases List.mem_append.mp hin with h | h
      · exact r.dead x (List.mem_of_mem_erase hx) h
      · simp at h
        exact erase_id_ne _ _ _ c.actNodup hm hx h }

theorem retok_bump {s : St} {rl : List Nat} (r : RetOk s rl) : RetOk (bumpId s) rl := ⟨r.nodup, r.logged, r.dead⟩

theorem retok_enq {s : St} {rl : List Nat} (g : G) (r : RetOk s rl) : RetOk (enq s g) rl := ⟨r.nodup, r.logged, r.dead⟩

theorem retok_grant {s : St} {rl : List Nat} (g : G) (r : RetOk s rl) (hnew : g.id ∉ s.grantLog) :
    RetOk (grantNow s g) rl :=
  { nodup := r.nodup
    logged := fun i hi => by
      show i ∈ s.grantLog ++ [g.id]
      exact List.mem_append_left _ (r.logged i hi)
    dead := fun x hx hin => by
      have hx' : x ∈ s.active ++ [g] := hx
      rcases List.mem_append.mp hx' with h | h
      · exact r.dead x h hin
      · simp at h; rw [h] at hin; exact hnew (r.logged _ hin) }

theorem retok_wake {s : St} {rl : List Nat} (r : RetOk s rl) (hwn : ∀ g ∈ s.waiters, g.id ∉ s.grantLog) :
    RetOk (wake s).1 rl :=
  { nodup := r.nodup
    logged := fun i hi => by
      show i ∈ s.grantLog ++ (wokenOf s.avail s.waiters).map G.id
      exact List.mem_append_left _ (r.logged i hi)
    dead := fun x hx hin => by
      have hx' : x ∈ s.active ++ wokenOf s.avail s.waiters := hx
      rcases List.mem_append.mp hx' with h | h
      · exact r.dead x h hin
      · have hxw : x ∈ s.waiters := by
          rw [← woken_append_rest s.avail s.waiters]; exact List.mem_append_left _ h
        exact hwn x hxw (r.logged _ hin) }

/-! ### stack bookkeeping -/

theorem callsOf_prog (o : Option Nat) (acts : List Act) (fs : List Frame) : callsOf (.prog o acts :: fs) = callsOf fs := rfl

theorem callsOf_loop_nil (amt prio : Int) (cb : Nat) (snap : List G) (fs : List Frame) :
    callsOf (.loop amt prio cb snap [] :: fs) = callsOf fs := by
  simp [callsOf]

theorem callsOf_loop_cons (amt prio : Int) (cb : Nat) (snap : List G) (evs : List Nat) (fs : List Frame) (h : evs ≠ []) :
    callsOf (.loop amt prio cb snap evs :: fs) = ⟨amt, prio, snap, evs⟩ :: callsOf fs := by
  simp [callsOf, h]

/-- replacing the stack by one with the same open calls -/
theorem Agree.restack {cap : Int} {j : JB} {m : M} (ag : Agree cap j m) (st : List Frame)
    (hc : callsOf st = callsOf m.stack) (hv : ∀ f ∈ st, FrameOk cap f) : Agree cap j { m with stack := st } :=
  { core := ag.core, calls := by rw [ag.calls]; exact hc.symm, head := ag.head, ret := ag.ret, valid := hv }

end HappyModel.C09.PreemptCb
