import HappyProofs.C09.BulkheadSpecA
/-! Bulkhead: model-side facts about one driver iteration (`dstep`), and the judge's two list walks
(`Book.expire`, `Book.admitAll`) on the model's queue. -/
namespace HappyModel.C09.Bulkhead
open HappyModel.C09.Extra (BPend)

/-! ### `step`, branch by branch -/

theorem step_req_adm (s : St) (rid t : Nat) (h : s.active < s.max) :
    step s (.request rid t) = (forward { s with total := s.total + 1 } rid, .admitted (s.nextId + 1)) := by
  simp only [step]; rw [if_pos h]

theorem step_req_queued (s : St) (rid t : Nat) (h : ¬ s.active < s.max) (hq : s.queue.length < s.maxQ) :
    step s (.request rid t) = (enqueue { s with total := s.total + 1 } rid t, .queued (s.nextId + 1)) := by
  simp only [step]; rw [if_neg h, if_pos hq]

theorem step_req_rej (s : St) (rid t : Nat) (h : ¬ s.active < s.max) (hq : ¬ s.queue.length < s.maxQ) :
    step s (.request rid t) = ({ s with total := s.total + 1, rejected := s.rejected + 1 }, .rejected) := by
  simp only [step]; rw [if_neg h, if_neg hq]

theorem step_resp_known (s : St) (bid t : Nat) (h : s.inflight.any (·.1 == bid) = true) :
    step s (.response bid t)
      = ((tryProcess { s with inflight := s.inflight.eraseP (·.1 == bid), active := s.active - 1 } t).1,
         .completed (tryProcess { s with inflight := s.inflight.eraseP (·.1 == bid), active := s.active - 1 } t).2) := by
  simp only [step, h]; rfl

theorem step_tmo_hit (s : St) (bid t : Nat) (h : s.queue.any (·.bid == bid) = true) :
    step s (.timeout bid t)
      = ({ s with queue := s.queue.filter (·.bid != bid), timedOut := s.timedOut + 1, expired := s.expired ++ [bid] }, .timedOut) := by
  simp only [step]; rw [if_pos h]

theorem step_tmo_miss (s : St) (bid t : Nat) (h : s.queue.any (·.bid == bid) = false) :
    step s (.timeout bid t) = (s, .noop) := by
  simp only [step]; rw [if_neg (by simp [h])]

/-- what `_try_process_queued` does to the public fields, when a permit is free -/
theorem tryProcess_spec (s : St) (t : Nat) (hlt : s.active < s.max) :
    (tryProcess s t).1.timedOut = s.timedOut + (skipped s.wait t s.queue).length
    ∧ (tryProcess s t).1.total = s.total ∧ (tryProcess s t).1.rejected = s.rejected
    ∧ (tryProcess s t).1.queued = s.queued ∧ (tryProcess s t).1.peakQueue = s.peakQueue
    ∧ (remaining s.wait t s.queue = [] →
        (tryProcess s t).2 = none ∧ (tryProcess s t).1.queue = [] ∧ (tryProcess s t).1.active = s.active
        ∧ (tryProcess s t).1.accepted = s.accepted ∧ (tryProcess s t).1.peakConc = s.peakConc
        ∧ (tryProcess s t).1.nextId = s.nextId)
    ∧ (∀ e es, remaining s.wait t s.queue = e :: es →
        (tryProcess s t).2 = some (e.rid, s.nextId + 1) ∧ (tryProcess s t).1.queue = es
        ∧ (tryProcess s t).1.active = s.active + 1 ∧ (tryProcess s t).1.accepted = s.accepted + 1
        ∧ (tryProcess s t).1.peakConc = (if s.peakConc < s.active + 1 then s.active + 1 else s.peakConc)
        ∧ (tryProcess s t).1.nextId = s.nextId + 1) := by
  simp only [tryProcess]
  split
  · rename_i hemp
    have hq : s.queue = [] := by simpa using hemp
    simp [hq, skipped, remaining]
  · split
    · omega
    · split
      · rename_i hrem
        simp [hrem]
      · rename_i e es hrem
        simp [hrem, forward]


/-! ### more list helpers -/

theorem nodup_of_map {α β : Type} (f : α → β) (l : List α) (h : (l.map f).Nodup) : l.Nodup := by
  rw [List.Nodup, List.pairwise_map] at h
  exact h.imp (by intro a b hne heq; exact hne (by rw [heq]))

theorem nodup_snoc {α : Type} (l : List α) (x : α) (h : l.Nodup) (hx : x ∉ l) : (l ++ [x]).Nodup := by
  rw [List.nodup_append]
  refine ⟨h, by simp, ?_⟩
  intro a ha b hb
  simp at hb; subst hb
  exact fun he => hx (he ▸ ha)

theorem nodup_filter {α : Type} (p : α → Bool) (l : List α) (h : l.Nodup) : (l.filter p).Nodup :=
  List.Nodup.sublist List.filter_sublist h

/-! ### the judge's walks over the waiting list -/

/-- how the judge sees a queue entry: (caller tag, clock value of the enqueue) -/
def wf (e : Entry) : Nat × Nat := (e.rid, e.enq)

def qtags (s : St) : List Nat := s.queue.map Entry.rid

theorem expire_skipped (wait t : Nat) (sk rest : List Entry) (b : Book)
    (hb : b.waiting = (sk ++ rest).map wf) (hex : ∀ e ∈ sk, isExpired wait t e = true) :
    b.expire wait t sk.length = .ok { b with waiting := rest.map wf, timedOut := b.timedOut ++ sk.map Entry.rid } := by
  induction sk generalizing b with
  | nil =>
    obtain ⟨a1, a2, a3, a4, a5, a6, a7, a8, a9, a10, a11⟩ := b
    simp only [List.nil_append] at hb
    subst hb
    simp [Book.expire]
  | cons e sk ih =>
    obtain ⟨a1, a2, a3, a4, a5, a6, a7, a8, a9, a10, a11⟩ := b
    simp only [List.cons_append, List.map_cons] at hb
    subst hb
    have he := hex e (List.mem_cons_self ..)
    simp only [isExpired, Bool.and_eq_true, bne_iff_ne, ne_eq, decide_eq_true_eq] at he
    have hc : ¬ (wait = 0 ∨ t ≤ (wf e).2 + wait) := by simp only [wf]; omega
    simp only [List.length_cons, Book.expire]
    rw [if_neg hc]
    rw [ih _ rfl (fun x hx => hex x (List.mem_cons_of_mem _ hx))]
    simp [wf]

theorem admitAll_nil (b : Book) (t : Nat) : b.admitAll t [] = .ok b := rfl

theorem admitAll_one (b : Book) (t x enq : Nat) (rest : List (Nat × Nat)) (h1 : x ∉ b.timedOut) (h2 : x ∉ b.admitted)
    (hw : b.waiting = (x, enq) :: rest) :
    b.admitAll t [x] = .ok { b with waiting := rest, toStart := b.toStart ++ [(x, t)], admitted := b.admitted ++ [x] } := by
  obtain ⟨a1, a2, a3, a4, a5, a6, a7, a8, a9, a10, a11⟩ := b
  simp only at hw h1 h2
  subst hw
  simp [Book.admitAll, h1, h2]

end HappyModel.C09.Bulkhead
