import HappyModel.C09.Spec
/-! Invariants of the `Resource` model and their preservation by every operation. -/
namespace HappyModel.C09.Res

@[simp] theorem amtSum_nil : amtSum [] = 0 := rfl
@[simp] theorem amtSum_cons (a : Nat × Int) (l : List (Nat × Int)) : amtSum (a :: l) = a.2 + amtSum l := by
  simp [amtSum]
@[simp] theorem amtSum_append (a b : List (Nat × Int)) : amtSum (a ++ b) = amtSum a + amtSum b := by
  induction a with
  | nil => simp
  | cons x xs ih => simp [ih]; omega

theorem amtSum_take_drop (n : Nat) (l : List (Nat × Int)) : amtSum (l.take n) + amtSum (l.drop n) = amtSum l := by
  rw [← amtSum_append, List.take_append_drop]

theorem findHeld_mem {id : Nat} {l : List (Nat × Int)} {g : Nat × Int} (h : findHeld id l = some g) :
    g ∈ l ∧ g.1 = id := by
  induction l with
  | nil => simp [findHeld] at h
  | cons x xs ih =>
    unfold findHeld at h
    split at h
    · cases h; exact ⟨List.mem_cons_self, by assumption⟩
    · exact ⟨List.mem_cons_of_mem _ (ih h).1, (ih h).2⟩

theorem amtSum_eraseHeld {id : Nat} {l : List (Nat × Int)} {g : Nat × Int} (h : findHeld id l = some g) :
    amtSum (eraseHeld id l) + g.2 = amtSum l := by
  induction l with
  | nil => simp [findHeld] at h
  | cons x xs ih =>
    unfold findHeld at h
    unfold eraseHeld
    split at h
    · rename_i hx; cases h; simp [hx]; omega
    · rename_i hx; simp [hx]; have := ih h; omega

theorem mem_eraseHeld {id : Nat} {l : List (Nat × Int)} {x : Nat × Int} (h : x ∈ eraseHeld id l) : x ∈ l := by
  induction l with
  | nil => simp [eraseHeld] at h
  | cons y ys ih =>
    unfold eraseHeld at h
    split at h
    · exact List.mem_cons_of_mem _ h
    · rcases List.mem_cons.mp h with h | h
      · subst h; exact List.mem_cons_self
      · exact List.mem_cons_of_mem _ (ih h)

theorem wakeN_le_length (a : Int) (l : List (Nat × Int)) : wakeN a l ≤ l.length := by
  induction l generalizing a with
  | nil => simp [wakeN]
  | cons w ws ih =>
    unfold wakeN; split
    · have := ih (a - w.2); simp; omega
    · simp

/-- the woken prefix fits -/
theorem wakeN_sum_le (a : Int) (l : List (Nat × Int)) (hpos : ∀ w ∈ l, 0 < w.2) (ha : 0 ≤ a) :
    amtSum (l.take (wakeN a l)) ≤ a := by
  induction l generalizing a with
  | nil => simpa [wakeN] using ha
  | cons w ws ih =>
    unfold wakeN; split
    · rename_i hfit
      have := ih (a - w.2) (fun x hx => hpos x (List.mem_cons_of_mem _ hx)) (by omega)
      simp; omega
    · simpa using ha

/-- after waking, the new head (if any) does not fit into what is left -/
theorem wakeN_head_blocked (a : Int) (l : List (Nat × Int)) (w : Nat × Int) (ws : List (Nat × Int))
    (h : l.drop (wakeN a l) = w :: ws) : a - amtSum (l.take (wakeN a l)) < w.2 := by
  induction l generalizing a with
  | nil => simp at h
  | cons x xs ih =>
    unfold wakeN at h ⊢; split
    · rename_i hfit
      rw [if_pos hfit] at h
      simp only [List.drop_succ_cons] at h
      have := ih (a - x.2) h
      simp; omega
    · rename_i hnf
      rw [if_neg hnf] at h
      simp at h
      obtain ⟨rfl, _⟩ := h
      simp; omega

/-- The invariant for a capacity that may change (`set_capacity`).  `available` may be negative
    (over-committed after a reduction below the held amount); conservation is exact at all times. -/
structure Inv (s : St) : Prop where
  capPos : 0 < s.cap
  conserve : s.avail + amtSum s.held = s.cap
  heldPos : ∀ g ∈ s.held, 0 < g.2
  waitPos : ∀ w ∈ s.waiters, 0 < w.2
  headBlocked : ∀ w ws, s.waiters = w :: ws → s.avail < w.2

theorem init_inv (cap : Int) (h : 0 < cap) : Inv (St.init cap) :=
  ⟨h, by simp [St.init], by simp [St.init], by simp [St.init],
   by intro w ws hw; simp [St.init] at hw⟩

/-- the part of the old invariant that only holds while nobody has lowered the capacity below the
    held amount: `0 ≤ available`, i.e. `held ≤ capacity` -/
def Within (s : St) : Prop := 0 ≤ s.avail

/-- whoever is woken fits: if `_wake_waiters` wakes at least one request, what is left is ≥ 0 -/
theorem wakeN_pos_nonneg (a : Int) (l : List (Nat × Int)) (hpos : ∀ w ∈ l, 0 < w.2) (h : 0 < wakeN a l) :
    0 ≤ a - amtSum (l.take (wakeN a l)) := by
  cases l with
  | nil => simp [wakeN] at h
  | cons w ws =>
    have hw : w.2 ≤ a := by
      unfold wakeN at h; split at h
      · assumption
      · omega
    have hwp := hpos w List.mem_cons_self
    have := wakeN_sum_le a (w :: ws) hpos (by omega)
    omega

theorem amtSum_nonneg (l : List (Nat × Int)) (h : ∀ g ∈ l, 0 < g.2) : 0 ≤ amtSum l := by
  induction l with
  | nil => simp
  | cons x xs ih =>
    have := ih (fun g hg => h g (List.mem_cons_of_mem _ hg))
    have := h x List.mem_cons_self
    simp; omega

theorem step_acquire (s : St) (id : Nat) (a : Int) : step s (.acquire id a) =
    if badAmount s a then (s, ⟨.err, []⟩)
    else if a ≤ s.avail then
      ({ s with avail := s.avail - a, held := s.held ++ [(id, a)] }, ⟨.granted, []⟩)
    else ({ s with waiters := s.waiters ++ [(id, a)] }, ⟨.queued, []⟩) := rfl

theorem step_tryAcquire (s : St) (id : Nat) (a : Int) : step s (.tryAcquire id a) =
    if badAmount s a then (s, ⟨.err, []⟩)
    else if a ≤ s.avail then
      ({ s with avail := s.avail - a, held := s.held ++ [(id, a)] }, ⟨.granted, []⟩)
    else (s, ⟨.refused, []⟩) := rfl

theorem step_release (s : St) (id : Nat) : step s (.release id) = release s id := rfl

theorem step_setCapacity (s : St) (c : Int) : step s (.setCapacity c) = setCapacity s c := rfl

/-- only `set_capacity` changes the capacity -/
theorem step_cap (s : St) (o : Op) (ho : ∀ c, o ≠ .setCapacity c) : (step s o).1.cap = s.cap := by
  cases o with
  | setCapacity c => exact absurd rfl (ho c)
  | acquire id a =>
    rw [step_acquire]; split
    · rfl
    · split <;> rfl
  | tryAcquire id a =>
    rw [step_tryAcquire]; split
    · rfl
    · split <;> rfl
  | release id =>
    rw [step_release]; unfold release
    split
    · rfl
    · dsimp only; split <;> rfl

theorem grant_inv (s : St) (inv : Inv s) (id : Nat) (a : Int) (hbad : badAmount s a = false) (hfit : a ≤ s.avail) :
    Inv { s with avail := s.avail - a, held := s.held ++ [(id, a)] } := by
  have hpos : 0 < a := by simp [badAmount] at hbad; omega
  refine ⟨inv.capPos, ?_, ?_, inv.waitPos, ?_⟩
  · simp; have := inv.conserve; omega
  · intro g hg
    rcases List.mem_append.mp hg with h | h
    · exact inv.heldPos g h
    · simp at h; subst h; exact hpos
  · intro w ws hw; have := inv.headBlocked w ws hw; simp; omega

theorem step_inv (s : St) (o : Op) (inv : Inv s) : Inv (step s o).1 := by
  cases o with
  | acquire id a =>
    rw [step_acquire]
    split
    · exact inv
    · rename_i hbad
      have hbad' : badAmount s a = false := by simpa using hbad
      split
      · rename_i hfit; exact grant_inv s inv id a hbad' hfit
      · rename_i hnf
        have hv : 0 < a ∧ a ≤ s.cap := by simp [badAmount] at hbad'; omega
        refine ⟨inv.capPos, inv.conserve, inv.heldPos, ?_, ?_⟩
        · intro w hw
          rcases List.mem_append.mp hw with h | h
          · exact inv.waitPos w h
          · simp at h; subst h; exact hv.1
        · intro w ws hw
          cases hq : s.waiters with
          | nil => rw [hq] at hw; simp at hw; obtain ⟨rfl, _⟩ := hw; simp; omega
          | cons x xs =>
            rw [hq] at hw; simp at hw; obtain ⟨rfl, _⟩ := hw
            exact inv.headBlocked x xs hq
  | tryAcquire id a =>
    rw [step_tryAcquire]
    split
    · exact inv
    · rename_i hbad
      have hbad' : badAmount s a = false := by simpa using hbad
      split
      · rename_i hfit; exact grant_inv s inv id a hbad' hfit
      · exact inv
  | release id =>
    rw [step_release]; unfold release
    split
    · exact inv
    · rename_i g hg
      have hmem := (findHeld_mem hg).1
      have hgpos := inv.heldPos g hmem
      have hsum := amtSum_eraseHeld hg
      have hcons := inv.conserve
      have hnn := amtSum_nonneg (eraseHeld id s.held) (fun x hx => inv.heldPos x (mem_eraseHeld hx))
      dsimp only
      split
      · rename_i hex; omega
      · rename_i hok
        have hwpos : ∀ w ∈ s.waiters, 0 < w.2 := inv.waitPos
        have htd := amtSum_take_drop (wakeN (s.avail + g.2) s.waiters) s.waiters
        refine ⟨inv.capPos, ?_, ?_, ?_, ?_⟩
        · simp; omega
        · intro x hx
          rcases List.mem_append.mp hx with h | h
          · exact inv.heldPos x (mem_eraseHeld h)
          · exact hwpos x (List.mem_of_mem_take h)
        · intro w hw; exact inv.waitPos w (List.mem_of_mem_drop hw)
        · intro w ws hw
          exact wakeN_head_blocked (s.avail + g.2) s.waiters w ws hw
  | setCapacity c =>
    rw [step_setCapacity]; unfold setCapacity
    split
    · exact inv
    · rename_i hc
      have hcons := inv.conserve
      dsimp only
      split
      · have htd := amtSum_take_drop (wakeN (s.avail + (c - s.cap)) s.waiters) s.waiters
        refine ⟨by show 0 < c; omega, ?_, ?_, ?_, ?_⟩
        · simp; omega
        · intro x hx
          rcases List.mem_append.mp hx with h | h
          · exact inv.heldPos x h
          · exact inv.waitPos x (List.mem_of_mem_take h)
        · intro w hw; exact inv.waitPos w (List.mem_of_mem_drop hw)
        · intro w ws hw
          exact wakeN_head_blocked (s.avail + (c - s.cap)) s.waiters w ws hw
      · refine ⟨by show 0 < c; omega, ?_, inv.heldPos, inv.waitPos, ?_⟩
        · simp; omega
        · intro w ws hw
          have := inv.headBlocked w ws hw
          simp; omega

theorem run_inv (s : St) (ops : List Op) (inv : Inv s) : Inv (run s ops) := by
  induction ops generalizing s with
  | nil => exact inv
  | cons o os ih => exact ih _ (step_inv s o inv)

/-- an operation list that never calls `set_capacity` -/
def FixedCap (ops : List Op) : Prop := ∀ o ∈ ops, ∀ c, o ≠ .setCapacity c

theorem run_cap (s : St) (ops : List Op) (hf : FixedCap ops) : (run s ops).cap = s.cap := by
  induction ops generalizing s with
  | nil => rfl
  | cons o os ih =>
    simp only [run]
    rw [ih _ (fun o' ho' => hf o' (List.mem_cons_of_mem _ ho')), step_cap s o (hf o List.mem_cons_self)]

/-- Without `set_capacity` the old bounds are invariant too: `0 ≤ available` (held ≤ capacity) and
    every queued request fits the capacity.  Over-commitment can only be created by lowering the
    capacity, never by an acquire or a release. -/
structure Fixed (s : St) : Prop where
  within : 0 ≤ s.avail
  waitFits : ∀ w ∈ s.waiters, w.2 ≤ s.cap

theorem step_within (s : St) (o : Op) (inv : Inv s) (ho : ∀ c, o ≠ .setCapacity c) (h : 0 ≤ s.avail) :
    0 ≤ (step s o).1.avail := by
  cases o with
  | setCapacity c => exact absurd rfl (ho c)
  | acquire id a =>
    rw [step_acquire]; split
    · exact h
    · split
      · simp; omega
      · exact h
  | tryAcquire id a =>
    rw [step_tryAcquire]; split
    · exact h
    · split
      · simp; omega
      · exact h
  | release id =>
    rw [step_release]; unfold release
    split
    · exact h
    · rename_i g hg
      have hgpos := inv.heldPos g (findHeld_mem hg).1
      dsimp only
      split
      · exact h
      · have h' := wakeN_sum_le (s.avail + g.2) s.waiters inv.waitPos (by omega)
        simp; omega

theorem step_fixed (s : St) (o : Op) (inv : Inv s) (ho : ∀ c, o ≠ .setCapacity c) (f : Fixed s) :
    Fixed (step s o).1 := by
  refine ⟨step_within s o inv ho f.within, ?_⟩
  rw [step_cap s o ho]
  cases o with
  | setCapacity c => exact absurd rfl (ho c)
  | acquire id a =>
    rw [step_acquire]; split
    · exact f.waitFits
    · rename_i hbad
      split
      · exact f.waitFits
      · intro w hw
        rcases List.mem_append.mp hw with h | h
        · exact f.waitFits w h
        · simp at h; subst h; simp [badAmount] at hbad; omega
  | tryAcquire id a =>
    rw [step_tryAcquire]; split
    · exact f.waitFits
    · split <;> exact f.waitFits
  | release id =>
    rw [step_release]; unfold release
    split
    · exact f.waitFits
    · dsimp only
      split
      · exact f.waitFits
      · intro w hw; exact f.waitFits w (List.mem_of_mem_drop hw)

theorem run_fixed (s : St) (ops : List Op) (inv : Inv s) (hf : FixedCap ops) (f : Fixed s) : Fixed (run s ops) := by
  induction ops generalizing s with
  | nil => exact f
  | cons o os ih =>
    exact ih _ (step_inv s o inv) (fun o' ho' => hf o' (List.mem_cons_of_mem _ ho'))
      (step_fixed s o inv (hf o List.mem_cons_self) f)

theorem run_append (s : St) (a b : List Op) : run s (a ++ b) = run (run s a) b := by
  induction a generalizing s with
  | nil => rfl
  | cons o os ih => simp [run, ih]

end HappyModel.C09.Res
