import HappyProofs.C09.PoolWf
/-! The books of the pool judge as a function of the model state, and the first half of the step lemma:
for the classic segments (`acq`, `made`, `poll`, `timeout`, `rel`) the judge accepts the model's
transcript line and its books follow the model. -/
namespace HappyModel.C09.Pool

/-- the books the judge keeps are a function of the model state, the queueing times and the ghost flag
    `slack` -/
def bookOf (s : St) (since : List (Nat × Nat)) (slack : Bool) : Book :=
  { active := s.active, idle := s.idle, made := s.active.length + s.idle.length, inflight := s.creating,
    blocked := s.waiters, handed := s.handed, since := since, creators := s.creators, wflight := s.wflight,
    stamp := s.stamp, closed := s.closed, slack := slack }

/-- what the judge's `slack` flag means on the model: while it is down, a queued call waits only when
    nothing is free -/
def SlackOk (s : St) (slack : Bool) : Prop :=
  slack = false → s.waiters ≠ [] → s.idle = [] ∧ ¬ s.total < s.max

theorem slack_true (s : St) : SlackOk s true := fun h => by cases h

theorem slack_full {s : St} (slack : Bool) (h : s.idle = [] ∧ ¬ s.total < s.max) : SlackOk s slack :=
  fun _ _ => h

theorem slack_nowait {s : St} (slack : Bool) (h : s.waiters = []) : SlackOk s slack :=
  fun _ hw => absurd h hw

theorem slack_mono {s s' : St} {slack : Bool} (hs : SlackOk s slack) (hw : s'.waiters ≠ [] → s.waiters ≠ [])
    (hi : s.idle = [] → s'.idle = []) (ht : s.total ≤ s'.total) (hm : s'.max = s.max) : SlackOk s' slack := by
  intro h1 h2
  obtain ⟨a, b⟩ := hs h1 (hw h2)
  exact ⟨hi a, by omega⟩

theorem check_none (max : Nat) (b : Book) (o : Obs)
    (h1 : b.active.length ≤ max) (h2 : b.made + b.inflight ≤ max) (h3 : o.a = b.active.length)
    (h4 : o.i = b.idle.length) (h5 : o.n = b.made + b.inflight) (h6 : o.p = b.blocked.length)
    (h7 : b.active.length + b.idle.length = b.made)
    (h8 : b.slack = false → b.blocked ≠ [] → b.idle = [] ∧ ¬ b.made + b.inflight < max) :
    b.check max o = none := by
  unfold Book.check
  rw [if_neg (by omega), if_neg (by omega), if_neg (fun h => h h3), if_neg (fun h => h h4),
    if_neg (fun h => h.1 h5), if_neg (fun h => h h6), if_neg (fun h => h h7)]
  rw [if_neg]
  intro h
  obtain ⟨hb1, hf, hsl⟩ := h
  have hsl' : b.slack = false := by simpa using hsl
  have hb : b.blocked ≠ [] := by
    intro e; rw [e] at hb1; simp at hb1
  obtain ⟨hi, ht⟩ := h8 hsl' hb
  simp only [Book.free, hi, List.isEmpty_nil, Bool.not_true, Bool.false_or, decide_eq_true_eq] at hf
  exact ht hf

theorem check_ok (s : St) (since : List (Nat × Nat)) (slack : Bool) (t : Nat) (o : Op) (r : Res) (inv : Inv s)
    (hs : SlackOk s slack) : (bookOf s since slack).check s.max (obsOf t o r s) = none := by
  have hb := inv.bound
  have hc := inv.conserve
  apply check_none
  · show s.active.length ≤ s.max; omega
  · show s.active.length + s.idle.length + s.creating ≤ s.max; omega
  · rfl
  · rfl
  · show s.total = s.active.length + s.idle.length + s.creating; omega
  · rfl
  · rfl
  · intro h1 h2
    obtain ⟨a, b⟩ := hs h1 h2
    exact ⟨a, by show ¬ s.active.length + s.idle.length + s.creating < s.max; omega⟩

/-! ### list helpers -/

theorem not_contains {l : List Nat} {c : Nat} (h : c ∉ l) : l.contains c = false := by
  cases hx : l.contains c with
  | false => rfl
  | true => exact absurd (List.contains_iff_mem.1 hx) h

theorem filter_ne_cons {c : Nat} {rest : List Nat} (h : (c :: rest).Nodup) : (c :: rest).filter (· != c) = rest := by
  have hc := List.nodup_cons.1 h
  rw [List.filter_cons]; simp only [bne_self_eq_false, Bool.false_eq_true, if_false]
  rw [List.filter_eq_self]; intro a ha
  have : a ≠ c := fun e => hc.1 (e ▸ ha)
  simpa using this

/-- with distinct call ids in `handed`, removing "the entries of call `id`" (model) and removing the
    one reported pair (judge) are the same -/
theorem handed_filter_eq {l : List (Nat × Nat)} {id : Nat} {h : Nat × Nat} (hnd : (l.map (·.1)).Nodup)
    (hf : l.find? (·.1 == id) = some h) :
    l.filter (·.1 != id) = l.filter (· != (id, h.2)) ∧ l.contains (id, h.2) = true := by
  have hmem := List.mem_of_find?_eq_some hf
  have hid : h.1 = id := by simpa using List.find?_some hf
  have hpair : (id, h.2) = h := by rw [← hid]
  refine ⟨?_, ?_⟩
  · apply List.filter_congr
    intro x hx
    rw [hpair]
    by_cases hx1 : x.1 = id
    · have : x = h := by
        clear hf hpair
        induction l with
        | nil => cases hx
        | cons y ys ih =>
          rw [List.map_cons, List.nodup_cons] at hnd
          rcases List.mem_cons.1 hx with rfl | hx'
          · rcases List.mem_cons.1 hmem with e | hm'
            · exact e.symm
            · exact absurd (List.mem_map.2 ⟨h, hm', by rw [hid, hx1]⟩) hnd.1
          · rcases List.mem_cons.1 hmem with e | hm'
            · subst e
              exact absurd (List.mem_map.2 ⟨x, hx', by rw [hid, hx1]⟩) hnd.1
            · exact ih hnd.2 hm' hx'
      rw [this, hid]; simp
    · have hne : x ≠ h := fun e => hx1 (by rw [e, hid])
      rw [bne_iff_ne.2 hx1, bne_iff_ne.2 hne]
  · rw [hpair]; exact List.contains_iff_mem.2 hmem

/-! ### the step lemma, segment by segment -/

/-- the judge accepts the transcript line of segment `o` executed in state `s` (at clock `s.now`), and
    its books follow the model -/
def Follows (tn idn : Nat) (s : St) (since : List (Nat × Nat)) (slack : Bool) (o : Op) : Prop :=
  ∃ slack', (bookOf s since slack).apply ⟨s.max, tn, s.min, idn⟩ (obsOf s.now o (step s o).2 (step s o).1)
      = .ok (bookOf (step s o).1 (sinceStep since s.now o (step s o).2) slack')
    ∧ SlackOk (step s o).1 slack'

variable (tn idn : Nat) (s : St) (since : List (Nat × Nat)) (slack : Bool)

theorem follows_acq (id : Nat) (wf : Wf s) (hs : SlackOk s slack) : Follows tn idn s since slack (.acq id) := by
  unfold Follows
  have hco : ConnOk s.idle s.active s.closed s.nextConn := wf.conn
  cases hi : s.idle with
  | cons c rest =>
    have hst : step s (.acq id) = ({ s with idle := rest, active := s.active ++ [c] }, .idle c) := by
      rw [step_acq, hi]
    rw [hi] at hco
    have h1 : s.active.contains c = false := not_contains (hco.disj c (by simp))
    have h3 := filter_ne_cons hco.idleNodup
    refine ⟨slack, ?_, ?_⟩
    · simp only [hst, sinceStep, Book.apply, obsOf, bookOf, hi, h1]
      simp only [List.contains_cons, BEq.rfl, Bool.true_or, Bool.not_true, Bool.false_eq_true, if_false, h3]
      simp only [List.length_append, List.length_cons, List.length_nil]
      congr 2; omega
    · rw [hst]
      exact slack_mono hs (fun h => h) (fun h => by rw [hi] at h; cases h) (Nat.le_refl _) rfl
  | nil =>
    by_cases hlt : s.total < s.max
    · have hst : step s (.acq id) = (startCreate s id, .creating) := by
        rw [step_acq, hi]; simp only [if_pos hlt]
      refine ⟨slack, ?_, ?_⟩
      · simp only [hst, sinceStep, Book.apply, obsOf, bookOf, hi, startCreate]
        simp
      · rw [hst]
        intro h1 h2
        exact absurd hlt (hs h1 h2).2
    · have hst : step s (.acq id) = ({ s with waiters := s.waiters ++ [id] }, .waiting) := by
        rw [step_acq, hi]; simp only [if_neg hlt]
      refine ⟨slack && !s.waiters.isEmpty, ?_, ?_⟩
      · simp only [hst, sinceStep, Book.apply, obsOf, bookOf, hi]
      · rw [hst]
        exact slack_full _ ⟨hi, hlt⟩

theorem follows_made (id : Nat) (wf : Wf s) (hs : SlackOk s slack) (hnb : (step s (.made id)).2 ≠ .bad) :
    Follows tn idn s since slack (.made id) := by
  unfold Follows
  have hco : ConnOk s.idle s.active s.closed s.nextConn := wf.conn
  by_cases hcr : (!s.creators.contains id) = true
  · have hst : step s (.made id) = (s, .bad) := by rw [step_made, if_pos hcr]
    rw [hst] at hnb; exact absurd rfl hnb
  · have hst : step s (.made id) =
        ({ s with creating := s.creating - 1, creators := s.creators.erase id, nextConn := s.nextConn + 1,
                  total := if s.reserve then s.total else s.total + 1,
                  active := s.active ++ [s.nextConn + 1] }, .conn (s.nextConn + 1)) := by
      rw [step_made, if_neg hcr]
    have hcr' : s.creators.contains id = true := by simpa using hcr
    obtain ⟨_, hpos⟩ := creators_pos hcr'
    have hsp := wf.inv.split
    have h0 : ¬ s.creating = 0 := by omega
    have h1 : s.active.contains (s.nextConn + 1) = false :=
      not_contains (fun h => by have := hco.activeLe _ h; omega)
    have h2 : s.idle.contains (s.nextConn + 1) = false :=
      not_contains (fun h => by have := hco.idleLe _ h; omega)
    have h3 : s.closed.contains (s.nextConn + 1) = false :=
      not_contains (fun h => by have := hco.closedLe _ h; omega)
    refine ⟨slack, ?_, ?_⟩
    · simp only [hst, sinceStep, Book.apply, obsOf, bookOf, h1, h2, h3, hcr', h0]
      simp only [decide_false, Bool.not_true, Bool.or_self, Bool.false_eq_true, or_self, if_false,
        List.length_append, List.length_cons, List.length_nil]
      congr 2; omega
    · rw [hst]
      refine slack_mono hs (fun h => h) (fun h => h) ?_ rfl
      show s.total ≤ if s.reserve then s.total else s.total + 1
      rw [wf.inv.res]; exact Nat.le_refl _

theorem follows_poll (id : Nat) (wf : Wf s) (hs : SlackOk s slack) : Follows tn idn s since slack (.poll id) := by
  unfold Follows
  have hco : ConnOk s.idle s.active s.closed s.nextConn := wf.conn
  have hcons := wf.inv.conserve
  cases hf : s.handed.find? (·.1 == id) with
  | some h =>
    have hst : step s (.poll id) = ({ s with handed := s.handed.filter (·.1 != id) }, .got h.2) := by
      rw [step_poll, hf]
    have hh := handed_filter_eq wf.queue.handNodup hf
    refine ⟨slack, ?_, ?_⟩
    · simp only [hst, sinceStep, Book.apply, obsOf, bookOf, hh.2, hh.1]
      simp
    · rw [hst]
      exact slack_mono hs (fun h => h) (fun h => h) (Nat.le_refl _) rfl
  | none =>
    by_cases hhd : (s.waiters.head? != some id) = true
    · have hst : step s (.poll id) = (s, .wait) := by rw [step_poll, hf]; simp only [if_pos hhd]
      have hhd' : (s.waiters.head? == some id) = false := by simpa using hhd
      refine ⟨slack, ?_, ?_⟩
      · simp only [hst, sinceStep, Book.apply, obsOf, bookOf, hf, hhd']
        simp
      · rw [hst]; exact hs
    · have hhd' : (s.waiters.head? != some id) = false := by simpa using hhd
      have hhd2 : (s.waiters.head? == some id) = true := by simpa using hhd
      cases hi : s.idle with
      | cons c rest =>
        have hst : step s (.poll id) =
            ({ s with waiters := s.waiters.tail, idle := rest, active := s.active ++ [c] }, .idle c) := by
          rw [step_poll, hf]; simp only [if_neg hhd, hi]
        rw [hi] at hco
        have h1 : s.active.contains c = false := not_contains (hco.disj c (by simp))
        have h3 := filter_ne_cons hco.idleNodup
        refine ⟨true, ?_, ?_⟩
        · simp only [hst, sinceStep, Book.apply, obsOf, bookOf, hi, h1, hhd']
          simp only [List.contains_cons, BEq.rfl, Bool.true_or, Bool.not_true, Bool.false_eq_true, if_false, h3]
          simp only [List.length_append, List.length_cons, List.length_nil]
          congr 2; omega
        · exact slack_true _
      | nil =>
        by_cases hlt : s.total < s.max
        · have hst : step s (.poll id) = (startCreate { s with waiters := s.waiters.tail } id, .creating) := by
            rw [step_poll, hf]; simp only [if_neg hhd, hi, if_pos hlt]
          refine ⟨true, ?_, ?_⟩
          · simp only [hst, sinceStep, Book.apply, obsOf, bookOf, hi, hhd', startCreate]
            simp
          · exact slack_true _
        · have hst : step s (.poll id) = (s, .wait) := by
            rw [step_poll, hf]; simp only [if_neg hhd, hi, if_neg hlt]
          have hnf : ¬ (s.active.length + s.creating < s.max) := by
            rw [hi] at hcons; simp only [List.length_nil] at hcons; omega
          refine ⟨false, ?_, ?_⟩
          · simp only [hst, sinceStep, Book.apply, obsOf, bookOf, hf, hhd2, hi, Book.free]
            simp [hnf]
          · rw [hst]
            exact slack_full _ ⟨hi, hlt⟩

theorem follows_timeout (id : Nat) (wf : Wf s) (hs : SlackOk s slack) (hnb : (step s (.timeout id)).2 ≠ .bad)
    (htm : timerOk tn since s.now id = true) (hhf : headFree s id = false) :
    Follows tn idn s since slack (.timeout id) := by
  unfold Follows
  have hcons := wf.inv.conserve
  by_cases hb : (s.handed.find? (·.1 == id)).isSome
  · have hst : step s (.timeout id) = (s, .bad) := by rw [step_timeout, if_pos hb]
    rw [hst] at hnb; exact absurd rfl hnb
  · have hst : step s (.timeout id) = ({ s with waiters := s.waiters.filter (· != id) }, .timedOut) := by
      rw [step_timeout, if_neg hb]
    simp only [timerOk] at htm
    cases hsf : since.find? (·.1 == id) with
    | none => rw [hsf] at htm; cases htm
    | some st =>
      rw [hsf] at htm
      have hle : st.2 + tn ≤ s.now := by simpa using htm
      have hfree : (s.waiters.head? == some id && (bookOf s since slack).free s.max) = false := by
        rw [← hhf]
        simp only [headFree, Book.free, bookOf]
        congr 2
        exact decide_eq_decide.2 ⟨fun h => by omega, fun h => by omega⟩
      refine ⟨slack, ?_, ?_⟩
      · simp only [bookOf] at hfree
        simp only [hst, sinceStep, Book.apply, obsOf, bookOf, if_neg hb, hsf, hfree]
        rw [if_neg (by omega)]
        simp
      · rw [hst]
        refine slack_mono hs (fun h hq => h ?_) (fun h => h) (Nat.le_refl _) rfl
        show s.waiters.filter (· != id) = []
        rw [hq]; rfl

theorem follows_rel (c : Nat) (wf : Wf s) (hs : SlackOk s slack) : Follows tn idn s since slack (.rel c) := by
  unfold Follows
  have hco : ConnOk s.idle s.active s.closed s.nextConn := wf.conn
  by_cases hact : (!s.active.contains c) = true
  · have hst : step s (.rel c) = (s, .unknown) := by rw [step_rel, if_pos hact]
    have : s.active.contains c = false := by simpa using hact
    refine ⟨slack, ?_, ?_⟩
    · simp only [hst, sinceStep, Book.apply, obsOf, bookOf, this]
      simp
    · rw [hst]; exact hs
  · have hact' : s.active.contains c = true := by simpa using hact
    cases hq : s.waiters with
    | cons w ws =>
      have hst : step s (.rel c) = ({ s with waiters := ws, handed := s.handed ++ [(w, c)] }, .handoff w) := by
        rw [step_rel, if_neg hact, giveBack_eq, hq]
      refine ⟨slack, ?_, ?_⟩
      · simp only [hst, sinceStep, Book.apply, Book.giveBack, obsOf, bookOf, hact', hq]
        simp
      · rw [hst]
        exact slack_mono hs (fun _ => by rw [hq]; simp) (fun h => h) (Nat.le_refl _) rfl
    | nil =>
      have hst : step s (.rel c) =
          ({ s with active := s.active.erase c, idle := s.idle ++ [c], stamp := setStamp s.stamp c s.now },
           .toIdle) := by
        rw [step_rel, if_neg hact, giveBack_eq, hq]
      have hmem : c ∈ s.active := List.contains_iff_mem.1 hact'
      have hlen := List.length_erase_of_mem hmem
      have hpos : 0 < s.active.length := List.length_pos_of_mem hmem
      refine ⟨slack, ?_, ?_⟩
      · simp only [hst, sinceStep, Book.apply, Book.giveBack, obsOf, bookOf, hact', hq,
          ← hco.activeNodup.erase_eq_filter c]
        simp only [Bool.not_true, Bool.false_eq_true, if_false, List.isEmpty_nil, List.length_append,
          List.length_cons, List.length_nil, hlen]
        congr 2; omega
      · rw [hst]
        exact slack_nowait _ hq

end HappyModel.C09.Pool
