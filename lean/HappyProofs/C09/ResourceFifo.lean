import HappyProofs.C09.ResourceInv
/-! FIFO ledger and at-most-once ledger of the `Resource` model, over arbitrary operation lists. -/
namespace HappyModel.C09.Res

def ids (l : List (Nat × Int)) : List Nat := l.map (·.1)

/-- call ids named by an operation list (`acquire` and `try_acquire` calls) -/
def callIds : List Op → List Nat
  | [] => []
  | .acquire id _ :: os => id :: callIds os
  | .tryAcquire id _ :: os => id :: callIds os
  | .release _ :: os => callIds os
  | .setCapacity _ :: os => callIds os

/-- ids of the acquirers that were queued, in arrival order -/
def queuedIds : List (Op × Out) → List Nat
  | [] => []
  | (.acquire id _, ⟨.queued, _⟩) :: r => id :: queuedIds r
  | _ :: r => queuedIds r

/-- ids of the queued acquirers that were woken, in wake order -/
def wokenIds : List (Op × Out) → List Nat
  | [] => []
  | (_, out) :: r => out.woke ++ wokenIds r

/-- every grant handed out, in order: immediate grants and wake-ups -/
def grantIds : List (Op × Out) → List Nat
  | [] => []
  | (.acquire id _, ⟨.granted, _⟩) :: r => id :: grantIds r
  | (.tryAcquire id _, ⟨.granted, _⟩) :: r => id :: grantIds r
  | (_, out) :: r => out.woke ++ grantIds r

/-- per operation: the call ids it disposes of (granted, refused, rejected, or woken) -/
def settled1 : Op × Out → List Nat
  | (.acquire id _, out) => if out.res = .queued then [] else [id]
  | (.tryAcquire id _, _) => [id]
  | (.release _, out) => out.woke
  | (.setCapacity _, out) => out.woke

def settledIds : List (Op × Out) → List Nat
  | [] => []
  | x :: r => settled1 x ++ settledIds r

def ids1 : Op → List Nat
  | .acquire id _ => [id]
  | .tryAcquire id _ => [id]
  | .release _ => []
  | .setCapacity _ => []

theorem callIds_cons (o : Op) (os : List Op) : callIds (o :: os) = ids1 o ++ callIds os := by
  cases o <;> rfl

theorem release_woke (s : St) (id : Nat) :
    ids s.waiters = (release s id).2.woke ++ ids (release s id).1.waiters := by
  unfold release
  split
  · simp
  · dsimp only
    split
    · simp
    · simp only [ids]
      rw [← List.map_append, List.take_append_drop]

theorem setCapacity_woke (s : St) (c : Int) :
    ids s.waiters = (setCapacity s c).2.woke ++ ids (setCapacity s c).1.waiters := by
  unfold setCapacity
  split
  · simp
  · dsimp only
    split
    · simp only [ids]
      rw [← List.map_append, List.take_append_drop]
    · simp

theorem acquire_woke (s : St) (id : Nat) (a : Int) : (step s (.acquire id a)).2.woke = [] := by
  rw [step_acquire]; split
  · rfl
  · split <;> rfl

theorem tryAcquire_woke (s : St) (id : Nat) (a : Int) : (step s (.tryAcquire id a)).2.woke = [] := by
  rw [step_tryAcquire]; split
  · rfl
  · split <;> rfl

/-- one step of the FIFO ledger -/
theorem fifo_step (s : St) (o : Op) :
    ids s.waiters ++ queuedIds [(o, (step s o).2)] = (step s o).2.woke ++ ids (step s o).1.waiters := by
  cases o with
  | acquire id a =>
    rw [step_acquire]
    split
    · simp [queuedIds]
    · split
      · simp [queuedIds]
      · simp [queuedIds, ids]
  | tryAcquire id a =>
    rw [step_tryAcquire]
    split
    · simp [queuedIds]
    · split <;> simp [queuedIds]
  | release id =>
    rw [step_release]
    have := release_woke s id
    simp [queuedIds]
    exact this
  | setCapacity c =>
    rw [step_setCapacity]
    have := setCapacity_woke s c
    simp [queuedIds]
    exact this

theorem queuedIds_cons (x : Op × Out) (r : List (Op × Out)) :
    queuedIds (x :: r) = queuedIds [x] ++ queuedIds r := by
  obtain ⟨o, out⟩ := x
  cases o with
  | acquire id a =>
    obtain ⟨res, woke⟩ := out
    cases res <;> simp [queuedIds]
  | tryAcquire id a => simp [queuedIds]
  | release id => simp [queuedIds]
  | setCapacity c => simp [queuedIds]

/-- FIFO ledger: (initially waiting) ++ (queued during the run) = (woken during the run) ++ (still waiting),
    as lists — wake order is arrival order and nobody is skipped -/
theorem fifo_ledger (s : St) (ops : List Op) :
    ids s.waiters ++ queuedIds (trace s ops) = wokenIds (trace s ops) ++ ids (run s ops).waiters := by
  induction ops generalizing s with
  | nil => simp [trace, queuedIds, wokenIds, run]
  | cons o os ih =>
    simp only [trace, run, wokenIds]
    rw [queuedIds_cons, ← List.append_assoc, fifo_step, List.append_assoc, ih, List.append_assoc]

/-- one step of the settlement ledger -/
theorem settle_step (s : St) (o : Op) :
    (settled1 (o, (step s o).2) ++ ids (step s o).1.waiters).Perm (ids s.waiters ++ ids1 o) := by
  cases o with
  | acquire id a =>
    rw [step_acquire]
    split
    · simp [settled1, ids1]; exact List.perm_append_comm (l₁ := [id])
    · split
      · simp [settled1, ids1]; exact List.perm_append_comm (l₁ := [id])
      · simp [settled1, ids1, ids]
  | tryAcquire id a =>
    rw [step_tryAcquire]
    split
    · simp [settled1, ids1]; exact List.perm_append_comm (l₁ := [id])
    · split <;> (simp [settled1, ids1]; exact List.perm_append_comm (l₁ := [id]))
  | release id =>
    rw [step_release]
    simp only [settled1, ids1, List.append_nil]
    rw [← release_woke]
  | setCapacity c =>
    rw [step_setCapacity]
    simp only [settled1, ids1, List.append_nil]
    rw [← setCapacity_woke]

theorem settle_ledger (s : St) (ops : List Op) :
    (settledIds (trace s ops) ++ ids (run s ops).waiters).Perm (ids s.waiters ++ callIds ops) := by
  induction ops generalizing s with
  | nil => simp [trace, settledIds, run, callIds]
  | cons o os ih =>
    simp only [trace, run, settledIds]
    rw [callIds_cons, List.append_assoc, ← List.append_assoc (ids s.waiters)]
    exact ((ih (step s o).1).append_left _).trans
      (by rw [← List.append_assoc]; exact (settle_step s o).append_right _)

theorem grantIds_sublist_settled (s : St) (ops : List Op) :
    (grantIds (trace s ops)).Sublist (settledIds (trace s ops)) := by
  induction ops generalizing s with
  | nil => simp [trace, grantIds, settledIds]
  | cons o os ih =>
    simp only [trace, settledIds]
    cases o with
    | acquire id a =>
      have hw := acquire_woke s id a
      generalize hout : (step s (.acquire id a)).2 = out at hw ⊢
      obtain ⟨res, woke⟩ := out
      simp at hw; subst hw
      cases res <;> simp [grantIds, settled1] <;> first | exact ih _ | exact (ih _).cons _
    | tryAcquire id a =>
      have hw := tryAcquire_woke s id a
      generalize hout : (step s (.tryAcquire id a)).2 = out at hw ⊢
      obtain ⟨res, woke⟩ := out
      simp at hw; subst hw
      cases res <;> simp [grantIds, settled1] <;> first | exact ih _ | exact (ih _).cons _
    | release id =>
      simp only [grantIds, settled1]
      exact List.Sublist.append (List.Sublist.refl _) (ih _)
    | setCapacity c =>
      simp only [grantIds, settled1]
      exact List.Sublist.append (List.Sublist.refl _) (ih _)

end HappyModel.C09.Res
