import HappyProofs.C09.WaitStep
/-!
# C09 — `wait_is_silent`: waiting consumes no simulated activity, the clock advances to the release

"… Blocked acquirers are granted in arrival order as soon as capacity allows, each at most once, and
**waiting consumes no simulated activity, so the clock advances to the release** and every waiter whose
predecessor releases is eventually served."

The sync primitives (`components/sync/{mutex,semaphore,rwlock,barrier,condition}.py` after
`fixes/C09-sync-spin-wait.diff`) and `Resource.acquire` block an acquirer by parking its generator on
a `SimFuture` (`wake = SimFuture(); waiters.append(wake.resolve …); while not acquired: yield wake`);
`release()` pops the head waiter and resolves its future inside the releaser's own handler invocation.
On the engine + process layer of C01/C02 (`procMachine`) that is: the waiter is a process `pid` with
`(futGet s.ent.futs f).parked = some pid`, the release is an `Act.resolve f v` in a segment of another
process.  The theorems below are about that layer and hold for **every handler table** and every
reachable state (`ProcInv`, which holds along every run: `one_pending_continuation`).

* (a) `Blocked`: no event of a parked process is pending — whatever the loop pops next is not a
  delivery to it;
* (b) `wait_step`: one loop iteration, whichever pending event `m` it pops, delivers nothing to `pid`
  and leaves `pid` blocked, or wakes it *in that iteration*: exactly one continuation event, created
  at and stamped with the clock of that iteration (`m.time`, the new `now`), carrying the resolved
  value — or, if the code overwrote slot `f`, loses the wake-up (the model does not reject rebinding
  a slot or double parking; the implementation cannot do the former to a local future and raises on
  the latter; `stepKeeps` excludes both);
* (c) `wait_run`: along `run procMachine endT n s0` nothing is delivered to `pid` (no delivery, no pop,
  no `resume _ pid` log entry) up to and including the iteration that ends the wait, and that
  iteration stamps the continuation with its own clock; `wait_resumes_at_release_time`: the
  delivery of that continuation logs `resume t pid v` with `t` = clock of the waking iteration.

What is *not* proved here: that each call id in `Out.woke` of the operation-level models
(`HappyModel/C09/Sync.lean`, `Resource.lean`) is a `resolve` of the future that call parked on.  That
is how the primitives are written (the queued callback *is* `wake.resolve`), and it is tied to the
implementation by the differential check (`got` lines, `*/wait/not-silent`, `*/wait/resumed-late`,
`*/wait/clock-stuck`), not by a Lean refinement.
-/
namespace HappyModel.C09
open HappyModel.C01 HappyModel.C09.WaitSilent
set_option linter.unusedVariables false

/-- **waiting is silent.**  Let `s` be any reachable state of the engine + process layer (any handler
    table) in which process `pid` is parked on future `f` (a blocked acquirer).  Then

    (a) `f` is unresolved and the heap holds no event of `pid`;

    (b) for every pending event `m`, the loop iteration that pops `m`
        * delivers nothing to `pid` (`m` is not an event of `pid`; `Quiet`: deliveries, pops and
          `resume` log entries of `pid` unchanged),
        * ends with `pid` still blocked on `f`, or with `pid` woken in this iteration — `m`'s handler
          ran, `now = m.time`, exactly one event of `pid` pending, created in this iteration and stamped
          `m.time` — or with the wake-up lost because slot `f` was overwritten,
        * and if the code run by `m` leaves slot `f` alone, ends blocked or woken *by the resolution of
          `f`*: `f` resolved, nobody parked on it, its value stored as the value to send to `pid`;

    (c) for every end time and number of iterations the run from `s` is a `SilentRun`: either `pid` is
        blocked in every state so far and nothing was delivered to it, or there is a first iteration
        that ends the wait, nothing was delivered to `pid` up to and including it, and it stamps the
        continuation with its own clock value (the clock has advanced to the release). -/
theorem wait_is_silent (s : St PS) (inv : ProcInv s) (f pid : Nat)
    (hpk : (futGet s.ent.futs f).parked = some pid) :
    Blocked f pid s ∧
    (∀ m ∈ s.heap,
      m.data ≠ pid + 1 ∧
      Quiet pid s (stepWith procMachine s m) ∧
      (Blocked f pid (stepWith procMachine s m) ∨ Woken pid m (stepWith procMachine s m) ∨
        Lost pid (stepWith procMachine s m)) ∧
      (stepKeeps f s.ent m = true →
        Blocked f pid (stepWith procMachine s m) ∨
        (Woken pid m (stepWith procMachine s m) ∧ WokenBy f pid (stepWith procMachine s m)))) ∧
    (∀ endT n, SilentRun endT f pid s n) :=
  ⟨blocked_of_parked s inv f pid hpk, fun m hm => wait_step s inv f pid hpk m hm,
    fun endT n => wait_run endT n s inv f pid hpk⟩

/-- the same at any point of any run of any program with a plain pre-run schedule -/
theorem wait_is_silent_program (p : Program) (gateCont : Bool) (hp : p.Plain) (endT0 : Option Nat) (n0 : Nat)
    (f pid : Nat)
    (hpk : (futGet (run procMachine endT0 n0 (p.initState gateCont)).ent.futs f).parked = some pid) :
    Blocked f pid (run procMachine endT0 n0 (p.initState gateCont)) ∧
    (∀ m ∈ (run procMachine endT0 n0 (p.initState gateCont)).heap,
      m.data ≠ pid + 1 ∧
      Quiet pid (run procMachine endT0 n0 (p.initState gateCont))
        (stepWith procMachine (run procMachine endT0 n0 (p.initState gateCont)) m)) ∧
    (∀ endT n, SilentRun endT f pid (run procMachine endT0 n0 (p.initState gateCont)) n) := by
  have inv := one_pending_continuation_program p gateCont hp endT0 n0
  obtain ⟨a, b, c⟩ := wait_is_silent _ inv f pid hpk
  exact ⟨a, fun m hm => ⟨(b m hm).1, (b m hm).2.1⟩, c⟩

/-- **the waiter resumes at the clock value of the release.**  If `pid` was woken by the iteration that
    delivered `m` (state `s'`), then its continuation `c` carries `m.time`; and whenever `c` is later
    delivered (from any state `s''`; C01: at exactly its time stamp), the clock is `m.time` and — the
    process having been started and having code left — the log gets `resume m.time pid v tag`, `v` the
    value stored for it -/
theorem wait_resumes_at_release_time (pid : Nat) (m : Ev) (s' : St PS) (hw : Woken pid m s')
    (c : Ev) (hc : c ∈ s'.heap) (hd : c.data = pid + 1)
    (s'' : St PS) (p : Proc) (hnc : s''.cancelled.contains c.id = false) (hns : ¬ c.time < s''.now)
    (hng : procCrashed s''.ent c = false) (hp : s''.ent.procs[pid]? = some p) (hst : p.started = true)
    (hsg : p.segs ≠ []) :
    (stepWith procMachine s'' c).now = m.time ∧
    Obs.resume m.time pid p.send c.tag ∈ (stepWith procMachine s'' c).ent.obs := by
  have ht := (hw.stamped c hc hd).1
  have := resume_at_stamp s'' c pid p hd hnc hns hng hp hst hsg
  rw [ht] at this
  exact this

/-! ## non-vacuity: the Mutex scenario of DESIGN §9-7

Two workers on one mutex plus a bystander.  Entity 0 (the holder) acquires the free mutex at `t = 0`
(no wait), holds it for `d = 1000` (`yield d`) and releases: the release hands the mutex to the head
waiter by resolving its wake-up future (`resolve 0 1`).  Entity 1 (the waiter) arrives at `t = 500`,
finds the mutex held, creates its wake-up future (`fresh 0`) and parks on it (`yield wake`); once
resumed it holds the mutex for 10 and finishes.  Entity 2 is unrelated traffic at `t = 600` and
`t = 800`.  (The unrepaired primitives spin with `yield 0.0`: the clock never leaves `t = 500`.) -/

def mutexProg : Program :=
  { defs := [⟨0, 1, true, [⟨[], .yieldD 1000⟩, ⟨[.resolve 0 1], .ret⟩]⟩,
             ⟨1, 2, true, [⟨[.fresh 0], .yieldF 0⟩, ⟨[], .yieldD 10⟩, ⟨[], .ret⟩]⟩,
             ⟨2, 3, false, [⟨[], .ret⟩]⟩],
    pre := [(⟨0, 0, 1, false, 0, 1⟩, 0, false), (⟨500, 1, 2, false, 0, 2⟩, 0, false),
            (⟨600, 2, 3, false, 0, 3⟩, 0, false), (⟨800, 2, 3, false, 0, 4⟩, 0, false)] }

/-- state of the mutex scenario after `n` loop iterations -/
def mutexAt (n : Nat) : St PS := run procMachine none n (mutexProg.initState false)

/-- clock values at which `pid` was resumed, newest first -/
def resTimes (l : List Obs) (pid : Nat) : List Nat :=
  l.filterMap (fun o => match o with
    | .resume t q _ _ => if q = pid then some t else none
    | _ => none)

set_option maxRecDepth 8000

-- the hypotheses of the run-level theorems hold
theorem mutexProg_plain : mutexProg.Plain := by unfold Program.Plain; decide
example : InitOk (mutexProg.initState false) := initState_ok _ _ mutexProg_plain

-- after the waiter's first segment (iteration 2, t = 500) it is process 1, parked on the unresolved
-- future 0, and no event of it is pending (pending: the two bystander events and the holder's
-- continuation at t = 1000, `data = 0 + 1`)
example : (mutexAt 2).now = 500 ∧ (futGet (mutexAt 2).ent.futs 0).parked = some 1 ∧
    (futGet (mutexAt 2).ent.futs 0).resolved = false ∧
    (mutexAt 2).heap.map (fun e => (e.time, e.data)) = [(600, 0), (800, 0), (1000, 1)] := by decide

-- while it is blocked the run goes on — the clock advances to 600 and 800, it is not stuck at the park
-- time — and nothing is delivered to the waiter: no resumption logged, still parked, no event of it
example : (mutexAt 3).now = 600 ∧ (mutexAt 4).now = 800 ∧
    (futGet (mutexAt 3).ent.futs 0).parked = some 1 ∧ (futGet (mutexAt 4).ent.futs 0).parked = some 1 ∧
    cntHeap (mutexAt 3).heap 1 = 0 ∧ cntHeap (mutexAt 4).heap 1 = 0 ∧
    resTimes (mutexAt 4).ent.obs 1 = [] ∧ cntHeap (mutexAt 4).log 1 = 0 := by decide

-- iteration 5 is the holder's release step (t = 1000): future 0 is resolved, nobody is parked on it,
-- and exactly one event of the waiter is pending — its continuation, created at and stamped with the
-- release time 1000 (park time was 500), the resolved value 1 stored for it; still nothing delivered
example : (mutexAt 5).now = 1000 ∧ (futGet (mutexAt 5).ent.futs 0).resolved = true ∧
    (futGet (mutexAt 5).ent.futs 0).parked = none ∧
    (mutexAt 5).heap.map (fun e => (e.time, e.born, e.data)) = [(1000, 1000, 2)] ∧
    ((mutexAt 5).ent.procs[1]?).map (fun q => match q.send with | .n v => v | _ => 0) = some 1 ∧
    resTimes (mutexAt 5).ent.obs 1 = [] ∧ cntHeap (mutexAt 5).log 1 = 0 := by decide

-- iteration 6 delivers that continuation: the waiter's single resumption is logged at the release
-- time 1000, the clock is 1000; at the end of the run it has been resumed twice in all (after the
-- release at 1000 and after its own hold at 1010) and everybody has finished
example : (mutexAt 6).now = 1000 ∧ resTimes (mutexAt 6).ent.obs 1 = [1000] ∧ cntHeap (mutexAt 6).log 1 = 1 := by
  decide
example : resTimes (mutexAt 8).ent.obs 1 = [1010, 1000] ∧
    (mutexAt 8).ent.procs.map (·.done) = [true, true, true, true] ∧ (mutexAt 8).heap.length = 0 := by decide

-- the code run while the waiter is blocked (iterations 3, 4, 5) leaves its wake-up slot alone
example : (∀ m ∈ (mutexAt 2).heap, stepKeeps 0 (mutexAt 2).ent m = true) ∧
    (∀ m ∈ (mutexAt 3).heap, stepKeeps 0 (mutexAt 3).ent m = true) ∧
    (∀ m ∈ (mutexAt 4).heap, stepKeeps 0 (mutexAt 4).ent m = true) := by decide

-- the theorems apply to the blocked state, and on this run the wait is ended (the first alternative of
-- `SilentRun` fails after three more iterations: the waiter is no longer parked)
example : ProcInv (mutexAt 2) := one_pending_continuation_program mutexProg false mutexProg_plain none 2
example : SilentRun none 0 1 (mutexAt 2) 3 :=
  (wait_is_silent (mutexAt 2) (one_pending_continuation_program mutexProg false mutexProg_plain none 2) 0 1
    (by decide)).2.2 none 3
example : ¬ Blocked 0 1 (run procMachine none 3 (mutexAt 2)) := by
  intro h
  have := h.parked
  revert this
  decide

/-! ### contrast: the unrepaired primitives (`spin_blocks_clock`)

`while self._locked: yield 0.0` — the blocked acquirer polls with zero-delay yields (four polls shown;
the loop is unbounded).  Every poll is a delivery to the waiter at the park time: the waiter is never
parked, so `wait_is_silent` has no instance, and the clock does not leave `t = 500` while it spins. -/

def spinProg : Program :=
  { mutexProg with
    defs := [⟨0, 1, true, [⟨[], .yieldD 1000⟩, ⟨[], .ret⟩]⟩,
             ⟨1, 2, true, [⟨[], .yieldD 0⟩, ⟨[], .yieldD 0⟩, ⟨[], .yieldD 0⟩, ⟨[], .yieldD 0⟩, ⟨[], .ret⟩]⟩,
             ⟨2, 3, false, [⟨[], .ret⟩]⟩] }

example :
    let s := run procMachine none 6 (spinProg.initState false)
    s.now = 500 ∧ cntHeap s.log 1 = 4 ∧ resTimes s.ent.obs 1 = [500, 500, 500, 500] ∧
    (∀ f, f < 2 → (futGet s.ent.futs f).parked = none) := by decide

end HappyModel.C09
