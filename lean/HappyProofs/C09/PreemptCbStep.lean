import HappyProofs.C09.PreemptCbInv
/-! Every `tick` of the re-entrant PreemptibleResource machine keeps the judge's books in agreement with the state,
and the judge accepts the observation the tick emits. -/
namespace HappyModel.C09.PreemptCb
open HappyModel.C09.Preempt

theorem obsAt_acq (m : M) (id : Nat) (amt prio : Int) (pre : Bool) (res : Res) (ev wk : List Nat) :
    obsAt m (.acq id amt prio pre) res ev wk =
      obsOf { m.s with nextId := id } m.gone (.acquire amt prio pre) { res := res, evicted := ev, woke := wk } m.s := rfl

theorem obsAt_rel (m : M) (id : Nat) (res : Res) (ev wk : List Nat) :
    obsAt m (.rel id) res ev wk =
      obsOf m.s m.gone (.release id) { res := res, evicted := ev, woke := wk } m.s := rfl

theorem obsAt_noev (m : M) (k : Kind) (res : Res) (ev wk : List Nat) :
    { obsAt m k res ev wk with evicted := [] } = obsAt m k res [] wk := rfl


theorem apply_granted_at (cap : Int) (b : Book) (m : M) (id : Nat) (amt prio : Int) (pre : Bool) (wk : List Nat)
    (hok : ¬ (amt ≤ 0 ∨ cap < amt)) (hng : b.granted.contains id = false) :
    b.apply cap (obsAt m (.acq id amt prio pre) .granted [] wk) =
      Book.wakeSet cap b.waiting.length
        { b with held := b.held ++ [(⟨id, amt, prio⟩ : G)], granted := b.granted ++ [id] } (Extra.sortIds wk) := by
  rw [obsAt_acq]
  exact apply_granted cap b b { m.s with nextId := id } m.gone amt prio pre
    { res := .granted, evicted := [], woke := wk } m.s rfl hok hng (fun h => absurd rfl h) (evict_nil _ _ _ _)

theorem apply_queued_at (cap : Int) (b : Book) (m : M) (id : Nat) (amt prio : Int) (pre : Bool) (wk : List Nat)
    (hok : ¬ (amt ≤ 0 ∨ cap < amt)) :
    b.apply cap (obsAt m (.acq id amt prio pre) .queued [] wk) =
      Book.wakeSet cap (b.waiting ++ [(⟨id, amt, prio⟩ : G)]).length
        { b with waiting := b.waiting ++ [(⟨id, amt, prio⟩ : G)], nCon := b.nCon + 1 } (Extra.sortIds wk) := by
  rw [obsAt_acq]
  exact apply_queued cap b b { m.s with nextId := id } m.gone amt prio pre
    { res := .queued, evicted := [], woke := wk } m.s rfl hok (fun h => absurd rfl h) (evict_nil _ _ _ _)

theorem apply_err_at (cap : Int) (b : Book) (m : M) (id : Nat) (amt prio : Int) (pre : Bool)
    (hbad : amt ≤ 0 ∨ cap < amt) :
    b.apply cap (obsAt m (.acq id amt prio pre) .err [] []) = .ok b := by
  rw [obsAt_acq]
  exact apply_err cap b { m.s with nextId := id } m.gone amt prio pre m.s hbad

/-! ### how `JB.apply` dispatches -/

theorem jb_apply_query (cap : Int) (j : JB) (cnt : Bool) (o : Obs) (hw : o.woke = []) :
    j.apply cap ⟨.query, cnt, o⟩ = .ok j := by
  simp [JB.apply, hw]

theorem jb_apply_rel (cap : Int) (j : JB) (cnt : Bool) (o : Obs) (id : Nat) (hk : o.k = .rel id) (he : o.evicted = []) :
    j.apply cap ⟨.call, cnt, o⟩ =
      match j.b.apply cap o with
      | .ok b => .ok { j with b := b }
      | .error e => .error e := by
  simp only [JB.apply, hk, he]
  first | rfl | simp

theorem jb_apply_acq_nil (cap : Int) (j : JB) (cnt : Bool) (o : Obs) (id : Nat) (amt prio : Int) (pre : Bool)
    (hk : o.k = .acq id amt prio pre) (he : o.evicted = []) :
    j.apply cap ⟨.call, cnt, o⟩ =
      match j.b.apply cap o with
      | .ok b => .ok { j with b := b }
      | .error e => .error e := by
  simp only [JB.apply, hk, he]
  first | rfl | simp

theorem jb_apply_acq_cons (cap : Int) (j : JB) (cnt : Bool) (o : Obs) (id : Nat) (amt prio : Int)
    (cl : Call) (rest : List Call) (hk : o.k = .acq id amt prio true) (hc : j.calls = cl :: rest)
    (he : o.evicted ≠ []) (h1 : cl.evs = o.evicted) (h2 : cl.amt = amt) (h3 : cl.prio = prio) :
    j.apply cap ⟨.call, cnt, o⟩ =
      match j.b.apply cap { o with evicted := [] } with
      | .ok b => .ok { b := b, calls := rest }
      | .error e => .error e := by
  simp only [JB.apply, hk, hc, if_neg he]
  rw [if_neg (by simp [h1, h2, h3])]
  first | rfl | simp

/-! ### the end of an acquire call (immediately, or after `_try_preempt`) -/

section Finish
variable {cap : Int} {j : JB} {m : M}

/-- granted, nobody was evicted by this call -/
theorem grant_plain (cnt : Bool) (ag : Agree cap j m) (amt prio : Int) (pre : Bool) (ctx : Option Nat)
    (cbs : List (Nat × Nat)) (st : List Frame) (hst : callsOf st = callsOf m.stack) (hv : ∀ f ∈ st, FrameOk cap f)
    (hbad : ¬ (amt ≤ 0 ∨ m.s.cap < amt)) (hfit : amt ≤ m.s.avail) :
    Step cap cnt j
      ({ m with s := grantNow (bumpId m.s) ⟨m.s.nextId, amt, prio⟩, cbs := cbs, stack := st },
       some ⟨ctx, .call, obsAt { m with s := grantNow (bumpId m.s) ⟨m.s.nextId, amt, prio⟩, cbs := cbs, stack := st }
                          (.acq m.s.nextId amt prio pre) .granted [] []⟩) := by
  have c := ag.core
  have hcap := c.cap
  have hok : ¬ (amt ≤ 0 ∨ cap < amt) := by rw [← hcap]; exact hbad
  have hpos : 0 < amt := by omega
  have hnewlog : m.s.nextId ∉ m.s.grantLog := fun h => by have := c.ord.logFresh _ h; omega
  have hlt : ∀ w ∈ m.s.waiters, w.id < m.s.nextId := c.ord.waitFresh
  have hng : j.b.granted.contains m.s.nextId = false := by rw [c.granted]; simpa using hnewlog
  have cg := core_grant ⟨m.s.nextId, amt, prio⟩ (core_bump c) hpos hfit (Nat.lt_succ_self _) hnewlog
    (fun w hw => Nat.ne_of_lt (hlt w hw))
  have hag : Agree cap (⟨{ j.b with held := j.b.held ++ [(⟨m.s.nextId, amt, prio⟩ : G)],
                                      granted := j.b.granted ++ [m.s.nextId] }, j.calls⟩ : JB)
      { m with s := grantNow (bumpId m.s) ⟨m.s.nextId, amt, prio⟩, cbs := cbs, stack := st } :=
    { core := cg
      calls := by show j.calls = callsOf st; rw [hst]; exact ag.calls
      head := by
        intro hc w ws hw
        have := ag.head hc w ws hw
        show m.s.avail - amt < w.amt
        omega
      ret := retok_grant _ (retok_bump ag.ret) hnewlog
      valid := hv }
  refine Step.loud ?_ (check_obsAt cap cnt _ _ ctx .call _ _ _ _ hag) hag
  show j.apply cap ⟨.call, _, _⟩ = _
  rw [jb_apply_acq_nil cap j _ _ m.s.nextId amt prio pre rfl rfl, apply_granted_at cap j.b _ _ _ _ _ _ hok hng]
  dsimp only
  rw [sortIds_nil, wakeSet_nil]

/-- queued, nobody was evicted by this call -/
theorem queue_plain (cnt : Bool) (ag : Agree cap j m) (amt prio : Int) (pre : Bool) (ctx : Option Nat)
    (cbs : List (Nat × Nat)) (st : List Frame) (hst : callsOf st = callsOf m.stack) (hv : ∀ f ∈ st, FrameOk cap f)
    (hbad : ¬ (amt ≤ 0 ∨ m.s.cap < amt)) (hfit : ¬ amt ≤ m.s.avail) :
    Step cap cnt j
      ({ m with s := enq (bumpId m.s) ⟨m.s.nextId, amt, prio⟩, cbs := cbs, stack := st },
       some ⟨ctx, .call, obsAt { m with s := enq (bumpId m.s) ⟨m.s.nextId, amt, prio⟩, cbs := cbs, stack := st }
                          (.acq m.s.nextId amt prio pre) .queued [] []⟩) := by
  have c := ag.core
  have hcap := c.cap
  have hok : ¬ (amt ≤ 0 ∨ cap < amt) := by rw [← hcap]; exact hbad
  have hpos : 0 < amt := by omega
  have hnewlog : m.s.nextId ∉ m.s.grantLog := fun h => by have := c.ord.logFresh _ h; omega
  have hlt : ∀ w ∈ m.s.waiters, w.id < m.s.nextId := c.ord.waitFresh
  have cq := core_enqueue ⟨m.s.nextId, amt, prio⟩ (core_bump c) hpos hlt (Nat.lt_succ_self _) hnewlog
  have hag : Agree cap (⟨{ j.b with waiting := j.b.waiting ++ [(⟨m.s.nextId, amt, prio⟩ : G)],
                                      nCon := j.b.nCon + 1 }, j.calls⟩ : JB)
      { m with s := enq (bumpId m.s) ⟨m.s.nextId, amt, prio⟩, cbs := cbs, stack := st } :=
    { core := cq
      calls := by show j.calls = callsOf st; rw [hst]; exact ag.calls
      head := by
        intro hc w ws hw
        have hw' : insWaiter ⟨m.s.nextId, amt, prio⟩ m.s.waiters = w :: ws := hw
        show m.s.avail < w.amt
        rcases insWaiter_head _ _ _ _ hw' with h | ⟨ys, h⟩
        · rw [h]; show m.s.avail < amt; omega
        · exact ag.head hc w ys h
      ret := retok_enq _ (retok_bump ag.ret)
      valid := hv }
  refine Step.loud ?_ (check_obsAt cap cnt _ _ ctx .call _ _ _ _ hag) hag
  show j.apply cap ⟨.call, _, _⟩ = _
  rw [jb_apply_acq_nil cap j _ _ m.s.nextId amt prio pre rfl rfl, apply_queued_at cap j.b _ _ _ _ _ _ hok]
  dsimp only
  rw [sortIds_nil, wakeSet_nil]

/-- granted after a preemption: the call leaves the judge's stack, waiters are woken -/
theorem grant_woken (cnt : Bool) (ag : Agree cap j m) (amt prio : Int) (ctx : Option Nat)
    (cbs : List (Nat × Nat)) (st : List Frame) (snap : List G) (evs : List Nat) (hevs : evs ≠ [])
    (hcalls : callsOf m.stack = ⟨amt, prio, snap, evs⟩ :: callsOf st) (hv : ∀ f ∈ st, FrameOk cap f)
    (hbad : ¬ (amt ≤ 0 ∨ m.s.cap < amt)) (hfit : amt ≤ m.s.avail) :
    Step cap cnt j
      ({ m with s := (wake (grantNow (bumpId m.s) ⟨m.s.nextId, amt, prio⟩)).1, cbs := cbs, stack := st },
       some ⟨ctx, .call,
             obsAt { m with s := (wake (grantNow (bumpId m.s) ⟨m.s.nextId, amt, prio⟩)).1, cbs := cbs, stack := st }
               (.acq m.s.nextId amt prio true) .granted evs (wake (grantNow (bumpId m.s) ⟨m.s.nextId, amt, prio⟩)).2⟩) := by
  have c := ag.core
  have hcap := c.cap
  have hok : ¬ (amt ≤ 0 ∨ cap < amt) := by rw [← hcap]; exact hbad
  have hpos : 0 < amt := by omega
  have hnewlog : m.s.nextId ∉ m.s.grantLog := fun h => by have := c.ord.logFresh _ h; omega
  have hlt : ∀ w ∈ m.s.waiters, w.id < m.s.nextId := c.ord.waitFresh
  have hng : j.b.granted.contains m.s.nextId = false := by rw [c.granted]; simpa using hnewlog
  have cg := core_grant ⟨m.s.nextId, amt, prio⟩ (core_bump c) hpos hfit (Nat.lt_succ_self _) hnewlog
    (fun w hw => Nat.ne_of_lt (hlt w hw))
  obtain ⟨b', hw, c'⟩ := core_wake (Extra.sortIds (wake (grantNow (Preempt.bump m.s) ⟨m.s.nextId, amt, prio⟩)).2) cg
    (fun i => mem_sortIds i _)
  have hjc : j.calls = ⟨amt, prio, snap, evs⟩ :: callsOf st := by rw [ag.calls]; exact hcalls
  have hag : Agree cap { b := b', calls := callsOf st }
      { m with s := (wake (grantNow (bumpId m.s) ⟨m.s.nextId, amt, prio⟩)).1, cbs := cbs, stack := st } :=
    { core := c'
      calls := rfl
      head := fun _ => (wake_inv _ cg.num).head
      ret := retok_wake (retok_grant _ (retok_bump ag.ret) hnewlog) cg.ord.waitNotLogged
      valid := hv }
  refine Step.loud ?_ (check_obsAt cap cnt _ _ ctx .call _ _ _ _ hag) hag
  show j.apply cap ⟨.call, _, _⟩ = _
  rw [jb_apply_acq_cons cap j _ _ m.s.nextId amt prio _ _ rfl hjc hevs rfl rfl rfl, obsAt_noev,
    apply_granted_at cap j.b _ _ _ _ _ _ hok hng]
  have hw' : Book.wakeSet cap j.b.waiting.length
      { j.b with held := j.b.held ++ [(⟨m.s.nextId, amt, prio⟩ : G)], granted := j.b.granted ++ [m.s.nextId] }
      (Extra.sortIds (wake (grantNow (bumpId m.s) ⟨m.s.nextId, amt, prio⟩)).2) = .ok b' := hw
  rw [hw']

/-- queued after a preemption that did not free enough -/
theorem queue_woken (cnt : Bool) (ag : Agree cap j m) (amt prio : Int) (ctx : Option Nat)
    (cbs : List (Nat × Nat)) (st : List Frame) (snap : List G) (evs : List Nat) (hevs : evs ≠ [])
    (hcalls : callsOf m.stack = ⟨amt, prio, snap, evs⟩ :: callsOf st) (hv : ∀ f ∈ st, FrameOk cap f)
    (hbad : ¬ (amt ≤ 0 ∨ m.s.cap < amt)) :
    Step cap cnt j
      ({ m with s := (wake (enq (bumpId m.s) ⟨m.s.nextId, amt, prio⟩)).1, cbs := cbs, stack := st },
       some ⟨ctx, .call,
             obsAt { m with s := (wake (enq (bumpId m.s) ⟨m.s.nextId, amt, prio⟩)).1, cbs := cbs, stack := st }
               (.acq m.s.nextId amt prio true) .queued evs (wake (enq (bumpId m.s) ⟨m.s.nextId, amt, prio⟩)).2⟩) := by
  have c := ag.core
  have hcap := c.cap
  have hok : ¬ (amt ≤ 0 ∨ cap < amt) := by rw [← hcap]; exact hbad
  have hpos : 0 < amt := by omega
  have hnewlog : m.s.nextId ∉ m.s.grantLog := fun h => by have := c.ord.logFresh _ h; omega
  have hlt : ∀ w ∈ m.s.waiters, w.id < m.s.nextId := c.ord.waitFresh
  have cq := core_enqueue ⟨m.s.nextId, amt, prio⟩ (core_bump c) hpos hlt (Nat.lt_succ_self _) hnewlog
  obtain ⟨b', hw, c'⟩ := core_wake (Extra.sortIds (wake (Preempt.enqueue (Preempt.bump m.s) ⟨m.s.nextId, amt, prio⟩)).2) cq
    (fun i => mem_sortIds i _)
  have hjc : j.calls = ⟨amt, prio, snap, evs⟩ :: callsOf st := by rw [ag.calls]; exact hcalls
  have hag : Agree cap { b := b', calls := callsOf st }
      { m with s := (wake (enq (bumpId m.s) ⟨m.s.nextId, amt, prio⟩)).1, cbs := cbs, stack := st } :=
    { core := c'
      calls := rfl
      head := fun _ => (wake_inv _ cq.num).head
      ret := retok_wake (retok_enq _ (retok_bump ag.ret)) cq.ord.waitNotLogged
      valid := hv }
  refine Step.loud ?_ (check_obsAt cap cnt _ _ ctx .call _ _ _ _ hag) hag
  show j.apply cap ⟨.call, _, _⟩ = _
  rw [jb_apply_acq_cons cap j _ _ m.s.nextId amt prio _ _ rfl hjc hevs rfl rfl rfl, obsAt_noev,
    apply_queued_at cap j.b _ _ _ _ _ _ hok]
  have hw' : Book.wakeSet cap (j.b.waiting ++ [(⟨m.s.nextId, amt, prio⟩ : G)]).length
      { j.b with waiting := j.b.waiting ++ [(⟨m.s.nextId, amt, prio⟩ : G)], nCon := j.b.nCon + 1 }
      (Extra.sortIds (wake (enq (bumpId m.s) ⟨m.s.nextId, amt, prio⟩)).2) = .ok b' := hw
  rw [hw']

end Finish

theorem finish_step (cap : Int) (cnt : Bool) (j : JB) (m : M) (rest : List Frame) (amt prio : Int) (cb : Nat)
    (snap : List G) (evs : List Nat) (ag : Agree cap j m) (hst : m.stack = .loop amt prio cb snap evs :: rest) :
    Step cap cnt j (finish m rest amt prio cb evs) := by
  have hfr : FrameOk cap (.loop amt prio cb snap evs) := ag.valid _ (by rw [hst]; exact List.mem_cons_self)
  have hbad : ¬ (amt ≤ 0 ∨ m.s.cap < amt) := by
    have := ag.core.cap; unfold FrameOk at hfr; omega
  have hv : ∀ f ∈ rest, FrameOk cap f := fun f hf => ag.valid f (by rw [hst]; exact List.mem_cons_of_mem _ hf)
  by_cases he : evs = []
  · subst he
    have hc : callsOf rest = callsOf m.stack := by rw [hst, callsOf_loop_nil]
    by_cases hfit : amt ≤ m.s.avail
    · simp only [finish, hfit, if_true, ne_eq, not_true_eq_false, if_false]
      exact grant_plain cnt ag amt prio true (ctxOf rest) _ rest hc hv hbad hfit
    · simp only [finish, hfit, if_false, ne_eq, not_true_eq_false]
      exact queue_plain cnt ag amt prio true (ctxOf rest) _ rest hc hv hbad hfit
  · have hc : callsOf m.stack = ⟨amt, prio, snap, evs⟩ :: callsOf rest := by rw [hst, callsOf_loop_cons _ _ _ _ _ _ he]
    by_cases hfit : amt ≤ m.s.avail
    · simp only [finish, hfit, if_true, ne_eq, he, not_false_eq_true]
      exact grant_woken cnt ag amt prio (ctxOf rest) _ rest snap evs he hc hv hbad hfit
    · simp only [finish, hfit, if_false, ne_eq, he, not_false_eq_true, if_true]
      exact queue_woken cnt ag amt prio (ctxOf rest) _ rest snap evs he hc hv hbad

/-! ### one action of a program -/

theorem doAct_step (cap : Int) (cnt : Bool) (j : JB) (m : M) (ctx : Option Nat) (a : Act) (ag : Agree cap j m) :
    Step cap cnt j (doAct m ctx a) := by
  have c := ag.core
  cases a with
  | query =>
    simp only [doAct]
    refine Step.loud (j' := j) ?_ (check_obsAt cap cnt _ _ ctx .query _ _ _ _ ag) ag
    exact jb_apply_query cap j _ _ sortedIds_nil
  | rel id =>
    cases hf : m.s.active.find? (·.id == id) with
    | none =>
      simp only [doAct, hf]
      refine Step.loud (j' := j) ?_ (check_obsAt cap cnt _ _ ctx .call _ _ _ _ ag) ag
      show j.apply cap ⟨.call, _, _⟩ = _
      rw [jb_apply_rel cap j _ _ id rfl rfl, obsAt_rel, apply_noop _ _ _ _ _ _ (by rw [c.held]; exact hf)]
    | some g =>
      simp only [doAct, hf]
      have hm : g ∈ m.s.active := List.mem_of_find?_eq_some hf
      have cf := core_free g c hm
      obtain ⟨b', hw, c'⟩ := core_wake (Extra.sortIds (wake (Preempt.freed m.s g)).2) cf (fun i => mem_sortIds i _)
      have hag : Agree cap { j with b := b' } { m with s := (wake (giveBack m.s g)).1, retLog := m.retLog ++ [g.id] } :=
        { core := c'
          calls := ag.calls
          head := fun _ => (wake_inv _ cf.num).head
          ret := retok_wake (retok_return g c ag.ret hm rfl rfl) cf.ord.waitNotLogged
          valid := ag.valid }
      refine Step.loud ?_ (check_obsAt cap cnt _ _ ctx .call _ _ _ _ hag) hag
      show j.apply cap ⟨.call, _, _⟩ = _
      rw [jb_apply_rel cap j _ _ id rfl rfl, obsAt_rel, apply_released _ _ _ _ _ g _ _ (by rw [c.held]; exact hf)]
      show (match Book.wakeSet cap j.b.waiting.length _ (Extra.sortIds (wake (Preempt.freed m.s g)).2) with
            | .ok b => Except.ok { j with b := b }
            | .error e => .error e) = _
      rw [hw]
  | acq amt prio pre cb =>
    by_cases hbad : amt ≤ 0 ∨ m.s.cap < amt
    · simp only [doAct, hbad, if_true]
      have hag : Agree cap j { m with s := bumpId m.s } :=
        { core := core_bump c, calls := ag.calls, head := ag.head, ret := retok_bump ag.ret, valid := ag.valid }
      refine Step.loud (j' := j) ?_ (check_obsAt cap cnt _ _ ctx .call _ _ _ _ hag) hag
      show j.apply cap ⟨.call, _, _⟩ = _
      rw [jb_apply_acq_nil cap j _ _ m.s.nextId amt prio pre rfl rfl,
        apply_err_at _ _ _ _ _ _ _ (by rw [← c.cap]; exact hbad)]
    · by_cases hfit : amt ≤ m.s.avail
      · simp only [doAct, hbad, if_false, hfit, if_true]
        exact grant_plain cnt ag amt prio pre ctx _ m.stack rfl ag.valid hbad hfit
      · cases pre with
        | true =>
          simp only [doAct, hbad, if_false, hfit, if_true]
          apply Step.silent
          apply ag.restack
          · exact callsOf_loop_nil _ _ _ _ _
          · intro f hf
            rcases List.mem_cons.mp hf with h | h
            · rw [h]; have := c.cap; unfold FrameOk; omega
            · exact ag.valid f h
        | false =>
          simp only [doAct, hbad, if_false, hfit, Bool.false_eq_true]
          exact queue_plain cnt ag amt prio false ctx _ m.stack rfl ag.valid hbad hfit

/-! ### one tick -/

theorem tick_step (cap : Int) (cnt : Bool) (P : Progs) (j : JB) (m : M) (ag : Agree cap j m) :
    Step cap cnt j (tick P m) := by
  have c := ag.core
  cases hst : m.stack with
  | nil => simp only [tick, hst]; exact Step.silent ag
  | cons f rest =>
    cases f with
    | prog o acts =>
      have hv : ∀ f ∈ rest, FrameOk cap f := fun f hf => ag.valid f (by rw [hst]; exact List.mem_cons_of_mem _ hf)
      cases acts with
      | nil =>
        simp only [tick, hst]
        exact Step.silent (ag.restack rest (by rw [hst, callsOf_prog]) hv)
      | cons a as =>
        simp only [tick, hst]
        apply doAct_step
        apply ag.restack
        · rw [hst, callsOf_prog, callsOf_prog]
        · intro f hf
          rcases List.mem_cons.mp hf with h | h
          · rw [h]; trivial
          · exact hv f h
    | loop amt prio cb snap evs =>
      have hv : ∀ f ∈ rest, FrameOk cap f := fun f hf => ag.valid f (by rw [hst]; exact List.mem_cons_of_mem _ hf)
      have hfr : FrameOk cap (.loop amt prio cb snap evs) := ag.valid _ (by rw [hst]; exact List.mem_cons_self)
      by_cases hfit : amt ≤ m.s.avail
      · simp only [tick, hst, hfit, if_true]
        exact finish_step cap cnt j m rest amt prio cb snap evs ag hst
      · cases hvic : victim prio ((if evs = [] then m.s.active else snap).filter (fun x => m.s.active.contains x)) with
        | none =>
          simp only [tick, hst, hfit, if_false, hvic]
          exact finish_step cap cnt j m rest amt prio cb snap evs ag hst
        | some v =>
          simp only [tick, hst, hfit, if_false, hvic]
          have hvf := victim_mem _ _ _ hvic
          have hm : v ∈ m.s.active := by
            have := (List.mem_filter.mp hvf).2
            simpa using this
          have hpr := victim_prio _ _ _ hvic
          have hfind : j.b.held.find? (·.id == v.id) = some v := by
            rw [c.held]; exact find_by_id _ _ hm c.actNodup
          have hsum : heldSum j.b = cap - m.s.avail := by
            unfold heldSum; rw [c.held, ← c.cap]; have := c.num.conserve; omega
          have hag : Agree cap
              { b := { j.b with held := j.b.held.erase v, gone := j.b.gone ++ [v.id] },
                calls := ⟨amt, prio, if evs = [] then m.s.active else snap, evs ++ [v.id]⟩ :: callsOf rest }
              { m with s := evict1 m.s v, gone := m.gone ++ [v.id], retLog := m.retLog ++ [v.id],
                       stack := .prog (some v.id) (progOf P m.cbs v.id)
                                  :: .loop amt prio cb (if evs = [] then m.s.active else snap) (evs ++ [v.id]) :: rest } :=
            { core := core_evict1 v c hm
              calls := by
                show _ :: callsOf rest = callsOf _
                rw [callsOf_prog, callsOf_loop_cons _ _ _ _ _ _ (by simp)]
              head := fun h => by cases h
              ret := retok_return v c ag.ret hm rfl rfl
              valid := by
                intro f hf
                rcases List.mem_cons.mp hf with h | h
                · rw [h]; trivial
                · rcases List.mem_cons.mp h with h | h
                  · rw [h]; exact hfr
                  · exact hv f h }
          refine Step.loud ?_ (check_obsAt cap cnt _ _ (some v.id) _ _ _ _ _ hag) hag
          show j.apply cap ⟨.ev v.id (decide (evs = [])) amt prio, _, _⟩ = _
          by_cases he : evs = []
          · have hjc : j.calls = callsOf rest := by rw [ag.calls, hst, he, callsOf_loop_nil]
            simp only [he, if_true] at hvic
            simp only [JB.apply, obsAt, sortedIds_nil, ne_eq, not_true_eq_false, if_false, hfind, he, decide_true,
              if_true, List.nil_append]
            rw [if_neg (by omega), if_neg (by rw [hsum]; omega)]
            simp only [or_self, if_false]
            rw [c.held, if_neg (by rw [hvic]; simp), hjc]
          · have hjc : j.calls = ⟨amt, prio, snap, evs⟩ :: callsOf rest := by
              rw [ag.calls, hst, callsOf_loop_cons _ _ _ _ _ _ he]
            simp only [he, if_false] at hvic
            simp only [JB.apply, obsAt, sortedIds_nil, ne_eq, not_true_eq_false, if_false, hfind, he, decide_false,
              Bool.false_eq_true, hjc]
            rw [if_neg (by omega), if_neg (by rw [hsum]; omega)]
            simp only [or_self, if_false]
            rw [c.held, if_neg (by rw [hvic]; simp)]

end HappyModel.C09.PreemptCb
