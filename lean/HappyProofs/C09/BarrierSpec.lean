import HappyProofs.C09.SyncInv
/-! Barrier: the model satisfies the executable Spec predicate `judgeBarrier` on every operation
list, and the barrier clauses of the property as direct statements about the model: it trips exactly
when the `parties`-th party arrives, releases all parties of the generation together (in arrival
order), and generations do not mix — the sequence of arrivals is cut into consecutive cohorts. -/
namespace HappyModel.C09.Sync.Barrier

def b01 (b : Bool) : Nat := if b then 1 else 0

/-- what the model reports for an operation (`runBarrier` in the driver prints exactly these fields) -/
def obsOf (o : Op) (out : Out) (s' : St) : Obs :=
  { k := match o with
      | .wait id => .acq id 1 0
      | .reset => .ctl 0
      | .abort => .ctl 1
    res := out.res, woke := out.woke, c1 := s'.waiters.length, c2 := s'.generation, c3 := b01 s'.broken }

/-- the model's observable trace -/
def obsTrace (s : St) : List Op → List Obs
  | [] => []
  | o :: os => obsOf o (step s o).2.1 (step s o).1 :: obsTrace (step s o).1 os

/-- fewer than `parties` are ever waiting -/
structure Inv (s : St) : Prop where
  below : s.waiters.length < s.parties

theorem init_inv (parties : Nat) (h : 0 < parties) : Inv { parties := parties } := ⟨h⟩

structure Agree (b : BBook) (s : St) : Prop where
  blocked : b.blocked = s.waiters
  broken : b.broken = s.broken
  resolved : b.resolved = []

theorem step_wait (s : St) (id : Nat) : step s (.wait id) =
    if s.broken then (s, ⟨.errRuntime, []⟩, 0)
    else if s.waiters.length + 1 ≥ s.parties then
      ({ s with waiters := [], generation := s.generation + 1 }, ⟨.passed, s.waiters⟩, 0)
    else ({ s with waiters := s.waiters ++ [id] }, ⟨.queued, []⟩, s.parties - (s.waiters.length + 1)) := rfl
theorem step_reset (s : St) : step s .reset =
    ({ s with waiters := [], broken := false, generation := s.generation + 1 }, ⟨.ok, s.waiters⟩, 0) := rfl
theorem step_abort (s : St) : step s .abort = ({ s with waiters := [], broken := true }, ⟨.ok, s.waiters⟩, 0) := rfl

theorem step_parties (s : St) (o : Op) : (step s o).1.parties = s.parties := by
  cases o with
  | wait id => rw [step_wait]; split; · rfl
               split <;> rfl
  | reset => rfl
  | abort => rfl

theorem run_parties (s : St) (ops : List Op) : (run s ops).parties = s.parties := by
  induction ops generalizing s with
  | nil => rfl
  | cons o os ih => simp [run, ih, step_parties]

theorem step_inv (s : St) (o : Op) (inv : Inv s) : Inv (step s o).1 := by
  have := inv.below
  cases o with
  | wait id =>
    rw [step_wait]; split
    · exact inv
    · split
      · exact ⟨by show 0 < s.parties; omega⟩
      · exact ⟨by show (s.waiters ++ [id]).length < s.parties; simp; omega⟩
  | reset => exact ⟨by show 0 < s.parties; omega⟩
  | abort => exact ⟨by show 0 < s.parties; omega⟩

theorem run_inv (s : St) (ops : List Op) (inv : Inv s) : Inv (run s ops) := by
  induction ops generalizing s with
  | nil => exact inv
  | cons o os ih => exact ih _ (step_inv s o inv)

theorem check_ok (s : St) (b : BBook) (o : Obs) (inv : Inv s) (ag : Agree b s)
    (h1 : o.c1 = s.waiters.length) : b.check s.parties o = none := by
  have := inv.below
  unfold BBook.check
  rw [ag.blocked, h1, if_neg (by simp), if_neg (by omega)]

/-- one operation: the judge accepts the model's observation and its books follow the model -/
theorem apply_step (s : St) (b : BBook) (o : Op) (ag : Agree b s) :
    ∃ b', b.apply s.parties false (obsOf o (step s o).2.1 (step s o).1) = .ok b' ∧ Agree b' (step s o).1 := by
  cases o with
  | wait id =>
    simp only [obsOf]; rw [step_wait]
    split
    · rename_i hb
      refine ⟨b, ?_, ag⟩
      simp [BBook.apply, procObs, ag.broken, hb]
    · rename_i hb
      split
      · rename_i hn
        refine ⟨{ b with blocked := [] }, ?_, ⟨rfl, ag.broken, ag.resolved⟩⟩
        simp only [BBook.apply, procObs, ag.blocked]
        rw [if_neg (by omega)]
        simp
      · rename_i hn
        refine ⟨{ b with blocked := b.blocked ++ [id] }, ?_,
          ⟨by show b.blocked ++ [id] = s.waiters ++ [id]; rw [ag.blocked], ag.broken, ag.resolved⟩⟩
        simp only [BBook.apply, procObs, ag.blocked]
        rw [if_neg hn]
  | reset =>
    simp only [obsOf]; rw [step_reset]
    refine ⟨{ b with blocked := [], broken := false }, ?_, ⟨rfl, rfl, ag.resolved⟩⟩
    simp [BBook.apply, procObs, ag.blocked]
  | abort =>
    simp only [obsOf]; rw [step_abort]
    refine ⟨{ b with blocked := [], broken := true }, ?_, ⟨rfl, rfl, ag.resolved⟩⟩
    simp [BBook.apply, procObs, ag.blocked]

theorem judge_model (s : St) (b : BBook) (ops : List Op) (inv : Inv s) (ag : Agree b s) :
    judgeBarrier s.parties false b (obsTrace s ops) = none := by
  induction ops generalizing s b with
  | nil => rfl
  | cons o os ih =>
    obtain ⟨b', hap, hag⟩ := apply_step s b o ag
    have inv' := step_inv s o inv
    simp only [obsTrace, judgeBarrier, hap]
    have hc := check_ok (step s o).1 b' (obsOf o (step s o).2.1 (step s o).1) inv' hag rfl
    rw [step_parties] at hc
    rw [hc]
    have := ih (step s o).1 b' inv' hag
    rw [step_parties] at this
    exact this

/-! ### cohorts: the trace-level ledger of arrivals and releases -/

def trace (s : St) : List Op → List (Op × Out)
  | [] => []
  | o :: os => (o, (step s o).2.1) :: trace (step s o).1 os

/-- parties that arrived at the barrier (a `wait` that was not rejected), in arrival order -/
def arrivals : List (Op × Out) → List Nat
  | [] => []
  | (.wait id, out) :: r => (if out.res = .queued ∨ out.res = .passed then [id] else []) ++ arrivals r
  | _ :: r => arrivals r

/-- the groups released together, in order: by a trip (the waiting parties and the last arrival),
    or flushed by `reset` / `abort` -/
def groups : List (Op × Out) → List (List Nat)
  | [] => []
  | (.wait id, out) :: r => (if out.res = .passed then [out.woke ++ [id]] else []) ++ groups r
  | (_, out) :: r => out.woke :: groups r

/-- the groups released by a trip only -/
def trips : List (Op × Out) → List (List Nat)
  | [] => []
  | (.wait id, out) :: r => (if out.res = .passed then [out.woke ++ [id]] else []) ++ trips r
  | _ :: r => trips r

/-- number of generation changes (trips and resets) -/
def genSteps : List (Op × Out) → Nat
  | [] => 0
  | (.wait _, out) :: r => (if out.res = .passed then 1 else 0) + genSteps r
  | (.reset, _) :: r => 1 + genSteps r
  | (.abort, _) :: r => genSteps r

/-- arrivals = released groups, concatenated in order, followed by those still waiting: the arrival
    sequence is cut into consecutive cohorts, nobody is released with another cohort, nobody is lost -/
theorem cohort_ledger (s : St) (ops : List Op) :
    s.waiters ++ arrivals (trace s ops) = (groups (trace s ops)).flatten ++ (run s ops).waiters := by
  induction ops generalizing s with
  | nil => simp [trace, arrivals, groups, run]
  | cons o os ih =>
    cases o with
    | wait id =>
      simp only [trace, arrivals, groups, run]
      rw [step_wait]
      split
      · simpa using ih s
      · split
        · have ih' := ih { s with waiters := [], generation := s.generation + 1 }
          simp only [List.nil_append] at ih'
          simp [ih']
        · have ih' := ih { s with waiters := s.waiters ++ [id] }
          simp only [List.append_assoc] at ih'
          simpa using ih'
    | reset =>
      simp only [trace, arrivals, groups, run]
      rw [step_reset]
      have ih' := ih { s with waiters := [], broken := false, generation := s.generation + 1 }
      simp only [List.nil_append] at ih'
      simp [ih']
    | abort =>
      simp only [trace, arrivals, groups, run]
      rw [step_abort]
      have ih' := ih { s with waiters := [], broken := true }
      simp only [List.nil_append] at ih'
      simp [ih']

/-- every trip releases exactly `parties` parties — the whole cohort, never fewer, never more -/
theorem trips_full (s : St) (ops : List Op) (inv : Inv s) :
    ∀ g ∈ trips (trace s ops), g.length = s.parties := by
  induction ops generalizing s with
  | nil => intro g hg; simp [trace, trips] at hg
  | cons o os ih =>
    have ih' := ih (step s o).1 (step_inv s o inv)
    rw [step_parties] at ih'
    have := inv.below
    cases o with
    | wait id =>
      simp only [trace, trips]
      by_cases hp : (step s (.wait id)).2.1.res = .passed
      · rw [if_pos hp]
        intro g hg
        simp only [List.singleton_append, List.mem_cons] at hg
        rcases hg with rfl | hg
        · rw [step_wait] at hp ⊢
          split
          · rename_i hb; rw [if_pos hb] at hp; cases hp
          · rename_i hb
            rw [if_neg hb] at hp
            split
            · simp; omega
            · rename_i hn; rw [if_neg hn] at hp; cases hp
        · exact ih' g hg
      · rw [if_neg hp]; simpa using ih'
    | reset => simp only [trace, trips]; exact ih'
    | abort => simp only [trace, trips]; exact ih'

/-- the generation counter counts the trips and the resets -/
theorem generation_ledger (s : St) (ops : List Op) :
    (run s ops).generation = s.generation + genSteps (trace s ops) := by
  induction ops generalizing s with
  | nil => simp [trace, genSteps, run]
  | cons o os ih =>
    cases o with
    | wait id =>
      simp only [trace, genSteps, run]
      rw [step_wait]
      split
      · simpa using ih s
      · split
        · have ih' := ih { s with waiters := [], generation := s.generation + 1 }
          simp [ih']; omega
        · have ih' := ih { s with waiters := s.waiters ++ [id] }
          simpa using ih'
    | reset =>
      simp only [trace, genSteps, run]; rw [step_reset]
      have ih' := ih { s with waiters := [], broken := false, generation := s.generation + 1 }
      simp [ih']; omega
    | abort =>
      simp only [trace, genSteps, run]; rw [step_abort]
      have ih' := ih { s with waiters := [], broken := true }
      simp [ih']

end HappyModel.C09.Sync.Barrier
