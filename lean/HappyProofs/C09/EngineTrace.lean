import HappyProofs.C09.SyncInv
import HappyModel.C09.Driver
/-!
# C09 — Mutex: the model's ENGINE-mode transcript satisfies the executable Spec predicate

`mutex_trace_satisfies_spec` (Props.lean) covers the judge's direct mode (`engine = false`).  In
engine mode the judge also keeps the `resolved` list (calls that became resumable and whose process
has not been seen resuming) and consumes `got` / `fin` lines.  Here the engine-mode transcript of
the model is defined exactly as `Driver.runMutex` prints it and `Driver.judgeSync` reads it back
(`traceE`, checked against the driver on concrete schedules by `#guard`), schedule well-formedness
is the Bool `wfE`, and the judge in engine mode is proved to return `none` on every well-formed
schedule.
-/
namespace HappyModel.C09.Sync.Mutex

/-- one line of an engine-mode schedule -/
inductive Cmd
  | op (t : Nat) (o : Op)       -- a call made at clock value `t`
  | got (t : Nat) (id : Nat)    -- the process of call `id` is seen resuming at clock value `t`
  | fin (t : Nat)               -- the run went quiescent
deriving Repr, DecidableEq

/-- the calls that become resumable by an operation, as `Driver.runMutex` computes them: an
    immediately granted blocking `acquire`, and the woken ones -/
def newlyOf (o : Op) (out : Out) : List Nat :=
  match o with
  | .acquire id => Driver.newly true id out
  | _ => out.woke

/-- operation line, stamped with its clock value -/
def obsE (t : Nat) (o : Op) (out : Out) (s' : St) : Obs := { obsOf o out s' with t := t }

/-- `got` / `fin` line: carries (after `Driver.fillS`) the counters of the current state -/
def cntObs (t : Nat) (k : SKind) (s : St) : Obs :=
  { t := t, k := k, c1 := b01 s.locked, c2 := s.waiters.length }

/-- the model's engine-mode observable trace: mirrors `Driver.runMutex.go` (state, pending list)
    followed by `Driver.parseSObs` / `Driver.fillS` -/
def traceE (s : St) (p : Pend) : List Cmd → List Obs
  | [] => []
  | .op t o :: cs =>
    obsE t o (step s o).2 (step s o).1 :: traceE (step s o).1 (p.add t (newlyOf o (step s o).2)) cs
  | .got t id :: cs => cntObs t (.got id 0) s :: traceE s (p.got t id).1 cs
  | .fin t :: cs => cntObs t .fin s :: traceE s p cs

/-- schedule well-formedness: a `got t id` line only for a call that became resumable and has not
    resumed yet, at the clock value at which it became resumable (the driver's `Pend.got` answers
    `ok`, not `late` / `unexpected`); a `fin` line only when nobody resumable is left parked -/
def wfE (s : St) (p : Pend) : List Cmd → Bool
  | [] => true
  | .op t o :: cs => wfE (step s o).1 (p.add t (newlyOf o (step s o).2)) cs
  | .got t id :: cs => decide ((p.got t id).2 = .ok) && wfE s (p.got t id).1 cs
  | .fin _ :: cs => p.isEmpty && wfE s p cs

/-- judge books vs. model state + the driver's pending list -/
structure AgreeE (b : MBook) (s : St) (p : Pend) : Prop where
  holders : b.holders = b01 s.locked
  blocked : b.blocked = s.waiters
  resolved : b.resolved = p

theorem check_okE (s : St) (b : MBook) (p : Pend) (o : Obs) (inv : Inv s) (ag : AgreeE b s p)
    (h1 : o.c1 = b01 s.locked) (h2 : o.c2 = s.waiters.length) : b.check o = none :=
  check_ok s { b with resolved := [] } o inv ⟨ag.holders, ag.blocked, rfl⟩ h1 h2

theorem apply_stepE (s : St) (b : MBook) (p : Pend) (t : Nat) (o : Op) (inv : Inv s) (ag : AgreeE b s p) :
    ∃ b', b.apply true (obsE t o (step s o).2 (step s o).1) = .ok b'
      ∧ AgreeE b' (step s o).1 (p.add t (newlyOf o (step s o).2)) ∧ Inv (step s o).1 := by
  cases o with
  | tryAcquire id =>
    cases hl : s.locked with
    | true =>
      refine ⟨b, ?_, ?_, by simpa [step, hl] using inv⟩
      · simp [MBook.apply, procObs, obsE, obsOf, step, hl, ag.holders, b01]
      · simp only [step, hl]
        exact ⟨by simpa [hl] using ag.holders, ag.blocked, by simp [ag.resolved, newlyOf, Pend.add]⟩
    | false =>
      refine ⟨{ b with holders := 1 }, ?_, ?_, ?_⟩
      · simp [MBook.apply, procObs, obsE, obsOf, step, hl, ag.holders, b01]
      · simp only [step, hl]; exact ⟨rfl, ag.blocked, by simp [ag.resolved, newlyOf, Pend.add]⟩
      · simp only [step, hl]; exact ⟨fun _ => rfl⟩
  | acquire id =>
    cases hl : s.locked with
    | true =>
      refine ⟨{ b with blocked := b.blocked ++ [id] }, ?_, ?_, ?_⟩
      · simp [MBook.apply, procObs, obsE, obsOf, step, hl, ag.holders, b01]
      · simp only [step, hl]
        exact ⟨by simpa [hl] using ag.holders, by simp [ag.blocked],
          by simp [ag.resolved, newlyOf, Driver.newly, Pend.add]⟩
      · simp only [step, hl]; exact ⟨fun _ => by simp⟩
    | false =>
      refine ⟨{ b with holders := 1, resolved := b.resolved.add t [id] }, ?_, ?_, ?_⟩
      · simp [MBook.apply, procObs, obsE, obsOf, step, hl, ag.holders, b01]
      · simp only [step, hl]
        exact ⟨rfl, ag.blocked, by simp [ag.resolved, newlyOf, Driver.newly, Pend.add]⟩
      · simp only [step, hl]; exact ⟨fun _ => rfl⟩
  | release =>
    cases hl : s.locked with
    | false =>
      refine ⟨b, ?_, ?_, by simpa [step, hl] using inv⟩
      · simp [MBook.apply, procObs, obsE, obsOf, step, hl, ag.holders, b01]
      · simp only [step, hl]
        exact ⟨by simpa [hl] using ag.holders, ag.blocked, by simp [ag.resolved, newlyOf, Pend.add]⟩
    | true =>
      cases hq : s.waiters with
      | nil =>
        refine ⟨{ holders := 0, blocked := b.blocked, resolved := b.resolved.add t [] }, ?_, ?_, ?_⟩
        · simp [MBook.apply, procObs, obsE, obsOf, step, hl, hq, ag.holders, b01, wokeCheck]
        · simp only [step, hl, hq]
          exact ⟨rfl, by simp [ag.blocked, hq], by simp [ag.resolved, newlyOf, Pend.add]⟩
        · simp only [step, hl, hq]; exact ⟨fun h => absurd rfl h⟩
      | cons w ws =>
        refine ⟨{ holders := 1, blocked := ws, resolved := b.resolved.add t [w] }, ?_, ?_, ?_⟩
        · simp [MBook.apply, procObs, obsE, obsOf, step, hl, hq, ag.holders, ag.blocked, b01, wokeCheck]
        · simp only [step, hl, hq]
          exact ⟨by simp [b01], rfl, by simp [ag.resolved, newlyOf, Pend.add]⟩
        · simp only [step, hl, hq]; exact ⟨fun _ => by simp⟩

/-- what an accepted `got` means on the pending list -/
theorem got_ok (p : Pend) (t id : Nat) (h : (p.got t id).2 = .ok) :
    ∃ q, p.find? (·.1 == id) = some q ∧ q.2 = t ∧ (p.got t id).1 = p.filter (·.1 != id) := by
  unfold Pend.got at h ⊢
  cases hf : p.find? (·.1 == id) with
  | none => simp [hf] at h
  | some q =>
    simp only [hf] at h ⊢
    refine ⟨q, rfl, ?_, ?_⟩
    · by_cases hq : q.2 = t
      · exact hq
      · simp [hq] at h
    · first | rfl | trivial

theorem judge_modelE (s : St) (b : MBook) (p : Pend) (cs : List Cmd) (inv : Inv s) (ag : AgreeE b s p)
    (wf : wfE s p cs = true) : judgeMutex true b (traceE s p cs) = none := by
  induction cs generalizing s b p with
  | nil => rfl
  | cons c cs ih =>
    cases c with
    | op t o =>
      obtain ⟨b', hap, hag, hinv⟩ := apply_stepE s b p t o inv ag
      simp only [traceE, judgeMutex, hap]
      rw [check_okE (step s o).1 b' _ _ hinv hag rfl rfl]
      exact ih _ _ _ hinv hag (by simpa [wfE] using wf)
    | got t id =>
      simp only [wfE, Bool.and_eq_true, decide_eq_true_eq] at wf
      obtain ⟨q, hf, hq, hp⟩ := got_ok p t id wf.1
      have hap : b.apply true (cntObs t (.got id 0) s) = .ok { b with resolved := p.filter (·.1 != id) } := by
        simp [MBook.apply, procObs, cntObs, ag.resolved, hf, hq]
      have hag : AgreeE { b with resolved := p.filter (·.1 != id) } s (p.got t id).1 :=
        ⟨ag.holders, ag.blocked, hp.symm⟩
      simp only [traceE, judgeMutex, hap]
      rw [check_okE s _ _ _ inv hag rfl rfl]
      exact ih _ _ _ inv hag wf.2
    | fin t =>
      simp only [wfE, Bool.and_eq_true, List.isEmpty_iff] at wf
      obtain ⟨hp, wf2⟩ := wf
      subst hp
      have hap : b.apply true (cntObs t .fin s) = .ok { b with resolved := [] } := by
        simp [MBook.apply, procObs, cntObs, ag.resolved]
      simp only [traceE, judgeMutex, hap]
      have hag : AgreeE ({ b with resolved := [] } : MBook) s [] := ⟨ag.holders, ag.blocked, rfl⟩
      rw [check_okE s _ [] _ inv hag rfl rfl]
      exact ih _ _ _ inv hag wf2

/-- a `got` the driver's pending list does not answer with `ok` is rejected by the judge -/
theorem got_bad (s : St) (b : MBook) (p : Pend) (t id : Nat) (hr : b.resolved = p) (h : (p.got t id).2 ≠ .ok) :
    ∃ e, b.apply true (cntObs t (.got id 0) s) = .error e := by
  unfold Pend.got at h
  cases hf : p.find? (·.1 == id) with
  | none => exact ⟨"mutex/grant/resumed-without-grant", by simp [MBook.apply, procObs, cntObs, hr, hf]⟩
  | some q =>
    simp only [hf] at h
    have hq : q.2 ≠ t := fun hq => h (by simp [hq])
    exact ⟨"mutex/wait/resumed-late", by simp [MBook.apply, procObs, cntObs, hr, hf, hq]⟩

/-- conversely the judge accepts ONLY well-formed schedules: `wfE` is exactly what it demands -/
theorem judge_modelE_conv (s : St) (b : MBook) (p : Pend) (cs : List Cmd) (inv : Inv s) (ag : AgreeE b s p)
    (hj : judgeMutex true b (traceE s p cs) = none) : wfE s p cs = true := by
  induction cs generalizing s b p with
  | nil => rfl
  | cons c cs ih =>
    cases c with
    | op t o =>
      obtain ⟨b', hap, hag, hinv⟩ := apply_stepE s b p t o inv ag
      simp only [traceE, judgeMutex, hap] at hj
      rw [check_okE (step s o).1 b' _ _ hinv hag rfl rfl] at hj
      simpa [wfE] using ih _ _ _ hinv hag hj
    | got t id =>
      by_cases hok : (p.got t id).2 = .ok
      · obtain ⟨q, hf, hq, hp⟩ := got_ok p t id hok
        have hap : b.apply true (cntObs t (.got id 0) s) = .ok { b with resolved := p.filter (·.1 != id) } := by
          simp [MBook.apply, procObs, cntObs, ag.resolved, hf, hq]
        have hag : AgreeE { b with resolved := p.filter (·.1 != id) } s (p.got t id).1 :=
          ⟨ag.holders, ag.blocked, hp.symm⟩
        simp only [traceE, judgeMutex, hap] at hj
        rw [check_okE s _ _ _ inv hag rfl rfl] at hj
        simp only [wfE, Bool.and_eq_true, decide_eq_true_eq]
        exact ⟨hok, ih _ _ _ inv hag hj⟩
      · obtain ⟨e, he⟩ := got_bad s b p t id ag.resolved hok
        simp [traceE, judgeMutex, he] at hj
    | fin t =>
      cases p with
      | nil =>
        have hap : b.apply true (cntObs t .fin s) = .ok { b with resolved := [] } := by
          simp [MBook.apply, procObs, cntObs, ag.resolved]
        simp only [traceE, judgeMutex, hap] at hj
        have hag : AgreeE ({ b with resolved := [] } : MBook) s [] := ⟨ag.holders, ag.blocked, rfl⟩
        rw [check_okE s _ [] _ inv hag rfl rfl] at hj
        simpa [wfE] using ih _ _ _ inv hag hj
      | cons q qs =>
        have hap : b.apply true (cntObs t .fin s) = .error "mutex/grant/never-resumed" := by
          simp [MBook.apply, procObs, cntObs, ag.resolved]
        simp [traceE, judgeMutex, hap] at hj

/-! ### every woken call resumes at once: the canonical engine schedule of a timed operation list -/

/-- each operation followed immediately by the `got` lines of the calls it made resumable -/
def immediate (s : St) : List (Nat × Op) → List Cmd
  | [] => []
  | (t, o) :: r => .op t o :: ((newlyOf o (step s o).2).map (Cmd.got t) ++ immediate (step s o).1 r)

theorem newly_le_one (s : St) (o : Op) :
    newlyOf o (step s o).2 = [] ∨ ∃ i, newlyOf o (step s o).2 = [i] := by
  cases o with
  | tryAcquire id => cases hl : s.locked <;> simp [newlyOf, step, hl]
  | acquire id => cases hl : s.locked <;> simp [newlyOf, Driver.newly, step, hl]
  | release =>
    cases hl : s.locked with
    | false => simp [newlyOf, step, hl]
    | true => cases hq : s.waiters <;> simp [newlyOf, step, hl, hq]

theorem immediate_wf (s : St) (ops : List (Nat × Op)) (tf : Nat) :
    wfE s [] (immediate s ops ++ [.fin tf]) = true := by
  induction ops generalizing s with
  | nil => simp [immediate, wfE]
  | cons c r ih =>
    obtain ⟨t, o⟩ := c
    simp only [immediate, List.cons_append, wfE]
    rcases newly_le_one s o with h | ⟨i, h⟩
    · rw [h]; simpa [Pend.add] using ih (step s o).1
    · rw [h]; simpa [Pend.add, Pend.got, wfE] using ih (step s o).1

/-! ### faithfulness: `traceE` is what the driver prints and the judge front-end reads back -/

def Cmd.line : Cmd → String
  | .op t (.acquire id) => s!"acq {t} {id}"
  | .op t (.tryAcquire id) => s!"try {t} {id}"
  | .op t .release => s!"rel {t}"
  | .got t id => s!"got {t} {id}"
  | .fin t => s!"fin {t}"

/-- `Driver.runMutex` on the rendered schedule, parsed and counter-filled as `Driver.judgeSync` does -/
def viaDriver (cs : List Cmd) : List Obs :=
  Driver.fillS 0 0 0 ((Driver.runMutex (cs.map Cmd.line)).filterMap (fun l => Driver.parseSObs false (Proto.toks l)))

def obsEq (a b : Obs) : Bool :=
  a.t == b.t && decide (a.k = b.k) && decide (a.res = b.res) && a.woke == b.woke
    && a.c1 == b.c1 && a.c2 == b.c2 && a.c3 == b.c3

def obsListEq : List Obs → List Obs → Bool
  | [], [] => true
  | a :: as, b :: bs => obsEq a b && obsListEq as bs
  | _, _ => false

/-- two workers contend, the release hands the lock to the second, which resumes at that clock value -/
def demo : List Cmd :=
  [.op 0 (.acquire 0), .got 0 0, .op 0 (.acquire 1), .op 5 (.tryAcquire 2), .op 7 .release, .got 7 1,
   .op 9 .release, .op 9 .release, .fin 9]

/-- the same, but the woken worker is seen resuming one tick late -/
def demoLate : List Cmd :=
  [.op 0 (.acquire 0), .got 0 0, .op 0 (.acquire 1), .op 7 .release, .got 8 1, .fin 9]

/-- a woken worker that never resumes, and one that resumes twice -/
def demoParked : List Cmd := [.op 0 (.acquire 0), .got 0 0, .op 0 (.acquire 1), .op 7 .release, .fin 9]
def demoTwice : List Cmd := [.op 0 (.acquire 0), .got 0 0, .got 0 0, .fin 9]

#guard obsListEq (viaDriver demo) (traceE {} [] demo)
#guard obsListEq (viaDriver demoLate) (traceE {} [] demoLate)
#guard obsListEq (viaDriver demoParked) (traceE {} [] demoParked)
#guard obsListEq (viaDriver demoTwice) (traceE {} [] demoTwice)
#guard obsListEq (viaDriver (immediate {} [(0, .acquire 0), (0, .acquire 1), (3, .release), (4, .release)] ++ [.fin 4]))
  (traceE {} [] (immediate {} [(0, .acquire 0), (0, .acquire 1), (3, .release), (4, .release)] ++ [.fin 4]))
#guard Driver.handle ["judge-mutex", "engine"] (Driver.handle ["mutex"] (demo.map Cmd.line)) == ["ok"]
#guard Driver.handle ["judge-mutex", "engine"] (Driver.handle ["mutex"] (demoLate.map Cmd.line)) == ["viol mutex/wait/resumed-late"]


end HappyModel.C09.Sync.Mutex

namespace HappyModel.C09
open Sync

/-- **engine mode**: for every well-formed schedule (every `got` line names a call that became
    resumable — granted at once or woken by a release — and has not resumed yet, at the clock value
    at which it became resumable; `fin` lines only when no resumable call is left parked) the judge
    in ENGINE mode accepts the Mutex model's own engine transcript: besides the direct-mode clauses
    (one holder, FIFO hand-off, head not grantable, counters) also the Pend-layer clauses — resumed
    only after a grant, exactly once, at the wake-up clock value, silently, nobody left parked -/
theorem mutex_engine_trace_satisfies_spec (cs : List Mutex.Cmd) (wf : Mutex.wfE {} [] cs = true) :
    judgeMutex true {} (Mutex.traceE {} [] cs) = none :=
  Mutex.judge_modelE {} {} [] cs ⟨by simp⟩ ⟨rfl, rfl, rfl⟩ wf

/-- the judge in engine mode accepts the model's engine transcript EXACTLY on the well-formed
    schedules — `wfE` is not stronger than what the judge demands -/
theorem mutex_engine_trace_accepts_iff (cs : List Mutex.Cmd) :
    judgeMutex true {} (Mutex.traceE {} [] cs) = none ↔ Mutex.wfE {} [] cs = true :=
  ⟨Mutex.judge_modelE_conv {} {} [] cs ⟨by simp⟩ ⟨rfl, rfl, rfl⟩, mutex_engine_trace_satisfies_spec cs⟩

/-- unconditional corollary: for EVERY timed operation list, the engine schedule in which each call
    that becomes resumable (granted at once, or woken by a release) resumes immediately after the
    line that made it resumable, closed by a `fin` line, is accepted by the engine-mode judge -/
theorem mutex_engine_immediate_resume_satisfies_spec (ops : List (Nat × Mutex.Op)) (tf : Nat) :
    judgeMutex true {} (Mutex.traceE {} [] (Mutex.immediate {} ops ++ [.fin tf])) = none :=
  mutex_engine_trace_satisfies_spec _ (Mutex.immediate_wf {} ops tf)


/-- non-vacuity: a concrete well-formed schedule with contention, a hand-off and its `got` line -/
example : Mutex.wfE {} [] Mutex.demo = true := by decide
example : judgeMutex true {} (Mutex.traceE {} [] Mutex.demo) = none := by decide
example : (Mutex.traceE {} [] Mutex.demo).map (·.woke) = [[], [], [], [], [1], [], [], [], []]
    ∧ (Mutex.traceE {} [] Mutex.demo).map (·.res)
      = [.granted, .ok, .queued, .refused, .released, .ok, .released, .errRuntime, .ok] := by decide
example : Mutex.immediate {} [(0, .acquire 0), (0, .acquire 1), (3, .release), (4, .release)]
    = [.op 0 (.acquire 0), .got 0 0, .op 0 (.acquire 1), .op 3 .release, .got 3 1, .op 4 .release] := by decide

/-- the engine-mode judge rejects: resumed late / never resumed / resumed twice -/
example : Mutex.wfE {} [] Mutex.demoLate = false
    ∧ judgeMutex true {} (Mutex.traceE {} [] Mutex.demoLate) = some "mutex/wait/resumed-late" := by decide
example : Mutex.wfE {} [] Mutex.demoParked = false
    ∧ judgeMutex true {} (Mutex.traceE {} [] Mutex.demoParked) = some "mutex/grant/never-resumed" := by decide
example : Mutex.wfE {} [] Mutex.demoTwice = false
    ∧ judgeMutex true {} (Mutex.traceE {} [] Mutex.demoTwice) = some "mutex/grant/resumed-without-grant" := by decide


end HappyModel.C09
