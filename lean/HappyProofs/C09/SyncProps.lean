import HappyProofs.C09.SemSpec
import HappyProofs.C09.RWSpec
import HappyProofs.C09.BarrierSpec
import HappyProofs.C09.CondSpec
/-!
# C09 — property theorems for Semaphore, RWLock, Barrier and Condition

Trace level: for every operation list, the executable Spec judge that is run on the implementation's
transcripts (`judgeSem`, `judgeRW`, `judgeBarrier`, `judgeCond` in `HappyModel/C09/SyncSpec.lean`)
returns `none` on the model's own transcript — so the clauses the judge checks (limit / exclusion,
conservation, FIFO wake-up, "head of the line is not grantable", counters) are theorems about the
model, and the differential check ties the model to the code.

Barrier and Condition clauses are in addition stated directly on the model.
-/
namespace HappyModel.C09
open Sync

/-! ## Semaphore -/

/-- the Semaphore model's observable trace satisfies the executable Spec predicate (0 ≤ permits out
    ≤ capacity, out + available = capacity, release never exceeds, FIFO wake-up, head not grantable,
    malformed counts rejected) for every capacity and every operation list -/
theorem semaphore_trace_satisfies_spec (cap : Int) (hcap : 0 < cap) (ops : List Sem.Op) :
    judgeSem cap false {} (Sem.obsTrace (Sem.St.init cap) ops) = none :=
  Sem.judge_model (Sem.St.init cap) {} ops (Sem.init_inv cap hcap) ⟨by simp [Sem.St.init], rfl, rfl⟩

example : judgeSem 3 false {} (Sem.obsTrace (Sem.St.init 3)
    [.acquire 0 2, .acquire 1 2, .acquire 2 1, .tryAcquire 3 1, .tryAcquire 4 5, .release 1, .release 1, .release 4,
     .acquire 5 0, .acquire 6 4, .release 2, .release 1, .release 1]) = none := by decide

/-- somebody really waits and is woken in that list -/
example : (Sem.step (Sem.run (Sem.St.init 3) [.acquire 0 2, .acquire 1 2, .acquire 2 1, .tryAcquire 3 1, .tryAcquire 4 5,
    .release 1]) (.release 1)).2.woke = [1] := by decide

/-- the judge rejects an over-admission … -/
example : judgeSem 2 false {} [⟨0, .acq 0 2 0, .granted, [], 0, 0, 0⟩, ⟨0, .acq 1 1 0, .granted, [], 0, 0, 0⟩]
    = some "semaphore/held/exceeds-capacity" := by decide

/-- … and a wake-up out of arrival order -/
example : judgeSem 1 false {} [⟨0, .acq 0 1 0, .granted, [], 0, 0, 0⟩, ⟨0, .acq 1 1 0, .queued, [], 0, 1, 0⟩,
    ⟨0, .acq 2 1 0, .queued, [], 0, 2, 0⟩, ⟨0, .rel 1 0, .released, [2], 0, 1, 0⟩]
    = some "semaphore/fifo/out-of-order" := by decide

/-! ## RWLock -/

/-- the RWLock model's observable trace satisfies the executable Spec predicate (one writer at most,
    a writer excludes all readers, readers ≤ max_readers, exclusion checked at every single
    hand-over of a wake-up, FIFO wake-up, head of the line not grantable) for every `max_readers`
    (`0` = unlimited) and every operation list -/
theorem rwlock_trace_satisfies_spec (maxR : Nat) (ops : List RW.Op) :
    judgeRW maxR false {} (RW.obsTrace { maxR := maxR } ops) = none :=
  RW.judge_model { maxR := maxR } {} ops (RW.init_inv maxR) ⟨rfl, rfl, rfl, rfl⟩

example : judgeRW 2 false {} (RW.obsTrace { maxR := 2 }
    [.acquireWrite 0, .acquireRead 1, .acquireRead 2, .acquireRead 3, .acquireWrite 4, .tryRead 5, .tryWrite 6,
     .releaseWrite, .releaseRead, .releaseRead, .releaseRead, .releaseRead, .releaseWrite, .releaseWrite]) = none := by decide

/-- in that list the writer's release wakes two readers together (`max_readers = 2`), the next
    reader follows when a slot frees, the queued writer when the last reader leaves -/
example : (RW.trace { maxR := 2 }
    [.acquireWrite 0, .acquireRead 1, .acquireRead 2, .acquireRead 3, .acquireWrite 4, .tryRead 5, .tryWrite 6,
     .releaseWrite, .releaseRead, .releaseRead, .releaseRead, .releaseRead, .releaseWrite, .releaseWrite]).map (·.2.woke)
    = [[], [], [], [], [], [], [], [1, 2], [3], [], [4], [], [], []] := by decide

/-- the judge rejects a reader admitted next to a writer -/
example : judgeRW 0 false {} [⟨0, .acq 0 1 1, .granted, [], 0, 0, 1⟩, ⟨0, .acq 1 1 0, .granted, [], 1, 0, 1⟩]
    = some "rwlock/read/granted-while-writer" := by decide

/-! ## Barrier -/

/-- the Barrier model's observable trace satisfies the executable Spec predicate (a `wait` blocks
    only while the cohort is incomplete, trips only when it is complete and then releases exactly the
    waiting parties in arrival order, fewer than `parties` are ever waiting, `reset`/`abort` flush
    everybody, a broken barrier rejects) for every number of parties and every operation list -/
theorem barrier_trace_satisfies_spec (parties : Nat) (hp : 0 < parties) (ops : List Barrier.Op) :
    judgeBarrier parties false {} (Barrier.obsTrace { parties := parties } ops) = none :=
  Barrier.judge_model { parties := parties } {} ops (Barrier.init_inv parties hp) ⟨rfl, rfl, rfl⟩

example : judgeBarrier 3 false {} (Barrier.obsTrace { parties := 3 }
    [.wait 0, .wait 1, .wait 2, .wait 3, .reset, .wait 4, .abort, .wait 5, .reset, .wait 6, .wait 7, .wait 8]) = none := by
  decide

/-- the judge rejects a barrier that lets a party through before the cohort is complete -/
example : judgeBarrier 3 false {} [⟨0, .acq 0 1 0, .queued, [], 1, 0, 0⟩, ⟨0, .acq 1 1 0, .passed, [0], 0, 1, 0⟩]
    = some "barrier/release/too-early" := by decide

/-- **a barrier releases exactly when the n-th party arrives**: in every reachable unbroken state a
    `wait` trips the barrier iff it is the `parties`-th arrival of the cohort; it then releases all
    waiting parties of the cohort, in arrival order, empties the line and starts the next generation;
    any earlier arrival is queued and releases nobody -/
theorem barrier_trips_exactly_at_nth_arrival (parties : Nat) (hp : 0 < parties) (ops : List Barrier.Op) (id : Nat)
    (hb : (Barrier.run { parties := parties } ops).broken = false) :
    let s := Barrier.run { parties := parties } ops
    let r := Barrier.step s (.wait id)
    (r.2.1.res = .passed ↔ s.waiters.length + 1 = parties) ∧
    (r.2.1.res = .queued ↔ s.waiters.length + 1 < parties) ∧
    (r.2.1.res = .passed → r.2.1.woke = s.waiters ∧ r.1.waiters = [] ∧ r.1.generation = s.generation + 1) ∧
    (r.2.1.res = .queued → r.2.1.woke = [] ∧ r.1.waiters = s.waiters ++ [id] ∧ r.1.generation = s.generation) := by
  intro s r
  have inv : s.waiters.length < s.parties := (Barrier.run_inv _ ops (Barrier.init_inv parties hp)).below
  have hpar : s.parties = parties := Barrier.run_parties _ ops
  have hr : r = Barrier.step s (.wait id) := rfl
  rw [Barrier.step_wait, if_neg (by rw [hb]; simp)] at hr
  by_cases hn : s.waiters.length + 1 ≥ s.parties
  · rw [if_pos hn] at hr; rw [hr]
    refine ⟨⟨fun _ => by omega, fun _ => rfl⟩, ⟨fun h => (by cases h), fun h => (by omega)⟩, fun _ => ⟨rfl, rfl, rfl⟩,
      fun h => (by cases h)⟩
  · rw [if_neg hn] at hr; rw [hr]
    refine ⟨⟨fun h => (by cases h), fun h => (by omega)⟩, ⟨fun _ => (by omega), fun _ => rfl⟩, fun h => (by cases h),
      fun _ => ⟨rfl, rfl, rfl⟩⟩

example : (Barrier.run { parties := 3 } [.wait 0, .wait 1]).broken = false
    ∧ (Barrier.step (Barrier.run { parties := 3 } [.wait 0, .wait 1]) (.wait 2)).2.1 = ⟨.passed, [0, 1]⟩
    ∧ (Barrier.step (Barrier.run { parties := 3 } [.wait 0]) (.wait 1)).2.1 = ⟨.queued, []⟩ := by decide

/-- **all parties of a generation together, generations do not mix**: the sequence of arrivals is
    cut into consecutive cohorts — it equals the released groups concatenated in release order,
    followed by the parties still waiting; every group released by a trip has exactly `parties`
    members (the whole cohort: its waiting members and the last arrival), so no party is released
    with another cohort, none is released twice and none is left behind; the generation counter
    counts the trips and resets (`reset` / `abort` flush the incomplete cohort as a group of its own) -/
theorem barrier_cohorts (parties : Nat) (hp : 0 < parties) (ops : List Barrier.Op) :
    Barrier.arrivals (Barrier.trace { parties := parties } ops)
      = (Barrier.groups (Barrier.trace { parties := parties } ops)).flatten ++ (Barrier.run { parties := parties } ops).waiters
    ∧ (∀ g ∈ Barrier.trips (Barrier.trace { parties := parties } ops), g.length = parties)
    ∧ (Barrier.run { parties := parties } ops).generation = Barrier.genSteps (Barrier.trace { parties := parties } ops) := by
  refine ⟨?_, Barrier.trips_full _ ops (Barrier.init_inv parties hp), ?_⟩
  · simpa using Barrier.cohort_ledger { parties := parties } ops
  · simpa using Barrier.generation_ledger { parties := parties } ops

example : Barrier.groups (Barrier.trace { parties := 2 } [.wait 0, .wait 1, .wait 2, .wait 3, .wait 4, .reset, .wait 5])
      = [[0, 1], [2, 3], [4]]
    ∧ Barrier.trips (Barrier.trace { parties := 2 } [.wait 0, .wait 1, .wait 2, .wait 3, .wait 4, .reset, .wait 5])
      = [[0, 1], [2, 3]]
    ∧ (Barrier.run { parties := 2 } [.wait 0, .wait 1, .wait 2, .wait 3, .wait 4, .reset, .wait 5]).waiters = [5]
    ∧ (Barrier.run { parties := 2 } [.wait 0, .wait 1, .wait 2, .wait 3, .wait 4, .reset, .wait 5]).generation = 3 := by decide

/-! ## Condition -/

/-- the Condition + Mutex model's observable trace satisfies the executable Spec predicate (the
    Mutex clauses; `wait` only with the lock held, releasing it with a FIFO hand-off; `notify(n)`
    wakes exactly the first n condition waiters in arrival order; a notified waiter goes through an
    ordinary mutex acquire) for every operation list -/
theorem condition_trace_satisfies_spec (ops : List Cond.Op) :
    judgeCond false {} (Cond.obsTrace {} ops) = none :=
  Cond.judge_model {} {} ops ⟨by simp⟩ ⟨⟨rfl, rfl, rfl⟩, rfl⟩

example : judgeCond false {} (Cond.obsTrace {}
    [.mutex (.acquire 0), .cwait 0, .mutex (.acquire 1), .cwait 1, .mutex (.acquire 2), .cwait 2, .cwait 9,
     .mutex (.acquire 3), .notify 1, .reacq 0, .notify 1000000, .reacq 1, .mutex .release, .reacq 2, .mutex .release,
     .mutex .release, .mutex .release, .mutex .release]) = none := by decide

/-- the judge rejects a `notify` that wakes the second waiter instead of the first -/
example : judgeCond false {} [⟨0, .acq 0 1 0, .granted, [], 1, 0, 0⟩, ⟨0, .acq 0 1 2, .queued, [], 0, 0, 1⟩,
    ⟨0, .acq 1 1 0, .granted, [], 1, 0, 1⟩, ⟨0, .acq 1 1 2, .queued, [], 0, 0, 2⟩, ⟨0, .ctl 1, .ok, [1], 0, 0, 1⟩]
    = some "condition/notify/wrong-waiters" := by decide

/-- **a condition wakes waiters in FIFO order**, each at most once and nobody is skipped: the calls
    notified so far, in wake-up order, followed by the calls still waiting on the condition are
    exactly the calls that started waiting, in arrival order -/
theorem condition_notify_fifo (ops : List Cond.Op) :
    Cond.cwaitIds (Cond.trace {} ops) = Cond.notifiedIds (Cond.trace {} ops) ++ (Cond.run {} ops).cw := by
  simpa using Cond.notify_ledger {} ops

example : Cond.notifiedIds (Cond.trace {} [.mutex (.acquire 0), .cwait 0, .mutex (.acquire 1), .cwait 1,
    .mutex (.acquire 2), .cwait 2, .notify 1, .notify 1]) = [0, 1]
  ∧ (Cond.run {} [.mutex (.acquire 0), .cwait 0, .mutex (.acquire 1), .cwait 1,
    .mutex (.acquire 2), .cwait 2, .notify 1, .notify 1]).cw = [2] := by decide

/-- **`notify` wakes at most one, `notify_all` all current waiters**: in every state `notify(n)`
    wakes exactly the first `min n (number waiting)` condition waiters, in arrival order, the others
    keep waiting in their order, and the mutex is not touched; so `notify()` (`n = 1`) wakes at most
    one — the longest-waiting — and `notify_all()` (any `n ≥` the number waiting) wakes all the
    current waiters and nobody who starts waiting later -/
theorem condition_notify_wakes_first_n (s : Cond.St) (n : Nat) :
    (Cond.step s (.notify n)).2.woke = s.cw.take n
    ∧ (Cond.step s (.notify n)).2.woke.length = min n s.cw.length
    ∧ (Cond.step s (.notify n)).1.cw = s.cw.drop n
    ∧ (Cond.step s (.notify n)).1.m = s.m
    ∧ (n = 1 → (Cond.step s (.notify n)).2.woke = s.cw.head?.toList)
    ∧ (s.cw.length ≤ n → (Cond.step s (.notify n)).2.woke = s.cw ∧ (Cond.step s (.notify n)).1.cw = []) := by
  rw [Cond.step_notify]
  refine ⟨rfl, by simp [List.length_take], rfl, rfl, ?_, ?_⟩
  · intro h; subst h; cases s.cw <;> simp
  · intro h; exact ⟨List.take_of_length_le h, List.drop_of_length_le h⟩

example : (Cond.step { cw := [4, 5, 6] } (.notify 1)).2.woke = [4]
    ∧ (Cond.step { cw := [4, 5, 6] } (.notify 1000000)).2.woke = [4, 5, 6]
    ∧ (Cond.step { cw := [] } (.notify 1)).2.woke = [] := by decide

/-- **a woken waiter re-acquires the mutex before returning**: the continuation of a notified
    `wait()` is an ordinary mutex acquire.  In every reachable state it is granted only if the mutex
    is free and then holds it; otherwise it queues at the tail of the mutex line (behind everybody
    already waiting there), and a caller that leaves that line — handed the lock by a `release` or by
    another `wait()` giving the lock up — leaves it with the mutex locked for it -/
theorem condition_woken_reacquires_mutex (ops : List Cond.Op) (id : Nat) :
    let s := Cond.run {} ops
    let r := Cond.step s (.reacq id)
    (r.2.res = .granted ∨ r.2.res = .queued) ∧
    (r.2.res = .granted → s.m.locked = false ∧ s.m.waiters = [] ∧ r.1.m.locked = true) ∧
    (r.2.res = .queued → s.m.locked = true ∧ r.1.m.waiters = s.m.waiters ++ [id] ∧ r.1.m.locked = true) ∧
    (∀ o, (o = .mutex .release ∨ ∃ j, o = .cwait j) → (Cond.step s o).2.woke ≠ [] →
        (Cond.step s o).2.woke = s.m.waiters.take 1 ∧ (Cond.step s o).1.m.locked = true) := by
  intro s r
  have inv : Mutex.Inv s.m := by
    have : ∀ (ops : List Cond.Op) (s0 : Cond.St), Mutex.Inv s0.m → Mutex.Inv (Cond.run s0 ops).m := by
      intro ops
      induction ops with
      | nil => intro s0 h; exact h
      | cons o os ih =>
        intro s0 h
        obtain ⟨_, _, _, hinv⟩ := Cond.apply_step s0 ⟨{ holders := Mutex.b01 s0.m.locked, blocked := s0.m.waiters }, s0.cw⟩ o h
          ⟨⟨rfl, rfl, rfl⟩, rfl⟩
        exact ih _ hinv
    exact this ops {} ⟨by simp⟩
  have hr : r = Cond.step s (.reacq id) := rfl
  rw [Cond.step_reacq] at hr
  refine ⟨?_, ?_, ?_, ?_⟩
  · rw [hr]; cases hl : s.m.locked <;> simp [Mutex.step, hl]
  · rw [hr]
    cases hl : s.m.locked with
    | true => simp [Mutex.step, hl]
    | false =>
      intro _
      refine ⟨rfl, ?_, by simp [Mutex.step, hl]⟩
      cases hq : s.m.waiters with
      | nil => rfl
      | cons w ws => have := inv.waitLocked (by rw [hq]; simp); rw [hl] at this; cases this
  · rw [hr]
    cases hl : s.m.locked with
    | true => intro _; simp [Mutex.step, hl]
    | false => simp [Mutex.step, hl]
  · intro o ho hw
    have key : (Mutex.step s.m .release).2.woke ≠ [] →
        (Mutex.step s.m .release).2.woke = s.m.waiters.take 1 ∧ (Mutex.step s.m .release).1.locked = true := by
      cases hl : s.m.locked with
      | false => simp [Mutex.step, hl]
      | true =>
        cases hq : s.m.waiters with
        | nil => simp [Mutex.step, hl, hq]
        | cons w ws => simp [Mutex.step, hl, hq]
    rcases ho with rfl | ⟨j, rfl⟩
    · rw [Cond.step_mutex] at hw ⊢; exact key hw
    · rw [Cond.step_cwait] at hw ⊢
      cases hl : s.m.locked with
      | false => simp [hl] at hw
      | true =>
        simp only [hl, Bool.not_true, Bool.false_eq_true, if_false] at hw ⊢
        exact key hw

example : (Cond.step (Cond.run {} [.mutex (.acquire 0), .cwait 0, .mutex (.acquire 1), .notify 1]) (.reacq 0)).2.res = .queued
    ∧ (Cond.step (Cond.run {} [.mutex (.acquire 0), .cwait 0, .mutex (.acquire 1), .notify 1, .reacq 0]) (.mutex .release)).2.woke = [0]
    ∧ (Cond.step (Cond.run {} [.mutex (.acquire 0), .cwait 0, .notify 1]) (.reacq 0)).2.res = .granted := by decide

end HappyModel.C09
