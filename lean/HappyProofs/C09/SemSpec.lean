import HappyProofs.C09.SyncInv
/-! The Semaphore model satisfies the executable Spec predicate `judgeSem` on every operation list:
the judge's own books (permits out, arrival-ordered blocked callers — kept from observations only)
coincide with the model state. -/
namespace HappyModel.C09.Sync.Sem

/-- what the model reports for an operation (`runSem` in the driver prints exactly these fields) -/
def obsOf (o : Op) (out : Out) (s' : St) : Obs :=
  { k := match o with
      | .tryAcquire id n => .try_ id n 0
      | .acquire id n => .acq id n 0
      | .release n => .rel n 0
    res := out.res, woke := out.woke, c1 := s'.count, c2 := s'.waiters.length }

/-- the model's observable trace -/
def obsTrace (s : St) : List Op → List Obs
  | [] => []
  | o :: os => obsOf o (step s o).2 (step s o).1 :: obsTrace (step s o).1 os

structure Agree (b : SBook) (s : St) : Prop where
  out : b.out = s.cap - s.count
  blocked : b.blocked = s.waiters
  resolved : b.resolved = []

theorem check_ok (s : St) (b : SBook) (o : Obs) (inv : Inv s) (ag : Agree b s)
    (h1 : o.c1 = s.count) (h2 : o.c2 = s.waiters.length) : b.check s.cap o = none := by
  have := inv.lo; have := inv.hi
  unfold SBook.check
  rw [ag.out, ag.blocked, h1, h2]
  rw [if_neg (by omega), if_neg (by omega), if_neg (by simp)]
  cases hq : s.waiters with
  | nil => rfl
  | cons w ws =>
    have := inv.headBlocked w ws hq
    simp only
    rw [if_neg (by omega)]

theorem wokeCheck_take (pfx : String) (l : List (Nat × Int)) (k : Nat) (hk : k ≤ l.length) :
    wokeCheck pfx (l.map (·.1)) ((l.take k).map (·.1)) = none := by
  unfold wokeCheck
  rw [if_pos]
  simp [List.length_take, Nat.min_eq_left hk, List.map_take]

/-- one operation: the judge accepts the model's observation and its books follow the model -/
theorem apply_step (s : St) (b : SBook) (o : Op) (inv : Inv s) (ag : Agree b s) :
    ∃ b', b.apply s.cap false (obsOf o (step s o).2 (step s o).1) = .ok b' ∧ Agree b' (step s o).1 := by
  have hlo := inv.lo; have hhi := inv.hi
  cases o with
  | tryAcquire id n =>
    simp only [obsOf]
    rw [step_tryAcquire]
    split
    · rename_i h1
      refine ⟨b, ?_, ag⟩
      simp only [SBook.apply, procObs]
      rw [if_neg (by omega)]
    · rename_i h1
      split
      · rename_i h2
        refine ⟨{ b with out := b.out + n }, ?_, ?_⟩
        · simp only [SBook.apply, procObs]
          rw [if_neg h1]
        · exact ⟨by show b.out + n = s.cap - (s.count - n); rw [ag.out]; omega, ag.blocked, ag.resolved⟩
      · rename_i h2
        refine ⟨b, ?_, ag⟩
        simp only [SBook.apply, procObs]
        rw [if_neg h1, ag.out, if_neg (by omega)]
  | acquire id n =>
    simp only [obsOf]
    rw [step_acquire]
    split
    · rename_i h1
      refine ⟨b, ?_, ag⟩
      simp only [SBook.apply, procObs]
      rw [if_neg (by omega)]
    · rename_i h1
      split
      · rename_i h3
        refine ⟨b, ?_, ag⟩
        simp only [SBook.apply, procObs]
        rw [if_neg (by omega)]
      · rename_i h3
        split
        · rename_i h2
          refine ⟨{ b with out := b.out + n }, ?_, ?_⟩
          · simp only [SBook.apply, procObs]
            rw [if_neg (by omega)]
            simp
          · exact ⟨by show b.out + n = s.cap - (s.count - n); rw [ag.out]; omega, ag.blocked, ag.resolved⟩
        · rename_i h2
          refine ⟨{ b with blocked := b.blocked ++ [(id, n)] }, ?_, ?_⟩
          · simp only [SBook.apply, procObs]
            rw [if_neg (by omega)]
          · exact ⟨ag.out, by show b.blocked ++ [(id, n)] = s.waiters ++ [(id, n)]; rw [ag.blocked], ag.resolved⟩
  | release n =>
    simp only [obsOf]
    rw [step_release]
    split
    · rename_i h1
      refine ⟨b, ?_, ag⟩
      simp only [SBook.apply, procObs]
      rw [if_neg (by omega)]
    · rename_i h1
      split
      · rename_i h2
        refine ⟨b, ?_, ag⟩
        simp only [SBook.apply, procObs]
        rw [ag.out, if_neg (by omega)]
      · rename_i h2
        have hk := _root_.HappyModel.C09.Res.wakeN_le_length (s.count + n) s.waiters
        have hlen : (List.map (fun x => x.fst) (List.take (wakeN (s.count + n) s.waiters) s.waiters)).length
            = wakeN (s.count + n) s.waiters := by
          simp only [List.length_map, List.length_take]; exact Nat.min_eq_left hk
        refine ⟨{ out := b.out - n + amtSum (b.blocked.take (wakeN (s.count + n) s.waiters)),
                  blocked := b.blocked.drop (wakeN (s.count + n) s.waiters), resolved := b.resolved }, ?_, ?_⟩
        · simp only [SBook.apply, procObs]
          rw [if_neg h1, ag.out, if_neg (by omega), ag.blocked, wokeCheck_take _ _ _ hk]
          simp only [hlen]
          rfl
        · refine ⟨?_, by show b.blocked.drop _ = s.waiters.drop _; rw [ag.blocked], ag.resolved⟩
          show b.out - n + amtSum (b.blocked.take _) = s.cap - (s.count + n - amtSum (s.waiters.take _))
          rw [ag.out, ag.blocked]; omega

theorem judge_model (s : St) (b : SBook) (ops : List Op) (inv : Inv s) (ag : Agree b s) :
    judgeSem s.cap false b (obsTrace s ops) = none := by
  induction ops generalizing s b with
  | nil => rfl
  | cons o os ih =>
    obtain ⟨b', hap, hag⟩ := apply_step s b o inv ag
    have inv' := step_inv s o inv
    simp only [obsTrace, judgeSem, hap]
    have hc := check_ok (step s o).1 b' (obsOf o (step s o).2 (step s o).1) inv' hag rfl rfl
    rw [step_cap] at hc
    rw [hc]
    have := ih (step s o).1 b' inv' hag
    rw [step_cap] at this
    exact this

end HappyModel.C09.Sync.Sem
