import HappyProofs.C09.PoolWf
/-! The repaired connection-pool model (`reserve = true`) satisfies the executable Spec predicate
`Pool.judge` — the one that judges implementation transcripts — on its own transcript, for every
schedule of generator segments the engine can produce (`SchedOk`). -/
namespace HappyModel.C09.Pool

/-- the books the judge keeps are a function of the model state and the queueing times -/
def bookOf (s : St) (since : List (Nat × Nat)) : Book :=
  { active := s.active, idle := s.idle, made := s.active.length + s.idle.length, inflight := s.creating,
    blocked := s.waiters, handed := s.handed, since := since }

theorem check_none (max : Nat) (b : Book) (o : Obs)
    (h1 : b.active.length ≤ max) (h2 : b.made + b.inflight ≤ max) (h3 : o.a = b.active.length)
    (h4 : o.i = b.idle.length) (h5 : o.n = b.made + b.inflight) (h6 : o.p = b.blocked.length)
    (h7 : b.active.length + b.idle.length = b.made)
    (h8 : b.blocked ≠ [] → b.idle = [] ∧ b.made + b.inflight = max) : b.check max o = none := by
  unfold Book.check
  rw [if_neg (by omega), if_neg (by omega), if_neg (fun h => h h3), if_neg (fun h => h h4),
    if_neg (fun h => h.1 h5), if_neg (fun h => h h6), if_neg (fun h => h h7)]
  rw [if_neg]
  intro h
  have hb : b.blocked ≠ [] := by
    intro e; have := h.1; rw [e] at this; simp at this
  obtain ⟨hi, ht⟩ := h8 hb
  rcases h.2 with h2 | h2
  · rw [hi] at h2; simp at h2
  · omega

theorem check_ok (s : St) (since : List (Nat × Nat)) (t : Nat) (o : Op) (r : Res) (inv : Inv s) :
    (bookOf s since).check s.max (obsOf t o r s) = none := by
  have hb := inv.bound
  have hc := inv.conserve
  apply check_none
  · show s.active.length ≤ s.max; omega
  · show s.active.length + s.idle.length + s.creating ≤ s.max; omega
  · rfl
  · rfl
  · show s.total = s.active.length + s.idle.length + s.creating; omega
  · rfl
  · rfl
  · intro h
    have := inv.head h
    exact ⟨this.1, by show s.active.length + s.idle.length + s.creating = s.max; omega⟩

/-- with distinct call ids in `handed`, removing "the entries of call `id`" (model) and removing the
    one reported pair (judge) are the same -/
theorem handed_filter_eq {l : List (Nat × Nat)} {id : Nat} {h : Nat × Nat} (hnd : (l.map (·.1)).Nodup)
    (hf : l.find? (·.1 == id) = some h) :
    l.filter (·.1 != id) = l.filter (· != (id, h.2)) ∧ l.contains (id, h.2) = true := by
  have hmem := List.mem_of_find?_eq_some hf
  have hid : h.1 = id := by simpa using List.find?_some hf
  have hpair : (id, h.2) = h := by rw [← hid]
  refine ⟨?_, ?_⟩
  · apply List.filter_congr
    intro x hx
    rw [hpair]
    by_cases hx1 : x.1 = id
    · have : x = h := by
        clear hf hpair
        induction l with
        | nil => cases hx
        | cons y ys ih =>
          rw [List.map_cons, List.nodup_cons] at hnd
          rcases List.mem_cons.1 hx with rfl | hx'
          · rcases List.mem_cons.1 hmem with e | hm'
            · exact e.symm
            · exact absurd (List.mem_map.2 ⟨h, hm', by rw [hid, hx1]⟩) hnd.1
          · rcases List.mem_cons.1 hmem with e | hm'
            · subst e
              exact absurd (List.mem_map.2 ⟨x, hx', by rw [hid, hx1]⟩) hnd.1
            · exact ih hnd.2 hm' hx'
      rw [this, hid]; simp
    · have hne : x ≠ h := fun e => hx1 (by rw [e, hid])
      rw [bne_iff_ne.2 hx1, bne_iff_ne.2 hne]
  · rw [hpair]; exact List.contains_iff_mem.2 hmem

/-- one schedule entry: the judge accepts the model's transcript line and its books follow the model -/
theorem apply_step (timeoutNs : Nat) (s : St) (since : List (Nat × Nat)) (t : Nat) (o : Op) (wf : Wf s)
    (hok : opOk timeoutNs s since t o = true) :
    (bookOf s since).apply timeoutNs (obsOf t o (step s o).2 (step s o).1)
      = .ok (bookOf (step s o).1 (sinceAfter s since t o)) := by
  simp only [opOk, Bool.and_eq_true, bne_iff_ne, ne_eq] at hok
  obtain ⟨hnb, hop⟩ := hok
  cases o with
  | acq id =>
    cases hi : s.idle with
    | cons c rest =>
      have hs : step s (.acq id) = ({ s with idle := rest, active := s.active ++ [c] }, .idle c) := by
        rw [step_acq, hi]
      have hnd := wf.idleNodup
      rw [hi] at hnd
      have hc := List.nodup_cons.1 hnd
      have hca : c ∉ s.active := wf.disj c (by rw [hi]; simp)
      have h1 : s.active.contains c = false := by
        cases hx : s.active.contains c with
        | false => rfl
        | true => exact absurd (List.contains_iff_mem.1 hx) hca
      have h3 : (c :: rest).filter (· != c) = rest := by
        rw [List.filter_cons]; simp only [bne_self_eq_false, Bool.false_eq_true, if_false]
        rw [List.filter_eq_self]; intro a ha
        have : a ≠ c := fun e => hc.1 (e ▸ ha)
        simpa using this
      simp only [sinceAfter, hs, Book.apply, obsOf, bookOf, hi, h1]
      simp only [List.contains_cons, BEq.rfl, Bool.true_or, Bool.not_true, Bool.false_eq_true, if_false, h3]
      simp only [List.length_append, List.length_cons, List.length_nil]
      congr 2; omega
    | nil =>
      by_cases hlt : s.total < s.max
      · have hs : step s (.acq id) =
            ({ s with creating := s.creating + 1, total := if s.reserve then s.total + 1 else s.total }, .creating) := by
          rw [step_acq, hi]; simp only [if_pos hlt]
        simp only [sinceAfter, hs, Book.apply, obsOf, bookOf, hi]
        simp
      · have hs : step s (.acq id) = ({ s with waiters := s.waiters ++ [id] }, .waiting) := by
          rw [step_acq, hi]; simp only [if_neg hlt]
        simp only [sinceAfter, hs, Book.apply, obsOf, bookOf, hi]
  | made id =>
    by_cases hcr : s.creating = 0
    · have hs : step s (.made id) = (s, .bad) := by rw [step_made, if_pos hcr]
      rw [hs] at hnb; exact absurd rfl hnb
    · have hs : step s (.made id) =
          ({ s with creating := s.creating - 1, nextConn := s.nextConn + 1,
                    total := if s.reserve then s.total else s.total + 1,
                    active := s.active ++ [s.nextConn + 1] }, .conn (s.nextConn + 1)) := by
        rw [step_made, if_neg hcr]
      have h1 : s.active.contains (s.nextConn + 1) = false := by
        cases hx : s.active.contains (s.nextConn + 1) with
        | false => rfl
        | true => have := wf.activeLe _ (List.contains_iff_mem.1 hx); omega
      have h2 : s.idle.contains (s.nextConn + 1) = false := by
        cases hx : s.idle.contains (s.nextConn + 1) with
        | false => rfl
        | true => have := wf.idleLe _ (List.contains_iff_mem.1 hx); omega
      simp only [sinceAfter, hs, Book.apply, obsOf, bookOf, h1, h2, if_neg hcr]
      simp only [Bool.false_eq_true, or_self, if_false, List.length_append, List.length_cons, List.length_nil]
      congr 2; omega
  | poll id =>
    cases hf : s.handed.find? (·.1 == id) with
    | none =>
      have hs : step s (.poll id) = (s, .wait) := by rw [step_poll, hf]
      simp only [sinceAfter, hs, Book.apply, obsOf, bookOf, hf]
      simp
    | some h =>
      have hs : step s (.poll id) = ({ s with handed := s.handed.filter (·.1 != id) }, .got h.2) := by
        rw [step_poll, hf]
      have hh := handed_filter_eq wf.handNodup hf
      simp only [sinceAfter, hs, Book.apply, obsOf, bookOf, hh.2, hh.1]
      simp
  | timeout id =>
    by_cases hb : (s.handed.find? (·.1 == id)).isSome
    · have hs : step s (.timeout id) = (s, .bad) := by rw [step_timeout, if_pos hb]
      rw [hs] at hnb; exact absurd rfl hnb
    · have hs : step s (.timeout id) = ({ s with waiters := s.waiters.filter (· != id) }, .timedOut) := by
        rw [step_timeout, if_neg hb]
      simp only [timerOk] at hop
      cases hsf : since.find? (·.1 == id) with
      | none => rw [hsf] at hop; cases hop
      | some st =>
        rw [hsf] at hop
        have hle : st.2 + timeoutNs ≤ t := by simpa using hop
        simp only [sinceAfter, hs, Book.apply, obsOf, bookOf, if_neg hb, hsf]
        rw [if_neg (by omega)]
  | rel c =>
    by_cases hact : (!s.active.contains c) = true
    · have hs : step s (.rel c) = (s, .unknown) := by rw [step_rel, if_pos hact]
      have : s.active.contains c = false := by simpa using hact
      simp only [sinceAfter, hs, Book.apply, obsOf, bookOf, this]
      simp
    · have hact' : s.active.contains c = true := by simpa using hact
      cases hq : s.waiters with
      | cons w ws =>
        have hs : step s (.rel c) = ({ s with waiters := ws, handed := s.handed ++ [(w, c)] }, .handoff w) := by
          rw [step_rel, if_neg hact, hq]
        simp only [sinceAfter, hs, Book.apply, obsOf, bookOf, hact', hq]
        simp
      | nil =>
        have hs : step s (.rel c) = ({ s with active := s.active.erase c, idle := s.idle ++ [c] }, .toIdle) := by
          rw [step_rel, if_neg hact, hq]
        have hmem : c ∈ s.active := List.contains_iff_mem.1 hact'
        have hlen := List.length_erase_of_mem hmem
        have hpos : 0 < s.active.length := List.length_pos_of_mem hmem
        simp only [sinceAfter, hs, Book.apply, obsOf, bookOf, hact', hq, ← wf.activeNodup.erase_eq_filter c]
        simp only [Bool.not_true, Bool.false_eq_true, if_false, List.isEmpty_nil, List.length_append,
          List.length_cons, List.length_nil, hlen]
        congr 2; omega

theorem judge_model (timeoutNs : Nat) (s : St) (since : List (Nat × Nat)) (sched : List (Nat × Op))
    (wf : Wf s) (hok : SchedOk timeoutNs s since sched = true) :
    judge s.max timeoutNs (bookOf s since) (obsTrace s sched) = none := by
  induction sched generalizing s since with
  | nil => rfl
  | cons e rest ih =>
    simp only [SchedOk, Bool.and_eq_true] at hok
    have hap := apply_step timeoutNs s since e.1 e.2 wf hok.1
    have hfresh : ∀ id, e.2 = .acq id → freshId s id = true := by
      intro id he
      have h := hok.1
      rw [he] at h
      simp only [opOk, Bool.and_eq_true] at h
      exact h.2
    have wf' := step_wf s e.2 wf hfresh
    have hck := check_ok (step s e.2).1 (sinceAfter s since e.1 e.2) e.1 e.2 (step s e.2).2 wf'.inv
    rw [step_max] at hck
    simp only [obsTrace, judge, hap, hck]
    have h := ih (step s e.2).1 _ wf' hok.2
    rw [step_max] at h
    exact h

end HappyModel.C09.Pool

namespace HappyModel.C09

/-- **The repaired pool model satisfies the executable Spec predicate**: on every schedule of
    generator segments the engine can produce, the judge that judges implementation transcripts
    accepts the model's own transcript (no over-admission, conservation, FIFO hand-off, nobody
    blocked while a connection could be had, time-outs only after the time-out). -/
theorem pool_trace_satisfies_spec (max timeoutNs : Nat) (sched : List (Nat × Pool.Op))
    (hok : Pool.SchedOk timeoutNs { max := max } [] sched = true) :
    Pool.judge max timeoutNs {} (Pool.obsTrace { max := max } sched) = none :=
  Pool.judge_model timeoutNs { max := max } [] sched (Pool.init_wf max) hok

/-! ### the statement on a concrete schedule (hypothesis included)

max 2, time-out 10: calls 0 and 1 start set-ups, calls 2 and 3 arrive during the set-ups and queue;
call 2 polls in vain, is handed connection 1 at its release and notices at its next poll; call 3 times
out; a connection goes back to idle and is taken again; a double release is answered `unknown`. -/
example : Pool.SchedOk 10 { max := 2 } []
      [(0, .acq 0), (0, .acq 1), (0, .acq 2), (0, .acq 3), (1, .made 0), (1, .made 1), (2, .poll 2), (3, .rel 1),
       (4, .poll 2), (10, .timeout 3), (11, .rel 2), (12, .acq 4), (13, .rel 1), (13, .rel 1), (14, .poll 3)] = true
    ∧ Pool.judge 2 10 {} (Pool.obsTrace { max := 2 }
      [(0, .acq 0), (0, .acq 1), (0, .acq 2), (0, .acq 3), (1, .made 0), (1, .made 1), (2, .poll 2), (3, .rel 1),
       (4, .poll 2), (10, .timeout 3), (11, .rel 2), (12, .acq 4), (13, .rel 1), (13, .rel 1), (14, .poll 3)]) = none := by
  decide

/-- what the model answered in that run -/
example : (Pool.obsTrace { max := 2 }
      [(0, .acq 0), (0, .acq 1), (0, .acq 2), (0, .acq 3), (1, .made 0), (1, .made 1), (2, .poll 2), (3, .rel 1),
       (4, .poll 2), (10, .timeout 3), (11, .rel 2), (12, .acq 4), (13, .rel 1), (13, .rel 1)]).map (·.res)
    = [.creating, .creating, .waiting, .waiting, .conn 1, .conn 2, .wait, .handoff 2, .got 1, .timedOut, .toIdle,
       .idle 2, .toIdle, .unknown] := by decide

/-! ### the judge is not vacuous -/

/-- the transcript of the unrepaired pool (two set-ups started with `max = 1`) is rejected -/
example : Pool.judge 1 10 {} [⟨0, .acq 0, .creating, 0, 0, 0, 0⟩, ⟨0, .acq 1, .creating, 0, 0, 0, 0⟩]
    = some "pool/total/exceeds-max" := by decide

/-- a release that hands the connection to the second waiter is rejected -/
example : Pool.judge 1 10 {} [⟨0, .acq 0, .creating, 0, 0, 1, 0⟩, ⟨1, .made 0, .conn 1, 1, 0, 1, 0⟩,
      ⟨2, .acq 1, .waiting, 1, 0, 1, 1⟩, ⟨2, .acq 2, .waiting, 1, 0, 1, 2⟩, ⟨3, .rel 1, .handoff 2, 1, 0, 1, 1⟩]
    = some "pool/fifo/out-of-order" := by decide

/-! ### each part of `SchedOk` is needed: schedules outside it on which the judge rejects the model -/

/-- (i) a call id re-used while the first call is still pending: both queue as `5`, both are handed a
    connection; the model's poll drops both hand-offs, the judge's only the reported pair -/
example : Pool.judge 2 10 {} (Pool.obsTrace { max := 2 }
      [(0, .acq 0), (0, .acq 1), (1, .made 0), (1, .made 1), (2, .acq 5), (2, .acq 5), (3, .rel 1), (3, .rel 2),
       (4, .poll 5), (5, .poll 5)]) = some "pool/grant/handoff-ignored" := by decide

/-- (ii) segments that do not exist: a set-up finishing that never started; a time-out in a call that
    was already handed a connection -/
example : Pool.judge 1 10 {} (Pool.obsTrace { max := 1 } [(0, .made 0)]) = some "pool/unknown-observation" := by
  decide
example : Pool.judge 1 10 {} (Pool.obsTrace { max := 1 }
      [(0, .acq 0), (1, .made 0), (2, .acq 1), (3, .rel 1), (20, .timeout 1)]) = some "pool/unknown-observation" := by
  decide

/-- (iii) the timer: a time-out in a call that never queued, and one before the time-out elapsed -/
example : Pool.judge 1 10 {} (Pool.obsTrace { max := 1 } [(0, .timeout 7)]) = some "pool/timeout/not-waiting" := by
  decide
example : Pool.judge 1 10 {} (Pool.obsTrace { max := 1 }
      [(0, .acq 0), (1, .made 0), (2, .acq 1), (5, .timeout 1)]) = some "pool/timeout/early" := by decide

/-- … while a second time-out line of the same call, a poll of a call that never queued, and a call id
    re-used after its first call is over are all fine -/
example : Pool.SchedOk 10 { max := 1 } []
      [(0, .acq 0), (1, .made 0), (2, .acq 1), (3, .poll 9), (12, .timeout 1), (13, .timeout 1), (14, .acq 1),
       (15, .rel 1), (16, .poll 1)] = true := by decide

end HappyModel.C09
