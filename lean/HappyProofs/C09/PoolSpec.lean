import HappyProofs.C09.PoolSpecA
/-! The repaired connection-pool model (`reserve = true`) satisfies the executable Spec predicate
`Pool.judge` — the one that judges implementation transcripts — on its own transcript, for every
schedule of generator segments the engine can produce (`SchedOk`), with all nine segments:
abandonment, idle-timeout checks and warm-up included. -/
namespace HappyModel.C09.Pool

variable (tn idn : Nat) (s : St) (since : List (Nat × Nat)) (slack : Bool)

theorem follows_abandon (id : Nat) (wf : Wf s) (hs : SlackOk s slack) :
    Follows tn idn s since slack (.abandon id) := by
  unfold Follows
  have hco : ConnOk s.idle s.active s.closed s.nextConn := wf.conn
  by_cases hcr : s.creators.contains id = true
  · have hst : step s (.abandon id) =
        ({ s with creating := s.creating - 1, creators := s.creators.erase id,
                  total := if s.reserve then s.total - 1 else s.total }, .rolledBack) := by
      rw [step_abandon, if_pos hcr]
    refine ⟨true, ?_, slack_true _⟩
    simp only [hst, sinceStep, Book.apply, obsOf, bookOf, hcr]
    simp
  · have hcr' : s.creators.contains id = false := by simpa using hcr
    cases hf : s.handed.find? (·.1 == id) with
    | some h =>
      by_cases hact : (!s.active.contains h.2) = true
      · have hst : step s (.abandon id) = ({ s with handed := s.handed.filter (·.1 != id) }, .nothing) := by
          rw [step_abandon, if_neg hcr, hf]; simp only [if_pos hact]
        have hact' : s.active.contains h.2 = false := by simpa using hact
        refine ⟨slack, ?_, ?_⟩
        · simp only [hst, sinceStep, Book.apply, obsOf, bookOf, hcr', hf, hact']
          simp
        · rw [hst]
          exact slack_mono hs (fun h => h) (fun h => h) (Nat.le_refl _) rfl
      · have hact' : s.active.contains h.2 = true := by simpa using hact
        cases hq : s.waiters with
        | cons w ws =>
          have hst : step s (.abandon id) =
              ({ s with waiters := ws, handed := s.handed.filter (·.1 != id) ++ [(w, h.2)] }, .handoff w) := by
            rw [step_abandon, if_neg hcr, hf]; simp only [if_neg hact]; rw [giveBack_eq]; simp only [hq]
          refine ⟨slack, ?_, ?_⟩
          · simp only [hst, sinceStep, Book.apply, Book.giveBack, obsOf, bookOf, hcr', hf, hact', hq]
            simp
          · rw [hst]
            exact slack_mono hs (fun _ => by rw [hq]; simp) (fun h => h) (Nat.le_refl _) rfl
        | nil =>
          have hst : step s (.abandon id) =
              ({ s with handed := s.handed.filter (·.1 != id), active := s.active.erase h.2,
                        idle := s.idle ++ [h.2], stamp := setStamp s.stamp h.2 s.now }, .toIdle) := by
            rw [step_abandon, if_neg hcr, hf]; simp only [if_neg hact]; rw [giveBack_eq]; simp only [hq]
          have hmem : h.2 ∈ s.active := List.contains_iff_mem.1 hact'
          have hlen := List.length_erase_of_mem hmem
          have hpos : 0 < s.active.length := List.length_pos_of_mem hmem
          refine ⟨slack, ?_, ?_⟩
          · simp only [hst, sinceStep, Book.apply, Book.giveBack, obsOf, bookOf, hcr', hf, hact', hq,
              ← hco.activeNodup.erase_eq_filter h.2]
            simp only [Bool.not_true, Bool.false_eq_true, if_false, List.isEmpty_nil, List.length_append,
              List.length_cons, List.length_nil, hlen]
            congr 2; omega
          · rw [hst]
            exact slack_nowait _ hq
    | none =>
      by_cases hw : s.waiters.contains id = true
      · have hst : step s (.abandon id) = ({ s with waiters := s.waiters.filter (· != id) }, .dequeued) := by
          rw [step_abandon, if_neg hcr, hf]; simp only [if_pos hw]
        refine ⟨slack, ?_, ?_⟩
        · simp only [hst, sinceStep, Book.apply, obsOf, bookOf, hcr', hf, hw]
          simp
        · rw [hst]
          refine slack_mono hs (fun h hq => h ?_) (fun h => h) (Nat.le_refl _) rfl
          show s.waiters.filter (· != id) = []
          rw [hq]; rfl
      · have hw' : s.waiters.contains id = false := by simpa using hw
        have hst : step s (.abandon id) = (s, .nothing) := by
          rw [step_abandon, if_neg hcr, hf]; simp only [if_neg hw]
        refine ⟨slack, ?_, ?_⟩
        · simp only [hst, sinceStep, Book.apply, obsOf, bookOf, hcr', hf, hw']
          simp
        · rw [hst]; exact hs

theorem follows_idleCheck (c e : Nat) (wf : Wf s) (hs : SlackOk s slack) (hdl : e + idn ≤ s.now) :
    Follows tn idn s since slack (.idleCheck c e) := by
  unfold Follows
  have hco : ConnOk s.idle s.active s.closed s.nextConn := wf.conn
  have hcons := wf.inv.conserve
  by_cases hcond : (s.idle.contains c && stampOf s.stamp c == some e) = true
  · by_cases hlt : s.min < s.total
    · have hst : step s (.idleCheck c e) =
          ({ s with idle := s.idle.erase c, total := s.total - 1, closed := s.closed ++ [c] }, .closed) := by
        rw [step_idleCheck, if_pos hcond, if_pos hlt]
      simp only [Bool.and_eq_true, beq_iff_eq] at hcond
      have hmem : c ∈ s.idle := List.contains_iff_mem.1 hcond.1
      have h1 : s.active.contains c = false := not_contains (hco.disj c hmem)
      have hlen := List.length_erase_of_mem hmem
      have hpos : 0 < s.idle.length := List.length_pos_of_mem hmem
      refine ⟨true, ?_, slack_true _⟩
      simp only [hst, sinceStep, Book.apply, obsOf, bookOf, h1, hcond.1, hcond.2,
        ← hco.idleNodup.erase_eq_filter c]
      rw [if_neg (by simp), if_neg (by simp), if_neg (by simp), if_neg (by omega), if_neg (by omega)]
      simp only [hlen]
      congr 2; omega
    · have hst : step s (.idleCheck c e) = (s, .kept) := by
        rw [step_idleCheck, if_pos hcond, if_neg hlt]
      refine ⟨slack, ?_, ?_⟩
      · simp only [hst, sinceStep, Book.apply, obsOf, bookOf]
      · rw [hst]; exact hs
  · have hst : step s (.idleCheck c e) = (s, .stale) := by
      rw [step_idleCheck, if_neg hcond]
    refine ⟨slack, ?_, ?_⟩
    · simp only [hst, sinceStep, Book.apply, obsOf, bookOf]
    · rw [hst]; exact hs

theorem follows_warm (wf : Wf s) (hs : SlackOk s slack) : Follows tn idn s since slack .warm := by
  unfold Follows
  by_cases hlt : s.total < s.min
  · have hst : step s .warm =
        ({ s with creating := s.creating + 1, wflight := s.wflight + 1,
                  total := if s.reserve then s.total + 1 else s.total }, .creating) := by
      rw [step_warm, if_pos hlt]
    refine ⟨slack, ?_, ?_⟩
    · simp only [hst, sinceStep, Book.apply, obsOf, bookOf]
    · rw [hst]
      refine slack_mono hs (fun h => h) (fun h => h) ?_ rfl
      show s.total ≤ if s.reserve then s.total + 1 else s.total
      rw [wf.inv.res]; exact Nat.le_succ _
  · have hst : step s .warm = (s, .done) := by rw [step_warm, if_neg hlt]
    refine ⟨slack, ?_, ?_⟩
    · simp only [hst, sinceStep, Book.apply, obsOf, bookOf]
    · rw [hst]; exact hs

theorem follows_wmade (wf : Wf s) (hnb : (step s .wmade).2 ≠ .bad) : Follows tn idn s since slack .wmade := by
  unfold Follows
  have hco : ConnOk s.idle s.active s.closed s.nextConn := wf.conn
  by_cases hw : s.wflight = 0
  · have hst : step s .wmade = (s, .bad) := by rw [step_wmade, if_pos hw]
    rw [hst] at hnb; exact absurd rfl hnb
  · have hst : step s .wmade =
        ({ s with creating := s.creating - 1, wflight := s.wflight - 1, nextConn := s.nextConn + 1,
                  total := if s.reserve then s.total else s.total + 1,
                  idle := s.idle ++ [s.nextConn + 1], stamp := setStamp s.stamp (s.nextConn + 1) s.now },
         .conn (s.nextConn + 1)) := by
      rw [step_wmade, if_neg hw]
    have hsp := wf.inv.split
    have h0 : ¬ s.creating = 0 := by omega
    have h1 : s.active.contains (s.nextConn + 1) = false :=
      not_contains (fun h => by have := hco.activeLe _ h; omega)
    have h2 : s.idle.contains (s.nextConn + 1) = false :=
      not_contains (fun h => by have := hco.idleLe _ h; omega)
    have h3 : s.closed.contains (s.nextConn + 1) = false :=
      not_contains (fun h => by have := hco.closedLe _ h; omega)
    refine ⟨true, ?_, slack_true _⟩
    simp only [hst, sinceStep, Book.apply, obsOf, bookOf, h1, h2, h3, hw, h0]
    simp only [decide_false, Bool.or_self, Bool.false_eq_true, or_self, if_false,
      List.length_append, List.length_cons, List.length_nil]
    congr 2

/-- one schedule entry: the judge accepts the model's transcript line and its books follow the model -/
theorem apply_step (s : St) (since : List (Nat × Nat)) (slack : Bool) (t : Nat) (o : Op) (wf : Wf s)
    (hs : SlackOk s slack) (hok : opOk tn idn s since t o = true) :
    ∃ slack', (bookOf s since slack).apply ⟨s.max, tn, s.min, idn⟩ (obsOf t o (stepAt s t o).2 (stepAt s t o).1)
        = .ok (bookOf (stepAt s t o).1 (sinceAfter s since t o) slack')
      ∧ SlackOk (stepAt s t o).1 slack' := by
  have wf' := wf_now t wf
  have hs' : SlackOk { s with now := t } slack := hs
  simp only [opOk, Bool.and_eq_true, bne_iff_ne, ne_eq] at hok
  obtain ⟨hnb, hop⟩ := hok
  cases o with
  | acq id => exact follows_acq tn idn { s with now := t } since slack id wf' hs'
  | made id => exact follows_made tn idn { s with now := t } since slack id wf' hs' hnb
  | poll id => exact follows_poll tn idn { s with now := t } since slack id wf' hs'
  | timeout id =>
    simp only [Bool.and_eq_true, Bool.not_eq_true'] at hop
    exact follows_timeout tn idn { s with now := t } since slack id wf' hs' hnb hop.1 hop.2
  | rel c => exact follows_rel tn idn { s with now := t } since slack c wf' hs'
  | abandon id => exact follows_abandon tn idn { s with now := t } since slack id wf' hs'
  | idleCheck c e =>
    have hdl : e + idn ≤ t := by simpa using hop
    exact follows_idleCheck tn idn { s with now := t } since slack c e wf' hs' hdl
  | warm => exact follows_warm tn idn { s with now := t } since slack wf' hs'
  | wmade => exact follows_wmade tn idn { s with now := t } since slack wf' hnb

theorem judge_model (s : St) (since : List (Nat × Nat)) (slack : Bool) (sched : List (Nat × Op))
    (wf : Wf s) (hs : SlackOk s slack) (hok : SchedOk tn idn s since sched = true) :
    judge ⟨s.max, tn, s.min, idn⟩ (bookOf s since slack) (obsTrace s sched) = none := by
  induction sched generalizing s since slack with
  | nil => rfl
  | cons e rest ih =>
    simp only [SchedOk, Bool.and_eq_true] at hok
    obtain ⟨slack', hap, hs'⟩ := apply_step tn idn s since slack e.1 e.2 wf hs hok.1
    have hfresh : ∀ id, e.2 = .acq id → freshId s id = true := by
      intro id he
      have h := hok.1
      rw [he] at h
      simp only [opOk, Bool.and_eq_true] at h
      exact h.2
    have wf' := stepAt_wf s e.1 e.2 wf hfresh
    have hck := check_ok (stepAt s e.1 e.2).1 (sinceAfter s since e.1 e.2) slack' e.1 e.2 (stepAt s e.1 e.2).2
      wf'.inv hs'
    have hmax : (stepAt s e.1 e.2).1.max = s.max := step_max _ _
    have hmin : (stepAt s e.1 e.2).1.min = s.min := step_min _ _
    rw [hmax] at hck
    simp only [obsTrace, judge, hap, hck]
    have h := ih (stepAt s e.1 e.2).1 _ slack' wf' hs' hok.2
    rw [hmax, hmin] at h
    exact h

end HappyModel.C09.Pool

namespace HappyModel.C09

/-- **The repaired pool model satisfies the executable Spec predicate**: on every schedule of
    generator segments the engine can produce (`Pool.SchedOk`, see `Pool.opOk` for its four clauses),
    the judge that judges implementation transcripts accepts the model's own transcript — no
    over-admission, conservation, FIFO hand-off, nobody blocked while a connection could be had (the
    first waiter helps itself at its next poll), time-outs only after the time-out, an abandoned
    acquirer leaks neither slot nor connection, idle closes only of a connection idle long enough and
    above `min_connections`, warm-up within the bound. -/
theorem pool_trace_satisfies_spec (max timeoutNs min idleNs : Nat) (hmin : min ≤ max)
    (sched : List (Nat × Pool.Op))
    (hok : Pool.SchedOk timeoutNs idleNs { max := max, min := min } [] sched = true) :
    Pool.judge { max := max, timeoutNs := timeoutNs, min := min, idleNs := idleNs } {}
      (Pool.obsTrace { max := max, min := min } sched) = none :=
  Pool.judge_model timeoutNs idleNs { max := max, min := min } [] false sched (Pool.init_wf max min hmin)
    (Pool.slack_nowait _ rfl) hok

/-! ### the statement on concrete schedules (hypothesis included)

max 2, min 1, time-out 10, idle time-out 5.  Warm-up opens connection 1 and stops; call 0 takes it, call 1
starts a set-up, calls 2 and 3 queue; call 1 is abandoned (its slot comes back), call 2 — the first
waiter — helps itself at its next poll and opens connection 2; call 3 polls in vain, is handed
connection 1 at its release and is abandoned before it notices: the connection goes to the idle list.
The idle timer of connection 1 closes it (above `min`), the one of connection 2 keeps it (at `min`), a
timer of an earlier idle session is stale.  Call 6 queues at the maximum and times out. -/
example : Pool.SchedOk 10 5 { max := 2, min := 1 } []
      [(0, .warm), (1, .wmade), (1, .warm), (2, .acq 0), (2, .acq 1), (2, .acq 2), (2, .acq 3), (3, .abandon 1),
       (4, .poll 2), (5, .made 2), (6, .poll 3), (7, .rel 1), (8, .abandon 3), (9, .rel 2), (13, .idleCheck 1 8),
       (14, .idleCheck 2 9), (15, .idleCheck 1 1), (16, .acq 4), (16, .acq 5), (16, .acq 6), (17, .made 5),
       (26, .timeout 6), (27, .abandon 9)] = true
    ∧ Pool.judge { max := 2, timeoutNs := 10, min := 1, idleNs := 5 } {} (Pool.obsTrace { max := 2, min := 1 }
      [(0, .warm), (1, .wmade), (1, .warm), (2, .acq 0), (2, .acq 1), (2, .acq 2), (2, .acq 3), (3, .abandon 1),
       (4, .poll 2), (5, .made 2), (6, .poll 3), (7, .rel 1), (8, .abandon 3), (9, .rel 2), (13, .idleCheck 1 8),
       (14, .idleCheck 2 9), (15, .idleCheck 1 1), (16, .acq 4), (16, .acq 5), (16, .acq 6), (17, .made 5),
       (26, .timeout 6), (27, .abandon 9)]) = none := by
  decide

/-- what the model answered in that run -/
example : (Pool.obsTrace { max := 2, min := 1 }
      [(0, .warm), (1, .wmade), (1, .warm), (2, .acq 0), (2, .acq 1), (2, .acq 2), (2, .acq 3), (3, .abandon 1),
       (4, .poll 2), (5, .made 2), (6, .poll 3), (7, .rel 1), (8, .abandon 3), (9, .rel 2), (13, .idleCheck 1 8),
       (14, .idleCheck 2 9), (15, .idleCheck 1 1), (16, .acq 4), (16, .acq 5), (16, .acq 6), (17, .made 5),
       (26, .timeout 6), (27, .abandon 9)]).map (·.res)
    = [.creating, .conn 1, .done, .idle 1, .creating, .waiting, .waiting, .rolledBack, .creating, .conn 2, .wait,
       .handoff 3, .toIdle, .toIdle, .closed, .kept, .stale, .idle 2, .creating, .waiting, .conn 3, .timedOut,
       .nothing] := by decide

/-- max 2, min 2: warm-up parks its connection behind the queue; call 2 (second in line) polls in vain,
    call 1 (first in line) takes the parked connection at its next poll; call 2 is abandoned in the queue -/
example : Pool.SchedOk 10 5 { max := 2, min := 2 } []
      [(0, .warm), (0, .acq 0), (0, .acq 1), (0, .acq 2), (1, .wmade), (2, .poll 2), (2, .poll 1), (3, .made 0),
       (4, .abandon 2), (5, .warm)] = true
    ∧ Pool.judge { max := 2, timeoutNs := 10, min := 2, idleNs := 5 } {} (Pool.obsTrace { max := 2, min := 2 }
      [(0, .warm), (0, .acq 0), (0, .acq 1), (0, .acq 2), (1, .wmade), (2, .poll 2), (2, .poll 1), (3, .made 0),
       (4, .abandon 2), (5, .warm)]) = none
    ∧ (Pool.obsTrace { max := 2, min := 2 }
      [(0, .warm), (0, .acq 0), (0, .acq 1), (0, .acq 2), (1, .wmade), (2, .poll 2), (2, .poll 1), (3, .made 0),
       (4, .abandon 2), (5, .warm)]).map (·.res)
      = [.creating, .creating, .waiting, .waiting, .conn 1, .wait, .idle 1, .conn 2, .dequeued, .done] := by
  decide

/-- the classic schedule (max 2, time-out 10, no warm-up, no idle timer): calls 0 and 1 start set-ups,
    calls 2 and 3 queue; call 2 polls in vain, is handed connection 1 at its release and notices at its next
    poll; call 3 times out; a connection goes back to idle and is taken again; a double release is answered
    `unknown` -/
example : Pool.SchedOk 10 0 { max := 2 } []
      [(0, .acq 0), (0, .acq 1), (0, .acq 2), (0, .acq 3), (1, .made 0), (1, .made 1), (2, .poll 2), (3, .rel 1),
       (4, .poll 2), (10, .timeout 3), (11, .rel 2), (12, .acq 4), (13, .rel 1), (13, .rel 1), (14, .poll 3)] = true
    ∧ Pool.judge { max := 2, timeoutNs := 10 } {} (Pool.obsTrace { max := 2 }
      [(0, .acq 0), (0, .acq 1), (0, .acq 2), (0, .acq 3), (1, .made 0), (1, .made 1), (2, .poll 2), (3, .rel 1),
       (4, .poll 2), (10, .timeout 3), (11, .rel 2), (12, .acq 4), (13, .rel 1), (13, .rel 1), (14, .poll 3)]) = none := by
  decide

/-! ### the judge is not vacuous -/

/-- the transcript of the unrepaired pool (two set-ups started with `max = 1`) is rejected -/
example : Pool.judge { max := 1, timeoutNs := 10 } {}
      [⟨0, .acq 0, .creating, 0, 0, 0, 0⟩, ⟨0, .acq 1, .creating, 0, 0, 0, 0⟩]
    = some "pool/total/exceeds-max" := by decide

/-- a release that hands the connection to the second waiter is rejected -/
example : Pool.judge { max := 1, timeoutNs := 10 } {}
      [⟨0, .acq 0, .creating, 0, 0, 1, 0⟩, ⟨1, .made 0, .conn 1, 1, 0, 1, 0⟩,
       ⟨2, .acq 1, .waiting, 1, 0, 1, 1⟩, ⟨2, .acq 2, .waiting, 1, 0, 1, 2⟩, ⟨3, .rel 1, .handoff 2, 1, 0, 1, 1⟩]
    = some "pool/fifo/out-of-order" := by decide

/-- an abandoned set-up whose slot does not come back is rejected -/
example : Pool.judge { max := 1, timeoutNs := 10 } {}
      [⟨0, .acq 0, .creating, 0, 0, 1, 0⟩, ⟨1, .abandon 0, .nothing, 0, 0, 1, 0⟩]
    = some "pool/abandon/slot-leaked" := by decide

/-- a first waiter that keeps waiting at its poll although a slot came back is rejected -/
example : Pool.judge { max := 1, timeoutNs := 10 } {}
      [⟨0, .acq 0, .creating, 0, 0, 1, 0⟩, ⟨0, .acq 1, .waiting, 0, 0, 1, 1⟩, ⟨1, .abandon 0, .rolledBack, 0, 0, 0, 1⟩,
       ⟨2, .poll 1, .wait, 0, 0, 0, 1⟩]
    = some "pool/head/grantable-but-blocked" := by decide

/-! ### each part of `SchedOk` is needed: schedules outside it on which the judge rejects the model -/

/-- (i) a call id re-used while the first call is still pending: both queue as `5`, both are handed a
    connection; the model's poll drops both hand-offs, the judge's only the reported pair -/
example : Pool.judge { max := 2, timeoutNs := 10 } {} (Pool.obsTrace { max := 2 }
      [(0, .acq 0), (0, .acq 1), (1, .made 0), (1, .made 1), (2, .acq 5), (2, .acq 5), (3, .rel 1), (3, .rel 2),
       (4, .poll 5), (5, .poll 5)]) = some "pool/grant/handoff-ignored" := by decide

/-- (ii) segments that do not exist: a set-up finishing that never started (for an acquirer, for warm-up);
    a time-out in a call that was already handed a connection -/
example : Pool.judge { max := 1, timeoutNs := 10 } {} (Pool.obsTrace { max := 1 } [(0, .made 0)])
    = some "pool/unknown-observation" := by decide
example : Pool.judge { max := 1, timeoutNs := 10 } {} (Pool.obsTrace { max := 1 } [(0, .wmade)])
    = some "pool/unknown-observation" := by decide
example : Pool.judge { max := 1, timeoutNs := 10 } {} (Pool.obsTrace { max := 1 }
      [(0, .acq 0), (1, .made 0), (2, .acq 1), (3, .rel 1), (20, .timeout 1)]) = some "pool/unknown-observation" := by
  decide

/-- (iii) the timer: a time-out in a call that never queued, one before the time-out elapsed, and one in
    the first waiter although a slot came back (the real acquirer polls before it looks at its deadline) -/
example : Pool.judge { max := 1, timeoutNs := 10 } {} (Pool.obsTrace { max := 1 } [(0, .timeout 7)])
    = some "pool/timeout/not-waiting" := by decide
example : Pool.judge { max := 1, timeoutNs := 10 } {} (Pool.obsTrace { max := 1 }
      [(0, .acq 0), (1, .made 0), (2, .acq 1), (5, .timeout 1)]) = some "pool/timeout/early" := by decide
example : Pool.judge { max := 1, timeoutNs := 10 } {} (Pool.obsTrace { max := 1 }
      [(0, .acq 0), (0, .acq 1), (1, .abandon 0), (20, .timeout 1)]) = some "pool/timeout/although-grantable" := by
  decide

/-- (iv) the idle timer: an idle-timeout event delivered before the idle time-out elapsed -/
example : Pool.judge { max := 1, timeoutNs := 10, idleNs := 5 } {} (Pool.obsTrace { max := 1 }
      [(0, .acq 0), (1, .made 0), (2, .rel 1), (3, .idleCheck 1 2)]) = some "pool/close/early" := by decide

/-- … while a second time-out line of the same call, a poll of a call that never queued, and a call id
    re-used after its first call is over are all fine -/
example : Pool.SchedOk 10 0 { max := 1 } []
      [(0, .acq 0), (1, .made 0), (2, .acq 1), (3, .poll 9), (12, .timeout 1), (13, .timeout 1), (14, .acq 1),
       (15, .rel 1), (16, .poll 1)] = true := by decide

end HappyModel.C09
