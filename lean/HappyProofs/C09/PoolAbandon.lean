import HappyProofs.C09.PoolInv
import HappyProofs.C09.PoolHead
/-! Theorems about the segments added to the connection-pool model: abandonment of an acquirer,
idle-timeout closes, warm-up, and the first waiter helping itself.  Every theorem is followed by a
concrete instance that shows its hypotheses are satisfiable on a non-trivial state. -/
namespace HappyModel.C09.Pool

/-! ### a. an abandoned set-up gives its slot back -/

theorem pool_abandon_returns_slot (s : St) (id : Nat) (inv : Inv s) (h : s.creators.contains id = true) :
    (step s (.abandon id)).2 = .rolledBack
    ∧ (step s (.abandon id)).1.total + 1 = s.total
    ∧ (step s (.abandon id)).1.creating + 1 = s.creating
    ∧ (step s (.abandon id)).1.active = s.active
    ∧ (step s (.abandon id)).1.idle = s.idle := by
  obtain ⟨_, hpos⟩ := creators_pos h
  have hres := inv.res
  have hc := inv.conserve
  have hs := inv.split
  rw [step_abandon, if_pos h]
  refine ⟨rfl, ?_, ?_, rfl, rfl⟩
  · simp only [hres, if_true]; omega
  · show s.creating - 1 + 1 = s.creating
    omega

example : (run { max := 2 } [.acq 0, .made 0, .acq 1]).creators.contains 1 = true
    ∧ (run { max := 2 } [.acq 0, .made 0, .acq 1]).total = 2
    ∧ (step (run { max := 2 } [.acq 0, .made 0, .acq 1]) (.abandon 1)).2 = .rolledBack
    ∧ (step (run { max := 2 } [.acq 0, .made 0, .acq 1]) (.abandon 1)).1.total = 1
    ∧ (step (run { max := 2 } [.acq 0, .made 0, .acq 1]) (.abandon 1)).1.active = [1] := by decide

/-! ### b. conservation and bound for every interleaving of all nine segments

Both hold on every op list whatsoever (abandonments, idle closes, warm-up, double releases). -/

theorem pool_total_le_max_all_ops (max min : Nat) (h : min ≤ max) (ops : List Op) :
    (run { max := max, min := min } ops).total ≤ max := by
  have := (run_inv0 _ ops (init_inv' max min h).inv0).bound
  rw [run_max] at this
  exact this

theorem pool_total_le_max_all_ops_at (max min : Nat) (h : min ≤ max) (ops : List (Nat × Op)) :
    (runAt { max := max, min := min } ops).total ≤ max := by
  have := (runAt_inv0 _ ops (init_inv' max min h).inv0).bound
  rw [runAt_max] at this
  exact this

theorem pool_no_leak_all_ops (max min : Nat) (h : min ≤ max) (ops : List Op) :
    (run { max := max, min := min } ops).active.length + (run { max := max, min := min } ops).idle.length
        + (run { max := max, min := min } ops).creators.length + (run { max := max, min := min } ops).wflight
      = (run { max := max, min := min } ops).total
    ∧ (run { max := max, min := min } ops).total ≤ max := by
  have inv := run_inv _ ops (init_inv' max min h)
  have hc := inv.conserve
  have hs := inv.split
  exact ⟨by omega, pool_total_le_max_all_ops max min h ops⟩

theorem pool_no_leak_all_ops_at (max min : Nat) (h : min ≤ max) (ops : List (Nat × Op)) :
    (runAt { max := max, min := min } ops).active.length + (runAt { max := max, min := min } ops).idle.length
        + (runAt { max := max, min := min } ops).creators.length + (runAt { max := max, min := min } ops).wflight
      = (runAt { max := max, min := min } ops).total
    ∧ (runAt { max := max, min := min } ops).total ≤ max := by
  have inv := runAt_inv _ ops (init_inv' max min h)
  have hc := inv.conserve
  have hs := inv.split
  exact ⟨by omega, pool_total_le_max_all_ops_at max min h ops⟩

/-- an op list with all nine segments -/
example : (run { max := 2, min := 1 }
      [.warm, .wmade, .warm, .acq 0, .acq 1, .acq 2, .abandon 1, .poll 2, .made 2, .rel 1, .acq 3, .rel 2,
       .abandon 3, .idleCheck 2 0, .timeout 9]).idle = []
    ∧ (run { max := 2, min := 1 }
      [.warm, .wmade, .warm, .acq 0, .acq 1, .acq 2, .abandon 1, .poll 2, .made 2, .rel 1, .acq 3, .rel 2,
       .abandon 3, .idleCheck 2 0, .timeout 9]).total = 1 := by decide

/-- the corner that needs the `active` test of `release()`: connection 1 is released twice while call 1
    has not yet noticed the hand-off; the abandoned call must not park it in the idle list a second time -/
example : (step (run { max := 1 } [.acq 0, .made 0, .acq 1, .rel 1, .rel 1]) (.abandon 1)).2 = .nothing
    ∧ (run { max := 1 } [.acq 0, .made 0, .acq 1, .rel 1, .rel 1, .abandon 1]).idle = [1]
    ∧ (run { max := 1 } [.acq 0, .made 0, .acq 1, .rel 1, .rel 1, .abandon 1]).handed = []
    ∧ (run { max := 1 } [.acq 0, .made 0, .acq 1, .rel 1, .rel 1, .abandon 1]).total = 1 := by decide

/-! ### c. the first waiter takes capacity that came back without a release -/

theorem pool_head_helps_itself (s : St) (id : Nat) (hh : s.waiters.head? = some id)
    (hn : s.handed.find? (·.1 == id) = none) (hf : s.idle ≠ [] ∨ s.total < s.max) :
    (step s (.poll id)).2 ≠ .wait ∧ (step s (.poll id)).1.waiters = s.waiters.tail := by
  have hb : (s.waiters.head? != some id) = false := by rw [hh]; simp
  rw [step_poll, hn]
  simp only [hb]
  cases hi : s.idle with
  | cons c rest => exact ⟨by simp, rfl⟩
  | nil =>
    have hlt : s.total < s.max := by
      rcases hf with hf | hf
      · exact absurd hi hf
      · exact hf
    simp only [Bool.false_eq_true, if_false, if_pos hlt]
    exact ⟨by simp, rfl⟩

example : (run { max := 1 } [.acq 0, .acq 1, .acq 2, .abandon 0]).waiters.head? = some 1
    ∧ (run { max := 1 } [.acq 0, .acq 1, .acq 2, .abandon 0]).total < 1
    ∧ (step (run { max := 1 } [.acq 0, .acq 1, .acq 2, .abandon 0]) (.poll 1)).2 = .creating
    ∧ (step (run { max := 1 } [.acq 0, .acq 1, .acq 2, .abandon 0]) (.poll 1)).1.waiters = [2] := by decide

/-! ### d. an abandoned queued call leaves the queue -/

theorem pool_abandoned_waiter_leaves (s : St) (id : Nat) (hc : s.creators.contains id = false)
    (hn : s.handed.find? (·.1 == id) = none) : id ∉ (step s (.abandon id)).1.waiters := by
  rw [step_abandon, hn]
  simp only [hc, Bool.false_eq_true, if_false]
  split
  · intro hm
    have hm' : id ∈ s.waiters.filter (· != id) := hm
    have := (List.mem_filter.1 hm').2
    simp at this
  · rename_i hw
    intro hm
    exact hw (List.contains_iff_mem.2 hm)

example : 1 ∈ (run { max := 1 } [.acq 0, .acq 1, .acq 2]).waiters
    ∧ (step (run { max := 1 } [.acq 0, .acq 1, .acq 2]) (.abandon 1)).2 = .dequeued
    ∧ (step (run { max := 1 } [.acq 0, .acq 1, .acq 2]) (.abandon 1)).1.waiters = [2] := by decide

/-! ### e. a connection handed to an abandoned call is passed on -/

theorem filter_ne_fst (l : List (Nat × Nat)) (id : Nat) : ∀ p ∈ l.filter (·.1 != id), p.1 ≠ id := by
  intro p hp
  simpa using (List.mem_filter.1 hp).2

theorem pool_abandoned_handoff_passed_on (s : St) (id c : Nat) (hc : s.creators.contains id = false)
    (hh : s.handed.find? (·.1 == id) = some (id, c)) (ha : s.active.contains c = true) :
    (∃ w ws, s.waiters = w :: ws
        ∧ (step s (.abandon id)).2 = .handoff w
        ∧ (step s (.abandon id)).1.waiters = ws
        ∧ (step s (.abandon id)).1.handed = s.handed.filter (·.1 != id) ++ [(w, c)]
        ∧ (w, c) ∈ (step s (.abandon id)).1.handed
        ∧ (step s (.abandon id)).1.active = s.active
        ∧ ∀ p ∈ (step s (.abandon id)).1.handed, p.1 = id → p = (w, c))
    ∨ (s.waiters = []
        ∧ (step s (.abandon id)).2 = .toIdle
        ∧ c ∈ (step s (.abandon id)).1.idle
        ∧ (step s (.abandon id)).1.handed = s.handed.filter (·.1 != id)
        ∧ ∀ p ∈ (step s (.abandon id)).1.handed, p.1 ≠ id) := by
  rw [step_abandon, hh]
  simp only [hc, ha, Bool.not_true, Bool.false_eq_true, if_false]
  rw [giveBack_eq]
  cases hq : s.waiters with
  | cons w ws =>
    refine .inl ⟨w, ws, rfl, rfl, rfl, rfl, ?_, rfl, ?_⟩
    · show (w, c) ∈ s.handed.filter (·.1 != id) ++ [(w, c)]
      simp
    · intro p hp he
      have hp' : p ∈ s.handed.filter (·.1 != id) ++ [(w, c)] := hp
      rcases List.mem_append.1 hp' with h | h
      · exact absurd he (filter_ne_fst _ _ p h)
      · simpa using h
  | nil =>
    refine .inr ⟨rfl, rfl, ?_, rfl, ?_⟩
    · show c ∈ s.idle ++ [c]
      simp
    · exact filter_ne_fst _ _

example : (run { max := 1 } [.acq 0, .made 0, .acq 1, .acq 2, .rel 1]).handed.find? (·.1 == 1) = some (1, 1)
    ∧ (step (run { max := 1 } [.acq 0, .made 0, .acq 1, .acq 2, .rel 1]) (.abandon 1)).2 = .handoff 2
    ∧ (step (run { max := 1 } [.acq 0, .made 0, .acq 1, .acq 2, .rel 1]) (.abandon 1)).1.handed = [(2, 1)]
    ∧ (step (run { max := 1 } [.acq 0, .made 0, .acq 1, .rel 1]) (.abandon 1)).2 = .toIdle
    ∧ (step (run { max := 1 } [.acq 0, .made 0, .acq 1, .rel 1]) (.abandon 1)).1.idle = [1]
    ∧ (step (run { max := 1 } [.acq 0, .made 0, .acq 1, .rel 1]) (.abandon 1)).1.active = [] := by decide

/-- companion: the handed connection is no longer active (it was released a second time); like
    `release()` the pool ignores it: only the hand-off entry is dropped -/
theorem pool_abandoned_handoff_inactive_ignored (s : St) (id c : Nat) (hc : s.creators.contains id = false)
    (hh : s.handed.find? (·.1 == id) = some (id, c)) (ha : s.active.contains c = false) :
    (step s (.abandon id)).2 = .nothing
    ∧ (step s (.abandon id)).1.handed = s.handed.filter (·.1 != id)
    ∧ (∀ p ∈ (step s (.abandon id)).1.handed, p.1 ≠ id)
    ∧ (step s (.abandon id)).1.active = s.active
    ∧ (step s (.abandon id)).1.idle = s.idle
    ∧ (step s (.abandon id)).1.total = s.total
    ∧ (step s (.abandon id)).1.creating = s.creating
    ∧ (step s (.abandon id)).1.waiters = s.waiters := by
  have hs : step s (.abandon id) = ({ s with handed := s.handed.filter (·.1 != id) }, .nothing) := by
    rw [step_abandon, hh]
    simp only [hc, ha, Bool.not_false, Bool.false_eq_true, if_false, if_true]
  rw [hs]
  exact ⟨rfl, rfl, filter_ne_fst _ _, rfl, rfl, rfl, rfl, rfl⟩

example : (run { max := 1 } [.acq 0, .made 0, .acq 1, .rel 1, .rel 1]).handed.find? (·.1 == 1) = some (1, 1)
    ∧ (run { max := 1 } [.acq 0, .made 0, .acq 1, .rel 1, .rel 1]).active.contains 1 = false
    ∧ (run { max := 1 } [.acq 0, .made 0, .acq 1, .rel 1, .rel 1]).idle = [1] := by decide

/-- when nobody releases a connection that is handed over and not yet noticed (`relOk` along the run), the
    ignored corner never occurs: an abandoned call that was handed a connection always passes it on -/
theorem pool_abandoned_handoff_never_dropped (max min : Nat) (ops : List Op)
    (hr : Sched relOk { max := max, min := min } ops = true) (id c : Nat)
    (hh : (run { max := max, min := min } ops).handed.find? (·.1 == id) = some (id, c)) :
    (run { max := max, min := min } ops).active.contains c = true :=
  List.contains_iff_mem.2
    ((run_handInv _ ops (init_handInv max min) hr).act (id, c) (List.mem_of_find?_eq_some hh))

example : Sched relOk { max := 1 } [.acq 0, .made 0, .acq 1, .acq 2, .rel 1] = true
    ∧ Sched relOk { max := 1 } [.acq 0, .made 0, .acq 1, .rel 1, .rel 1] = false := by decide

/-! ### f. the idle timeout closes only what it may close -/

theorem pool_idle_close_sound (s : St) (c e : Nat) (inv : Inv s)
    (h : (step s (.idleCheck c e)).2 = .closed) :
    c ∈ s.idle ∧ stampOf s.stamp c = some e ∧ s.min ≤ (step s (.idleCheck c e)).1.total
    ∧ (step s (.idleCheck c e)).1.active = s.active
    ∧ (step s (.idleCheck c e)).1.total + 1 = s.total
    ∧ (step s (.idleCheck c e)).1.idle = s.idle.erase c := by
  have _ := inv
  rw [step_idleCheck] at h ⊢
  split at h
  · rename_i hcond
    split at h
    · rename_i hlt
      simp only [Bool.and_eq_true, beq_iff_eq] at hcond
      rw [if_pos (by simp only [Bool.and_eq_true, beq_iff_eq]; exact hcond), if_pos hlt]
      refine ⟨List.contains_iff_mem.1 hcond.1, hcond.2, ?_, rfl, ?_, rfl⟩
      · show s.min ≤ s.total - 1
        omega
      · show s.total - 1 + 1 = s.total
        omega
    · cases h
  · cases h

example : (step (runAt { max := 2, min := 1 } [(0, .acq 0), (0, .acq 1), (1, .made 0), (1, .made 1), (5, .rel 1), (6, .rel 2)])
      (.idleCheck 1 5)).2 = .closed
    ∧ (step (runAt { max := 2, min := 1 } [(0, .acq 0), (0, .acq 1), (1, .made 0), (1, .made 1), (5, .rel 1), (6, .rel 2)])
      (.idleCheck 1 5)).1.total = 1
    -- a timer armed for an earlier idle session is stale
    ∧ (step (runAt { max := 2, min := 1 } [(0, .acq 0), (0, .acq 1), (1, .made 0), (1, .made 1), (5, .rel 1), (6, .rel 2)])
      (.idleCheck 1 4)).2 = .stale
    -- at `min_connections` the connection is kept
    ∧ (step (runAt { max := 2, min := 1 } [(0, .acq 0), (0, .acq 1), (1, .made 0), (1, .made 1), (5, .rel 1), (6, .rel 2),
        (9, .idleCheck 1 5)]) (.idleCheck 2 6)).2 = .kept := by decide

/-! ### g. warm-up stops at `min_connections` -/

theorem pool_warmup_stops_at_min (s : St) :
    ((step s .warm).2 = .done ↔ s.min ≤ s.total)
    ∧ (s.reserve = true → (step s .warm).2 = .creating → (step s .warm).1.total = s.total + 1) := by
  rw [step_warm]
  by_cases hlt : s.total < s.min
  · rw [if_pos hlt]
    refine ⟨⟨fun h => (by cases h), fun h => (by omega)⟩, fun hres _ => ?_⟩
    simp only [hres, if_true]
  · rw [if_neg hlt]
    exact ⟨⟨fun _ => (by omega), fun _ => rfl⟩, fun _ h => (by cases h)⟩

example : (step { max := 3, min := 2 } .warm).2 = .creating
    ∧ (run { max := 3, min := 2 } [.warm, .wmade, .warm, .wmade]).total = 2
    ∧ (run { max := 3, min := 2 } [.warm, .wmade, .warm, .wmade]).idle = [1, 2]
    ∧ (step (run { max := 3, min := 2 } [.warm, .wmade, .warm, .wmade]) .warm).2 = .done := by decide

/-! ### h. "a queued call is never grantable" holds on classic op lists only -/

theorem pool_head_not_grantable_classic (max : Nat) (ops : List Op) (hc : ops.all Op.classic = true)
    (h : (run { max := max } ops).waiters ≠ []) :
    (run { max := max } ops).idle = [] ∧ (run { max := max } ops).total = max := by
  have := (run_headInv _ ops (init_inv max) (init_headInv max) hc).head h
  rw [run_max] at this
  exact this

example : [Op.acq 0, .acq 1, .made 0, .rel 1, .poll 1, .timeout 2].all Op.classic = true
    ∧ (run { max := 1 } [.acq 0, .acq 1]).waiters ≠ [] := by decide

/-- it fails once a set-up is abandoned: call 1 is queued although the slot is free again … -/
example : (run { max := 1 } [.acq 0, .acq 1, .abandon 0]).waiters ≠ []
    ∧ (run { max := 1 } [.acq 0, .acq 1, .abandon 0]).total = 0 := by decide

/-- … and call 1 takes the slot at its next poll -/
example : (step (run { max := 1 } [.acq 0, .acq 1, .abandon 0]) (.poll 1)).2 = .creating
    ∧ (step (run { max := 1 } [.acq 0, .acq 1, .abandon 0]) (.poll 1)).1.waiters = [] := by decide

/-- it also fails once warm-up parks a connection behind the queue -/
example : (run { max := 2, min := 2 } [.acq 0, .warm, .acq 1, .wmade]).waiters = [1]
    ∧ (run { max := 2, min := 2 } [.acq 0, .warm, .acq 1, .wmade]).idle = [1]
    ∧ (step (run { max := 2, min := 2 } [.acq 0, .warm, .acq 1, .wmade]) (.poll 1)).2 = .idle 1 := by decide

end HappyModel.C09.Pool
