import HappyProofs.C09.SyncInv
/-! The RWLock model satisfies the executable Spec predicate `judgeRW` on every operation list: the
judge's own books (active readers, writer, arrival-ordered blocked callers — kept from observations
only) coincide with the model state, and the hand-over to the woken callers one by one
(`grantWoken`) never breaks exclusion. -/
namespace HappyModel.C09.Sync.RW

def b01 (b : Bool) : Nat := if b then 1 else 0

/-- what the model reports for an operation (`runRW` in the driver prints exactly these fields) -/
def obsOf (o : Op) (out : Out) (s' : St) : Obs :=
  { k := match o with
      | .tryRead id => .try_ id 1 0
      | .tryWrite id => .try_ id 1 1
      | .acquireRead id => .acq id 1 0
      | .acquireWrite id => .acq id 1 1
      | .releaseRead => .rel 1 0
      | .releaseWrite => .rel 1 1
    res := out.res, woke := out.woke, c1 := s'.readers, c2 := s'.waiters.length, c3 := b01 s'.writer }

/-- the model's observable trace -/
def obsTrace (s : St) : List Op → List Obs
  | [] => []
  | o :: os => obsOf o (step s o).2 (step s o).1 :: obsTrace (step s o).1 os

structure Agree (b : RBook) (s : St) : Prop where
  r : b.r = s.readers
  w : b.w = b01 s.writer
  blocked : b.blocked = s.waiters
  resolved : b.resolved = []

theorem b01_ne_zero (x : Bool) : (b01 x ≠ 0) ↔ x = true := by cases x <;> simp [b01]
theorem b01_eq_zero (x : Bool) : (b01 x = 0) ↔ x = false := by cases x <;> simp [b01]

theorem rAtMax_eq (b : RBook) (s : St) (ag : Agree b s) : rAtMax s.maxR b = atMax s := by
  unfold rAtMax atMax; rw [ag.r]

theorem readBlocked_eq (b : RBook) (s : St) (ag : Agree b s) : readBlocked s.maxR b = !canRead s := by
  unfold readBlocked canRead
  rw [rAtMax_eq b s ag, ag.w, ag.blocked]
  cases s.writer <;> simp [b01]

theorem writeBlocked_eq (b : RBook) (s : St) (ag : Agree b s) : writeBlocked b = !canWrite s := by
  unfold writeBlocked canWrite
  rw [ag.w, ag.r]
  cases s.writer <;> by_cases h : s.readers = 0 <;> simp [b01, h]

theorem check_ok (s : St) (b : RBook) (o : Obs) (inv : Inv s) (ag : Agree b s)
    (h1 : o.c1 = s.readers) (h2 : o.c2 = s.waiters.length) (h3 : o.c3 = b01 s.writer) :
    b.check s.maxR o = none := by
  unfold RBook.check
  have hat := rAtMax_eq b s ag
  rw [hat, ag.r, ag.w, ag.blocked, h1, h2, h3]
  have hw1 : ¬ 1 < b01 s.writer := by cases s.writer <;> simp [b01]
  have hex : ¬ (b01 s.writer = 1 ∧ s.readers ≠ 0) := by
    intro h
    cases hw : s.writer with
    | false => rw [hw] at h; simp [b01] at h
    | true => exact h.2 (inv.excl hw)
  have hmx : ¬ (s.maxR ≠ 0 ∧ s.maxR < s.readers) := by
    intro h; have := inv.maxOk h.1; omega
  rw [if_neg hw1, if_neg hex, if_neg hmx, if_neg (by simp), if_neg (by simp), if_neg (by simp)]
  cases hq : s.waiters with
  | nil => rfl
  | cons x xs =>
    obtain ⟨i, wr⟩ := x
    have hd := inv.head (i, wr) xs hq
    cases wr with
    | true =>
      simp only
      rw [if_neg]
      intro h
      rcases hd.1 rfl with h' | h'
      · rw [h'] at h; simp [b01] at h
      · omega
    | false =>
      simp only
      rw [if_neg]
      intro h
      rcases hd.2 rfl with h' | h'
      · rw [h'] at h; simp [b01] at h
      · rw [h'] at h; simp at h

theorem wokeCheck_take (pfx : String) (l : List (Nat × Bool)) (k : Nat) (hk : k ≤ l.length) :
    wokeCheck pfx (l.map (·.1)) ((l.take k).map (·.1)) = none := by
  unfold wokeCheck
  rw [if_pos]
  simp [List.length_take, Nat.min_eq_left hk, List.map_take]

/-- the reader branch of the wake-up, seen by the judge: the woken ids are a prefix of the line, the
    rest stays, and handing the lock to them one by one is accepted and counts the readers up -/
theorem wakeReaders_grant (maxR : Nat) (r : Nat) (ws : List (Nat × Bool)) (b : RBook)
    (hr : b.r = r) (hw : b.w = 0) :
    (wakeReaders maxR r ws).2.1.length ≤ ws.length ∧
    (wakeReaders maxR r ws).2.1 = (ws.take (wakeReaders maxR r ws).2.1.length).map (·.1) ∧
    (wakeReaders maxR r ws).2.2 = ws.drop (wakeReaders maxR r ws).2.1.length ∧
    grantWoken maxR b (ws.take (wakeReaders maxR r ws).2.1.length)
      = .ok { b with r := (wakeReaders maxR r ws).1 } := by
  induction ws generalizing r b with
  | nil =>
    subst hr
    simp [wakeReaders, grantWoken]
  | cons x xs ih =>
    obtain ⟨i, wr⟩ := x
    unfold wakeReaders
    cases wr with
    | true =>
      subst hr
      simp [grantWoken]
    | false =>
      simp only [Bool.false_eq_true, if_false]
      split
      · subst hr
        simp [grantWoken]
      · rename_i hm
        have ih' := ih (r + 1) { b with r := b.r + 1 } (by show b.r + 1 = r + 1; omega) hw
        obtain ⟨h1, h2, h3, h4⟩ := ih'
        refine ⟨?_, ?_, ?_, ?_⟩
        · simp only [List.length_cons]; omega
        · simp only [List.length_cons, List.take_succ_cons, List.map_cons]
          rw [← h2]
        · simp only [List.length_cons, List.drop_succ_cons]
          exact h3
        · simp only [List.length_cons, List.take_succ_cons]
          unfold grantWoken
          have hnm : rAtMax maxR b = false := by
            unfold rAtMax; rw [hr]; simpa using hm
          rw [if_neg (by omega), hnm]
          simp only [Bool.false_eq_true, if_false]
          rw [h4]

/-- the wake-up after a release, seen by the judge -/
theorem wake_grant (s : St) (b : RBook) (ag : Agree b s) :
    (wake s).2.length ≤ s.waiters.length ∧
    (wake s).2 = (s.waiters.take (wake s).2.length).map (·.1) ∧
    ∃ b2, grantWoken s.maxR { b with blocked := s.waiters.drop (wake s).2.length } (s.waiters.take (wake s).2.length) = .ok b2
      ∧ Agree b2 (wake s).1 := by
  unfold wake
  split
  · rename_i hw
    refine ⟨by simp, by simp, _, by simp [grantWoken]; rfl, ?_⟩
    exact ⟨ag.r, ag.w, rfl, ag.resolved⟩
  · rename_i hw
    have hw' : s.writer = false := by simpa using hw
    have hbw : b.w = 0 := by rw [ag.w, hw']; rfl
    split
    · rename_i hq
      refine ⟨by simp, by simp, _, by simp [grantWoken]; rfl, ?_⟩
      exact ⟨ag.r, ag.w, by simp [hq], ag.resolved⟩
    · rename_i x xs hq
      obtain ⟨i, wr⟩ := x
      cases wr with
      | true =>
        simp only [if_true]
        split
        · rename_i hr0
          have hr : s.readers = 0 := by simpa using hr0
          refine ⟨by simp [hq], by simp [hq], { b with w := 1, blocked := xs }, ?_, ?_⟩
          · simp only [List.length_cons, List.length_nil, hq, List.take_succ_cons, List.take_zero,
              List.drop_succ_cons, List.drop_zero]
            unfold grantWoken
            rw [if_neg (by rw [hbw, ag.r, hr]; simp)]
            rfl
          · exact ⟨by show b.r = s.readers; exact ag.r, rfl, rfl, ag.resolved⟩
        · refine ⟨by simp, by simp, _, by simp [grantWoken]; rfl, ?_⟩
          exact ⟨ag.r, ag.w, by simp [hq], ag.resolved⟩
      | false =>
        simp only [Bool.false_eq_true, if_false]
        have h := wakeReaders_grant s.maxR s.readers s.waiters
          { b with blocked := s.waiters.drop (wakeReaders s.maxR s.readers s.waiters).2.1.length } ag.r hbw
        obtain ⟨h1, h2, h3, h4⟩ := h
        unfold wakeR
        refine ⟨h1, h2, _, h4, ?_⟩
        exact ⟨rfl, by show b.w = b01 s.writer; exact ag.w, by show _ = (wakeReaders _ _ _).2.2; rw [h3], ag.resolved⟩

theorem apply_releaseR (s : St) (b : RBook) (ag : Agree b s) (hheld : ¬ s.readers < 1) (c1 c2 c3 : Int) :
    ∃ b', b.apply s.maxR false ⟨0, .rel 1 0, .released, (wake { s with readers := s.readers - 1 }).2, c1, c2, c3⟩ = .ok b'
      ∧ Agree b' (wake { s with readers := s.readers - 1 }).1 := by
  have ag1 : Agree { b with r := b.r - 1 } { s with readers := s.readers - 1 } :=
    ⟨by show b.r - 1 = s.readers - 1; rw [ag.r], ag.w, ag.blocked, ag.resolved⟩
  obtain ⟨hlen, hwk, b2, hg, hag2⟩ := wake_grant _ _ ag1
  refine ⟨{ b2 with resolved := b.resolved }, ?_, ⟨hag2.r, hag2.w, hag2.blocked, ag.resolved⟩⟩
  have hwc := wokeCheck_take "rwlock" s.waiters _ hlen
  rw [← hwk] at hwc
  have hr : ¬ b.r = 0 := by rw [ag.r]; omega
  simp only [RBook.apply, procObs]
  simp only [ag.blocked, hwc, hr, Nat.zero_ne_one, false_and, and_false, or_false, if_false, ne_eq, not_false_eq_true,
    true_and]
  rw [hg]; simp

theorem apply_releaseW (s : St) (b : RBook) (ag : Agree b s) (hheld : s.writer = true) (c1 c2 c3 : Int) :
    ∃ b', b.apply s.maxR false ⟨0, .rel 1 1, .released, (wake { s with writer := false }).2, c1, c2, c3⟩ = .ok b'
      ∧ Agree b' (wake { s with writer := false }).1 := by
  have ag1 : Agree { b with w := 0 } { s with writer := false } := ⟨ag.r, rfl, ag.blocked, ag.resolved⟩
  obtain ⟨hlen, hwk, b2, hg, hag2⟩ := wake_grant _ _ ag1
  refine ⟨{ b2 with resolved := b.resolved }, ?_, ⟨hag2.r, hag2.w, hag2.blocked, ag.resolved⟩⟩
  have hwc := wokeCheck_take "rwlock" s.waiters _ hlen
  rw [← hwk] at hwc
  have hw : ¬ b.w = 0 := by rw [ag.w, hheld]; simp [b01]
  simp only [RBook.apply, procObs]
  simp only [ag.blocked, hwc, hw, and_false, false_or, if_false, ne_eq, not_true_eq_false, false_and, or_false, if_true]
  rw [hg]; simp

/-- one operation: the judge accepts the model's observation and its books follow the model -/
theorem apply_step (s : St) (b : RBook) (o : Op) (inv : Inv s) (ag : Agree b s) :
    ∃ b', b.apply s.maxR false (obsOf o (step s o).2 (step s o).1) = .ok b' ∧ Agree b' (step s o).1 := by
  have hrb := readBlocked_eq b s ag
  have hwb := writeBlocked_eq b s ag
  cases o with
  | tryRead id =>
    simp only [obsOf]; rw [step_tryRead]
    split
    · rename_i h
      have h' := h
      unfold canRead at h'
      simp only [Bool.and_eq_true, Bool.not_eq_true'] at h'
      refine ⟨{ b with r := b.r + 1 }, ?_, ⟨by show b.r + 1 = s.readers + 1; rw [ag.r], ag.w, ag.blocked, ag.resolved⟩⟩
      have hbw : b.w = 0 := by rw [ag.w, h'.1.1]; rfl
      have hat : rAtMax s.maxR b = false := by rw [rAtMax_eq b s ag]; exact h'.2
      simp [RBook.apply, procObs, hbw, hat]
    · rename_i h
      refine ⟨b, ?_, ag⟩
      simp only [RBook.apply, procObs, hrb]
      simp [h]
  | tryWrite id =>
    simp only [obsOf]; rw [step_tryWrite]
    split
    · rename_i h
      refine ⟨{ b with w := 1 }, ?_, ⟨ag.r, rfl, ag.blocked, ag.resolved⟩⟩
      simp only [RBook.apply, procObs, hwb]
      simp [h]
    · rename_i h
      refine ⟨b, ?_, ag⟩
      simp only [RBook.apply, procObs, hwb]
      simp [h]
  | acquireRead id =>
    simp only [obsOf]; rw [step_acquireRead]
    split
    · rename_i h
      have h' := h
      unfold canRead at h'
      simp only [Bool.and_eq_true, Bool.not_eq_true'] at h'
      refine ⟨{ b with r := b.r + 1 }, ?_, ⟨by show b.r + 1 = s.readers + 1; rw [ag.r], ag.w, ag.blocked, ag.resolved⟩⟩
      have hbw : b.w = 0 := by rw [ag.w, h'.1.1]; rfl
      have hat : rAtMax s.maxR b = false := by rw [rAtMax_eq b s ag]; exact h'.2
      simp [RBook.apply, procObs, hbw, hat]
    · rename_i h
      refine ⟨{ b with blocked := b.blocked ++ [(id, false)] }, ?_,
        ⟨ag.r, ag.w, by show b.blocked ++ _ = s.waiters ++ _; rw [ag.blocked], ag.resolved⟩⟩
      simp only [RBook.apply, procObs, hrb]
      simp [h]
  | acquireWrite id =>
    simp only [obsOf]; rw [step_acquireWrite]
    split
    · rename_i h
      refine ⟨{ b with w := 1 }, ?_, ⟨ag.r, rfl, ag.blocked, ag.resolved⟩⟩
      simp only [RBook.apply, procObs, hwb]
      simp [h]
    · rename_i h
      refine ⟨{ b with blocked := b.blocked ++ [(id, true)] }, ?_,
        ⟨ag.r, ag.w, by show b.blocked ++ _ = s.waiters ++ _; rw [ag.blocked], ag.resolved⟩⟩
      simp only [RBook.apply, procObs, hwb]
      simp [h]
  | releaseRead =>
    simp only [obsOf]; rw [step_releaseRead]
    split
    · rename_i h
      refine ⟨b, ?_, ag⟩
      simp only [RBook.apply, procObs]
      rw [ag.r]
      simp; omega
    · rename_i h
      exact apply_releaseR s b ag h _ _ _
  | releaseWrite =>
    simp only [obsOf]; rw [step_releaseWrite]
    split
    · rename_i h
      refine ⟨b, ?_, ag⟩
      simp only [RBook.apply, procObs]
      rw [ag.w]
      have : s.writer = false := by simpa using h
      simp [this, b01]
    · rename_i h
      have hw : s.writer = true := by simpa using h
      exact apply_releaseW s b ag hw _ _ _

theorem judge_model (s : St) (b : RBook) (ops : List Op) (inv : Inv s) (ag : Agree b s) :
    judgeRW s.maxR false b (obsTrace s ops) = none := by
  induction ops generalizing s b with
  | nil => rfl
  | cons o os ih =>
    obtain ⟨b', hap, hag⟩ := apply_step s b o inv ag
    have inv' := step_inv s o inv
    simp only [obsTrace, judgeRW, hap]
    have hc := check_ok (step s o).1 b' (obsOf o (step s o).2 (step s o).1) inv' hag rfl rfl rfl
    rw [step_maxR] at hc
    rw [hc]
    have := ih (step s o).1 b' inv' hag
    rw [step_maxR] at this
    exact this

end HappyModel.C09.Sync.RW
