import HappyProofs.C09.ResourceSpec
import HappyProofs.C09.SyncInv
import HappyProofs.C09.PoolInv
import HappyProofs.C09.ConcInv
import HappyProofs.C09.ExtraProps
import HappyProofs.C09.SyncProps
import HappyProofs.C09.PreemptSpec
import HappyProofs.C09.PreemptCbProps
import HappyProofs.C09.ThreadPoolSpec
import HappyProofs.C09.WaitSilent
import HappyProofs.C09.BulkheadSpec
import HappyProofs.C09.ConcSpec
import HappyProofs.C09.PoolDistinct
import HappyProofs.C09.PoolProps2
import HappyProofs.C09.EngineTrace
import HappyProofs.C09.EngineTraceB
import HappyProofs.C09.EngineTraceC
/-!
# C09 — property theorems

"For any interleaving of acquire and release calls, a Resource, Mutex, Semaphore, RWLock, barrier,
connection pool, bulkhead or concurrency limiter never has more outstanding holders or amount than
its limit (a writer excludes everyone, readers exclude writers), held plus available always equals
capacity, and a release never pushes it above capacity. Blocked acquirers are granted in arrival
order as soon as capacity allows, each at most once, and waiting consumes no simulated activity, so
the clock advances to the release and every waiter whose predecessor releases is eventually served."

Every theorem quantifies over an arbitrary capacity and an arbitrary list of operations (any
interleaving of calls by any number of processes, including malformed calls).
-/
namespace HappyModel.C09
open Res

/-! ## Resource -/

/-- the model's observable trace satisfies the executable Spec predicate that also judges the
    implementation's transcripts — for every capacity and every operation list -/
theorem resource_trace_satisfies_spec (cap : Int) (hcap : 0 < cap) (ops : List Op) :
    judge cap false {} (obsTrace (St.init cap) ops) = none :=
  judge_model (St.init cap) {} ops (init_inv cap hcap) ⟨rfl, rfl, rfl⟩

example : judge 2 false {} (obsTrace (St.init 2)
    [.acquire 0 2, .acquire 1 1, .acquire 2 1, .tryAcquire 3 1, .release 0, .release 0, .release 1, .acquire 4 5]) = none := by
  decide

/-- a trace with capacity changes: reduced below the held amount (over-committed, `available` = −2),
    nothing granted meanwhile, FIFO wake-up on the increase -/
example : judge 4 false {} (obsTrace (St.init 4)
    [.acquire 0 1, .acquire 1 1, .acquire 2 1, .acquire 3 1, .setCapacity 2, .acquire 4 1, .release 0, .tryAcquire 5 1,
     .release 1, .release 2, .setCapacity 0, .setCapacity 3, .acquire 6 3, .release 3, .release 4]) = none := by
  decide

/-- the judge rejects a `set_capacity` that forgets the deficit (available clamped at 0) -/
example : judge 4 false {} [⟨0, .acq 0 3, .granted, [], 1, 0, some 4⟩, ⟨0, .setcap 2, .resized, [], 0, 0, some 2⟩]
    = some "resource/conservation/held-plus-available" := by decide

/-- … and a grant handed out while the resource is over-committed -/
example : judge 4 false {} [⟨0, .acq 0 3, .granted, [], 1, 0, some 4⟩, ⟨0, .setcap 2, .resized, [], -1, 0, some 2⟩,
      ⟨0, .acq 1 1, .granted, [], -2, 0, some 2⟩]
    = some "resource/held/exceeds-capacity" := by decide

/-- the judge is not vacuous: it rejects an over-admitting trace -/
example : judge 1 false {} [⟨0, .acq 0 1, .granted, [], 0, 0, none⟩, ⟨0, .acq 1 1, .granted, [], 0, 0, none⟩]
    = some "resource/held/exceeds-capacity" := by decide

/-- outstanding amount never exceeds the capacity, as long as nobody changes the capacity -/
theorem held_le_limit (cap : Int) (hcap : 0 < cap) (ops : List Op) (hf : FixedCap ops) :
    amtSum (run (St.init cap) ops).held ≤ cap := by
  have inv := run_inv _ ops (init_inv cap hcap)
  have fx := run_fixed _ ops (init_inv cap hcap) hf ⟨by simp [St.init]; omega, by simp [St.init]⟩
  have := inv.conserve; have := fx.within
  rw [run_cap _ _ hf] at *; simp [St.init] at *; omega

/-- with `set_capacity` in the interleaving: capacity is never *handed out* beyond the limit in
    force — after any operation that granted something (an immediate grant, or waiters woken by a
    release or by a capacity increase) the outstanding amount is within the current capacity … -/
theorem no_grant_while_overcommitted (cap : Int) (hcap : 0 < cap) (ops : List Op) (o : Op)
    (hg : (obsOf o (step (run (St.init cap) ops) o).2 (step (run (St.init cap) ops) o).1).grants = true) :
    amtSum (step (run (St.init cap) ops) o).1.held ≤ (step (run (St.init cap) ops) o).1.cap := by
  have inv := run_inv _ ops (init_inv cap hcap)
  have := (step_inv _ o inv).conserve
  have := step_grant_within _ o inv hg
  omega

/-- … and the only way to be over-committed is a `set_capacity` below the held amount: every other
    operation keeps `held ≤ capacity` -/
theorem overcommit_only_by_set_capacity (cap : Int) (hcap : 0 < cap) (ops : List Op) (o : Op)
    (ho : ∀ c, o ≠ .setCapacity c)
    (h : amtSum (run (St.init cap) ops).held ≤ (run (St.init cap) ops).cap) :
    amtSum (step (run (St.init cap) ops) o).1.held ≤ (step (run (St.init cap) ops) o).1.cap := by
  have inv := run_inv _ ops (init_inv cap hcap)
  have h1 := inv.conserve
  have h2 := (step_inv _ o inv).conserve
  have := step_within _ o inv ho (by omega)
  omega

/-- the resource really is over-committed after a reduction below the held amount, nothing is
    granted meanwhile, and it recovers as grants return -/
example : (run (St.init 4) [.acquire 0 1, .acquire 1 1, .acquire 2 1, .setCapacity 1, .acquire 3 1, .release 0]).avail = -1
    ∧ ids (run (St.init 4) [.acquire 0 1, .acquire 1 1, .acquire 2 1, .setCapacity 1, .acquire 3 1, .release 0]).waiters = [3]
    ∧ (run (St.init 4) [.acquire 0 1, .acquire 1 1, .acquire 2 1, .setCapacity 1, .acquire 3 1,
        .release 0, .release 1, .release 2]).held = [(3, 1)] := by decide

/-- held plus available equals the capacity in force after every operation list, whatever the
    capacity has been set to in between (`available` is negative while over-committed) -/
theorem held_plus_available_eq_capacity (cap : Int) (hcap : 0 < cap) (ops : List Op) :
    (run (St.init cap) ops).avail + amtSum (run (St.init cap) ops).held = (run (St.init cap) ops).cap :=
  (run_inv _ ops (init_inv cap hcap)).conserve

example : (run (St.init 3) [.acquire 0 2, .acquire 1 2, .release 0]).held = [(1, 2)]
    ∧ (run (St.init 3) [.acquire 0 2, .acquire 1 2, .release 0]).avail = 1 := by decide

example : (run (St.init 3) [.acquire 0 2, .setCapacity 1]).avail = -1
    ∧ (run (St.init 3) [.acquire 0 2, .setCapacity 1]).cap = 1 := by decide

/-- a release never pushes `available` above capacity — the `_do_release` guard never fires,
    also not for grants handed out before a capacity reduction — and `available ≤ capacity` always -/
theorem release_never_exceeds (cap : Int) (hcap : 0 < cap) (ops : List Op) (id : Nat) :
    (step (run (St.init cap) ops) (.release id)).2.res ≠ .err
    ∧ (run (St.init cap) ops).avail ≤ (run (St.init cap) ops).cap := by
  have inv := run_inv _ ops (init_inv cap hcap)
  have hc := inv.conserve
  have hnn := amtSum_nonneg _ inv.heldPos
  refine ⟨?_, by omega⟩
  rw [step_release]; unfold release
  split
  · simp
  · rename_i g hg
    have hsum := amtSum_eraseHeld hg
    have hnn' := amtSum_nonneg (eraseHeld id (run (St.init cap) ops).held)
      (fun x hx => inv.heldPos x (mem_eraseHeld hx))
    dsimp only
    split
    · omega
    · simp

example : (step (run (St.init 2) [.acquire 0 2]) (.release 0)).2.res = .released := by decide
example : (step (run (St.init 4) [.acquire 0 2, .acquire 1 2, .setCapacity 2, .release 0]) (.release 1)).2.res = .released := by
  decide

/-- blocked acquirers are woken in arrival order, nobody is skipped: the ids woken so far followed by
    the ids still waiting are exactly the ids queued so far, in queueing order -/
theorem grant_fifo (cap : Int) (ops : List Op) :
    queuedIds (trace (St.init cap) ops) = wokenIds (trace (St.init cap) ops) ++ ids (run (St.init cap) ops).waiters := by
  have := fifo_ledger (St.init cap) ops
  simpa [St.init, ids] using this

example : wokenIds (trace (St.init 2) [.acquire 0 2, .acquire 1 2, .acquire 2 1, .release 0, .release 1]) = [1, 2] := by
  decide

/-- each acquire call is granted at most once (call ids distinct, as they name distinct calls):
    the sequence of all grants — immediate ones and wake-ups — has no repetition, and a call that is
    still waiting has not been granted -/
theorem grant_at_most_once (cap : Int) (ops : List Op) (hd : (callIds ops).Nodup) :
    (grantIds (trace (St.init cap) ops)).Nodup
    ∧ ∀ i ∈ ids (run (St.init cap) ops).waiters, i ∉ grantIds (trace (St.init cap) ops) := by
  have hp := settle_ledger (St.init cap) ops
  have hn : (settledIds (trace (St.init cap) ops) ++ ids (run (St.init cap) ops).waiters).Nodup := by
    rw [hp.nodup_iff]; simpa [St.init, ids] using hd
  have hsub := grantIds_sublist_settled (St.init cap) ops
  rw [List.nodup_append] at hn
  refine ⟨hn.1.sublist hsub, ?_⟩
  intro i hi hg
  exact hn.2.2 i (hsub.subset hg) i hi rfl

example : (callIds [.acquire 0 2, .acquire 1 2, .tryAcquire 2 1, .release 0]).Nodup := by decide

/-- "as soon as capacity allows": after every operation list, if someone waits, the head of the
    line does not fit into the free capacity (so no grant is being withheld) -/
theorem head_not_grantable (cap : Int) (hcap : 0 < cap) (ops : List Op) (w : Nat × Int) (ws : List (Nat × Int))
    (h : (run (St.init cap) ops).waiters = w :: ws) :
    (run (St.init cap) ops).cap - amtSum (run (St.init cap) ops).held < w.2 := by
  have inv := run_inv _ ops (init_inv cap hcap)
  have := inv.headBlocked w ws h
  have := inv.conserve
  omega

example : (run (St.init 3) [.acquire 0 2, .acquire 1 2]).waiters = [(1, 2)] := by decide

/-- "every waiter whose predecessors release is served": whenever all grants have been returned,
    whoever is still at the head of the line asks for more than the whole (reduced) capacity; with a
    fixed capacity nobody is left waiting at all.  A release — and a capacity increase — wakes, in
    that very step, every queued request that fits (`head_not_grantable` holds right after it). -/
theorem served_if_released (cap : Int) (hcap : 0 < cap) (ops : List Op)
    (h : (run (St.init cap) ops).held = []) :
    (∀ w ws, (run (St.init cap) ops).waiters = w :: ws → (run (St.init cap) ops).cap < w.2)
    ∧ (FixedCap ops → (run (St.init cap) ops).waiters = []) := by
  have inv := run_inv _ ops (init_inv cap hcap)
  have h2 := inv.conserve
  rw [h] at h2; simp at h2
  refine ⟨fun w ws hq => by have := inv.headBlocked w ws hq; omega, fun hf => ?_⟩
  have fx := run_fixed _ ops (init_inv cap hcap) hf ⟨by simp [St.init]; omega, by simp [St.init]⟩
  cases hq : (run (St.init cap) ops).waiters with
  | nil => rfl
  | cons w ws =>
    have h1 := inv.headBlocked w ws hq
    have h3 := fx.waitFits w (by rw [hq]; exact List.mem_cons_self)
    omega

example : (run (St.init 2) [.acquire 0 2, .acquire 1 1, .release 0, .release 1]).held = [] := by decide
example : FixedCap [.acquire 0 2, .acquire 1 1, .release 0, .release 1] := by
  intro o ho c; simp at ho; rcases ho with h | h | h | h <;> subst h <;> simp

/-! ## Mutex -/
open Sync

/-- the Mutex model's observable trace satisfies the executable Spec predicate (at most one holder,
    FIFO hand-off, nobody waits while the lock is free, flags and counters consistent) for every
    operation list -/
theorem mutex_trace_satisfies_spec (ops : List Mutex.Op) :
    judgeMutex false {} (Mutex.obsTrace {} ops) = none :=
  Mutex.judge_model {} {} ops ⟨by simp⟩ ⟨rfl, rfl, rfl⟩

example : judgeMutex false {} (Mutex.obsTrace {}
    [.acquire 0, .acquire 1, .tryAcquire 2, .release, .release, .release]) = none := by decide

/-- the judge rejects a second holder -/
example : judgeMutex false {} [⟨0, .acq 0 1 0, .granted, [], 1, 0, 0⟩, ⟨0, .acq 1 1 0, .granted, [], 1, 0, 0⟩]
    = some "mutex/acquire/granted-while-held" := by decide

/-- nobody waits on a free mutex -/
theorem mutex_waiters_imply_locked (ops : List Mutex.Op) (h : (Mutex.run {} ops).waiters ≠ []) :
    (Mutex.run {} ops).locked = true :=
  (Mutex.run_inv {} ops ⟨by simp⟩).waitLocked h

example : (Mutex.run {} [.acquire 0, .acquire 1]).waiters ≠ [] := by decide

/-! ## RWLock -/

/-- a writer excludes everyone: whenever the write lock is held there is no active reader -/
theorem writer_excludes_all (maxR : Nat) (ops : List RW.Op)
    (h : (RW.run { maxR := maxR } ops).writer = true) : (RW.run { maxR := maxR } ops).readers = 0 :=
  (RW.run_inv _ ops (RW.init_inv maxR)).excl h

example : (RW.run { maxR := 0 } [.acquireRead 0, .acquireWrite 1, .acquireRead 2, .releaseRead]).writer = true := by decide

/-- readers exclude writers: while any reader is active the write lock is not held -/
theorem readers_exclude_writers (maxR : Nat) (ops : List RW.Op)
    (h : 0 < (RW.run { maxR := maxR } ops).readers) : (RW.run { maxR := maxR } ops).writer = false := by
  have := (RW.run_inv _ ops (RW.init_inv maxR)).excl
  cases hw : (RW.run { maxR := maxR } ops).writer with
  | false => rfl
  | true => have := this hw; omega

example : 0 < (RW.run { maxR := 2 } [.acquireRead 0, .acquireRead 1, .acquireWrite 2]).readers := by decide

/-- the number of active readers never exceeds `max_readers` -/
theorem rw_readers_le_max (maxR : Nat) (hm : maxR ≠ 0) (ops : List RW.Op) :
    (RW.run { maxR := maxR } ops).readers ≤ maxR := by
  have := (RW.run_inv _ ops (RW.init_inv maxR)).maxOk
  rw [RW.run_maxR] at this
  exact this hm

example : (RW.run { maxR := 1 } [.acquireRead 0, .acquireRead 1, .tryRead 2]).readers = 1 := by decide

/-- "as soon as capacity allows": a waiting writer at the head means the lock is held by a writer or
    by readers; a waiting reader at the head means a writer holds it or `max_readers` is reached -/
theorem rw_head_not_grantable (maxR : Nat) (ops : List RW.Op) (w : Nat × Bool) (ws : List (Nat × Bool))
    (h : (RW.run { maxR := maxR } ops).waiters = w :: ws) :
    (w.2 = true → ((RW.run { maxR := maxR } ops).writer = true ∨ 0 < (RW.run { maxR := maxR } ops).readers)) ∧
    (w.2 = false → ((RW.run { maxR := maxR } ops).writer = true ∨ RW.atMax (RW.run { maxR := maxR } ops) = true)) :=
  (RW.run_inv _ ops (RW.init_inv maxR)).head w ws h

example : (RW.run { maxR := 1 } [.acquireRead 0, .acquireRead 1]).waiters = [(1, false)] := by decide

/-! ## Semaphore -/

/-- permits out never exceed the capacity and never go negative: `0 ≤ available ≤ capacity` -/
theorem sem_count_bounds (cap : Int) (hcap : 0 < cap) (ops : List Sem.Op) :
    0 ≤ (Sem.run (Sem.St.init cap) ops).count ∧ (Sem.run (Sem.St.init cap) ops).count ≤ cap := by
  have inv := Sem.run_inv _ ops (Sem.init_inv cap hcap)
  have := inv.hi
  rw [Sem.run_cap] at this
  exact ⟨inv.lo, this⟩

example : (Sem.run (Sem.St.init 2) [.acquire 0 2, .acquire 1 1, .release 1]).count = 0 := by decide

/-- "as soon as capacity allows": the head of the semaphore queue never fits the free permits -/
theorem sem_head_not_grantable (cap : Int) (hcap : 0 < cap) (ops : List Sem.Op) (w : Nat × Int) (ws : List (Nat × Int))
    (h : (Sem.run (Sem.St.init cap) ops).waiters = w :: ws) : (Sem.run (Sem.St.init cap) ops).count < w.2 :=
  (Sem.run_inv _ ops (Sem.init_inv cap hcap)).headBlocked w ws h

example : (Sem.run (Sem.St.init 2) [.acquire 0 2, .acquire 1 1]).waiters = [(1, 1)] := by decide

/-! ## ConnectionPool (repaired: the slot is reserved when the set-up starts) -/

/-- never more connections (existing or being set up) than `max_connections`, for every interleaving
    of acquire segments, set-up completions, polls, timeouts, releases, abandonments, idle-timeout checks
    and warm-up segments -/
theorem pool_total_le_max (max : Nat) (ops : List Pool.Op) :
    (Pool.run { max := max } ops).total ≤ max
    ∧ (Pool.run { max := max } ops).active.length ≤ max := by
  have inv := Pool.run_inv _ ops (Pool.init_inv max)
  have h1 := inv.bound
  have h2 := inv.conserve
  rw [Pool.run_max] at h1
  have h1' : (Pool.run { max := max } ops).total ≤ max := h1
  exact ⟨h1', by omega⟩

/-- active + idle + (set-ups in flight) = total -/
theorem pool_conservation (max : Nat) (ops : List Pool.Op) :
    (Pool.run { max := max } ops).active.length + (Pool.run { max := max } ops).idle.length
      + (Pool.run { max := max } ops).creating = (Pool.run { max := max } ops).total :=
  (Pool.run_inv _ ops (Pool.init_inv max)).conserve

example : (Pool.run { max := 2 } [.acq 0, .acq 1, .acq 2, .made 0, .made 1, .rel 1, .poll 2]).total = 2
    ∧ (Pool.run { max := 2 } [.acq 0, .acq 1, .acq 2, .made 0, .made 1, .rel 1, .poll 2]).waiters = [] := by decide

/-- "as soon as capacity allows": somebody waits only while there is no idle connection and the
    pool is at its maximum — along every interleaving of the classic segments (acquire, set-up
    completion, poll, time-out, release).  Once an acquirer is abandoned or warm-up runs, capacity can come
    back while calls are queued; then the first waiter takes it at its next poll
    (`pool_head_helps_itself`), and the Spec judge allows exactly that (`pool_trace_satisfies_spec`). -/
theorem pool_head_not_grantable (max : Nat) (ops : List Pool.Op) (hc : ops.all Pool.Op.classic = true)
    (h : (Pool.run { max := max } ops).waiters ≠ []) :
    (Pool.run { max := max } ops).idle = [] ∧ (Pool.run { max := max } ops).total = max :=
  Pool.pool_head_not_grantable_classic max ops hc h

example : [Pool.Op.acq 0, .acq 1].all Pool.Op.classic = true
    ∧ (Pool.run { max := 1 } [.acq 0, .acq 1]).waiters ≠ [] := by decide

/-- the hypothesis is needed: after an abandoned set-up call 1 is queued although the slot is free again -/
example : (Pool.run { max := 1 } [.acq 0, .acq 1, .abandon 0]).waiters ≠ []
    ∧ (Pool.run { max := 1 } [.acq 0, .acq 1, .abandon 0]).total = 0 := by decide

/-- the unrepaired counting rule (`reserve = false`: `total` counted only after the set-up latency)
    breaks the bound: three acquirers arriving during one set-up with `max_connections = 1` end up with
    three connections (DESIGN §9 item 15; corpus/C09/pool-overshoot-during-setup.json) -/
theorem pool_overshoots_max_current :
    (Pool.run { max := 1, reserve := false } [.acq 0, .acq 1, .acq 2, .made 0, .made 1, .made 2]).total = 3
    ∧ (Pool.run { max := 1, reserve := false } [.acq 0, .acq 1, .acq 2, .made 0, .made 1, .made 2]).active.length = 3 := by
  decide

/-! ## Concurrency limiters (`FixedConcurrency`, `WeightedConcurrency`, `DynamicConcurrency`) -/

/-- fixed and weighted limiters: `0 ≤ active ≤ limit` after every operation list (weights arbitrary,
    including malformed ones, releases without acquires included) -/
theorem limiter_active_le_limit (kind : Nat) (hk : kind ≠ 1) (limit : Int) (hl : 0 ≤ limit) (ops : List Conc.Op) :
    0 ≤ (Conc.run { kind := kind, limit := limit } ops).active
    ∧ (Conc.run { kind := kind, limit := limit } ops).active ≤ limit := by
  have h := Conc.run_inv { kind := kind, limit := limit } ops ⟨hk, by simp, by simpa using hl⟩
  have := h.1.hi
  rw [h.2] at this
  exact ⟨h.1.lo, this⟩

example : (Conc.run { kind := 2, limit := 3 } [.acquire 2, .acquire 2, .acquire 1, .release 5, .acquire 3]).active = 3 := by
  decide

/-- every limiter, in every state (also a dynamic one whose limit was lowered below the running
    requests): an acquire is granted only if the result stays within the current limit -/
theorem limiter_grant_respects_limit (s : Conc.St) (w : Int) (h : (Conc.step s (.acquire w)).2 = .granted) :
    (Conc.step s (.acquire w)).1.active ≤ s.limit :=
  Conc.grant_respects_limit s w h

example : (Conc.step { kind := 1, limit := 2, active := 1 } (.acquire 1)).2 = .granted := by decide

end HappyModel.C09
