import HappyProofs.C09.PreemptCbStep
/-! PreemptibleResource with re-entrant `on_preempt` callbacks: the property theorems, for every capacity, every
operation list, **every table of callback programs** (releases of any grant, nested acquires with or without
preemption, queries — nested to any depth, even cyclically) and every amount of fuel, i.e. at every tick boundary of
every run. -/
namespace HappyModel.C09.PreemptCb
open HappyModel.C09.Preempt

theorem init_agree (cap : Int) (h : 0 < cap) (ops : List Act) : Agree cap {} (M.init cap ops) :=
  { core := init_core cap h
    calls := rfl
    head := fun _ => (init_inv cap h).head
    ret := ⟨List.nodup_nil, (fun _ h => by cases h), (fun _ h => by cases h)⟩
    valid := by
      intro f hf
      simp [M.init] at hf
      rw [hf]; trivial }

theorem drain_agree (cap : Int) (cnt : Bool) (P : Progs) : ∀ (n : Nat) (j : JB) (m : M), Agree cap j m →
    judge cap j ((drain P n m).2.map (cobs cnt)) = none ∧ ∃ j', Agree cap j' (drain P n m).1 := by
  intro n
  induction n with
  | zero => intro j m ag; exact ⟨rfl, j, ag⟩
  | succ n ih =>
    intro j m ag
    by_cases hs : m.stack = []
    · simp only [drain, hs, if_true]
      exact ⟨rfl, j, ag⟩
    · have st := tick_step cap cnt P j m ag
      unfold Step at st
      simp only [drain, hs, if_false]
      cases h2 : (tick P m).2 with
      | none =>
        rw [h2] at st
        exact ih j _ st
      | some e =>
        rw [h2] at st
        obtain ⟨j', ha, hc, ag'⟩ := st
        obtain ⟨h1, hj⟩ := ih j' _ ag'
        refine ⟨?_, hj⟩
        simp only [List.map_cons, judge, ha, hc]
        exact h1

end HappyModel.C09.PreemptCb

namespace HappyModel.C09
open Preempt PreemptCb

/-- **Conservation with re-entrant callbacks.**  Whatever the victims' `on_preempt` callbacks do to the resource
    (release themselves, each other, the preemptor's peers; acquire what was just freed; preempt again), after every
    tick — in particular at every observation made inside a callback and right after the preempting acquire returns —
    `available + Σ held amounts = capacity`. -/
theorem preempt_cb_conservation (cap : Int) (hcap : 0 < cap) (P : Progs) (ops : List Act) (n : Nat) :
    (drain P n (M.init cap ops)).1.s.avail + amtSum (drain P n (M.init cap ops)).1.s.active = cap := by
  obtain ⟨_, j, ag⟩ := drain_agree cap true P n {} _ (PreemptCb.init_agree cap hcap ops)
  have := ag.core.num.conserve
  rw [ag.core.cap] at this
  exact this

/-- **Never more held than the capacity, never more available than the capacity** — with re-entrant callbacks. -/
theorem preempt_cb_held_le_capacity (cap : Int) (hcap : 0 < cap) (P : Progs) (ops : List Act) (n : Nat) :
    amtSum (drain P n (M.init cap ops)).1.s.active ≤ cap ∧
    0 ≤ (drain P n (M.init cap ops)).1.s.avail ∧ (drain P n (M.init cap ops)).1.s.avail ≤ cap := by
  obtain ⟨_, j, ag⟩ := drain_agree cap true P n {} _ (PreemptCb.init_agree cap hcap ops)
  have h1 := ag.core.num.conserve
  rw [ag.core.cap] at h1
  have h2 := ag.core.num.availNonneg
  have h3 := amtSum_nonneg _ ag.core.num.actPos
  omega

/-- **A grant's amount is returned at most once** (`release()` is idempotent, also from inside a callback; a release
    of a preempted grant and a preemption of a released grant are no-ops): the log of returned amounts never holds an
    id twice, and a further `release` of any id in it changes nothing. -/
theorem preempt_release_idempotent (cap : Int) (hcap : 0 < cap) (P : Progs) (ops : List Act) (n : Nat) :
    (drain P n (M.init cap ops)).1.retLog.Nodup ∧
    ∀ id ∈ (drain P n (M.init cap ops)).1.retLog, ∀ ctx,
      (doAct (drain P n (M.init cap ops)).1 ctx (.rel id)).1 = (drain P n (M.init cap ops)).1 := by
  obtain ⟨_, j, ag⟩ := drain_agree cap true P n {} _ (PreemptCb.init_agree cap hcap ops)
  refine ⟨ag.ret.nodup, ?_⟩
  intro id hid ctx
  have hnone : (drain P n (M.init cap ops)).1.s.active.find? (·.id == id) = none := by
    rw [List.find?_eq_none]
    intro g hg hgi
    have : g.id = id := by simpa using hgi
    exact ag.ret.dead g hg (this ▸ hid)
  simp only [doAct, hnone]

/-- **The model's transcript satisfies the Spec judge — with callbacks.**  For every capacity, EVERY operation list
    and EVERY table of callback programs, the executable judge that is run on implementation transcripts
    (`PreemptCb.judge`, called by `Extra.judgePreemptCb`: conservation and `available ≤ capacity` after every
    observation including those made inside callbacks, every amount returned once, victims of strictly lower priority
    and no more than needed, lowest priority first among the snapshot's live members, waiters woken strictly from the
    head, flags and statistics) accepts the transcript of the re-entrant machine; `cnt` = nested lines carry counters. -/
theorem preempt_cb_trace_satisfies_spec (cap : Int) (hcap : 0 < cap) (P : Progs) (ops : List Act) (n : Nat) (cnt : Bool) :
    PreemptCb.judge cap {} ((drain P n (M.init cap ops)).2.map (cobs cnt)) = none :=
  (drain_agree cap cnt P n {} _ (PreemptCb.init_agree cap hcap ops)).1

/-! ### non-vacuity: a victim whose callback releases itself, its co-victim and then acquires what it freed -/

/-- capacity 2: grants 0 and 1 (priority 5; 0's callback = release own grant, release grant 1, acquire 1 unit at
    priority 9, query), then `acquire(2, priority=1)` -/
def demoP : Progs := [[.rel 0, .rel 1, .acq 1 9 false 7, .query]]
def demoOps : List Act := [.acq 1 5 false 0, .acq 1 5 false 7, .acq 2 1 true 7, .rel 2]

-- both amounts came back exactly once (0 by eviction, 1 by the callback's release), the nested acquire (call id 2)
-- took one of the freed units, so the preemptor (call id 3) is queued
example : (drain demoP 40 (M.init 2 demoOps)).1.retLog = [0, 1, 2] := by decide
example : (drain demoP 40 (M.init 2 demoOps)).1.s.active.map G.id = [3] := by decide
example : (drain demoP 40 (M.init 2 demoOps)).1.gone = [0] := by decide
example : (drain demoP 40 (M.init 2 demoOps)).1.stack = [] := by decide
-- the observations: two grants, then inside the callback of 0: fired, three calls, a query; the preemptor; the release
example : (drain demoP 40 (M.init 2 demoOps)).2.map (·.ctx) =
    [none, none, some 0, some 0, some 0, some 0, some 0, none, none] := by decide
example : (drain demoP 40 (M.init 2 demoOps)).2.map (·.o.res) =
    [.granted, .granted, .noop, .noop, .released, .granted, .noop, .queued, .released] := by decide

end HappyModel.C09
