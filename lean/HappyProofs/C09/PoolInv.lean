import HappyModel.C09.Pool
/-! Invariants of the repaired connection-pool model (`reserve = true`). -/
namespace HappyModel.C09.Pool

structure Inv (s : St) : Prop where
  res : s.reserve = true
  bound : s.total ≤ s.max
  conserve : s.active.length + s.idle.length + s.creating = s.total
  head : s.waiters ≠ [] → s.idle = [] ∧ s.total = s.max

theorem init_inv (max : Nat) : Inv { max := max } := ⟨rfl, Nat.zero_le _, rfl, by simp⟩

theorem step_acq (s : St) (id : Nat) : step s (.acq id) =
    match s.idle with
    | c :: rest => ({ s with idle := rest, active := s.active ++ [c] }, .idle c)
    | [] =>
      if s.total < s.max then
        ({ s with creating := s.creating + 1, total := if s.reserve then s.total + 1 else s.total }, .creating)
      else ({ s with waiters := s.waiters ++ [id] }, .waiting) := rfl

theorem step_made (s : St) (id : Nat) : step s (.made id) =
    if s.creating = 0 then (s, .bad)
    else
      ({ s with creating := s.creating - 1, nextConn := s.nextConn + 1,
                total := if s.reserve then s.total else s.total + 1,
                active := s.active ++ [s.nextConn + 1] }, .conn (s.nextConn + 1)) := rfl

theorem step_poll (s : St) (id : Nat) : step s (.poll id) =
    match s.handed.find? (·.1 == id) with
    | some h => ({ s with handed := s.handed.filter (·.1 != id) }, .got h.2)
    | none => (s, .wait) := rfl

theorem step_timeout (s : St) (id : Nat) : step s (.timeout id) =
    if (s.handed.find? (·.1 == id)).isSome then (s, .bad)
    else ({ s with waiters := s.waiters.filter (· != id) }, .timedOut) := rfl

theorem step_rel (s : St) (c : Nat) : step s (.rel c) =
    if !s.active.contains c then (s, .unknown)
    else match s.waiters with
      | w :: ws => ({ s with waiters := ws, handed := s.handed ++ [(w, c)] }, .handoff w)
      | [] => ({ s with active := s.active.erase c, idle := s.idle ++ [c] }, .toIdle) := rfl

theorem step_inv (s : St) (o : Op) (inv : Inv s) : Inv (step s o).1 := by
  have hres := inv.res
  have hb := inv.bound
  have hc := inv.conserve
  cases o with
  | acq id =>
    rw [step_acq]
    split
    · rename_i c rest hi
      have hw : s.waiters = [] := by
        cases hq : s.waiters with
        | nil => rfl
        | cons w ws => have := (inv.head (by rw [hq]; simp)).1; rw [hi] at this; cases this
      refine ⟨hres, hb, ?_, ?_⟩
      · rw [hi] at hc; simp at hc ⊢; omega
      · intro h; exact absurd hw h
    · rename_i hi
      split
      · rename_i hlt
        have hw : s.waiters = [] := by
          cases hq : s.waiters with
          | nil => rfl
          | cons w ws => have := (inv.head (by rw [hq]; simp)).2; omega
        refine ⟨hres, ?_, ?_, ?_⟩
        · simp only [hres, if_true]; omega
        · simp only [hres, if_true]; omega
        · intro h; exact absurd hw h
      · rename_i hge
        refine ⟨hres, hb, hc, ?_⟩
        intro _; exact ⟨hi, by show s.total = s.max; omega⟩
  | made id =>
    rw [step_made]
    split
    · exact inv
    · rename_i hcr
      refine ⟨hres, ?_, ?_, inv.head⟩
      · simp only [hres, if_true]; exact hb
      · simp only [hres, if_true, List.length_append, List.length_singleton]; omega
  | poll id =>
    rw [step_poll]
    split
    · exact ⟨hres, hb, hc, inv.head⟩
    · exact inv
  | timeout id =>
    rw [step_timeout]
    split
    · exact inv
    · refine ⟨hres, hb, hc, ?_⟩
      intro h
      apply inv.head
      intro hq
      apply h
      show s.waiters.filter (· != id) = []
      rw [hq]; rfl
  | rel c =>
    rw [step_rel]
    split
    · exact inv
    · rename_i hact
      have hmem : c ∈ s.active := by simpa using hact
      split
      · rename_i w ws hq
        refine ⟨hres, hb, hc, ?_⟩
        intro _
        exact inv.head (by rw [hq]; simp)
      · rename_i hq
        refine ⟨hres, hb, ?_, ?_⟩
        · have hl := List.length_erase_of_mem hmem
          have hpos : 0 < s.active.length := List.length_pos_of_mem hmem
          simp only [List.length_append, List.length_singleton]
          rw [hl]; omega
        · intro h; exact absurd hq h

theorem run_inv (s : St) (ops : List Op) (inv : Inv s) : Inv (run s ops) := by
  induction ops generalizing s with
  | nil => exact inv
  | cons o os ih => exact ih _ (step_inv s o inv)

theorem step_max (s : St) (o : Op) : (step s o).1.max = s.max := by
  cases o with
  | acq id => rw [step_acq]; split; · rfl
              split <;> rfl
  | made id => rw [step_made]; split <;> rfl
  | poll id => rw [step_poll]; split <;> rfl
  | timeout id => rw [step_timeout]; split <;> rfl
  | rel c => rw [step_rel]; split; · rfl
             split <;> rfl

theorem run_max (s : St) (ops : List Op) : (run s ops).max = s.max := by
  induction ops generalizing s with
  | nil => rfl
  | cons o os ih => simp [run, ih, step_max]

end HappyModel.C09.Pool
