import HappyModel.C09.Pool
/-! Invariants of the repaired connection-pool model (`reserve = true`) for all nine segments.
`Inv0` is the part that does not need count conservation (slot bound, set-up split, `min ≤ max`);
`Inv` adds conservation.  Both are preserved by every segment in every state. -/
namespace HappyModel.C09.Pool

/-- the part of the invariant that does not mention the connection lists -/
structure Inv0 (s : St) : Prop where
  res : s.reserve = true
  bound : s.total ≤ s.max
  split : s.creating = s.creators.length + s.wflight
  minle : s.min ≤ s.max

structure Inv (s : St) : Prop where
  res : s.reserve = true
  bound : s.total ≤ s.max
  conserve : s.active.length + s.idle.length + s.creating = s.total
  split : s.creating = s.creators.length + s.wflight
  minle : s.min ≤ s.max

theorem Inv.inv0 {s : St} (h : Inv s) : Inv0 s := ⟨h.res, h.bound, h.split, h.minle⟩

theorem init_inv' (max min : Nat) (h : min ≤ max) : Inv { max := max, min := min } :=
  ⟨rfl, Nat.zero_le _, rfl, rfl, h⟩

theorem init_inv (max : Nat) : Inv { max := max } := init_inv' max 0 (Nat.zero_le _)

/-! ### definitional unfoldings -/

theorem step_acq (s : St) (id : Nat) : step s (.acq id) =
    match s.idle with
    | c :: rest => ({ s with idle := rest, active := s.active ++ [c] }, .idle c)
    | [] =>
      if s.total < s.max then (startCreate s id, .creating)
      else ({ s with waiters := s.waiters ++ [id] }, .waiting) := rfl

theorem step_made (s : St) (id : Nat) : step s (.made id) =
    if !s.creators.contains id then (s, .bad)
    else
      ({ s with creating := s.creating - 1, creators := s.creators.erase id, nextConn := s.nextConn + 1,
                total := if s.reserve then s.total else s.total + 1,
                active := s.active ++ [s.nextConn + 1] }, .conn (s.nextConn + 1)) := rfl

theorem step_poll (s : St) (id : Nat) : step s (.poll id) =
    match s.handed.find? (·.1 == id) with
    | some h => ({ s with handed := s.handed.filter (·.1 != id) }, .got h.2)
    | none =>
      if s.waiters.head? != some id then (s, .wait)
      else match s.idle with
        | c :: rest => ({ s with waiters := s.waiters.tail, idle := rest, active := s.active ++ [c] }, .idle c)
        | [] =>
          if s.total < s.max then (startCreate { s with waiters := s.waiters.tail } id, .creating)
          else (s, .wait) := rfl

theorem step_timeout (s : St) (id : Nat) : step s (.timeout id) =
    if (s.handed.find? (·.1 == id)).isSome then (s, .bad)
    else ({ s with waiters := s.waiters.filter (· != id) }, .timedOut) := rfl

theorem step_rel (s : St) (c : Nat) : step s (.rel c) =
    if !s.active.contains c then (s, .unknown) else giveBack s c := rfl

theorem step_abandon (s : St) (id : Nat) : step s (.abandon id) =
    if s.creators.contains id then
      ({ s with creating := s.creating - 1, creators := s.creators.erase id,
                total := if s.reserve then s.total - 1 else s.total }, .rolledBack)
    else match s.handed.find? (·.1 == id) with
      | some h =>
        if !s.active.contains h.2 then ({ s with handed := s.handed.filter (·.1 != id) }, .nothing)
        else giveBack { s with handed := s.handed.filter (·.1 != id) } h.2
      | none =>
        if s.waiters.contains id then ({ s with waiters := s.waiters.filter (· != id) }, .dequeued)
        else (s, .nothing) := rfl

theorem step_idleCheck (s : St) (c e : Nat) : step s (.idleCheck c e) =
    if s.idle.contains c && stampOf s.stamp c == some e then
      if s.min < s.total then
        ({ s with idle := s.idle.erase c, total := s.total - 1, closed := s.closed ++ [c] }, .closed)
      else (s, .kept)
    else (s, .stale) := rfl

theorem step_warm (s : St) : step s .warm =
    if s.total < s.min then
      ({ s with creating := s.creating + 1, wflight := s.wflight + 1,
                total := if s.reserve then s.total + 1 else s.total }, .creating)
    else (s, .done) := rfl

theorem step_wmade (s : St) : step s .wmade =
    if s.wflight = 0 then (s, .bad)
    else
      ({ s with creating := s.creating - 1, wflight := s.wflight - 1, nextConn := s.nextConn + 1,
                total := if s.reserve then s.total else s.total + 1,
                idle := s.idle ++ [s.nextConn + 1], stamp := setStamp s.stamp (s.nextConn + 1) s.now },
       .conn (s.nextConn + 1)) := rfl

theorem giveBack_eq (s : St) (c : Nat) : giveBack s c =
    match s.waiters with
    | w :: ws => ({ s with waiters := ws, handed := s.handed ++ [(w, c)] }, .handoff w)
    | [] => ({ s with active := s.active.erase c, idle := s.idle ++ [c], stamp := setStamp s.stamp c s.now },
             .toIdle) := rfl

/-! ### `Inv0`: every segment, every state -/

theorem giveBack_inv0 (s : St) (c : Nat) (inv : Inv0 s) : Inv0 (giveBack s c).1 := by
  rw [giveBack_eq]
  split <;> exact ⟨inv.res, inv.bound, inv.split, inv.minle⟩

theorem creators_pos {s : St} {id : Nat} (h : s.creators.contains id = true) :
    id ∈ s.creators ∧ 0 < s.creators.length := by
  have hm : id ∈ s.creators := List.contains_iff_mem.1 h
  exact ⟨hm, List.length_pos_of_mem hm⟩

theorem step_inv0 (s : St) (o : Op) (inv : Inv0 s) : Inv0 (step s o).1 := by
  obtain ⟨hres, hb, hs, hm⟩ := inv
  cases o with
  | acq id =>
    rw [step_acq]
    split
    · exact ⟨hres, hb, hs, hm⟩
    · split
      · refine ⟨hres, ?_, ?_, hm⟩
        · simp only [startCreate, hres, if_true]; omega
        · simp only [startCreate, List.length_append, List.length_singleton]; omega
      · exact ⟨hres, hb, hs, hm⟩
  | made id =>
    rw [step_made]
    split
    · exact ⟨hres, hb, hs, hm⟩
    · rename_i hc
      have hc' : s.creators.contains id = true := by simpa using hc
      obtain ⟨hmem, hpos⟩ := creators_pos hc'
      refine ⟨hres, ?_, ?_, hm⟩
      · exact hb
      · simp only [List.length_erase_of_mem hmem]; omega
  | poll id =>
    rw [step_poll]
    split
    · exact ⟨hres, hb, hs, hm⟩
    · split
      · exact ⟨hres, hb, hs, hm⟩
      · split
        · exact ⟨hres, hb, hs, hm⟩
        · split
          · refine ⟨hres, ?_, ?_, hm⟩
            · simp only [startCreate, hres, if_true]; omega
            · simp only [startCreate, List.length_append, List.length_singleton]; omega
          · exact ⟨hres, hb, hs, hm⟩
  | timeout id =>
    rw [step_timeout]
    split <;> exact ⟨hres, hb, hs, hm⟩
  | rel c =>
    rw [step_rel]
    split
    · exact ⟨hres, hb, hs, hm⟩
    · exact giveBack_inv0 _ _ ⟨hres, hb, hs, hm⟩
  | abandon id =>
    rw [step_abandon]
    split
    · rename_i hc
      obtain ⟨hmem, hpos⟩ := creators_pos hc
      refine ⟨hres, ?_, ?_, hm⟩
      · dsimp only; omega
      · simp only [List.length_erase_of_mem hmem]; omega
    · split
      · split
        · exact ⟨hres, hb, hs, hm⟩
        · exact giveBack_inv0 _ _ ⟨hres, hb, hs, hm⟩
      · split <;> exact ⟨hres, hb, hs, hm⟩
  | idleCheck c e =>
    rw [step_idleCheck]
    split
    · split
      · refine ⟨hres, ?_, hs, hm⟩
        show s.total - 1 ≤ s.max
        omega
      · exact ⟨hres, hb, hs, hm⟩
    · exact ⟨hres, hb, hs, hm⟩
  | warm =>
    rw [step_warm]
    split
    · refine ⟨hres, ?_, ?_, hm⟩
      · dsimp only; omega
      · show s.creating + 1 = s.creators.length + (s.wflight + 1)
        omega
    · exact ⟨hres, hb, hs, hm⟩
  | wmade =>
    rw [step_wmade]
    split
    · exact ⟨hres, hb, hs, hm⟩
    · refine ⟨hres, ?_, ?_, hm⟩
      · exact hb
      · show s.creating - 1 = s.creators.length + (s.wflight - 1)
        omega

/-! ### conservation -/

theorem giveBack_conserve (s : St) (c : Nat) (hm : c ∈ s.active)
    (hc : s.active.length + s.idle.length + s.creating = s.total) :
    (giveBack s c).1.active.length + (giveBack s c).1.idle.length + (giveBack s c).1.creating
      = (giveBack s c).1.total := by
  rw [giveBack_eq]
  split
  · exact hc
  · have hl := List.length_erase_of_mem hm
    have hpos : 0 < s.active.length := List.length_pos_of_mem hm
    simp only [List.length_append, List.length_singleton]
    rw [hl]; omega

theorem step_inv (s : St) (o : Op) (inv : Inv s) : Inv (step s o).1 := by
  have i0 := step_inv0 s o inv.inv0
  refine ⟨i0.res, i0.bound, ?_, i0.split, i0.minle⟩
  have hres := inv.res
  have hc := inv.conserve
  have hs := inv.split
  cases o with
  | acq id =>
    rw [step_acq]
    split
    · rename_i c rest hi
      rw [hi] at hc
      simp only [List.length_append, List.length_cons, List.length_nil] at hc ⊢
      omega
    · split
      · simp only [startCreate, hres, if_true]; omega
      · exact hc
  | made id =>
    rw [step_made]
    split
    · exact hc
    · rename_i hcr
      have hcr' : s.creators.contains id = true := by simpa using hcr
      obtain ⟨_, hpos⟩ := creators_pos hcr'
      simp only [List.length_append, List.length_singleton]; omega
  | poll id =>
    rw [step_poll]
    split
    · exact hc
    · split
      · exact hc
      · split
        · rename_i c rest hi
          rw [hi] at hc
          simp only [List.length_append, List.length_cons, List.length_nil] at hc ⊢
          omega
        · split
          · simp only [startCreate, hres, if_true]; omega
          · exact hc
  | timeout id =>
    rw [step_timeout]
    split <;> exact hc
  | rel c =>
    rw [step_rel]
    split
    · exact hc
    · rename_i hact
      have hmem : c ∈ s.active := by simpa using hact
      exact giveBack_conserve s c hmem hc
  | abandon id =>
    rw [step_abandon]
    split
    · rename_i hcr
      obtain ⟨_, hpos⟩ := creators_pos hcr
      dsimp only; omega
    · split
      · rename_i h hf
        split
        · exact hc
        · rename_i hact
          have hmem : h.2 ∈ s.active := by simpa using hact
          exact giveBack_conserve { s with handed := s.handed.filter (·.1 != id) } h.2 hmem hc
      · split <;> exact hc
  | idleCheck c e =>
    rw [step_idleCheck]
    split
    · rename_i hcond
      split
      · rename_i hlt
        have hmem : c ∈ s.idle := by
          simp only [Bool.and_eq_true] at hcond
          exact List.contains_iff_mem.1 hcond.1
        have hl := List.length_erase_of_mem hmem
        have hpos : 0 < s.idle.length := List.length_pos_of_mem hmem
        show s.active.length + (s.idle.erase c).length + s.creating = s.total - 1
        rw [hl]; omega
      · exact hc
    · exact hc
  | warm =>
    rw [step_warm]
    split
    · dsimp only; omega
    · exact hc
  | wmade =>
    rw [step_wmade]
    split
    · exact hc
    · rename_i hw
      simp only [List.length_append, List.length_singleton]; omega

/-! ### runs -/

theorem run_inv0 (s : St) (ops : List Op) (inv : Inv0 s) : Inv0 (run s ops) := by
  induction ops generalizing s with
  | nil => exact inv
  | cons o os ih => exact ih _ (step_inv0 s o inv)

theorem run_inv (s : St) (ops : List Op) (inv : Inv s) : Inv (run s ops) := by
  induction ops generalizing s with
  | nil => exact inv
  | cons o os ih => exact ih _ (step_inv s o inv)

theorem inv0_now {s : St} (t : Nat) (inv : Inv0 s) : Inv0 { s with now := t } :=
  ⟨inv.res, inv.bound, inv.split, inv.minle⟩

theorem inv_now {s : St} (t : Nat) (inv : Inv s) : Inv { s with now := t } :=
  ⟨inv.res, inv.bound, inv.conserve, inv.split, inv.minle⟩

theorem stepAt_inv0 (s : St) (t : Nat) (o : Op) (inv : Inv0 s) : Inv0 (stepAt s t o).1 :=
  step_inv0 _ o (inv0_now t inv)

theorem stepAt_inv (s : St) (t : Nat) (o : Op) (inv : Inv s) : Inv (stepAt s t o).1 :=
  step_inv _ o (inv_now t inv)

theorem runAt_inv0 (s : St) (ops : List (Nat × Op)) (inv : Inv0 s) : Inv0 (runAt s ops) := by
  induction ops generalizing s with
  | nil => exact inv
  | cons e os ih => exact ih _ (stepAt_inv0 s e.1 e.2 inv)

theorem runAt_inv (s : St) (ops : List (Nat × Op)) (inv : Inv s) : Inv (runAt s ops) := by
  induction ops generalizing s with
  | nil => exact inv
  | cons e os ih => exact ih _ (stepAt_inv s e.1 e.2 inv)

/-! ### `max` and `min` never change -/

theorem step_max (s : St) (o : Op) : (step s o).1.max = s.max := by
  cases o <;> simp only [step, giveBack, startCreate] <;> (repeat' split) <;> rfl

theorem step_min (s : St) (o : Op) : (step s o).1.min = s.min := by
  cases o <;> simp only [step, giveBack, startCreate] <;> (repeat' split) <;> rfl

theorem run_max (s : St) (ops : List Op) : (run s ops).max = s.max := by
  induction ops generalizing s with
  | nil => rfl
  | cons o os ih => simp [run, ih, step_max]

theorem run_min (s : St) (ops : List Op) : (run s ops).min = s.min := by
  induction ops generalizing s with
  | nil => rfl
  | cons o os ih => simp [run, ih, step_min]

theorem runAt_max (s : St) (ops : List (Nat × Op)) : (runAt s ops).max = s.max := by
  induction ops generalizing s with
  | nil => rfl
  | cons e os ih => simp [runAt, stepAt, ih, step_max]

theorem runAt_min (s : St) (ops : List (Nat × Op)) : (runAt s ops).min = s.min := by
  induction ops generalizing s with
  | nil => rfl
  | cons e os ih => simp [runAt, stepAt, ih, step_min]

end HappyModel.C09.Pool
