import HappyProofs.C09.BulkheadSpecB
/-! Bulkhead: the judge's books follow the driver (model state + engine layer) — the relation, and the
schedule lines that do not touch the model (`start`, `done`, `fin`). -/
namespace HappyModel.C09.Bulkhead
open HappyModel.C09.Extra (BPend)

/-- the judge's books (kept from observations only) against the model state and the driver's engine layer -/
structure Agree (b : Book) (s : St) (p : BPend) : Prop where
  toStart : b.toStart = p.starts
  running : b.running = p.running
  toResp : b.toResp = p.dones
  waiting : b.waiting = s.queue.map wf
  nTimed : b.timedOut.length = s.timedOut
  nAdm : b.admitted.length = s.accepted
  nReq : b.nReq = s.total
  nRej : b.nRej = s.rejected
  nQueued : b.nQueued = s.queued
  active : s.active = p.starts.length + p.running.length + p.dones.length

/-- caller tags: a request is in at most one stage; `seen` are the tags of all requests so far -/
structure Tags (b : Book) (s : St) (p : BPend) (seen : List Nat) : Prop where
  startsNd : (p.starts.map (·.1)).Nodup
  runNd : p.running.Nodup
  donesNd : (p.dones.map (·.1)).Nodup
  d12 : ∀ x ∈ p.starts.map (·.1), x ∉ p.running
  d13 : ∀ x ∈ p.starts.map (·.1), x ∉ p.dones.map (·.1)
  d23 : ∀ x ∈ p.running, x ∉ p.dones.map (·.1)
  s1 : ∀ x ∈ p.starts.map (·.1), x ∈ b.admitted
  s2 : ∀ x ∈ p.running, x ∈ b.admitted
  s3 : ∀ x ∈ p.dones.map (·.1), x ∈ b.admitted
  qNd : (qtags s).Nodup
  qAdm : ∀ x ∈ qtags s, x ∉ b.admitted
  qTo : ∀ x ∈ qtags s, x ∉ b.timedOut
  admSeen : ∀ x ∈ b.admitted, x ∈ seen
  toSeen : ∀ x ∈ b.timedOut, x ∈ seen
  qSeen : ∀ x ∈ qtags s, x ∈ seen
  tmSeen : ∀ e ∈ p.tmos, e.1 ∈ seen
  tmFresh : ∀ e ∈ p.tmos, e.2.1 ≤ s.nextId
  tmWait : ∀ e ∈ p.tmos, s.wait ≠ 0
  tmLink : ∀ e ∈ p.tmos, ∀ q ∈ s.queue, (q.bid = e.2.1 ↔ q.rid = e.1) ∧ (q.bid = e.2.1 → q.enq + s.wait = e.2.2)

/-- the peaks the judge derives are the peaks the model keeps -/
structure Peaks (b : Book) (s : St) : Prop where
  peakA : b.peakA = s.peakConc
  peakQ : b.peakQ = s.peakQueue
  geA : s.active ≤ s.peakConc
  geQ : s.queue.length ≤ s.peakQueue

/-- how the model's peaks move over one driver iteration -/
structure PeakEv (s s' : St) : Prop where
  evA : s'.peakConc = if s.peakConc < s'.active then s'.active else s.peakConc
  evQ : s'.peakQueue = if s.peakQueue < s'.queue.length then s'.queue.length else s.peakQueue

theorem PeakEv.same (s : St) (hA : s.active ≤ s.peakConc) (hQ : s.queue.length ≤ s.peakQueue) : PeakEv s s :=
  ⟨by rw [if_neg (by omega)], by rw [if_neg (by omega)]⟩

/-- the result of one line: the judge accepts the model's observation and its books still follow -/
def StepOK (max maxQ wait : Nat) (b : Book) (s : St) (p : BPend) (seen : List Nat) (c : Cmd) : Prop :=
  ∃ b', b.apply max maxQ wait (obsOf wait s p c) = .ok b'
    ∧ Agree b' (dstep wait s p c).1.1 (dstep wait s p c).1.2
    ∧ Tags b' (dstep wait s p c).1.1 (dstep wait s p c).1.2 (reqTags [c] ++ seen)
    ∧ b'.peakA = b.peakA ∧ b'.peakQ = b.peakQ
    ∧ PeakEv s (dstep wait s p c).1.1

theorem start_ok (max maxQ wait : Nat) (b : Book) (s : St) (p : BPend) (seen : List Nat) (t rid : Nat)
    (ag : Agree b s p) (tg : Tags b s p seen) (pk : Peaks b s) (hexp : expected s p (.start t rid) = true) :
    StepOK max maxQ wait b s p seen (.start t rid) := by
  have hc : p.starts.contains (rid, t) = true := hexp
  have hm : (rid, t) ∈ p.starts := List.contains_iff_mem.mp hc
  have hl := tag_lookup p.starts rid t tg.startsNd hm
  have hlen := filter_ne_length_nodup p.starts (rid, t) (nodup_of_map _ _ tg.startsNd) hm
  have hrid : rid ∈ p.starts.map (·.1) := List.mem_map.mpr ⟨(rid, t), hm, rfl⟩
  have hsub : ∀ x ∈ (p.starts.filter (· != (rid, t))).map (·.1), x ∈ p.starts.map (·.1) ∧ x ≠ rid := by
    intro x hx
    rw [hl.2] at hx
    obtain ⟨y, hy, rfl⟩ := List.mem_map.mp hx
    rw [List.mem_filter] at hy
    exact ⟨List.mem_map_of_mem hy.1, by simpa using hy.2⟩
  simp only [StepOK, obsOf, dstep, hc, if_true]
  refine ⟨{ b with toStart := b.toStart.filter (·.1 != rid), running := b.running ++ [rid] }, ?_, ?_, ?_, rfl, rfl,
          PeakEv.same s pk.geA pk.geQ⟩
  · simp only [Book.apply, cnt, ag.toStart, hl.1]
    simp
  · refine ⟨?_, by simp [ag.running], ag.toResp, ag.waiting, ag.nTimed, ag.nAdm, ag.nReq, ag.nRej, ag.nQueued, ?_⟩
    · show b.toStart.filter (·.1 != rid) = p.starts.filter (· != (rid, t))
      rw [ag.toStart, hl.2]
    · show s.active = (p.starts.filter (· != (rid, t))).length + (p.running ++ [rid]).length + p.dones.length
      have := ag.active; simp; omega
  · refine ⟨?_, ?_, tg.donesNd, ?_, ?_, ?_, ?_, ?_, tg.s3, tg.qNd, tg.qAdm, tg.qTo, tg.admSeen, tg.toSeen, tg.qSeen,
            tg.tmSeen, tg.tmFresh, tg.tmWait, tg.tmLink⟩
    · show ((p.starts.filter (· != (rid, t))).map (·.1)).Nodup
      exact List.Nodup.sublist (List.Sublist.map _ List.filter_sublist) tg.startsNd
    · exact nodup_snoc _ _ tg.runNd (tg.d12 rid hrid)
    · intro x hx hr
      have := hsub x hx
      rcases List.mem_append.mp hr with h | h
      · exact tg.d12 x this.1 h
      · simp at h; exact this.2 h
    · intro x hx; exact tg.d13 x (hsub x hx).1
    · intro x hx
      rcases List.mem_append.mp hx with h | h
      · exact tg.d23 x h
      · simp at h; subst h; exact tg.d13 x hrid
    · intro x hx; exact tg.s1 x (hsub x hx).1
    · intro x hx
      rcases List.mem_append.mp hx with h | h
      · exact tg.s2 x h
      · simp at h; subst h; exact tg.s1 x hrid


theorem done_ok (max maxQ wait : Nat) (b : Book) (s : St) (p : BPend) (seen : List Nat) (t rid : Nat)
    (ag : Agree b s p) (tg : Tags b s p seen) (pk : Peaks b s) (hexp : expected s p (.done t rid) = true) :
    StepOK max maxQ wait b s p seen (.done t rid) := by
  have hc : p.running.contains rid = true := hexp
  have hm : rid ∈ p.running := List.contains_iff_mem.mp hc
  have hlen := filter_ne_length_nodup p.running rid tg.runNd hm
  have hsub : ∀ x ∈ p.running.filter (· != rid), x ∈ p.running ∧ x ≠ rid := by
    intro x hx
    rw [List.mem_filter] at hx
    exact ⟨hx.1, by simpa using hx.2⟩
  have hnot : rid ∉ p.starts.map (·.1) := fun h => tg.d12 rid h hm
  simp only [StepOK, obsOf, dstep, hc, if_true]
  refine ⟨{ b with running := b.running.filter (· != rid), toResp := b.toResp ++ [(rid, t)] }, ?_, ?_, ?_, rfl, rfl,
          PeakEv.same s pk.geA pk.geQ⟩
  · simp only [Book.apply, cnt, ag.running, hc]
    simp
  · refine ⟨ag.toStart, by simp [ag.running], by simp [ag.toResp], ag.waiting, ag.nTimed, ag.nAdm, ag.nReq, ag.nRej,
            ag.nQueued, ?_⟩
    show s.active = p.starts.length + (p.running.filter (· != rid)).length + (p.dones ++ [(rid, t)]).length
    have := ag.active; simp; omega
  · refine ⟨tg.startsNd, nodup_filter _ _ tg.runNd, ?_, ?_, ?_, ?_, tg.s1, ?_, ?_, tg.qNd, tg.qAdm, tg.qTo, tg.admSeen,
            tg.toSeen, tg.qSeen, tg.tmSeen, tg.tmFresh, tg.tmWait, tg.tmLink⟩
    · show ((p.dones ++ [(rid, t)]).map (·.1)).Nodup
      rw [List.map_append]
      exact nodup_snoc _ _ tg.donesNd (tg.d23 rid hm)
    · intro x hx hr; exact tg.d12 x hx (hsub x hr).1
    · intro x hx hr
      have hr' : x ∈ p.dones.map (·.1) ++ [rid] := by simpa using hr
      rcases List.mem_append.mp hr' with h | h
      · exact tg.d13 x hx h
      · simp at h; subst h; exact hnot hx
    · intro x hx hr
      have hr' : x ∈ p.dones.map (·.1) ++ [rid] := by simpa using hr
      rcases List.mem_append.mp hr' with h | h
      · exact tg.d23 x (hsub x hx).1 h
      · simp at h; exact (hsub x hx).2 h
    · intro x hx; exact tg.s2 x (hsub x hx).1
    · intro x hx
      have hx' : x ∈ p.dones.map (·.1) ++ [rid] := by simpa using hx
      rcases List.mem_append.mp hx' with h | h
      · exact tg.s3 x h
      · simp at h; subst h; exact tg.s2 x hm

theorem fin_ok (max maxQ wait : Nat) (b : Book) (s : St) (p : BPend) (seen : List Nat) (t : Nat) (hw : s.wait = wait)
    (ag : Agree b s p) (tg : Tags b s p seen) (pk : Peaks b s) (hexp : expected s p (.fin t) = true) :
    StepOK max maxQ wait b s p seen (.fin t) := by
  simp only [expected, Bool.and_eq_true, Bool.or_eq_true, List.isEmpty_iff, beq_iff_eq] at hexp
  obtain ⟨⟨h1, h2⟩, h3⟩ := hexp
  simp only [StepOK, obsOf, dstep]
  refine ⟨b, ?_, ag, tg, rfl, rfl, PeakEv.same s pk.geA pk.geQ⟩
  have h3' : ¬ (wait ≠ 0 ∧ b.waiting ≠ []) := by
    rw [ag.waiting, ← hw]
    rcases h3 with h | h
    · simp [h]
    · simp [h]
  simp only [Book.apply, cnt, ag.toStart, ag.toResp, h1, h2]
  simp [h3']

end HappyModel.C09.Bulkhead
