import HappyProofs.C09.SemSpec
import HappyModel.C09.Driver
/-!
# C09 — Semaphore: the model's ENGINE-mode transcript satisfies the executable Spec predicate

Same construction as `EngineTrace.lean` (Mutex): the engine-mode transcript of the Semaphore model
as `Driver.runSem` prints it and `Driver.judgeSync` reads it back (`traceE`), the Bool schedule
well-formedness `wfE` on the driver's pending list, and `judgeSem cap true` returns `none` on every
well-formed schedule.  A release may wake several callers at once; they may resume in any order.
-/
namespace HappyModel.C09.Sync.Sem

inductive Cmd
  | op (t : Nat) (o : Op)
  | got (t : Nat) (id : Nat)
  | fin (t : Nat)
deriving Repr, DecidableEq

/-- the calls that become resumable by an operation, as `Driver.runSem` computes them -/
def newlyOf (o : Op) (out : Out) : List Nat :=
  match o with
  | .acquire id _ => Driver.newly true id out
  | _ => out.woke

def obsE (t : Nat) (o : Op) (out : Out) (s' : St) : Obs := { obsOf o out s' with t := t }

def cntObs (t : Nat) (k : SKind) (s : St) : Obs :=
  { t := t, k := k, c1 := s.count, c2 := s.waiters.length }

/-- mirrors `Driver.runSem.go` followed by `Driver.parseSObs true` / `Driver.fillS` -/
def traceE (s : St) (p : Pend) : List Cmd → List Obs
  | [] => []
  | .op t o :: cs =>
    obsE t o (step s o).2 (step s o).1 :: traceE (step s o).1 (p.add t (newlyOf o (step s o).2)) cs
  | .got t id :: cs => cntObs t (.got id 0) s :: traceE s (p.got t id).1 cs
  | .fin t :: cs => cntObs t .fin s :: traceE s p cs

/-- a `got t id` line only for a call that became resumable and has not resumed, at the clock value
    at which it became resumable; a `fin` line only when nobody resumable is left parked -/
def wfE (s : St) (p : Pend) : List Cmd → Bool
  | [] => true
  | .op t o :: cs => wfE (step s o).1 (p.add t (newlyOf o (step s o).2)) cs
  | .got t id :: cs => decide ((p.got t id).2 = .ok) && wfE s (p.got t id).1 cs
  | .fin _ :: cs => p.isEmpty && wfE s p cs

structure AgreeE (b : SBook) (s : St) (p : Pend) : Prop where
  out : b.out = s.cap - s.count
  blocked : b.blocked = s.waiters
  resolved : b.resolved = p

theorem check_okE (s : St) (b : SBook) (p : Pend) (o : Obs) (inv : Inv s) (ag : AgreeE b s p)
    (h1 : o.c1 = s.count) (h2 : o.c2 = s.waiters.length) : b.check s.cap o = none :=
  check_ok s { b with resolved := [] } o inv ⟨ag.out, ag.blocked, rfl⟩ h1 h2

theorem add_nil (p : Pend) (t : Nat) : p.add t [] = p := by simp [Pend.add]

theorem apply_stepE (s : St) (b : SBook) (p : Pend) (t : Nat) (o : Op) (inv : Inv s) (ag : AgreeE b s p) :
    ∃ b', b.apply s.cap true (obsE t o (step s o).2 (step s o).1) = .ok b'
      ∧ AgreeE b' (step s o).1 (p.add t (newlyOf o (step s o).2)) := by
  have hlo := inv.lo; have hhi := inv.hi
  cases o with
  | tryAcquire id n =>
    simp only [obsE, obsOf, newlyOf]
    rw [step_tryAcquire]
    split
    · rename_i h1
      refine ⟨b, ?_, ⟨ag.out, ag.blocked, by rw [add_nil]; exact ag.resolved⟩⟩
      simp only [SBook.apply, procObs]
      rw [if_neg (by omega)]
    · rename_i h1
      split
      · rename_i h2
        refine ⟨{ b with out := b.out + n }, ?_, ?_⟩
        · simp only [SBook.apply, procObs]
          rw [if_neg h1]
        · exact ⟨by show b.out + n = s.cap - (s.count - n); rw [ag.out]; omega, ag.blocked,
            by rw [add_nil]; exact ag.resolved⟩
      · rename_i h2
        refine ⟨b, ?_, ⟨ag.out, ag.blocked, by rw [add_nil]; exact ag.resolved⟩⟩
        simp only [SBook.apply, procObs]
        rw [if_neg h1, ag.out, if_neg (by omega)]
  | acquire id n =>
    simp only [obsE, obsOf, newlyOf]
    rw [step_acquire]
    split
    · rename_i h1
      refine ⟨b, ?_, ⟨ag.out, ag.blocked, by simp [Driver.newly, Pend.add, ag.resolved]⟩⟩
      simp only [SBook.apply, procObs]
      rw [if_neg (by omega)]
    · rename_i h1
      split
      · rename_i h3
        refine ⟨b, ?_, ⟨ag.out, ag.blocked, by simp [Driver.newly, Pend.add, ag.resolved]⟩⟩
        simp only [SBook.apply, procObs]
        rw [if_neg (by omega)]
      · rename_i h3
        split
        · rename_i h2
          refine ⟨{ b with out := b.out + n, resolved := b.resolved.add t [id] }, ?_, ?_⟩
          · simp only [SBook.apply, procObs]
            rw [if_neg (by omega)]
            simp
          · exact ⟨by show b.out + n = s.cap - (s.count - n); rw [ag.out]; omega, ag.blocked,
              by simp [Driver.newly, Pend.add, ag.resolved]⟩
        · rename_i h2
          refine ⟨{ b with blocked := b.blocked ++ [(id, n)] }, ?_, ?_⟩
          · simp only [SBook.apply, procObs]
            rw [if_neg (by omega)]
          · exact ⟨ag.out, by show b.blocked ++ [(id, n)] = s.waiters ++ [(id, n)]; rw [ag.blocked],
              by simp [Driver.newly, Pend.add, ag.resolved]⟩
  | release n =>
    simp only [obsE, obsOf, newlyOf]
    rw [step_release]
    split
    · rename_i h1
      refine ⟨b, ?_, ⟨ag.out, ag.blocked, by rw [add_nil]; exact ag.resolved⟩⟩
      simp only [SBook.apply, procObs]
      rw [if_neg (by omega)]
    · rename_i h1
      split
      · rename_i h2
        refine ⟨b, ?_, ⟨ag.out, ag.blocked, by rw [add_nil]; exact ag.resolved⟩⟩
        simp only [SBook.apply, procObs]
        rw [ag.out, if_neg (by omega)]
      · rename_i h2
        have hk := _root_.HappyModel.C09.Res.wakeN_le_length (s.count + n) s.waiters
        have hlen : (List.map (fun x => x.fst) (List.take (wakeN (s.count + n) s.waiters) s.waiters)).length
            = wakeN (s.count + n) s.waiters := by
          simp only [List.length_map, List.length_take]; exact Nat.min_eq_left hk
        refine ⟨{ out := b.out - n + amtSum (b.blocked.take (wakeN (s.count + n) s.waiters)),
                  blocked := b.blocked.drop (wakeN (s.count + n) s.waiters),
                  resolved := b.resolved.add t ((s.waiters.take (wakeN (s.count + n) s.waiters)).map (·.1)) }, ?_, ?_⟩
        · simp only [SBook.apply, procObs]
          rw [if_neg h1, ag.out, if_neg (by omega), ag.blocked, wokeCheck_take _ _ _ hk]
          simp only [hlen]
          rfl
        · refine ⟨?_, by show b.blocked.drop _ = s.waiters.drop _; rw [ag.blocked], ?_⟩
          · show b.out - n + amtSum (b.blocked.take _) = s.cap - (s.count + n - amtSum (s.waiters.take _))
            rw [ag.out, ag.blocked]; omega
          · show b.resolved.add t _ = p.add t _
            rw [ag.resolved]

theorem got_ok (p : Pend) (t id : Nat) (h : (p.got t id).2 = .ok) :
    ∃ q, p.find? (·.1 == id) = some q ∧ q.2 = t ∧ (p.got t id).1 = p.filter (·.1 != id) := by
  unfold Pend.got at h ⊢
  cases hf : p.find? (·.1 == id) with
  | none => simp [hf] at h
  | some q =>
    simp only [hf] at h ⊢
    refine ⟨q, rfl, ?_, ?_⟩
    · by_cases hq : q.2 = t
      · exact hq
      · simp [hq] at h
    · first | rfl | trivial

theorem judge_modelE (s : St) (b : SBook) (p : Pend) (cs : List Cmd) (inv : Inv s) (ag : AgreeE b s p)
    (wf : wfE s p cs = true) : judgeSem s.cap true b (traceE s p cs) = none := by
  induction cs generalizing s b p with
  | nil => rfl
  | cons c cs ih =>
    cases c with
    | op t o =>
      obtain ⟨b', hap, hag⟩ := apply_stepE s b p t o inv ag
      have inv' := step_inv s o inv
      simp only [traceE, judgeSem, hap]
      have hc := check_okE (step s o).1 b' _ (obsE t o (step s o).2 (step s o).1) inv' hag rfl rfl
      rw [step_cap] at hc
      rw [hc]
      have := ih (step s o).1 b' _ inv' hag (by simpa [wfE] using wf)
      rw [step_cap] at this
      exact this
    | got t id =>
      simp only [wfE, Bool.and_eq_true, decide_eq_true_eq] at wf
      obtain ⟨q, hf, hq, hp⟩ := got_ok p t id wf.1
      have hap : b.apply s.cap true (cntObs t (.got id 0) s) = .ok { b with resolved := p.filter (·.1 != id) } := by
        simp [SBook.apply, procObs, cntObs, ag.resolved, hf, hq]
      have hag : AgreeE { b with resolved := p.filter (·.1 != id) } s (p.got t id).1 :=
        ⟨ag.out, ag.blocked, hp.symm⟩
      simp only [traceE, judgeSem, hap]
      rw [check_okE s _ _ _ inv hag rfl rfl]
      exact ih _ _ _ inv hag wf.2
    | fin t =>
      simp only [wfE, Bool.and_eq_true, List.isEmpty_iff] at wf
      obtain ⟨hp, wf2⟩ := wf
      subst hp
      have hap : b.apply s.cap true (cntObs t .fin s) = .ok { b with resolved := [] } := by
        simp [SBook.apply, procObs, cntObs, ag.resolved]
      simp only [traceE, judgeSem, hap]
      have hag : AgreeE ({ b with resolved := [] } : SBook) s [] := ⟨ag.out, ag.blocked, rfl⟩
      rw [check_okE s _ [] _ inv hag rfl rfl]
      exact ih _ _ _ inv hag wf2

/-! ### faithfulness against the driver -/

def Cmd.line : Cmd → String
  | .op t (.acquire id n) => s!"acq {t} {id} {n}"
  | .op t (.tryAcquire id n) => s!"try {t} {id} {n}"
  | .op t (.release n) => s!"rel {t} {n}"
  | .got t id => s!"got {t} {id}"
  | .fin t => s!"fin {t}"

def viaDriver (cap : Int) (cs : List Cmd) : List Obs :=
  Driver.fillS cap 0 0 ((Driver.runSem cap (cs.map Cmd.line)).filterMap (fun l => Driver.parseSObs true (Proto.toks l)))

def obsEq (a b : Obs) : Bool :=
  a.t == b.t && decide (a.k = b.k) && decide (a.res = b.res) && a.woke == b.woke
    && a.c1 == b.c1 && a.c2 == b.c2 && a.c3 == b.c3

def obsListEq : List Obs → List Obs → Bool
  | [], [] => true
  | a :: as, b :: bs => obsEq a b && obsListEq as bs
  | _, _ => false

/-- capacity 3: two callers block, one release of 2 wakes both; they resume in the other order -/
def demo : List Cmd :=
  [.op 0 (.acquire 0 3), .got 0 0, .op 1 (.acquire 1 1), .op 1 (.acquire 2 1), .op 2 (.tryAcquire 3 1),
   .op 4 (.release 2), .got 4 2, .got 4 1, .op 6 (.release 9), .op 6 (.release 1), .fin 6]

def demoLate : List Cmd :=
  [.op 0 (.acquire 0 3), .got 0 0, .op 1 (.acquire 1 1), .op 4 (.release 2), .got 5 1, .fin 6]

#guard obsListEq (viaDriver 3 demo) (traceE (St.init 3) [] demo)
#guard obsListEq (viaDriver 3 demoLate) (traceE (St.init 3) [] demoLate)
#guard Driver.handle ["judge-sem", "3", "engine"] (Driver.handle ["sem", "3"] (demo.map Cmd.line)) == ["ok"]
#guard Driver.handle ["judge-sem", "3", "engine"] (Driver.handle ["sem", "3"] (demoLate.map Cmd.line))
  == ["viol semaphore/wait/resumed-late"]

end HappyModel.C09.Sync.Sem

namespace HappyModel.C09
open Sync

/-- **engine mode, Semaphore**: for every capacity and every well-formed schedule (a `got` line only
    for a call that became resumable — granted at once or woken by a release — and has not resumed
    yet, at the clock value at which it became resumable; `fin` only with nobody left parked) the
    judge in ENGINE mode accepts the Semaphore model's own engine transcript -/
theorem semaphore_engine_trace_satisfies_spec (cap : Int) (hcap : 0 < cap) (cs : List Sem.Cmd)
    (wf : Sem.wfE (Sem.St.init cap) [] cs = true) :
    judgeSem cap true {} (Sem.traceE (Sem.St.init cap) [] cs) = none :=
  Sem.judge_modelE (Sem.St.init cap) {} [] cs (Sem.init_inv cap hcap) ⟨by simp [Sem.St.init], rfl, rfl⟩ wf

example : Sem.wfE (Sem.St.init 3) [] Sem.demo = true := by decide
example : judgeSem 3 true {} (Sem.traceE (Sem.St.init 3) [] Sem.demo) = none := by decide
example : (Sem.traceE (Sem.St.init 3) [] Sem.demo).map (·.woke)
    = [[], [], [], [], [], [1, 2], [], [], [], [], []] := by decide
example : Sem.wfE (Sem.St.init 3) [] Sem.demoLate = false
    ∧ judgeSem 3 true {} (Sem.traceE (Sem.St.init 3) [] Sem.demoLate) = some "semaphore/wait/resumed-late" := by decide


end HappyModel.C09
