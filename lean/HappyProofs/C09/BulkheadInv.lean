import HappyModel.C09.Bulkhead
/-! Invariants of the Bulkhead model, for every list of deliveries. -/
namespace HappyModel.C09.Bulkhead

/-- ids of the waiting requests, in queue order -/
def qids (s : St) : List Nat := s.queue.map Entry.bid

/-- `i` is not one of `l` -/
def notIn (l : List Nat) (i : Nat) : Bool := !l.contains i

structure Inv (s : St) : Prop where
  maxPos : 0 < s.max
  bound : s.active ≤ s.max
  act : s.active = s.inflight.length
  qbound : s.queue.length ≤ s.maxQ
  head : s.queue ≠ [] → s.active = s.max
  reqs : s.total = s.accepted + s.rejected + s.timedOut + s.queue.length
  qcount : s.queued = s.admittedQ.length + s.queue.length + s.expired.length
  tcount : s.timedOut = s.expired.length
  sorted : (s.admittedQ ++ qids s).Pairwise (· < ·)
  fresh : ∀ x ∈ s.admittedQ ++ qids s, x ≤ s.nextId
  ledger : s.everQ.filter (notIn s.expired) = s.admittedQ ++ qids s
  everFresh : ∀ x ∈ s.everQ, x ≤ s.nextId
  expFresh : ∀ x ∈ s.expired, x ≤ s.nextId

theorem init_inv (max maxQ wait : Nat) (h : 0 < max) : Inv { max := max, maxQ := maxQ, wait := wait } :=
  ⟨h, Nat.zero_le _, rfl, Nat.zero_le _, by simp, rfl, rfl, rfl, by simp [qids], by simp [qids], by simp [qids], by simp, by simp⟩

/-! ### list helpers -/

theorem skipped_append_remaining (w t : Nat) (q : List Entry) : skipped w t q ++ remaining w t q = q := by
  induction q with
  | nil => rfl
  | cons e es ih =>
    simp only [skipped, remaining]
    split
    · simp [ih]
    · rfl

theorem notIn_append (l m : List Nat) : notIn (l ++ m) = fun i => notIn l i && notIn m i := by
  funext i; simp [notIn, Bool.not_or]

/-- removing a block `b` that sits between `a` and `c` of a strictly increasing list -/
theorem filter_notIn_middle (a b c : List Nat) (h : (a ++ (b ++ c)).Pairwise (· < ·)) :
    (a ++ (b ++ c)).filter (notIn b) = a ++ c := by
  rw [List.pairwise_append] at h
  obtain ⟨_, hbc, hab⟩ := h
  rw [List.pairwise_append] at hbc
  obtain ⟨hb, _, hbc'⟩ := hbc
  rw [List.filter_append, List.filter_append]
  have h1 : a.filter (notIn b) = a := by
    rw [List.filter_eq_self]
    intro x hx
    simp only [notIn, Bool.not_eq_true', ← Bool.not_eq_true, List.contains_iff_mem]
    intro hxb
    have := hab x hx x (List.mem_append_left _ hxb)
    omega
  have h2 : b.filter (notIn b) = [] := by
    rw [List.filter_eq_nil_iff]
    intro x hx
    simp [notIn, hx]
  have h3 : c.filter (notIn b) = c := by
    rw [List.filter_eq_self]
    intro x hx
    simp only [notIn, Bool.not_eq_true', ← Bool.not_eq_true, List.contains_iff_mem]
    intro hxb
    have := hbc' x hxb x hx
    omega
  rw [h1, h2, h3]; rfl

/-- removing one element `x` of `q` from a strictly increasing `a ++ q` -/
theorem filter_notIn_one (a q : List Nat) (x : Nat) (hx : x ∈ q) (h : (a ++ q).Pairwise (· < ·)) :
    (a ++ q).filter (notIn [x]) = a ++ q.filter (· != x) := by
  rw [List.pairwise_append] at h
  obtain ⟨_, _, hab⟩ := h
  rw [List.filter_append]
  have h1 : a.filter (notIn [x]) = a := by
    rw [List.filter_eq_self]
    intro y hy
    have := hab y hy x hx
    simp [notIn]; omega
  rw [h1]
  congr 1
  apply List.filter_congr
  intro y _
  by_cases hyx : y = x <;> simp [notIn, hyx]

theorem forward_fields (s : St) (rid : Nat) :
    (forward s rid).queue = s.queue ∧ (forward s rid).active = s.active + 1 ∧ (forward s rid).max = s.max
    ∧ (forward s rid).maxQ = s.maxQ ∧ (forward s rid).nextId = s.nextId + 1
    ∧ (forward s rid).inflight = s.inflight ++ [(s.nextId + 1, rid)]
    ∧ (forward s rid).accepted = s.accepted + 1 := ⟨rfl, rfl, rfl, rfl, rfl, rfl, rfl⟩

/-! ### the three deliveries -/

theorem request_inv (s : St) (rid t : Nat) (inv : Inv s) : Inv (step s (.request rid t)).1 := by
  have hb := inv.bound
  simp only [step]
  split
  · rename_i hlt
    have hq : s.queue = [] := by
      cases hq : s.queue with
      | nil => rfl
      | cons e es => have := inv.head (by rw [hq]; simp); omega
    refine ⟨inv.maxPos, ?_, ?_, inv.qbound, ?_, ?_, inv.qcount, inv.tcount, inv.sorted, ?_, inv.ledger, ?_, ?_⟩
    · show s.active + 1 ≤ s.max; omega
    · show s.active + 1 = (s.inflight ++ [(s.nextId + 1, rid)]).length
      simp [inv.act]
    · intro h; exact absurd hq h
    · show s.total + 1 = s.accepted + 1 + s.rejected + s.timedOut + s.queue.length
      have := inv.reqs; omega
    · intro x hx; have := inv.fresh x hx; show x ≤ s.nextId + 1; omega
    · intro x hx; have := inv.everFresh x hx; show x ≤ s.nextId + 1; omega
    · intro x hx; have := inv.expFresh x hx; show x ≤ s.nextId + 1; omega
  · rename_i hge
    split
    · rename_i hroom
      have hfr : ∀ x ∈ s.admittedQ ++ qids s, x < s.nextId + 1 := by
        intro x hx; have := inv.fresh x hx; omega
      refine ⟨inv.maxPos, hb, inv.act, ?_, ?_, ?_, ?_, inv.tcount, ?_, ?_, ?_, ?_, ?_⟩
      · show (s.queue ++ [(⟨s.nextId + 1, rid, t⟩ : Entry)]).length ≤ s.maxQ
        simp at hroom ⊢; omega
      · intro _; show s.active = s.max; simp at hge; omega
      · show s.total + 1 = s.accepted + s.rejected + s.timedOut + (s.queue ++ [(⟨s.nextId + 1, rid, t⟩ : Entry)]).length
        have := inv.reqs; simp; omega
      · show s.queued + 1 = s.admittedQ.length + (s.queue ++ [(⟨s.nextId + 1, rid, t⟩ : Entry)]).length + s.expired.length
        have := inv.qcount; simp; omega
      · show (s.admittedQ ++ (s.queue ++ [(⟨s.nextId + 1, rid, t⟩ : Entry)]).map Entry.bid).Pairwise (· < ·)
        rw [List.map_append, ← List.append_assoc, List.pairwise_append]
        refine ⟨inv.sorted, by simp, ?_⟩
        intro a ha b hb'
        simp at hb'
        have := hfr a ha; omega
      · intro x hx
        show x ≤ s.nextId + 1
        have hx' : x ∈ (s.admittedQ ++ qids s) ++ [s.nextId + 1] := by
          simpa [qids, enqueue, List.map_append, List.append_assoc] using hx
        rcases List.mem_append.mp hx' with h | h
        · have := inv.fresh x h; omega
        · simp at h; omega
      · show (s.everQ ++ [s.nextId + 1]).filter (notIn s.expired)
            = s.admittedQ ++ (s.queue ++ [(⟨s.nextId + 1, rid, t⟩ : Entry)]).map Entry.bid
        rw [List.filter_append, inv.ledger, List.map_append, ← List.append_assoc]
        congr 1
        have hne : notIn s.expired (s.nextId + 1) = true := by
          simp only [notIn, Bool.not_eq_true', ← Bool.not_eq_true, List.contains_iff_mem]
          intro hmem
          have := inv.expFresh _ hmem; omega
        simp [hne]
      · intro x hx
        show x ≤ s.nextId + 1
        have hx' : x ∈ s.everQ ++ [s.nextId + 1] := hx
        rcases List.mem_append.mp hx' with h | h
        · have := inv.everFresh x h; omega
        · simp at h; omega
      · intro x hx; have := inv.expFresh x hx; show x ≤ s.nextId + 1; omega
    · refine ⟨inv.maxPos, hb, inv.act, inv.qbound, inv.head, ?_, inv.qcount, inv.tcount, inv.sorted, inv.fresh, inv.ledger, inv.everFresh, inv.expFresh⟩
      show s.total + 1 = s.accepted + (s.rejected + 1) + s.timedOut + s.queue.length
      have := inv.reqs; omega

theorem filter_notIn_append (l a b : List Nat) : l.filter (notIn (a ++ b)) = (l.filter (notIn a)).filter (notIn b) := by
  rw [List.filter_filter, notIn_append]
  congr 1
  funext i
  exact Bool.and_comm _ _

/-- exactly one entry carries a given id when the ids are strictly increasing -/
theorem filter_ne_length (q : List Entry) (bid : Nat) (hs : (q.map Entry.bid).Pairwise (· < ·))
    (hm : bid ∈ q.map Entry.bid) : (q.filter (·.bid != bid)).length + 1 = q.length := by
  induction q with
  | nil => simp at hm
  | cons e es ih =>
    rw [List.map_cons, List.pairwise_cons] at hs
    obtain ⟨hlt, hs'⟩ := hs
    by_cases he : e.bid = bid
    · have hkeep : es.filter (·.bid != bid) = es := by
        rw [List.filter_eq_self]
        intro a ha
        have := hlt a.bid (List.mem_map_of_mem ha)
        simp; omega
      simp [List.filter, he, hkeep]
    · have hm' : bid ∈ es.map Entry.bid := by
        simp only [List.map_cons, List.mem_cons] at hm
        rcases hm with h | h
        · exact absurd h.symm he
        · exact h
      have := ih hs' hm'
      have hne : (e.bid != bid) = true := by simp [he]
      simp only [List.filter_cons, hne, if_true, List.length_cons]; omega

theorem timeout_inv (s : St) (bid t : Nat) (inv : Inv s) : Inv (step s (.timeout bid t)).1 := by
  simp only [step]
  split
  · rename_i hany
    have hmem : bid ∈ qids s := by
      rw [List.any_eq_true] at hany
      obtain ⟨e, he, hb⟩ := hany
      have : e.bid = bid := by simpa using hb
      rw [← this]; exact List.mem_map_of_mem he
    have hsq : (qids s).Pairwise (· < ·) := (List.pairwise_append.mp inv.sorted).2.1
    have hlen := filter_ne_length s.queue bid hsq hmem
    have hq : (s.queue.filter (·.bid != bid)).map Entry.bid = (qids s).filter (· != bid) := by
      rw [qids, List.filter_map]; rfl
    have hsub : (s.admittedQ ++ (s.queue.filter (·.bid != bid)).map Entry.bid).Sublist (s.admittedQ ++ qids s) :=
      List.Sublist.append (List.Sublist.refl _) (List.Sublist.map _ List.filter_sublist)
    refine ⟨inv.maxPos, inv.bound, inv.act, ?_, ?_, ?_, ?_, ?_, ?_, ?_, ?_, inv.everFresh, ?_⟩
    · show (s.queue.filter (·.bid != bid)).length ≤ s.maxQ
      have := inv.qbound; omega
    · intro hne
      apply inv.head
      intro hq0
      apply hne
      show s.queue.filter (·.bid != bid) = []
      rw [hq0]; rfl
    · show s.total = s.accepted + s.rejected + (s.timedOut + 1) + (s.queue.filter (·.bid != bid)).length
      have := inv.reqs; omega
    · show s.queued = s.admittedQ.length + (s.queue.filter (·.bid != bid)).length + (s.expired ++ [bid]).length
      have := inv.qcount; simp; omega
    · show s.timedOut + 1 = (s.expired ++ [bid]).length
      have := inv.tcount; simp; omega
    · exact List.Pairwise.sublist hsub inv.sorted
    · intro x hx; exact inv.fresh x (hsub.subset hx)
    · show s.everQ.filter (notIn (s.expired ++ [bid])) = s.admittedQ ++ (s.queue.filter (·.bid != bid)).map Entry.bid
      rw [filter_notIn_append, inv.ledger, filter_notIn_one _ _ _ hmem inv.sorted, hq]
    · intro x hx
      have hx' : x ∈ s.expired ++ [bid] := hx
      rcases List.mem_append.mp hx' with h | h
      · exact inv.expFresh x h
      · simp at h; rw [h]; exact inv.fresh bid (List.mem_append_right _ hmem)
  · exact inv

/-- the state in the middle of `_handle_response`: a permit has been returned, the queue not yet looked at -/
structure Mid (s : St) : Prop where
  maxPos : 0 < s.max
  lt : s.active < s.max
  act : s.active = s.inflight.length
  qbound : s.queue.length ≤ s.maxQ
  head : s.queue ≠ [] → s.active + 1 = s.max
  reqs : s.total = s.accepted + s.rejected + s.timedOut + s.queue.length
  qcount : s.queued = s.admittedQ.length + s.queue.length + s.expired.length
  tcount : s.timedOut = s.expired.length
  sorted : (s.admittedQ ++ qids s).Pairwise (· < ·)
  fresh : ∀ x ∈ s.admittedQ ++ qids s, x ≤ s.nextId
  ledger : s.everQ.filter (notIn s.expired) = s.admittedQ ++ qids s
  everFresh : ∀ x ∈ s.everQ, x ≤ s.nextId
  expFresh : ∀ x ∈ s.expired, x ≤ s.nextId

theorem tryProcess_inv (s : St) (t : Nat) (m : Mid s) : Inv (tryProcess s t).1 := by
  have hlt := m.lt
  simp only [tryProcess]
  split
  · rename_i hemp
    have hq : s.queue = [] := by simpa using hemp
    exact ⟨m.maxPos, by show s.active ≤ s.max; omega, m.act, m.qbound, fun h => absurd hq h, m.reqs, m.qcount, m.tcount, m.sorted, m.fresh,
           m.ledger, m.everFresh, m.expFresh⟩
  · rename_i hne
    have hq : s.queue ≠ [] := by simpa using hne
    split
    · omega
    · have hsplit := skipped_append_remaining s.wait t s.queue
      have hlenq : (skipped s.wait t s.queue).length + (remaining s.wait t s.queue).length = s.queue.length := by
        rw [← List.length_append, hsplit]
      have hqids : qids s = (skipped s.wait t s.queue).map Entry.bid ++ (remaining s.wait t s.queue).map Entry.bid := by
        rw [← List.map_append, hsplit]; rfl
      have hsorted := m.sorted
      rw [hqids] at hsorted
      -- the key equality: dropping the skipped ids from the ledger
      have hkey : s.everQ.filter (notIn (s.expired ++ (skipped s.wait t s.queue).map Entry.bid))
          = s.admittedQ ++ (remaining s.wait t s.queue).map Entry.bid := by
        rw [filter_notIn_append, m.ledger, hqids, filter_notIn_middle _ _ _ hsorted]
      have hsortedRem : (s.admittedQ ++ (remaining s.wait t s.queue).map Entry.bid).Pairwise (· < ·) := by
        rw [← filter_notIn_middle _ _ _ hsorted]
        exact List.Pairwise.filter _ hsorted
      have hfreshRem : ∀ x ∈ s.admittedQ ++ (remaining s.wait t s.queue).map Entry.bid, x ≤ s.nextId := by
        intro x hx
        apply m.fresh
        rw [hqids]
        rcases List.mem_append.mp hx with h | h
        · exact List.mem_append_left _ h
        · exact List.mem_append_right _ (List.mem_append_right _ h)
      have hexp : ∀ x ∈ s.expired ++ (skipped s.wait t s.queue).map Entry.bid, x ≤ s.nextId := by
        intro x hx
        rcases List.mem_append.mp hx with h | h
        · exact m.expFresh x h
        · apply m.fresh; rw [hqids]; exact List.mem_append_right _ (List.mem_append_left _ h)
      split
      · rename_i hrem
        rw [hrem] at hkey hlenq
        refine ⟨m.maxPos, by show s.active ≤ s.max; omega, m.act, by show ([] : List Entry).length ≤ s.maxQ; simp,
                fun h => absurd rfl h, ?_, ?_, ?_, ?_, ?_, ?_, m.everFresh, hexp⟩
        · show s.total = s.accepted + s.rejected + (s.timedOut + (skipped s.wait t s.queue).length) + ([] : List Entry).length
          have := m.reqs; simp at hlenq ⊢; omega
        · show s.queued = s.admittedQ.length + ([] : List Entry).length
              + (s.expired ++ (skipped s.wait t s.queue).map Entry.bid).length
          have := m.qcount; simp at hlenq ⊢; omega
        · show s.timedOut + (skipped s.wait t s.queue).length = (s.expired ++ (skipped s.wait t s.queue).map Entry.bid).length
          have := m.tcount; simp; omega
        · show (s.admittedQ ++ ([] : List Entry).map Entry.bid).Pairwise (· < ·)
          rw [hrem] at hsortedRem; exact hsortedRem
        · intro x hx; rw [hrem] at hfreshRem; exact hfreshRem x hx
        · exact hkey
      · rename_i e es hrem
        rw [hrem] at hkey hlenq hsortedRem hfreshRem
        have hre : s.admittedQ ++ (e :: es).map Entry.bid = (s.admittedQ ++ [e.bid]) ++ es.map Entry.bid := by simp
        refine ⟨m.maxPos, by show s.active + 1 ≤ s.max; omega, ?_, ?_, ?_, ?_, ?_, ?_, ?_, ?_, ?_, ?_, ?_⟩
        · show s.active + 1 = (s.inflight ++ [(s.nextId + 1, e.rid)]).length
          simp [m.act]
        · show es.length ≤ s.maxQ
          have := m.qbound; simp at hlenq; omega
        · intro _; exact m.head hq
        · show s.total = s.accepted + 1 + s.rejected + (s.timedOut + (skipped s.wait t s.queue).length) + es.length
          have := m.reqs; simp at hlenq; omega
        · show s.queued = (s.admittedQ ++ [e.bid]).length + es.length
              + (s.expired ++ (skipped s.wait t s.queue).map Entry.bid).length
          have := m.qcount; simp at hlenq ⊢; omega
        · show s.timedOut + (skipped s.wait t s.queue).length = (s.expired ++ (skipped s.wait t s.queue).map Entry.bid).length
          have := m.tcount; simp; omega
        · show ((s.admittedQ ++ [e.bid]) ++ es.map Entry.bid).Pairwise (· < ·)
          rw [← hre]; exact hsortedRem
        · intro x hx
          show x ≤ s.nextId + 1
          have hx' : x ∈ (s.admittedQ ++ [e.bid]) ++ es.map Entry.bid := hx
          rw [← hre] at hx'
          have := hfreshRem x hx'; omega
        · show s.everQ.filter (notIn (s.expired ++ (skipped s.wait t s.queue).map Entry.bid))
              = (s.admittedQ ++ [e.bid]) ++ es.map Entry.bid
          rw [← hre]; exact hkey
        · intro x hx; show x ≤ s.nextId + 1; have := m.everFresh x hx; omega
        · intro x hx; show x ≤ s.nextId + 1; have := hexp x hx; omega

theorem response_inv (s : St) (bid t : Nat) (inv : Inv s) : Inv (step s (.response bid t)).1 := by
  simp only [step]
  split
  · exact inv
  · rename_i hany
    have hany' : s.inflight.any (·.1 == bid) = true := by simpa using hany
    rw [List.any_eq_true] at hany'
    obtain ⟨e, he, hp⟩ := hany'
    have hlen := List.length_eraseP_of_mem (p := fun x => x.1 == bid) he hp
    have hpos : 0 < s.inflight.length := List.length_pos_of_mem he
    have hact := inv.act
    have hb := inv.bound
    apply tryProcess_inv
    refine ⟨inv.maxPos, ?_, ?_, inv.qbound, ?_, inv.reqs, inv.qcount, inv.tcount, inv.sorted, inv.fresh, inv.ledger,
            inv.everFresh, inv.expFresh⟩
    · show s.active - 1 < s.max; omega
    · show s.active - 1 = (s.inflight.eraseP (·.1 == bid)).length; omega
    · intro hq; show s.active - 1 + 1 = s.max; have := inv.head hq; omega

theorem step_inv (s : St) (o : Op) (inv : Inv s) : Inv (step s o).1 := by
  cases o with
  | request rid t => exact request_inv s rid t inv
  | response bid t => exact response_inv s bid t inv
  | timeout bid t => exact timeout_inv s bid t inv

theorem run_inv (s : St) (ops : List Op) (inv : Inv s) : Inv (run s ops) := by
  induction ops generalizing s with
  | nil => exact inv
  | cons o os ih => exact ih _ (step_inv s o inv)

end HappyModel.C09.Bulkhead
