import HappyProofs.C09.PreemptInv
/-! Order invariants of the PreemptibleResource model: the waiter queue is sorted by (priority, arrival),
wake-ups take a prefix of it, and nobody is granted twice. -/
namespace HappyModel.C09.Preempt

/-- `a` is served before `b`: higher priority (smaller value), or the same priority and an earlier call -/
def before (a b : G) : Prop := a.prio < b.prio ∨ (a.prio = b.prio ∧ a.id < b.id)

structure Ord (s : St) : Prop where
  sorted : s.waiters.Pairwise before
  waitFresh : ∀ g ∈ s.waiters, g.id < s.nextId
  logFresh : ∀ i ∈ s.grantLog, i < s.nextId
  logNodup : s.grantLog.Nodup
  waitNotLogged : ∀ g ∈ s.waiters, g.id ∉ s.grantLog
  waitNodup : (s.waiters.map G.id).Nodup

theorem init_ord (cap : Int) : Ord (St.init cap) :=
  ⟨by simp [St.init], by simp [St.init], by simp [St.init], by simp [St.init], by simp [St.init], by simp [St.init]⟩

theorem insWaiter_sorted (w : G) (l : List G) (hs : l.Pairwise before) (hid : ∀ g ∈ l, g.id < w.id) :
    (insWaiter w l).Pairwise before := by
  induction l with
  | nil => simp [insWaiter]
  | cons h t ih =>
    rw [List.pairwise_cons] at hs
    obtain ⟨hh, ht⟩ := hs
    simp only [insWaiter]
    split
    · rename_i hle
      rw [List.pairwise_cons]
      refine ⟨?_, ih ht (fun g hg => hid g (List.mem_cons_of_mem _ hg))⟩
      intro x hx
      rcases (mem_insWaiter _ _ _).mp hx with hxw | hxt
      · rw [hxw]
        have := hid h List.mem_cons_self
        unfold before
        by_cases heq : h.prio = w.prio
        · exact Or.inr ⟨heq, this⟩
        · exact Or.inl (by omega)
      · exact hh x hxt
    · rename_i hgt
      rw [List.pairwise_cons]
      refine ⟨?_, List.pairwise_cons.mpr ⟨hh, ht⟩⟩
      intro x hx
      unfold before
      rcases List.mem_cons.mp hx with hxh | hxt
      · rw [hxh]; exact Or.inl (by omega)
      · have := hh x hxt
        unfold before at this
        exact Or.inl (by omega)

theorem insWaiter_ids_nodup (w : G) (l : List G) (hn : (l.map G.id).Nodup) (hid : ∀ g ∈ l, g.id ≠ w.id) :
    ((insWaiter w l).map G.id).Nodup := by
  induction l with
  | nil => simp [insWaiter]
  | cons h t ih =>
    rw [List.map_cons, List.nodup_cons] at hn
    obtain ⟨hh, ht⟩ := hn
    simp only [insWaiter]
    split
    · rw [List.map_cons, List.nodup_cons]
      refine ⟨?_, ih ht (fun g hg => hid g (List.mem_cons_of_mem _ hg))⟩
      intro hmem
      rw [List.mem_map] at hmem
      obtain ⟨x, hx, hxe⟩ := hmem
      rcases (mem_insWaiter _ _ _).mp hx with hxw | hxt
      · rw [hxw] at hxe; exact hid h List.mem_cons_self hxe.symm
      · exact hh (List.mem_map.mpr ⟨x, hxt, hxe⟩)
    · rw [List.map_cons, List.nodup_cons]
      refine ⟨?_, by rw [List.map_cons, List.nodup_cons]; exact ⟨hh, ht⟩⟩
      intro hmem
      rw [List.mem_map] at hmem
      obtain ⟨x, hx, hxe⟩ := hmem
      exact hid x hx hxe

theorem preemptLoop_frame (needed p : Int) (n : Nat) (s : St) :
    (preemptLoop needed p n s).1.waiters = s.waiters ∧ (preemptLoop needed p n s).1.nextId = s.nextId
    ∧ (preemptLoop needed p n s).1.grantLog = s.grantLog := by
  induction n generalizing s with
  | zero => exact ⟨rfl, rfl, rfl⟩
  | succ n ih =>
    simp only [preemptLoop]
    split
    · exact ⟨rfl, rfl, rfl⟩
    · split
      · exact ⟨rfl, rfl, rfl⟩
      · rename_i v _
        dsimp only
        exact ih { s with active := s.active.erase v, avail := s.avail + v.amt, preemptions := s.preemptions + 1 }

/-- `_wake_waiters` serves a prefix of the sorted queue: everybody it grants comes before everybody it leaves -/
theorem wake_prefix (a : Int) (l : List G) (hs : l.Pairwise before) :
    ∀ x ∈ wokenOf a l, ∀ y ∈ restOf a l, before x y := by
  have h := woken_append_rest a l
  rw [← h, List.pairwise_append] at hs
  exact hs.2.2

theorem wake_ord (s : St) (o : Ord s) : Ord (wake s).1 := by
  have hsplit := woken_append_rest s.avail s.waiters
  have hsubR : (restOf s.avail s.waiters).Sublist s.waiters := by
    have := List.sublist_append_right (wokenOf s.avail s.waiters) (restOf s.avail s.waiters)
    rwa [hsplit] at this
  have hnd := o.waitNodup
  rw [← hsplit, List.map_append, List.nodup_append] at hnd
  obtain ⟨hwkN, hrestN, hdisj⟩ := hnd
  have hwkMem : ∀ g ∈ wokenOf s.avail s.waiters, g ∈ s.waiters := by
    intro g hg; rw [← hsplit]; exact List.mem_append_left _ hg
  refine ⟨List.Pairwise.sublist hsubR o.sorted, fun g hg => o.waitFresh g (hsubR.subset hg), ?_, ?_, ?_, hrestN⟩
  · intro i hi
    have hi' : i ∈ s.grantLog ++ (wokenOf s.avail s.waiters).map G.id := hi
    rcases List.mem_append.mp hi' with h | h
    · exact o.logFresh i h
    · obtain ⟨g, hg, hge⟩ := List.mem_map.mp h
      rw [← hge]; exact o.waitFresh g (hwkMem g hg)
  · show (s.grantLog ++ (wokenOf s.avail s.waiters).map G.id).Nodup
    rw [List.nodup_append]
    refine ⟨o.logNodup, hwkN, ?_⟩
    intro a ha b hb hab
    obtain ⟨g, hg, hge⟩ := List.mem_map.mp hb
    apply o.waitNotLogged g (hwkMem g hg)
    rw [hge, ← hab]; exact ha
  · intro g hg hmem
    have hg' : g ∈ restOf s.avail s.waiters := hg
    have hmem' : g.id ∈ s.grantLog ++ (wokenOf s.avail s.waiters).map G.id := hmem
    rcases List.mem_append.mp hmem' with h | h
    · exact o.waitNotLogged g (hsubR.subset hg') h
    · exact hdisj g.id h g.id (List.mem_map_of_mem hg') rfl

theorem grantNow_ord (s : St) (g : G) (o : Ord s) (hid : g.id < s.nextId) (hnew : g.id ∉ s.grantLog)
    (hnw : ∀ w ∈ s.waiters, w.id ≠ g.id) : Ord (grantNow s g) := by
  refine ⟨o.sorted, o.waitFresh, ?_, ?_, ?_, o.waitNodup⟩
  · intro i hi
    have hi' : i ∈ s.grantLog ++ [g.id] := hi
    rcases List.mem_append.mp hi' with h | h
    · exact o.logFresh i h
    · simp at h; rw [h]; exact hid
  · show (s.grantLog ++ [g.id]).Nodup
    rw [List.nodup_append]
    refine ⟨o.logNodup, by simp, ?_⟩
    intro a ha b hb hab
    simp at hb; rw [hb] at hab; rw [hab] at ha; exact hnew ha
  · intro w hw hmem
    have hmem' : w.id ∈ s.grantLog ++ [g.id] := hmem
    rcases List.mem_append.mp hmem' with h | h
    · exact o.waitNotLogged w hw h
    · simp at h; exact hnw w hw h

theorem step_ord (s : St) (op : Op) (o : Ord s) : Ord (step s op).1 := by
  cases op with
  | release id =>
    simp only [step]
    split
    · exact o
    · apply wake_ord
      exact ⟨o.sorted, o.waitFresh, o.logFresh, o.logNodup, o.waitNotLogged, o.waitNodup⟩
  | acquire amt prio preempt =>
    have o1 : Ord { s with nextId := s.nextId + 1 } :=
      ⟨o.sorted, fun g hg => by have := o.waitFresh g hg; show g.id < s.nextId + 1; omega,
       fun i hi => by have := o.logFresh i hi; show i < s.nextId + 1; omega, o.logNodup, o.waitNotLogged, o.waitNodup⟩
    have hnewlog : s.nextId ∉ s.grantLog := fun h => by have := o.logFresh _ h; omega
    have hneww : ∀ w ∈ s.waiters, w.id ≠ s.nextId := fun w hw h => by have := o.waitFresh w hw; omega
    simp only [step]
    split
    · exact o1
    · split
      · exact grantNow_ord _ ⟨s.nextId, amt, prio⟩ o1 (by show s.nextId < s.nextId + 1; omega) hnewlog hneww
      · have hframe : (if preempt then preemptLoop amt prio s.active.length { s with nextId := s.nextId + 1 }
             else ({ s with nextId := s.nextId + 1 }, [])).1.waiters = s.waiters
            ∧ (if preempt then preemptLoop amt prio s.active.length { s with nextId := s.nextId + 1 }
             else ({ s with nextId := s.nextId + 1 }, [])).1.nextId = s.nextId + 1
            ∧ (if preempt then preemptLoop amt prio s.active.length { s with nextId := s.nextId + 1 }
             else ({ s with nextId := s.nextId + 1 }, [])).1.grantLog = s.grantLog := by
          split
          · exact preemptLoop_frame _ _ _ _
          · exact ⟨rfl, rfl, rfl⟩
        generalize (if preempt then preemptLoop amt prio s.active.length { s with nextId := s.nextId + 1 }
             else ({ s with nextId := s.nextId + 1 }, [])) = r at hframe
        obtain ⟨hw, hn, hl⟩ := hframe
        have or : Ord r.1 := by
          refine ⟨by rw [hw]; exact o.sorted, ?_, ?_, by rw [hl]; exact o.logNodup, ?_, by rw [hw]; exact o.waitNodup⟩
          · intro g hg; rw [hw] at hg; rw [hn]; have := o.waitFresh g hg; omega
          · intro i hi; rw [hl] at hi; rw [hn]; have := o.logFresh i hi; omega
          · intro g hg; rw [hw] at hg; rw [hl]; exact o.waitNotLogged g hg
        split
        · have og := grantNow_ord r.1 ⟨s.nextId, amt, prio⟩ or (by rw [hn]; show s.nextId < s.nextId + 1; omega)
            (by rw [hl]; exact hnewlog) (by rw [hw]; exact hneww)
          split
          · exact wake_ord _ og
          · exact og
        · have oq : Ord { r.1 with contentions := r.1.contentions + 1,
                                   waiters := insWaiter ⟨s.nextId, amt, prio⟩ r.1.waiters } := by
            refine ⟨?_, ?_, or.logFresh, or.logNodup, ?_, ?_⟩
            · apply insWaiter_sorted _ _ or.sorted
              intro g hg; rw [hw] at hg; exact o.waitFresh g hg
            · intro g hg
              rcases (mem_insWaiter _ _ _).mp hg with h | h
              · rw [h, hn]; show s.nextId < s.nextId + 1; omega
              · exact or.waitFresh g h
            · intro g hg
              rcases (mem_insWaiter _ _ _).mp hg with h | h
              · rw [h, hl]; exact hnewlog
              · exact or.waitNotLogged g h
            · apply insWaiter_ids_nodup _ _ or.waitNodup
              intro g hg; rw [hw] at hg; exact hneww g hg
          split
          · exact wake_ord _ oq
          · exact oq

theorem run_ord (s : St) (ops : List Op) (o : Ord s) : Ord (run s ops) := by
  induction ops generalizing s with
  | nil => exact o
  | cons op os ih => exact ih _ (step_ord s op o)

end HappyModel.C09.Preempt
