import HappyProofs.C09.ThreadPoolTrace
/-! ThreadPool: unfolding lemmas for `step`, frame lemmas for `_poll_if_ready`, the extra model invariant
`Inv2` and the relation `Agree` between the judge's books and the model state (+ the driver's `due` list). -/
namespace HappyModel.C09.TPool

/-! ### `_poll_if_ready` touches only `busy`, `recheck` and appends a poll to `pend` -/

theorem poll_qcap (s : St) : (pollIfReady s).1.qcap = s.qcap := by
  simp only [pollIfReady]; split; · rfl
  split <;> rfl
theorem poll_queue (s : St) : (pollIfReady s).1.queue = s.queue := by
  simp only [pollIfReady]; split; · rfl
  split <;> rfl
theorem poll_running (s : St) : (pollIfReady s).1.running = s.running := by
  simp only [pollIfReady]; split; · rfl
  split <;> rfl
theorem poll_started (s : St) : (pollIfReady s).1.started = s.started := by
  simp only [pollIfReady]; split; · rfl
  split <;> rfl
theorem poll_acceptedL (s : St) : (pollIfReady s).1.acceptedL = s.acceptedL := by
  simp only [pollIfReady]; split; · rfl
  split <;> rfl
theorem poll_accepted (s : St) : (pollIfReady s).1.accepted = s.accepted := by
  simp only [pollIfReady]; split; · rfl
  split <;> rfl
theorem poll_dropped (s : St) : (pollIfReady s).1.dropped = s.dropped := by
  simp only [pollIfReady]; split; · rfl
  split <;> rfl
theorem poll_completed (s : St) : (pollIfReady s).1.completed = s.completed := by
  simp only [pollIfReady]; split; · rfl
  split <;> rfl
theorem poll_transit (s : St) : transit (pollIfReady s).1.pend = transit s.pend := by
  simp only [pollIfReady]; split; · rfl
  split
  · rfl
  · show transit (s.pend ++ [.poll]) = transit s.pend
    rw [transit_append]; simp [transit]
theorem poll_res (s : St) : (pollIfReady s).2 = .idle ∨ (pollIfReady s).2 = .polled := by
  simp only [pollIfReady]; split; · exact Or.inl rfl
  split
  · exact Or.inl rfl
  · exact Or.inr rfl

/-! ### the deliveries, case by case -/

theorem step_submit_full (s : St) (tid : Nat) (h : full s = true) :
    step s (.submit tid) = ({ s with dropped := s.dropped + 1 }, .dropped) := by
  simp only [step]; rw [if_pos h]

theorem step_submit_room (s : St) (tid : Nat) (h : full s = false) :
    step s (.submit tid) =
      ({ s with queue := s.queue ++ [tid], accepted := s.accepted + 1, acceptedL := s.acceptedL ++ [tid],
                pend := if s.queue.isEmpty then s.pend ++ [.notify] else s.pend }, .accepted s.queue.isEmpty) := by
  simp only [step]; rw [if_neg (by rw [h]; exact Bool.false_ne_true)]

theorem step_notify_cases (s : St) :
    (∃ rest, s.pend = .notify :: rest ∧ step s .notify = pollIfReady { s with pend := rest })
    ∨ step s .notify = (s, .bad) := by
  simp only [step]
  split
  · rename_i rest hp; exact Or.inl ⟨rest, hp, rfl⟩
  · exact Or.inr rfl

theorem step_poll_cases (s : St) :
    (∃ rest, s.pend = .poll :: rest ∧ s.queue = []
        ∧ step s .poll = ({ s with pend := rest ++ [.deliver none] }, .item none))
    ∨ (∃ rest t q, s.pend = .poll :: rest ∧ s.queue = t :: q
        ∧ step s .poll = ({ s with queue := q, pend := rest ++ [.deliver (some t)] }, .item (some t)))
    ∨ step s .poll = (s, .bad) := by
  simp only [step]
  split
  · rename_i rest hp
    split
    · rename_i hq; exact Or.inl ⟨rest, hp, hq, rfl⟩
    · rename_i t q hq; exact Or.inr (Or.inl ⟨rest, t, q, hp, hq, rfl⟩)
  · exact Or.inr (Or.inr rfl)

theorem step_deliver_cases (s : St) :
    (∃ rest, s.pend = .deliver none :: rest ∧ s.recheck = true
        ∧ step s .deliver = pollIfReady { s with pend := rest, busy := false })
    ∨ (∃ rest, s.pend = .deliver none :: rest
        ∧ step s .deliver = ({ s with pend := rest, busy := false }, .idle))
    ∨ (∃ t rest, s.pend = .deliver (some t) :: rest
        ∧ step s .deliver = ({ s with pend := rest ++ [.work t, .disp] }, .item (some t)))
    ∨ step s .deliver = (s, .bad) := by
  simp only [step]
  split
  · rename_i rest hp
    split
    · rename_i hr; exact Or.inl ⟨rest, hp, hr, rfl⟩
    · exact Or.inr (Or.inl ⟨rest, hp, rfl⟩)
  · rename_i t rest hp; exact Or.inr (Or.inr (Or.inl ⟨t, rest, hp, rfl⟩))
  · exact Or.inr (Or.inr (Or.inr rfl))

theorem step_work_cases (s : St) (tid : Nat) :
    (∃ rest, s.pend = .work tid :: rest ∧ s.active < s.n
        ∧ step s (.work tid) = ({ s with pend := rest, active := s.active + 1, running := s.running ++ [tid],
                                         started := s.started ++ [tid] }, .started))
    ∨ (∃ rest, s.pend = .work tid :: rest ∧ ¬ s.active < s.n)
    ∨ step s (.work tid) = (s, .bad) := by
  simp only [step]
  split
  · rename_i t rest hp
    split
    · exact Or.inr (Or.inr rfl)
    · rename_i heq
      have heq' : t = tid := by simpa using heq
      subst heq'
      split
      · rename_i hlt; exact Or.inl ⟨rest, hp, hlt, rfl⟩
      · rename_i hlt; exact Or.inr (Or.inl ⟨rest, hp, hlt⟩)
  · exact Or.inr (Or.inr rfl)

theorem step_finish_cases (s : St) (tid : Nat) :
    (tid ∈ s.running ∧ step s (.finish tid)
        = pollIfReady { s with running := s.running.erase tid, active := s.active - 1, completed := s.completed + 1 })
    ∨ step s (.finish tid) = (s, .bad) := by
  simp only [step]
  split
  · exact Or.inr rfl
  · rename_i hrun
    exact Or.inl ⟨by simpa using hrun, rfl⟩

theorem step_disp_cases (s : St) :
    (∃ rest, s.pend = .disp :: rest ∧ step s .disp = pollIfReady { s with pend := rest, busy := false })
    ∨ step s .disp = (s, .bad) := by
  simp only [step]
  split
  · rename_i rest hp; exact Or.inl ⟨rest, hp, rfl⟩
  · exact Or.inr rfl

/-! ### what the round-trip shape says about the rest of `pend` -/

theorem inv_deliver_some (s : St) (inv : Inv s) {t : Nat} {rest : List Ev} (hp : s.pend = .deliver (some t) :: rest) :
    transit rest = [] := by
  have hcp : core s.pend = .deliver (some t) :: core rest := by rw [hp]; rfl
  have hrest : core rest = [] := by
    rcases inv.shape with h | h | h | h | h | h
    · rw [hcp] at h; cases h.2
    · rw [hcp] at h; cases h.2.2
    · rw [hcp] at h; cases h.2
    · obtain ⟨_, _, t', ht⟩ := h; rw [hcp] at ht; injection ht
    · obtain ⟨_, _, t', ht⟩ := h; rw [hcp] at ht; cases ht
    · rw [hcp] at h; cases h.2
  exact transit_of_core_nil rest hrest

theorem inv_work (s : St) (inv : Inv s) {t : Nat} {rest : List Ev} (hp : s.pend = .work t :: rest) :
    s.active < s.n ∧ transit rest = [] := by
  have hcp : core s.pend = .work t :: core rest := by rw [hp]; rfl
  have hshape : s.active < s.n ∧ core rest = [.disp] := by
    rcases inv.shape with h | h | h | h | h | h
    · rw [hcp] at h; cases h.2
    · rw [hcp] at h; cases h.2.2
    · rw [hcp] at h; cases h.2
    · obtain ⟨_, _, t', ht⟩ := h; rw [hcp] at ht; cases ht
    · obtain ⟨_, hl, t', ht⟩ := h; rw [hcp] at ht; exact ⟨hl, by injection ht⟩
    · rw [hcp] at h; cases h.2
  exact ⟨hshape.1, by rw [← transit_core, hshape.2]; rfl⟩

/-! ### the extra invariant and the agreement relation -/

/-- facts about the ghost lists the judge's checks rely on; `nodup` holds as long as no task id is accepted twice -/
structure Inv2 (s : St) : Prop where
  accLen : s.accepted = s.acceptedL.length
  nodup : s.acceptedL.Nodup
  runSub : s.running.Sublist s.started

/-- the judge's books (kept from observations only) coincide with the model state; the driver's `due` list
    knows exactly one end-of-service time per started task, the one the judge computed -/
structure Agree (b : Book) (s : St) (due : Due) : Prop where
  inQueue : b.inQueue = s.queue
  transit : b.transit = transit s.pend
  running : b.running.map (·.1) = s.running
  startedL : b.startedL = s.started
  acceptedL : b.acceptedL = s.acceptedL
  nDrop : b.nDrop = s.dropped
  nDone : b.nDone = s.completed
  dueStarted : ∀ x ∈ due, x.1 ∈ s.started
  dueUniq : ∀ e ∈ b.running, ∀ d, (e.1, d) ∈ due → d = e.2

theorem init_inv2 (n : Nat) (qcap : Option Nat) : Inv2 { n := n, qcap := qcap } :=
  ⟨rfl, List.nodup_nil, List.Sublist.refl _⟩

theorem init_agree (n : Nat) (qcap : Option Nat) : Agree {} { n := n, qcap := qcap } [] :=
  ⟨rfl, rfl, rfl, rfl, rfl, rfl, rfl, fun _ h => (by cases h), fun _ h => (by cases h)⟩

theorem inv2_poll (s : St) (x : Inv2 s) : Inv2 (pollIfReady s).1 :=
  ⟨by rw [poll_accepted, poll_acceptedL]; exact x.accLen, by rw [poll_acceptedL]; exact x.nodup,
   by rw [poll_running, poll_started]; exact x.runSub⟩

theorem agree_poll (b : Book) (s : St) (due : Due) (ag : Agree b s due) : Agree b (pollIfReady s).1 due :=
  ⟨by rw [poll_queue]; exact ag.inQueue, by rw [poll_transit]; exact ag.transit, by rw [poll_running]; exact ag.running,
   by rw [poll_started]; exact ag.startedL, by rw [poll_acceptedL]; exact ag.acceptedL, by rw [poll_dropped]; exact ag.nDrop,
   by rw [poll_completed]; exact ag.nDone, by rw [poll_started]; exact ag.dueStarted, ag.dueUniq⟩

theorem started_nodup (s : St) (inv : Inv s) (x : Inv2 s) : s.started.Nodup := by
  have h := x.nodup
  rw [inv.order, List.append_assoc] at h
  exact (List.nodup_append.mp h).1

theorem running_nodup (s : St) (inv : Inv s) (x : Inv2 s) : s.running.Nodup :=
  x.runSub.nodup (started_nodup s inv x)

/-! ### list helpers -/

theorem find_fst (l : List (Nat × Nat)) (tid : Nat) (h : tid ∈ l.map (·.1)) :
    ∃ e, l.find? (·.1 == tid) = some e ∧ e.1 = tid ∧ e ∈ l := by
  induction l with
  | nil => cases h
  | cons a l ih =>
    by_cases ha : a.1 = tid
    · exact ⟨a, by simp [List.find?, ha], ha, List.mem_cons_self⟩
    · have hm : tid ∈ l.map (·.1) := by
        rcases List.mem_cons.mp h with h' | h'
        · exact absurd h'.symm ha
        · exact h'
      obtain ⟨e, he, he1, hel⟩ := ih hm
      refine ⟨e, ?_, he1, List.mem_cons_of_mem _ hel⟩
      have : (a.1 == tid) = false := by simpa using ha
      simp only [List.find?, this]; exact he

theorem filter_fst_erase (l : List (Nat × Nat)) (tid : Nat) (h : (l.map (·.1)).Nodup) :
    (l.filter (·.1 != tid)).map (·.1) = (l.map (·.1)).erase tid := by
  rw [List.Nodup.erase_eq_filter h, List.filter_map]
  rfl

end HappyModel.C09.TPool
