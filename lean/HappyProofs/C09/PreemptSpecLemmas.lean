import HappyProofs.C09.PreemptOrder
/-! Lemmas about the helpers of the PreemptibleResource judge (`headOf`, `Book.evict`, `Book.wakeSet`,
`sortedIds`): on the lists the model produces they accept, and the book they return follows the model. -/
namespace HappyModel.C09.Preempt

/-- arrival order of the judge's `waiting` list: call ids ascend -/
def idLt (a c : G) : Prop := a.id < c.id

/-! ### sorted id lists -/

theorem mem_sortedIds (i : Nat) (l : List Nat) : i ∈ sortedIds l ↔ i ∈ l := by
  unfold sortedIds; exact List.mem_mergeSort

theorem sortedIds_idem (l : List Nat) : sortedIds (sortedIds l) = sortedIds l := by
  unfold sortedIds
  apply List.mergeSort_of_pairwise
  apply List.pairwise_mergeSort
  · intro a b c h1 h2
    simp only [decide_eq_true_eq] at *
    omega
  · intro a b
    simp only [Bool.or_eq_true, decide_eq_true_eq]
    omega

theorem sortedIds_nil : sortedIds [] = [] := by unfold sortedIds; simp

/-! `List.mergeSort` is defined by well-founded recursion, which `decide` cannot evaluate: for the concrete
examples the sorted id lists are computed by a structurally recursive insertion sort that returns the same list. -/

def insertId (x : Nat) : List Nat → List Nat
  | [] => [x]
  | y :: ys => if x ≤ y then x :: y :: ys else y :: insertId x ys

def isortIds : List Nat → List Nat
  | [] => []
  | x :: xs => insertId x (isortIds xs)

theorem insertId_perm (x : Nat) (l : List Nat) : (insertId x l).Perm (x :: l) := by
  induction l with
  | nil => exact List.Perm.refl _
  | cons y ys ih =>
    simp only [insertId]
    split
    · exact List.Perm.refl _
    · exact (List.Perm.cons y ih).trans (List.Perm.swap x y ys)

theorem insertId_sorted (x : Nat) (l : List Nat) (h : l.Pairwise (· ≤ ·)) : (insertId x l).Pairwise (· ≤ ·) := by
  induction l with
  | nil => simp [insertId]
  | cons y ys ih =>
    rw [List.pairwise_cons] at h
    simp only [insertId]
    split
    · rename_i hxy
      rw [List.pairwise_cons]
      refine ⟨?_, List.pairwise_cons.mpr h⟩
      intro z hz
      rcases List.mem_cons.mp hz with hzy | hzt
      · rw [hzy]; exact hxy
      · have := h.1 z hzt; omega
    · rename_i hxy
      rw [List.pairwise_cons]
      refine ⟨?_, ih h.2⟩
      intro z hz
      rcases List.mem_cons.mp ((insertId_perm x ys).mem_iff.mp hz) with hzx | hzt
      · rw [hzx]; omega
      · exact h.1 z hzt

theorem isortIds_perm (l : List Nat) : (isortIds l).Perm l := by
  induction l with
  | nil => exact List.Perm.refl _
  | cons x xs ih => exact (insertId_perm x _).trans (List.Perm.cons x ih)

theorem isortIds_sorted (l : List Nat) : (isortIds l).Pairwise (· ≤ ·) := by
  induction l with
  | nil => simp [isortIds]
  | cons x xs ih => exact insertId_sorted x _ ih

theorem sortedIds_eq_isort (l : List Nat) : sortedIds l = isortIds l := by
  unfold sortedIds
  apply List.Perm.eq_of_pairwise (le := fun a b => a ≤ b)
  · intro a b _ _ h1 h2; omega
  · have := List.pairwise_mergeSort (le := fun (a b : Nat) => decide (a ≤ b))
      (by intro a b c h1 h2; simp only [decide_eq_true_eq] at *; omega)
      (by intro a b; simp only [Bool.or_eq_true, decide_eq_true_eq]; omega) l
    simpa using this
  · exact isortIds_sorted l
  · exact (List.mergeSort_perm l _).trans (isortIds_perm l).symm

/-! ### `headOf` -/

theorem headOf_cons (w : G) (ws : List G) :
    headOf (w :: ws) = match headOf ws with
      | none => some w
      | some h => if h.prio < w.prio then some h else some w := rfl

theorem before_asymm (a c : G) (h1 : before a c) (h2 : before c a) : False := by
  unfold before at h1 h2; omega

theorem before_trans (a c d : G) (h1 : before a c) (h2 : before c d) : before a d := by
  unfold before at *; omega

theorem headOf_spec (l : List G) (hl : l.Pairwise idLt) (hne : l ≠ []) :
    ∃ m, headOf l = some m ∧ m ∈ l ∧ ∀ x ∈ l, x = m ∨ before m x := by
  induction l with
  | nil => exact absurd rfl hne
  | cons w ws ih =>
    rw [List.pairwise_cons] at hl
    cases ws with
    | nil => exact ⟨w, rfl, by simp, by simp⟩
    | cons w2 ws2 =>
      obtain ⟨m, hm, hmem, hmin⟩ := ih hl.2 (by simp)
      rw [headOf_cons, hm]
      have hwm : w.id < m.id := hl.1 m hmem
      by_cases hp : m.prio < w.prio
      · refine ⟨m, by simp [hp], List.mem_cons_of_mem _ hmem, ?_⟩
        intro x hx
        rcases List.mem_cons.mp hx with hxw | hxt
        · rw [hxw]; exact Or.inr (Or.inl hp)
        · exact hmin x hxt
      · refine ⟨w, by simp [hp], List.mem_cons_self, ?_⟩
        intro x hx
        rcases List.mem_cons.mp hx with hxw | hxt
        · exact Or.inl hxw
        · have hbm : before w m := by unfold before; omega
          rcases hmin x hxt with hxm | hxm
          · rw [hxm]; exact Or.inr hbm
          · exact Or.inr (before_trans _ _ _ hbm hxm)

/-- the judge's head (computed from the arrival-ordered list) is the first entry of the model's queue -/
theorem headOf_min (l : List G) (hl : l.Pairwise idLt) (m : G) (hm : m ∈ l)
    (hmin : ∀ x ∈ l, x = m ∨ before m x) : headOf l = some m := by
  have hne : l ≠ [] := by intro h; rw [h] at hm; cases hm
  obtain ⟨m', h', hmem', hmin'⟩ := headOf_spec l hl hne
  rcases hmin m' hmem' with h | h
  · rw [h', h]
  · rcases hmin' m hm with h2 | h2
    · rw [h', h2]
    · exact absurd (before_asymm _ _ h h2) id

theorem headOf_perm_cons (l : List G) (w : G) (ws : List G) (hl : l.Pairwise idLt) (hp : l.Perm (w :: ws))
    (hs : (w :: ws).Pairwise before) : headOf l = some w := by
  apply headOf_min l hl w (hp.mem_iff.mpr List.mem_cons_self)
  intro x hx
  rcases List.mem_cons.mp (hp.mem_iff.mp hx) with h | h
  · exact Or.inl h
  · exact Or.inr ((List.pairwise_cons.mp hs).1 x h)

theorem headOf_nil_of_perm (l : List G) (hp : l.Perm []) : headOf l = none := by
  rw [List.perm_nil.mp hp]; rfl

/-! ### finding a grant by its id -/

theorem find_by_id (l : List G) (g : G) (hm : g ∈ l) (hn : (l.map G.id).Nodup) :
    l.find? (·.id == g.id) = some g := by
  induction l with
  | nil => cases hm
  | cons a as ih =>
    rw [List.map_cons, List.nodup_cons] at hn
    rcases List.mem_cons.mp hm with h | h
    · subst h; simp
    · have hne : a.id ≠ g.id := by
        intro he; apply hn.1; rw [he]; exact List.mem_map_of_mem h
      rw [List.find?_cons]
      have : (a.id == g.id) = false := by simp [hne]
      rw [this]
      exact ih h hn.2

theorem find_id_eq (l : List G) (id : Nat) (g : G) (h : l.find? (·.id == id) = some g) : g.id = id := by
  have := List.find?_some h
  simpa using this

theorem nodup_ids_erase (l : List G) (g : G) (hn : (l.map G.id).Nodup) : ((l.erase g).map G.id).Nodup :=
  List.Nodup.sublist (List.Sublist.map _ List.erase_sublist) hn

/-! ### `Book.evict` on the victims `_try_preempt` picked -/

theorem evict_nil (cap : Int) (b : Book) (amt prio : Int) : b.evict cap amt prio [] = .ok b := rfl

theorem evict_cons (cap : Int) (b : Book) (amt prio : Int) (v : Nat) (vs : List Nat) :
    b.evict cap amt prio (v :: vs) =
      match b.held.find? (·.id == v) with
      | none => .error "preempt/preempt/victim-not-holding"
      | some g =>
        if g.prio ≤ prio then .error "preempt/order/preempted-equal-or-higher-priority"
        else if amt ≤ cap - heldSum b then .error "preempt/preempt/more-than-needed"
        else if victim prio b.held ≠ some g then .error "preempt/order/wrong-victim"
        else Book.evict cap { b with held := b.held.erase g, gone := b.gone ++ [v] } amt prio vs := rfl

/-- what `_try_preempt` leaves alone -/
structure LoopFrame (s r : St) (ev : List Nat) : Prop where
  acq : r.acquisitions = s.acquisitions
  rel : r.releases = s.releases
  pre : r.preemptions = s.preemptions + ev.length
  nodup : (s.active.map G.id).Nodup → (r.active.map G.id).Nodup

theorem preemptLoop_frame2 (needed p : Int) (n : Nat) (s : St) :
    LoopFrame s (preemptLoop needed p n s).1 (preemptLoop needed p n s).2 := by
  induction n generalizing s with
  | zero => exact ⟨rfl, rfl, rfl, id⟩
  | succ n ih =>
    simp only [preemptLoop]
    split
    · exact ⟨rfl, rfl, rfl, id⟩
    · split
      · exact ⟨rfl, rfl, rfl, id⟩
      · rename_i v hv
        have f := ih { s with active := s.active.erase v, avail := s.avail + v.amt, preemptions := s.preemptions + 1 }
        dsimp only
        refine ⟨f.acq, f.rel, ?_, fun h => f.nodup (nodup_ids_erase _ _ h)⟩
        have := f.pre
        simp only [List.length_cons] at *
        omega

theorem evict_ok (cap amt p : Int) (n : Nat) (s : St) (b : Book)
    (hheld : b.held = s.active) (hnd : (s.active.map G.id).Nodup) (hcons : s.avail + amtSum s.active = cap) :
    ∃ b', b.evict cap amt p (preemptLoop amt p n s).2 = .ok b'
      ∧ b'.held = (preemptLoop amt p n s).1.active
      ∧ b'.gone = b.gone ++ (preemptLoop amt p n s).2
      ∧ b'.waiting = b.waiting ∧ b'.granted = b.granted ∧ b'.nRel = b.nRel ∧ b'.nCon = b.nCon := by
  induction n generalizing s b with
  | zero => exact ⟨b, rfl, hheld, by simp [preemptLoop], rfl, rfl, rfl, rfl⟩
  | succ n ih =>
    simp only [preemptLoop]
    split
    · exact ⟨b, rfl, hheld, by simp, rfl, rfl, rfl, rfl⟩
    · rename_i hna
      split
      · exact ⟨b, rfl, hheld, by simp, rfl, rfl, rfl, rfl⟩
      · rename_i v hv
        have hmem := victim_mem _ _ _ hv
        have hprio := victim_prio _ _ _ hv
        have hfind : b.held.find? (·.id == v.id) = some v := by rw [hheld]; exact find_by_id _ _ hmem hnd
        have hsum : heldSum b = amtSum s.active := by unfold heldSum; rw [hheld]
        have hvic : victim p b.held = some v := by rw [hheld]; exact hv
        obtain ⟨b', h1, h2, h3, h4, h5, h6, h7⟩ :=
          ih { s with active := s.active.erase v, avail := s.avail + v.amt, preemptions := s.preemptions + 1 }
            { b with held := b.held.erase v, gone := b.gone ++ [v.id] }
            (by show b.held.erase v = s.active.erase v; rw [hheld])
            (nodup_ids_erase _ _ hnd)
            (by show s.avail + v.amt + amtSum (s.active.erase v) = cap
                rw [amtSum_erase _ _ hmem]; omega)
        refine ⟨b', ?_, h2, ?_, h4, h5, h6, h7⟩
        · dsimp only
          rw [evict_cons, hfind]
          dsimp only
          rw [if_neg (by omega), if_neg (by rw [hsum]; omega), if_neg (by rw [hvic]; simp)]
          exact h1
        · rw [h3]; simp

/-! ### `Book.wakeSet` on the waiters `_wake_waiters` granted -/

theorem wakeSet_nil (cap : Int) (n : Nat) (b : Book) : Book.wakeSet cap n b [] = .ok b := by
  cases n <;> rfl

theorem wakeSet_succ (cap : Int) (n : Nat) (b : Book) (x : Nat) (xs : List Nat) :
    Book.wakeSet cap (n + 1) b (x :: xs) =
      match headOf b.waiting with
      | none => .error "preempt/grant/not-waiting"
      | some h =>
        if !(x :: xs).contains h.id then
          (if (x :: xs).any (fun i => b.granted.contains i) then .error "preempt/grant/twice"
           else if (x :: xs).any (fun i => !(b.waiting.any (·.id == i))) then .error "preempt/grant/not-waiting"
           else .error "preempt/order/out-of-order")
        else if b.granted.contains h.id then .error "preempt/grant/twice"
        else if cap - heldSum b < h.amt then .error "preempt/held/exceeds-capacity"
        else Book.wakeSet cap n { b with waiting := b.waiting.erase h, held := b.held ++ [h], granted := b.granted ++ [h.id] }
                          ((x :: xs).filter (· != h.id)) := rfl

theorem heldSum_snoc (b : Book) (w : G) (wt : List G) (gr : List Nat) :
    heldSum { b with waiting := wt, held := b.held ++ [w], granted := gr } = heldSum b + w.amt := by
  unfold heldSum
  show amtSum (b.held ++ [w]) = amtSum b.held + w.amt
  rw [amtSum_append]; simp [amtSum]

theorem wakeSet_ok (cap : Int) (ws : List G) : ∀ (a : Int) (fuel : Nat) (b : Book) (woke : List Nat),
    b.waiting.Perm ws → b.waiting.Pairwise idLt → ws.Pairwise before → (ws.map G.id).Nodup →
    (∀ g ∈ ws, g.id ∉ b.granted) → ws.length ≤ fuel → a = cap - heldSum b →
    (∀ i, i ∈ woke ↔ i ∈ (wokenOf a ws).map G.id) →
    ∃ b', Book.wakeSet cap fuel b woke = .ok b'
      ∧ b'.held = b.held ++ wokenOf a ws
      ∧ b'.granted = b.granted ++ (wokenOf a ws).map G.id
      ∧ b'.waiting.Perm (restOf a ws) ∧ b'.waiting.Pairwise idLt
      ∧ b'.gone = b.gone ∧ b'.nRel = b.nRel ∧ b'.nCon = b.nCon := by
  induction ws with
  | nil =>
    intro a fuel b woke hp hl _ _ _ _ _ hw
    have hnil : woke = [] := by
      apply List.eq_nil_iff_forall_not_mem.mpr
      intro i hi; have := (hw i).mp hi; simp [wokenOf] at this
    subst hnil
    exact ⟨b, wakeSet_nil _ _ _, by simp [wokenOf], by simp [wokenOf], by simpa [restOf] using hp, hl, rfl, rfl, rfl⟩
  | cons w ws' ih =>
    intro a fuel b woke hp hl hs hnd hng hfuel ha hw
    by_cases hfit : w.amt ≤ a
    · have hwk : wokenOf a (w :: ws') = w :: wokenOf (a - w.amt) ws' := by simp [wokenOf, hfit]
      have hrs : restOf a (w :: ws') = restOf (a - w.amt) ws' := by simp [restOf, hfit]
      rw [hwk, hrs]
      rw [hwk] at hw
      have hwin : w.id ∈ woke := (hw w.id).mpr (by simp)
      obtain ⟨x, xs, hwoke⟩ : ∃ x xs, woke = x :: xs := by
        cases woke with
        | nil => cases hwin
        | cons x xs => exact ⟨x, xs, rfl⟩
      obtain ⟨n, hn⟩ : ∃ n, fuel = n + 1 := by
        cases fuel with
        | zero => simp at hfuel
        | succ n => exact ⟨n, rfl⟩
      have hhead : headOf b.waiting = some w := headOf_perm_cons _ _ _ hl hp hs
      rw [List.map_cons, List.nodup_cons] at hnd
      have hwmem : w ∈ b.waiting := hp.mem_iff.mpr List.mem_cons_self
      have hwsub : ∀ g ∈ wokenOf (a - w.amt) ws', g ∈ ws' := by
        intro g hg
        have := woken_append_rest (a - w.amt) ws'
        rw [← this]; exact List.mem_append_left _ hg
      obtain ⟨b', h1, h2, h3, h4, h5, h6, h7, h8⟩ :=
        ih (a - w.amt) n { b with waiting := b.waiting.erase w, held := b.held ++ [w], granted := b.granted ++ [w.id] }
          (woke.filter (· != w.id))
          (by have := hp.erase w; simpa using this)
          (List.Pairwise.sublist List.erase_sublist hl)
          (List.pairwise_cons.mp hs).2 hnd.2
          (by intro g hg hmem
              have hmem' : g.id ∈ b.granted ++ [w.id] := hmem
              rcases List.mem_append.mp hmem' with h | h
              · exact hng g (List.mem_cons_of_mem _ hg) h
              · simp at h; apply hnd.1; rw [← h]; exact List.mem_map_of_mem hg)
          (by simp at hfuel; omega)
          (by rw [heldSum_snoc]; omega)
          (by intro i
              rw [List.mem_filter, hw i]
              simp only [List.map_cons, List.mem_cons, bne_iff_ne, ne_eq]
              constructor
              · rintro ⟨h | h, hne⟩
                · exact absurd h hne
                · exact h
              · intro h
                refine ⟨Or.inr h, ?_⟩
                intro he
                obtain ⟨g, hg, hge⟩ := List.mem_map.mp h
                apply hnd.1; rw [← he, ← hge]; exact List.mem_map_of_mem (hwsub g hg))
      refine ⟨b', ?_, ?_, ?_, h4, h5, h6, h7, h8⟩
      · rw [hn, hwoke, wakeSet_succ, hhead]
        dsimp only
        rw [← hwoke]
        have hc : woke.contains w.id = true := by simpa using hwin
        have hg : b.granted.contains w.id = false := by
          simpa using hng w List.mem_cons_self
        rw [hc, hg]
        simp only [Bool.not_true, Bool.false_eq_true, if_false]
        rw [if_neg (by omega)]
        exact h1
      · rw [h2]; simp
      · rw [h3]; simp
    · have hwk : wokenOf a (w :: ws') = [] := by simp [wokenOf, hfit]
      have hrs : restOf a (w :: ws') = w :: ws' := by simp [restOf, hfit]
      rw [hwk, hrs]
      rw [hwk] at hw
      have hnil : woke = [] := by
        apply List.eq_nil_iff_forall_not_mem.mpr
        intro i hi; have := (hw i).mp hi; simp at this
      subst hnil
      exact ⟨b, wakeSet_nil _ _ _, by simp, by simp, hp, hl, rfl, rfl, rfl⟩

end HappyModel.C09.Preempt
