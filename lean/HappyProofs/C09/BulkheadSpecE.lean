import HappyProofs.C09.BulkheadSpecD
/-! Bulkhead: the judge's books follow the driver over a `tmo` line. -/
namespace HappyModel.C09.Bulkhead
open HappyModel.C09.Extra (BPend)

theorem tmo_ok (max maxQ wait : Nat) (b : Book) (s : St) (p : BPend) (seen : List Nat) (t rid : Nat)
    (hw : s.wait = wait)
    (ag : Agree b s p) (tg : Tags b s p seen) (pk : Peaks b s) (hexp : expected s p (.tmo t rid) = true) :
    StepOK max maxQ wait b s p seen (.tmo t rid) := by
  simp only [expected] at hexp
  cases hf : p.tmos.find? (fun e => e.1 == rid && e.2.2 == t) with
  | none => rw [hf] at hexp; cases hexp
  | some e =>
    have hmem : e ∈ p.tmos := List.mem_of_find?_eq_some hf
    have hprop := List.find?_some hf
    simp only [Bool.and_eq_true, beq_iff_eq] at hprop
    obtain ⟨he1, he2⟩ := hprop
    have hlink := tg.tmLink e hmem
    have hw0 : wait ≠ 0 := by rw [← hw]; exact tg.tmWait e hmem
    have hsubT : ∀ x ∈ p.tmos.filter (·.1 != rid), x ∈ p.tmos := fun x hx => (List.mem_filter.mp hx).1
    simp only [StepOK, obsOf, dstep, tmoStep, hf, reqTags, List.nil_append]
    by_cases hany : s.queue.any (·.bid == e.2.1) = true
    · -- the request is still waiting: it times out
      rw [step_tmo_hit s e.2.1 t hany]
      simp only [show (Res.timedOut == Res.timedOut) = true from by decide, if_true]
      have hiff : ∀ q ∈ s.queue, ((wf q).1 != rid) = (q.bid != e.2.1) := by
        intro q hq
        have := (hlink q hq).1
        rw [he1] at this
        by_cases hb : q.bid = e.2.1
        · have hr : q.rid = rid := this.mp hb
          simp [wf, hb, hr]
        · have hr : q.rid ≠ rid := fun h => hb (this.mpr h)
          have h1 : (q.rid != rid) = true := by simpa using hr
          have h2 : (q.bid != e.2.1) = true := by simpa using hb
          simp only [wf]; rw [h1, h2]
      have hfilter : (s.queue.map wf).filter (·.1 != rid) = (s.queue.filter (·.bid != e.2.1)).map wf := by
        rw [List.filter_map]
        congr 1
        apply List.filter_congr
        intro q hq
        exact hiff q hq
      have hsubQ : ∀ x ∈ qtags { s with queue := s.queue.filter (·.bid != e.2.1), timedOut := s.timedOut + 1,
                                        expired := s.expired ++ [e.2.1] }, x ∈ qtags s ∧ x ≠ rid := by
        intro x hx
        obtain ⟨q, hq, rfl⟩ := List.mem_map.mp hx
        have hq' : q ∈ s.queue.filter (·.bid != e.2.1) := hq
        rw [List.mem_filter] at hq'
        refine ⟨List.mem_map_of_mem hq'.1, ?_⟩
        have := hiff q hq'.1
        rw [hq'.2] at this
        simpa [wf] using this
      -- what the judge finds under the tag
      have hfind : ∃ e', b.waiting.find? (·.1 == rid) = some e' ∧ e'.2 + wait = t := by
        rw [ag.waiting]
        cases hf2 : (s.queue.map wf).find? (·.1 == rid) with
        | none =>
          rw [List.find?_eq_none] at hf2
          rw [List.any_eq_true] at hany
          obtain ⟨q, hq, hb⟩ := hany
          have hb' : q.bid = e.2.1 := by simpa using hb
          have := hiff q hq
          rw [hb'] at this
          exact absurd (by simpa using this) (hf2 (wf q) (List.mem_map_of_mem hq))
        | some e' =>
          refine ⟨e', rfl, ?_⟩
          have h1 := List.find?_some hf2
          obtain ⟨q, hq, rfl⟩ := List.mem_map.mp (List.mem_of_find?_eq_some hf2)
          have h1' : q.rid = rid := by simpa [wf] using h1
          have hb : q.bid = e.2.1 := (hlink q hq).1.mpr (by rw [h1', he1])
          have := (hlink q hq).2 hb
          show q.enq + wait = t
          rw [← hw, this, he2]
      obtain ⟨e', hfe, hdue⟩ := hfind
      refine ⟨{ b with waiting := b.waiting.filter (·.1 != rid), timedOut := b.timedOut ++ [rid] }, ?_, ?_, ?_, rfl, rfl, ?_⟩
      · have hc : ¬ (wait = 0 ∨ t < e'.2 + wait) := by omega
        simp only [Book.apply, cnt]
        simp only [ne_eq, not_true_eq_false, if_false]
        rw [hfe]
        simp [hc]
      · refine ⟨ag.toStart, ag.running, ag.toResp, ?_, ?_, ag.nAdm, ag.nReq, ag.nRej, ag.nQueued, ag.active⟩
        · show b.waiting.filter (·.1 != rid) = (s.queue.filter (·.bid != e.2.1)).map wf
          rw [ag.waiting, hfilter]
        · show (b.timedOut ++ [rid]).length = s.timedOut + 1
          simp [ag.nTimed]
      · refine ⟨tg.startsNd, tg.runNd, tg.donesNd, tg.d12, tg.d13, tg.d23, tg.s1, tg.s2, tg.s3, ?_, ?_, ?_, tg.admSeen, ?_, ?_,
                ?_, ?_, ?_, ?_⟩
        · exact List.Nodup.sublist (List.Sublist.map _ List.filter_sublist) tg.qNd
        · intro x hx; exact tg.qAdm x (hsubQ x hx).1
        · intro x hx hr
          rcases mem_snoc (show x ∈ b.timedOut ++ [rid] from hr) with h | h
          · exact tg.qTo x (hsubQ x hx).1 h
          · exact (hsubQ x hx).2 h
        · intro x hx
          rcases mem_snoc (show x ∈ b.timedOut ++ [rid] from hx) with h | h
          · exact tg.toSeen x h
          · rw [h, ← he1]; exact tg.tmSeen e hmem
        · intro x hx; exact tg.qSeen x (hsubQ x hx).1
        · intro x hx; exact tg.tmSeen x (hsubT x hx)
        · intro x hx; exact tg.tmFresh x (hsubT x hx)
        · intro x hx; exact tg.tmWait x (hsubT x hx)
        · intro x hx q hq
          have hq' : q ∈ s.queue.filter (·.bid != e.2.1) := hq
          exact tg.tmLink x (hsubT x hx) q (List.mem_filter.mp hq').1
      · refine ⟨?_, ?_⟩
        · show s.peakConc = if s.peakConc < s.active then s.active else s.peakConc
          rw [if_neg (by have := pk.geA; omega)]
        · show s.peakQueue = if s.peakQueue < (s.queue.filter (·.bid != e.2.1)).length
              then (s.queue.filter (·.bid != e.2.1)).length else s.peakQueue
          have := List.length_filter_le (fun x : Entry => x.bid != e.2.1) s.queue
          rw [if_neg (by have := pk.geQ; omega)]
    · -- the request left the queue before: nothing happens
      have hany' : s.queue.any (·.bid == e.2.1) = false := by simpa using hany
      rw [step_tmo_miss s e.2.1 t hany']
      simp only [show (Res.noop == Res.timedOut) = false from by decide, Bool.false_eq_true, if_false]
      refine ⟨b, ?_, ?_, ?_, rfl, rfl, PeakEv.same s pk.geA pk.geQ⟩
      · have hnone : b.waiting.find? (·.1 == rid) = none := by
          rw [ag.waiting, List.find?_eq_none]
          intro x hx hx1
          obtain ⟨q, hq, rfl⟩ := List.mem_map.mp hx
          have h1' : q.rid = rid := by simpa [wf] using hx1
          have hb : q.bid = e.2.1 := (hlink q hq).1.mpr (by rw [h1', he1])
          rw [List.any_eq_false] at hany'
          exact hany' q hq (by simpa using hb)
        simp only [Book.apply, cnt]
        simp only [ne_eq, not_true_eq_false, if_false]
        rw [hnone]
        simp
      · exact ⟨ag.toStart, ag.running, ag.toResp, ag.waiting, ag.nTimed, ag.nAdm, ag.nReq, ag.nRej, ag.nQueued, ag.active⟩
      · exact ⟨tg.startsNd, tg.runNd, tg.donesNd, tg.d12, tg.d13, tg.d23, tg.s1, tg.s2, tg.s3, tg.qNd, tg.qAdm, tg.qTo,
               tg.admSeen, tg.toSeen, tg.qSeen, fun x hx => tg.tmSeen x (hsubT x hx), fun x hx => tg.tmFresh x (hsubT x hx),
               fun x hx => tg.tmWait x (hsubT x hx), fun x hx => tg.tmLink x (hsubT x hx)⟩

end HappyModel.C09.Bulkhead
