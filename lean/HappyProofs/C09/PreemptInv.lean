import HappyModel.C09.Preempt
/-! Invariants of the PreemptibleResource model (`wakeAfterPreempt = true`), for every operation list. -/
namespace HappyModel.C09.Preempt

/-! ### amounts -/

theorem amtSum_append (a b : List G) : amtSum (a ++ b) = amtSum a + amtSum b := by
  induction a with
  | nil => simp [amtSum]
  | cons g gs ih => simp [amtSum, ih]; omega

theorem amtSum_erase (l : List G) (g : G) (h : g ∈ l) : amtSum (l.erase g) = amtSum l - g.amt := by
  induction l with
  | nil => cases h
  | cons a as ih =>
    rw [List.erase_cons]
    by_cases hag : a = g
    · simp [hag, amtSum]; omega
    · have hne : (a == g) = false := by simp [hag]
      have hmem : g ∈ as := by
        rcases List.mem_cons.mp h with h | h
        · exact absurd h.symm hag
        · exact h
      simp [hne, amtSum, ih hmem]; omega

theorem amtSum_nonneg (l : List G) (h : ∀ g ∈ l, 0 < g.amt) : 0 ≤ amtSum l := by
  induction l with
  | nil => simp [amtSum]
  | cons a as ih =>
    have h1 := h a (List.mem_cons_self)
    have h2 := ih (fun g hg => h g (List.mem_cons_of_mem _ hg))
    simp [amtSum]; omega

theorem victim_mem (p : Int) (l : List G) (v : G) (h : victim p l = some v) : v ∈ l := by
  induction l generalizing v with
  | nil => simp [victim] at h
  | cons g gs ih =>
    cases hv : victim p gs with
    | none =>
      simp only [victim, hv] at h
      split at h
      · cases h; exact List.mem_cons_self
      · cases h
    | some v' =>
      simp only [victim, hv] at h
      split at h
      · cases h; exact List.mem_cons_self
      · have hvv : v' = v := Option.some.inj h
        subst hvv; exact List.mem_cons_of_mem _ (ih v' hv)

theorem victim_prio (p : Int) (l : List G) (v : G) (h : victim p l = some v) : p < v.prio := by
  induction l generalizing v with
  | nil => simp [victim] at h
  | cons g gs ih =>
    cases hv : victim p gs with
    | none =>
      simp only [victim, hv] at h
      split at h
      · rename_i hp; cases h; exact hp
      · cases h
    | some v' =>
      simp only [victim, hv] at h
      split at h
      · rename_i hp; cases h; exact hp.1
      · have hvv : v' = v := Option.some.inj h
        subst hvv; exact ih v' hv

/-! ### `_wake_waiters` -/

theorem woken_append_rest (a : Int) (l : List G) : wokenOf a l ++ restOf a l = l := by
  induction l generalizing a with
  | nil => rfl
  | cons w ws ih =>
    simp only [wokenOf, restOf]
    split
    · simp [ih]
    · rfl

theorem woken_sum_le (a : Int) (l : List G) (ha : 0 ≤ a) : amtSum (wokenOf a l) ≤ a := by
  induction l generalizing a with
  | nil => simpa [wokenOf, amtSum] using ha
  | cons w ws ih =>
    simp only [wokenOf]
    split
    · rename_i hfit
      have := ih (a - w.amt) (by omega)
      simp [amtSum]; omega
    · simpa [amtSum] using ha

theorem rest_head_blocked (a : Int) (l : List G) (w : G) (ws : List G) (h : restOf a l = w :: ws) :
    a - amtSum (wokenOf a l) < w.amt := by
  induction l generalizing a with
  | nil => simp [restOf] at h
  | cons x xs ih =>
    simp only [restOf] at h
    simp only [wokenOf]
    split
    · rename_i hfit
      simp only [hfit, if_true] at h
      have := ih (a - x.amt) h
      simp [amtSum]; omega
    · rename_i hno
      simp only [hno, if_false] at h
      cases h
      simp [amtSum]; omega

/-! ### `_try_preempt` -/

structure LoopFacts (s r : St) : Prop where
  cap : r.cap = s.cap
  fix : r.wakeAfterPreempt = s.wakeAfterPreempt
  sum : r.avail + amtSum r.active = s.avail + amtSum s.active
  mono : s.avail ≤ r.avail
  sub : ∀ g ∈ r.active, g ∈ s.active
  waiters : r.waiters = s.waiters
  nextId : r.nextId = s.nextId
  log : r.grantLog = s.grantLog
  cont : r.contentions = s.contentions

theorem preemptLoop_facts (needed p : Int) (n : Nat) (s : St) (hpos : ∀ g ∈ s.active, 0 < g.amt) :
    LoopFacts s (preemptLoop needed p n s).1 := by
  induction n generalizing s with
  | zero => exact ⟨rfl, rfl, rfl, Int.le_refl _, fun _ h => h, rfl, rfl, rfl, rfl⟩
  | succ n ih =>
    simp only [preemptLoop]
    split
    · exact ⟨rfl, rfl, rfl, Int.le_refl _, fun _ h => h, rfl, rfl, rfl, rfl⟩
    · split
      · exact ⟨rfl, rfl, rfl, Int.le_refl _, fun _ h => h, rfl, rfl, rfl, rfl⟩
      · rename_i v hv
        have hmem := victim_mem _ _ _ hv
        have hvpos := hpos v hmem
        have hsub : ∀ g ∈ s.active.erase v, g ∈ s.active := fun g hg => List.mem_of_mem_erase hg
        have f := ih { s with active := s.active.erase v, avail := s.avail + v.amt, preemptions := s.preemptions + 1 }
          (fun g hg => hpos g (hsub g hg))
        dsimp only
        refine ⟨f.cap, f.fix, ?_, ?_, fun g hg => hsub g (f.sub g hg), f.waiters, f.nextId, f.log, f.cont⟩
        · have := f.sum
          have he := amtSum_erase s.active v hmem
          dsimp only at this
          omega
        · have := f.mono; dsimp only at this; omega

theorem preemptLoop_nil (needed p : Int) (n : Nat) (s : St) (h : (preemptLoop needed p n s).2 = []) :
    (preemptLoop needed p n s).1 = s := by
  cases n with
  | zero => rfl
  | succ n =>
    simp only [preemptLoop]
    split
    · rfl
    · rename_i hna
      split
      · rfl
      · rename_i v hv
        simp only [preemptLoop, hna, if_false, hv] at h
        simp at h

/-! ### numeric invariant and head-of-line -/

structure Num (s : St) : Prop where
  fix : s.wakeAfterPreempt = true
  capPos : 0 < s.cap
  conserve : s.avail + amtSum s.active = s.cap
  availNonneg : 0 ≤ s.avail
  actPos : ∀ g ∈ s.active, 0 < g.amt
  waitPos : ∀ g ∈ s.waiters, 0 < g.amt

structure Inv (s : St) : Prop where
  num : Num s
  head : ∀ w ws, s.waiters = w :: ws → s.avail < w.amt

theorem init_inv (cap : Int) (h : 0 < cap) : Inv (St.init cap) :=
  ⟨⟨rfl, h, by simp [St.init, amtSum], by simp [St.init]; omega, by simp [St.init], by simp [St.init]⟩,
   by simp [St.init]⟩

theorem wake_inv (s : St) (n : Num s) : Inv (wake s).1 := by
  have hsplit := woken_append_rest s.avail s.waiters
  have hsum := woken_sum_le s.avail s.waiters n.availNonneg
  have hwpos : ∀ g ∈ wokenOf s.avail s.waiters, 0 < g.amt := by
    intro g hg; apply n.waitPos; rw [← hsplit]; exact List.mem_append_left _ hg
  refine ⟨⟨n.fix, n.capPos, ?_, ?_, ?_, ?_⟩, ?_⟩
  · show s.avail - amtSum (wokenOf s.avail s.waiters) + amtSum (s.active ++ wokenOf s.avail s.waiters) = s.cap
    rw [amtSum_append]; have := n.conserve; omega
  · show 0 ≤ s.avail - amtSum (wokenOf s.avail s.waiters); omega
  · intro g hg
    have hg' : g ∈ s.active ++ wokenOf s.avail s.waiters := hg
    rcases List.mem_append.mp hg' with h | h
    · exact n.actPos g h
    · exact hwpos g h
  · intro g hg
    apply n.waitPos; rw [← hsplit]; exact List.mem_append_right _ hg
  · intro w ws hw
    exact rest_head_blocked s.avail s.waiters w ws hw

theorem mem_insWaiter (w x : G) (l : List G) : x ∈ insWaiter w l ↔ x = w ∨ x ∈ l := by
  induction l with
  | nil => simp [insWaiter]
  | cons h t ih =>
    simp only [insWaiter]
    split
    · simp [ih]; constructor
      · rintro (h1 | h1 | h1)
        · exact Or.inr (Or.inl h1)
        · exact Or.inl h1
        · exact Or.inr (Or.inr h1)
      · rintro (h1 | h1 | h1)
        · exact Or.inr (Or.inl h1)
        · exact Or.inl h1
        · exact Or.inr (Or.inr h1)
    · simp

theorem insWaiter_head (w : G) (l : List G) (x : G) (xs : List G) (h : insWaiter w l = x :: xs) :
    x = w ∨ ∃ ys, l = x :: ys := by
  cases l with
  | nil => simp [insWaiter] at h; exact Or.inl h.1.symm
  | cons a as =>
    simp only [insWaiter] at h
    split at h
    · cases h; exact Or.inr ⟨as, rfl⟩
    · cases h; exact Or.inl rfl

theorem grantNow_num (s : St) (g : G) (n : Num s) (hpos : 0 < g.amt) (hfit : g.amt ≤ s.avail) : Num (grantNow s g) := by
  refine ⟨n.fix, n.capPos, ?_, ?_, ?_, n.waitPos⟩
  · show s.avail - g.amt + amtSum (s.active ++ [g]) = s.cap
    rw [amtSum_append]; have := n.conserve; simp [amtSum]; omega
  · show 0 ≤ s.avail - g.amt; omega
  · intro x hx
    have hx' : x ∈ s.active ++ [g] := hx
    rcases List.mem_append.mp hx' with h | h
    · exact n.actPos x h
    · simp at h; rw [h]; exact hpos

theorem step_inv (s : St) (o : Op) (inv : Inv s) : Inv (step s o).1 := by
  have n := inv.num
  cases o with
  | release id =>
    simp only [step]
    split
    · exact inv
    · rename_i g hg
      have hmem : g ∈ s.active := List.mem_of_find?_eq_some hg
      apply wake_inv
      refine ⟨n.fix, n.capPos, ?_, ?_, ?_, n.waitPos⟩
      · show s.avail + g.amt + amtSum (s.active.erase g) = s.cap
        rw [amtSum_erase _ _ hmem]; have := n.conserve; omega
      · show 0 ≤ s.avail + g.amt
        have := n.actPos g hmem; have := n.availNonneg; omega
      · intro x hx; exact n.actPos x (List.mem_of_mem_erase hx)
  | acquire amt prio preempt =>
    -- the state after the call id was taken
    have n1 : Num { s with nextId := s.nextId + 1 } := ⟨n.fix, n.capPos, n.conserve, n.availNonneg, n.actPos, n.waitPos⟩
    have h1 : ∀ w ws, s.waiters = w :: ws → s.avail < w.amt := inv.head
    simp only [step]
    split
    · exact ⟨n1, h1⟩
    · rename_i hok
      have hamt : 0 < amt := by omega
      split
      · rename_i hfit
        refine ⟨grantNow_num _ ⟨s.nextId, amt, prio⟩ n1 hamt hfit, ?_⟩
        intro w ws hw
        show s.avail - amt < w.amt
        have := h1 w ws hw; omega
      · rename_i hnofit
        -- facts about the preemption loop (or its absence)
        have hfacts : LoopFacts { s with nextId := s.nextId + 1 }
            (if preempt then preemptLoop amt prio s.active.length { s with nextId := s.nextId + 1 }
             else ({ s with nextId := s.nextId + 1 }, [])).1 := by
          split
          · exact preemptLoop_facts amt prio _ _ n.actPos
          · exact ⟨rfl, rfl, rfl, Int.le_refl _, fun _ h => h, rfl, rfl, rfl, rfl⟩
        have hnil : (if preempt then preemptLoop amt prio s.active.length { s with nextId := s.nextId + 1 }
             else ({ s with nextId := s.nextId + 1 }, [])).2 = [] →
            (if preempt then preemptLoop amt prio s.active.length { s with nextId := s.nextId + 1 }
             else ({ s with nextId := s.nextId + 1 }, [])).1 = { s with nextId := s.nextId + 1 } := by
          split
          · exact preemptLoop_nil _ _ _ _
          · intro _; rfl
        generalize (if preempt then preemptLoop amt prio s.active.length { s with nextId := s.nextId + 1 }
             else ({ s with nextId := s.nextId + 1 }, [])) = r at hfacts hnil
        have nr : Num r.1 := by
          refine ⟨by rw [hfacts.fix]; exact n.fix, by rw [hfacts.cap]; exact n.capPos, ?_, ?_, ?_, ?_⟩
          · rw [hfacts.sum, hfacts.cap]; exact n.conserve
          · have := hfacts.mono; have := n.availNonneg; simp only at *; omega
          · intro g hg; exact n.actPos g (hfacts.sub g hg)
          · rw [hfacts.waiters]; exact n.waitPos
        have hfix : s.wakeAfterPreempt = true := n.fix
        split
        · rename_i hgr
          have ng := grantNow_num r.1 ⟨s.nextId, amt, prio⟩ nr hamt hgr.2
          split
          · exact wake_inv _ ng
          · rename_i hnw
            have hr2 : r.2 = [] := by
              simp only [hfix, true_and, ne_eq, Decidable.not_not] at hnw; exact hnw
            have := hnil hr2
            rw [this] at hgr
            exact absurd hgr.2 hnofit
        · rename_i hq
          have nq : Num { r.1 with contentions := r.1.contentions + 1,
                                   waiters := insWaiter ⟨s.nextId, amt, prio⟩ r.1.waiters } := by
            refine ⟨nr.fix, nr.capPos, nr.conserve, nr.availNonneg, nr.actPos, ?_⟩
            intro g hg
            rcases (mem_insWaiter _ _ _).mp hg with h | h
            · rw [h]; exact hamt
            · exact nr.waitPos g h
          split
          · exact wake_inv _ nq
          · rename_i hnw
            have hr2 : r.2 = [] := by
              simp only [hfix, true_and, ne_eq, Decidable.not_not] at hnw; exact hnw
            have hrs := hnil hr2
            refine ⟨nq, ?_⟩
            intro w ws hw
            have hw' : insWaiter ⟨s.nextId, amt, prio⟩ r.1.waiters = w :: ws := hw
            show r.1.avail < w.amt
            rw [hrs] at hw' ⊢
            rcases insWaiter_head _ _ _ _ hw' with h | ⟨ys, h⟩
            · rw [h]; show s.avail < amt; omega
            · exact h1 w ys h

theorem run_inv (s : St) (ops : List Op) (inv : Inv s) : Inv (run s ops) := by
  induction ops generalizing s with
  | nil => exact inv
  | cons o os ih => exact ih _ (step_inv s o inv)

theorem preemptLoop_cap (needed p : Int) (n : Nat) (s : St) : (preemptLoop needed p n s).1.cap = s.cap := by
  induction n generalizing s with
  | zero => rfl
  | succ n ih =>
    simp only [preemptLoop]
    split
    · rfl
    · split
      · rfl
      · dsimp only; rw [ih]

theorem step_cap (s : St) (o : Op) : (step s o).1.cap = s.cap := by
  cases o with
  | release id => simp only [step]; split <;> rfl
  | acquire amt prio preempt =>
    have hc : (if preempt then preemptLoop amt prio s.active.length { s with nextId := s.nextId + 1 }
             else ({ s with nextId := s.nextId + 1 }, [])).1.cap = s.cap := by
      split
      · rw [preemptLoop_cap]
      · rfl
    simp only [step]
    split
    · rfl
    · split
      · rfl
      · generalize (if preempt then preemptLoop amt prio s.active.length { s with nextId := s.nextId + 1 }
             else ({ s with nextId := s.nextId + 1 }, [])) = r at hc
        split
        · split
          · exact hc
          · exact hc
        · split
          · exact hc
          · exact hc

theorem run_cap (s : St) (ops : List Op) : (run s ops).cap = s.cap := by
  induction ops generalizing s with
  | nil => rfl
  | cons o os ih => rw [run, ih, step_cap]

end HappyModel.C09.Preempt
