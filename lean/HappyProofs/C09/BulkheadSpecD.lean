import HappyProofs.C09.BulkheadSpecC
/-! Bulkhead: the judge's books follow the driver over a `req` line. -/
namespace HappyModel.C09.Bulkhead
open HappyModel.C09.Extra (BPend)

theorem Agree.bactive {b : Book} {s : St} {p : BPend} (ag : Agree b s p) : b.active = s.active := by
  rw [Book.active, ag.toStart, ag.running, ag.toResp, ag.active]

theorem mem_snoc {α : Type} {x a : α} {l : List α} (h : x ∈ l ++ [a]) : x ∈ l ∨ x = a := by
  rcases List.mem_append.mp h with h | h
  · exact Or.inl h
  · exact Or.inr (by simpa using h)

theorem req_ok (max maxQ wait : Nat) (b : Book) (s : St) (p : BPend) (seen : List Nat) (t rid : Nat)
    (hm : s.max = max) (hq : s.maxQ = maxQ) (hw : s.wait = wait) (inv : Inv s)
    (ag : Agree b s p) (tg : Tags b s p seen) (pk : Peaks b s) (hfresh : rid ∉ seen) :
    StepOK max maxQ wait b s p seen (.req t rid) := by
  have hnadm : rid ∉ b.admitted := fun h => hfresh (tg.admSeen rid h)
  have hnto : rid ∉ b.timedOut := fun h => hfresh (tg.toSeen rid h)
  have hnq : rid ∉ qtags s := fun h => hfresh (tg.qSeen rid h)
  have hseen : ∀ x ∈ seen, x ≠ rid := fun x hx he => hfresh (he ▸ hx)
  simp only [StepOK, obsOf, dstep, reqTags, List.cons_append, List.nil_append]
  by_cases hlt : s.active < s.max
  · -- admitted at once
    simp only [reqStep, step_req_adm s rid t hlt]
    refine ⟨{ b with nReq := b.nReq + 1, toStart := b.toStart ++ [(rid, t)], admitted := b.admitted ++ [rid] }, ?_, ?_, ?_,
            rfl, rfl, ?_⟩
    · simp only [Book.apply, cnt]
      simp [hnadm]
    · refine ⟨by simp [ag.toStart], ag.running, ag.toResp, ag.waiting, ag.nTimed, ?_, ?_, ag.nRej, ag.nQueued, ?_⟩
      · show (b.admitted ++ [rid]).length = s.accepted + 1
        simp [ag.nAdm]
      · show b.nReq + 1 = s.total + 1
        rw [ag.nReq]
      · show s.active + 1 = (p.starts ++ [(rid, t)]).length + p.running.length + p.dones.length
        have := ag.active; simp; omega
    · refine ⟨?_, tg.runNd, tg.donesNd, ?_, ?_, tg.d23, ?_, ?_, ?_, tg.qNd, ?_, tg.qTo, ?_, ?_, ?_, ?_, ?_, tg.tmWait, tg.tmLink⟩
      · show ((p.starts ++ [(rid, t)]).map (·.1)).Nodup
        rw [List.map_append]
        exact nodup_snoc _ _ tg.startsNd (fun h => hnadm (tg.s1 rid h))
      · intro x hx hr
        have hx' : x ∈ p.starts.map (·.1) ++ [rid] := by simpa using hx
        rcases mem_snoc hx' with h | h
        · exact tg.d12 x h hr
        · subst h; exact hnadm (tg.s2 x hr)
      · intro x hx hr
        have hx' : x ∈ p.starts.map (·.1) ++ [rid] := by simpa using hx
        rcases mem_snoc hx' with h | h
        · exact tg.d13 x h hr
        · subst h; exact hnadm (tg.s3 x hr)
      · intro x hx
        have hx' : x ∈ p.starts.map (·.1) ++ [rid] := by simpa using hx
        show x ∈ b.admitted ++ [rid]
        rcases mem_snoc hx' with h | h
        · exact List.mem_append_left _ (tg.s1 x h)
        · subst h; simp
      · intro x hx; exact List.mem_append_left _ (tg.s2 x hx)
      · intro x hx; exact List.mem_append_left _ (tg.s3 x hx)
      · intro x hx hr
        rcases mem_snoc (show x ∈ b.admitted ++ [rid] from hr) with h | h
        · exact tg.qAdm x hx h
        · subst h; exact hnq hx
      · intro x hx
        rcases mem_snoc (show x ∈ b.admitted ++ [rid] from hx) with h | h
        · exact List.mem_cons_of_mem _ (tg.admSeen x h)
        · subst h; exact List.mem_cons_self ..
      · intro x hx; exact List.mem_cons_of_mem _ (tg.toSeen x hx)
      · intro x hx; exact List.mem_cons_of_mem _ (tg.qSeen x hx)
      · intro e he; exact List.mem_cons_of_mem _ (tg.tmSeen e he)
      · intro e he; have := tg.tmFresh e he; show e.2.1 ≤ s.nextId + 1; omega
    · refine ⟨rfl, ?_⟩
      show s.peakQueue = if s.peakQueue < s.queue.length then s.queue.length else s.peakQueue
      rw [if_neg (by have := pk.geQ; omega)]
  · by_cases hroom : s.queue.length < s.maxQ
    · -- queued
      simp only [reqStep, step_req_queued s rid t hlt hroom]
      have hqfresh : ∀ q ∈ s.queue, q.bid ≤ s.nextId ∧ q.rid ≠ rid := by
        intro q hq'
        refine ⟨inv.fresh q.bid (List.mem_append_right _ (List.mem_map_of_mem hq')), ?_⟩
        intro he; exact hnq (he ▸ List.mem_map_of_mem (f := Entry.rid) hq')
      refine ⟨{ b with nReq := b.nReq + 1, nQueued := b.nQueued + 1, waiting := b.waiting ++ [(rid, t)] }, ?_, ?_, ?_,
              rfl, rfl, ?_⟩
      · simp only [Book.apply, cnt]
        simp
      · have hag : ∀ p', p'.starts = p.starts → p'.running = p.running → p'.dones = p.dones →
            Agree { b with nReq := b.nReq + 1, nQueued := b.nQueued + 1, waiting := b.waiting ++ [(rid, t)] }
              (enqueue { s with total := s.total + 1 } rid t) p' := by
          intro p' e1 e2 e3
          refine ⟨by rw [e1]; exact ag.toStart, by rw [e2]; exact ag.running, by rw [e3]; exact ag.toResp, ?_, ag.nTimed,
                  ag.nAdm, ?_, ag.nRej, ?_, by rw [e1, e2, e3]; exact ag.active⟩
          · show b.waiting ++ [(rid, t)] = (s.queue ++ [(⟨s.nextId + 1, rid, t⟩ : Entry)]).map wf
            rw [ag.waiting]; simp [wf]
          · show b.nReq + 1 = s.total + 1
            rw [ag.nReq]
          · show b.nQueued + 1 = s.queued + 1
            rw [ag.nQueued]
        split
        · exact hag _ rfl rfl rfl
        · exact hag _ rfl rfl rfl
      · have htg : ∀ p', p'.starts = p.starts → p'.running = p.running → p'.dones = p.dones →
            (∀ e ∈ p'.tmos, e ∈ p.tmos ∨ (s.wait ≠ 0 ∧ e = (rid, s.nextId + 1, t + s.wait))) →
            Tags { b with nReq := b.nReq + 1, nQueued := b.nQueued + 1, waiting := b.waiting ++ [(rid, t)] }
              (enqueue { s with total := s.total + 1 } rid t) p' (rid :: seen) := by
          intro p' e1 e2 e3 htm
          have hqt : qtags (enqueue { s with total := s.total + 1 } rid t) = qtags s ++ [rid] := by
            simp [qtags, enqueue]
          refine ⟨by rw [e1]; exact tg.startsNd, by rw [e2]; exact tg.runNd, by rw [e3]; exact tg.donesNd,
                  by rw [e1, e2]; exact tg.d12, by rw [e1, e3]; exact tg.d13, by rw [e2, e3]; exact tg.d23,
                  by rw [e1]; exact tg.s1, by rw [e2]; exact tg.s2, by rw [e3]; exact tg.s3, ?_, ?_, ?_, ?_, ?_, ?_, ?_, ?_, ?_, ?_⟩
          · rw [hqt]; exact nodup_snoc _ _ tg.qNd hnq
          · intro x hx; rw [hqt] at hx
            rcases mem_snoc hx with h | h
            · exact tg.qAdm x h
            · subst h; exact hnadm
          · intro x hx; rw [hqt] at hx
            rcases mem_snoc hx with h | h
            · exact tg.qTo x h
            · subst h; exact hnto
          · intro x hx; exact List.mem_cons_of_mem _ (tg.admSeen x hx)
          · intro x hx; exact List.mem_cons_of_mem _ (tg.toSeen x hx)
          · intro x hx; rw [hqt] at hx
            rcases mem_snoc hx with h | h
            · exact List.mem_cons_of_mem _ (tg.qSeen x h)
            · subst h; exact List.mem_cons_self ..
          · intro e he
            rcases htm e he with h | h
            · exact List.mem_cons_of_mem _ (tg.tmSeen e h)
            · rw [h.2]; exact List.mem_cons_self ..
          · intro e he
            show e.2.1 ≤ s.nextId + 1
            rcases htm e he with h | h
            · have := tg.tmFresh e h; omega
            · rw [h.2]; exact Nat.le_refl _
          · intro e he
            show s.wait ≠ 0
            rcases htm e he with h | h
            · exact tg.tmWait e h
            · exact h.1
          · intro e he q hq'
            have hq'' : q ∈ s.queue ++ [(⟨s.nextId + 1, rid, t⟩ : Entry)] := hq'
            show (q.bid = e.2.1 ↔ q.rid = e.1) ∧ (q.bid = e.2.1 → q.enq + s.wait = e.2.2)
            rcases htm e he with h | h <;> rcases mem_snoc hq'' with hq1 | hq1
            · exact tg.tmLink e h q hq1
            · subst hq1
              have h1 := tg.tmFresh e h
              have h2 := hseen _ (tg.tmSeen e h)
              exact ⟨⟨fun hh => by simp only at hh; omega, fun hh => absurd hh.symm h2⟩, fun hh => by simp only at hh; omega⟩
            · have := hqfresh q hq1
              rw [h.2]
              exact ⟨⟨fun hh => by simp only at hh; omega, fun hh => absurd hh this.2⟩, fun hh => by simp only at hh; omega⟩
            · subst hq1; rw [h.2]
              exact ⟨⟨fun _ => rfl, fun _ => rfl⟩, fun _ => rfl⟩
        split
        · exact htg _ rfl rfl rfl (fun e he => Or.inl he)
        · rename_i hw0
          refine htg _ rfl rfl rfl ?_
          intro e he
          rcases mem_snoc (show e ∈ p.tmos ++ [(rid, s.nextId + 1, t + wait)] from he) with h | h
          · exact Or.inl h
          · exact Or.inr ⟨by rw [hw]; exact hw0, by rw [h, hw]⟩
      · refine ⟨?_, ?_⟩
        · show s.peakConc = if s.peakConc < s.active then s.active else s.peakConc
          rw [if_neg (by have := pk.geA; omega)]
        · show (if s.peakQueue < s.queue.length + 1 then s.queue.length + 1 else s.peakQueue)
              = if s.peakQueue < (s.queue ++ [(⟨s.nextId + 1, rid, t⟩ : Entry)]).length
                then (s.queue ++ [(⟨s.nextId + 1, rid, t⟩ : Entry)]).length else s.peakQueue
          simp
    · -- rejected
      simp only [reqStep, step_req_rej s rid t hlt hroom]
      refine ⟨{ b with nReq := b.nReq + 1, nRej := b.nRej + 1 }, ?_, ?_, ?_, rfl, rfl, ?_⟩
      · have : ¬ (b.active < max ∨ b.waiting.length < maxQ) := by
          rw [ag.bactive, ag.waiting, ← hm, ← hq]; simp; omega
        simp only [Book.apply, cnt]
        simp [this]
      · exact ⟨ag.toStart, ag.running, ag.toResp, ag.waiting, ag.nTimed, ag.nAdm, by show b.nReq + 1 = s.total + 1; rw [ag.nReq],
               by show b.nRej + 1 = s.rejected + 1; rw [ag.nRej], ag.nQueued, ag.active⟩
      · exact ⟨tg.startsNd, tg.runNd, tg.donesNd, tg.d12, tg.d13, tg.d23, tg.s1, tg.s2, tg.s3, tg.qNd, tg.qAdm, tg.qTo,
               fun x hx => List.mem_cons_of_mem _ (tg.admSeen x hx), fun x hx => List.mem_cons_of_mem _ (tg.toSeen x hx),
               fun x hx => List.mem_cons_of_mem _ (tg.qSeen x hx), fun e he => List.mem_cons_of_mem _ (tg.tmSeen e he),
               tg.tmFresh, tg.tmWait, tg.tmLink⟩
      · refine ⟨?_, ?_⟩
        · show s.peakConc = if s.peakConc < s.active then s.active else s.peakConc
          rw [if_neg (by have := pk.geA; omega)]
        · show s.peakQueue = if s.peakQueue < s.queue.length then s.queue.length else s.peakQueue
          rw [if_neg (by have := pk.geQ; omega)]

end HappyModel.C09.Bulkhead
