import HappyProofs.C09.PoolSpec
/-! A simpler sufficient form of `SchedOk`: if the call ids of the `acq` entries of a schedule are
pairwise distinct (what the engine harness does: one id per `acquire()` call), the freshness part of
`SchedOk` follows, so only "the segment exists" and the two timers (acquire time-out, idle time-out)
remain as hypotheses. -/
namespace HappyModel.C09.Pool

/-- the call ids of the `acq` entries, in order -/
def acqIds : List (Nat × Op) → List Nat
  | [] => []
  | e :: rest =>
    match e.2 with
    | .acq id => id :: acqIds rest
    | _ => acqIds rest

/-- `opOk` without the freshness test -/
def segOk (timeoutNs idleNs : Nat) (s : St) (since : List (Nat × Nat)) (t : Nat) (o : Op) : Bool :=
  (stepAt s t o).2 != .bad &&
  match o with
  | .timeout id => timerOk timeoutNs since t id && !headFree s id
  | .idleCheck _ e => decide (e + idleNs ≤ t)
  | _ => true

/-- `SchedOk` without the freshness test -/
def SegsOk (timeoutNs idleNs : Nat) : St → List (Nat × Nat) → List (Nat × Op) → Bool
  | _, _, [] => true
  | s, since, e :: rest =>
    segOk timeoutNs idleNs s since e.1 e.2
      && SegsOk timeoutNs idleNs (stepAt s e.1 e.2).1 (sinceAfter s since e.1 e.2) rest

/-- calls pending inside the pool: queued, or handed a connection not yet noticed -/
def pending (s : St) : List Nat := s.waiters ++ s.handed.map (·.1)

theorem freshId_of_not_pending {s : St} {id : Nat} (h : id ∉ pending s) : freshId s id = true := by
  simp only [pending, List.mem_append, not_or] at h
  simp only [freshId, Bool.and_eq_true, Bool.not_eq_true']
  constructor
  · cases hx : s.waiters.contains id with
    | false => rfl
    | true => exact absurd (List.contains_iff_mem.1 hx) h.1
  · cases hx : s.handed.any (·.1 == id) with
    | false => rfl
    | true =>
      obtain ⟨x, hm, he⟩ := List.any_eq_true.1 hx
      exact absurd (List.mem_map.2 ⟨x, hm, by simpa using he⟩) h.2

theorem pending_mono {w w' : List Nat} {h h' : List (Nat × Nat)} (hw : ∀ x ∈ w', x ∈ w) (hh : ∀ p ∈ h', p ∈ h)
    {x : Nat} (hx : x ∈ w' ++ h'.map (·.1)) : x ∈ w ++ h.map (·.1) := by
  rcases List.mem_append.1 hx with h1 | h1
  · exact List.mem_append_left _ (hw x h1)
  · obtain ⟨p, hp, hpe⟩ := List.mem_map.1 h1
    exact List.mem_append_right _ (List.mem_map.2 ⟨p, hh p hp, hpe⟩)

theorem giveBack_pending (s : St) (c x : Nat) (hx : x ∈ pending (giveBack s c).1) : x ∈ pending s := by
  rw [giveBack_eq] at hx
  split at hx
  · rename_i w ws hq
    simp only [pending, List.mem_append, List.map_append, List.map_cons, List.map_nil,
      hq, List.mem_cons, List.not_mem_nil, or_false] at hx ⊢
    rcases hx with h | h | h
    · exact .inl (.inr h)
    · exact .inr h
    · exact .inl (.inl h)
  · exact hx

/-- only an `acq` adds a pending call, and only its own id -/
theorem step_pending (s : St) (o : Op) (x : Nat) (hx : x ∈ pending (step s o).1) :
    x ∈ pending s ∨ o = .acq x := by
  cases o with
  | acq id =>
    rw [step_acq] at hx
    split at hx
    · exact .inl hx
    · split at hx
      · exact .inl hx
      · simp only [pending, List.mem_append, List.mem_singleton] at hx ⊢
        rcases hx with (h | h) | h
        · exact .inl (.inl h)
        · exact .inr (by rw [h])
        · exact .inl (.inr h)
  | made id =>
    rw [step_made] at hx
    split at hx <;> exact .inl hx
  | poll id =>
    rw [step_poll] at hx
    split at hx
    · exact .inl (pending_mono (fun _ h => h) (fun _ h => (List.mem_filter.1 h).1) hx)
    · split at hx
      · exact .inl hx
      · split at hx
        · exact .inl (pending_mono (fun _ h => List.mem_of_mem_tail h) (fun _ h => h) hx)
        · split at hx
          · exact .inl (pending_mono (fun _ h => List.mem_of_mem_tail h) (fun _ h => h) hx)
          · exact .inl hx
  | timeout id =>
    rw [step_timeout] at hx
    split at hx
    · exact .inl hx
    · exact .inl (pending_mono (fun _ h => (List.mem_filter.1 h).1) (fun _ h => h) hx)
  | rel c =>
    rw [step_rel] at hx
    split at hx
    · exact .inl hx
    · exact .inl (giveBack_pending s c x hx)
  | abandon id =>
    rw [step_abandon] at hx
    split at hx
    · exact .inl hx
    · split at hx
      · split at hx
        · exact .inl (pending_mono (fun _ h => h) (fun _ h => (List.mem_filter.1 h).1) hx)
        · have := giveBack_pending _ _ x hx
          exact .inl (pending_mono (fun _ h => h) (fun _ h => (List.mem_filter.1 h).1) this)
      · split at hx
        · exact .inl (pending_mono (fun _ h => (List.mem_filter.1 h).1) (fun _ h => h) hx)
        · exact .inl hx
  | idleCheck c e =>
    rw [step_idleCheck] at hx
    split at hx
    · split at hx <;> exact .inl hx
    · exact .inl hx
  | warm =>
    rw [step_warm] at hx
    split at hx <;> exact .inl hx
  | wmade =>
    rw [step_wmade] at hx
    split at hx <;> exact .inl hx

theorem schedOk_of_distinct (timeoutNs idleNs : Nat) (s : St) (since : List (Nat × Nat))
    (sched : List (Nat × Op))
    (hpend : ∀ x ∈ pending s, x ∉ acqIds sched) (hnd : (acqIds sched).Nodup)
    (h : SegsOk timeoutNs idleNs s since sched = true) : SchedOk timeoutNs idleNs s since sched = true := by
  induction sched generalizing s since with
  | nil => rfl
  | cons e rest ih =>
    simp only [SegsOk, Bool.and_eq_true] at h
    simp only [SchedOk, Bool.and_eq_true]
    obtain ⟨t, o⟩ := e
    refine ⟨?_, ?_⟩
    · have h1 := h.1
      cases o with
      | acq id =>
        simp only [segOk, opOk, Bool.and_eq_true, Bool.and_true] at h1 ⊢
        refine ⟨h1, freshId_of_not_pending fun hp => ?_⟩
        exact hpend id hp (by simp [acqIds])
      | made id => exact h1
      | poll id => exact h1
      | timeout id => exact h1
      | rel c => exact h1
      | abandon id => exact h1
      | idleCheck c e => exact h1
      | warm => exact h1
      | wmade => exact h1
    · apply ih _ _ ?_ ?_ h.2
      · intro x hx
        rcases step_pending { s with now := t } o x hx with hp | ho
        · have := hpend x hp
          cases o <;> simp only [acqIds, List.mem_cons, not_or] at this ⊢
          all_goals first | exact this.2 | exact this
        · subst ho
          simp only [acqIds, List.nodup_cons] at hnd
          exact hnd.1
      · cases o <;> simp only [acqIds, List.nodup_cons] at hnd ⊢
        all_goals first | exact hnd.2 | exact hnd

end HappyModel.C09.Pool

namespace HappyModel.C09

/-- the pool model's transcript satisfies the Spec judge on every schedule whose `acq` entries carry
    pairwise distinct call ids, whose segments exist, whose time-outs obey the timer (and are not raised
    in the first waiter while capacity is free), and whose idle-timeout events are not delivered early -/
theorem pool_trace_satisfies_spec_distinct (max timeoutNs min idleNs : Nat) (hmin : min ≤ max)
    (sched : List (Nat × Pool.Op)) (hids : (Pool.acqIds sched).Nodup)
    (hseg : Pool.SegsOk timeoutNs idleNs { max := max, min := min } [] sched = true) :
    Pool.judge { max := max, timeoutNs := timeoutNs, min := min, idleNs := idleNs } {}
      (Pool.obsTrace { max := max, min := min } sched) = none :=
  pool_trace_satisfies_spec max timeoutNs min idleNs hmin sched
    (Pool.schedOk_of_distinct timeoutNs idleNs { max := max, min := min } [] sched (by simp [Pool.pending]) hids hseg)

example : (Pool.acqIds [(0, .acq 0), (0, .acq 1), (0, .acq 2), (1, .made 0), (3, .rel 1), (4, .poll 1),
      (20, .timeout 2)]).Nodup
    ∧ Pool.SegsOk 10 0 { max := 1 } [] [(0, .acq 0), (0, .acq 1), (0, .acq 2), (1, .made 0), (3, .rel 1), (4, .poll 1),
      (20, .timeout 2)] = true := by decide

/-- all nine segments: warm-up, an abandoned set-up whose slot the first waiter takes at its next poll, an
    abandoned hand-off that goes to the idle list, idle-timeout checks (closed / kept / stale), a time-out -/
example : (Pool.acqIds [(0, .warm), (1, .wmade), (1, .warm), (2, .acq 0), (2, .acq 1), (2, .acq 2), (2, .acq 3),
      (3, .abandon 1), (4, .poll 2), (5, .made 2), (6, .poll 3), (7, .rel 1), (8, .abandon 3), (9, .rel 2),
      (13, .idleCheck 1 8), (14, .idleCheck 2 9), (15, .idleCheck 1 1), (16, .acq 4), (16, .acq 5), (16, .acq 6),
      (17, .made 5), (26, .timeout 6), (27, .abandon 9)]).Nodup
    ∧ Pool.SegsOk 10 5 { max := 2, min := 1 } [] [(0, .warm), (1, .wmade), (1, .warm), (2, .acq 0), (2, .acq 1),
      (2, .acq 2), (2, .acq 3), (3, .abandon 1), (4, .poll 2), (5, .made 2), (6, .poll 3), (7, .rel 1), (8, .abandon 3),
      (9, .rel 2), (13, .idleCheck 1 8), (14, .idleCheck 2 9), (15, .idleCheck 1 1), (16, .acq 4), (16, .acq 5),
      (16, .acq 6), (17, .made 5), (26, .timeout 6), (27, .abandon 9)] = true := by decide

end HappyModel.C09
