import HappyProofs.C09.PoolSpec
/-! A simpler sufficient form of `SchedOk`: if the call ids of the `acq` entries of a schedule are
pairwise distinct (what the engine harness does: one id per `acquire()` call), the freshness part of
`SchedOk` follows, so only "the segment exists" and "the timer" remain as hypotheses. -/
namespace HappyModel.C09.Pool

/-- the call ids of the `acq` entries, in order -/
def acqIds : List (Nat × Op) → List Nat
  | [] => []
  | e :: rest =>
    match e.2 with
    | .acq id => id :: acqIds rest
    | _ => acqIds rest

/-- `opOk` without the freshness test -/
def segOk (timeoutNs : Nat) (s : St) (since : List (Nat × Nat)) (t : Nat) (o : Op) : Bool :=
  (step s o).2 != .bad &&
  match o with
  | .timeout id => timerOk timeoutNs since t id
  | _ => true

/-- `SchedOk` without the freshness test -/
def SegsOk (timeoutNs : Nat) : St → List (Nat × Nat) → List (Nat × Op) → Bool
  | _, _, [] => true
  | s, since, e :: rest =>
    segOk timeoutNs s since e.1 e.2 && SegsOk timeoutNs (step s e.2).1 (sinceAfter s since e.1 e.2) rest

/-- calls pending inside the pool: queued, or handed a connection not yet noticed -/
def pending (s : St) : List Nat := s.waiters ++ s.handed.map (·.1)

theorem freshId_of_not_pending {s : St} {id : Nat} (h : id ∉ pending s) : freshId s id = true := by
  simp only [pending, List.mem_append, not_or] at h
  simp only [freshId, Bool.and_eq_true, Bool.not_eq_true']
  constructor
  · cases hx : s.waiters.contains id with
    | false => rfl
    | true => exact absurd (List.contains_iff_mem.1 hx) h.1
  · cases hx : s.handed.any (·.1 == id) with
    | false => rfl
    | true =>
      obtain ⟨x, hm, he⟩ := List.any_eq_true.1 hx
      exact absurd (List.mem_map.2 ⟨x, hm, by simpa using he⟩) h.2

/-- only an `acq` adds a pending call, and only its own id -/
theorem step_pending (s : St) (o : Op) (x : Nat) (hx : x ∈ pending (step s o).1) :
    x ∈ pending s ∨ o = .acq x := by
  cases o with
  | acq id =>
    rw [step_acq] at hx
    split at hx
    · exact .inl hx
    · split at hx
      · exact .inl hx
      · simp only [pending, List.mem_append, List.mem_singleton] at hx ⊢
        rcases hx with (h | h) | h
        · exact .inl (.inl h)
        · exact .inr (by rw [h])
        · exact .inl (.inr h)
  | made id =>
    rw [step_made] at hx
    split at hx <;> exact .inl hx
  | poll id =>
    rw [step_poll] at hx
    split at hx
    · simp only [pending, List.mem_append] at hx ⊢
      rcases hx with h | h
      · exact .inl (.inl h)
      · exact .inl (.inr ((List.Sublist.map _ List.filter_sublist).subset h))
    · exact .inl hx
  | timeout id =>
    rw [step_timeout] at hx
    split at hx
    · exact .inl hx
    · simp only [pending, List.mem_append] at hx ⊢
      rcases hx with h | h
      · exact .inl (.inl (List.mem_filter.1 h).1)
      · exact .inl (.inr h)
  | rel c =>
    rw [step_rel] at hx
    split at hx
    · exact .inl hx
    · split at hx
      · rename_i w ws hq
        simp only [pending, List.mem_append, List.map_append, List.map_cons, List.map_nil,
          hq, List.mem_cons, List.not_mem_nil, or_false] at hx ⊢
        rcases hx with h | h | h
        · exact .inl (.inl (.inr h))
        · exact .inl (.inr h)
        · exact .inl (.inl (.inl h))
      · exact .inl hx

theorem schedOk_of_distinct (timeoutNs : Nat) (s : St) (since : List (Nat × Nat)) (sched : List (Nat × Op))
    (hpend : ∀ x ∈ pending s, x ∉ acqIds sched) (hnd : (acqIds sched).Nodup)
    (h : SegsOk timeoutNs s since sched = true) : SchedOk timeoutNs s since sched = true := by
  induction sched generalizing s since with
  | nil => rfl
  | cons e rest ih =>
    simp only [SegsOk, Bool.and_eq_true] at h
    simp only [SchedOk, Bool.and_eq_true]
    obtain ⟨t, o⟩ := e
    refine ⟨?_, ?_⟩
    · have h1 := h.1
      cases o with
      | acq id =>
        simp only [segOk, opOk, Bool.and_eq_true, Bool.and_true] at h1 ⊢
        refine ⟨h1, freshId_of_not_pending fun hp => ?_⟩
        exact hpend id hp (by simp [acqIds])
      | made id => exact h1
      | poll id => exact h1
      | timeout id => exact h1
      | rel c => exact h1
    · apply ih _ _ ?_ ?_ h.2
      · intro x hx
        rcases step_pending s o x hx with hp | ho
        · have := hpend x hp
          cases o <;> simp only [acqIds, List.mem_cons, not_or] at this ⊢
          all_goals first | exact this.2 | exact this
        · subst ho
          simp only [acqIds, List.nodup_cons] at hnd
          exact hnd.1
      · cases o <;> simp only [acqIds, List.nodup_cons] at hnd ⊢
        all_goals first | exact hnd.2 | exact hnd

end HappyModel.C09.Pool

namespace HappyModel.C09

/-- the pool model's transcript satisfies the Spec judge on every schedule whose `acq` entries carry
    pairwise distinct call ids, whose segments exist, and whose time-outs obey the timer -/
theorem pool_trace_satisfies_spec_distinct (max timeoutNs : Nat) (sched : List (Nat × Pool.Op))
    (hids : (Pool.acqIds sched).Nodup) (hseg : Pool.SegsOk timeoutNs { max := max } [] sched = true) :
    Pool.judge max timeoutNs {} (Pool.obsTrace { max := max } sched) = none :=
  pool_trace_satisfies_spec max timeoutNs sched
    (Pool.schedOk_of_distinct timeoutNs { max := max } [] sched (by simp [Pool.pending]) hids hseg)

example : (Pool.acqIds [(0, .acq 0), (0, .acq 1), (0, .acq 2), (1, .made 0), (3, .rel 1), (4, .poll 1),
      (20, .timeout 2)]).Nodup
    ∧ Pool.SegsOk 10 { max := 1 } [] [(0, .acq 0), (0, .acq 1), (0, .acq 2), (1, .made 0), (3, .rel 1), (4, .poll 1),
      (20, .timeout 2)] = true := by decide

end HappyModel.C09
