import HappyProofs.C09.ResourceSpec
import HappyModel.C09.Driver
/-!
# C09 — Resource: the model's ENGINE-mode transcript satisfies the executable Spec predicate

The engine layer of the Resource model is `ESt` / `estep` (HappyModel/C09/Resource.lean): the pending
list carries (call id, resolve time, amount).  `traceE` is the transcript `Driver.runRes` prints, read
back by `Driver.parseObs` / `Driver.fillCounters`; `wfE` says every `got` line is answered `ok` by
`estep` and every `fin` line finds the pending list empty; `judge cap true` then returns `none`.
-/
namespace HappyModel.C09.Res

inductive Cmd
  | op (t : Nat) (o : Op)
  | got (t : Nat) (id : Nat)
  | fin (t : Nat)
deriving Repr, DecidableEq

def obsE (t : Nat) (o : Op) (out : Out) (s' : St) : Obs := { obsOf o out s' with t := t }

/-- a `got` line carries no counters and no capacity: `fillCounters` copies the previous line's -/
def gotObs (t id : Nat) (s : St) : Obs :=
  { t := t, k := .got id 0, res := .granted, woke := [], avail := s.avail, nwait := s.waiters.length, capv := none }

def finObs (t : Nat) (s : St) : Obs :=
  { t := t, k := .fin, res := .noop, woke := [], avail := s.avail, nwait := s.waiters.length, capv := some s.cap }

def isOk : Out ⊕ GotRes → Bool
  | .inr (.ok _) => true
  | _ => false

/-- mirrors `Driver.runRes.go` followed by `Driver.parseObs` / `Driver.fillCounters` -/
def traceE (e : ESt) : List Cmd → List Obs
  | [] => []
  | .op t o :: cs => obsE t o (step e.core o).2 (step e.core o).1 :: traceE (estep e (.op t o)).1 cs
  | .got t id :: cs => gotObs t id e.core :: traceE (estep e (.got t id)).1 cs
  | .fin t :: cs => finObs t e.core :: traceE e cs

/-- a `got t id` line only for a call whose future is resolved and whose process has not resumed,
    at the clock value of the resolving operation; `fin` only with nobody left parked -/
def wfE (e : ESt) : List Cmd → Bool
  | [] => true
  | .op t o :: cs => wfE (estep e (.op t o)).1 cs
  | .got t id :: cs => isOk (estep e (.got t id)).2 && wfE (estep e (.got t id)).1 cs
  | .fin _ :: cs => e.pend.isEmpty && wfE e cs

/-- the judge's `resolved` list is the pending list without the amounts -/
def proj (l : List (Nat × Nat × Int)) : List (Nat × Nat) := l.map (fun q => (q.1, q.2.1))

structure AgreeE (b : Book) (e : ESt) : Prop where
  held : b.held = e.core.held
  blocked : b.blocked = e.core.waiters
  resolved : b.resolved = proj e.pend

/-- the ids made resumable by an operation (what `estep` appends, without times and amounts) -/
def newlyIds (o : Op) (out : Out) : List Nat :=
  match o, out.res with
  | .acquire id _, .granted => [id]
  | _, _ => out.woke

theorem estep_core (e : ESt) (t : Nat) (o : Op) : (estep e (.op t o)).1.core = (step e.core o).1 := rfl

theorem estep_pend (e : ESt) (t : Nat) (o : Op) :
    proj (estep e (.op t o)).1.pend = proj e.pend ++ (newlyIds o (step e.core o).2).map (fun i => (i, t)) := by
  simp only [estep, newlyIds, proj, List.map_append]
  congr 1
  split <;> split <;> simp_all

theorem checkCounters_okE (s : St) (b : Book) (o : Obs) (inv : Inv s) (hh : b.held = s.held)
    (hb : b.blocked = s.waiters) (ha : o.avail = s.avail) (hw : o.nwait = s.waiters.length)
    (hc : o.capv = none ∨ o.capv = some s.cap) (hg : o.grants = true → 0 ≤ s.avail) :
    checkCounters s.cap b o = none := by
  have hnn := amtSum_nonneg s.held inv.heldPos
  have hcons := inv.conserve
  unfold checkCounters
  rw [hh, hb, ha, hw]
  have h1 : ¬ ((o.grants && decide (s.cap < amtSum s.held)) = true) := by
    intro h
    simp only [Bool.and_eq_true, decide_eq_true_eq] at h
    have := hg h.1; omega
  have h5 : ¬ (o.capv.isSome ∧ o.capv ≠ some s.cap) := by
    rcases hc with h | h <;> simp [h]
  rw [if_neg h1, if_neg (by omega), if_neg (by omega), if_neg (by simp), if_neg h5]
  cases hq : s.waiters with
  | nil => rfl
  | cons w ws =>
    have := inv.headBlocked w ws hq
    simp only
    rw [if_neg (by omega)]

/-- one operation in engine mode: the judge accepts the model's line; its books follow the model and
    its `resolved` list grows by exactly the calls the operation made resumable, stamped `t` -/
theorem apply_stepE (s : St) (b : Book) (t : Nat) (o : Op) (inv : Inv s) (hh : b.held = s.held)
    (hb : b.blocked = s.waiters) :
    ∃ b', b.apply s.cap true (obsE t o (step s o).2 (step s o).1) = .ok b'
      ∧ b'.held = (step s o).1.held ∧ b'.blocked = (step s o).1.waiters
      ∧ b'.resolved = b.resolved ++ (newlyIds o (step s o).2).map (fun i => (i, t)) := by
  have hcons := inv.conserve
  cases o with
  | acquire id a =>
    simp only [obsE, obsOf]
    rw [step_acquire]
    split
    · rename_i hbad
      refine ⟨b, ?_, hh, hb, by simp [newlyIds]⟩
      simp [Book.apply, validAmount_eq, hbad]
    · rename_i hbad
      have hbad' : badAmount s a = false := by simpa using hbad
      split
      · refine ⟨{ b with held := b.held ++ [(id, a)], resolved := b.resolved ++ [(id, t)] }, ?_, ?_, hb, ?_⟩
        · simp [Book.apply, validAmount_eq, hbad']
        · simp [hh]
        · simp [newlyIds]
      · refine ⟨{ b with blocked := b.blocked ++ [(id, a)] }, ?_, hh, ?_, ?_⟩
        · simp [Book.apply, validAmount_eq, hbad']
        · simp [hb]
        · simp [newlyIds]
  | tryAcquire id a =>
    simp only [obsE, obsOf]
    rw [step_tryAcquire]
    split
    · rename_i hbad
      refine ⟨b, ?_, hh, hb, by simp [newlyIds]⟩
      simp [Book.apply, validAmount_eq, hbad]
    · rename_i hbad
      have hbad' : badAmount s a = false := by simpa using hbad
      split
      · refine ⟨{ b with held := b.held ++ [(id, a)] }, ?_, ?_, hb, ?_⟩
        · simp [Book.apply, validAmount_eq, hbad']
        · simp [hh]
        · simp [newlyIds]
      · rename_i hnf
        refine ⟨b, ?_, hh, hb, by simp [newlyIds]⟩
        simp only [Book.apply, validAmount_eq, hbad', hh]
        simp
        omega
  | release id =>
    simp only [obsE, obsOf]
    rw [step_release]
    unfold release
    split
    · rename_i hnone
      refine ⟨b, ?_, hh, hb, by simp [newlyIds]⟩
      simp [Book.apply, hh, hnone]
    · rename_i g hg
      have hmem := (findHeld_mem hg).1
      have hgpos := inv.heldPos g hmem
      have hsum := amtSum_eraseHeld hg
      have hnn := amtSum_nonneg (eraseHeld id s.held) (fun x hx => inv.heldPos x (mem_eraseHeld hx))
      dsimp only
      split
      · omega
      · have hlen : (List.map (fun x => x.fst) (List.take (wakeN (s.avail + g.2) s.waiters) s.waiters)).length
            = wakeN (s.avail + g.2) s.waiters := by
          simp [List.length_take]; exact Nat.min_eq_left (wakeN_le_length _ _)
        refine ⟨{ held := eraseHeld id b.held ++ b.blocked.take (wakeN (s.avail + g.2) s.waiters),
                  blocked := b.blocked.drop (wakeN (s.avail + g.2) s.waiters),
                  resolved := b.resolved ++ ((s.waiters.take (wakeN (s.avail + g.2) s.waiters)).map (·.1)).map
                    (fun i => (i, t)) }, ?_, ?_, ?_, ?_⟩
        · simp only [Book.apply, hh, hb, hg, hlen]
          simp
        · simp [hh, hb]
        · simp [hb]
        · simp [newlyIds]
  | setCapacity c =>
    simp only [obsE, obsOf]
    rw [step_setCapacity]
    unfold setCapacity
    split
    · rename_i hc
      refine ⟨b, ?_, hh, hb, by simp [newlyIds]⟩
      simp only [Book.apply]
      rw [if_neg (by omega)]; simp
    · rename_i hc
      dsimp only
      split
      · have hlen : (List.map (fun x => x.fst) (List.take (wakeN (s.avail + (c - s.cap)) s.waiters) s.waiters)).length
            = wakeN (s.avail + (c - s.cap)) s.waiters := by
          simp [List.length_take]; exact Nat.min_eq_left (wakeN_le_length _ _)
        refine ⟨{ held := b.held ++ b.blocked.take (wakeN (s.avail + (c - s.cap)) s.waiters),
                  blocked := b.blocked.drop (wakeN (s.avail + (c - s.cap)) s.waiters),
                  resolved := b.resolved ++ ((s.waiters.take (wakeN (s.avail + (c - s.cap)) s.waiters)).map (·.1)).map
                    (fun i => (i, t)) }, ?_, ?_, ?_, ?_⟩
        · simp only [Book.apply, hb, hlen]
          rw [if_neg hc]; simp
        · simp [hh, hb]
        · simp [hb]
        · simp [newlyIds]
      · refine ⟨{ held := b.held ++ b.blocked.take 0, blocked := b.blocked.drop 0, resolved := b.resolved ++ [] }, ?_, ?_, ?_, ?_⟩
        · simp only [Book.apply]
          rw [if_neg hc]; simp
        · simp [hh]
        · simp [hb]
        · simp [newlyIds]

theorem find_proj (id : Nat) (l : List (Nat × Nat × Int)) :
    (proj l).find? (·.1 == id) = (findPend id l).map (fun q => (q.1, q.2.1)) := by
  induction l with
  | nil => rfl
  | cons q qs ih =>
    simp only [proj, List.map_cons, List.find?_cons, findPend]
    by_cases h : q.1 = id
    · simp [h]
    · simp only [h, if_false]
      have : (q.1 == id) = false := by simpa using h
      simp only [this]
      exact ih

theorem filter_proj (id : Nat) (l : List (Nat × Nat × Int)) :
    (proj l).filter (·.1 != id) = proj (l.filter (fun q => q.1 != id)) := by
  induction l with
  | nil => rfl
  | cons q qs ih =>
    simp only [proj, List.map_cons, List.filter_cons] at ih ⊢
    by_cases h : (q.1 != id) = true
    · simp only [h, if_true, List.map_cons]; rw [ih]
    · simp only [h]; simpa using ih

theorem got_okR (e : ESt) (t id : Nat) (h : isOk (estep e (.got t id)).2 = true) :
    ∃ q, findPend id e.pend = some q ∧ q.2.1 = t
      ∧ (estep e (.got t id)).1 = ⟨e.core, e.pend.filter (fun q => q.1 != id)⟩ := by
  simp only [estep] at h ⊢
  cases hf : findPend id e.pend with
  | none => simp [hf, isOk] at h
  | some q =>
    simp only [hf] at h ⊢
    by_cases hq : q.2.1 = t
    · simp only [hq, if_true] at h ⊢
      refine ⟨q, rfl, hq, ?_⟩
      first | rfl | trivial
    · simp [hq, isOk] at h

theorem judge_modelE (e : ESt) (b : Book) (cs : List Cmd) (inv : Inv e.core) (ag : AgreeE b e)
    (wf : wfE e cs = true) : judge e.core.cap true b (traceE e cs) = none := by
  induction cs generalizing e b with
  | nil => rfl
  | cons c cs ih =>
    cases c with
    | op t o =>
      obtain ⟨b', hap, hh', hb', hr'⟩ := apply_stepE e.core b t o inv ag.held ag.blocked
      have inv' := step_inv e.core o inv
      have hag : AgreeE b' (estep e (.op t o)).1 :=
        ⟨hh', hb', by rw [hr', ag.resolved, estep_pend]⟩
      have hcap : capAfter e.core.cap (obsE t o (step e.core o).2 (step e.core o).1) = (step e.core o).1.cap :=
        capAfter_model e.core o
      simp only [traceE, judge, hap]
      have hcc := checkCounters_okE (step e.core o).1 b' (obsE t o (step e.core o).2 (step e.core o).1) inv' hh' hb'
        rfl rfl (Or.inr rfl) (step_grant_within e.core o inv)
      rw [hcap, hcc]
      exact ih (estep e (.op t o)).1 b' inv' hag (by simpa [wfE] using wf)
    | got t id =>
      simp only [wfE, Bool.and_eq_true] at wf
      obtain ⟨q, hf, hq, he⟩ := got_okR e t id wf.1
      have hfind : b.resolved.find? (·.1 == id) = some (q.1, q.2.1) := by
        rw [ag.resolved, find_proj, hf]; rfl
      have hap : b.apply e.core.cap true (gotObs t id e.core)
          = .ok { b with resolved := b.resolved.filter (·.1 != id) } := by
        simp [Book.apply, gotObs, hfind, hq]
      have hag : AgreeE { b with resolved := b.resolved.filter (·.1 != id) } (estep e (.got t id)).1 := by
        rw [he]
        exact ⟨ag.held, ag.blocked, by show b.resolved.filter _ = proj _; rw [ag.resolved, filter_proj]⟩
      have hcore : (estep e (.got t id)).1.core = e.core := by rw [he]
      have hcc := checkCounters_okE e.core { b with resolved := b.resolved.filter (·.1 != id) } (gotObs t id e.core)
        inv ag.held ag.blocked rfl rfl (Or.inl rfl) (fun h => by simp [Obs.grants, gotObs] at h)
      simp only [traceE, judge, hap]
      have hcap : capAfter e.core.cap (gotObs t id e.core) = e.core.cap := rfl
      rw [hcap, hcc]
      have := ih (estep e (.got t id)).1 _ (by rw [hcore]; exact inv) hag wf.2
      rw [hcore] at this
      exact this
    | fin t =>
      simp only [wfE, Bool.and_eq_true, List.isEmpty_iff] at wf
      have hre : b.resolved = [] := by rw [ag.resolved, wf.1]; rfl
      have hap : b.apply e.core.cap true (finObs t e.core) = .ok b := by
        simp [Book.apply, finObs, hre]
      have hcc := checkCounters_okE e.core b (finObs t e.core) inv ag.held ag.blocked rfl rfl (Or.inr rfl)
        (fun h => by simp [Obs.grants, finObs] at h)
      simp only [traceE, judge, hap]
      have hcap : capAfter e.core.cap (finObs t e.core) = e.core.cap := rfl
      rw [hcap, hcc]
      exact ih e b inv ag wf.2

/-! ### faithfulness against the driver -/

def Cmd.line : Cmd → String
  | .op t (.acquire id a) => s!"acq {t} {id} {a}"
  | .op t (.tryAcquire id a) => s!"try {t} {id} {a}"
  | .op t (.release id) => s!"rel {t} {id}"
  | .op t (.setCapacity c) => s!"cap {t} {c}"
  | .got t id => s!"got {t} {id}"
  | .fin t => s!"fin {t}"

def viaDriver (cap : Int) (cs : List Cmd) : List Obs :=
  Driver.fillCounters cap 0 ((Driver.runRes cap (cs.map Cmd.line)).filterMap (fun l => Driver.parseObs (Proto.toks l)))

def obsEq (a b : Obs) : Bool :=
  a.t == b.t && decide (a.k = b.k) && decide (a.res = b.res) && a.woke == b.woke
    && a.avail == b.avail && a.nwait == b.nwait && a.capv == b.capv

def obsListEq : List Obs → List Obs → Bool
  | [], [] => true
  | a :: as, b :: bs => obsEq a b && obsListEq as bs
  | _, _ => false

/-- capacity 3: two callers block behind a full grant; its release wakes both at clock value 4;
    later the capacity is lowered below the amount held and raised again, waking a third -/
def demo : List Cmd :=
  [.op 0 (.acquire 0 3), .got 0 0, .op 1 (.acquire 1 1), .op 1 (.acquire 2 2), .op 2 (.tryAcquire 3 1),
   .op 4 (.release 0), .got 4 2, .got 4 1, .op 5 (.setCapacity 2), .op 5 (.acquire 4 1), .op 6 (.release 0),
   .op 7 (.setCapacity 4), .got 7 4, .op 8 (.release 1), .fin 8]

def demoLate : List Cmd :=
  [.op 0 (.acquire 0 3), .got 0 0, .op 1 (.acquire 1 1), .op 4 (.release 0), .got 5 1, .fin 6]

#guard obsListEq (viaDriver 3 demo) (traceE ⟨St.init 3, []⟩ demo)
#guard obsListEq (viaDriver 3 demoLate) (traceE ⟨St.init 3, []⟩ demoLate)
#guard Driver.handle ["judge-res", "3", "engine"] (Driver.handle ["res", "3"] (demo.map Cmd.line)) == ["ok"]
#guard Driver.handle ["judge-res", "3", "engine"] (Driver.handle ["res", "3"] (demoLate.map Cmd.line))
  == ["viol resource/wait/resumed-late"]

end HappyModel.C09.Res

namespace HappyModel.C09
open Res

/-- **engine mode, Resource**: for every capacity and every well-formed schedule (a `got` line only
    for a call whose future is resolved — granted at once, or woken by a release / a capacity
    increase — and whose process has not resumed yet, at the clock value of the resolving
    operation; `fin` only with nobody left parked) the judge in ENGINE mode accepts the Resource
    model's own engine transcript -/
theorem resource_engine_trace_satisfies_spec (cap : Int) (hcap : 0 < cap) (cs : List Res.Cmd)
    (wf : Res.wfE ⟨St.init cap, []⟩ cs = true) :
    judge cap true {} (Res.traceE ⟨St.init cap, []⟩ cs) = none :=
  Res.judge_modelE ⟨St.init cap, []⟩ {} cs (init_inv cap hcap) ⟨rfl, rfl, rfl⟩ wf

example : Res.wfE ⟨St.init 3, []⟩ Res.demo = true := by decide
example : judge 3 true {} (Res.traceE ⟨St.init 3, []⟩ Res.demo) = none := by decide
example : (Res.traceE ⟨St.init 3, []⟩ Res.demo).map (·.woke)
    = [[], [], [], [], [], [1, 2], [], [], [], [], [], [4], [], [], []] := by decide
example : Res.wfE ⟨St.init 3, []⟩ Res.demoLate = false
    ∧ judge 3 true {} (Res.traceE ⟨St.init 3, []⟩ Res.demoLate) = some "resource/wait/resumed-late" := by decide


end HappyModel.C09
