import HappyProofs.C09.PoolInv
/-! Two further invariants of the connection-pool model.

* `HeadInv` ("a queued call is never grantable") holds along *classic* op lists only
  (`acq/made/poll/timeout/rel`): an abandoned set-up gives its slot back while calls are queued, and
  warm-up parks an idle connection behind the queue.
* `HandInv` (a connection handed to a queued call is active, and handed to one call only) holds along
  every op list in which nobody releases a connection that is handed over and not yet noticed
  (`relOk`).  Under it the "connection no longer active" corner of `abandon` never fires. -/
namespace HappyModel.C09.Pool

def Op.classic : Op → Bool
  | .acq _ | .made _ | .poll _ | .timeout _ | .rel _ => true
  | _ => false

structure HeadInv (s : St) : Prop where
  head : s.waiters ≠ [] → s.idle = [] ∧ s.total = s.max

theorem init_headInv (max : Nat) : HeadInv { max := max } := ⟨by simp⟩

theorem step_headInv (s : St) (o : Op) (inv : Inv s) (h : HeadInv s) (hc : o.classic = true) :
    HeadInv (step s o).1 := by
  have hres := inv.res
  have hb := inv.bound
  have hw0 : s.idle ≠ [] ∨ s.total < s.max → s.waiters = [] := by
    intro hf
    cases hq : s.waiters with
    | nil => rfl
    | cons w ws =>
      have := h.head (by rw [hq]; simp)
      rcases hf with hf | hf
      · exact absurd this.1 hf
      · omega
  cases o with
  | acq id =>
    rw [step_acq]
    split
    · rename_i c rest hi
      have hw := hw0 (.inl (by rw [hi]; simp))
      exact ⟨fun hne => absurd hw hne⟩
    · rename_i hi
      split
      · rename_i hlt
        have hw := hw0 (.inr hlt)
        exact ⟨fun hne => absurd hw hne⟩
      · rename_i hge
        exact ⟨fun _ => ⟨hi, by show s.total = s.max; omega⟩⟩
  | made id =>
    rw [step_made]
    split
    · exact h
    · refine ⟨fun hne => ?_⟩
      have := h.head hne
      exact ⟨this.1, this.2⟩
  | poll id =>
    rw [step_poll]
    split
    · exact ⟨h.head⟩
    · split
      · exact h
      · rename_i hhead
        -- the head is queued, so nothing is free: it cannot help itself
        have hne : s.waiters ≠ [] := by
          intro hq; rw [hq] at hhead; simp at hhead
        have hh := h.head hne
        split
        · rename_i c rest hi
          rw [hi] at hh; cases hh.1
        · split
          · rename_i hlt; omega
          · exact h
  | timeout id =>
    rw [step_timeout]
    split
    · exact h
    · refine ⟨fun hne => h.head fun hq => hne ?_⟩
      show s.waiters.filter (· != id) = []
      rw [hq]; rfl
  | rel c =>
    rw [step_rel]
    split
    · exact h
    · rw [giveBack_eq]
      split
      · rename_i w ws hq
        exact ⟨fun _ => h.head (by rw [hq]; simp)⟩
      · rename_i hq
        exact ⟨fun hne => absurd hq hne⟩
  | abandon id => cases hc
  | idleCheck c e => cases hc
  | warm => cases hc
  | wmade => cases hc

theorem run_headInv (s : St) (ops : List Op) (inv : Inv s) (h : HeadInv s)
    (hc : ops.all Op.classic = true) : HeadInv (run s ops) := by
  induction ops generalizing s with
  | nil => exact h
  | cons o os ih =>
    simp only [List.all_cons, Bool.and_eq_true] at hc
    exact ih _ (step_inv s o inv) (step_headInv s o inv h hc.1) hc.2

/-! ### handed-over connections -/

structure HandInv (s : St) : Prop where
  act : ∀ p ∈ s.handed, p.2 ∈ s.active
  nodup : (s.handed.map (·.2)).Nodup

theorem init_handInv (max min : Nat) : HandInv { max := max, min := min } := ⟨by simp, List.nodup_nil⟩

/-- nobody releases a connection that is handed to a queued call which has not noticed it yet
    (its previous holder released it already, its next holder is still suspended) -/
def relOk (s : St) : Op → Bool
  | .rel c => !s.handed.any (·.2 == c)
  | _ => true

/-- a side condition `ok` holds along the run -/
def Sched (ok : St → Op → Bool) : St → List Op → Bool
  | _, [] => true
  | s, o :: os => ok s o && Sched ok (step s o).1 os

def SchedAt (ok : St → Op → Bool) : St → List (Nat × Op) → Bool
  | _, [] => true
  | s, e :: os => ok s e.2 && SchedAt ok (stepAt s e.1 e.2).1 os

theorem relOk_now (s : St) (t : Nat) (o : Op) : relOk { s with now := t } o = relOk s o := by
  cases o <;> rfl

theorem inj_of_nodup_map {α β} (f : α → β) : ∀ {l : List α}, (l.map f).Nodup →
    ∀ p ∈ l, ∀ q ∈ l, f p = f q → p = q
  | [], _, _, hp, _, _, _ => by cases hp
  | a :: l, h, p, hp, q, hq, e => by
    rw [List.map_cons, List.nodup_cons] at h
    rcases List.mem_cons.1 hp with rfl | hp' <;> rcases List.mem_cons.1 hq with rfl | hq'
    · rfl
    · exact absurd (e ▸ List.mem_map.2 ⟨q, hq', rfl⟩) h.1
    · exact absurd (e ▸ List.mem_map.2 ⟨p, hp', rfl⟩) h.1
    · exact inj_of_nodup_map f h.2 p hp' q hq' e

theorem nodup_snoc' {α} {l : List α} {a : α} (h : l.Nodup) (ha : a ∉ l) : (l ++ [a]).Nodup := by
  rw [List.nodup_append]
  refine ⟨h, by simp, ?_⟩
  intro x hx y hy
  have : y = a := by simpa using hy
  subst this
  intro e; subst e; exact ha hx

theorem giveBack_handInv (s : St) (c : Nat) (h : HandInv s) (hm : c ∈ s.active)
    (hn : ∀ p ∈ s.handed, p.2 ≠ c) : HandInv (giveBack s c).1 := by
  rw [giveBack_eq]
  split
  · rename_i w ws hq
    refine ⟨?_, ?_⟩
    · intro p hp
      have hp' : p ∈ s.handed ++ [(w, c)] := hp
      rcases List.mem_append.1 hp' with hp' | hp'
      · exact h.act p hp'
      · have : p = (w, c) := by simpa using hp'
        rw [this]; exact hm
    · show ((s.handed ++ [(w, c)]).map (·.2)).Nodup
      rw [List.map_append]
      refine nodup_snoc' h.nodup ?_
      intro hmem
      obtain ⟨p, hp, hpe⟩ := List.mem_map.1 hmem
      exact hn p hp hpe
  · refine ⟨?_, h.nodup⟩
    intro p hp
    exact (List.mem_erase_of_ne (hn p hp)).2 (h.act p hp)

theorem handInv_filter (s : St) (f : Nat × Nat → Bool) (h : HandInv s) :
    HandInv { s with handed := s.handed.filter f } :=
  ⟨fun p hp => h.act p (List.mem_filter.1 hp).1,
   List.Nodup.sublist (List.Sublist.map _ List.filter_sublist) h.nodup⟩

theorem handInv_active_append (s : St) (l : List Nat) (h : HandInv s) :
    ∀ p ∈ s.handed, p.2 ∈ s.active ++ l := fun p hp => List.mem_append_left _ (h.act p hp)

theorem step_handInv (s : St) (o : Op) (h : HandInv s) (hr : relOk s o = true) : HandInv (step s o).1 := by
  cases o with
  | acq id =>
    rw [step_acq]
    split
    · exact ⟨handInv_active_append s _ h, h.nodup⟩
    · split
      · exact ⟨h.act, h.nodup⟩
      · exact ⟨h.act, h.nodup⟩
  | made id =>
    rw [step_made]
    split
    · exact h
    · exact ⟨handInv_active_append s _ h, h.nodup⟩
  | poll id =>
    rw [step_poll]
    split
    · exact handInv_filter s _ h
    · split
      · exact h
      · split
        · exact ⟨handInv_active_append s _ h, h.nodup⟩
        · split
          · exact ⟨h.act, h.nodup⟩
          · exact h
  | timeout id =>
    rw [step_timeout]
    split
    · exact h
    · exact ⟨h.act, h.nodup⟩
  | rel c =>
    rw [step_rel]
    split
    · exact h
    · rename_i hact
      have hmem : c ∈ s.active := by simpa using hact
      refine giveBack_handInv s c h hmem ?_
      intro p hp he
      have : s.handed.any (·.2 == c) = true := List.any_eq_true.2 ⟨p, hp, by simp [he]⟩
      simp only [relOk, this] at hr
      cases hr
  | abandon id =>
    rw [step_abandon]
    split
    · exact ⟨h.act, h.nodup⟩
    · split
      · rename_i x hf
        have hx : x ∈ s.handed := List.mem_of_find?_eq_some hf
        have hx1 : x.1 = id := by simpa using List.find?_some hf
        split
        · exact handInv_filter s _ h
        refine giveBack_handInv _ x.2 (handInv_filter s _ h) (h.act x hx) ?_
        intro p hp he
        have hp' := List.mem_filter.1 hp
        have hpx : p = x := inj_of_nodup_map (·.2) h.nodup p hp'.1 x hx he
        have hne : p.1 ≠ id := by simpa using hp'.2
        rw [hpx] at hne
        exact hne hx1
      · split
        · exact ⟨h.act, h.nodup⟩
        · exact h
  | idleCheck c e =>
    rw [step_idleCheck]
    split
    · split
      · exact ⟨h.act, h.nodup⟩
      · exact h
    · exact h
  | warm =>
    rw [step_warm]
    split
    · exact ⟨h.act, h.nodup⟩
    · exact h
  | wmade =>
    rw [step_wmade]
    split
    · exact h
    · exact ⟨h.act, h.nodup⟩

theorem handInv_now {s : St} (t : Nat) (h : HandInv s) : HandInv { s with now := t } := ⟨h.act, h.nodup⟩

theorem run_handInv (s : St) (ops : List Op) (h : HandInv s) (hr : Sched relOk s ops = true) :
    HandInv (run s ops) := by
  induction ops generalizing s with
  | nil => exact h
  | cons o os ih =>
    simp only [Sched, Bool.and_eq_true] at hr
    exact ih _ (step_handInv s o h hr.1) hr.2

theorem runAt_handInv (s : St) (ops : List (Nat × Op)) (h : HandInv s) (hr : SchedAt relOk s ops = true) :
    HandInv (runAt s ops) := by
  induction ops generalizing s with
  | nil => exact h
  | cons e os ih =>
    simp only [SchedAt, Bool.and_eq_true] at hr
    exact ih _ (step_handInv _ e.2 (handInv_now e.1 h) (by rw [relOk_now]; exact hr.1)) hr.2

end HappyModel.C09.Pool
