import HappyProofs.C09.ResourceFifo
/-! The `Resource` model satisfies the executable Spec predicate `judge` on every operation list:
the judge's own books (kept from observations only) coincide with the model state. -/
namespace HappyModel.C09.Res

structure Agree (b : Book) (s : St) : Prop where
  held : b.held = s.held
  blocked : b.blocked = s.waiters
  resolved : b.resolved = []

theorem validAmount_eq (s : St) (a : Int) : validAmount s.cap a = !badAmount s a := by
  unfold validAmount badAmount
  by_cases h1 : 0 < a <;> by_cases h2 : a ≤ s.cap <;> simp [h1, h2] <;> omega

theorem checkCounters_ok (s : St) (b : Book) (o : Obs) (inv : Inv s) (ag : Agree b s)
    (ha : o.avail = s.avail) (hw : o.nwait = s.waiters.length) : checkCounters s.cap b o = none := by
  have hnn := amtSum_nonneg s.held inv.heldPos
  have hc := inv.conserve
  have hav := inv.availNonneg
  unfold checkCounters
  rw [ag.held, ag.blocked, ha, hw]
  rw [if_neg (by omega), if_neg (by omega), if_neg (by omega), if_neg (by simp)]
  cases hq : s.waiters with
  | nil => rfl
  | cons w ws =>
    have := inv.headBlocked w ws hq
    simp only
    rw [if_neg (by omega)]

theorem findHeld_isSome_of_some {id : Nat} {l : List (Nat × Int)} {g} (h : findHeld id l = some g) :
    (findHeld id l).isSome = true := by simp [h]

/-- one operation: the judge accepts the model's observation and its books follow the model -/
theorem apply_step (s : St) (b : Book) (o : Op) (inv : Inv s) (ag : Agree b s) :
    ∃ b', b.apply s.cap false (obsOf o (step s o).2 (step s o).1) = .ok b' ∧ Agree b' (step s o).1 := by
  have hcons := inv.conserve
  cases o with
  | acquire id a =>
    simp only [obsOf]
    rw [step_acquire]
    split
    · rename_i hbad
      refine ⟨b, ?_, ag⟩
      simp [Book.apply, validAmount_eq, hbad]
    · rename_i hbad
      have hbad' : badAmount s a = false := by simpa using hbad
      split
      · refine ⟨{ b with held := b.held ++ [(id, a)] }, ?_, ?_⟩
        · simp [Book.apply, validAmount_eq, hbad']
        · exact ⟨by simp [ag.held], ag.blocked, ag.resolved⟩
      · refine ⟨{ b with blocked := b.blocked ++ [(id, a)] }, ?_, ?_⟩
        · simp [Book.apply, validAmount_eq, hbad']
        · exact ⟨ag.held, by simp [ag.blocked], ag.resolved⟩
  | tryAcquire id a =>
    simp only [obsOf]
    rw [step_tryAcquire]
    split
    · rename_i hbad
      refine ⟨b, ?_, ag⟩
      simp [Book.apply, validAmount_eq, hbad]
    · rename_i hbad
      have hbad' : badAmount s a = false := by simpa using hbad
      split
      · refine ⟨{ b with held := b.held ++ [(id, a)] }, ?_, ?_⟩
        · simp [Book.apply, validAmount_eq, hbad']
        · exact ⟨by simp [ag.held], ag.blocked, ag.resolved⟩
      · rename_i hnf
        refine ⟨b, ?_, ag⟩
        simp only [Book.apply, validAmount_eq, hbad', ag.held]
        simp
        omega
  | release id =>
    simp only [obsOf]
    rw [step_release]
    unfold release
    split
    · rename_i hnone
      refine ⟨b, ?_, ag⟩
      simp [Book.apply, ag.held, hnone]
    · rename_i g hg
      have hmem := (findHeld_mem hg).1
      have hgpos := inv.heldPos g hmem
      have hsum := amtSum_eraseHeld hg
      have hnn := amtSum_nonneg (eraseHeld id s.held) (fun x hx => inv.heldPos x (mem_eraseHeld hx))
      dsimp only
      split
      · omega
      · have hlen : (List.map (fun x => x.fst) (List.take (wakeN (s.avail + g.2) s.waiters) s.waiters)).length
            = wakeN (s.avail + g.2) s.waiters := by
          simp [List.length_take]; exact Nat.min_eq_left (wakeN_le_length _ _)
        refine ⟨{ held := eraseHeld id b.held ++ b.blocked.take (wakeN (s.avail + g.2) s.waiters),
                  blocked := b.blocked.drop (wakeN (s.avail + g.2) s.waiters), resolved := b.resolved }, ?_, ?_⟩
        · simp only [Book.apply, ag.held, ag.blocked, hg, hlen]
          simp
        · exact ⟨by simp [ag.held, ag.blocked], by simp [ag.blocked], ag.resolved⟩

theorem obsOf_avail (o : Op) (out : Out) (s' : St) : (obsOf o out s').avail = s'.avail := rfl
theorem obsOf_nwait (o : Op) (out : Out) (s' : St) : (obsOf o out s').nwait = s'.waiters.length := rfl

theorem judge_model (s : St) (b : Book) (ops : List Op) (inv : Inv s) (ag : Agree b s) :
    judge s.cap false b (obsTrace s ops) = none := by
  induction ops generalizing s b with
  | nil => rfl
  | cons o os ih =>
    obtain ⟨b', hap, hag⟩ := apply_step s b o inv ag
    have inv' := step_inv s o inv
    simp only [obsTrace, judge, hap]
    have hcc := checkCounters_ok (step s o).1 b' (obsOf o (step s o).2 (step s o).1) inv' hag rfl rfl
    rw [step_cap] at hcc
    rw [hcc]
    have := ih (step s o).1 b' inv' hag
    rw [step_cap] at this
    exact this

end HappyModel.C09.Res
