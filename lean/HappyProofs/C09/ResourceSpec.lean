import HappyProofs.C09.ResourceFifo
/-! The `Resource` model satisfies the executable Spec predicate `judge` on every operation list:
the judge's own books (kept from observations only) coincide with the model state. -/
namespace HappyModel.C09.Res

structure Agree (b : Book) (s : St) : Prop where
  held : b.held = s.held
  blocked : b.blocked = s.waiters
  resolved : b.resolved = []

theorem validAmount_eq (s : St) (a : Int) : validAmount s.cap a = !badAmount s a := by
  unfold validAmount badAmount
  by_cases h1 : 0 < a <;> by_cases h2 : a ≤ s.cap <;> simp [h1, h2] <;> omega

theorem checkCounters_ok (s : St) (b : Book) (o : Obs) (inv : Inv s) (ag : Agree b s)
    (ha : o.avail = s.avail) (hw : o.nwait = s.waiters.length) (hc : o.capv = some s.cap)
    (hg : o.grants = true → 0 ≤ s.avail) : checkCounters s.cap b o = none := by
  have hnn := amtSum_nonneg s.held inv.heldPos
  have hcons := inv.conserve
  unfold checkCounters
  rw [ag.held, ag.blocked, ha, hw, hc]
  have h1 : ¬ ((o.grants && decide (s.cap < amtSum s.held)) = true) := by
    intro h
    simp only [Bool.and_eq_true, decide_eq_true_eq] at h
    have := hg h.1; omega
  rw [if_neg h1, if_neg (by omega), if_neg (by omega), if_neg (by simp), if_neg (by simp)]
  cases hq : s.waiters with
  | nil => rfl
  | cons w ws =>
    have := inv.headBlocked w ws hq
    simp only
    rw [if_neg (by omega)]

/-- the model hands out capacity only when it has it: after an operation that granted anything
    (immediately or by waking), `available` is not negative -/
theorem step_grant_within (s : St) (o : Op) (inv : Inv s)
    (h : (obsOf o (step s o).2 (step s o).1).grants = true) : 0 ≤ (step s o).1.avail := by
  cases o with
  | acquire id a =>
    simp only [obsOf, Obs.grants] at h
    rw [step_acquire] at h ⊢
    split
    · rename_i hb; simp [hb] at h
    · split
      · simp; omega
      · rename_i hb hf; simp [hb, hf] at h
  | tryAcquire id a =>
    simp only [obsOf, Obs.grants] at h
    rw [step_tryAcquire] at h ⊢
    split
    · rename_i hb; simp [hb] at h
    · split
      · simp; omega
      · rename_i hb hf; simp [hb, hf] at h
  | release id =>
    simp only [obsOf, Obs.grants] at h
    rw [step_release] at h ⊢
    unfold release at h ⊢
    split
    · rename_i hn; simp [hn] at h
    · rename_i g hg
      dsimp only at h ⊢
      split
      · rename_i hex; simp [hg, hex] at h
      · rename_i hok
        simp only [hg, hok, if_false] at h
        have hpos : 0 < wakeN (s.avail + g.2) s.waiters := by
          cases hn : wakeN (s.avail + g.2) s.waiters with
          | zero => simp [hn] at h
          | succ k => omega
        exact wakeN_pos_nonneg _ _ inv.waitPos hpos
  | setCapacity c =>
    simp only [obsOf, Obs.grants] at h
    rw [step_setCapacity] at h ⊢
    unfold setCapacity at h ⊢
    split
    · rename_i hc; simp [hc] at h
    · rename_i hc
      dsimp only at h ⊢
      split
      · rename_i hup
        simp only [hc, hup, if_true, if_false] at h
        have hpos : 0 < wakeN (s.avail + (c - s.cap)) s.waiters := by
          cases hn : wakeN (s.avail + (c - s.cap)) s.waiters with
          | zero => simp [hn] at h
          | succ k => omega
        exact wakeN_pos_nonneg _ _ inv.waitPos hpos
      · rename_i hup; simp [hc, hup] at h

theorem setCapacity_bad (s : St) (c : Int) (hc : c ≤ 0) : setCapacity s c = (s, ⟨.err, []⟩) := by
  unfold setCapacity; rw [if_pos hc]

theorem setCapacity_ok (s : St) (c : Int) (hc : 0 < c) :
    (setCapacity s c).2.res = .resized ∧ (setCapacity s c).1.cap = c := by
  unfold setCapacity; rw [if_neg (by omega)]
  dsimp only; split <;> exact ⟨rfl, rfl⟩

theorem capAfter_model (s : St) (o : Op) :
    capAfter s.cap (obsOf o (step s o).2 (step s o).1) = (step s o).1.cap := by
  cases o with
  | acquire id a => rw [step_cap s _ (by intro c; simp)]; simp [capAfter, obsOf]
  | tryAcquire id a => rw [step_cap s _ (by intro c; simp)]; simp [capAfter, obsOf]
  | release id => rw [step_cap s _ (by intro c; simp)]; simp [capAfter, obsOf]
  | setCapacity c =>
    rw [step_setCapacity]
    by_cases hc : c ≤ 0
    · rw [setCapacity_bad s c hc]; simp [capAfter, obsOf]
    · have h := setCapacity_ok s c (by omega)
      simp only [capAfter, obsOf, h.1, h.2]

theorem findHeld_isSome_of_some {id : Nat} {l : List (Nat × Int)} {g} (h : findHeld id l = some g) :
    (findHeld id l).isSome = true := by simp [h]

/-- one operation: the judge accepts the model's observation and its books follow the model -/
theorem apply_step (s : St) (b : Book) (o : Op) (inv : Inv s) (ag : Agree b s) :
    ∃ b', b.apply s.cap false (obsOf o (step s o).2 (step s o).1) = .ok b' ∧ Agree b' (step s o).1 := by
  have hcons := inv.conserve
  cases o with
  | acquire id a =>
    simp only [obsOf]
    rw [step_acquire]
    split
    · rename_i hbad
      refine ⟨b, ?_, ag⟩
      simp [Book.apply, validAmount_eq, hbad]
    · rename_i hbad
      have hbad' : badAmount s a = false := by simpa using hbad
      split
      · refine ⟨{ b with held := b.held ++ [(id, a)] }, ?_, ?_⟩
        · simp [Book.apply, validAmount_eq, hbad']
        · exact ⟨by simp [ag.held], ag.blocked, ag.resolved⟩
      · refine ⟨{ b with blocked := b.blocked ++ [(id, a)] }, ?_, ?_⟩
        · simp [Book.apply, validAmount_eq, hbad']
        · exact ⟨ag.held, by simp [ag.blocked], ag.resolved⟩
  | tryAcquire id a =>
    simp only [obsOf]
    rw [step_tryAcquire]
    split
    · rename_i hbad
      refine ⟨b, ?_, ag⟩
      simp [Book.apply, validAmount_eq, hbad]
    · rename_i hbad
      have hbad' : badAmount s a = false := by simpa using hbad
      split
      · refine ⟨{ b with held := b.held ++ [(id, a)] }, ?_, ?_⟩
        · simp [Book.apply, validAmount_eq, hbad']
        · exact ⟨by simp [ag.held], ag.blocked, ag.resolved⟩
      · rename_i hnf
        refine ⟨b, ?_, ag⟩
        simp only [Book.apply, validAmount_eq, hbad', ag.held]
        simp
        omega
  | release id =>
    simp only [obsOf]
    rw [step_release]
    unfold release
    split
    · rename_i hnone
      refine ⟨b, ?_, ag⟩
      simp [Book.apply, ag.held, hnone]
    · rename_i g hg
      have hmem := (findHeld_mem hg).1
      have hgpos := inv.heldPos g hmem
      have hsum := amtSum_eraseHeld hg
      have hnn := amtSum_nonneg (eraseHeld id s.held) (fun x hx => inv.heldPos x (mem_eraseHeld hx))
      dsimp only
      split
      · omega
      · have hlen : (List.map (fun x => x.fst) (List.take (wakeN (s.avail + g.2) s.waiters) s.waiters)).length
            = wakeN (s.avail + g.2) s.waiters := by
          simp [List.length_take]; exact Nat.min_eq_left (wakeN_le_length _ _)
        refine ⟨{ held := eraseHeld id b.held ++ b.blocked.take (wakeN (s.avail + g.2) s.waiters),
                  blocked := b.blocked.drop (wakeN (s.avail + g.2) s.waiters), resolved := b.resolved }, ?_, ?_⟩
        · simp only [Book.apply, ag.held, ag.blocked, hg, hlen]
          simp
        · exact ⟨by simp [ag.held, ag.blocked], by simp [ag.blocked], ag.resolved⟩
  | setCapacity c =>
    simp only [obsOf]
    rw [step_setCapacity]
    unfold setCapacity
    split
    · rename_i hc
      refine ⟨b, ?_, ag⟩
      simp only [Book.apply]
      rw [if_neg (by omega)]; simp
    · rename_i hc
      dsimp only
      split
      · have hlen : (List.map (fun x => x.fst) (List.take (wakeN (s.avail + (c - s.cap)) s.waiters) s.waiters)).length
            = wakeN (s.avail + (c - s.cap)) s.waiters := by
          simp [List.length_take]; exact Nat.min_eq_left (wakeN_le_length _ _)
        refine ⟨{ held := b.held ++ b.blocked.take (wakeN (s.avail + (c - s.cap)) s.waiters),
                  blocked := b.blocked.drop (wakeN (s.avail + (c - s.cap)) s.waiters), resolved := b.resolved }, ?_, ?_⟩
        · simp only [Book.apply, ag.blocked, hlen]
          rw [if_neg hc]; simp
        · exact ⟨by simp [ag.held, ag.blocked], by simp [ag.blocked], ag.resolved⟩
      · refine ⟨{ held := b.held ++ b.blocked.take 0, blocked := b.blocked.drop 0, resolved := b.resolved }, ?_, ?_⟩
        · simp only [Book.apply]
          rw [if_neg hc]; simp
        · exact ⟨by simp [ag.held], by simp [ag.blocked], ag.resolved⟩

theorem obsOf_capv (o : Op) (out : Out) (s' : St) : (obsOf o out s').capv = some s'.cap := rfl
theorem obsOf_avail (o : Op) (out : Out) (s' : St) : (obsOf o out s').avail = s'.avail := rfl
theorem obsOf_nwait (o : Op) (out : Out) (s' : St) : (obsOf o out s').nwait = s'.waiters.length := rfl

theorem judge_model (s : St) (b : Book) (ops : List Op) (inv : Inv s) (ag : Agree b s) :
    judge s.cap false b (obsTrace s ops) = none := by
  induction ops generalizing s b with
  | nil => rfl
  | cons o os ih =>
    obtain ⟨b', hap, hag⟩ := apply_step s b o inv ag
    have inv' := step_inv s o inv
    simp only [obsTrace, judge, hap]
    have hcc := checkCounters_ok (step s o).1 b' (obsOf o (step s o).2 (step s o).1) inv' hag rfl rfl rfl
      (step_grant_within s o inv)
    rw [capAfter_model, hcc]
    exact ih (step s o).1 b' inv' hag

end HappyModel.C09.Res
