import HappyProofs.C09.PreemptSpecLemmas
/-! The relation between the judge's books and the model state of the PreemptibleResource, and its
preservation by the phases of a call (take the call id, preempt, grant, queue, wake, release). -/
namespace HappyModel.C09.Preempt

/-! ### the phases of `step`, named -/

def bump (s : St) : St := { s with nextId := s.nextId + 1 }

def enqueue (s : St) (g : G) : St :=
  { s with contentions := s.contentions + 1, waiters := insWaiter g s.waiters }

def freed (s : St) (g : G) : St :=
  { s with active := s.active.erase g, avail := s.avail + g.amt, releases := s.releases + 1 }

theorem step_acquire (s : St) (amt prio : Int) (pre : Bool) :
    step s (.acquire amt prio pre) =
      if amt ≤ 0 ∨ s.cap < amt then (bump s, { res := .err })
      else if amt ≤ s.avail then (grantNow (bump s) ⟨s.nextId, amt, prio⟩, { res := .granted })
      else
        let r := if pre then preemptLoop amt prio s.active.length (bump s) else (bump s, [])
        if pre ∧ amt ≤ r.1.avail then
          if s.wakeAfterPreempt ∧ r.2 ≠ [] then
            ((wake (grantNow r.1 ⟨s.nextId, amt, prio⟩)).1,
              { res := .granted, evicted := r.2, woke := (wake (grantNow r.1 ⟨s.nextId, amt, prio⟩)).2 })
          else (grantNow r.1 ⟨s.nextId, amt, prio⟩, { res := .granted, evicted := r.2 })
        else
          if s.wakeAfterPreempt ∧ r.2 ≠ [] then
            ((wake (enqueue r.1 ⟨s.nextId, amt, prio⟩)).1,
              { res := .queued, evicted := r.2, woke := (wake (enqueue r.1 ⟨s.nextId, amt, prio⟩)).2 })
          else (enqueue r.1 ⟨s.nextId, amt, prio⟩, { res := .queued, evicted := r.2 }) := rfl

theorem step_err (s : St) (amt prio : Int) (pre : Bool) (h : amt ≤ 0 ∨ s.cap < amt) :
    step s (.acquire amt prio pre) = (bump s, { res := .err }) := by
  rw [step_acquire, if_pos h]

theorem step_fit (s : St) (amt prio : Int) (pre : Bool) (h : ¬ (amt ≤ 0 ∨ s.cap < amt)) (hfit : amt ≤ s.avail) :
    step s (.acquire amt prio pre) = (grantNow (bump s) ⟨s.nextId, amt, prio⟩, { res := .granted }) := by
  rw [step_acquire, if_neg h, if_pos hfit]

theorem step_nopre (s : St) (amt prio : Int) (h : ¬ (amt ≤ 0 ∨ s.cap < amt)) (hfit : ¬ amt ≤ s.avail) :
    step s (.acquire amt prio false) = (enqueue (bump s) ⟨s.nextId, amt, prio⟩, { res := .queued }) := by
  rw [step_acquire, if_neg h, if_neg hfit]
  simp

theorem step_pre_nil (s : St) (amt prio : Int) (h : ¬ (amt ≤ 0 ∨ s.cap < amt)) (hfit : ¬ amt ≤ s.avail)
    (hr : (preemptLoop amt prio s.active.length (bump s)).2 = []) :
    step s (.acquire amt prio true) = (enqueue (bump s) ⟨s.nextId, amt, prio⟩, { res := .queued }) := by
  have h1 := preemptLoop_nil _ _ _ _ hr
  have hav : ¬ amt ≤ (preemptLoop amt prio s.active.length (bump s)).1.avail := by rw [h1]; exact hfit
  rw [step_acquire, if_neg h, if_neg hfit]
  simp only [if_true, true_and]
  rw [if_neg hav, hr, h1]
  simp

theorem step_pre_grant (s : St) (amt prio : Int) (hfix : s.wakeAfterPreempt = true)
    (h : ¬ (amt ≤ 0 ∨ s.cap < amt)) (hfit : ¬ amt ≤ s.avail)
    (hr : (preemptLoop amt prio s.active.length (bump s)).2 ≠ [])
    (hav : amt ≤ (preemptLoop amt prio s.active.length (bump s)).1.avail) :
    step s (.acquire amt prio true) =
      ((wake (grantNow (preemptLoop amt prio s.active.length (bump s)).1 ⟨s.nextId, amt, prio⟩)).1,
        { res := .granted, evicted := (preemptLoop amt prio s.active.length (bump s)).2,
          woke := (wake (grantNow (preemptLoop amt prio s.active.length (bump s)).1 ⟨s.nextId, amt, prio⟩)).2 }) := by
  rw [step_acquire, if_neg h, if_neg hfit]
  simp only [if_true, true_and]
  rw [if_pos hav, if_pos ⟨hfix, hr⟩]

theorem step_pre_queue (s : St) (amt prio : Int) (hfix : s.wakeAfterPreempt = true)
    (h : ¬ (amt ≤ 0 ∨ s.cap < amt)) (hfit : ¬ amt ≤ s.avail)
    (hr : (preemptLoop amt prio s.active.length (bump s)).2 ≠ [])
    (hav : ¬ amt ≤ (preemptLoop amt prio s.active.length (bump s)).1.avail) :
    step s (.acquire amt prio true) =
      ((wake (enqueue (preemptLoop amt prio s.active.length (bump s)).1 ⟨s.nextId, amt, prio⟩)).1,
        { res := .queued, evicted := (preemptLoop amt prio s.active.length (bump s)).2,
          woke := (wake (enqueue (preemptLoop amt prio s.active.length (bump s)).1 ⟨s.nextId, amt, prio⟩)).2 }) := by
  rw [step_acquire, if_neg h, if_neg hfit]
  simp only [if_true, true_and]
  rw [if_neg hav, if_pos ⟨hfix, hr⟩]

theorem step_release_none (s : St) (id : Nat) (h : s.active.find? (·.id == id) = none) :
    step s (.release id) = (s, { res := .noop }) := by
  simp only [step, h]

theorem step_release_some (s : St) (id : Nat) (g : G) (h : s.active.find? (·.id == id) = some g) :
    step s (.release id) = ((wake (freed s g)).1, { res := .released, woke := (wake (freed s g)).2 }) := by
  simp only [step, h]; rfl

/-! ### books and state -/

/-- the judge's books (`b`, kept from the reported results only) and the driver's `gone` list describe the
    model state `s` -/
structure Core (cap : Int) (b : Book) (s : St) (gone : List Nat) : Prop where
  num : Num s
  ord : Ord s
  cap : s.cap = cap
  held : b.held = s.active
  granted : b.granted = s.grantLog
  bgone : b.gone = gone
  nPre : s.preemptions = gone.length
  nRel : b.nRel = s.releases
  nCon : b.nCon = s.contentions
  nAcq : s.acquisitions = s.grantLog.length
  waitPerm : b.waiting.Perm s.waiters
  waitArr : b.waiting.Pairwise idLt
  actNodup : (s.active.map G.id).Nodup
  actLogged : ∀ g ∈ s.active, g.id ∈ s.grantLog

theorem insWaiter_perm (w : G) (l : List G) : (insWaiter w l).Perm (w :: l) := by
  induction l with
  | nil => simp [insWaiter]
  | cons h t ih =>
    simp only [insWaiter]
    split
    · exact (List.Perm.cons h ih).trans (List.Perm.swap w h t)
    · exact List.Perm.refl _

theorem core_bump {cap : Int} {b : Book} {s : St} {gone : List Nat} (c : Core cap b s gone) :
    Core cap b (bump s) gone :=
  { num := ⟨c.num.fix, c.num.capPos, c.num.conserve, c.num.availNonneg, c.num.actPos, c.num.waitPos⟩
    ord := ⟨c.ord.sorted, fun g hg => Nat.lt_succ_of_lt (c.ord.waitFresh g hg),
            fun i hi => Nat.lt_succ_of_lt (c.ord.logFresh i hi), c.ord.logNodup, c.ord.waitNotLogged, c.ord.waitNodup⟩
    cap := c.cap, held := c.held, granted := c.granted, bgone := c.bgone, nPre := c.nPre, nRel := c.nRel
    nCon := c.nCon, nAcq := c.nAcq, waitPerm := c.waitPerm, waitArr := c.waitArr, actNodup := c.actNodup
    actLogged := c.actLogged }

theorem core_evict {cap : Int} {b : Book} {s : St} {gone : List Nat} (amt p : Int) (n : Nat) (c : Core cap b s gone) :
    ∃ b', b.evict cap amt p (preemptLoop amt p n s).2 = .ok b' ∧
      Core cap b' (preemptLoop amt p n s).1 (gone ++ (preemptLoop amt p n s).2) := by
  obtain ⟨b', h1, h2, h3, h4, h5, h6, h7⟩ :=
    evict_ok cap amt p n s b c.held c.actNodup (by rw [← c.cap]; exact c.num.conserve)
  have f := preemptLoop_facts amt p n s c.num.actPos
  have f2 := preemptLoop_frame2 amt p n s
  refine ⟨b', h1, ?_⟩
  generalize preemptLoop amt p n s = r at *
  exact
    { num := ⟨by rw [f.fix]; exact c.num.fix, by rw [f.cap]; exact c.num.capPos,
              by rw [f.sum, f.cap]; exact c.num.conserve,
              by have := f.mono; have := c.num.availNonneg; omega,
              fun g hg => c.num.actPos g (f.sub g hg), by rw [f.waiters]; exact c.num.waitPos⟩
      ord := ⟨by rw [f.waiters]; exact c.ord.sorted, by rw [f.waiters, f.nextId]; exact c.ord.waitFresh,
              by rw [f.log, f.nextId]; exact c.ord.logFresh, by rw [f.log]; exact c.ord.logNodup,
              by rw [f.waiters, f.log]; exact c.ord.waitNotLogged, by rw [f.waiters]; exact c.ord.waitNodup⟩
      cap := by rw [f.cap]; exact c.cap
      held := h2
      granted := by rw [h5, f.log]; exact c.granted
      bgone := by rw [h3, c.bgone]
      nPre := by rw [f2.pre, c.nPre]; simp
      nRel := by rw [h6, f2.rel]; exact c.nRel
      nCon := by rw [h7, f.cont]; exact c.nCon
      nAcq := by rw [f2.acq, f.log]; exact c.nAcq
      waitPerm := by rw [h4, f.waiters]; exact c.waitPerm
      waitArr := by rw [h4]; exact c.waitArr
      actNodup := f2.nodup c.actNodup
      actLogged := fun g hg => by rw [f.log]; exact c.actLogged g (f.sub g hg) }

theorem core_grant {cap : Int} {b : Book} {s : St} {gone : List Nat} (g : G) (c : Core cap b s gone)
    (hpos : 0 < g.amt) (hfit : g.amt ≤ s.avail) (hid : g.id < s.nextId) (hnew : g.id ∉ s.grantLog)
    (hnw : ∀ w ∈ s.waiters, w.id ≠ g.id) :
    Core cap { b with held := b.held ++ [g], granted := b.granted ++ [g.id] } (grantNow s g) gone :=
  { num := grantNow_num s g c.num hpos hfit
    ord := grantNow_ord s g c.ord hid hnew hnw
    cap := c.cap
    held := by show b.held ++ [g] = s.active ++ [g]; rw [c.held]
    granted := by show b.granted ++ [g.id] = s.grantLog ++ [g.id]; rw [c.granted]
    bgone := c.bgone, nPre := c.nPre, nRel := c.nRel, nCon := c.nCon
    nAcq := by show s.acquisitions + 1 = (s.grantLog ++ [g.id]).length; rw [c.nAcq]; simp
    waitPerm := c.waitPerm, waitArr := c.waitArr
    actNodup := by
      show ((s.active ++ [g]).map G.id).Nodup
      rw [List.map_append, List.nodup_append]
      refine ⟨c.actNodup, by simp, ?_⟩
      intro a ha x hx hax
      simp at hx
      obtain ⟨y, hy, hye⟩ := List.mem_map.mp ha
      apply hnew; rw [← hx, ← hax, ← hye]; exact c.actLogged y hy
    actLogged := by
      intro x hx
      have hx' : x ∈ s.active ++ [g] := hx
      show x.id ∈ s.grantLog ++ [g.id]
      rcases List.mem_append.mp hx' with h | h
      · exact List.mem_append_left _ (c.actLogged x h)
      · simp at h; rw [h]; simp }

theorem core_enqueue {cap : Int} {b : Book} {s : St} {gone : List Nat} (g : G) (c : Core cap b s gone)
    (hpos : 0 < g.amt) (hlt : ∀ w ∈ s.waiters, w.id < g.id) (hid : g.id < s.nextId) (hnew : g.id ∉ s.grantLog) :
    Core cap { b with waiting := b.waiting ++ [g], nCon := b.nCon + 1 } (enqueue s g) gone :=
  { num := ⟨c.num.fix, c.num.capPos, c.num.conserve, c.num.availNonneg, c.num.actPos, fun x hx => by
        rcases (mem_insWaiter _ _ _).mp hx with h | h
        · rw [h]; exact hpos
        · exact c.num.waitPos x h⟩
    ord := ⟨insWaiter_sorted _ _ c.ord.sorted hlt,
            fun x hx => by
              rcases (mem_insWaiter _ _ _).mp hx with h | h
              · rw [h]; exact hid
              · exact c.ord.waitFresh x h,
            c.ord.logFresh, c.ord.logNodup,
            fun x hx => by
              rcases (mem_insWaiter _ _ _).mp hx with h | h
              · rw [h]; exact hnew
              · exact c.ord.waitNotLogged x h,
            insWaiter_ids_nodup _ _ c.ord.waitNodup (fun x hx => Nat.ne_of_lt (hlt x hx))⟩
    cap := c.cap, held := c.held, granted := c.granted, bgone := c.bgone, nPre := c.nPre, nRel := c.nRel
    nCon := by show b.nCon + 1 = s.contentions + 1; rw [c.nCon]
    nAcq := c.nAcq
    waitPerm := by
      show (b.waiting ++ [g]).Perm (insWaiter g s.waiters)
      exact List.perm_append_singleton g b.waiting |>.trans
        ((List.Perm.cons g c.waitPerm).trans (insWaiter_perm g s.waiters).symm)
    waitArr := by
      show (b.waiting ++ [g]).Pairwise idLt
      rw [List.pairwise_append]
      refine ⟨c.waitArr, by simp, ?_⟩
      intro x hx y hy
      simp at hy; subst hy; exact hlt x (c.waitPerm.mem_iff.mp hx)
    actNodup := c.actNodup, actLogged := c.actLogged }

theorem core_wake {cap : Int} {b : Book} {s : St} {gone : List Nat} (woke : List Nat) (c : Core cap b s gone)
    (hw : ∀ i, i ∈ woke ↔ i ∈ (wake s).2) :
    ∃ b', b.wakeSet cap b.waiting.length woke = .ok b' ∧ Core cap b' (wake s).1 gone := by
  have hsum : s.avail = cap - heldSum b := by
    unfold heldSum; rw [c.held, ← c.cap]; have := c.num.conserve; omega
  obtain ⟨b', h1, h2, h3, h4, h5, h6, h7, h8⟩ :=
    wakeSet_ok cap s.waiters s.avail b.waiting.length b woke c.waitPerm c.waitArr c.ord.sorted c.ord.waitNodup
      (by intro g hg; rw [c.granted]; exact c.ord.waitNotLogged g hg)
      (by rw [c.waitPerm.length_eq]; exact Nat.le_refl _) hsum hw
  refine ⟨b', h1, ?_⟩
  have hsplit := woken_append_rest s.avail s.waiters
  have hwkMem : ∀ g ∈ wokenOf s.avail s.waiters, g ∈ s.waiters := by
    intro g hg; rw [← hsplit]; exact List.mem_append_left _ hg
  have hnd := c.ord.waitNodup
  rw [← hsplit, List.map_append, List.nodup_append] at hnd
  exact
    { num := (wake_inv s c.num).num
      ord := wake_ord s c.ord
      cap := c.cap
      held := by rw [h2, c.held]; rfl
      granted := by rw [h3, c.granted]; rfl
      bgone := by rw [h6]; exact c.bgone
      nPre := c.nPre
      nRel := by rw [h7]; exact c.nRel
      nCon := by rw [h8]; exact c.nCon
      nAcq := by
        show s.acquisitions + (wokenOf s.avail s.waiters).length
          = (s.grantLog ++ (wokenOf s.avail s.waiters).map G.id).length
        rw [c.nAcq]; simp
      waitPerm := h4
      waitArr := h5
      actNodup := by
        show ((s.active ++ wokenOf s.avail s.waiters).map G.id).Nodup
        rw [List.map_append, List.nodup_append]
        refine ⟨c.actNodup, hnd.1, ?_⟩
        intro a ha x hx hax
        obtain ⟨y, hy, hye⟩ := List.mem_map.mp ha
        obtain ⟨z, hz, hze⟩ := List.mem_map.mp hx
        apply c.ord.waitNotLogged z (hwkMem z hz)
        rw [hze, ← hax, ← hye]; exact c.actLogged y hy
      actLogged := by
        intro x hx
        have hx' : x ∈ s.active ++ wokenOf s.avail s.waiters := hx
        show x.id ∈ s.grantLog ++ (wokenOf s.avail s.waiters).map G.id
        rcases List.mem_append.mp hx' with h | h
        · exact List.mem_append_left _ (c.actLogged x h)
        · exact List.mem_append_right _ (List.mem_map_of_mem h) }

theorem core_free {cap : Int} {b : Book} {s : St} {gone : List Nat} (g : G) (c : Core cap b s gone)
    (hm : g ∈ s.active) :
    Core cap { b with held := b.held.erase g, nRel := b.nRel + 1 } (freed s g) gone :=
  { num := ⟨c.num.fix, c.num.capPos,
            by show s.avail + g.amt + amtSum (s.active.erase g) = s.cap
               rw [amtSum_erase _ _ hm]; have := c.num.conserve; omega,
            by show 0 ≤ s.avail + g.amt
               have := c.num.actPos g hm; have := c.num.availNonneg; omega,
            fun x hx => c.num.actPos x (List.mem_of_mem_erase hx), c.num.waitPos⟩
    ord := ⟨c.ord.sorted, c.ord.waitFresh, c.ord.logFresh, c.ord.logNodup, c.ord.waitNotLogged, c.ord.waitNodup⟩
    cap := c.cap
    held := by show b.held.erase g = s.active.erase g; rw [c.held]
    granted := c.granted, bgone := c.bgone, nPre := c.nPre
    nRel := by show b.nRel + 1 = s.releases + 1; rw [c.nRel]
    nCon := c.nCon, nAcq := c.nAcq, waitPerm := c.waitPerm, waitArr := c.waitArr
    actNodup := nodup_ids_erase _ _ c.actNodup
    actLogged := fun x hx => c.actLogged x (List.mem_of_mem_erase hx) }

theorem init_core (cap : Int) (h : 0 < cap) : Core cap {} (St.init cap) [] :=
  { num := (init_inv cap h).num, ord := init_ord cap, cap := rfl, held := rfl, granted := rfl, bgone := rfl
    nPre := rfl, nRel := rfl, nCon := rfl, nAcq := rfl, waitPerm := List.Perm.refl _
    waitArr := List.Pairwise.nil, actNodup := List.nodup_nil, actLogged := fun _ h => by cases h }

end HappyModel.C09.Preempt
