import HappyProofs.C09.WaitClosed
/-!
# C09 — `wait_is_silent`, part 1: what one handler invocation can do to a process parked on a future

The blocking sync primitives (`Mutex`, `Semaphore`, `RWLock`, `Barrier`, `Condition`, after
`fixes/C09-sync-spin-wait.diff`) and `Resource.acquire` park a blocked acquirer on a `SimFuture` that
the releaser resolves.  In the process layer of C01/C02 that is: the acquirer's segment ends in
`Term.yieldF f` with `f` unresolved, the releaser's segment contains `Act.resolve f v`.

This file follows a process `pid` that is parked on future slot `f` through the code of one handler
invocation *of another process*, at a fixed clock value `now`:

* `Trk`: `pid` is parked nowhere but (possibly) on `f`; every continuation spec of `pid` created so far
  is stamped `now`; no `resume _ pid` log entry has been added.  Holds for every handler table.
* `Link`: either `pid` is still parked on `f`, or `f` is resolved, nobody is parked on it, a
  continuation of `pid` exists and the process record carries `f`'s value as the value to send.
  Holds as long as the code neither rebinds slot `f` (`fresh f`, `any_of`/`all_of` into `f`) nor parks
  another process on it (`segKeeps`) — in the implementation the wake-up future is a local of the
  `acquire()` generator, so nothing else can do either.

Both are preserved by every primitive state change of the process layer (`PA_sclosed`, an instance of
the fixed-clock induction principle `SClosed` of `HappyProofs/C09/WaitClosed.lean`), hence by the whole
handler invocation of any pending event (`procEff_track`).
-/
namespace HappyModel.C09.WaitSilent
open HappyModel.C01
set_option linter.unusedVariables false

/-! ## the tracked process -/

/-- is this log entry a resumption of `pid`? -/
def isRes (pid : Nat) : Obs → Bool
  | .resume _ q _ _ => q == pid
  | _ => false

/-- number of times `pid` has been resumed (`generator.send`) according to the log -/
def resCount (l : List Obs) (pid : Nat) : Nat := l.countP (isRes pid)

theorem resCount_cons_other (l : List Obs) (o : Obs) (pid : Nat) (h : isRes pid o = false) :
    resCount (o :: l) pid = resCount l pid := by
  simp [resCount, h]

/-- `pid` is parked at most on `f`; its continuation specs are stamped `now`; it has not been resumed -/
structure Trk (now f pid r0 : Nat) (e : Eff) : Prop where
  onlyF : ∀ g, (futGet e.ps.futs g).parked = some pid → g = f
  contNow : ∀ sp ∈ e.specs, sp.data = pid + 1 → sp.time = now
  obsSame : resCount e.ps.obs pid = r0

section trk
variable {now f pid r0 : Nat} {e : Eff}

theorem Trk.setFut (h : Trk now f pid r0 e) (g : Nat) (x : Fut) (hx : x.parked = some pid → g = f) :
    Trk now f pid r0 (e.setFut g x) := by
  refine ⟨?_, h.contNow, h.obsSame⟩
  intro g' hg'
  simp only [setFut_futs, futGet_futSet] at hg'
  split at hg'
  · rename_i heq; rw [heq]; exact hx hg'
  · exact h.onlyF g' hg'

theorem Trk.setProc (h : Trk now f pid r0 e) (i : Nat) (x : Proc) : Trk now f pid r0 (e.setProc i x) :=
  ⟨h.onlyF, h.contNow, h.obsSame⟩

theorem Trk.push (h : Trk now f pid r0 e) (sp : Spec) (hook : Nat) (tagged : Bool)
    (hs : sp.data = pid + 1 → sp.time = now) : Trk now f pid r0 (e.push sp hook tagged) := by
  refine ⟨h.onlyF, ?_, h.obsSame⟩
  intro s hs'
  simp only [push_specs, List.mem_append, List.mem_singleton] at hs'
  rcases hs' with hs' | rfl
  · exact h.contNow s hs'
  · exact hs

theorem Trk.addObs (h : Trk now f pid r0 e) (o : Obs) (ho : isRes pid o = false) :
    Trk now f pid r0 (addObs e o) := by
  refine ⟨h.onlyF, h.contNow, ?_⟩
  show resCount (o :: e.ps.obs) pid = r0
  rw [resCount_cons_other _ _ _ ho]; exact h.obsSame

/-- `SimFuture._resume` at clock `now`, of whichever process is parked on `g` -/
theorem Trk.resumeParked (h : Trk now f pid r0 e) (g : Nat) : Trk now f pid r0 (resumeParked e now g) := by
  cases hpk : (futGet e.ps.futs g).parked with
  | none => rw [resumeParked_none e now g hpk]; exact h
  | some pid' =>
    cases hp : e.ps.procs[pid']? with
    | none => rw [resumeParked_noproc e now g pid' hpk hp]; exact h
    | some p =>
      rw [resumeParked_some e now g pid' p hpk hp]
      unfold resumed
      exact ((h.push _ 0 false (fun _ => rfl)).setFut g _ (by intro hh; simp at hh)).setProc pid' _

end trk

/-- the wake-up link between `f` and `pid` -/
def Link (f pid : Nat) (e : Eff) : Prop :=
  (futGet e.ps.futs f).parked = some pid ∨
  ((futGet e.ps.futs f).resolved = true ∧ (futGet e.ps.futs f).parked = none ∧ 1 ≤ cntSpec e.specs pid ∧
    ∃ q, e.ps.procs[pid]? = some q ∧ q.send = (futGet e.ps.futs f).value)

section link
variable {now f pid : Nat} {e e' : Eff}

theorem Link.frame (h : Link f pid e)
    (hpk : (futGet e'.ps.futs f).parked = (futGet e.ps.futs f).parked)
    (hrs : (futGet e'.ps.futs f).resolved = (futGet e.ps.futs f).resolved)
    (hvl : (futGet e'.ps.futs f).value = (futGet e.ps.futs f).value)
    (hsp : cntSpec e.specs pid ≤ cntSpec e'.specs pid)
    (hpr : e'.ps.procs[pid]? = e.ps.procs[pid]?) : Link f pid e' := by
  rcases h with h | ⟨h1, h2, h3, q, h4, h5⟩
  · left; rw [hpk]; exact h
  · right
    exact ⟨by rw [hrs]; exact h1, by rw [hpk]; exact h2, by omega, q, by rw [hpr]; exact h4,
      by rw [hvl]; exact h5⟩

theorem Link.setFut_ne (h : Link f pid e) (g : Nat) (x : Fut) (hg : g ≠ f) : Link f pid (e.setFut g x) := by
  have hget : futGet (e.setFut g x).ps.futs f = futGet e.ps.futs f := by
    rw [setFut_futs, futGet_futSet_ne _ _ _ _ (Ne.symm hg)]
  exact h.frame (by rw [hget]) (by rw [hget]) (by rw [hget]) (Nat.le_refl _) rfl

theorem Link.setFut_same (h : Link f pid e) (g : Nat) (x : Fut)
    (h1 : x.parked = (futGet e.ps.futs g).parked) (h2 : x.resolved = (futGet e.ps.futs g).resolved)
    (h3 : x.value = (futGet e.ps.futs g).value) : Link f pid (e.setFut g x) := by
  by_cases hg : g = f
  · subst hg
    have hget : futGet (e.setFut g x).ps.futs g = x := by rw [setFut_futs, futGet_futSet_same]
    exact h.frame (by rw [hget]; exact h1) (by rw [hget]; exact h2) (by rw [hget]; exact h3)
      (Nat.le_refl _) rfl
  · exact h.setFut_ne g x hg

theorem Link.setProc_ne (h : Link f pid e) (i : Nat) (x : Proc) (hi : i ≠ pid) :
    Link f pid (e.setProc i x) :=
  h.frame rfl rfl rfl (Nat.le_refl _) (by rw [setProc_procs, List.getElem?_set_ne hi])

theorem Link.push (h : Link f pid e) (sp : Spec) (hook : Nat) (tagged : Bool) :
    Link f pid (e.push sp hook tagged) :=
  h.frame rfl rfl rfl (by rw [push_specs, cntSpec_append]; omega) rfl

theorem Link.addObs (h : Link f pid e) (o : Obs) : Link f pid (addObs e o) :=
  h.frame rfl rfl rfl (Nat.le_refl _) rfl

/-- resuming whoever is parked on another future `g` does not touch the link -/
theorem Link.resumeParked_ne (h : Link f pid e) (g : Nat) (hg : g ≠ f)
    (hpk : (futGet e.ps.futs g).parked ≠ some pid) : Link f pid (resumeParked e now g) := by
  cases hpk' : (futGet e.ps.futs g).parked with
  | none => rw [resumeParked_none e now g hpk']; exact h
  | some pid' =>
    cases hp : e.ps.procs[pid']? with
    | none => rw [resumeParked_noproc e now g pid' hpk' hp]; exact h
    | some p =>
      rw [resumeParked_some e now g pid' p hpk' hp]
      unfold resumed
      have hne : pid' ≠ pid := by intro heq; rw [heq] at hpk'; exact hpk hpk'
      exact ((h.push _ 0 false).setFut_ne g _ hg).setProc_ne pid' _ hne

/-- `resolve(g, v)`: for `g = f` the parked process gets its continuation and the value; for `g ≠ f`
    nothing of the link changes -/
theorem Link.markResolved {r0 : Nat} (hw : WF e) (ht : Trk now f pid r0 e) (h : Link f pid e) (g : Nat) (v : Val)
    (hr : (futGet e.ps.futs g).resolved = false) : Link f pid (markResolved e now g v) := by
  by_cases hg : g = f
  · subst hg
    rcases h with h | ⟨h1, _⟩
    · have hl : pid < e.ps.procs.length := (hw.park g pid h).2
      have hp : e.ps.procs[pid]? = some e.ps.procs[pid] := by simp [hl]
      have hm : HappyModel.C01.markResolved e now g v =
          resumed (e.setFut g { futGet e.ps.futs g with resolved := true, value := v, cbs := [] })
            now g pid e.ps.procs[pid] := by
        unfold HappyModel.C01.markResolved
        exact resumeParked_some _ now g pid _ (by rw [setFut_futs, futGet_futSet_same]; exact h) hp
      rw [hm]
      unfold resumed
      right
      refine ⟨?_, ?_, ?_, _, List.getElem?_set_self (by simpa using hl), ?_⟩
      · simp [futGet_futSet]
      · simp [futGet_futSet]
      · simp only [setProc_specs, setFut_specs, push_cont_specs]
        rw [cntSpec_append, cntSpec_single]
        simp [contSpec, ind]
      · simp [futGet_futSet]
    · rw [h1] at hr; simp at hr
  · unfold HappyModel.C01.markResolved
    apply Link.resumeParked_ne (h.setFut_ne g _ hg) g hg
    rw [setFut_futs, futGet_futSet_same]
    intro hh
    exact hg (ht.onlyF g hh)

end link

/-! ## the two tracked predicates, joined; `c` switches the link part on -/

/-- during the actions of a segment (the accounting bound `Bnd B` of C02 still holds) -/
def PA (c : Prop) (B : Nat → Nat) (now f pid r0 : Nat) (e : Eff) : Prop :=
  Bnd B e ∧ Trk now f pid r0 e ∧ (c → Link f pid e)

/-- after the terminator -/
def PT (c : Prop) (now f pid r0 : Nat) (e : Eff) : Prop := Trk now f pid r0 e ∧ (c → Link f pid e)

theorem PA_sclosed (c : Prop) (B : Nat → Nat) (now f pid r0 : Nat) :
    SClosed now (fun g => c → g ≠ f) (PA c B now f pid r0) where
  resolve := by
    intro e g v ⟨hb, ht, hl⟩ hr
    refine ⟨Bnd_markResolved B e now g v hb hr, ?_, fun hc => Link.markResolved hb.1 ht (hl hc) g v hr⟩
    unfold markResolved
    exact (ht.setFut g _ (by intro hh; exact ht.onlyF g hh)).resumeParked g
  allUpd := by
    intro e g res rem ⟨hb, ht, hl⟩ hr
    exact ⟨Bnd_setFut_same B e g _ hb rfl rfl, ht.setFut g _ (by intro hh; exact ht.onlyF g hh),
      fun hc => (hl hc).setFut_same g _ rfl rfl rfl⟩
  cbAdd := by
    intro e g cb ⟨hb, ht, hl⟩ hr
    exact ⟨Bnd_setFut_same B e g _ hb rfl rfl, ht.setFut g _ (by intro hh; exact ht.onlyF g hh),
      fun hc => (hl hc).setFut_same g _ rfl rfl rfl⟩
  bind := by
    intro e g rs rm hok ⟨hb, ht, hl⟩
    exact ⟨(Bnd_closed B).bind e g rs rm hb, ht.setFut g _ (by intro hh; simp at hh),
      fun hc => (hl hc).setFut_ne g _ (hok hc)⟩
  push := by
    intro e sp hook tagged hd ⟨hb, ht, hl⟩
    exact ⟨(Bnd_closed B).push e sp hook tagged hd hb, ht.push sp hook tagged (by intro hh; omega),
      fun hc => (hl hc).push sp hook tagged⟩
  release := by
    intro e i sp ⟨hb, ht, hl⟩ hm
    have hd : sp.data = 0 := hb.1.held (i, sp) hm
    refine ⟨(Bnd_closed B).release e i sp hb hm, ⟨ht.onlyF, ?_, ht.obsSame⟩, fun hc => ?_⟩
    · intro s hs
      simp only [List.mem_append, List.mem_singleton] at hs
      rcases hs with hs | rfl
      · exact ht.contNow s hs
      · intro hh; omega
    · exact (hl hc).frame rfl rfl rfl (by rw [cntSpec_append]; omega) rfl
  crashed := by
    intro e l ⟨hb, ht, hl⟩
    exact ⟨(Bnd_closed B).crashed e l hb, ⟨ht.onlyF, ht.contNow, ht.obsSame⟩,
      fun hc => (hl hc).frame rfl rfl rfl (Nat.le_refl _) rfl⟩
  cancels := by
    intro e l ⟨hb, ht, hl⟩
    exact ⟨(Bnd_closed B).cancels e l hb, ⟨ht.onlyF, ht.contNow, ht.obsSame⟩,
      fun hc => (hl hc).frame rfl rfl rfl (Nat.le_refl _) rfl⟩
  hookObs := by
    intro e h ⟨hb, ht, hl⟩
    exact ⟨Bnd_addObs B e _ hb, ht.addObs _ rfl, fun hc => (hl hc).addObs _⟩
  aux := by
    intro e hookOf late lateAtt level hopsOf cur ⟨hb, ht, hl⟩
    exact ⟨⟨⟨hb.1.park, hb.1.specs, hb.1.held⟩, hb.2⟩, ⟨ht.onlyF, ht.contNow, ht.obsSame⟩,
      fun hc => (hl hc).frame rfl rfl rfl (Nat.le_refl _) rfl⟩

section pa
variable {c : Prop} {B : Nat → Nat} {now f pid r0 : Nat} {e : Eff}

theorem PA.setProc (h : PA c B now f pid r0 e) (i : Nat) (x : Proc) (hi : i ≠ pid) :
    PA c B now f pid r0 (e.setProc i x) :=
  ⟨Bnd_setProc B e i x h.1, h.2.1.setProc i x, fun hc => (h.2.2 hc).setProc_ne i x hi⟩

theorem PA.addObs (h : PA c B now f pid r0 e) (o : Obs) (ho : isRes pid o = false) :
    PA c B now f pid r0 (addObs e o) :=
  ⟨Bnd_addObs B e o h.1, h.2.1.addObs o ho, fun hc => (h.2.2 hc).addObs o⟩

end pa

/-! ## code that leaves slot `f` alone -/

def actKeeps (f : Nat) : Act → Bool
  | .fresh g => g != f
  | .anyOf g _ => g != f
  | .allOf g _ => g != f
  | _ => true

def termKeeps (f : Nat) : Term → Bool
  | .yieldF g => g != f
  | _ => true

/-- the segment neither rebinds slot `f` nor parks its process on it -/
def segKeeps (f : Nat) (seg : Seg) : Bool := seg.acts.all (actKeeps f) && termKeeps f seg.term

theorem bindOk_of_keeps (c : Prop) (f : Nat) (a : Act) (h : c → actKeeps f a = true) :
    bindOk (fun g => c → g ≠ f) a := by
  cases a <;> simp only [bindOk] <;>
    first
    | trivial
    | (intro hc; have := h hc; simpa [actKeeps] using this)

/-! ## one segment of another process -/

theorem segTerm_track (c : Prop) (B : Nat → Nat) (now f pid r0 : Nat) (e1 : Eff) (pid0 : Nat) (p1 : Proc)
    (rest : List Seg) (t : Term) (h : PA c B now f pid r0 e1) (hne : pid0 ≠ pid)
    (hk : c → ∀ g, t = .yieldF g → g ≠ f) : PT c now f pid r0 (segTerm now e1 pid0 p1 rest t) := by
  cases t with
  | yieldD d =>
    simp only [segTerm]
    have h2 := h.setProc pid0 { p1 with segs := rest } hne
    exact ⟨h2.2.1.push _ 0 true (by intro hh; exfalso; apply hne; simpa [contSpec] using hh),
      fun hc => (h2.2.2 hc).push _ 0 true⟩
  | yieldF g =>
    simp only [segTerm]
    have h2 := h.setProc pid0 { p1 with segs := rest } hne
    generalize he2 : e1.setProc pid0 { p1 with segs := rest } = e2 at h2
    have ht3 : Trk now f pid r0 (e2.setFut g { futGet e2.ps.futs g with parked := some pid0 }) :=
      h2.2.1.setFut g _ (by intro hh; exfalso; apply hne; simpa using hh)
    have hl3 : c → Link f pid (e2.setFut g { futGet e2.ps.futs g with parked := some pid0 }) :=
      fun hc => (h2.2.2 hc).setFut_ne g _ (hk hc g rfl)
    split
    · refine ⟨ht3.resumeParked g, fun hc => Link.resumeParked_ne (hl3 hc) g (hk hc g rfl) ?_⟩
      rw [setFut_futs, futGet_futSet_same]
      intro hh; apply hne; simpa using hh
    · exact ⟨ht3, hl3⟩
  | ret =>
    simp only [segTerm]
    -- (`clearLate` only rewrites the table of hooks added in flight: an instance of `aux`)
    have h2a : PA c B now f pid r0 ((e1.setProc pid0 { p1 with segs := [], done := true, hooks := [] }).clearLate pid0) :=
      (PA_sclosed c B now f pid r0).aux _ _ _ _ _ _ _ (h.setProc pid0 { p1 with segs := [], done := true, hooks := [] } hne)
    have h2 := h2a.addObs (.finish now pid0) rfl
    have h3 := runHooks_s (PA_sclosed c B now f pid r0) (p1.hooks ++ lateOf e1.ps pid0) _ h2
    exact ⟨h3.2.1, h3.2.2⟩

/-- `ProcessContinuation.invoke` of a process other than `pid` -/
theorem runSegment_track (c : Prop) (B : Nat → Nat) (now f pid r0 : Nat) (e : Eff) (pid0 tag : Nat)
    (h : PA c B now f pid r0 e) (hne : pid0 ≠ pid)
    (hk : c → ∀ p seg rest, e.ps.procs[pid0]? = some p → p.segs = seg :: rest → segKeeps f seg = true) :
    PT c now f pid r0 (runSegment now e pid0 tag) := by
  cases hp : e.ps.procs[pid0]? with
  | none => rw [runSegment_noproc now e pid0 tag hp]; exact ⟨h.2.1, h.2.2⟩
  | some p =>
    cases hs : p.segs with
    | nil => rw [finished_never_runs now e pid0 tag p hp hs]; exact ⟨h.2.1, h.2.2⟩
    | cons seg rest =>
      rw [runSegment_eq now e pid0 tag p seg rest hp hs]
      unfold segBody
      have h0 : PA c B now f pid r0 (segStart now e pid0 tag p) := by
        unfold segStart
        -- (`setCur` only writes the hop count the running handler reads: an instance of `aux`)
        refine (PA_sclosed c B now f pid r0).aux _ _ _ _ _ _ _ ?_
        apply PA.setProc _ _ _ hne
        split
        · exact h.addObs _ (by simp [isRes, hne])
        · exact h
      have hkeep : c → segKeeps f seg = true := fun hc => hk hc p seg rest hp hs
      have hacts : ∀ a ∈ seg.acts, bindOk (fun g => c → g ≠ f) a := by
        intro a ha
        apply bindOk_of_keeps
        intro hc
        have := hkeep hc
        simp only [segKeeps, Bool.and_eq_true, List.all_eq_true] at this
        exact this.1 a ha
      have h1 := acts_s (PA_sclosed c B now f pid r0) seg.acts _ hacts h0
      apply segTerm_track c B now f pid r0 _ pid0 _ rest seg.term h1 hne
      intro hc g ht
      have := hkeep hc
      simp only [segKeeps, Bool.and_eq_true] at this
      have h2 := this.2
      rw [ht] at h2
      simpa [termKeeps] using h2

/-! ## the whole handler invocation of a delivered event -/

/-- the segment that the delivery of `m` executes, if any -/
def stepSeg (ps : PS) (m : Ev) : Option Seg :=
  if m.data = 0 then
    match ps.defs.find? (fun d => d.ent == m.target && d.kind == m.kind) with
    | none => none
    | some d => d.segs.head?
  else
    match ps.procs[m.data - 1]? with
    | none => none
    | some p => p.segs.head?

/-- the code that the delivery of `m` runs neither rebinds slot `f` nor parks its process on it -/
def stepKeeps (f : Nat) (ps : PS) (m : Ev) : Bool :=
  match stepSeg ps m with
  | none => true
  | some seg => segKeeps f seg

/-- in a reachable state in which `pid` is parked on `f`, the handler invocation of any pending event
    `m`, run at any clock value `now`, keeps `Trk` (every handler table) and `Link` (if the code leaves
    slot `f` alone) -/
theorem procEff_track (c : Prop) (s : St PS) (inv : ProcInv s) (f pid : Nat)
    (hpk : (futGet s.ent.futs f).parked = some pid) (m : Ev) (hm : m ∈ s.heap) (now : Nat)
    (hk : c → stepKeeps f s.ent m = true) :
    PT c now f pid (resCount s.ent.obs pid) (procEff s.ent now m) := by
  have hB0 := Bnd_init s inv
  have hpl : pid < s.ent.procs.length := (inv.parkOk f pid hpk).2
  have hmd : m.data ≠ pid + 1 := inv.park_excludes_continuation f pid hpk m hm
  have h0 : PA c (cntPark s.ent.futs) now f pid (resCount s.ent.obs pid) ({ ps := s.ent } : Eff) :=
    ⟨hB0, ⟨fun g hg => inv.park_unique g f pid hg hpk, by intro sp hsp; simp at hsp, rfl⟩,
      fun _ => Or.inl hpk⟩
  unfold procEff
  simp only []
  by_cases hd : m.data = 0
  · simp only [hd, if_true]
    cases hfind : s.ent.defs.find? (fun d => d.ent == m.target && d.kind == m.kind) with
    | none =>
      simp only []
      have h1 := runHooks_s (PA_sclosed c (cntPark s.ent.futs) now f pid (resCount s.ent.obs pid))
        ((s.ent.hookOf.filter (fun p => p.1 == m.id)).map (·.2)) _
        (h0.addObs (.skip now m.target m.kind m.tag) rfl)
      exact ⟨h1.2.1, h1.2.2⟩
    | some d =>
      simp only []
      have h1 := h0.addObs (.start now m.target m.kind m.tag) rfl
      have h2 : PA c (cntPark s.ent.futs) now f pid (resCount s.ent.obs pid)
          (spawn (addObs { ps := s.ent } (.start now m.target m.kind m.tag)) (newProc s.ent m d)) := by
        refine ⟨⟨⟨?_, ?_, h1.1.1.held⟩, h1.1.2⟩, ⟨h1.2.1.onlyF, h1.2.1.contNow, h1.2.1.obsSame⟩,
          fun _ => Or.inl hpk⟩
        · intro g q hg
          have := h1.1.1.park g q hg
          simp only [spawn_procs, addObs_procs, List.length_append, List.length_singleton] at this ⊢
          exact ⟨this.1, by omega⟩
        · intro sp hsp
          simp at hsp
      apply runSegment_track c _ now f pid _ _ s.ent.procs.length 0 h2 (by omega)
      intro hc p seg rest hp hs
      have hp' : p = newProc s.ent m d := by
        have : (s.ent.procs ++ [newProc s.ent m d])[s.ent.procs.length]? = some p := hp
        simpa using this.symm
      have hsd : d.segs = seg :: rest := by rw [hp'] at hs; exact hs
      have := hk hc
      simpa [stepKeeps, stepSeg, hd, hfind, hsd] using this
  · simp only [hd, if_false]
    apply runSegment_track c _ now f pid _ _ (m.data - 1) m.tag h0 (by omega)
    intro hc p seg rest hp hs
    have hp' : s.ent.procs[m.data - 1]? = some p := hp
    have := hk hc
    simpa [stepKeeps, stepSeg, hd, hp', hs] using this

end HappyModel.C09.WaitSilent
