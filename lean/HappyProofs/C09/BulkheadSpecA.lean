import HappyModel.C09.ExtraDriver
import HappyProofs.C09.BulkheadInv
import HappyProofs.C09.ExtraProps
/-!
# Bulkhead: the model's own transcript, as a pure function

`Extra.runBulkhead` does not consume `Bulkhead.Op`s directly.  It consumes a *schedule* of engine-level
deliveries (`req t rid`, `start t rid`, `done t rid`, `resp t rid`, `tmo t rid`, `fin t`: what
`hv/props/c09_extra.py` strips out of an implementation transcript), keeps an engine layer `Extra.BPend`
next to the model state, translates `req`/`resp`/`tmo` into `Bulkhead.step` on `.request`/`.response`/`.timeout`
(looking the bulkhead's own request id up in `_in_flight` resp. in its pending-timeout list), and prints one
line per schedule entry with the public counters of the model's post-state.

`Cmd` is one schedule line, `dstep` one iteration of `runBulkhead.go` with the printed line already read back
through `Extra.parseBObs` (so a `!unexpected` line is an observation without result and with all counters 0),
`obsTrace` the whole transcript.  A `#guard` at the end of `BulkheadSpec.lean` compares it with
`parseBObs ∘ runBulkhead` on a concrete schedule.
-/
namespace HappyModel.C09.Bulkhead
open HappyModel.C09.Extra (BPend)

/-- one line of the schedule the driver is fed -/
inductive Cmd
  | req (t rid : Nat) | start (t rid : Nat) | done (t rid : Nat) | resp (t rid : Nat) | tmo (t rid : Nat) | fin (t : Nat)
deriving Repr, DecidableEq

/-- `Extra.bcnt`, read back by `parseBObs` -/
def cnt (s : St) (o : Obs) : Obs :=
  { o with a := s.active, q := s.queue.length, p := permits s, sT := s.total, sA := s.accepted, sR := s.rejected,
           sX := s.timedOut, sQ := s.queued, pc := s.peakConc, pq := s.peakQueue }

/-- a `… !unexpected` / `… !unknown` line as `parseBObs` reads it: kind and time only -/
def bang (t : Nat) (k : Kind) : Obs := { t := t, k := k }

def reqStep (wait : Nat) (s : St) (p : BPend) (t rid : Nat) : (St × BPend) × Obs :=
  let r := step s (.request rid t)
  match r.2 with
  | .admitted _ =>
    ((r.1, { p with starts := p.starts ++ [(rid, t)] }), cnt r.1 { t := t, k := .req rid, res := .admitted, fwd := [rid] })
  | .queued bid =>
    ((r.1, if wait = 0 then p else { p with tmos := p.tmos ++ [(rid, bid, t + wait)] }),
     cnt r.1 { t := t, k := .req rid, res := .queued })
  | _ => ((r.1, p), cnt r.1 { t := t, k := .req rid, res := .rejected })

def respStep (s : St) (p : BPend) (t rid : Nat) : (St × BPend) × Obs :=
  match p.dones.contains (rid, t), s.inflight.find? (·.2 == rid) with
  | true, some e =>
    let r := step s (.response e.1 t)
    let p1 := { p with dones := p.dones.filter (· != (rid, t)) }
    match r.2 with
    | .completed (some f) =>
      ((r.1, { p1 with starts := p1.starts ++ [(f.1, t)] }), cnt r.1 { t := t, k := .resp rid, fwd := [f.1] })
    | .completed none => ((r.1, p1), cnt r.1 { t := t, k := .resp rid })
    | _ => ((r.1, p1), bang t (.resp rid))
  | _, _ => ((s, p), bang t (.resp rid))

def tmoStep (s : St) (p : BPend) (t rid : Nat) : (St × BPend) × Obs :=
  match p.tmos.find? (fun e => e.1 == rid && e.2.2 == t) with
  | some e =>
    let r := step s (.timeout e.2.1 t)
    ((r.1, { p with tmos := p.tmos.filter (·.1 != rid) }),
     cnt r.1 { t := t, k := .tmo rid, res := if r.2 == .timedOut then .timedOut else .noop })
  | none => ((s, p), bang t (.tmo rid))

/-- one iteration of `Extra.runBulkhead.go`: the next model state and engine layer, and the printed line as
    `Extra.parseBObs` reads it -/
def dstep (wait : Nat) (s : St) (p : BPend) : Cmd → (St × BPend) × Obs
  | .req t rid => reqStep wait s p t rid
  | .start t rid =>
    if p.starts.contains (rid, t) then
      ((s, { p with starts := p.starts.filter (· != (rid, t)), running := p.running ++ [rid] }), cnt s { t := t, k := .start rid })
    else ((s, p), bang t (.start rid))
  | .done t rid =>
    if p.running.contains rid then
      ((s, { p with running := p.running.filter (· != rid), dones := p.dones ++ [(rid, t)] }), cnt s { t := t, k := .done rid })
    else ((s, p), bang t (.done rid))
  | .resp t rid => respStep s p t rid
  | .tmo t rid => tmoStep s p t rid
  | .fin t => ((s, p), cnt s { t := t, k := .fin, lostFwd := p.starts.map (·.1), unresp := p.dones.map (·.1) })

/-- what the model reports for one schedule line -/
def obsOf (wait : Nat) (s : St) (p : BPend) (c : Cmd) : Obs := (dstep wait s p c).2

/-- the model's own transcript: what `runBulkhead` prints on the schedule, read back by `parseBObs` -/
def obsTrace (wait : Nat) (s : St) (p : BPend) : List Cmd → List Obs
  | [] => []
  | c :: cs => obsOf wait s p c :: obsTrace wait (dstep wait s p c).1.1 (dstep wait s p c).1.2 cs

/-- the driver does not answer this line with `!unexpected`, and a `fin` comes only when the run is quiescent:
    nothing forwarded is still on its way to the target, no response is still on its way back, and with a wait
    limit nobody is left waiting -/
def expected (s : St) (p : BPend) : Cmd → Bool
  | .req _ _ => true
  | .start t rid => p.starts.contains (rid, t)
  | .done _ rid => p.running.contains rid
  | .resp t rid => p.dones.contains (rid, t) && (s.inflight.find? (·.2 == rid)).isSome
  | .tmo t rid => (p.tmos.find? (fun e => e.1 == rid && e.2.2 == t)).isSome
  | .fin _ => p.starts.isEmpty && p.dones.isEmpty && (s.wait == 0 || s.queue.isEmpty)

/-- every line of the schedule is `expected` in the state the driver is in when it reads it -/
def accepted (wait : Nat) (s : St) (p : BPend) : List Cmd → Bool
  | [] => true
  | c :: cs => expected s p c && accepted wait (dstep wait s p c).1.1 (dstep wait s p c).1.2 cs

/-- the caller tags of the requests of a schedule -/
def reqTags : List Cmd → List Nat
  | [] => []
  | .req _ rid :: cs => rid :: reqTags cs
  | _ :: cs => reqTags cs

/-- the model ops the driver performs for a schedule (the link to `Bulkhead.run`) -/
def opOf (s : St) (p : BPend) : Cmd → Option Op
  | .req t rid => some (.request rid t)
  | .resp t rid =>
    match p.dones.contains (rid, t), s.inflight.find? (·.2 == rid) with
    | true, some e => some (.response e.1 t)
    | _, _ => none
  | .tmo t rid => (p.tmos.find? (fun e => e.1 == rid && e.2.2 == t)).map (fun e => .timeout e.2.1 t)
  | _ => none

/-! ### list helpers -/

theorem eq_of_map_nodup {α β : Type} (f : α → β) : ∀ (l : List α), (l.map f).Nodup → ∀ x ∈ l, ∀ y ∈ l, f x = f y → x = y
  | [], _, _, hx, _, _, _ => by cases hx
  | a :: l, h, x, hx, y, hy, hxy => by
    rw [List.map_cons, List.nodup_cons] at h
    rcases List.mem_cons.mp hx with rfl | hx' <;> rcases List.mem_cons.mp hy with rfl | hy'
    · rfl
    · exact absurd (hxy ▸ List.mem_map_of_mem hy') h.1
    · exact absurd (hxy ▸ List.mem_map_of_mem hx') h.1
    · exact eq_of_map_nodup f l h.2 x hx' y hy' hxy

/-- with pairwise distinct tags, looking a (tag, time) pair up by its tag finds that pair, and removing by tag
    removes exactly that pair -/
theorem tag_lookup (l : List (Nat × Nat)) (rid t : Nat) (hnd : (l.map (·.1)).Nodup) (hm : (rid, t) ∈ l) :
    l.find? (·.1 == rid) = some (rid, t) ∧ l.filter (· != (rid, t)) = l.filter (·.1 != rid) := by
  have key : ∀ x ∈ l, x.1 = rid → x = (rid, t) := fun x hx h => eq_of_map_nodup (·.1) l hnd x hx (rid, t) hm h
  constructor
  · cases hf : l.find? (·.1 == rid) with
    | none =>
      rw [List.find?_eq_none] at hf
      exact absurd (by simp) (hf _ hm)
    | some e =>
      have h1 := List.find?_some hf
      have h2 := List.mem_of_find?_eq_some hf
      rw [key e h2 (by simpa using h1)]
  · apply List.filter_congr
    intro x hx
    by_cases h : x.1 = rid
    · have := key x hx h; subst this; simp
    · have : x ≠ (rid, t) := fun he => h (by rw [he])
      have h1 : (x != (rid, t)) = true := by simpa using this
      have h2 : (x.1 != rid) = true := by simpa using h
      rw [h1, h2]

theorem filter_ne_length_nodup {α : Type} [BEq α] [LawfulBEq α] (l : List α) (x : α) (hnd : l.Nodup) (hm : x ∈ l) :
    (l.filter (· != x)).length + 1 = l.length := by
  induction l with
  | nil => cases hm
  | cons a l ih =>
    rw [List.nodup_cons] at hnd
    by_cases ha : a = x
    · subst ha
      have : l.filter (· != a) = l := by
        rw [List.filter_eq_self]; intro y hy
        have : y ≠ a := fun h => hnd.1 (h ▸ hy)
        simp [this]
      simp [this]
    · have hm' : x ∈ l := by
        rcases List.mem_cons.mp hm with h | h
        · exact absurd h.symm ha
        · exact h
      have := ih hnd.2 hm'
      simp [ha]; omega

theorem skipped_expired (w t : Nat) : ∀ (q : List Entry), ∀ e ∈ skipped w t q, isExpired w t e = true
  | [], _, h => by cases h
  | a :: q, e, h => by
    simp only [skipped] at h
    split at h
    · rename_i ha
      rcases List.mem_cons.mp h with rfl | h'
      · exact ha
      · exact skipped_expired w t q e h'
    · cases h

end HappyModel.C09.Bulkhead
