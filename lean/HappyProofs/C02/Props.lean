import HappyModel.C01.Process
import HappyProofs.C01.Props
import HappyProofs.C02.Init
import HappyProofs.C02.Resume
import HappyProofs.C02.AllOf
import HappyProofs.C02.NestedAll
import HappyProofs.C02.Finish
import HappyProofs.C02.HooksRun
import HappyProofs.C02.Late
import HappyProofs.C02.JudgeWait
import HappyProofs.C02.JudgeHooks
import HappyProofs.C02.JudgeTrace
import HappyProofs.C02.JudgeFuture
import HappyProofs.C02.JudgeFutureV
import HappyProofs.C02.JudgeFull
/-!
# C02 — property theorems (process layer)

"A handler that returns a generator is advanced step by step: after yielding a delay d it resumes
exactly d seconds of simulated time later, events yielded alongside a delay are scheduled at the
moment of the yield, and the events it returns and its completion hooks take effect exactly once,
at the instant it finishes. A process that yields a future is resumed exactly once, at the instant
the future is resolved (at once if it already was), receiving the resolved value, and resolving
twice has no further effect. any_of resumes with the (index, value) of the first input to resolve and
all_of with every value in argument order once the last input resolves."

The process layer is one `Machine` (`procMachine`) of the engine of C01, so every C01 theorem
(delivery at exactly the event's timestamp, once, in order) applies to continuation events; the
statements below say which continuation events the process layer creates.
-/
namespace HappyModel.C01
set_option linter.unusedVariables false

/-- resolving an already-resolved future has no effect at all -/
theorem resolve_idempotent (fuel : Nat) (e : Eff) (now f : Nat) (v : Val)
    (h : (futGet e.ps.futs f).resolved = true) : resolveFut fuel e now f v = e := by
  cases fuel with
  | zero => rfl
  | succ n => simp [resolveFut, h]

/-- a finished (or unknown) process is never advanced again -/
theorem finished_never_runs (now : Nat) (e : Eff) (pid tag : Nat) (p : Proc)
    (hp : e.ps.procs[pid]? = some p) (hs : p.segs = []) : runSegment now e pid tag = e := by
  simp [runSegment, hp, hs]

/-- `yield d`: the step that executes the yield schedules the continuation of this very process at
    exactly `now + d`, after the side-effect events created in the segment (it is the last spec) -/
theorem yield_delay_schedules (now : Nat) (e : Eff) (pid tag : Nat) (p : Proc) (acts : List Act) (d : Nat)
    (rest : List Seg) (hp : e.ps.procs[pid]? = some p) (hs : p.segs = ⟨acts, .yieldD d⟩ :: rest) :
    ∃ sp, (runSegment now e pid tag).specs.getLast? = some sp ∧
      sp.time = now + d ∧ sp.data = pid + 1 ∧ sp.target = p.ent ∧ sp.kind = p.kind ∧ sp.daemon = p.daemon := by
  simp only [runSegment, hp, hs]
  simp [Eff.push, contSpec]

/-- return: in the step in which the generator finishes, the process is marked done, its (shared,
    one-shot) hook list is emptied and it has no remaining segment, so no later step can run its
    hooks or its return again (`finished_never_runs`) -/
theorem ret_finishes (now : Nat) (e : Eff) (pid tag : Nat) (p : Proc) (rest : List Seg)
    (hp : e.ps.procs[pid]? = some p) (hs : p.segs = ⟨[], .ret⟩ :: rest) :
    ∃ q, (runSegment now e pid tag).ps.procs[pid]? = some q ∧ q.done = true ∧ q.hooks = [] ∧ q.segs = [] := by
  have hlen : pid < e.ps.procs.length := by
    rcases Nat.lt_or_ge pid e.ps.procs.length with h | h
    · exact h
    · rw [List.getElem?_eq_none h] at hp; simp at hp
  simp only [runSegment, hp, hs, List.foldl_nil]
  have hh : ∀ (hooks : List Nat) (x : Eff), (runHooks now x hooks).ps.procs = x.ps.procs := by
    intro hooks
    induction hooks with
    | nil => intro x; rfl
    | cons h t ih =>
      intro x
      simp only [runHooks, List.foldl_cons] at ih ⊢
      rw [ih]
      simp [addObs, Eff.push]
  rw [hh]
  by_cases hst : p.started = true <;> simp [hst, addObs, hlen]

/-! ## run-level theorems

A *pending resumption* of process `pid` is a continuation event in the heap (`data = pid + 1`) or a
future with `parked = some pid`.  The hypotheses on the initial state are `InitOk` (only plain events
pending, no process yet, nobody parked); `Program.initState` satisfies it for every program whose
pre-run schedule consists of plain events (`initState_ok`; `parseProgram` only produces such).

The model does not reject a second process parking on a future that already has one (the code
raises `RuntimeError`), nor rebinding a slot; in those cases the displaced process has *no* pending
resumption.  The invariant therefore says "at most one", which is the part of "resumed exactly once"
that can fail silently; "at least one at the resolve instant" is `future_resume_once`. -/

/-- a small program that parks a process on future 0 (t = 1), resolves it with 7 from another
    handler (t = 2), and lets the process finish with completion hook 4 -/
def demoProg : Program :=
  { defs := [⟨0, 1, true, [⟨[], .yieldF 0⟩, ⟨[], .ret⟩]⟩, ⟨0, 2, false, [⟨[.resolve 0 7], .ret⟩]⟩],
    pre := [(⟨1, 0, 1, false, 0, 1⟩, 4, false), (⟨2, 0, 2, false, 0, 2⟩, 0, false)] }

/-- **at most one pending resumption per process, along every run**: for every handler table, every
    initial state satisfying `InitOk`, every end time and every number of loop iterations, `ProcInv`
    holds: each process has at most one pending resumption (continuation event or park), parks are on
    unresolved futures only, continuation events and parks refer to existing processes, and a
    finished process has neither a continuation nor a park nor code left -/
theorem one_pending_continuation (endT : Option Nat) (n : Nat) (s0 : St PS) (h0 : InitOk s0) :
    ProcInv (run procMachine endT n s0) :=
  run_procInv endT n s0 h0.procInv

/-- the same from the initial state of any program with a plain pre-run schedule -/
theorem one_pending_continuation_program (p : Program) (gateCont : Bool) (hp : p.Plain) (endT : Option Nat)
    (n : Nat) : ProcInv (run procMachine endT n (p.initState gateCont)) :=
  one_pending_continuation endT n _ (initState_ok p gateCont hp)

/-- the invariant is inductive from any state, whichever pending event the loop pops -/
theorem pending_invariant_step (s : St PS) (m : Ev) (inv : ProcInv s) (hm : m ∈ s.heap) :
    ProcInv (stepWith procMachine s m) := step_procInv s m inv hm

-- non-vacuity: the demo program is plain; after one iteration process 0 is parked on future 0,
-- after two its continuation (and nothing else of it) is pending at the resolve instant t = 2,
-- after three both processes are finished
example : demoProg.Plain := by unfold Program.Plain; decide
example : (futGet (run procMachine none 1 (demoProg.initState false)).ent.futs 0).parked = some 0 := by decide
example : (run procMachine none 2 (demoProg.initState false)).heap.map (fun e => (e.time, e.data)) = [(2, 1)] := by
  decide
example : (run procMachine none 3 (demoProg.initState false)).ent.procs.map (·.done) = [true, true] := by decide

/-- inside any handler invocation started in a reachable state — after the segment prologue and any
    prefix of its actions — the effect is well formed and every process has at most one pending
    resumption (continuation specs created so far + parks) -/
theorem handler_effect_ok (s : St PS) (inv : ProcInv s) (now pid tag : Nat) (p : Proc) (acts : List Act) :
    WF (acts.foldl (runAct now) (segStart now { ps := s.ent } pid tag p)) ∧
    ∀ q, cnt (acts.foldl (runAct now) (segStart now { ps := s.ent } pid tag p)) q ≤ 1 := by
  have h0 : Bnd (cntPark s.ent.futs) (segStart now { ps := s.ent } pid tag p) := by
    unfold segStart
    apply Bnd_setCur
    apply Bnd_setProc
    split
    · exact Bnd_addObs _ _ _ (Bnd_init s inv)
    · exact Bnd_init s inv
  have h1 := acts_closed (Bnd_closed _) now acts _ h0
  refine ⟨h1.1, fun q => Nat.le_trans (h1.2 q) ?_⟩
  have := inv.atMostOne q
  omega

/-- **a parked process is resumed exactly once, at the instant of the resolve, with the value.**
    In a well-formed effect in which `pid` has at most one pending resumption (`handler_effect_ok`:
    every effect reached along a run), `resolve(f, v)` on an unresolved future on which `pid` is
    parked creates exactly one continuation of `pid` in that call — `contSpec p pid now`, i.e. at the
    current clock with the process's own target/kind/daemon — and none before or after it in the
    cascade (`cntSpec … = 0`); `f` ends up resolved with `v` and un-parked, the process record holds
    `v` as the value to send; `pid` still has at most one pending resumption; and a later `resolve`
    of `f` (any value, any time) changes nothing (no second continuation). -/
theorem future_resume_once (fuel : Nat) (e : Eff) (now f pid : Nat) (v : Val) (p : Proc)
    (hw : WF e) (hone : cnt e pid ≤ 1)
    (hr : (futGet e.ps.futs f).resolved = false) (hpk : (futGet e.ps.futs f).parked = some pid)
    (hp : e.ps.procs[pid]? = some p) :
    (∃ more, (resolveFut (fuel + 1) e now f v).specs = e.specs ++ contSpec p pid now :: more ∧
      cntSpec e.specs pid = 0 ∧ cntSpec more pid = 0) ∧
    (contSpec p pid now).time = now ∧ (contSpec p pid now).data = pid + 1 ∧
    (futGet (resolveFut (fuel + 1) e now f v).ps.futs f).resolved = true ∧
    (futGet (resolveFut (fuel + 1) e now f v).ps.futs f).value = v ∧
    (futGet (resolveFut (fuel + 1) e now f v).ps.futs f).parked = none ∧
    (∃ q, (resolveFut (fuel + 1) e now f v).ps.procs[pid]? = some q ∧ q.send = v) ∧
    cnt (resolveFut (fuel + 1) e now f v) pid ≤ 1 ∧
    (∀ fuel' now' v', resolveFut fuel' (resolveFut (fuel + 1) e now f v) now' f v'
        = resolveFut (fuel + 1) e now f v) := by
  obtain ⟨more, h1, h2, h3, h4, h5, h6, h7, h8, h9⟩ := resolve_resumes_parked fuel e now f pid v p hw hone hr hpk hp
  exact ⟨⟨more, h1, h2, h3⟩, rfl, rfl, h4, h5, h6, h7, h9,
    fun fuel' now' v' => resolve_twice_noop fuel fuel' e now now' f v v' hr⟩

-- non-vacuity: in the reachable state after one iteration of the demo program (process 0 parked on
-- the unresolved future 0) all hypotheses hold for the effect a handler starts with
example :
    let s := run procMachine none 1 (demoProg.initState false)
    (WF ({ ps := s.ent } : Eff) ∧ cnt ({ ps := s.ent } : Eff) 0 ≤ 1) ∧
    (futGet s.ent.futs 0).resolved = false ∧ (futGet s.ent.futs 0).parked = some 0 ∧
    (s.ent.procs[0]?).isSome = true := by
  refine ⟨?_, by decide, by decide, by decide⟩
  have inv := one_pending_continuation_program demoProg false (by unfold Program.Plain; decide) none 1
  have h := Bnd_init _ inv
  refine ⟨h.1, Nat.le_trans (h.2 0) ?_⟩
  have := inv.atMostOne 0
  omega

/-- **parking on an already-resolved future resumes at once**: a segment ending in `yield f`, where
    `f` is resolved when the yield is reached, creates as its last spec exactly one continuation of
    the process at the current clock, leaves nobody parked on `f`, and stores `f`'s value as the value
    to send (the remaining segments are the rest of the script) -/
theorem park_on_resolved_resumes_at_once (now : Nat) (e : Eff) (pid tag : Nat) (p : Proc) (acts : List Act)
    (f : Nat) (rest : List Seg) (hp : e.ps.procs[pid]? = some p) (hs : p.segs = ⟨acts, .yieldF f⟩ :: rest)
    (hres : (futGet (acts.foldl (runAct now) (segStart now e pid tag p)).ps.futs f).resolved = true) :
    (runSegment now e pid tag).specs
        = (acts.foldl (runAct now) (segStart now e pid tag p)).specs ++ [contSpec p pid now] ∧
    (contSpec p pid now).time = now ∧ (contSpec p pid now).data = pid + 1 ∧
    (futGet (runSegment now e pid tag).ps.futs f).parked = none ∧
    ∃ q, (runSegment now e pid tag).ps.procs[pid]? = some q ∧
      q.send = (futGet (acts.foldl (runAct now) (segStart now e pid tag p)).ps.futs f).value ∧ q.segs = rest := by
  have := park_on_resolved_resumes_at_once' now e pid tag p acts f rest hp hs hres
  exact ⟨this.1, rfl, rfl, this.2.1, this.2.2⟩

/-- **parking on an unresolved future waits**: the segment creates no continuation for the process; it is
    recorded as parked on `f` (and is resumed by the `resolve` of `f`: `future_resume_once`) -/
theorem park_on_unresolved_waits (now : Nat) (e : Eff) (pid tag : Nat) (p : Proc) (acts : List Act)
    (f : Nat) (rest : List Seg) (hp : e.ps.procs[pid]? = some p) (hs : p.segs = ⟨acts, .yieldF f⟩ :: rest)
    (hres : (futGet (acts.foldl (runAct now) (segStart now e pid tag p)).ps.futs f).resolved = false) :
    (runSegment now e pid tag).specs = (acts.foldl (runAct now) (segStart now e pid tag p)).specs ∧
    (futGet (runSegment now e pid tag).ps.futs f).parked = some pid ∧
    (futGet (runSegment now e pid tag).ps.futs f).resolved = false :=
  park_on_unresolved_waits' now e pid tag p acts f rest hp hs hres

-- non-vacuity: a process whose next segment resolves future 0 itself and then yields it
example :
    let p : Proc := { ent := 0, kind := 1, daemon := false, segs := [⟨[.resolve 0 7], .yieldF 0⟩, ⟨[], .ret⟩], hooks := [] }
    let e : Eff := { ps := { defs := [], nid := 0, procs := [p] } }
    (futGet (([Act.resolve 0 7]).foldl (runAct 5) (segStart 5 e 0 0 p)).ps.futs 0).resolved = true ∧
    (runSegment 5 e 0 0).specs.map (fun s => (s.time, s.data)) = [(5, 1)] := by decide

/-! ## any_of / all_of (one level: inputs are plain futures)

`AnyShape e f gs` / `AllShape e f gs` (in `HappyProofs/C02/Combinators.lean`) describe the future
table while the composite `f` over the pairwise distinct plain futures `gs` is still unresolved:
each unresolved input holds exactly the callback of `f` for its position; for `all_of`, `remaining`
is the number of unresolved inputs and every settled input has its value in its slot. -/

/-- `f := any_of(gs…)` over pairwise distinct, unresolved, callback-free futures establishes the shape -/
theorem anyof_construct (now : Nat) (e : Eff) (f : Nat) (gs : List Nat) (hnd : gs.Nodup) (hf : f ∉ gs)
    (hgs : ∀ g ∈ gs, (futGet e.ps.futs g).resolved = false ∧ (futGet e.ps.futs g).cbs = []) :
    AnyShape (runAct now e (.anyOf f gs)) f gs := anyOf_shape now e f gs hnd hf hgs

/-- **any_of resumes with the (index, value) of the first input to resolve.**  While `f = any_of(gs)` is
    unresolved, resolving input `gs[i]` with `v` resolves `f` with `(i, v)` in the same call; no later
    resolution (of another input or of anything else, at any time, with any value) changes `f`; and a
    process parked on `f` gets its continuation in that call, at the current clock, with `(i, v)` as
    the value to send -/
theorem anyof_first (fuel : Nat) (e : Eff) (now f : Nat) (gs : List Nat) (i : Nat) (v : Val)
    (sh : AnyShape e f gs) (hi : i < gs.length) :
    (futGet (resolveFut (fuel + 2) e now gs[i] v).ps.futs f).resolved = true ∧
    (futGet (resolveFut (fuel + 2) e now gs[i] v).ps.futs f).value = .pair i v ∧
    (∀ fuel' now' g w,
      (futGet (resolveFut fuel' (resolveFut (fuel + 2) e now gs[i] v) now' g w).ps.futs f).resolved = true ∧
      (futGet (resolveFut fuel' (resolveFut (fuel + 2) e now gs[i] v) now' g w).ps.futs f).value = .pair i v) ∧
    (∀ pid p, (futGet e.ps.futs f).parked = some pid → e.ps.procs[pid]? = some p →
      ∃ c, (resolveFut (fuel + 2) e now gs[i] v).specs.getLast? = some c ∧ c.time = now ∧ c.data = pid + 1 ∧
        ∃ q, (resolveFut (fuel + 2) e now gs[i] v).ps.procs[pid]? = some q ∧ q.send = .pair i v) :=
  anyof_first_core fuel e now f gs i v sh hi

/-- three plain futures, then `2 := any_of(0, 1)` / `2 := all_of(0, 1)`, process 0 parked on future 2 -/
def demoEff (a : Act) : Eff :=
  let p : Proc := { ent := 0, kind := 1, daemon := false, segs := [⟨[], .ret⟩], hooks := [] }
  let e : Eff := { ps := { defs := [], nid := 0, procs := [p], futs := [{}, {}, {}] } }
  let e1 := runAct 0 e a
  e1.setFut 2 { futGet e1.ps.futs 2 with parked := some 0 }

-- non-vacuity: the construction hypotheses hold, and resolving input 1 first with 9 at t = 5 resolves
-- the composite with (1, 9), resumes the waiter at t = 5, and a later resolve of input 0 changes nothing
example : [0, 1].Nodup ∧ 2 ∉ [0, 1] := by decide
example : ∀ g ∈ [0, 1], (futGet (demoEff (.fresh 3)).ps.futs g).resolved = false ∧
    (futGet (demoEff (.fresh 3)).ps.futs g).cbs.length = 0 := by decide
example :
    let r := resolveFut depthFuel (demoEff (.anyOf 2 [0, 1])) 5 1 (.n 9)
    (futGet r.ps.futs 2).resolved = true ∧ r.specs.map (fun c => (c.time, c.data)) = [(5, 1)] ∧
    (resolveFut depthFuel r 6 0 (.n 4)).specs.length = 1 := by decide
example : (futGet (resolveFut depthFuel (demoEff (.anyOf 2 [0, 1])) 5 1 (.n 9)).ps.futs 2).value
    = .pair 1 (.n 9) := rfl

/-- `f := all_of(gs…)` over pairwise distinct, unresolved, callback-free futures establishes the shape -/
theorem allof_construct (now : Nat) (e : Eff) (f : Nat) (gs : List Nat) (hnd : gs.Nodup) (hf : f ∉ gs)
    (hgs : ∀ g ∈ gs, (futGet e.ps.futs g).resolved = false ∧ (futGet e.ps.futs g).cbs = []) :
    AllShape (runAct now e (.allOf f gs)) f gs := allOf_shape now e f gs hnd hf hgs

/-- **all_of resolves exactly when its last input settles, with every value in argument order.**
    While `f = all_of(gs)` is unresolved (`AllShape`; `remaining` = number of unresolved inputs),
    resolving an unresolved input `gs[i]` with `v`:
    * if other inputs are still missing (`remaining ≠ 1`): `f` stays unresolved and the shape holds
      again with exactly one input fewer missing;
    * if it was the last one (`remaining = 1`): `f` is resolved in the same call with the list of the
      inputs' values in argument order, and every input is resolved. -/
theorem allof_all (fuel : Nat) (e : Eff) (now f : Nat) (gs : List Nat) (i : Nat) (v : Val)
    (sh : AllShape e f gs) (hi : i < gs.length) (hun : (futGet e.ps.futs gs[i]).resolved = false) :
    ((futGet e.ps.futs f).remaining ≠ 1 →
      AllShape (resolveFut (fuel + 2) e now gs[i] v) f gs ∧
      (futGet (resolveFut (fuel + 2) e now gs[i] v).ps.futs f).remaining + 1 = (futGet e.ps.futs f).remaining) ∧
    ((futGet e.ps.futs f).remaining = 1 →
      (futGet (resolveFut (fuel + 2) e now gs[i] v).ps.futs f).resolved = true ∧
      (futGet (resolveFut (fuel + 2) e now gs[i] v).ps.futs f).value
        = .list (gs.map (fun g => (futGet (resolveFut (fuel + 2) e now gs[i] v).ps.futs g).value)) ∧
      ∀ g ∈ gs, (futGet (resolveFut (fuel + 2) e now gs[i] v).ps.futs g).resolved = true) :=
  allof_step_core fuel e now f gs i v sh hi hun

-- non-vacuity: input 1 settles first (composite still unresolved, one missing), then input 0: the
-- composite resolves with [4, 9] — argument order, not resolution order — and the waiter resumes
example :
    let r1 := resolveFut depthFuel (demoEff (.allOf 2 [0, 1])) 5 1 (.n 9)
    let r2 := resolveFut depthFuel r1 6 0 (.n 4)
    (futGet (demoEff (.allOf 2 [0, 1])).ps.futs 2).remaining = 2 ∧
    (futGet r1.ps.futs 2).resolved = false ∧ (futGet r1.ps.futs 2).remaining = 1 ∧ r1.specs.length = 0 ∧
    (futGet r2.ps.futs 2).resolved = true ∧ r2.specs.map (fun c => (c.time, c.data)) = [(6, 1)] := by decide
example :
    (futGet (resolveFut depthFuel (resolveFut depthFuel (demoEff (.allOf 2 [0, 1])) 5 1 (.n 9)) 6 0 (.n 4)).ps.futs 2).value
    = .list [.n 4, .n 9] := rfl

/-! ### nested combinators

Inputs that are themselves composites settle inside a callback cascade, not by a direct `resolve`.
The callback graph is *ranked* (`RankOk rk`: every callback points to a composite of strictly smaller
rank — true of every combinator tree, since a composite is created after its inputs) and the fuel of
the call exceeds the rank of the resolved future (`depthFuel = 64` in the driver), so the cascade is
never cut short.  Futures may be shared: an input may carry callbacks into other composites too. -/

/-- **nested any_of.**  Each unresolved input `gs[i]` carries the callback `anyCb f i` and every
    callback into `f` is one of these.  Whenever one `resolve` call on `h ≠ f` takes `f = any_of(gs)`
    from "no input resolved" to "some input resolved", `f` is resolved after that call with `(i, v)` for
    an input `i` that is resolved with `v` -/
theorem anyof_first_nested (rk : Nat → Nat) (fuel : Nat) (e : Eff) (now f h : Nat) (gs : List Nat) (w : Val)
    (hrank : RankOk rk e) (hfuel : rk h < fuel) (hhf : h ≠ f) (hf : f ∉ gs)
    (hunf : (futGet e.ps.futs f).resolved = false)
    (hin : ∀ i (hi : i < gs.length), (futGet e.ps.futs gs[i]).resolved = false ∧
      Cb.anyCb f i ∈ (futGet e.ps.futs gs[i]).cbs ∧
      ∀ cb ∈ (futGet e.ps.futs gs[i]).cbs, cb.tgt = f → cb = .anyCb f i)
    (hoth : ∀ g, g ∉ gs → ∀ cb ∈ (futGet e.ps.futs g).cbs, cb.tgt ≠ f)
    (hsome : ∃ i, ∃ hi : i < gs.length, (futGet (resolveFut fuel e now h w).ps.futs gs[i]).resolved = true) :
    ∃ i, ∃ hi : i < gs.length, (futGet (resolveFut fuel e now h w).ps.futs gs[i]).resolved = true ∧
      (futGet (resolveFut fuel e now h w).ps.futs f).resolved = true ∧
      (futGet (resolveFut fuel e now h w).ps.futs f).value
        = .pair i (futGet (resolveFut fuel e now h w).ps.futs gs[i]).value :=
  anyof_nested_core rk fuel e now f h gs w hrank hfuel hhf hf hunf hin hoth hsome

/-- **nested all_of.**  Pairwise distinct inputs; each unresolved input carries exactly one callback
    into `f`, `allCb f i`; a settled input has its value in its slot; `remaining` = number of unresolved
    inputs ≥ 1.  After any `resolve` call on `h ≠ f`: `f` is resolved iff every input is, and then its
    value is the list of the inputs' values in argument order -/
theorem allof_all_nested (rk : Nat → Nat) (fuel : Nat) (e : Eff) (now f h : Nat) (gs : List Nat) (w : Val)
    (hrank : RankOk rk e) (hfuel : rk h < fuel) (hhf : h ≠ f) (hnd : gs.Nodup) (hf : f ∉ gs)
    (hunf : (futGet e.ps.futs f).resolved = false)
    (hlen : (futGet e.ps.futs f).results.length = gs.length)
    (hrem : (futGet e.ps.futs f).remaining = gs.countP (fun g => !(futGet e.ps.futs g).resolved))
    (hpos : 1 ≤ (futGet e.ps.futs f).remaining)
    (hin : ∀ i (hi : i < gs.length),
      ((futGet e.ps.futs gs[i]).resolved = true →
        (futGet e.ps.futs f).results[i]? = some (futGet e.ps.futs gs[i]).value) ∧
      ((futGet e.ps.futs gs[i]).resolved = false →
        (futGet e.ps.futs gs[i]).cbs.countP (fun cb => cb.tgt == f) = 1 ∧
        ∀ cb ∈ (futGet e.ps.futs gs[i]).cbs, cb.tgt = f → cb = .allCb f i))
    (hoth : ∀ g, g ∉ gs → ∀ cb ∈ (futGet e.ps.futs g).cbs, cb.tgt ≠ f) :
    ((futGet (resolveFut fuel e now h w).ps.futs f).resolved = true ↔
      ∀ g ∈ gs, (futGet (resolveFut fuel e now h w).ps.futs g).resolved = true) ∧
    ((futGet (resolveFut fuel e now h w).ps.futs f).resolved = true →
      (futGet (resolveFut fuel e now h w).ps.futs f).value
        = .list (gs.map (fun g => (futGet (resolveFut fuel e now h w).ps.futs g).value))) :=
  allof_nested_core rk fuel e now f h gs w hrank hfuel hhf hnd hf hunf hlen hrem hpos hin hoth

/-- plain futures 0 1 2; `3 := any_of(0, 1)`; `4 := all_of(3, 2)`; `5 := any_of(4, 0)` (future 0 is
    shared); ranks: leaves 3, future 3 ↦ 2, future 4 ↦ 1, future 5 ↦ 0 -/
def nestedEff : Eff :=
  [Act.anyOf 3 [0, 1], Act.allOf 4 [3, 2], Act.anyOf 5 [4, 0]].foldl (runAct 0)
    { ps := { defs := [], nid := 0, futs := [{}, {}, {}] } }
def nestedRk (g : Nat) : Nat := if g = 3 then 2 else if g = 4 then 1 else if g = 5 then 0 else 3

theorem forall_fut_of_bounded (e : Eff) (Q : Nat → List Cb → Prop) (hnil : ∀ g, Q g [])
    (h : ∀ g, g < e.ps.futs.length → Q g (futGet e.ps.futs g).cbs) : ∀ g, Q g (futGet e.ps.futs g).cbs := by
  intro g
  by_cases hg : g < e.ps.futs.length
  · exact h g hg
  · rw [futGet_default _ _ (by omega)]; exact hnil g

-- non-vacuity of the nested hypotheses (all_of 4 over the composite 3 and the leaf 2; any_of 5 over the
-- composite 4 and the shared leaf 0), and the conclusions on this instance: resolving leaf 1 settles 3
-- but not 4; resolving leaf 2 afterwards settles 4 with [(1, 9), 7] and thereby 5 with (0, [(1, 9), 7])
example : RankOk nestedRk nestedEff :=
  fun g cb => forall_fut_of_bounded nestedEff (fun g cbs => ∀ cb ∈ cbs, nestedRk cb.tgt < nestedRk g)
    (by simp) (by decide) g cb
example : (∀ g, g ∉ [3, 2] → ∀ cb ∈ (futGet nestedEff.ps.futs g).cbs, cb.tgt ≠ 4) :=
  fun g hg => forall_fut_of_bounded nestedEff (fun g cbs => g ∉ [3, 2] → ∀ cb ∈ cbs, cb.tgt ≠ 4)
    (by simp) (by decide) g hg
example : [3, 2].Nodup ∧ 4 ∉ [3, 2] ∧ (futGet nestedEff.ps.futs 4).resolved = false ∧
    (futGet nestedEff.ps.futs 4).results.length = 2 ∧ (futGet nestedEff.ps.futs 4).remaining = 2 ∧
    [3, 2].countP (fun g => !(futGet nestedEff.ps.futs g).resolved) = 2 ∧
    (∀ i (hi : i < [3, 2].length), (futGet nestedEff.ps.futs [3, 2][i]).resolved = false ∧
      (futGet nestedEff.ps.futs [3, 2][i]).cbs.countP (fun cb => cb.tgt == 4) = 1) := by decide
example :
    let r1 := resolveFut depthFuel nestedEff 5 1 (.n 9)
    let r2 := resolveFut depthFuel r1 6 2 (.n 7)
    (futGet r1.ps.futs 3).resolved = true ∧ (futGet r1.ps.futs 4).resolved = false ∧
    (futGet r1.ps.futs 5).resolved = false ∧
    (futGet r2.ps.futs 4).resolved = true ∧ (futGet r2.ps.futs 5).resolved = true := by decide
example :
    (futGet (resolveFut depthFuel (resolveFut depthFuel nestedEff 5 1 (.n 9)) 6 2 (.n 7)).ps.futs 5).value
      = .pair 0 (.list [.pair 1 (.n 9), .n 7]) := rfl

/-! ## finishing -/

/-- **a process finishes at most once**: along every run, the log holds at most one `finish` entry per
    process id — exactly one iff the process is marked done — and a finished process has no
    completion hooks and no code left, so neither its hooks nor its return can take effect again -/
theorem finish_once (endT : Option Nat) (n : Nat) (s0 : St PS) (h0 : InitOk s0)
    (hobs : ∀ q, finCount s0.ent.obs q = 0) (pid : Nat) :
    finCount (run procMachine endT n s0).ent.obs pid ≤ 1 ∧
    (finCount (run procMachine endT n s0).ent.obs pid = 1 ↔
      ∃ p, (run procMachine endT n s0).ent.procs[pid]? = some p ∧ p.done = true) ∧
    (∀ p, (run procMachine endT n s0).ent.procs[pid]? = some p → p.done = true → p.hooks = [] ∧ p.segs = []) := by
  have h := run_finInv endT n s0 (InitOk_finInv s0 h0.noProcs hobs)
  generalize run procMachine endT n s0 = s at h
  have h1 : finCount s.ent.obs pid = doneInd (s.ent.procs.map strip) pid := h.1 pid
  refine ⟨by rw [h1]; exact doneInd_le_one _ _, by rw [h1]; exact doneInd_strip_one _ _, ?_⟩
  intro p hp hd
  have := h.2 pid (strip p) (by simp [hp]) (by simpa [strip] using hd)
  simpa [strip] using this

/-- **the finishing step**: the segment that returns logs `finish` at the current instant and then runs
    each completion hook of the originating event exactly once, in order, at that same instant (one
    `hook` entry and one hook event per hook) — the hooks the event had when the process started and
    then those added to it while the process was in flight, up to and including this last segment;
    afterwards the hook list is empty (`finish_once`, `inflight_hooks_cleared`) -/
theorem finishing_step_runs_hooks_once (now : Nat) (e : Eff) (pid tag : Nat) (p : Proc) (acts : List Act)
    (rest : List Seg) (hp : e.ps.procs[pid]? = some p) (hs : p.segs = ⟨acts, .ret⟩ :: rest) :
    (runSegment now e pid tag).ps.obs
      = ((p.hooks ++ lateOf (acts.foldl (runAct now) (segStart now e pid tag p)).ps pid).map
            (fun h => Obs.hook now h)).reverse ++
          Obs.finish now pid :: (acts.foldl (runAct now) (segStart now e pid tag p)).ps.obs ∧
    (runSegment now e pid tag).specs.length
      = (acts.foldl (runAct now) (segStart now e pid tag p)).specs.length +
          (p.hooks ++ lateOf (acts.foldl (runAct now) (segStart now e pid tag p)).ps pid).length :=
  ret_runs_hooks_once now e pid tag p acts rest hp hs

-- non-vacuity: in the demo run, process 0 (completion hook 4) has finished once and its hook ran once
example :
    let s := run procMachine none 4 (demoProg.initState false)
    finCount s.ent.obs 0 = 1 ∧
    s.ent.obs.countP (fun o => match o with | .hook _ 4 => true | _ => false) = 1 := by decide
example : ∀ q, finCount (demoProg.initState false).ent.obs q = 0 := fun _ => rfl

/-- **completion hooks run at most once per attachment, along every run**: for every program, end time,
    number of iterations and hook value `h`, the log holds at most as many `hook _ h` entries as `h` was
    attached to events — before their delivery (`hookOf`) or while their process was in flight
    (`lateAtt`).  (Accounting: hook entries + hooks held by unfinished processes ≤ attachments
    whose event has been popped; by the engine invariant of C01 an event id is popped at most once.) -/
theorem hooks_at_most_once (p : Program) (gateCont : Bool) (endT : Option Nat) (n h : Nat) :
    hookRuns (run procMachine endT n (p.initState gateCont)).ent.obs h
      ≤ att (run procMachine endT n (p.initState gateCont)).ent.hookOf h
        + (run procMachine endT n (p.initState gateCont)).ent.lateAtt.count h :=
  hooks_le_attached endT n _ (initState_inv p gateCont) (initState_hookInv p gateCont) h

/-- the same from any state that satisfies the engine invariant and the hook accounting; both are
    preserved by every loop iteration (`step_preserves`, `step_hookInv`) -/
theorem hooks_at_most_once_from (endT : Option Nat) (n : Nat) (s : St PS) (inv : Inv s) (hk : HookInv s) (h : Nat) :
    hookRuns (run procMachine endT n s).ent.obs h
      ≤ att (run procMachine endT n s).ent.hookOf h + (run procMachine endT n s).ent.lateAtt.count h :=
  hooks_le_attached endT n s inv hk h

-- non-vacuity: in the demo run hook 4 is attached once and has run once
example :
    let s := run procMachine none 4 (demoProg.initState false)
    hookRuns s.ent.obs 4 = 1 ∧ att s.ent.hookOf 4 = 1 := by decide

/-! ### hooks added after creation, opaque values (statements in `HappyProofs/C02/Late.lean`) -/

/-- a process (event kind 1, delivered at t = 1) that registers completion hook 5 on its own
    triggering event while it is in flight, sleeps 10 ns and finishes; at t = 5 another handler
    (kind 2) adds hook 6 to the same event; a third event resolves future 0 with an exception
    instance on which a second process (kind 3) is parked -/
def demoLate : Program :=
  { defs := [⟨0, 1, true, [⟨[.addHook 1 5], .yieldD 10⟩, ⟨[], .ret⟩]⟩,
             ⟨0, 2, false, [⟨[.addHook 1 6, .resolve 0 (.atom 0 3)], .ret⟩]⟩,
             ⟨0, 3, true, [⟨[], .yieldF 0⟩, ⟨[], .ret⟩]⟩],
    pre := [(⟨1, 0, 1, false, 0, 1⟩, 0, false), (⟨2, 0, 3, false, 0, 2⟩, 0, false),
            (⟨5, 0, 2, false, 0, 3⟩, 0, false)] }

-- non-vacuity of `addHook_in_flight`: after the first delivery process 0 (event 0) is in flight
example :
    (run procMachine none 1 (demoLate.initState false)).ent.procs.findIdx? (fun p => p.ev == 0 && !p.done) = some 0 ∧
    lateOf (run procMachine none 1 (demoLate.initState false)).ent 0 = [5] := by decide
-- non-vacuity of `addHook_before_delivery`: before the run nothing is in flight
example : (demoLate.initState false).ent.procs.findIdx? (fun p => p.ev == 0 && !p.done) = none := by decide
-- `inflight_hook_runs_at_finish` / `inflight_hooks_cleared` / `hooks_at_most_once`: both hooks were
-- added in flight, each ran exactly once at the finish (t = 11), and the late list is empty
example :
    let s := run procMachine none 6 (demoLate.initState false)
    hookRuns s.ent.obs 5 = 1 ∧ hookRuns s.ent.obs 6 = 1 ∧ s.ent.lateAtt.count 5 = 1 ∧ s.ent.lateAtt.count 6 = 1 ∧
    att s.ent.hookOf 5 = 0 ∧ lateOf s.ent 0 = [] ∧
    s.ent.obs.any (fun o => match o with | .hook 11 6 => true | _ => false) = true := by decide
-- `resumed_value_logged`: the process parked on future 0 is resumed at t = 5 with the exception
-- instance as a plain value
example :
    (run procMachine none 6 (demoLate.initState false)).ent.obs.any
      (fun o => match o with | .resume 5 1 (.atom 0 3) _ => true | _ => false) = true := by decide

/-- future 0 is yielded directly by process 0 (kind 1) and is at the same time an input of the any_of
    (slot 2) process 1 (kind 2) waits on; kind 3 resolves it at t = 5.  A relay (kind 4, limit 2)
    forwards a packet whose hop count lives in the event metadata. -/
def demoShared : Program :=
  { defs := [⟨0, 1, true, [⟨[], .yieldF 0⟩, ⟨[], .ret⟩]⟩,
             ⟨0, 2, true, [⟨[.anyOf 2 [1, 0]], .yieldF 2⟩, ⟨[], .ret⟩]⟩,
             ⟨0, 3, false, [⟨[.resolve 0 9], .ret⟩]⟩,
             ⟨0, 4, false, [⟨[.relay 0 4 10 2 false], .ret⟩]⟩],
    pre := [(⟨1, 0, 1, false, 0, 1⟩, 0, false), (⟨2, 0, 2, false, 0, 2⟩, 0, false),
            (⟨5, 0, 3, false, 0, 3⟩, 0, false), (⟨6, 0, 4, false, 0, 4⟩, 0, false)] }

-- `resolve_wakes_then_notifies`: both the process parked on future 0 and the one waiting on the any_of are
-- resumed at t = 5, with `9` and `(1, 9)`
example :
    let s := run procMachine none 12 (demoShared.initState false)
    s.ent.obs.any (fun o => match o with | .resume 5 0 (.n 9) _ => true | _ => false) = true ∧
    s.ent.obs.any (fun o => match o with | .resume 5 1 (.pair 1 (.n 9)) _ => true | _ => false) = true := by decide
-- `relay_forwards` / `relay_stops`: the packet scheduled at t = 6 is delivered three times (hops 0, 1, 2)
example :
    ((run procMachine none 12 (demoShared.initState false)).log.filter (fun e => e.kind == 4)).map (·.time)
      = [6, 16, 26] := by decide

/-! ### the trace Spec on the model's own trace (statements in `HappyProofs/C02/JudgeDelay.lean`, `JudgeWait.lean`) -/

open HappyModel.C02.Spec (Line delayMonitor waitMonitor) in
-- non-vacuity of `delay_clauses_silent_on_model` / `wait_clause_silent_on_model`: the `R` / `y` / `w` lines of the
-- demo run — process 0 yields 10 ns at t = 1 (tag 4) and is resumed at t = 11 with that tag and `None`;
-- process 1 yields future 0 at t = 2 and is resumed by it at t = 5 — and both monitors accept them
example :
    (delayView none 6 (demoLate.initState false)).map
        (fun l => match l with
          | .ydelay tag pid t => ("y", tag, pid, t, "")
          | .wait pid f _ => ("w", pid, f, 0, "")
          | .resume clk pid val tag => ("R", clk, pid, tag, val)
          | _ => ("?", 0, 0, 0, ""))
      = [("y", 4, 0, 11, ""), ("w", 1, 0, 0, ""), ("R", 5, 1, 0, "a0.3"), ("R", 11, 0, 4, "none")] ∧
    delayMonitor (delayView none 6 (demoLate.initState false)) = none ∧
    waitMonitor (delayView none 6 (demoLate.initState false)) = none ∧
    demoLate.Plain := by
  refine ⟨by decide, by decide, by decide, ?_⟩
  unfold Program.Plain; decide

open HappyModel.C02.Spec (Line hookMonitor) in
-- non-vacuity of `hook_clauses_silent_on_model`: the hook lines of the demo run — process 0 (event 0, tag 1) adds
-- hook 5 to its own event while in flight (t = 1), another handler adds hook 6 at t = 5, the process finishes at
-- t = 11 and both hooks run then, in that order — and the monitor accepts them; it rejects a trace in which the
-- second hook is missing, and one in which a hook runs that was never attached
example :
    (hookView none 6 (demoLate.initState false)).filterMap
        (fun l => match l with
          | .hookAdd t k => some ("h", t, k)
          | .hookRun c k => some ("H", c, k)
          | .finish c pid => some ("F", c, pid)
          | .start c t => some ("S", c, t)
          | _ => none)
      = [("S", 1, 1), ("h", 1, 5), ("S", 2, 2), ("S", 5, 3), ("h", 1, 6), ("F", 5, 2), ("F", 5, 1), ("F", 11, 0),
         ("H", 11, 5), ("H", 11, 6)] ∧
    hookMonitor (hookView none 6 (demoLate.initState false)) = none ∧
    hookMonitor [Line.start 1 1, Line.hookAdd 1 5, Line.hookAdd 1 6, Line.finish 11 0, Line.hookRun 11 5, Line.created,
                 Line.other] = some "process/hook/not-run-at-finish" ∧
    hookMonitor [Line.start 1 1, Line.finish 11 0, Line.hookRun 11 5] = some "process/hook/ran-without-being-due" := by
  decide

open HappyModel.C02.Spec (Line hookMonitor delayMonitor waitMonitor) in
-- non-vacuity of `process_trace_satisfies_c02_spec`: the one trace of the demo run (23 lines:
-- R / S / h / F / H / c / y / w lines interleaved as written) is accepted by the three monitors
example :
    (c02TraceOf none 6 (demoLate.initState false)).length = 23 ∧
    hookMonitor (c02TraceOf none 6 (demoLate.initState false)) = none ∧
    delayMonitor (c02TraceOf none 6 (demoLate.initState false)) = none ∧
    waitMonitor (c02TraceOf none 6 (demoLate.initState false)) = none := by decide

open HappyModel.C02.Spec (Line delayMonitor waitMonitor) in
-- the monitors are not vacuous: a resumption at the wrong instant, with a value, or without a wait is reported
example :
    delayMonitor [Line.ydelay 4 0 11, Line.resume 12 0 "none" 4] = some "process/delay-resume-at-wrong-time" ∧
    delayMonitor [Line.ydelay 4 0 11, Line.resume 11 0 "n5" 4] = some "process/delay-resume-with-value" ∧
    delayMonitor [Line.resume 11 0 "none" 4] = some "process/resumed-without-pending-delay" ∧
    waitMonitor [Line.wait 1 0 false, Line.resume 5 1 "n1" 0, Line.resume 6 1 "n1" 0] = some "future/resumed-without-wait" := by
  decide


/-! ## the settle fold of the judge on the model's trace (plain futures) -/

-- non-vacuity of `future_before_resolved_silent_on_program_plain`: `demoProg` is plain, its view has the `w` line
-- of the generator (t = 1), the `r` line of the handler that resolves the future (t = 2) and the untagged `R`
-- line of the resumption (t = 2)
example : demoProg.PlainFutures := by decide
example : (futView none 10 (demoProg.initState false)).map futKey = [(2, 0, 0), (1, 0, 0), (3, 2, 0)] := by decide
-- the clause is not vacuous: without the `r` line the same fold raises it
example :
    ((enum [HappyModel.C02.Spec.Line.wait 0 0 false, HappyModel.C02.Spec.Line.resume 2 0 "n7" 0]).foldl
      (fun st p => HappyModel.C02.Spec.stepLine st p.1 p.2) {}).err = some "future/resumed-before-resolved" := by
  decide


-- non-vacuity of `future_clauses_silent_on_program_plain`: `demoProg` qualifies; its future-layer trace is
-- S(1) w(0 on 0) S(2) r(0) R(2, process 0) K(2: the completion hook's event)
example : demoProg.PlainFuturesV := by decide
example : (FV.futTrace none 10 (demoProg.initState false)).map ftKey =
    [(4, 1, 0), (2, 0, 0), (4, 2, 0), (1, 0, 0), (3, 2, 0), (5, 2, 0)] := by decide
-- the clauses are not vacuous: a wrong value, a wrong instant on the same lines make the fold raise them
example :
    ((enum [HappyModel.C02.Spec.Line.start 1 1, .wait 0 0 false, .start 2 2, .resolve 0 (.n 7), .resume 2 0 "n8" 0]).foldl
      (fun st p => HappyModel.C02.Spec.stepLine st p.1 p.2) {}).err = some "future/resumed-with-wrong-value" := by
  decide
example :
    ((enum [HappyModel.C02.Spec.Line.start 1 1, .wait 0 0 false, .start 2 2, .resolve 0 (.n 7), .resume 3 0 "n7" 0]).foldl
      (fun st p => HappyModel.C02.Spec.stepLine st p.1 p.2) {}).err = some "future/resumed-at-wrong-instant" := by
  decide
example :
    ((enum [HappyModel.C02.Spec.Line.start 1 1, .wait 0 0 false, .start 2 2, .resolve 0 (.n 7), .resume 2 0 "n7" 0]).foldl
      (fun st p => HappyModel.C02.Spec.stepLine st p.1 p.2) {}).err = none := by
  decide


-- non-vacuity of `plain_program_full_trace_satisfies_c02_spec`: the full trace of `demoProg` (15 lines: the pre-run
-- `h` line, S w | S r F | R F H c | K and the closing neutral lines) carries the `w`, `r` and untagged `R` lines
-- of the future layer in the order they are written
example : (c02FullTraceOf none 10 (demoProg.initState false)).length = 15 ∧
    ((c02FullTraceOf none 10 (demoProg.initState false)).map ftKey).filter (fun x => x.1 != 0) =
      [(4, 1, 0), (2, 0, 0), (4, 2, 0), (1, 0, 0), (3, 2, 0), (5, 2, 0)] := by decide

end HappyModel.C01
