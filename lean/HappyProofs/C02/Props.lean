import HappyModel.C01.Process
import HappyProofs.C01.Props
/-!
# C02 — property theorems (process layer)

"A handler that returns a generator is advanced step by step: after yielding a delay d it resumes
exactly d seconds of simulated time later, events yielded alongside a delay are scheduled at the
moment of the yield, and the events it returns and its completion hooks take effect exactly once,
at the instant it finishes. A process that yields a future is resumed exactly once, at the instant
the future is resolved (at once if it already was), receiving the resolved value, and resolving
twice has no further effect. any_of resumes with the (index, value) of the first input to resolve and
all_of with every value in argument order once the last input resolves."

The process layer is one `Machine` (`procMachine`) of the engine of C01, so every C01 theorem
(delivery at exactly the event's timestamp, once, in order) applies to continuation events; the
statements below say which continuation events the process layer creates.
-/
namespace HappyModel.C01
set_option linter.unusedVariables false

/-- resolving an already-resolved future has no effect at all -/
theorem resolve_idempotent (fuel : Nat) (e : Eff) (now f : Nat) (v : Val)
    (h : (futGet e.ps.futs f).resolved = true) : resolveFut fuel e now f v = e := by
  cases fuel with
  | zero => rfl
  | succ n => simp [resolveFut, h]

/-- a finished (or unknown) process is never advanced again -/
theorem finished_never_runs (now : Nat) (e : Eff) (pid tag : Nat) (p : Proc)
    (hp : e.ps.procs[pid]? = some p) (hs : p.segs = []) : runSegment now e pid tag = e := by
  simp [runSegment, hp, hs]

/-- `yield d`: the step that executes the yield schedules the continuation of this very process at
    exactly `now + d`, after the side-effect events created in the segment (it is the last spec) -/
theorem yield_delay_schedules (now : Nat) (e : Eff) (pid tag : Nat) (p : Proc) (acts : List Act) (d : Nat)
    (rest : List Seg) (hp : e.ps.procs[pid]? = some p) (hs : p.segs = ⟨acts, .yieldD d⟩ :: rest) :
    ∃ sp, (runSegment now e pid tag).specs.getLast? = some sp ∧
      sp.time = now + d ∧ sp.data = pid + 1 ∧ sp.target = p.ent ∧ sp.kind = p.kind ∧ sp.daemon = p.daemon := by
  simp only [runSegment, hp, hs]
  simp [Eff.push, contSpec]

/-- return: in the step in which the generator finishes, the process is marked done, its (shared,
    one-shot) hook list is emptied and it has no remaining segment, so no later step can run its
    hooks or its return again (`finished_never_runs`) -/
theorem ret_finishes (now : Nat) (e : Eff) (pid tag : Nat) (p : Proc) (rest : List Seg)
    (hp : e.ps.procs[pid]? = some p) (hs : p.segs = ⟨[], .ret⟩ :: rest) :
    ∃ q, (runSegment now e pid tag).ps.procs[pid]? = some q ∧ q.done = true ∧ q.hooks = [] ∧ q.segs = [] := by
  have hlen : pid < e.ps.procs.length := by
    rcases Nat.lt_or_ge pid e.ps.procs.length with h | h
    · exact h
    · rw [List.getElem?_eq_none h] at hp; simp at hp
  simp only [runSegment, hp, hs, List.foldl_nil]
  have hh : ∀ (hooks : List Nat) (x : Eff), (runHooks now x hooks).ps.procs = x.ps.procs := by
    intro hooks
    induction hooks with
    | nil => intro x; rfl
    | cons h t ih =>
      intro x
      simp only [runHooks, List.foldl_cons] at ih ⊢
      rw [ih]
      simp [addObs, Eff.push]
  rw [hh]
  by_cases hst : p.started = true <;> simp [hst, addObs, hlen]

end HappyModel.C01
